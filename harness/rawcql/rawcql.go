// Package rawcql is the client-side observation point: a raw-socket CQL client that encodes frames itself, never waits
// for a reply unless told to, and records every frame the proxy sends back. The send event is logged before the write
// syscall and the receive event after the frame is complete (call/return at the boundary).
package rawcql

import (
	"bytes"
	"crypto/tls"
	"encoding/binary"
	"errors"
	"fmt"
	"io"
	"net"
	"strings"
	"sync"
	"sync/atomic"
	"time"

	"github.com/datastax/go-cassandra-native-protocol/compression/lz4"
	"github.com/datastax/go-cassandra-native-protocol/compression/snappy"
	"github.com/datastax/go-cassandra-native-protocol/frame"
	"github.com/datastax/go-cassandra-native-protocol/message"
	"github.com/datastax/go-cassandra-native-protocol/primitive"

	"verif/fakecass"
	"verif/mon"
)

var (
	Plain  = frame.NewRawCodec()
	Lz4    = frame.NewRawCodecWithCompression(&lz4.Compressor{})
	Snappy = frame.NewRawCodecWithCompression(&snappy.Compressor{})
)

func CodecFor(comp string) frame.RawCodec {
	switch strings.ToLower(comp) {
	case "lz4":
		return Lz4
	case "snappy":
		return Snappy
	}
	return Plain
}

// Frame is a received frame.
type Frame struct {
	L          int64
	IsResponse bool
	Version    primitive.ProtocolVersion
	Flags      primitive.HeaderFlag
	Stream     int16
	OpCode     primitive.OpCode
	Body       []byte // raw (possibly compressed)
}

type Client struct {
	ID       int
	nc       net.Conn
	log      *mon.Log
	Version  primitive.ProtocolVersion
	Comp     string // compression negotiated by Handshake ("" none)
	wmu      sync.Mutex
	mu       sync.Mutex
	recv     []*Frame
	waiters  map[int16][]chan *Frame
	byStr    map[int16][]*Frame
	closed   chan struct{}
	rerr     error
	nrecv    int64
	closing  int32
	ngarbage int64
	onFrame  atomic.Value // func(*Frame): optional online monitor
}

// SetOnFrame installs a callback invoked (on the reader goroutine) for every received frame.
func (c *Client) SetOnFrame(f func(*Frame)) { c.onFrame.Store(f) }

var clientSeq int32

func Dial(addr string, version primitive.ProtocolVersion, log *mon.Log) (*Client, error) {
	return DialTLS(addr, version, log, nil)
}

// DialTLS is Dial through a TLS client handshake (cfg != nil), for proxies that listen with --proxy-cert-file.
func DialTLS(addr string, version primitive.ProtocolVersion, log *mon.Log, cfg *tls.Config) (*Client, error) {
	nc, err := net.DialTimeout("tcp", addr, 10*time.Second)
	if err != nil {
		return nil, err
	}
	if t, ok := nc.(*net.TCPConn); ok {
		_ = t.SetNoDelay(true)
	}
	if cfg != nil {
		tc := tls.Client(nc, cfg)
		_ = tc.SetDeadline(time.Now().Add(10 * time.Second))
		if err := tc.Handshake(); err != nil {
			_ = nc.Close()
			return nil, err
		}
		_ = tc.SetDeadline(time.Time{})
		nc = tc
	}
	c := &Client{ID: int(atomic.AddInt32(&clientSeq, 1)), nc: nc, log: log, Version: version, waiters: map[int16][]chan *Frame{},
		byStr: map[int16][]*Frame{}, closed: make(chan struct{})}
	go c.reader()
	return c, nil
}

func (c *Client) reader() {
	defer close(c.closed)
	hb := make([]byte, 9)
	for {
		if _, err := io.ReadFull(c.nc, hb[:1]); err != nil {
			c.rerr = err
			break
		}
		v := primitive.ProtocolVersion(hb[0] & 0x7f)
		f := &Frame{IsResponse: hb[0]&0x80 != 0, Version: v}
		var blen int32
		if v < primitive.ProtocolVersion3 { // v1/v2: 8-byte header, 1-byte stream
			if _, err := io.ReadFull(c.nc, hb[1:8]); err != nil {
				c.rerr = err
				break
			}
			f.Flags = primitive.HeaderFlag(hb[1])
			f.Stream = int16(int8(hb[2]))
			f.OpCode = primitive.OpCode(hb[3])
			blen = int32(binary.BigEndian.Uint32(hb[4:8]))
		} else {
			if _, err := io.ReadFull(c.nc, hb[1:9]); err != nil {
				c.rerr = err
				break
			}
			f.Flags = primitive.HeaderFlag(hb[1])
			f.Stream = int16(binary.BigEndian.Uint16(hb[2:4]))
			f.OpCode = primitive.OpCode(hb[4])
			blen = int32(binary.BigEndian.Uint32(hb[5:9]))
		}
		if blen < 0 || blen > 512<<20 || !f.IsResponse || !responseOpcode(f.OpCode) {
			// not a response frame: the byte stream from the proxy is out of step (or was never one). Recorded for the
			// oracles, and the connection is given up - nothing behind this point can be framed any more.
			hl := 9
			if v < primitive.ProtocolVersion3 {
				hl = 8
			}
			junk := append([]byte{}, hb[:hl]...)
			more := make([]byte, 64)
			_ = c.nc.SetReadDeadline(time.Now().Add(50 * time.Millisecond))
			n, _ := c.nc.Read(more)
			junk = append(junk, more[:n]...)
			c.log.Add(mon.Event{Src: "client", K: "garbage", Cl: c.ID, Ver: int(f.Version), Fl: int(f.Flags), St: int(f.Stream), Op: int(f.OpCode), Body: junk,
				Note: fmt.Sprintf("not a response frame: response-bit=%v version=%d opcode=0x%02x announced body length=%d", f.IsResponse, f.Version, int(f.OpCode), blen)})
			atomic.AddInt64(&c.ngarbage, 1)
			c.rerr = fmt.Errorf("bytes that are not a response frame (opcode 0x%02x, length %d)", int(f.OpCode), blen)
			_ = c.nc.Close()
			break
		}
		f.Body = make([]byte, blen)
		if _, err := io.ReadFull(c.nc, f.Body); err != nil {
			c.rerr = err
			break
		}
		f.L = c.log.Add(mon.Event{Src: "client", K: "recv", Cl: c.ID, Ver: int(f.Version), Fl: int(f.Flags), St: int(f.Stream), Op: int(f.OpCode), Body: f.Body})
		atomic.AddInt64(&c.nrecv, 1)
		c.mu.Lock()
		c.recv = append(c.recv, f)
		c.byStr[f.Stream] = append(c.byStr[f.Stream], f)
		ws := c.waiters[f.Stream]
		if len(ws) > 0 {
			c.waiters[f.Stream] = ws[1:]
		}
		c.mu.Unlock()
		if len(ws) > 0 {
			ws[0] <- f
		}
		if cb, ok := c.onFrame.Load().(func(*Frame)); ok && cb != nil {
			cb(f)
		}
	}
	c.log.Add(mon.Event{Src: "client", K: "closed", Cl: c.ID, Note: fmt.Sprint(c.rerr)})
}

// responseOpcode: the opcodes a server may send.
func responseOpcode(op primitive.OpCode) bool {
	switch op {
	case primitive.OpCodeError, primitive.OpCodeReady, primitive.OpCodeAuthenticate, primitive.OpCodeSupported, primitive.OpCodeResult,
		primitive.OpCodeEvent, primitive.OpCodeAuthChallenge, primitive.OpCodeAuthSuccess:
		return true
	}
	return false
}

// Garbage is the number of times the reader met bytes that are not a response frame (at most 1: it gives up then).
func (c *Client) Garbage() int64 { return atomic.LoadInt64(&c.ngarbage) }

func (c *Client) Closed() <-chan struct{} { return c.closed }
func (c *Client) IsClosed() bool {
	if atomic.LoadInt32(&c.closing) != 0 { // closed from this side: true at once, not only when the reader has noticed
		return true
	}
	select {
	case <-c.closed:
		return true
	default:
		return false
	}
}
func (c *Client) Close()            { atomic.StoreInt32(&c.closing, 1); _ = c.nc.Close() }
func (c *Client) LocalAddr() string { return c.nc.LocalAddr().String() }
func (c *Client) Received() int64   { return atomic.LoadInt64(&c.nrecv) }

// ForgetFrames drops everything received so far (bulk traffic whose replies were already looked at).
func (c *Client) ForgetFrames() {
	c.mu.Lock()
	c.recv = nil
	c.byStr = map[int16][]*Frame{}
	c.mu.Unlock()
}

// Frames returns a copy of everything received so far.
func (c *Client) Frames() []*Frame {
	c.mu.Lock()
	defer c.mu.Unlock()
	out := make([]*Frame, len(c.recv))
	copy(out, c.recv)
	return out
}

// OnStream returns the frames received so far on a stream.
func (c *Client) OnStream(s int16) []*Frame {
	c.mu.Lock()
	defer c.mu.Unlock()
	out := make([]*Frame, len(c.byStr[s]))
	copy(out, c.byStr[s])
	return out
}

// SendRaw writes arbitrary bytes (hostile input); logged as a send event.
func (c *Client) SendRaw(b []byte, note string) error {
	c.wmu.Lock()
	defer c.wmu.Unlock()
	c.log.Add(mon.Event{Src: "client", K: "sendraw", Cl: c.ID, Note: note, Body: b})
	_, err := c.nc.Write(b)
	return err
}

// EncodeHeader builds a 9-byte v3+ request header.
func EncodeHeader(version primitive.ProtocolVersion, flags primitive.HeaderFlag, stream int16, op primitive.OpCode, bodyLen int) []byte {
	h := make([]byte, 9)
	h[0] = byte(version) & 0x7f
	h[1] = byte(flags)
	binary.BigEndian.PutUint16(h[2:4], uint16(stream))
	h[4] = byte(op)
	binary.BigEndian.PutUint32(h[5:9], uint32(bodyLen))
	return h
}

// SendFrame writes one frame with the given raw body (already compressed if the flag says so).
func (c *Client) SendFrame(version primitive.ProtocolVersion, flags primitive.HeaderFlag, stream int16, op primitive.OpCode, body []byte) error {
	b := append(EncodeHeader(version, flags, stream, op, len(body)), body...)
	c.wmu.Lock()
	defer c.wmu.Unlock()
	c.log.Add(mon.Event{Src: "client", K: "send", Cl: c.ID, Ver: int(version), Fl: int(flags), St: int(stream), Op: int(op), Tok: fakecass.FindToken(bodyPlain(c.Comp, flags, body)), Body: body})
	_, err := c.nc.Write(b)
	return err
}

func bodyPlain(comp string, flags primitive.HeaderFlag, body []byte) []byte {
	if flags.Contains(primitive.HeaderFlagCompressed) {
		if p, err := fakecass.Decompress(comp, body); err == nil {
			return p
		}
	}
	return body
}

// Encode encodes a message into (flags, body) for this client's version and compression using the reference codec.
func (c *Client) Encode(f *frame.Frame) (primitive.HeaderFlag, []byte, error) {
	return EncodeWith(c.Comp, f)
}

func EncodeWith(comp string, f *frame.Frame) (primitive.HeaderFlag, []byte, error) {
	codec := CodecFor(comp)
	if comp != "" {
		f.SetCompress(true)
	}
	var buf bytes.Buffer
	if err := codec.EncodeFrame(f, &buf); err != nil {
		return 0, nil, err
	}
	b := buf.Bytes()
	flags, body := primitive.HeaderFlag(b[1]), b[9:]
	if strings.EqualFold(comp, "lz4") && flags.Contains(primitive.HeaderFlagCompressed) {
		// the library's compressor can emit an invalid block, or a valid one that decodes to other bytes: never send a
		// malformed frame by accident (the client's frames are the "well-formed requests" of the oracles)
		body = fakecass.ValidLz4Body(body)
		f.SetCompress(false)
		var pbuf bytes.Buffer
		if perr := Plain.EncodeFrame(f, &pbuf); perr == nil {
			body = fakecass.Lz4BodyFor(pbuf.Bytes()[9:], body)
		}
		f.SetCompress(true)
	}
	return flags, body, nil
}

// Send encodes msg with the reference codec and sends it on the stream.
func (c *Client) Send(stream int16, msg message.Message) error {
	f := frame.NewFrame(c.Version, stream, msg)
	return c.SendF(f)
}

// SendF sends a prepared reference frame (header flags / payload already set by the caller).
func (c *Client) SendF(f *frame.Frame) error {
	flags, body, err := c.Encode(f)
	if err != nil {
		return err
	}
	return c.SendFrame(f.Header.Version, flags, f.Header.StreamId, f.Header.OpCode, body)
}

var ErrTimeout = errors.New("timeout waiting for reply")
var ErrClosed = errors.New("connection closed while waiting for reply")

// Expect registers interest in the next frame on the stream; must be called before sending to avoid a lost wake-up.
func (c *Client) Expect(stream int16) chan *Frame {
	ch := make(chan *Frame, 1)
	c.mu.Lock()
	c.waiters[stream] = append(c.waiters[stream], ch)
	c.mu.Unlock()
	return ch
}

func (c *Client) Wait(ch chan *Frame, d time.Duration) (*Frame, error) {
	t := time.NewTimer(d)
	defer t.Stop()
	select {
	case f := <-ch:
		return f, nil
	case <-c.closed:
		select {
		case f := <-ch:
			return f, nil
		default:
		}
		return nil, ErrClosed
	case <-t.C:
		return nil, ErrTimeout
	}
}

// Call sends msg and waits for the reply on the same stream.
func (c *Client) Call(stream int16, msg message.Message, d time.Duration) (*Frame, error) {
	ch := c.Expect(stream)
	if err := c.Send(stream, msg); err != nil {
		return nil, err
	}
	return c.Wait(ch, d)
}

func (c *Client) CallF(f *frame.Frame, d time.Duration) (*Frame, error) {
	ch := c.Expect(f.Header.StreamId)
	if err := c.SendF(f); err != nil {
		return nil, err
	}
	return c.Wait(ch, d)
}

// Decode decodes a received frame with the reference codec for this client's compression.
func (c *Client) Decode(f *Frame) (*frame.Frame, error) { return DecodeWith(c.Comp, f) }

func DecodeWith(comp string, f *Frame) (*frame.Frame, error) {
	raw := &frame.RawFrame{Header: &frame.Header{IsResponse: f.IsResponse, Version: f.Version, Flags: f.Flags, StreamId: f.Stream, OpCode: f.OpCode, BodyLength: int32(len(f.Body))}, Body: f.Body}
	return CodecFor(comp).ConvertFromRawFrame(raw)
}

// Handshake does OPTIONS-less STARTUP (+compression) like a driver; returns an error unless READY arrives.
func (c *Client) Handshake(comp string, d time.Duration) error {
	opts := map[string]string{"CQL_VERSION": "3.0.0"}
	if comp != "" {
		opts["COMPRESSION"] = comp
	}
	f, err := c.Call(0, &message.Startup{Options: opts}, d)
	if err != nil {
		return err
	}
	if f.OpCode != primitive.OpCodeReady {
		return fmt.Errorf("handshake: expected READY got opcode %v", f.OpCode)
	}
	c.Comp = strings.ToLower(comp)
	return nil
}

// Options performs one OPTIONS round trip (used as a logical step proving the proxy's client reader/writer ran).
func (c *Client) Options(stream int16, d time.Duration) error {
	f, err := c.Call(stream, &message.Options{}, d)
	if err != nil {
		return err
	}
	if f.OpCode != primitive.OpCodeSupported {
		return fmt.Errorf("options: got opcode %v", f.OpCode)
	}
	return nil
}
