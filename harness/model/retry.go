// Package model holds the small executable reference models observed histories are compared with. They are written
// from the documentation (README, doc comments of retrypolicy.go, the property texts), not from request.go.
package model

// Outcome of one backend attempt as the backend (fakecass) scripted it.
type Outcome string

const (
	Rows             Outcome = "Rows"
	Void             Outcome = "Void"
	Prepared         Outcome = "Prepared"
	Unavailable      Outcome = "Unavailable"
	ReadTimeoutRetry Outcome = "ReadTimeout:enough-nodata" // received >= blockFor, data not present
	ReadTimeoutData  Outcome = "ReadTimeout:data"          // data present
	ReadTimeoutFew   Outcome = "ReadTimeout:few"           // received < blockFor
	WriteTimeoutLog  Outcome = "WriteTimeout:BATCH_LOG"
	WriteTimeoutSimp Outcome = "WriteTimeout:SIMPLE"
	WriteTimeoutBat  Outcome = "WriteTimeout:BATCH"
	WriteTimeoutUnl  Outcome = "WriteTimeout:UNLOGGED_BATCH"
	WriteTimeoutCnt  Outcome = "WriteTimeout:COUNTER"
	WriteTimeoutCas  Outcome = "WriteTimeout:CAS"
	Bootstrapping    Outcome = "IsBootstrapping"
	Overloaded       Outcome = "Overloaded"
	ServerError      Outcome = "ServerError"
	Truncate         Outcome = "TruncateError"
	ReadFailure      Outcome = "ReadFailure"
	WriteFailure     Outcome = "WriteFailure"
	Invalid          Outcome = "Invalid"
	Syntax           Outcome = "SyntaxError"
	Unauthorized     Outcome = "Unauthorized"
	AlreadyExists    Outcome = "AlreadyExists"
	FunctionFailure  Outcome = "FunctionFailure"
	ConfigError      Outcome = "ConfigError"
	ProtocolError    Outcome = "ProtocolError"
	WriteFailureCas  Outcome = "WriteFailure:CAS"    // a failed lightweight transaction (the reference codec of the proxy's library refuses to decode this write type)
	UnknownErrorCode Outcome = "UnknownError:0x1700" // CAS_WRITE_UNKNOWN, an error code of protocol v5 the library does not know
	ConnLost         Outcome = "ConnLost"            // request was read by the backend, connection dropped without a reply
)

// AllOutcomes is the alphabet the fault enumeration draws from.
var AllOutcomes = []Outcome{Rows, Void, Unavailable, ReadTimeoutRetry, ReadTimeoutData, ReadTimeoutFew, WriteTimeoutLog, WriteTimeoutSimp,
	Bootstrapping, Overloaded, ServerError, Truncate, ReadFailure, WriteFailure, Invalid, Unauthorized, ConnLost, WriteFailureCas, UnknownErrorCode}

// CoreOutcomes is a reduced alphabet with one representative per policy branch (used for deeper exhaustive trees).
var CoreOutcomes = []Outcome{Rows, Unavailable, ReadTimeoutRetry, ReadTimeoutData, WriteTimeoutLog, WriteTimeoutSimp, Bootstrapping,
	Overloaded, WriteFailure, Invalid, ConnLost}

// Decision of the documented policy.
type Decision int

const (
	Return Decision = iota // relay this outcome to the client
	RetrySame
	RetryNext
	ConnLostError // proxy-made "connection closed" error to the client (non-idempotent request lost its connection)
)

// Decide is the documented default policy: what to do after outcome o for a request of the given idempotency class
// that has already been retried `retries` times.
func Decide(o Outcome, idem bool, retries int) Decision {
	switch o {
	case ReadTimeoutRetry:
		if retries == 0 {
			return RetrySame
		}
		return Return
	case ReadTimeoutData, ReadTimeoutFew:
		return Return
	case WriteTimeoutLog:
		if idem && retries == 0 {
			return RetrySame
		}
		return Return
	case WriteTimeoutSimp, WriteTimeoutBat, WriteTimeoutUnl, WriteTimeoutCnt, WriteTimeoutCas:
		return Return
	case Unavailable:
		if retries == 0 {
			return RetryNext
		}
		return Return
	case Bootstrapping:
		return RetryNext
	case Overloaded, ServerError, Truncate:
		if idem {
			return RetryNext
		}
		return Return
	case ReadFailure, WriteFailure, WriteFailureCas, UnknownErrorCode:
		return Return // "no retry otherwise": this includes errors the proxy cannot make sense of
	case ConnLost:
		if idem {
			return RetryNext
		}
		return ConnLostError
	}
	return Return
}

// ConsumesRetry tells whether following the decision counts as a policy-driven retry.
func ConsumesRetry(o Outcome) bool { return o != ConnLost }

// Final verdicts of a run.
const (
	FinalRelay       = "relay"         // the client gets the last outcome's frame
	FinalNoMoreHosts = "no-more-hosts" // the proxy's own "exhausted query plan" error
	FinalConnLost    = "conn-lost"     // the proxy's own "unable to retry non-idempotent query after connection closed" error
	FinalIncomplete  = "incomplete"    // the outcome sequence ran out before the run ended
)

// Run executes the documented policy over a plan of n hosts (positions 0..n-1) and the given outcome sequence.
// It returns the plan position of every attempt, how many outcomes were consumed, and the final verdict.
func Run(n int, idem bool, outcomes []Outcome) (positions []int, used int, final string) {
	pos, retries := 0, 0
	for {
		if pos >= n {
			return positions, used, FinalNoMoreHosts
		}
		if used >= len(outcomes) {
			return positions, used, FinalIncomplete
		}
		o := outcomes[used]
		used++
		positions = append(positions, pos)
		switch Decide(o, idem, retries) {
		case Return:
			return positions, used, FinalRelay
		case ConnLostError:
			return positions, used, FinalConnLost
		case RetrySame:
			retries++
		case RetryNext:
			if ConsumesRetry(o) {
				retries++
			}
			pos++
		}
	}
}

// MayHaveBeenApplied tells whether, after this outcome, the attempt may have been applied by the backend
// (C04: a request not positively idempotent must not be sent again after such an outcome).
func MayHaveBeenApplied(o Outcome) bool {
	switch o {
	case Unavailable, Bootstrapping, ReadTimeoutRetry, ReadTimeoutData, ReadTimeoutFew:
		return false
	}
	return true
}
