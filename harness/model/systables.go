// systables.go — reference model of the proxy's virtual system.local / system.peers tables (property C10).
//
// Everything here is computed from the configuration (rpc-address, data-center, tokens, peers) and the facts the backend
// serves in its own system.local; nothing is taken from the code under test. Where the property leaves a value open
// (calculated tokens, host ids, schema_version, rack, cluster_name) the model states the RULE the value has to obey
// instead of a value.
package model

import (
	"bytes"
	"crypto/md5"
	"encoding/hex"
	"errors"
	"fmt"
	"math/big"
	"net"
	"sort"
	"strings"
)

// ---------------------------------------------------------------------------------------------------------------------
// configuration → ring

type PeerSpec struct {
	Addr   string   `json:"addr"`
	DC     string   `json:"dc,omitempty"`
	Tokens []string `json:"tokens,omitempty"`
}

type BackendFacts struct {
	DC              string // data_center of the backend's system.local
	ReleaseVersion  string
	Partitioner     string
	CQLVersion      string
	DSEVersion      string // "" = not a DSE backend
	ProtocolVersion int    // version negotiated between proxy and backend
}

type RingConfig struct {
	RPCAddr    string // "" → the listener's local IP
	ListenerIP string
	DC         string
	Tokens     []string
	Peers      []PeerSpec
	Backend    BackendFacts
}

type RingNode struct {
	IP     net.IP // 16-byte form
	Key    string // hex of the 16 bytes: THE identity of an address (10.0.0.1 and ::ffff:10.0.0.1 are one address)
	DC     string
	Tokens []string // explicit tokens; nil when the ring's tokens are calculated
	Rank   int      // position in 128-bit address order
	Self   bool
}

type Ring struct {
	Nodes      []*RingNode // in address order
	Self       *RingNode
	Calculated bool // tokens not configured: only the rules of CheckCalculatedTokens apply
	Facts      BackendFacts
}

// ErrConfig: the configuration is one the proxy has to refuse. ErrUndefined: the property does not say what it means.
var (
	ErrConfig    = errors.New("configuration error")
	ErrUndefined = errors.New("configuration outside the property's domain")
)

// AddrKey parses an IP literal and returns its identity.
func AddrKey(text string) (string, net.IP, error) {
	if strings.Contains(text, "%") {
		return "", nil, fmt.Errorf("%w: zoned address %q", ErrUndefined, text)
	}
	ip := net.ParseIP(text)
	if ip == nil {
		return "", nil, fmt.Errorf("%w: %q is not an IP literal", ErrConfig, text)
	}
	ip = ip.To16()
	return hex.EncodeToString(ip), ip, nil
}

// CompareAddr orders addresses as 128-bit numbers (IPv4 sits at ::ffff:a.b.c.d).
func CompareAddr(a, b net.IP) int { return bytes.Compare(a.To16(), b.To16()) }

func BuildRing(cfg RingConfig) (*Ring, error) {
	selfText := cfg.RPCAddr
	if selfText == "" {
		if len(cfg.Peers) > 0 {
			return nil, fmt.Errorf("%w: peers without rpc-address", ErrConfig)
		}
		selfText = cfg.ListenerIP
	}
	key, ip, err := AddrKey(selfText)
	if err != nil {
		return nil, err
	}
	r := &Ring{Facts: cfg.Backend, Calculated: len(cfg.Tokens) == 0}
	dcSelf := cfg.DC
	if dcSelf == "" {
		dcSelf = cfg.Backend.DC
	}
	r.Self = &RingNode{IP: ip, Key: key, DC: dcSelf, Self: true}
	if !r.Calculated {
		r.Self.Tokens = append([]string{}, cfg.Tokens...)
	}
	r.Nodes = append(r.Nodes, r.Self)
	seen := map[string]bool{key: true}
	for _, p := range cfg.Peers {
		k, pip, err := AddrKey(p.Addr)
		if err != nil {
			return nil, err
		}
		if k == key {
			continue // the proxy's own entry
		}
		if seen[k] {
			return nil, fmt.Errorf("%w: address %s listed twice", ErrUndefined, p.Addr)
		}
		seen[k] = true
		n := &RingNode{IP: pip, Key: k, DC: p.DC}
		if n.DC == "" {
			n.DC = dcSelf
		}
		if !r.Calculated {
			if len(p.Tokens) == 0 {
				return nil, fmt.Errorf("%w: tokens for this proxy but not for peer %s", ErrConfig, p.Addr)
			}
			n.Tokens = append([]string{}, p.Tokens...)
		} else if len(p.Tokens) > 0 {
			return nil, fmt.Errorf("%w: tokens for peer %s but not for this proxy", ErrUndefined, p.Addr)
		}
		r.Nodes = append(r.Nodes, n)
	}
	sort.SliceStable(r.Nodes, func(i, j int) bool { return CompareAddr(r.Nodes[i].IP, r.Nodes[j].IP) < 0 })
	for i, n := range r.Nodes {
		n.Rank = i
	}
	return r, nil
}

func (r *Ring) Node(key string) *RingNode {
	for _, n := range r.Nodes {
		if n.Key == key {
			return n
		}
	}
	return nil
}

// Peers returns the nodes other than self, in address order.
func (r *Ring) Peers() []*RingNode {
	var out []*RingNode
	for _, n := range r.Nodes {
		if !n.Self {
			out = append(out, n)
		}
	}
	return out
}

// RowCount is the number of rows of a virtual table.
func (r *Ring) RowCount(table string) int {
	if table == "local" {
		return 1
	}
	return len(r.Nodes) - 1
}

// ---------------------------------------------------------------------------------------------------------------------
// tokens

const MinToken = "-9223372036854775808"

// CheckCalculatedTokens applies the rules for non-configured tokens to what one instance presented (key → tokens):
// one token per node, all distinct, increasing in address order, the smallest address holding the minimum token.
// Returned codes are stable names of the broken rule.
func (r *Ring) CheckCalculatedTokens(presented map[string][]string) []string {
	var probs []string
	add := func(p string) {
		for _, q := range probs {
			if q == p {
				return
			}
		}
		probs = append(probs, p)
	}
	var prev *big.Int
	seen := map[string]bool{}
	for _, n := range r.Nodes {
		toks, ok := presented[n.Key]
		if !ok {
			continue // not presented (checked elsewhere)
		}
		if len(toks) != 1 {
			add("not-one-token-per-node")
			continue
		}
		v, ok := new(big.Int).SetString(toks[0], 10)
		if !ok || !v.IsInt64() {
			add("token-not-an-int64")
			continue
		}
		if seen[v.String()] {
			add("tokens-not-distinct")
		}
		seen[v.String()] = true
		if n.Rank == 0 && toks[0] != MinToken {
			add("min-token-not-on-smallest-address")
		}
		if prev != nil && v.Cmp(prev) <= 0 {
			add("tokens-not-increasing-in-address-order")
		}
		prev = v
	}
	return probs
}

// ---------------------------------------------------------------------------------------------------------------------
// host ids

// CheckHostIDShape: version-3 (name based, MD5) and RFC 4122 variant.
func CheckHostIDShape(u [16]byte) string {
	if u[6]>>4 != 3 {
		return "not-version-3"
	}
	if u[8]&0xC0 != 0x80 {
		return "not-rfc-variant"
	}
	return ""
}

// MD5NameUUID is the plain "MD5 of the name" version-3 uuid (no namespace) — used as a cross-check only.
func MD5NameUUID(name string) [16]byte {
	s := md5.Sum([]byte(name))
	s[6] = s[6]&0x0f | 0x30
	s[8] = s[8]&0x3f | 0x80
	return s
}

// ---------------------------------------------------------------------------------------------------------------------
// columns

type SysColumn struct {
	Name     string
	Type     string // CQL type text: varchar, inet, uuid, set<varchar>
	Optional bool   // may or may not be advertised (the property does not say)
}

// SystemColumns is the SET of columns the property talks about (the order is whatever the proxy advertises for `*`).
func SystemColumns(table string, dse bool) []SysColumn {
	var cols []SysColumn
	if table == "local" {
		cols = []SysColumn{{Name: "key", Type: "varchar"}, {Name: "rpc_address", Type: "inet"}, {Name: "data_center", Type: "varchar"},
			{Name: "rack", Type: "varchar"}, {Name: "tokens", Type: "set<varchar>"}, {Name: "release_version", Type: "varchar"},
			{Name: "partitioner", Type: "varchar"}, {Name: "cluster_name", Type: "varchar"}, {Name: "cql_version", Type: "varchar"},
			{Name: "schema_version", Type: "uuid"}, {Name: "native_protocol_version", Type: "varchar"}, {Name: "host_id", Type: "uuid"}}
		if dse {
			cols = append(cols, SysColumn{Name: "dse_version", Type: "varchar"})
		}
		return cols
	}
	cols = []SysColumn{{Name: "peer", Type: "inet"}, {Name: "rpc_address", Type: "inet"}, {Name: "data_center", Type: "varchar"},
		{Name: "rack", Type: "varchar"}, {Name: "tokens", Type: "set<varchar>"}, {Name: "release_version", Type: "varchar"},
		{Name: "schema_version", Type: "uuid"}, {Name: "host_id", Type: "uuid"}}
	if dse {
		cols = append(cols, SysColumn{Name: "dse_version", Type: "varchar", Optional: true})
	}
	return cols
}

// ---------------------------------------------------------------------------------------------------------------------
// expected cell values

type WantKind int

const (
	WantText        WantKind = iota // exactly Text
	WantSomeText                    // a non-empty string (value not fixed by the property)
	WantAddr                        // the address Key
	WantTokens                      // explicit: the set Tokens; calculated: rules
	WantHostID                      // version-3 uuid, function of the address
	WantAnyUUID                     // any 16-byte uuid
	WantProtoDigits                 // text naming the negotiated protocol version
)

type Want struct {
	Kind   WantKind
	Text   string
	Key    string
	Tokens []string // nil with WantTokens = calculated
}

// Expect returns what the cell of column col has to hold in the row of node n of the given table.
func (r *Ring) Expect(table string, n *RingNode, col string) (Want, bool) {
	switch col {
	case "key":
		return Want{Kind: WantText, Text: "local"}, table == "local"
	case "peer":
		return Want{Kind: WantAddr, Key: n.Key}, table == "peers"
	case "rpc_address":
		return Want{Kind: WantAddr, Key: n.Key}, true
	case "data_center":
		return Want{Kind: WantText, Text: n.DC}, true
	case "rack":
		return Want{Kind: WantSomeText}, true
	case "tokens":
		return Want{Kind: WantTokens, Tokens: n.Tokens}, true
	case "host_id":
		return Want{Kind: WantHostID, Key: n.Key}, true
	case "schema_version":
		return Want{Kind: WantAnyUUID}, true
	case "release_version":
		return Want{Kind: WantText, Text: r.Facts.ReleaseVersion}, true
	case "partitioner":
		return Want{Kind: WantText, Text: r.Facts.Partitioner}, table == "local"
	case "cql_version":
		return Want{Kind: WantText, Text: r.Facts.CQLVersion}, table == "local"
	case "cluster_name":
		return Want{Kind: WantSomeText}, table == "local"
	case "native_protocol_version":
		return Want{Kind: WantProtoDigits, Text: fmt.Sprint(r.Facts.ProtocolVersion)}, table == "local"
	case "dse_version":
		return Want{Kind: WantText, Text: r.Facts.DSEVersion}, r.Facts.DSEVersion != ""
	}
	return Want{}, false
}

// ---------------------------------------------------------------------------------------------------------------------
// selectors and projection

type SelKind string

const (
	SelColumn    SelKind = "col"
	SelStar      SelKind = "*"
	SelCountStar SelKind = "count(*)"
	SelCountCol  SelKind = "count(col)"
	SelNow       SelKind = "now()"
)

type Selector struct {
	Kind  SelKind `json:"kind"`
	Col   string  `json:"col,omitempty"`
	Alias string  `json:"alias,omitempty"`
}

func (s Selector) CQL() string {
	var t string
	switch s.Kind {
	case SelColumn:
		t = s.Col
	case SelStar:
		return "*"
	case SelCountStar:
		t = "count(*)"
	case SelCountCol:
		t = "count(" + s.Col + ")"
	case SelNow:
		t = "now()"
	}
	if s.Alias != "" {
		t += " AS " + s.Alias
	}
	return t
}

// Shape is the selector's contribution to a case-shape key.
func (s Selector) Shape() string {
	t := string(s.Kind)
	if s.Alias != "" {
		t += "@"
	}
	return t
}

func SelectCQL(sels []Selector, table string) string {
	parts := make([]string, len(sels))
	for i, s := range sels {
		parts[i] = s.CQL()
	}
	return "SELECT " + strings.Join(parts, ", ") + " FROM system." + table
}

func ListShape(sels []Selector) string {
	parts := make([]string, len(sels))
	for i, s := range sels {
		parts[i] = s.Shape()
	}
	return strings.Join(parts, ",")
}

// OutColumn is one column of the projected result.
type OutColumn struct {
	Kind   SelKind
	Source string // column the cell comes from (SelColumn and `*`), argument for count(col)
	Name   string // "" = the property does not fix the name (function results without alias)
	Type   string // "" = not fixed by the property (count: some integer type)
}

// Project evaluates a selector list left to right over the advertised columns.
func Project(sels []Selector, advertised []SysColumn) ([]OutColumn, error) {
	find := func(name string) *SysColumn {
		for i := range advertised {
			if advertised[i].Name == name {
				return &advertised[i]
			}
		}
		return nil
	}
	var out []OutColumn
	for _, s := range sels {
		switch s.Kind {
		case SelStar:
			for _, c := range advertised {
				out = append(out, OutColumn{Kind: SelStar, Source: c.Name, Name: c.Name, Type: c.Type})
			}
		case SelColumn:
			c := find(s.Col)
			if c == nil {
				return nil, fmt.Errorf("column %s is not advertised", s.Col)
			}
			name := c.Name
			if s.Alias != "" {
				name = s.Alias
			}
			out = append(out, OutColumn{Kind: SelColumn, Source: c.Name, Name: name, Type: c.Type})
		case SelCountStar:
			out = append(out, OutColumn{Kind: SelCountStar, Name: s.Alias})
		case SelCountCol:
			if find(s.Col) == nil {
				return nil, fmt.Errorf("column %s is not advertised", s.Col)
			}
			out = append(out, OutColumn{Kind: SelCountCol, Source: s.Col, Name: s.Alias})
		case SelNow:
			out = append(out, OutColumn{Kind: SelNow, Name: s.Alias, Type: "timeuuid"})
		default:
			return nil, fmt.Errorf("unknown selector kind %q", s.Kind)
		}
	}
	return out, nil
}

// Aggregate reports whether the list contains a count(...).
func Aggregate(sels []Selector) bool {
	for _, s := range sels {
		if s.Kind == SelCountStar || s.Kind == SelCountCol {
			return true
		}
	}
	return false
}
