// Package fakecass is a scriptable Cassandra at raw-frame level: the backend-side observation point of the harness.
// It logs every frame received and sent, answers system.local/system.peers from a mutable topology table, keeps
// per-connection state as a real node does (version, compression, keyspace, registration), remembers prepared ids per
// host, and lets a script decide what happens to the k-th arrival of a tokenised data request.
package fakecass

import (
	"bytes"
	"crypto/md5"
	"encoding/binary"
	"encoding/hex"
	"errors"
	"fmt"
	"io"
	"net"
	"os"
	"regexp"
	"strings"
	"sync"
	"sync/atomic"
	"time"

	"github.com/datastax/go-cassandra-native-protocol/compression/lz4"
	"github.com/datastax/go-cassandra-native-protocol/compression/snappy"
	"github.com/datastax/go-cassandra-native-protocol/datatype"
	"github.com/datastax/go-cassandra-native-protocol/frame"
	"github.com/datastax/go-cassandra-native-protocol/message"
	"github.com/datastax/go-cassandra-native-protocol/primitive"
	gsnappy "github.com/golang/snappy"
	plz4ref "github.com/pierrec/lz4/v4"

	"verif/mon"
)

var tokenRe = regexp.MustCompile(`T[0-9a-f]{16}`)

// FindToken returns the first request token in b ("" if none).
func FindToken(b []byte) string {
	if m := tokenRe.Find(b); m != nil {
		return string(m)
	}
	return ""
}

var (
	plainCodec  = frame.NewRawCodec()
	lz4Codec    = frame.NewRawCodecWithCompression(&lz4.Compressor{})
	snappyCodec = frame.NewRawCodecWithCompression(&snappy.Compressor{})
)

type Config struct {
	Hosts          int
	Keyspaces      []string // canonical names of existing keyspaces ("system" always exists)
	DSEVersion     string   // non-empty: DSE backend
	ReleaseVersion string
	DC             string
	HostDCs        map[int]string // data center per host index (default: DC)
	SlowLocal      time.Duration  // system.local is answered this much later than it could be (system.peers is not)
	HostAdvertised map[int]string // the rpc_address a host reports for itself in system.local (default: the address it listens on)
	HostRelease    map[int]string // release_version per host index (default: ReleaseVersion)
	HostCQL        map[int]string // cql_version per host index (default: 3.4.5)
	HostMaxVersion map[int]int32  // hosts that are nodes of an older release from the start (Host.MaxVersion)
	ContactHosts   []int          // host indexes handed to the proxy as contact points, in order (default: host 1)
	NeverCompress  bool           // never compress responses even when compression was negotiated
	Lenient        bool           // do not enforce version/compression fidelity rules
	Log            *mon.Log
	MaxVersion     primitive.ProtocolVersion // highest version this backend accepts (0 = all)
}

// Arrival describes one data request (QUERY/PREPARE/EXECUTE/BATCH that is not a system/USE statement) reaching a host.
type Arrival struct {
	Token   string
	N       int // n-th arrival of this token anywhere in the cluster (1-based), automatic UNPREPARED included
	K       int // k-th time the script is consulted for this token (1-based)
	Host    int
	Conn    *Conn
	Stream  int16
	OpCode  primitive.OpCode
	Header  *frame.Header
	Body    *frame.Body // decoded with the reference codec (nil if undecodable)
	RawBody []byte      // as received (possibly compressed)
	Query   string      // text for QUERY/PREPARE
}

// FlushTokenPrefix marks requests the oracles send to push earlier requests through the proxy-backend pipeline (every
// backend connection is FIFO): the backend answers them with the echo row at once, whatever the scenario's script says.
const FlushTokenPrefix = "Tffff"

// Outcome is what the backend does with an arrival.
type Outcome struct {
	Name       string          // label for logs/oracles ("Rows", "Unavailable", "Silence", "DropBefore", ...)
	Msg        message.Message // response message; nil = no reply
	Rows       bool            // reply with the echo row
	Drop       int             // 0 none, 1 close the connection instead of replying, 2 close it right after replying
	Hold       bool            // compute the reply but keep it until Release*()
	RawFrame   []byte          // hostile: write these bytes verbatim instead of an encoded frame
	RawErrBody []byte          // an ERROR frame with this body (uncompressed) on the arrival's stream and version: error codes the reference codec cannot encode
	Tracing    bool
	Warnings   []string
	Payload    map[string][]byte
	NoCompress bool
}

func Rows() Outcome                            { return Outcome{Name: "Rows", Rows: true} }
func Void() Outcome                            { return Outcome{Name: "Void", Msg: &message.VoidResult{}} }
func Silence() Outcome                         { return Outcome{Name: "Silence"} }
func DropBefore() Outcome                      { return Outcome{Name: "DropBefore", Drop: 1} }
func Err(name string, m message.Error) Outcome { return Outcome{Name: name, Msg: m} }

type Host struct {
	StartupFailures int32 // that many of the next STARTUPs are answered with an IS_BOOTSTRAPPING error
	MaxVersion      int32 // when non-zero, new connections to this host are refused versions above it (a node of an older release)
	Idx             int   // 1-based
	IP              string
	c               *Cluster
	mu              sync.Mutex
	ln              net.Listener
	conns           map[int]*Conn
	prepared        map[string]string // hex id → query text
	stopped         bool
}

type Conn struct {
	ID          int
	Host        *Host
	nc          net.Conn
	wmu         sync.Mutex
	smu         sync.Mutex // guards the four state fields below (written by the serving goroutine, read by oracles)
	version     primitive.ProtocolVersion
	compression string
	keyspace    string
	registered  bool
	muted       int32
	closed      int32
	started     bool
	ready       int32 // 1 once STARTUP was answered READY
	sysPeers    int32 // number of system.peers results sent on this connection
}

// Ver is the protocol version of the connection (0 until the first frame).
func (x *Conn) Ver() primitive.ProtocolVersion { x.smu.Lock(); defer x.smu.Unlock(); return x.version }

// Comp is the negotiated compression ("" none).
func (x *Conn) Comp() string { x.smu.Lock(); defer x.smu.Unlock(); return x.compression }

// Ks is the connection's current keyspace.
func (x *Conn) Ks() string { x.smu.Lock(); defer x.smu.Unlock(); return x.keyspace }

// IsRegistered tells whether the connection REGISTERed for events (a control connection).
func (x *Conn) IsRegistered() bool { x.smu.Lock(); defer x.smu.Unlock(); return x.registered }

// PeersAnswered tells how many system.peers queries this connection has answered (a control connection is fully
// established once its system.local and system.peers queries were answered).
func (x *Conn) PeersAnswered() int { return int(atomic.LoadInt32(&x.sysPeers)) }

type held struct {
	conn  *Conn
	bytes []byte
	ev    mon.Event
	drop  int
}

type Cluster struct {
	cfg      Config
	Prefix   string // "127.a.b."
	Port     int
	Hosts    []*Host
	log      *mon.Log
	mu       sync.Mutex
	listed   map[int]bool
	script   func(*Arrival) Outcome
	arrivals map[string]int
	consults map[string]int
	held     []*held
	nextConn int32
	ks       map[string]bool
	// optional overrides for hostile control-connection answers: return nil to answer normally
	SystemOverride func(c *Conn, table string) message.Message
	onRegister     atomic.Value // func(*Conn)
	// optional interceptor for every frame (after logging); return true if it handled the frame
	Intercept      func(c *Conn, hdr *frame.Header, rawBody []byte) bool
	HoldUnprepared int32                      // when 1, the automatic UNPREPARED answers to EXECUTE are held until ReleaseHeld()
	OptionsMute    int32                      // when 1, OPTIONS on muted connections are swallowed (always the case); kept for clarity
	optionsSeen    sync.Map                   // conn id → *int32 count of OPTIONS received
	ever           sync.Map                   // peer address → *Conn, for every connection ever accepted
	slowUse        map[string]time.Duration   // canonical keyspace → delay before USE is answered
	useErrors      map[string][]message.Error // canonical keyspace → errors that answer the next USEs of it, in order
}

var clusterSeq int32

// New creates the listeners of a cluster; all hosts share one port and differ in their 127.a.b.i address.
func New(cfg Config) (*Cluster, error) {
	if cfg.Hosts <= 0 {
		cfg.Hosts = 1
	}
	if cfg.ReleaseVersion == "" {
		cfg.ReleaseVersion = "4.0.7"
	}
	if cfg.DC == "" {
		cfg.DC = "dc1"
	}
	var lastErr error
	for attempt := 0; attempt < 50; attempt++ {
		seq := atomic.AddInt32(&clusterSeq, 1)
		a := 16 + (os.Getpid()+int(seq)/250)%200
		b := 1 + int(seq)%250
		c := &Cluster{cfg: cfg, Prefix: fmt.Sprintf("127.%d.%d.", a, b), log: cfg.Log, listed: map[int]bool{},
			arrivals: map[string]int{}, consults: map[string]int{}, ks: map[string]bool{"system": true}}
		for _, k := range cfg.Keyspaces {
			c.ks[k] = true
		}
		ok := true
		for i := 1; i <= cfg.Hosts; i++ {
			h := &Host{Idx: i, IP: fmt.Sprintf("%s%d", c.Prefix, i), c: c, conns: map[int]*Conn{}, prepared: map[string]string{}}
			h.MaxVersion = cfg.HostMaxVersion[i]
			ln, err := net.Listen("tcp", fmt.Sprintf("%s:%d", h.IP, c.Port))
			if err != nil {
				lastErr = err
				ok = false
				break
			}
			if c.Port == 0 {
				c.Port = ln.Addr().(*net.TCPAddr).Port
			}
			h.ln = ln
			c.Hosts = append(c.Hosts, h)
			c.listed[i] = true
		}
		if !ok {
			for _, h := range c.Hosts {
				_ = h.ln.Close()
			}
			continue
		}
		for _, h := range c.Hosts {
			go h.accept(h.ln)
		}
		return c, nil
	}
	return nil, fmt.Errorf("fakecass: cannot allocate listeners: %v", lastErr)
}

func (c *Cluster) ContactPoint() string { return c.Hosts[0].IP }

// ContactPoints returns the addresses to hand to the proxy as contact points (Config.ContactHosts; default: host 1).
func (c *Cluster) ContactPoints() []string {
	if len(c.cfg.ContactHosts) == 0 {
		return []string{c.ContactPoint()}
	}
	var out []string
	for _, i := range c.cfg.ContactHosts {
		out = append(out, c.HostIP(i))
	}
	return out
}

func (c *Cluster) cqlOf(host int) string {
	if v, ok := c.cfg.HostCQL[host]; ok {
		return v
	}
	return "3.4.5"
}

func (c *Cluster) releaseOf(host int) string {
	if v, ok := c.cfg.HostRelease[host]; ok {
		return v
	}
	return c.cfg.ReleaseVersion
}
func (c *Cluster) HostIP(i int) string  { return fmt.Sprintf("%s%d", c.Prefix, i) }

// HostIdxOfAddr maps "127.a.b.i:port" (or the bare IP) back to the host index (0 if foreign).
func (c *Cluster) HostIdxOfAddr(addr string) int {
	h := addr
	if hh, _, err := net.SplitHostPort(addr); err == nil {
		h = hh
	}
	for _, x := range c.Hosts {
		if x.IP == h {
			return x.Idx
		}
	}
	return 0
}

func (c *Cluster) SetScript(f func(*Arrival) Outcome) { c.mu.Lock(); c.script = f; c.mu.Unlock() }

func (c *Cluster) AddKeyspace(k string) { c.mu.Lock(); c.ks[k] = true; c.mu.Unlock() }

// SetSlowUse makes every USE of the keyspace take d before it is answered (a slow backend).
func (c *Cluster) SetSlowUse(k string, d time.Duration) {
	c.mu.Lock()
	if c.slowUse == nil {
		c.slowUse = map[string]time.Duration{}
	}
	c.slowUse[k] = d
	c.ks[k] = true
	c.mu.Unlock()
}

// SetUseErrors makes the next len(errs) USEs of keyspace k (on any connection) be answered with these errors, in order.
func (c *Cluster) SetUseErrors(k string, errs []message.Error) {
	c.mu.Lock()
	if c.useErrors == nil {
		c.useErrors = map[string][]message.Error{}
	}
	c.useErrors[k] = errs
	c.mu.Unlock()
}

// SetSlowUseMissing makes every USE of a keyspace that does NOT exist take d before it is refused.
func (c *Cluster) SetSlowUseMissing(k string, d time.Duration) {
	c.mu.Lock()
	if c.slowUse == nil {
		c.slowUse = map[string]time.Duration{}
	}
	c.slowUse[k] = d
	delete(c.ks, k)
	c.mu.Unlock()
}

// SetListed changes whether host i appears in system.local/system.peers.
func (c *Cluster) SetListed(i int, listed bool) { c.mu.Lock(); c.listed[i] = listed; c.mu.Unlock() }

func (c *Cluster) Listed() []int {
	c.mu.Lock()
	defer c.mu.Unlock()
	var out []int
	for i := 1; i <= len(c.Hosts); i++ {
		if c.listed[i] {
			out = append(out, i)
		}
	}
	return out
}

func (c *Cluster) Close() {
	for _, h := range c.Hosts {
		h.Stop()
	}
}

// Arrivals returns how many times the token arrived anywhere.
func (c *Cluster) Arrivals(tok string) int { c.mu.Lock(); defer c.mu.Unlock(); return c.arrivals[tok] }

// ---------------------------------------------------------------------------------------------------------------------
// fault surface

// Stop closes the listener and all connections of the host (it stays in the topology table).
func (h *Host) Stop() {
	h.mu.Lock()
	h.stopped = true
	ln := h.ln
	h.ln = nil
	conns := make([]*Conn, 0, len(h.conns))
	for _, c := range h.conns {
		conns = append(conns, c)
	}
	h.mu.Unlock()
	if ln != nil {
		_ = ln.Close()
	}
	for _, c := range conns {
		c.Kill(false)
	}
}

// StopListener stops accepting but leaves established connections alone.
func (h *Host) StopListener() {
	h.mu.Lock()
	h.stopped = true
	ln := h.ln
	h.ln = nil
	h.mu.Unlock()
	if ln != nil {
		_ = ln.Close()
	}
}

// Start re-opens the listener. forget=true drops the prepared statements (a restart).
func (h *Host) Start(forget bool) error {
	h.mu.Lock()
	defer h.mu.Unlock()
	if forget {
		h.prepared = map[string]string{}
	}
	if h.ln != nil {
		return nil
	}
	var ln net.Listener
	var err error
	for i := 0; i < 100; i++ {
		ln, err = net.Listen("tcp", fmt.Sprintf("%s:%d", h.IP, h.c.Port))
		if err == nil {
			break
		}
		time.Sleep(10 * time.Millisecond)
	}
	if err != nil {
		return err
	}
	h.ln = ln
	h.stopped = false
	go h.accept(ln)
	return nil
}

// Forget drops all prepared statements of the host (without touching connections).
func (h *Host) Forget() { h.mu.Lock(); h.prepared = map[string]string{}; h.mu.Unlock() }

// Learn makes the host know a prepared id without a PREPARE having reached it.
func (h *Host) Learn(idHex, query string) { h.mu.Lock(); h.prepared[idHex] = query; h.mu.Unlock() }

func (h *Host) Knows(idHex string) bool {
	h.mu.Lock()
	defer h.mu.Unlock()
	_, ok := h.prepared[idHex]
	return ok
}

func (h *Host) Conns() []*Conn {
	h.mu.Lock()
	defer h.mu.Unlock()
	out := make([]*Conn, 0, len(h.conns))
	for _, c := range h.conns {
		out = append(out, c)
	}
	return out
}

// KillHosts closes every connection of the given hosts back-to-back in one critical section.
func (c *Cluster) KillHosts(rst bool, idxs ...int) int {
	var all []*Conn
	for _, i := range idxs {
		all = append(all, c.Hosts[i-1].Conns()...)
	}
	c.log.Add(mon.Event{Src: "harness", K: "kill", Note: fmt.Sprintf("hosts=%v rst=%v conns=%d", idxs, rst, len(all))})
	for _, x := range all {
		x.Kill(rst)
	}
	return len(all)
}

// KillPooled closes every non-control connection of the given hosts back-to-back.
func (c *Cluster) KillPooled(rst bool, idxs ...int) int {
	var all []*Conn
	for _, i := range idxs {
		for _, x := range c.Hosts[i-1].Conns() {
			if !x.IsRegistered() {
				all = append(all, x)
			}
		}
	}
	c.log.Add(mon.Event{Src: "harness", K: "kill", Note: fmt.Sprintf("pooled hosts=%v rst=%v conns=%d", idxs, rst, len(all))})
	for _, x := range all {
		x.Kill(rst)
	}
	return len(all)
}

// ConnByID finds an open connection by its id.
func (c *Cluster) ConnByID(id int) *Conn {
	for _, h := range c.Hosts {
		h.mu.Lock()
		x := h.conns[id]
		h.mu.Unlock()
		if x != nil {
			return x
		}
	}
	return nil
}

// ConnByPeerAddr finds the connection whose remote (proxy-side) address is addr.
func (c *Cluster) ConnByPeerAddr(addr string) *Conn {
	if v, ok := c.ever.Load(addr); ok {
		return v.(*Conn)
	}
	for _, h := range c.Hosts {
		for _, x := range h.Conns() {
			if x.nc.RemoteAddr().String() == addr {
				return x
			}
		}
	}
	return nil
}

// Kill closes the connection (rst: SO_LINGER 0 so the peer sees a reset).
func (x *Conn) Kill(rst bool) {
	if !atomic.CompareAndSwapInt32(&x.closed, 0, 1) {
		return
	}
	if rst {
		if t, ok := x.nc.(*net.TCPConn); ok {
			_ = t.SetLinger(0)
		}
	}
	_ = x.nc.Close()
}

// CloseWrite sends FIN after everything written so far and keeps reading until the peer closes: the peer receives every
// byte written before (a full close could answer a late write of the peer with a reset).
func (x *Conn) CloseWrite() {
	x.wmu.Lock()
	defer x.wmu.Unlock()
	if t, ok := x.nc.(*net.TCPConn); ok {
		_ = t.CloseWrite()
	} else {
		_ = x.nc.Close()
	}
}

// Mute makes the connection read but never answer anything any more.
func (x *Conn) Mute() { atomic.StoreInt32(&x.muted, 1) }

func (x *Conn) IsClosed() bool { return atomic.LoadInt32(&x.closed) == 1 }

// Emit writes an EVENT frame with the message on every registered (control) connection; returns how many.
func (c *Cluster) Emit(msg message.Message) int {
	n := 0
	for _, h := range c.Hosts {
		for _, x := range h.Conns() {
			if x.IsRegistered() && !x.IsClosed() {
				if err := x.sendMsg(-1, msg, Outcome{Name: "EVENT"}, "event"); err == nil {
					n++
				}
			}
		}
	}
	return n
}

// SetOnRegister installs (or, with nil, removes) a hook that runs right after a REGISTER was answered READY.
func (c *Cluster) SetOnRegister(h func(*Conn)) { c.onRegister.Store(h) }

// EmitOn sends an event frame on this connection.
func (x *Conn) EmitOn(msg message.Message) error {
	return x.sendMsg(-1, msg, Outcome{Name: "EVENT"}, "event")
}

// EstablishedControlConns returns the open registered connections whose initial system queries were answered.
func (c *Cluster) EstablishedControlConns() []*Conn {
	var out []*Conn
	for _, x := range c.ControlConns() {
		if x.PeersAnswered() >= 1 {
			out = append(out, x)
		}
	}
	return out
}

// ControlConns returns the open registered connections.
func (c *Cluster) ControlConns() []*Conn {
	var out []*Conn
	for _, h := range c.Hosts {
		for _, x := range h.Conns() {
			if x.IsRegistered() && !x.IsClosed() {
				out = append(out, x)
			}
		}
	}
	return out
}

// OptionsCount returns how many OPTIONS frames the connection has received.
func (c *Cluster) OptionsCount(connID int) int {
	if v, ok := c.optionsSeen.Load(connID); ok {
		return int(atomic.LoadInt32(v.(*int32)))
	}
	return 0
}

// HeldCount returns the number of held replies.
func (c *Cluster) HeldCount() int { c.mu.Lock(); defer c.mu.Unlock(); return len(c.held) }

// ReleaseHeld writes held replies in the order given by perm (indices into the current held list; nil = FIFO).
func (c *Cluster) ReleaseHeld(perm []int) int {
	c.mu.Lock()
	hs := c.held
	c.held = nil
	c.mu.Unlock()
	if perm == nil {
		perm = make([]int, len(hs))
		for i := range perm {
			perm[i] = i
		}
	}
	n := 0
	for _, i := range perm {
		if i < 0 || i >= len(hs) || hs[i] == nil {
			continue
		}
		h := hs[i]
		hs[i] = nil
		h.conn.writeLogged(h.bytes, h.ev)
		if h.drop == 2 {
			h.conn.Kill(false)
		}
		n++
	}
	for _, h := range hs { // anything not named by perm
		if h != nil {
			h.conn.writeLogged(h.bytes, h.ev)
			n++
		}
	}
	return n
}

// ---------------------------------------------------------------------------------------------------------------------

func (h *Host) accept(ln net.Listener) {
	for {
		nc, err := ln.Accept()
		if err != nil {
			return
		}
		if t, ok := nc.(*net.TCPConn); ok {
			_ = t.SetNoDelay(true)
		}
		x := &Conn{ID: int(atomic.AddInt32(&h.c.nextConn, 1)), Host: h, nc: nc}
		h.mu.Lock()
		if h.stopped {
			h.mu.Unlock()
			_ = nc.Close()
			continue
		}
		h.conns[x.ID] = x
		h.mu.Unlock()
		h.c.ever.Store(nc.RemoteAddr().String(), x)
		h.c.log.Add(mon.Event{Src: "backend", K: "accept", Host: h.Idx, Conn: x.ID})
		go x.serve()
	}
}

func (x *Conn) serve() {
	defer func() {
		x.Kill(false)
		x.Host.mu.Lock()
		delete(x.Host.conns, x.ID)
		x.Host.mu.Unlock()
		x.Host.c.log.Add(mon.Event{Src: "backend", K: "closed", Host: x.Host.Idx, Conn: x.ID, Ctl: x.IsRegistered()})
	}()
	hdrBuf := make([]byte, 9)
	for {
		if _, err := io.ReadFull(x.nc, hdrBuf); err != nil {
			return
		}
		hdr := &frame.Header{
			IsResponse: hdrBuf[0]&0x80 != 0,
			Version:    primitive.ProtocolVersion(hdrBuf[0] & 0x7f),
			Flags:      primitive.HeaderFlag(hdrBuf[1]),
			StreamId:   int16(binary.BigEndian.Uint16(hdrBuf[2:4])),
			OpCode:     primitive.OpCode(hdrBuf[4]),
			BodyLength: int32(binary.BigEndian.Uint32(hdrBuf[5:9])),
		}
		if hdr.BodyLength < 0 || hdr.BodyLength > 256<<20 {
			return
		}
		body := make([]byte, hdr.BodyLength)
		if _, err := io.ReadFull(x.nc, body); err != nil {
			return
		}
		x.handle(hdr, body)
	}
}

func decompress(alg string, b []byte) ([]byte, error) {
	switch alg {
	case "lz4":
		if len(b) < 4 {
			return nil, errors.New("lz4: short body")
		}
		n := binary.BigEndian.Uint32(b[:4])
		if n == 0 {
			return []byte{}, nil
		}
		if n > 512<<20 {
			return nil, errors.New("lz4: declared length too large")
		}
		out := make([]byte, n)
		w, err := lz4Block(b[4:], out)
		if err != nil {
			return nil, err
		}
		return out[:w], nil
	case "snappy":
		return gsnappy.Decode(nil, b)
	}
	return nil, errors.New("no compression negotiated")
}

// Decompress exposes the harness' own decompressor (independent of the dependency's lz4 wrapper).
func Decompress(alg string, b []byte) ([]byte, error) { return decompress(strings.ToLower(alg), b) }

func (x *Conn) handle(hdr *frame.Header, raw []byte) {
	c := x.Host.c
	if !x.started {
		x.smu.Lock()
		x.version = hdr.Version
		x.smu.Unlock()
		x.started = true
	}
	plain := raw
	var decErr error
	if hdr.Flags.Contains(primitive.HeaderFlagCompressed) {
		plain, decErr = decompress(strings.ToLower(x.Comp()), raw)
	}
	tok := ""
	if decErr == nil {
		tok = FindToken(plain)
	}
	ev := mon.Event{Src: "backend", K: "recv", Host: x.Host.Idx, Conn: x.ID, Ver: int(hdr.Version), Fl: int(hdr.Flags),
		St: int(hdr.StreamId), Op: int(hdr.OpCode), Tok: tok, Ks: x.Ks(), Comp: x.Comp(), Body: raw, Ctl: x.IsRegistered()}

	if hdr.OpCode == primitive.OpCodeOptions {
		v, _ := c.optionsSeen.LoadOrStore(x.ID, new(int32))
		atomic.AddInt32(v.(*int32), 1)
	}
	if atomic.LoadInt32(&x.muted) == 1 {
		ev.Note = "muted"
		c.log.Add(ev)
		return
	}

	// fidelity rules a real node enforces
	if !c.cfg.Lenient {
		if hdr.Version != x.Ver() {
			ev.Note = "version-mismatch"
			c.log.Add(ev)
			x.sendMsgVer(x.Ver(), hdr.StreamId, &message.ProtocolError{ErrorMessage: fmt.Sprintf("Invalid message version. Got %d but previous messages on this connection had version %d", hdr.Version, x.Ver())}, Outcome{Name: "ProtocolError:version"}, "reply")
			return
		}
		if hdr.Flags.Contains(primitive.HeaderFlagCompressed) && x.Comp() == "" {
			ev.Note = "compressed-without-negotiation"
			c.log.Add(ev)
			x.sendMsg(hdr.StreamId, &message.ProtocolError{ErrorMessage: "Received compressed frame but no compression was negotiated"}, Outcome{Name: "ProtocolError:compression"}, "reply")
			return
		}
	}
	maxVer := c.cfg.MaxVersion
	if hv := primitive.ProtocolVersion(atomic.LoadInt32(&x.Host.MaxVersion)); hv != 0 && (maxVer == 0 || hv < maxVer) && atomic.LoadInt32(&x.ready) == 0 {
		maxVer = hv // a node of an older release: applies to connections that have not completed their STARTUP yet
	}
	if maxVer != 0 && (hdr.Version > maxVer) {
		ev.Note = "unsupported-version"
		c.log.Add(ev)
		x.started = false
		x.sendMsgVer(maxVer, hdr.StreamId, &message.ProtocolError{ErrorMessage: fmt.Sprintf("Invalid or unsupported protocol version (%d)", hdr.Version)}, Outcome{Name: "ProtocolError:unsupported"}, "reply")
		return
	}
	if decErr != nil {
		ev.Note = "undecompressable: " + decErr.Error()
		c.log.Add(ev)
		x.sendMsg(hdr.StreamId, &message.ProtocolError{ErrorMessage: "cannot decompress: " + decErr.Error()}, Outcome{Name: "ProtocolError:decompress"}, "reply")
		return
	}

	// decode with the reference codec
	h2 := *hdr
	h2.Flags = h2.Flags.Remove(primitive.HeaderFlagCompressed)
	body, err := plainCodec.DecodeBody(&h2, bytes.NewReader(plain))

	isData := false
	var query string
	if err == nil {
		switch m := body.Message.(type) {
		case *message.Query:
			query = m.Query
			isData = true
		case *message.Prepare:
			query = m.Query
			isData = true
		case *message.Execute, *message.Batch:
			isData = true
		}
	}
	if isData {
		lq := strings.ToLower(strings.TrimSpace(query))
		if hdr.OpCode == primitive.OpCodeQuery && (strings.HasPrefix(lq, "use ") || isSystemSelect(lq) != "") {
			isData = false
		}
	}
	n := 0
	if isData {
		c.mu.Lock()
		if tok != "" {
			c.arrivals[tok]++
			n = c.arrivals[tok]
		}
		c.mu.Unlock()
		ev.Arrival = n
	}
	c.log.Add(ev)

	if c.Intercept != nil && c.Intercept(x, hdr, raw) {
		return
	}
	if err != nil {
		x.sendMsg(hdr.StreamId, &message.ProtocolError{ErrorMessage: "cannot decode: " + err.Error()}, Outcome{Name: "ProtocolError:decode"}, "reply")
		return
	}

	switch m := body.Message.(type) {
	case *message.Options:
		x.sendMsg(hdr.StreamId, &message.Supported{Options: map[string][]string{"CQL_VERSION": {"3.4.5"}, "COMPRESSION": {"snappy", "lz4"}}}, Outcome{Name: "Supported"}, "reply")
	case *message.Startup:
		if atomic.LoadInt32(&x.Host.StartupFailures) > 0 && atomic.AddInt32(&x.Host.StartupFailures, -1) >= 0 {
			// a node that accepts connections while it is still starting up
			x.sendMsg(hdr.StreamId, &message.IsBootstrapping{ErrorMessage: "Cannot accept requests yet: node is bootstrapping"}, Outcome{Name: "Startup:IsBootstrapping"}, "reply")
			return
		}
		comp := ""
		for k, v := range m.Options {
			if strings.EqualFold(k, "COMPRESSION") {
				comp = strings.ToLower(v)
			}
		}
		if comp != "" && comp != "lz4" && comp != "snappy" {
			x.sendMsg(hdr.StreamId, &message.ProtocolError{ErrorMessage: "Unknown compression algorithm: " + comp}, Outcome{Name: "ProtocolError:startup"}, "reply")
			return
		}
		atomic.StoreInt32(&x.ready, 1)
		x.sendMsg(hdr.StreamId, &message.Ready{}, Outcome{Name: "Ready"}, "reply")
		x.smu.Lock()
		x.compression = comp
		x.smu.Unlock()
	case *message.Register:
		x.smu.Lock()
		x.registered = true
		x.smu.Unlock()
		x.sendMsg(hdr.StreamId, &message.Ready{}, Outcome{Name: "Ready"}, "reply")
		if h, ok := c.onRegister.Load().(func(*Conn)); ok && h != nil {
			h(x) // right behind the READY (a schema change that happens while a control connection registers)
		}
	case *message.Query:
		lq := strings.ToLower(strings.TrimSpace(m.Query))
		if t := isSystemSelect(lq); t != "" {
			if c.SystemOverride != nil {
				if o := c.SystemOverride(x, t); o != nil {
					x.sendMsg(hdr.StreamId, o, Outcome{Name: "SystemOverride"}, "reply")
					return
				}
			}
			x.sendMsg(hdr.StreamId, c.systemRows(x, t), Outcome{Name: "System:" + t}, "reply")
			if t == "peers" {
				atomic.AddInt32(&x.sysPeers, 1)
			}
			return
		}
		if strings.HasPrefix(lq, "use ") {
			name := strings.TrimSpace(m.Query[4:])
			name = strings.TrimSuffix(name, ";")
			canon := Canonical(name)
			c.mu.Lock()
			ok := c.ks[canon]
			slow := c.slowUse[canon]
			var useErr message.Error
			if q := c.useErrors[canon]; len(q) > 0 {
				useErr = q[0]
				c.useErrors[canon] = q[1:]
			}
			c.mu.Unlock()
			if slow > 0 {
				time.Sleep(slow)
			}
			if useErr != nil {
				x.sendMsg(hdr.StreamId, useErr, Outcome{Name: "UseError"}, "reply")
				return
			}
			if ok {
				x.smu.Lock()
				x.keyspace = canon
				x.smu.Unlock()
				x.sendMsg(hdr.StreamId, &message.SetKeyspaceResult{Keyspace: canon}, Outcome{Name: "SetKeyspace"}, "reply")
			} else {
				x.sendMsg(hdr.StreamId, &message.Invalid{ErrorMessage: fmt.Sprintf("Keyspace '%s' does not exist", canon)}, Outcome{Name: "Invalid:keyspace"}, "reply")
			}
			return
		}
		x.data(hdr, body, raw, tok, n, m.Query)
	case *message.Prepare:
		x.data(hdr, body, raw, tok, n, m.Query)
	case *message.Execute:
		id := hex.EncodeToString(m.QueryId)
		if !x.Host.Knows(id) {
			x.sendMsg(hdr.StreamId, &message.Unprepared{ErrorMessage: "Prepared query with ID " + id + " not found " + tok, Id: m.QueryId}, Outcome{Name: "Unprepared", Hold: atomic.LoadInt32(&x.Host.c.HoldUnprepared) == 1}, "reply")
			return
		}
		x.data(hdr, body, raw, tok, n, "")
	case *message.Batch:
		for _, ch := range m.Children {
			if ch.Id != nil {
				id := hex.EncodeToString(ch.Id)
				if !x.Host.Knows(id) {
					x.sendMsg(hdr.StreamId, &message.Unprepared{ErrorMessage: "Prepared query with ID " + id + " not found " + tok, Id: ch.Id}, Outcome{Name: "Unprepared"}, "reply")
					return
				}
			}
		}
		x.data(hdr, body, raw, tok, n, "")
	default:
		x.sendMsg(hdr.StreamId, &message.ProtocolError{ErrorMessage: "unexpected opcode"}, Outcome{Name: "ProtocolError:opcode"}, "reply")
	}
}

func isSystemSelect(lq string) string {
	lq = strings.TrimSuffix(lq, ";")
	switch lq {
	case "select * from system.local", "select * from system.local where key='local'":
		return "local"
	case "select * from system.peers":
		return "peers"
	}
	return ""
}

// Canonical is how the backend names a keyspace: unquoted names fold to lower case, quoted names keep their content
// with "" → ".
func Canonical(name string) string {
	if len(name) >= 2 && name[0] == '"' && name[len(name)-1] == '"' {
		return strings.ReplaceAll(name[1:len(name)-1], `""`, `"`)
	}
	return strings.ToLower(name)
}

// PreparedID is the id the backend hands out for a statement prepared in a keyspace.
func PreparedID(keyspace, query string) []byte {
	s := md5.Sum([]byte(keyspace + "\x00" + query))
	return s[:]
}

func (x *Conn) data(hdr *frame.Header, body *frame.Body, raw []byte, tok string, n int, query string) {
	c := x.Host.c
	c.mu.Lock()
	script := c.script
	k := 0
	if tok != "" {
		c.consults[tok]++
		k = c.consults[tok]
	}
	c.mu.Unlock()
	a := &Arrival{Token: tok, N: n, K: k, Host: x.Host.Idx, Conn: x, Stream: hdr.StreamId, OpCode: hdr.OpCode, Header: hdr, Body: body, RawBody: raw, Query: query}
	var o Outcome
	if strings.HasPrefix(tok, FlushTokenPrefix) {
		o = Rows() // flush requests of the oracles are answered at once whatever the scenario scripts
	} else if script != nil {
		o = script(a)
	}
	if o.Name == "" {
		o = c.defaultOutcome(a)
	}
	if o.Rows {
		o.Msg = x.echoRows(tok, n)
	}
	if o.Name == "Prepared" || (hdr.OpCode == primitive.OpCodePrepare && o.Msg != nil) {
		if pr, ok := o.Msg.(*message.PreparedResult); ok {
			x.Host.mu.Lock()
			x.Host.prepared[hex.EncodeToString(pr.PreparedQueryId)] = query
			x.Host.mu.Unlock()
		}
	}
	if o.RawErrBody != nil && o.RawFrame == nil {
		h := make([]byte, 9, 9+len(o.RawErrBody))
		h[0] = byte(hdr.Version) | 0x80
		binary.BigEndian.PutUint16(h[2:], uint16(hdr.StreamId))
		h[4] = byte(primitive.OpCodeError)
		binary.BigEndian.PutUint32(h[5:], uint32(len(o.RawErrBody)))
		o.RawFrame = append(h, o.RawErrBody...)
	}
	if o.RawFrame != nil {
		ev := mon.Event{Src: "backend", K: "reply", Host: x.Host.Idx, Conn: x.ID, St: int(hdr.StreamId), Tok: tok, Arrival: n, Outcome: o.Name, Body: o.RawFrame, Note: "rawframe"}
		if o.Hold {
			c.mu.Lock()
			c.held = append(c.held, &held{conn: x, bytes: o.RawFrame, ev: ev, drop: o.Drop})
			c.mu.Unlock()
			return
		}
		x.writeLogged(o.RawFrame, ev)
		if o.Drop == 2 {
			x.Kill(false)
		}
		return
	}
	if o.Msg == nil {
		c.log.Add(mon.Event{Src: "backend", K: "noreply", Host: x.Host.Idx, Conn: x.ID, St: int(hdr.StreamId), Tok: tok, Arrival: n, Outcome: o.Name})
		if o.Drop == 1 {
			x.Kill(false)
		}
		return
	}
	_ = x.sendMsgTok(hdr.StreamId, o.Msg, o, "reply", tok, n)
	if o.Drop == 2 && !o.Hold {
		x.Kill(false)
	}
}

func (c *Cluster) defaultOutcome(a *Arrival) Outcome {
	switch a.OpCode {
	case primitive.OpCodePrepare:
		ks := a.Conn.Ks()
		if p, ok := a.Body.Message.(*message.Prepare); ok && p.Keyspace != "" {
			ks = Canonical(p.Keyspace)
		}
		return Outcome{Name: "Prepared", Msg: PreparedResultFor(ks, a.Query, a.Header.Version)}
	default:
		return Rows()
	}
}

// PreparedResultFor builds the PREPARED result the backend returns for a statement.
func PreparedResultFor(ks, query string, v primitive.ProtocolVersion) *message.PreparedResult {
	pr := &message.PreparedResult{
		PreparedQueryId:   PreparedID(ks, query),
		VariablesMetadata: &message.VariablesMetadata{},
		ResultMetadata:    &message.RowsMetadata{ColumnCount: int32(len(echoColumns)), Columns: echoColumns},
	}
	if v.SupportsResultMetadataId() {
		s := md5.Sum([]byte("rm" + query))
		pr.ResultMetadataId = s[:]
	}
	return pr
}

var echoColumns = []*message.ColumnMetadata{
	{Keyspace: "ks", Table: "t", Name: "tok", Type: datatype.Varchar},
	{Keyspace: "ks", Table: "t", Name: "host", Type: datatype.Int},
	{Keyspace: "ks", Table: "t", Name: "conn", Type: datatype.Int},
	{Keyspace: "ks", Table: "t", Name: "ks", Type: datatype.Varchar},
	{Keyspace: "ks", Table: "t", Name: "ver", Type: datatype.Int},
	{Keyspace: "ks", Table: "t", Name: "comp", Type: datatype.Varchar},
	{Keyspace: "ks", Table: "t", Name: "arrival", Type: datatype.Int},
}

func i32(v int) []byte {
	b := make([]byte, 4)
	binary.BigEndian.PutUint32(b, uint32(int32(v)))
	return b
}

func (x *Conn) echoRows(tok string, n int) *message.RowsResult {
	return &message.RowsResult{
		Metadata: &message.RowsMetadata{ColumnCount: int32(len(echoColumns)), Columns: echoColumns},
		Data:     []message.Row{{[]byte(tok), i32(x.Host.Idx), i32(x.ID), []byte(x.Ks()), i32(int(x.Ver())), []byte(x.Comp()), i32(n)}},
	}
}

// Echo is the decoded form of the echo row.
type Echo struct {
	Tok     string
	Host    int
	Conn    int
	Ks      string
	Ver     int
	Comp    string
	Arrival int
}

// DecodeEcho decodes the echo row of a RowsResult produced by this backend.
func DecodeEcho(r *message.RowsResult) (Echo, bool) {
	if r == nil || len(r.Data) != 1 || len(r.Data[0]) != 7 {
		return Echo{}, false
	}
	d := r.Data[0]
	gi := func(b []byte) int {
		if len(b) != 4 {
			return -1
		}
		return int(int32(binary.BigEndian.Uint32(b)))
	}
	return Echo{Tok: string(d[0]), Host: gi(d[1]), Conn: gi(d[2]), Ks: string(d[3]), Ver: gi(d[4]), Comp: string(d[5]), Arrival: gi(d[6])}, true
}

func (x *Conn) sendMsg(stream int16, msg message.Message, o Outcome, kind string) error {
	return x.sendMsgTok(stream, msg, o, kind, "", 0)
}

func (x *Conn) sendMsgVer(v primitive.ProtocolVersion, stream int16, msg message.Message, o Outcome, kind string) error {
	x.smu.Lock()
	save := x.version
	x.version = v
	x.smu.Unlock()
	err := x.sendMsgTok(stream, msg, o, kind, "", 0)
	x.smu.Lock()
	x.version = save
	x.smu.Unlock()
	return err
}

func (x *Conn) sendMsgTok(stream int16, msg message.Message, o Outcome, kind string, tok string, n int) error {
	c := x.Host.c
	v := x.Ver()
	if v == 0 {
		v = primitive.ProtocolVersion4
	}
	f := frame.NewFrame(v, stream, msg)
	if o.Tracing {
		id := primitive.UUID{0xde, 0xad, 0xbe, 0xef, 1, 2, 3, 4, 5, 6, 7, 8, 9, 10, 11, 12}
		f.SetTracingId(&id)
	}
	if len(o.Warnings) > 0 && v >= primitive.ProtocolVersion4 {
		f.SetWarnings(o.Warnings)
	}
	if len(o.Payload) > 0 && v >= primitive.ProtocolVersion4 {
		f.SetCustomPayload(o.Payload)
	}
	codec := plainCodec
	if x.Comp() != "" && !c.cfg.NeverCompress && !o.NoCompress {
		switch x.Comp() {
		case "lz4":
			codec = lz4Codec
		case "snappy":
			codec = snappyCodec
		}
		f.SetCompress(true)
		if _, isReady := msg.(*message.Ready); isReady {
			f.SetCompress(false)
		}
	}
	var buf bytes.Buffer
	if err := codec.EncodeFrame(f, &buf); err != nil {
		c.log.Add(mon.Event{Src: "backend", K: "encode-error", Host: x.Host.Idx, Conn: x.ID, St: int(stream), Note: err.Error()})
		return err
	}
	b := buf.Bytes()
	if codec == lz4Codec && primitive.HeaderFlag(b[1]).Contains(primitive.HeaderFlagCompressed) {
		body := ValidLz4Body(b[9:])
		f.SetCompress(false)
		var pbuf bytes.Buffer
		if perr := plainCodec.EncodeFrame(f, &pbuf); perr == nil {
			body = Lz4BodyFor(pbuf.Bytes()[9:], b[9:])
		}
		f.SetCompress(true)
		if len(body) != len(b)-9 {
			b = append(append([]byte{}, b[:9]...), body...)
			binary.BigEndian.PutUint32(b[5:9], uint32(len(body)))
		}
	}
	ev := mon.Event{Src: "backend", K: kind, Host: x.Host.Idx, Conn: x.ID, Ver: int(v), Fl: int(b[1]), St: int(stream), Op: int(b[4]),
		Tok: tok, Arrival: n, Outcome: o.Name, Body: b[9:], Ctl: x.IsRegistered(), Ks: x.Ks(), Comp: x.Comp()}
	if o.Hold {
		c.mu.Lock()
		c.held = append(c.held, &held{conn: x, bytes: b, ev: ev, drop: o.Drop})
		c.mu.Unlock()
		return nil
	}
	return x.writeLogged(b, ev)
}

func (x *Conn) writeLogged(b []byte, ev mon.Event) error {
	x.wmu.Lock()
	defer x.wmu.Unlock()
	x.Host.c.log.Add(ev)
	_, err := x.nc.Write(b)
	return err
}

// WriteRaw writes arbitrary bytes on the connection (hostile backend).
func (x *Conn) WriteRaw(b []byte, note string) error {
	return x.writeLogged(b, mon.Event{Src: "backend", K: "rawwrite", Host: x.Host.Idx, Conn: x.ID, Note: note, Body: b})
}

// ---------------------------------------------------------------------------------------------------------------------
// topology tables

func hostUUID(i int) primitive.UUID {
	s := md5.Sum([]byte(fmt.Sprintf("fakecass-host-%d", i)))
	var u primitive.UUID
	copy(u[:], s[:])
	u[6] = (u[6] & 0x0f) | 0x40
	u[8] = (u[8] & 0x3f) | 0x80
	return u
}

func encSet(items ...string) []byte {
	var b bytes.Buffer
	_ = binary.Write(&b, binary.BigEndian, int32(len(items)))
	for _, it := range items {
		_ = binary.Write(&b, binary.BigEndian, int32(len(it)))
		b.WriteString(it)
	}
	return b.Bytes()
}

func (c *Cluster) dcOf(host int) string {
	if dc, ok := c.cfg.HostDCs[host]; ok {
		return dc
	}
	return c.cfg.DC
}

func (c *Cluster) systemRows(x *Conn, table string) message.Message {
	if table == "local" && c.cfg.SlowLocal > 0 {
		time.Sleep(c.cfg.SlowLocal)
	}
	dse := c.cfg.DSEVersion != ""
	schema := primitive.UUID{1, 2, 3, 4, 5, 6, 0x47, 8, 0x89, 10, 11, 12, 13, 14, 15, 16}
	if table == "local" {
		cols := []*message.ColumnMetadata{
			{Keyspace: "system", Table: "local", Name: "key", Type: datatype.Varchar},
			{Keyspace: "system", Table: "local", Name: "rpc_address", Type: datatype.Inet},
			{Keyspace: "system", Table: "local", Name: "data_center", Type: datatype.Varchar},
			{Keyspace: "system", Table: "local", Name: "rack", Type: datatype.Varchar},
			{Keyspace: "system", Table: "local", Name: "tokens", Type: datatype.NewSet(datatype.Varchar)},
			{Keyspace: "system", Table: "local", Name: "release_version", Type: datatype.Varchar},
			{Keyspace: "system", Table: "local", Name: "partitioner", Type: datatype.Varchar},
			{Keyspace: "system", Table: "local", Name: "cluster_name", Type: datatype.Varchar},
			{Keyspace: "system", Table: "local", Name: "cql_version", Type: datatype.Varchar},
			{Keyspace: "system", Table: "local", Name: "schema_version", Type: datatype.Uuid},
			{Keyspace: "system", Table: "local", Name: "host_id", Type: datatype.Uuid},
		}
		u := hostUUID(x.Host.Idx)
		self := x.Host.IP
		if a, ok := c.cfg.HostAdvertised[x.Host.Idx]; ok {
			self = a
		}
		row := message.Row{[]byte("local"), net.ParseIP(self).To4(), []byte(c.dcOf(x.Host.Idx)), []byte("rack1"),
			encSet(fmt.Sprintf("%d", x.Host.Idx*1000)), []byte(c.releaseOf(x.Host.Idx)), []byte("org.apache.cassandra.dht.Murmur3Partitioner"),
			[]byte("fakecass"), []byte(c.cqlOf(x.Host.Idx)), schema[:], u[:]}
		if dse {
			cols = append(cols, &message.ColumnMetadata{Keyspace: "system", Table: "local", Name: "dse_version", Type: datatype.Varchar})
			row = append(row, []byte(c.cfg.DSEVersion))
		}
		return &message.RowsResult{Metadata: &message.RowsMetadata{ColumnCount: int32(len(cols)), Columns: cols}, Data: []message.Row{row}}
	}
	cols := []*message.ColumnMetadata{
		{Keyspace: "system", Table: "peers", Name: "peer", Type: datatype.Inet},
		{Keyspace: "system", Table: "peers", Name: "rpc_address", Type: datatype.Inet},
		{Keyspace: "system", Table: "peers", Name: "data_center", Type: datatype.Varchar},
		{Keyspace: "system", Table: "peers", Name: "rack", Type: datatype.Varchar},
		{Keyspace: "system", Table: "peers", Name: "tokens", Type: datatype.NewSet(datatype.Varchar)},
		{Keyspace: "system", Table: "peers", Name: "release_version", Type: datatype.Varchar},
		{Keyspace: "system", Table: "peers", Name: "schema_version", Type: datatype.Uuid},
		{Keyspace: "system", Table: "peers", Name: "host_id", Type: datatype.Uuid},
	}
	var rows []message.Row
	for _, i := range c.Listed() {
		if i == x.Host.Idx {
			continue
		}
		u := hostUUID(i)
		ip := net.ParseIP(c.HostIP(i)).To4()
		rows = append(rows, message.Row{ip, ip, []byte(c.dcOf(i)), []byte("rack1"), encSet(fmt.Sprintf("%d", i*1000)),
			[]byte(c.releaseOf(i)), schema[:], u[:]})
	}
	return &message.RowsResult{Metadata: &message.RowsMetadata{ColumnCount: int32(len(cols)), Columns: cols}, Data: rows}
}

// lz4Block is the harness' own LZ4 block decoder (the pierrec/lz4 v4.0.3 decoder rejects some valid blocks).
func lz4Block(src, dst []byte) (int, error) {
	bad := errors.New("lz4: invalid block")
	si, di := 0, 0
	readLen := func(l int) (int, bool) {
		if l == 15 {
			for {
				if si >= len(src) {
					return 0, false
				}
				b := src[si]
				si++
				l += int(b)
				if b != 255 {
					break
				}
			}
		}
		return l, true
	}
	for si < len(src) {
		tok := src[si]
		si++
		lit, ok := readLen(int(tok >> 4))
		if !ok || lit > len(src)-si || lit > len(dst)-di {
			return 0, bad
		}
		copy(dst[di:], src[si:si+lit])
		si += lit
		di += lit
		if si == len(src) {
			return di, nil
		}
		if len(src)-si < 2 {
			return 0, bad
		}
		off := int(src[si]) | int(src[si+1])<<8
		si += 2
		ml, ok := readLen(int(tok & 15))
		ml += 4
		if !ok || off == 0 || off > di || ml > len(dst)-di {
			return 0, bad
		}
		for k := 0; k < ml; k++ {
			dst[di] = dst[di-off]
			di++
		}
	}
	return di, nil
}

// ValidLz4Body makes sure a CQL lz4 frame body (4-byte length + block) produced by the reference library is a VALID LZ4
// block. github.com/pierrec/lz4/v4 v4.0.3's compressor can emit a match offset of 0 (a distance of 65536 truncated to 16
// bits), which its own decoder tolerates but the format forbids; such a body would make the harness send a malformed
// frame. An invalid block is replaced by the literal-only encoding of the same data.
// Lz4BodyFor returns a compressed body that decompresses to exactly `plain`: `compressed` if it does (the library's
// compressor emits blocks that decode to the right length but the wrong bytes for some inputs with repetitions at distances
// of 64 KiB and more), otherwise `plain` as one literal run.
func Lz4BodyFor(plain, compressed []byte) []byte {
	if len(compressed) >= 4 && int(binary.BigEndian.Uint32(compressed[:4])) == len(plain) {
		out := make([]byte, len(plain))
		if w, err := lz4Block(compressed[4:], out); err == nil && w == len(plain) && bytes.Equal(out, plain) {
			return compressed
		}
		if len(plain) == 0 {
			return compressed
		}
	}
	return lz4Literal(plain)
}

func lz4Literal(plain []byte) []byte {
	n := len(plain)
	b := make([]byte, 4, n+n/255+32)
	binary.BigEndian.PutUint32(b, uint32(n))
	if n < 15 {
		b = append(b, byte(n<<4))
	} else {
		b = append(b, 0xf0)
		rest := n - 15
		for rest >= 255 {
			b = append(b, 255)
			rest -= 255
		}
		b = append(b, byte(rest))
	}
	return append(b, plain...)
}

func ValidLz4Body(body []byte) []byte {
	if len(body) < 4 {
		return body
	}
	n := int(binary.BigEndian.Uint32(body[:4]))
	if n == 0 {
		return body
	}
	out := make([]byte, n)
	if w, err := lz4Block(body[4:], out); err == nil && w == n {
		return body
	}
	// recover the data with the library's own decoder, then encode it as one literal run
	plain := make([]byte, n)
	w, err := plz4ref.UncompressBlock(body[4:], plain)
	if err != nil || w != n {
		return body
	}
	b := make([]byte, 4, n+n/255+32)
	binary.BigEndian.PutUint32(b, uint32(n))
	if n < 15 {
		b = append(b, byte(n<<4))
	} else {
		b = append(b, 0xf0)
		rest := n - 15
		for rest >= 255 {
			b = append(b, 255)
			rest -= 255
		}
		b = append(b, byte(rest))
	}
	return append(b, plain...)
}
