//go:build verif

package scen

import (
	"bytes"
	"encoding/hex"
	"fmt"
	"path/filepath"
	"time"

	"github.com/datastax/go-cassandra-native-protocol/message"
	"github.com/datastax/go-cassandra-native-protocol/primitive"

	"verif/mon"
	"verif/rawcql"
)

// c12EvictedSelect: a SELECT prepared through the proxy stays a SELECT for as long as clients hold its id, whatever happens to
// the proxy's prepared cache in between.  The SELECT is prepared, then as many other statements as the default cache holds
// (so the SELECT's entry is evicted); the nodes forget the id, so the next EXECUTE is answered UNPREPARED and the proxy - which
// cannot prepare it again - hands that answer to the client.  The nodes learn the id again (another application instance
// prepared it) and the client executes it with every consistency of the unsupported list: each EXECUTE must arrive unmodified.
func c12EvictedSelect(c *Ctx, nOthers int) {
	r := c.R
	sc := map[string]interface{}{"kind": "c12-evicted"}
	c.Step("c12 evicted select (%d other statements)", nOthers)
	rp, err := startRunProxy(filepath.Join(c.Dir, "out", "tmp"), []string{"--unsupported-write-consistencies", "SERIAL,LOCAL_SERIAL,EACH_QUORUM,ALL", "--unsupported-write-consistency-override", "LOCAL_QUORUM"}, "")
	if err != nil {
		r.Inconc("c12 evicted: " + err.Error())
		return
	}
	defer rp.close()
	cl, err := rawcql.Dial(rp.addr, primitive.ProtocolVersion4, rp.log)
	if err != nil || cl.Handshake("", 10*time.Second) != nil {
		r.Inconc("c12 evicted: cannot connect")
		return
	}
	defer cl.Close()
	const sel = "SELECT v FROM ks1.evicted WHERE k = 1"
	f, err := cl.Call(1, &message.Prepare{Query: sel}, 20*time.Second)
	if err != nil || f.OpCode != primitive.OpCodeResult {
		r.Inconc("c12 evicted: PREPARE of the select failed")
		return
	}
	df, derr := rawcql.DecodeWith("", f)
	if derr != nil {
		r.Inconc("c12 evicted: " + derr.Error())
		return
	}
	pr, ok := df.Body.Message.(*message.PreparedResult)
	if !ok {
		r.Inconc("c12 evicted: PREPARE not answered with a PREPARED result")
		return
	}
	id := pr.PreparedQueryId
	// the other statements, pipelined on a second connection in windows of 400
	pc, err := rawcql.Dial(rp.addr, primitive.ProtocolVersion4, nil)
	if err != nil || pc.Handshake("", 10*time.Second) != nil {
		r.Inconc("c12 evicted: cannot connect the second client")
		return
	}
	defer pc.Close()
	const window = 400
	for done := 0; done < nOthers; {
		n := window
		if nOthers-done < n {
			n = nOthers - done
		}
		chs := make([]chan *rawcql.Frame, n)
		for k := 0; k < n; k++ {
			chs[k] = pc.Expect(int16(k + 1))
		}
		for k := 0; k < n; k++ {
			if err := pc.Send(int16(k+1), &message.Prepare{Query: fmt.Sprintf("INSERT INTO ks1.evicted (k, v) VALUES (%d, ?)", done+k)}); err != nil {
				r.Inconc("c12 evicted: " + err.Error())
				return
			}
		}
		for k := 0; k < n; k++ {
			g, err := pc.Wait(chs[k], 60*time.Second)
			if err != nil || g.OpCode != primitive.OpCodeResult {
				r.Inconc(fmt.Sprintf("c12 evicted: PREPARE %d of the other statements failed: %v", done+k, err))
				return
			}
		}
		done += n
	}
	pc.ForgetFrames()
	r.Obs("evicted_select_other_statements_prepared", nOthers)
	for _, h := range rp.cluster.Hosts {
		h.Forget()
	}
	exec := func(stream int16, cons primitive.ConsistencyLevel) (*rawcql.Frame, error) {
		return cl.Call(stream, &message.Execute{QueryId: id, Options: &message.QueryOptions{Consistency: cons}}, 30*time.Second)
	}
	g, err := exec(2, primitive.ConsistencyLevelOne)
	if err != nil {
		r.Inconc("c12 evicted: EXECUTE behind the eviction: " + err.Error())
		return
	}
	unprepared := false
	if g.OpCode == primitive.OpCodeError {
		if dg, e := rawcql.DecodeWith("", g); e == nil {
			_, unprepared = dg.Body.Message.(*message.Unprepared)
		}
	}
	if !unprepared {
		// the proxy still had the statement (the cache is larger than assumed): the premise of the scenario does not hold
		r.Obs("evicted_select_premise_missing", 1)
		r.Inconc("c12 evicted: the EXECUTE of a statement every node had forgotten was not answered UNPREPARED - the proxy's cache still held it")
		return
	}
	for _, h := range rp.cluster.Hosts {
		h.Learn(hex.EncodeToString(id), sel)
	}
	stream := int16(10)
	for _, cons := range []primitive.ConsistencyLevel{primitive.ConsistencyLevelSerial, primitive.ConsistencyLevelLocalSerial, primitive.ConsistencyLevelEachQuorum, primitive.ConsistencyLevelAll, primitive.ConsistencyLevelQuorum} {
		for rep := 0; rep < 2; rep++ { // twice: once per host of the plan
			stream++
			mark := rp.log.Len()
			g, err := exec(stream, cons)
			r.Eval(1)
			if err != nil || g.OpCode != primitive.OpCodeResult {
				r.Inconc(fmt.Sprintf("c12 evicted: EXECUTE with %s not served: %v", clNames[cons], err))
				continue
			}
			var sent, got []byte
			for _, e := range rp.log.Snapshot()[mark:] {
				if e.Src == "client" && e.K == "send" && e.Cl == cl.ID && int16(e.St) == stream {
					sent = e.Body
				}
				if e.Src == "backend" && e.K == "recv" && primitive.OpCode(e.Op) == primitive.OpCodeExecute && bytes.Contains(e.Body, id) {
					got = e.Body
				}
			}
			if sent == nil || got == nil {
				r.Inconc("c12 evicted: events of the EXECUTE not found")
				continue
			}
			r.Obs("frames_compared", 1)
			r.Obs("evicted_select_executes_compared", 1)
			r.NonTrivial("evicted-select/" + clNames[cons])
			if !bytes.Equal(sent, got) {
				r.Violate(mon.Violation{Signature: "C12/select-modified/execute-after-the-statement-left-the-prepared-cache/" + clNames[cons],
					Detail:   fmt.Sprintf("a SELECT was prepared through the proxy, %d other statements were prepared (its cache entry was evicted), an EXECUTE was answered UNPREPARED (every node had forgotten it), the nodes then knew it again: the EXECUTE with consistency %s reached the backend with a body that differs from what the client sent (sent %x, backend received %x)", nOthers, clNames[cons], sent, got),
					Scenario: sc})
				return
			}
		}
	}
}
