//go:build verif

package scen

// C10 — the virtual system.local / system.peers tables present a correct, mutually consistent ring.
//
// Oracle: model/systables.go (computed from the configuration and the facts fakecass serves) + the reference codecs:
// every reply is decoded with the reference frame codec and every cell with the reference datacodec under the type the
// result metadata ADVERTISES. Values the property leaves open (calculated tokens, host ids, schema_version) are checked
// against their rules on a full-table read ("baseline") of each instance; every generated projection then has to be
// exactly the projection of that validated baseline.

import (
	"bytes"
	"encoding/binary"
	"encoding/hex"
	"encoding/json"
	"fmt"
	"math/rand"
	"net"
	"os"
	"os/exec"
	"path/filepath"
	"regexp"
	"sort"
	"strings"
	"sync"
	"time"

	"github.com/datastax/cql-proxy/proxy"
	"github.com/datastax/go-cassandra-native-protocol/datacodec"
	"github.com/datastax/go-cassandra-native-protocol/datatype"
	"github.com/datastax/go-cassandra-native-protocol/message"
	"github.com/datastax/go-cassandra-native-protocol/primitive"

	"verif/fakecass"
	"verif/model"
	"verif/mon"
	"verif/px"
	"verif/rawcql"
)

// The property names "aliases" and "count(*)/count(col)/now()" side by side but does not say that a function result can be
// aliased; the proxy refuses `count(*) AS n`. Counted as an observation unless this is switched on.
const c10FlagAliasOnFunction = false

// `*` next to other selectors (`key, *`) is not CQL (selectClause: '*' | selectors); the proxy accepts it and answers with
// rows wider than the metadata. The property's selector lists are taken to be the legal ones: observation only unless
// this is switched on.
const c10FlagStarMix = false

func init() {
	Register(&Runner{Prop: "C10", Level: "exploration",
		Rule:    "PRNG-generated configurations (peer lists of 0-16 IPv4/IPv6/IPv4-mapped literals in varying text forms, self inside/outside the list or no rpc-address, data centers for none/all/some, tokens for none/all, DSE and non-DSE backend) x 30 generated selector lists each (subset/order of advertised columns, aliases, *, count(*), count(col), now(), mixes) as QUERY and PREPARE+EXECUTE over v3 and v4 clients, against a reference model; for lists containing self one real proxy per entry (mutual consistency), a restarted proxy and a second OS process (host ids). distinct = (peer-list shape, self index, table, selector-list shape); non-trivial = >= 1 peer or a projection other than `*`.",
		Shards:  shards(8, 16),
		Timeout: timeouts(6*time.Minute, 40*time.Minute),
		Run:     runC10})
}

// ---------------------------------------------------------------------------------------------------------------------
// configuration generator

type c10Entry struct {
	Text   string   `json:"addr"`
	Key    string   `json:"-"`
	Fam    string   `json:"fam"` // v4 | v6 | m4 (IPv4-mapped IPv6 text)
	DC     string   `json:"dc,omitempty"`
	Tokens []string `json:"tokens,omitempty"`
}

type c10Cfg struct {
	Idx      int        `json:"idx"`
	DSE      bool       `json:"dse"`
	List     []c10Entry `json:"peers"`
	SelfMode string     `json:"self_mode"` // in-list | outside | no-rpc
	SelfIdx  int        `json:"self_idx"`
	Self     c10Entry   `json:"self"`     // text may be another spelling of List[SelfIdx]
	DCMode   string     `json:"dc_mode"`  // none | all | some
	TokMode  string     `json:"tok_mode"` // none | all | partial (a configuration error)
	FamMode  string     `json:"fam_mode"`
}

func (g *c10Cfg) dseName() string {
	if g.DSE {
		return "dse"
	}
	return "oss"
}

// famClass names the address families present among all nodes.
func (g *c10Cfg) famClass() string {
	v4, v6 := false, false
	for _, e := range append([]c10Entry{g.Self}, g.List...) {
		if e.Fam == "v6" {
			v6 = true
		} else if e.Fam != "" {
			v4 = true
		}
	}
	switch {
	case v4 && v6:
		return "mixed-families"
	case v6:
		return "ipv6"
	}
	return "ipv4"
}

func (g *c10Cfg) shape() string {
	cnt := map[string]int{}
	for _, e := range g.List {
		cnt[e.Fam]++
	}
	return fmt.Sprintf("n%d(v4=%d,v6=%d,m4=%d)/dc=%s/tok=%s/%s", len(g.List), cnt["v4"], cnt["v6"], cnt["m4"], g.DCMode, g.TokMode, g.dseName())
}

func (g *c10Cfg) selfIndex() string {
	switch g.SelfMode {
	case "in-list":
		s := fmt.Sprint(g.SelfIdx)
		if g.Self.Text != g.List[g.SelfIdx].Text {
			s += "~" // spelled differently from the list entry
		}
		return s
	}
	return g.SelfMode
}

func c10GenAddr(rng *rand.Rand, fam string) c10Entry {
	var text string
	switch fam {
	case "v4":
		switch rng.Intn(6) {
		case 0, 1:
			text = fmt.Sprintf("10.0.0.%d", 1+rng.Intn(24))
		case 2:
			text = fmt.Sprintf("192.168.%d.%d", rng.Intn(3), 1+rng.Intn(12))
		case 3:
			text = fmt.Sprintf("172.16.0.%d", 1+rng.Intn(12))
		case 4:
			text = []string{"1.2.3.4", "8.8.8.8", "255.255.255.254", "0.0.0.1", "127.0.1.1", "100.64.0.9", "9.255.255.255", "128.0.0.1"}[rng.Intn(8)]
		default:
			text = fmt.Sprintf("%d.%d.%d.%d", 1+rng.Intn(223), rng.Intn(256), rng.Intn(256), 1+rng.Intn(254))
		}
	case "m4":
		switch rng.Intn(4) {
		case 0, 1:
			text = fmt.Sprintf("::ffff:10.0.0.%d", 1+rng.Intn(24))
		case 2:
			text = fmt.Sprintf("::FFFF:192.168.%d.%d", rng.Intn(3), 1+rng.Intn(12))
		default:
			text = fmt.Sprintf("::ffff:a00:%x", 1+rng.Intn(24)) // 10.0.0.x in hex groups
		}
	default:
		switch rng.Intn(8) {
		case 0, 1:
			text = fmt.Sprintf("2001:db8::%x", 1+rng.Intn(24))
		case 2:
			text = fmt.Sprintf("2001:0DB8:0000:0000:0000:0000:0000:%04X", 1+rng.Intn(24)) // another spelling of the line above
		case 3:
			text = fmt.Sprintf("fe80::%x", 1+rng.Intn(12))
		case 4:
			text = fmt.Sprintf("fd00:1:2:3::%x", 1+rng.Intn(12))
		case 5:
			text = []string{"::1", "::2", "::fffe:ffff:ffff", "::1:0:0:0", "::fffe:0:1", "ffff::1", "::ffff:0:0:1"}[rng.Intn(7)] // just below / above the mapped range
		case 6:
			text = fmt.Sprintf("%x:%x::%x:%x", 0x2000+rng.Intn(0x1000), rng.Intn(0x10000), rng.Intn(0x10000), 1+rng.Intn(0xfffe))
		default:
			text = fmt.Sprintf("0:0:0:0:0:0:%x:%x", 1+rng.Intn(0xfffe), rng.Intn(0x10000)) // "IPv4-compatible" range, below the mapped one
		}
	}
	key, _, err := model.AddrKey(text)
	if err != nil {
		panic(fmt.Sprintf("c10 generator produced %q: %v", text, err))
	}
	return c10Entry{Text: text, Key: key, Fam: fam}
}

// c10Respell returns another text form of the same address.
func c10Respell(e c10Entry) c10Entry {
	ip := net.ParseIP(e.Text)
	switch e.Fam {
	case "v4":
		e.Text = "::ffff:" + ip.To4().String()
		e.Fam = "m4"
	case "m4":
		e.Text = ip.To4().String()
		e.Fam = "v4"
	default:
		b := ip.To16()
		parts := make([]string, 8)
		for i := range parts {
			parts[i] = fmt.Sprintf("%04X", int(b[2*i])<<8|int(b[2*i+1]))
		}
		e.Text = strings.Join(parts, ":")
	}
	return e
}

var c10DCs = []string{"dc1", "dc2", "DC-West", "eu_central_1", "rack-less dc"}

func c10GenCfg(rng *rand.Rand, idx int) *c10Cfg {
	g := &c10Cfg{Idx: idx, DSE: rng.Intn(100) < 35}
	var n int
	switch p := rng.Intn(100); {
	case p < 8:
		n = 0
	case p < 18:
		n = 1
	case p < 58:
		n = 2 + rng.Intn(4)
	case p < 92:
		n = 6 + rng.Intn(10)
	default:
		n = 16
	}
	g.FamMode = []string{"v4", "v4", "v6", "mixed", "mixed", "mixed"}[rng.Intn(6)]
	pickFam := func() string {
		switch g.FamMode {
		case "v4":
			return "v4"
		case "v6":
			return "v6"
		}
		return []string{"v4", "v4", "v6", "v6", "m4"}[rng.Intn(5)]
	}
	seen := map[string]bool{}
	fresh := func() c10Entry {
		for {
			e := c10GenAddr(rng, pickFam())
			if !seen[e.Key] {
				seen[e.Key] = true
				return e
			}
		}
	}
	for i := 0; i < n; i++ {
		g.List = append(g.List, fresh())
	}
	switch {
	case n == 0 && rng.Intn(2) == 0:
		g.SelfMode = "no-rpc"
	case n == 0 || rng.Intn(100) < 30:
		g.SelfMode = "outside"
		g.Self = fresh()
	default:
		g.SelfMode = "in-list"
		g.SelfIdx = rng.Intn(n)
	}
	// data centers
	g.DCMode = []string{"none", "none", "all", "all", "all", "some"}[rng.Intn(6)]
	ndc := 1 + rng.Intn(3)
	dcs := make([]string, ndc)
	for i := range dcs {
		dcs[i] = c10DCs[rng.Intn(len(c10DCs))]
	}
	dcFor := func() string {
		switch g.DCMode {
		case "all":
			return dcs[rng.Intn(ndc)]
		case "some":
			if rng.Intn(2) == 0 {
				return dcs[rng.Intn(ndc)]
			}
		}
		return ""
	}
	for i := range g.List {
		g.List[i].DC = dcFor()
	}
	// tokens
	g.TokMode = []string{"none", "none", "none", "all", "all"}[rng.Intn(5)]
	if n >= 2 && rng.Intn(100) < 8 {
		g.TokMode = "partial"
	}
	usedTok := map[string]bool{}
	tokFor := func() []string {
		if g.TokMode == "none" {
			return nil
		}
		k := 1 + rng.Intn(3)
		var out []string
		for len(out) < k {
			t := fmt.Sprint(int64(rng.Uint64()))
			if rng.Intn(8) == 0 {
				t = []string{model.MinToken, "0", "9223372036854775807", "-1"}[rng.Intn(4)]
			}
			if !usedTok[t] {
				usedTok[t] = true
				out = append(out, t)
			}
		}
		return out
	}
	for i := range g.List {
		g.List[i].Tokens = tokFor()
	}
	switch g.SelfMode {
	case "in-list":
		g.Self = g.List[g.SelfIdx]
		if rng.Intn(100) < 40 {
			g.Self = c10Respell(g.Self)
		}
	case "outside":
		g.Self.DC = dcFor()
		g.Self.Tokens = tokFor()
	case "no-rpc":
		g.Self = c10Entry{Fam: "v4"}
		g.Self.DC = dcFor()
		g.Self.Tokens = tokFor()
	}
	if g.TokMode == "partial" {
		// drop the tokens of one entry that is not self: the proxy has to refuse this configuration
		j := rng.Intn(n)
		if g.SelfMode == "in-list" && j == g.SelfIdx {
			j = (j + 1) % n
		}
		g.List[j].Tokens = nil
	}
	return g
}

// c10Inst is one proxy instance to start.
type c10Inst struct {
	Role  string // primary | instance | restart | probe
	Idx   int    // list index (-1: not an entry)
	Self  c10Entry
	NoRPC bool
	Peers []c10Entry
}

func (g *c10Cfg) primary() c10Inst {
	in := c10Inst{Role: "primary", Idx: -1, Self: g.Self, Peers: g.List, NoRPC: g.SelfMode == "no-rpc"}
	if g.SelfMode == "in-list" {
		in.Idx = g.SelfIdx
	}
	return in
}

func (g *c10Cfg) others() []c10Inst {
	if g.SelfMode != "in-list" {
		return nil
	}
	var out []c10Inst
	for j, e := range g.List {
		if j != g.SelfIdx {
			out = append(out, c10Inst{Role: "instance", Idx: j, Self: e, Peers: g.List})
		}
	}
	return out
}

var c10Backend = model.BackendFacts{DC: "dc1", ReleaseVersion: "4.0.7", Partitioner: "org.apache.cassandra.dht.Murmur3Partitioner", CQLVersion: "3.4.5", ProtocolVersion: 4}

const c10DSEVersion = "6.8.0"

func (in c10Inst) ringConfig(dse bool) model.RingConfig {
	rc := model.RingConfig{ListenerIP: "127.0.0.1", DC: in.Self.DC, Tokens: in.Self.Tokens, Backend: c10Backend}
	if !in.NoRPC {
		rc.RPCAddr = in.Self.Text
	}
	if dse {
		rc.Backend.DSEVersion = c10DSEVersion
	}
	for _, p := range in.Peers {
		rc.Peers = append(rc.Peers, model.PeerSpec{Addr: p.Text, DC: p.DC, Tokens: p.Tokens})
	}
	return rc
}

func (in c10Inst) bedConfig(cl *fakecass.Cluster) px.BedConfig {
	bc := px.BedConfig{Cluster: cl, DC: in.Self.DC, Tokens: in.Self.Tokens, MaxVersion: primitive.ProtocolVersionDse2}
	if !in.NoRPC {
		bc.RPCAddr = in.Self.Text
	}
	for _, p := range in.Peers {
		bc.Peers = append(bc.Peers, proxy.PeerConfig{RPCAddr: p.Text, DC: p.DC, Tokens: p.Tokens})
	}
	return bc
}

// ---------------------------------------------------------------------------------------------------------------------
// selector-list generator

var c10Aliases = []string{"a1", "x", "my_alias", "c2", "the_key", "rack", "peer", "tokens", "host", "dc_name"}

func c10GenSelectors(rng *rand.Rand, k int, adv map[string][]model.SysColumn, dse bool) (string, []model.Selector) {
	col := func(t string) string { return adv[t][rng.Intn(len(adv[t]))].Name }
	C := func(name string) model.Selector { return model.Selector{Kind: model.SelColumn, Col: name} }
	switch k {
	case 0:
		return "local", []model.Selector{{Kind: model.SelStar}}
	case 1:
		return "peers", []model.Selector{{Kind: model.SelStar}}
	case 2:
		return "local", []model.Selector{{Kind: model.SelCountStar}}
	case 3:
		return "peers", []model.Selector{{Kind: model.SelCountStar}}
	case 4:
		return []string{"local", "peers"}[rng.Intn(2)], []model.Selector{{Kind: model.SelNow}}
	case 5, 6:
		t := []string{"local", "peers"}[k-5]
		var s []model.Selector
		for i := len(adv[t]) - 1; i >= 0; i-- {
			s = append(s, C(adv[t][i].Name))
		}
		return t, s
	case 7:
		if dse {
			return "local", []model.Selector{C("dse_version")}
		}
		return "local", []model.Selector{C("key")}
	case 8:
		t := []string{"local", "peers"}[rng.Intn(2)]
		return t, []model.Selector{{Kind: model.SelColumn, Col: col(t), Alias: "a1"}, {Kind: model.SelCountCol, Col: col(t)}}
	case 9:
		return "peers", []model.Selector{C("peer"), C("rpc_address"), C("data_center"), C("tokens"), C("host_id")}
	}
	t := []string{"local", "peers"}[rng.Intn(2)]
	if rng.Intn(25) == 0 {
		return t, []model.Selector{{Kind: model.SelStar}}
	}
	n := 1 + rng.Intn(6)
	if rng.Intn(10) == 0 {
		n = 7 + rng.Intn(10)
	}
	var s []model.Selector
	for i := 0; i < n; i++ {
		var x model.Selector
		switch p := rng.Intn(100); {
		case p < 52:
			x = C(col(t))
		case p < 68:
			x = model.Selector{Kind: model.SelColumn, Col: col(t), Alias: c10Aliases[rng.Intn(len(c10Aliases))]}
		case p < 71:
			x = model.Selector{Kind: model.SelStar}
		case p < 84:
			x = model.Selector{Kind: model.SelCountStar}
		case p < 92:
			x = model.Selector{Kind: model.SelCountCol, Col: col(t)}
		default:
			x = model.Selector{Kind: model.SelNow}
		}
		if x.Kind != model.SelColumn && x.Kind != model.SelStar && rng.Intn(100) < 6 {
			x.Alias = c10Aliases[rng.Intn(len(c10Aliases))]
		}
		s = append(s, x)
	}
	return t, s
}

func c10StarMixed(s []model.Selector) bool {
	if len(s) < 2 {
		return false
	}
	for _, x := range s {
		if x.Kind == model.SelStar {
			return true
		}
	}
	return false
}

func c10AliasOnFunction(s []model.Selector) bool {
	for _, x := range s {
		if x.Alias != "" && x.Kind != model.SelColumn {
			return true
		}
	}
	return false
}

// c10KindSet is the stable class of a selector list used in signatures.
func c10KindSet(s []model.Selector) string {
	m := map[string]bool{}
	for _, x := range s {
		k := string(x.Kind)
		if x.Alias != "" {
			k += "-aliased"
		}
		m[k] = true
	}
	var ks []string
	for k := range m {
		ks = append(ks, k)
	}
	sort.Strings(ks)
	return strings.Join(ks, "+")
}

// ---------------------------------------------------------------------------------------------------------------------
// reading results with the reference codecs

type c10Col struct {
	Keyspace, Table, Name, Type string
	dt                          datatype.DataType
}

type c10Cell struct {
	V    interface{}
	Null bool
	Err  string
	Raw  []byte
}

type c10Res struct {
	Kind   string // rows | error | prepared | other
	ErrMsg string
	Cols   []c10Col
	Rows   [][]c10Cell
	Meta   string // metadata inconsistency found while reading
	PrepID []byte
	MetaID []byte // result metadata id of a PREPARED result (v5, DSEv2)
	NVars  int
}

func c10TypeText(dt datatype.DataType) string {
	if dt == nil {
		return "<nil>"
	}
	switch dt.Code() {
	case primitive.DataTypeCodeVarchar:
		return "varchar"
	case primitive.DataTypeCodeAscii:
		return "ascii"
	case primitive.DataTypeCodeInet:
		return "inet"
	case primitive.DataTypeCodeUuid:
		return "uuid"
	case primitive.DataTypeCodeTimeuuid:
		return "timeuuid"
	case primitive.DataTypeCodeInt:
		return "int"
	case primitive.DataTypeCodeBigint:
		return "bigint"
	case primitive.DataTypeCodeSet:
		if s, ok := dt.(*datatype.Set); ok {
			return "set<" + c10TypeText(s.ElementType) + ">"
		}
	case primitive.DataTypeCodeList:
		if s, ok := dt.(*datatype.List); ok {
			return "list<" + c10TypeText(s.ElementType) + ">"
		}
	}
	return strings.ToLower(fmt.Sprint(dt))
}

// c10Decode decodes one cell with the REFERENCE datacodec under the advertised type.
func c10Decode(dt datatype.DataType, raw []byte, v primitive.ProtocolVersion) (out c10Cell) {
	cell := c10Cell{Raw: raw}
	if raw == nil {
		cell.Null = true
		return cell
	}
	fail := func(err error) c10Cell { cell.Err = err.Error(); return cell }
	defer func() { // the reference decoder panics on some malformed input (negative collection size)
		if p := recover(); p != nil {
			out = c10Cell{Raw: raw, Err: fmt.Sprintf("reference decoder panicked: %v", p)}
		}
	}()
	if c := dt.Code(); c == primitive.DataTypeCodeSet || c == primitive.DataTypeCodeList || c == primitive.DataTypeCodeMap {
		// guard only: the reference decoder allocates `size` elements before reading any of them
		if len(raw) < 4 {
			return fail(fmt.Errorf("collection of %d bytes has no size field", len(raw)))
		}
		if n := int64(int32(binary.BigEndian.Uint32(raw))); n < 0 || 4+4*n > int64(len(raw)) {
			return fail(fmt.Errorf("collection size %d cannot fit in a cell of %d bytes", n, len(raw)))
		}
	}
	switch c10TypeText(dt) {
	case "varchar", "ascii":
		var s string
		codec := datacodec.Varchar
		if dt.Code() == primitive.DataTypeCodeAscii {
			codec = datacodec.Ascii
		}
		null, err := codec.Decode(raw, &s, v)
		if err != nil {
			return fail(err)
		}
		cell.V, cell.Null = s, null
	case "inet":
		var ip net.IP
		null, err := datacodec.Inet.Decode(raw, &ip, v)
		if err != nil {
			return fail(err)
		}
		cell.V, cell.Null = ip, null
	case "uuid", "timeuuid":
		var u primitive.UUID
		codec := datacodec.Uuid
		if dt.Code() == primitive.DataTypeCodeTimeuuid {
			codec = datacodec.Timeuuid
		}
		null, err := codec.Decode(raw, &u, v)
		if err != nil {
			return fail(err)
		}
		cell.V, cell.Null = u, null
	case "int":
		var n int32
		null, err := datacodec.Int.Decode(raw, &n, v)
		if err != nil {
			return fail(err)
		}
		cell.V, cell.Null = int64(n), null
	case "bigint":
		var n int64
		null, err := datacodec.Bigint.Decode(raw, &n, v)
		if err != nil {
			return fail(err)
		}
		cell.V, cell.Null = n, null
	case "set<varchar>", "list<varchar>":
		var codec datacodec.Codec
		var err error
		if s, ok := dt.(*datatype.Set); ok {
			codec, err = datacodec.NewSet(s)
		} else {
			codec, err = datacodec.NewList(dt.(*datatype.List))
		}
		if err != nil {
			return fail(err)
		}
		var l []string
		null, err := codec.Decode(raw, &l, v)
		if err != nil {
			return fail(err)
		}
		if l == nil {
			l = []string{}
		}
		cell.V, cell.Null = l, null
	default:
		codec, err := datacodec.NewCodec(dt)
		if err != nil {
			return fail(err)
		}
		var dest interface{}
		null, err := codec.Decode(raw, &dest, v)
		if err != nil {
			return fail(err)
		}
		cell.V, cell.Null = dest, null
	}
	return cell
}

func c10Canon(c c10Cell) string {
	if c.Err != "" {
		return "undecodable:" + hex.EncodeToString(c.Raw)
	}
	if c.Null {
		return "null"
	}
	switch v := c.V.(type) {
	case string:
		return "s:" + v
	case net.IP:
		return "ip:" + hex.EncodeToString(v.To16())
	case primitive.UUID:
		return "u:" + hex.EncodeToString(v[:])
	case int64:
		return fmt.Sprintf("i:%d", v)
	case []string:
		l := append([]string{}, v...)
		sort.Strings(l)
		return "set:{" + strings.Join(l, ",") + "}"
	}
	return fmt.Sprintf("?:%v", c.V)
}

func c10Cols(md *message.RowsMetadata) ([]c10Col, string) {
	if md == nil {
		return nil, "no result metadata"
	}
	var cols []c10Col
	for _, c := range md.Columns {
		cols = append(cols, c10Col{Keyspace: c.Keyspace, Table: c.Table, Name: c.Name, Type: c10TypeText(c.Type), dt: c.Type})
	}
	if int(md.ColumnCount) != len(md.Columns) {
		return cols, fmt.Sprintf("column count %d but %d column specs", md.ColumnCount, len(md.Columns))
	}
	return cols, ""
}

type c10Client struct {
	cl     *rawcql.Client
	stream int16
	dead   bool // the proxy closed the connection in answer to a request (reported once)
}

func (k *c10Client) next() int16 { k.stream = k.stream%30000 + 1; return k.stream }

// call sends a message and decodes the reply with the reference frame codec.
func (k *c10Client) call(msg message.Message) (*c10Res, error) {
	f, err := k.cl.Call(k.next(), msg, 20*time.Second)
	if err != nil {
		return nil, err
	}
	if perr := c10PrecheckResult(f); perr != nil {
		return &c10Res{Kind: "other", ErrMsg: "malformed RESULT body: " + perr.Error(), Meta: "malformed-result-body"}, nil
	}
	fr, err := k.cl.Decode(f)
	if err != nil {
		return &c10Res{Kind: "other", ErrMsg: "reference codec cannot decode the reply: " + err.Error(), Meta: "undecodable-frame"}, nil
	}
	res := &c10Res{}
	switch m := fr.Body.Message.(type) {
	case *message.RowsResult:
		res.Kind = "rows"
		res.Cols, res.Meta = c10Cols(m.Metadata)
		for _, row := range m.Data {
			if len(row) != len(res.Cols) && res.Meta == "" {
				res.Meta = fmt.Sprintf("row with %d cells under %d columns", len(row), len(res.Cols))
			}
			var cells []c10Cell
			for i, raw := range row {
				if i < len(res.Cols) {
					cells = append(cells, c10Decode(res.Cols[i].dt, raw, k.cl.Version))
				}
			}
			res.Rows = append(res.Rows, cells)
		}
	case *message.PreparedResult:
		res.Kind = "prepared"
		res.PrepID = m.PreparedQueryId
		res.MetaID = m.ResultMetadataId
		res.Cols, res.Meta = c10Cols(m.ResultMetadata)
		if m.VariablesMetadata != nil {
			res.NVars = len(m.VariablesMetadata.Columns)
		}
	case message.Error:
		res.Kind = "error"
		res.ErrMsg = m.GetErrorMessage()
	default:
		res.Kind = "other"
		res.ErrMsg = fmt.Sprintf("%T", m)
	}
	return res, nil
}

// c10PrecheckResult walks a RESULT/Rows body structurally (v3/v4, no flags) before the reference codec sees it. It is a
// guard, not an oracle: the reference codec allocates whatever a [bytes] length says, and a row whose width differs from
// the metadata makes those lengths garbage (a 2 GB allocation per reply).
func c10PrecheckResult(f *rawcql.Frame) error {
	if f.OpCode != primitive.OpCodeResult || f.Flags != 0 {
		return nil
	}
	b := f.Body
	pos := 0
	i32 := func() (int, error) {
		if pos+4 > len(b) {
			return 0, fmt.Errorf("truncated at offset %d", pos)
		}
		v := int(int32(binary.BigEndian.Uint32(b[pos:])))
		pos += 4
		return v, nil
	}
	u16 := func() (int, error) {
		if pos+2 > len(b) {
			return 0, fmt.Errorf("truncated at offset %d", pos)
		}
		v := int(binary.BigEndian.Uint16(b[pos:]))
		pos += 2
		return v, nil
	}
	str := func() error {
		n, err := u16()
		if err != nil {
			return err
		}
		if pos+n > len(b) {
			return fmt.Errorf("string of %d bytes at offset %d exceeds the body", n, pos)
		}
		pos += n
		return nil
	}
	var option func(depth int) error
	option = func(depth int) error {
		if depth > 8 {
			return fmt.Errorf("type nesting too deep")
		}
		id, err := u16()
		if err != nil {
			return err
		}
		switch id {
		case 0x0000:
			return str()
		case 0x0020, 0x0022:
			return option(depth + 1)
		case 0x0021:
			if err := option(depth + 1); err != nil {
				return err
			}
			return option(depth + 1)
		case 0x0030:
			if err := str(); err != nil {
				return err
			}
			if err := str(); err != nil {
				return err
			}
			n, err := u16()
			if err != nil {
				return err
			}
			for i := 0; i < n; i++ {
				if err := str(); err != nil {
					return err
				}
				if err := option(depth + 1); err != nil {
					return err
				}
			}
		case 0x0031:
			n, err := u16()
			if err != nil {
				return err
			}
			for i := 0; i < n; i++ {
				if err := option(depth + 1); err != nil {
					return err
				}
			}
		}
		return nil
	}
	kind, err := i32()
	if err != nil || kind != 2 {
		return err // not ROWS: nothing to guard
	}
	flags, err := i32()
	if err != nil {
		return err
	}
	ncols, err := i32()
	if err != nil {
		return err
	}
	if ncols < 0 || ncols > 4096 {
		return fmt.Errorf("column count %d", ncols)
	}
	if flags&0x0002 != 0 { // paging state
		n, err := i32()
		if err != nil {
			return err
		}
		if n > 0 {
			pos += n
		}
	}
	if flags&0x0004 == 0 { // metadata present
		if flags&0x0001 != 0 {
			if err := str(); err != nil {
				return err
			}
			if err := str(); err != nil {
				return err
			}
		}
		for i := 0; i < ncols; i++ {
			if flags&0x0001 == 0 {
				if err := str(); err != nil {
					return err
				}
				if err := str(); err != nil {
					return err
				}
			}
			if err := str(); err != nil {
				return err
			}
			if err := option(0); err != nil {
				return err
			}
		}
	}
	nrows, err := i32()
	if err != nil {
		return err
	}
	if nrows < 0 || nrows > 1<<20 {
		return fmt.Errorf("row count %d", nrows)
	}
	for r := 0; r < nrows; r++ {
		for c := 0; c < ncols; c++ {
			n, err := i32()
			if err != nil {
				return fmt.Errorf("row %d cell %d: %v", r, c, err)
			}
			if n > 0 {
				if pos+n > len(b) {
					return fmt.Errorf("row %d cell %d: length %d exceeds the %d bytes left", r, c, n, len(b)-pos)
				}
				pos += n
			}
		}
	}
	if pos != len(b) {
		return fmt.Errorf("%d rows x %d columns end at offset %d but the body has %d bytes (row width differs from the metadata)", nrows, ncols, pos, len(b))
	}
	return nil
}

func (k *c10Client) query(q string) (*c10Res, error) {
	return k.call(&message.Query{Query: q, Options: &message.QueryOptions{Consistency: primitive.ConsistencyLevelOne}})
}

var c10Digits = regexp.MustCompile(`\d+`)

func c10NormMsg(s string) string {
	s = c10Digits.ReplaceAllString(s, "N")
	if len(s) > 70 {
		s = s[:70]
	}
	return s
}

// ---------------------------------------------------------------------------------------------------------------------
// host-id registry (process wide: across queries, restarts, instances and configurations)

type c10HostIDs struct {
	mu    sync.Mutex
	byKey map[string]string // address key → uuid hex
	first map[string]string // address key → who saw it first
	byID  map[string]string // uuid hex → address key
	text  map[string]string // address key → canonical text
}

var c10Reg = &c10HostIDs{byKey: map[string]string{}, first: map[string]string{}, byID: map[string]string{}, text: map[string]string{}}

func (g *c10HostIDs) observe(r *mon.Result, key string, u primitive.UUID, who, scope string, scen interface{}) {
	ip, _ := hex.DecodeString(key)
	text := net.IP(ip).String()
	if p := model.CheckHostIDShape(u); p != "" {
		r.Violate(mon.Violation{Signature: "C10/host-id/" + p, Detail: fmt.Sprintf("host_id %s of %s (%s) is not a version-3 RFC-variant uuid", u.String(), text, who), Scenario: scen})
	}
	h := hex.EncodeToString(u[:])
	g.mu.Lock()
	prev, seen := g.byKey[key]
	first := g.first[key]
	other, taken := g.byID[h]
	if !seen {
		g.byKey[key], g.first[key], g.text[key] = h, who, text
	}
	if !taken {
		g.byID[h] = key
	}
	g.mu.Unlock()
	r.Obs("host_ids_observed", 1)
	if seen && prev != h {
		r.Violate(mon.Violation{Signature: "C10/host-id/differs-for-same-address/" + scope,
			Detail:   fmt.Sprintf("address %s: host_id %s (%s) but %s earlier (%s) — not a function of the address only", text, h, who, prev, first),
			Scenario: scen})
	}
	if taken && other != key {
		r.Violate(mon.Violation{Signature: "C10/host-id/shared-by-distinct-addresses",
			Detail: fmt.Sprintf("host_id %s presented for %s and for address key %s", h, text, other), Scenario: scen})
	}
	if !seen {
		if model.MD5NameUUID(text) == [16]byte(u) {
			r.Obs("crosscheck:host_id==md5(address text)", 1)
		} else {
			r.Obs("crosscheck:host_id!=md5(address text)", 1)
		}
	}
}

func (g *c10HostIDs) sample(n int) (texts []string, ids map[string]string) {
	g.mu.Lock()
	defer g.mu.Unlock()
	var keys []string
	for k := range g.byKey {
		keys = append(keys, k)
	}
	sort.Strings(keys)
	ids = map[string]string{}
	step := 1
	if len(keys) > n {
		step = len(keys) / n
	}
	for i := 0; i < len(keys) && len(texts) < n; i += step {
		texts = append(texts, g.text[keys[i]])
		ids[keys[i]] = g.byKey[keys[i]]
	}
	return
}

// ---------------------------------------------------------------------------------------------------------------------
// one instance: baseline read + validation against the model

type c10Tuple struct{ DC, Tokens, HostID string }

type c10View struct {
	who   string
	ring  *model.Ring
	adv   map[string][]model.SysColumn    // advertised order per table (what `*` expands to)
	base  map[string][]map[string]c10Cell // validated full-table rows
	nodes map[string]c10Tuple             // address key → presented tuple
	canon map[string][]string             // table → sorted canonical rows (restart comparison)
}

type c10Run struct {
	c     *Ctx
	r     *mon.Result
	g     *c10Cfg
	scen  map[string]interface{}
	quiet string // non-empty: the case is outside what the property fixes; findings become observations "<quiet>:<signature>"
}

func (x *c10Run) violate(sig, detail string, witness interface{}) {
	if x.quiet != "" {
		parts := strings.Split(sig, "/")
		if len(parts) > 3 {
			parts = parts[:3]
		}
		x.r.Obs(x.quiet+":"+strings.Join(parts, "/"), 1)
		return
	}
	x.r.Violate(mon.Violation{Signature: sig, Detail: detail, Scenario: x.scen, Witness: witness})
}

func c10RowsWitness(res *c10Res) interface{} {
	if res == nil {
		return nil
	}
	var cols []string
	for _, c := range res.Cols {
		cols = append(cols, c.Name+":"+c.Type)
	}
	var rows [][]string
	for i, row := range res.Rows {
		if i >= 6 {
			break
		}
		var cs []string
		for _, c := range row {
			cs = append(cs, c10Canon(c))
		}
		rows = append(rows, cs)
	}
	return map[string]interface{}{"kind": res.Kind, "error": res.ErrMsg, "columns": cols, "rows": rows, "nrows": len(res.Rows), "meta": res.Meta}
}

// readInstance reads both tables in full from one instance and validates them against the model.
func (x *c10Run) readInstance(k *c10Client, ring *model.Ring, who, scope string) *c10View {
	v := &c10View{who: who, ring: ring, adv: map[string][]model.SysColumn{}, base: map[string][]map[string]c10Cell{}, nodes: map[string]c10Tuple{}, canon: map[string][]string{}}
	dse := ring.Facts.DSEVersion != ""
	presentedTokens := map[string][]string{}
	for _, table := range []string{"local", "peers"} {
		q := "SELECT * FROM system." + table
		res, err := k.query(q)
		if err != nil {
			x.r.Inconc(fmt.Sprintf("cfg %d %s: no reply to %q: %v", x.g.Idx, who, q, err))
			return nil
		}
		x.r.Eval(1)
		x.r.Obs("baseline_reads", 1)
		if res.Kind != "rows" || res.Meta != "" {
			x.violate(fmt.Sprintf("C10/baseline/%s/not-a-well-formed-rows-result", table), fmt.Sprintf("%s: %q answered with %s %q %s", who, q, res.Kind, res.ErrMsg, res.Meta), c10RowsWitness(res))
			return nil
		}
		// columns: the model's set, each under the model's type
		want := model.SystemColumns(table, dse)
		seen := map[string]bool{}
		for _, c := range res.Cols {
			if seen[c.Name] {
				x.violate(fmt.Sprintf("C10/columns/%s/duplicate-in-star/%s", table, c.Name), fmt.Sprintf("%s: `*` lists column %s twice", who, c.Name), c10RowsWitness(res))
			}
			seen[c.Name] = true
			v.adv[table] = append(v.adv[table], model.SysColumn{Name: c.Name, Type: c.Type})
			known := false
			for _, w := range want {
				if w.Name == c.Name {
					known = true
					if w.Type != c.Type {
						x.violate(fmt.Sprintf("C10/columns/%s/%s-advertised-as-%s", table, c.Name, c.Type), fmt.Sprintf("%s: column %s advertised as %s, expected %s", who, c.Name, c.Type, w.Type), c10RowsWitness(res))
					}
				}
			}
			if !known {
				if c.Name == "dse_version" && !dse {
					x.violate(fmt.Sprintf("C10/columns/%s/dse_version-on-non-dse-backend", table), fmt.Sprintf("%s: dse_version advertised although the backend is not DSE", who), c10RowsWitness(res))
				} else {
					x.r.Obs("extra-column:"+table+"."+c.Name, 1)
				}
			}
		}
		for _, w := range want {
			if !seen[w.Name] && !w.Optional {
				x.violate(fmt.Sprintf("C10/columns/%s/missing-%s/%s", table, w.Name, x.g.dseName()), fmt.Sprintf("%s: `*` on system.%s does not list %s", who, table, w.Name), c10RowsWitness(res))
			}
		}
		// rows
		if len(res.Rows) != ring.RowCount(table) {
			x.violate(fmt.Sprintf("C10/rows/%s/count-differs-from-model", table), fmt.Sprintf("%s: system.%s has %d rows, model %d (nodes: %d)", who, table, len(res.Rows), ring.RowCount(table), len(ring.Nodes)), c10RowsWitness(res))
		}
		matched := map[string]bool{}
		for _, row := range res.Rows {
			cells := map[string]c10Cell{}
			var canon []string
			for i, c := range row {
				cells[res.Cols[i].Name] = c
				canon = append(canon, res.Cols[i].Name+"="+c10Canon(c))
				x.r.Obs("cells_decoded", 1)
				x.r.Obs("type:"+res.Cols[i].Type, 1)
				if c.Err != "" {
					x.violate(fmt.Sprintf("C10/cell-undecodable/%s.%s/as-%s", table, res.Cols[i].Name, res.Cols[i].Type), fmt.Sprintf("%s: cell %x of %s.%s does not decode under the advertised type %s: %s", who, c.Raw, table, res.Cols[i].Name, res.Cols[i].Type, c.Err), c10RowsWitness(res))
				}
			}
			v.base[table] = append(v.base[table], cells)
			v.canon[table] = append(v.canon[table], strings.Join(canon, " "))
			// which node is this row about?
			node := ring.Self
			if table == "peers" {
				node = nil
				if pc, ok := cells["peer"]; ok && pc.Err == "" && !pc.Null {
					if ip, ok := pc.V.(net.IP); ok {
						key := hex.EncodeToString(ip.To16())
						node = ring.Node(key)
						if node == nil || node.Self {
							x.violate("C10/rows/peers/row-for-address-that-is-not-a-peer", fmt.Sprintf("%s: system.peers has a row for %s which is %s", who, ip, map[bool]string{true: "the proxy itself", false: "not configured"}[node != nil]), c10RowsWitness(res))
							node = nil
						} else if matched[key] {
							x.violate("C10/rows/peers/two-rows-for-one-peer", fmt.Sprintf("%s: system.peers has two rows for %s", who, ip), c10RowsWitness(res))
						}
						matched[key] = true
					}
				}
				if node == nil {
					continue
				}
			}
			for name, cell := range cells {
				w, ok := ring.Expect(table, node, name)
				if !ok || cell.Err != "" {
					continue
				}
				x.checkCell(who, scope, table, node, name, cell, w, res)
			}
			if tc, ok := cells["tokens"]; ok && tc.Err == "" {
				if l, ok := tc.V.([]string); ok {
					presentedTokens[node.Key] = l
				}
			}
			t := c10Tuple{DC: c10Canon(cells["data_center"]), Tokens: c10Canon(cells["tokens"]), HostID: c10Canon(cells["host_id"])}
			v.nodes[node.Key] = t
		}
		if table == "peers" {
			for _, p := range ring.Peers() {
				if !matched[p.Key] {
					x.violate("C10/rows/peers/configured-peer-missing", fmt.Sprintf("%s: no system.peers row for configured peer %s", who, p.IP), c10RowsWitness(res))
				}
			}
		}
		sort.Strings(v.canon[table])
	}
	if ring.Calculated {
		for _, p := range ring.CheckCalculatedTokens(presentedTokens) {
			x.violate(fmt.Sprintf("C10/tokens/%s/%s", p, x.g.famClass()), fmt.Sprintf("%s: calculated tokens break the rule %q: %s", who, p, c10TokensInOrder(ring, presentedTokens)), map[string]interface{}{"nodes_in_address_order": c10TokensInOrder(ring, presentedTokens)})
		}
		x.r.Obs("calculated_rings_checked", 1)
	} else {
		x.r.Obs("explicit_token_rings_checked", 1)
	}
	return v
}

func c10TokensInOrder(ring *model.Ring, presented map[string][]string) string {
	var parts []string
	for _, n := range ring.Nodes {
		parts = append(parts, fmt.Sprintf("%s=%v", n.IP, presented[n.Key]))
	}
	return strings.Join(parts, " ")
}

func (x *c10Run) checkCell(who, scope, table string, node *model.RingNode, name string, cell c10Cell, w model.Want, res *c10Res) {
	sig := func(p string) string { return fmt.Sprintf("C10/value/%s.%s/%s", table, name, p) }
	if cell.Null {
		x.violate(sig("null"), fmt.Sprintf("%s: %s.%s of node %s is null", who, table, name, node.IP), c10RowsWitness(res))
		return
	}
	switch w.Kind {
	case model.WantText, model.WantSomeText, model.WantProtoDigits:
		s, ok := cell.V.(string)
		if !ok {
			x.violate(sig("not-text"), fmt.Sprintf("%s: %s.%s decodes to %T", who, table, name, cell.V), c10RowsWitness(res))
			return
		}
		switch w.Kind {
		case model.WantText:
			if s != w.Text {
				x.violate(sig("differs-from-model/"+x.g.dseName()), fmt.Sprintf("%s: %s.%s of node %s is %q, model %q", who, table, name, node.IP, s, w.Text), c10RowsWitness(res))
			}
		case model.WantSomeText:
			if s == "" {
				x.violate(sig("empty"), fmt.Sprintf("%s: %s.%s is empty", who, table, name), c10RowsWitness(res))
			}
			x.r.Obs(fmt.Sprintf("value:%s.%s=%s", table, name, s), 1)
		case model.WantProtoDigits:
			if !strings.Contains(s, w.Text) {
				x.violate(sig("does-not-name-the-negotiated-version"), fmt.Sprintf("%s: %s.%s is %q, negotiated version %s", who, table, name, s, w.Text), c10RowsWitness(res))
			}
			x.r.Obs(fmt.Sprintf("value:%s.%s=%s", table, name, s), 1)
		}
	case model.WantAddr:
		ip, ok := cell.V.(net.IP)
		if !ok || hex.EncodeToString(ip.To16()) != w.Key {
			x.violate(sig("differs-from-node-address"), fmt.Sprintf("%s: %s.%s of node %s is %v", who, table, name, node.IP, cell.V), c10RowsWitness(res))
		}
	case model.WantTokens:
		l, ok := cell.V.([]string)
		if !ok {
			x.violate(sig("not-a-collection-of-text"), fmt.Sprintf("%s: %s.%s decodes to %T", who, table, name, cell.V), c10RowsWitness(res))
			return
		}
		if w.Tokens != nil {
			a, b := append([]string{}, l...), append([]string{}, w.Tokens...)
			sort.Strings(a)
			sort.Strings(b)
			if strings.Join(a, ",") != strings.Join(b, ",") {
				x.violate(sig("differs-from-configured-tokens"), fmt.Sprintf("%s: tokens of %s are %v, configured %v", who, node.IP, l, w.Tokens), c10RowsWitness(res))
			}
		}
	case model.WantHostID:
		u, ok := cell.V.(primitive.UUID)
		if !ok {
			x.violate(sig("not-a-uuid"), fmt.Sprintf("%s: %s.%s decodes to %T", who, table, name, cell.V), c10RowsWitness(res))
			return
		}
		c10Reg.observe(x.r, w.Key, u, fmt.Sprintf("cfg %d %s", x.g.Idx, who), scope, x.scen)
	case model.WantAnyUUID:
		if _, ok := cell.V.(primitive.UUID); !ok {
			x.violate(sig("not-a-uuid"), fmt.Sprintf("%s: %s.%s decodes to %T", who, table, name, cell.V), c10RowsWitness(res))
		}
	}
}

// ---------------------------------------------------------------------------------------------------------------------
// projections

func c10IntegerType(t string) bool {
	switch t {
	case "int", "bigint":
		return true
	}
	return false
}

// checkProjection compares one ROWS result with the projection of the validated baseline.
func (x *c10Run) checkProjection(v *c10View, table string, sels []model.Selector, q, form string, ver primitive.ProtocolVersion, res *c10Res) bool {
	kinds := c10KindSet(sels)
	switch { // the two constructs with a defect of their own get one stable class each
	case c10StarMixed(sels):
		kinds = "star-next-to-other-selectors"
	case c10AliasOnFunction(sels):
		kinds = "alias-on-function"
	}
	out, err := model.Project(sels, v.adv[table])
	if err != nil {
		panic("c10: generated a selector list outside the model: " + err.Error())
	}
	wit := func() interface{} {
		return map[string]interface{}{"query": q, "form": form, "version": int(ver), "got": c10RowsWitness(res), "advertised": v.adv[table]}
	}
	if res.Meta != "" {
		x.violate(fmt.Sprintf("C10/result-malformed/%s/%s/%s", form, table, kinds), fmt.Sprintf("%q: %s %s", q, res.Meta, res.ErrMsg), wit())
		return false
	}
	if res.Kind != "rows" {
		if c10AliasOnFunction(sels) && !c10FlagAliasOnFunction {
			x.r.Obs("alias-on-function:refused", 1)
			return false
		}
		msg := "/" + c10NormMsg(res.ErrMsg)
		if c10StarMixed(sels) || c10AliasOnFunction(sels) {
			msg = "" // the message names the generated alias / column
		}
		x.violate(fmt.Sprintf("C10/refused/%s/%s/%s%s", form, table, kinds, msg), fmt.Sprintf("%s %q answered with %s %q", form, q, res.Kind, res.ErrMsg), wit())
		return false
	}
	if c10AliasOnFunction(sels) {
		x.r.Obs("alias-on-function:served", 1)
	}
	ok := true
	// metadata: exactly the requested columns, in order
	if len(res.Cols) != len(out) {
		x.violate(fmt.Sprintf("C10/projection/%s/column-count-differs/%s", table, kinds), fmt.Sprintf("%q returned %d columns, requested %d", q, len(res.Cols), len(out)), wit())
		return false
	}
	for i, o := range out {
		c := res.Cols[i]
		if o.Name != "" && c.Name != o.Name {
			what := string(o.Kind)
			if o.Kind == model.SelColumn && o.Name != o.Source {
				what = "aliased-col"
			}
			x.violate(fmt.Sprintf("C10/projection/%s/column-name-or-order-differs/%s", table, what), fmt.Sprintf("%q: column %d is named %q, requested %q", q, i, c.Name, o.Name), wit())
			return false // everything after a misplaced column is a consequence
		}
	}
	for i, o := range out {
		c := res.Cols[i]
		if o.Type != "" && c.Type != o.Type {
			x.violate(fmt.Sprintf("C10/projection/%s/type-differs/%s-as-%s", table, o.Kind, c.Type), fmt.Sprintf("%q: column %d (%s) advertised as %s, expected %s", q, i, c.Name, c.Type, o.Type), wit())
			ok = false
		}
		if (o.Kind == model.SelCountStar || o.Kind == model.SelCountCol) && !c10IntegerType(c.Type) {
			x.violate(fmt.Sprintf("C10/projection/%s/count-advertised-as-%s", table, c.Type), fmt.Sprintf("%q: count column advertised as %s", q, c.Type), wit())
			ok = false
		}
		if c.Keyspace != "system" || c.Table != table {
			x.r.Obs("colspec-not-system."+table, 1)
		}
	}
	if !ok {
		return false
	}
	n := v.ring.RowCount(table)
	// actual rows
	var got []string
	for _, row := range res.Rows {
		var parts []string
		for i, cell := range row {
			o := out[i]
			x.r.Obs("cells_decoded", 1)
			x.r.Obs("type:"+res.Cols[i].Type, 1)
			src := o.Source
			if src == "" {
				src = string(o.Kind)
			}
			if cell.Err != "" {
				x.violate(fmt.Sprintf("C10/cell-undecodable/%s.%s/as-%s", table, src, res.Cols[i].Type), fmt.Sprintf("%q: cell %x of column %d does not decode under the advertised type %s: %s", q, cell.Raw, i, res.Cols[i].Type, cell.Err), wit())
				ok = false
				continue
			}
			switch o.Kind {
			case model.SelNow:
				u, isU := cell.V.(primitive.UUID)
				if !isU || cell.Null || u[6]>>4 != 1 || u[8]&0xC0 != 0x80 {
					x.violate(fmt.Sprintf("C10/now/%s/not-a-version-1-timeuuid", table), fmt.Sprintf("%q: now() cell is %s", q, c10Canon(cell)), wit())
					ok = false
				}
				x.r.Obs("now_cells_checked", 1)
				parts = append(parts, "<now>")
			case model.SelCountStar, model.SelCountCol:
				cnt, isI := cell.V.(int64)
				if !isI || cell.Null || int(cnt) != n {
					x.violate(fmt.Sprintf("C10/count/%s/%s/differs-from-row-count", table, o.Kind), fmt.Sprintf("%q: count cell is %s, the table has %d rows", q, c10Canon(cell), n), wit())
					ok = false
				}
				x.r.Obs("count_cells_checked", 1)
				parts = append(parts, fmt.Sprintf("i:%d", n))
			default:
				parts = append(parts, c10Canon(cell))
			}
		}
		got = append(got, strings.Join(parts, " | "))
	}
	if !ok {
		return false
	}
	// expected rows = projection of the baseline
	var want []string
	for _, b := range v.base[table] {
		var parts []string
		for _, o := range out {
			switch o.Kind {
			case model.SelNow:
				parts = append(parts, "<now>")
			case model.SelCountStar, model.SelCountCol:
				parts = append(parts, fmt.Sprintf("i:%d", n))
			default:
				parts = append(parts, c10Canon(b[o.Source]))
			}
		}
		want = append(want, strings.Join(parts, " | "))
	}
	sameOrder := strings.Join(got, "\n") == strings.Join(want, "\n")
	sort.Strings(got)
	sort.Strings(want)
	if model.Aggregate(sels) {
		// the property fixes the VALUE of count(...), not how many rows carry it
		if len(got) == 0 {
			if n == 0 {
				x.r.Obs("count-on-empty-table:no-row-returned", 1)
			} else {
				x.violate(fmt.Sprintf("C10/count/%s/no-row-carries-the-count", table), fmt.Sprintf("%q returned no row although the table has %d", q, n), wit())
				return false
			}
		}
		x.r.Obs(fmt.Sprintf("aggregate-rows:%s:%s", table, map[bool]string{true: "one", false: "other"}[len(got) == 1]), 1)
		pool := map[string]int{}
		for _, w := range want {
			pool[w]++
		}
		for _, g := range got {
			if pool[g] == 0 {
				x.violate(fmt.Sprintf("C10/projection/%s/rows-differ-from-table/%s", table, kinds), fmt.Sprintf("%q returned a row that is not a projection of the table: %s", q, g), map[string]interface{}{"q": wit(), "want_rows": want})
				return false
			}
			pool[g]--
		}
		return true
	}
	if len(got) != len(want) {
		x.violate(fmt.Sprintf("C10/rows/%s/count-differs-from-model", table), fmt.Sprintf("%s %q returned %d rows, the table has %d", form, q, len(got), len(want)), wit())
		return false
	}
	if strings.Join(got, "\n") != strings.Join(want, "\n") {
		x.violate(fmt.Sprintf("C10/projection/%s/rows-differ-from-table/%s", table, kinds), fmt.Sprintf("%s %q: rows are not the projection of the table read in full", form, q), map[string]interface{}{"q": wit(), "want_rows": want, "got_rows": got})
		return false
	}
	if !sameOrder {
		x.r.Obs("row-order-differs-from-star-read", 1)
	}
	return true
}

// runList runs one selector list as QUERY and as PREPARE+EXECUTE on one client.
func (x *c10Run) runList(k *c10Client, v *c10View, table string, sels []model.Selector) bool {
	if k.dead {
		return false
	}
	q := model.SelectCQL(sels, table)
	ver := k.cl.Version
	if c10StarMixed(sels) && !c10FlagStarMix {
		x.quiet = "star-mixed"
		x.r.Obs("star-mixed:lists-run", 1)
		defer func() { x.quiet = "" }()
	}
	res, err := k.query(q)
	if err != nil {
		x.r.Inconc(fmt.Sprintf("cfg %d: no reply to QUERY %q: %v", x.g.Idx, q, err))
		return false
	}
	x.r.Eval(1)
	x.r.Obs("query_results_checked", 1)
	served := x.checkProjection(v, table, sels, q, "query", ver, res)

	pres, err := k.call(&message.Prepare{Query: q})
	if err != nil {
		if k.cl.IsClosed() && res.Kind == "rows" {
			k.dead = true
			x.violate(fmt.Sprintf("C10/prepare/connection-closed-but-query-served/%s/%s/v%d", x.g.dseName(), table, int(ver)),
				fmt.Sprintf("QUERY %q is served (%d rows), but in answer to PREPARE of the same text on a protocol version %d connection the proxy closed the connection without a reply", q, len(res.Rows), int(ver)),
				map[string]interface{}{"query": q, "version": int(ver)})
			return served
		}
		x.r.Inconc(fmt.Sprintf("cfg %d: no reply to PREPARE %q: %v", x.g.Idx, q, err))
		return false
	}
	x.r.Eval(1)
	starClass := "columns"
	for _, s := range sels {
		if s.Kind == model.SelStar {
			starClass = "star"
		}
	}
	if pres.Kind != "prepared" {
		if res.Kind == "rows" {
			x.violate(fmt.Sprintf("C10/prepare/refused-but-query-served/%s/%s/%s", x.g.dseName(), table, c10NormMsg(pres.ErrMsg)),
				fmt.Sprintf("QUERY %q is served (%d rows) but PREPARE of the same text answers %s %q", q, len(res.Rows), pres.Kind, pres.ErrMsg),
				map[string]interface{}{"query": q, "version": int(ver), "query_result": c10RowsWitness(res), "prepare_result": c10RowsWitness(pres)})
		} else {
			x.r.Obs("prepare-and-query-both-refused", 1)
		}
		return served
	}
	x.r.Obs("prepares_ok", 1)
	if pres.NVars != 0 {
		x.r.Obs("prepare-with-bind-variables", 1)
	}
	eres, err := k.call(&message.Execute{QueryId: pres.PrepID, ResultMetadataId: pres.MetaID, Options: &message.QueryOptions{Consistency: primitive.ConsistencyLevelOne}})
	if err != nil {
		x.r.Inconc(fmt.Sprintf("cfg %d: no reply to EXECUTE %q: %v", x.g.Idx, q, err))
		return false
	}
	x.r.Eval(1)
	x.r.Obs("prepare_execute_checked", 1)
	if res.Kind != "rows" && eres.Kind != "rows" {
		x.r.Obs("execute-and-query-both-refused", 1)
		return served
	}
	x.checkProjection(v, table, sels, q, "execute", ver, eres)
	if eres.Kind == "rows" {
		// the PREPARE's result metadata must describe the rows EXECUTE returns
		diff := ""
		if pres.Meta != "" {
			diff = "prepared metadata malformed: " + pres.Meta
		} else if len(pres.Cols) != len(eres.Cols) {
			diff = fmt.Sprintf("PREPARE announced %d columns, EXECUTE returned %d", len(pres.Cols), len(eres.Cols))
		} else {
			for i := range pres.Cols {
				if pres.Cols[i].Name != eres.Cols[i].Name || pres.Cols[i].Type != eres.Cols[i].Type {
					diff = fmt.Sprintf("column %d: PREPARE announced %s %s, EXECUTE returned %s %s", i, pres.Cols[i].Name, pres.Cols[i].Type, eres.Cols[i].Name, eres.Cols[i].Type)
					break
				}
			}
		}
		if diff != "" {
			x.violate(fmt.Sprintf("C10/prepare/result-metadata-differs-from-execute/%s/%s/%s", x.g.dseName(), table, starClass),
				fmt.Sprintf("%q: %s", q, diff), map[string]interface{}{"query": q, "version": int(ver), "prepared": c10RowsWitness(pres), "executed": c10RowsWitness(eres)})
		}
	}
	return served
}

// ---------------------------------------------------------------------------------------------------------------------
// one configuration

func (x *c10Run) startInstance(cluster *fakecass.Cluster, in c10Inst) (*px.Bed, *model.Ring, bool) {
	ring, merr := model.BuildRing(in.ringConfig(x.g.DSE))
	bed, err := px.NewBed(in.bedConfig(cluster))
	x.r.Obs("beds_started", 1)
	if merr != nil {
		// a configuration the proxy has to refuse (or the property is silent about): observation only
		what := "refused"
		if err == nil {
			what = "accepted"
			bed.Close()
		}
		x.r.Obs(fmt.Sprintf("config-error:%s:%s", c10NormMsg(strings.SplitN(merr.Error(), ":", 2)[0]), what), 1)
		return nil, nil, false
	}
	if err != nil {
		if strings.Contains(err.Error(), "unable to build node information") {
			x.violate("C10/config-refused/"+c10NormMsg(err.Error()), fmt.Sprintf("the proxy refuses a configuration the model accepts: %v", err), in)
		} else {
			x.r.Inconc(fmt.Sprintf("cfg %d: cannot start %s: %v", x.g.Idx, in.Role, err))
		}
		return nil, nil, false
	}
	return bed, ring, true
}

func c10RunConfig(c *Ctx, g *c10Cfg, nLists int) {
	r := c.R
	x := &c10Run{c: c, r: r, g: g, scen: map[string]interface{}{"kind": "cfg", "idx": g.Idx, "config": g}}
	c.Step("cfg %d %s self=%s", g.Idx, g.shape(), g.selfIndex())
	r.Obs("configurations", 1)
	r.Obs("cfg:"+g.dseName(), 1)
	r.Obs("cfg:self="+g.SelfMode, 1)
	r.Obs("cfg:dc="+g.DCMode, 1)
	r.Obs("cfg:tokens="+g.TokMode, 1)
	r.Obs("cfg:families="+g.famClass(), 1)
	r.Obs(fmt.Sprintf("cfg:peers=%02d", len(g.List)), 1)
	if g.SelfMode == "in-list" && g.Self.Text != g.List[g.SelfIdx].Text {
		r.Obs("cfg:self-spelled-differently-from-its-entry", 1)
	}

	dseVersion := ""
	if g.DSE {
		dseVersion = c10DSEVersion
	}
	// every other configuration runs against a backend of two data centers whose contact node answers system.local a little
	// later than system.peers: the backend-derived data center is the contact node's own, not that of a peer
	fcfg := fakecass.Config{Hosts: 1, DSEVersion: dseVersion, DC: c10Backend.DC, Log: mon.NewLog(false)}
	if g.Idx%2 == 1 {
		fcfg.Hosts = 2
		fcfg.HostDCs = map[int]string{2: "remote_dc_of_a_peer"}
		fcfg.SlowLocal = 15 * time.Millisecond
		r.Obs("cfg:backend-with-two-data-centers", 1)
	}
	// every fourth configuration the proxy is given two contact points and the first of them fails at the last step of the
	// initial connect: it completes the handshake and answers both system tables, but reports an rpc_address for itself
	// under which the proxy cannot find it among the hosts.  The proxy moves on to the second contact point; every
	// backend-derived fact it presents is that node's (another data center, release), none the node's it gave up
	if g.Idx%4 == 3 {
		fcfg.Hosts = 2
		fcfg.SlowLocal = 0
		fcfg.ContactHosts = []int{1, 2}
		fcfg.HostAdvertised = map[int]string{1: "10.254.254.1"}
		fcfg.HostDCs = map[int]string{1: "dc_of_the_contact_point_given_up"}
		fcfg.HostRelease = map[int]string{1: "3.0.24"}
		r.Obs("cfg:first-contact-point-fails-at-its-last-step", 1)
	}
	cluster, err := fakecass.New(fcfg)
	if err != nil {
		r.Inconc(fmt.Sprintf("cfg %d: cannot start backend: %v", g.Idx, err))
		return
	}
	defer cluster.Close()

	prim := g.primary()
	bed, ring, ok := x.startInstance(cluster, prim)
	if !ok {
		return
	}
	if len(fcfg.ContactHosts) == 2 {
		tried := false
		for _, e := range fcfg.Log.Snapshot() {
			if e.Src == "backend" && e.K == "recv" && e.Host == 1 && primitive.OpCode(e.Op) == primitive.OpCodeRegister {
				tried = true
			}
		}
		if !tried {
			r.Inconc(fmt.Sprintf("cfg %d: the first contact point never saw the proxy's control connection", g.Idx))
		} else {
			r.Obs("first_contact_point_tried_and_given_up", 1)
		}
	}
	closeBed := func(b *px.Bed, ks ...*c10Client) {
		for _, k := range ks {
			if k != nil {
				k.cl.Close()
			}
		}
		b.Close()
	}
	dial := func(b *px.Bed, ver primitive.ProtocolVersion) *c10Client {
		cl, err := b.ReadyClient(ver, "")
		if err != nil {
			r.Inconc(fmt.Sprintf("cfg %d: cannot connect a v%d client: %v", g.Idx, ver, err))
			return nil
		}
		return &c10Client{cl: cl}
	}
	k4, k3 := dial(bed, primitive.ProtocolVersion4), dial(bed, primitive.ProtocolVersion3)
	if k4 == nil || k3 == nil {
		closeBed(bed, k4, k3)
		return
	}
	// clients of the versions that carry result-metadata ids (every third configuration v5, every third DSEv2)
	var k5 *c10Client
	if g.Idx%3 != 2 {
		if k5 = dial(bed, []primitive.ProtocolVersion{primitive.ProtocolVersion5, primitive.ProtocolVersionDse2}[g.Idx%3]); k5 != nil {
			defer k5.cl.Close()
		}
	}
	view := x.readInstance(k4, ring, "primary", "other-configuration")
	if view == nil {
		closeBed(bed, k4, k3)
		return
	}
	r.Obs("instances_read", 1)

	// generated selector lists
	adv := map[string][]model.SysColumn{}
	for _, t := range []string{"local", "peers"} {
		for _, a := range view.adv[t] {
			for _, w := range model.SystemColumns(t, g.DSE) {
				if w.Name == a.Name {
					adv[t] = append(adv[t], a)
				}
			}
		}
	}
	var pipeQs []string
	if len(adv["local"]) > 0 && len(adv["peers"]) > 0 {
		rng := rand.New(rand.NewSource(c.Rng(g.Idx).Int63() ^ 0x5eed))
		for li := 0; li < nLists; li++ {
			table, sels := c10GenSelectors(rng, li, adv, g.DSE)
			shape := model.ListShape(sels)
			if q := model.SelectCQL(sels, table); !strings.Contains(strings.ToLower(q), "now(") && len(pipeQs) < 16 {
				pipeQs = append(pipeQs, q)
			}
			c.Step("cfg %d list %d %s", g.Idx, li, model.SelectCQL(sels, table))
			r.Obs("selector_lists", 1)
			for _, s := range sels {
				r.Obs("selector:"+s.Shape(), 1)
			}
			ks := []*c10Client{k4, k3}
			if k5 != nil && li%2 == 0 {
				ks = append(ks, k5)
			}
			for _, k := range ks {
				x.runList(k, view, table, sels)
				r.Obs(fmt.Sprintf("client:v%d", k.cl.Version), 1)
			}
			if len(g.List) >= 1 || shape != "*" {
				r.NonTrivial(fmt.Sprintf("%s|self=%s|%s:%s", g.shape(), g.selfIndex(), table, shape))
			}
			if g.Idx%97 == 0 && li == 11 {
				r.Sample(map[string]interface{}{"config": g, "query": model.SelectCQL(sels, table), "table_rows": view.canon[table]})
			}
		}
	}
	// the same reads pipelined: a driver's control connection asks for system.local and system.peers at once. Every answer
	// must be, byte for byte, the answer the same text got when it was sent alone on this connection.
	if len(pipeQs) >= 2 {
		c.Step("cfg %d pipelined system reads (%d texts)", g.Idx, len(pipeQs))
		c10Pipelined(x, k4.cl, append(pipeQs, "SELECT * FROM system.local", "SELECT * FROM system.peers", "SELECT count(*) FROM system.peers"))
	}
	// the same table read by its bare name: first with no keyspace (not the proxy's table: whatever comes back is the
	// backend's business), then - the same text - after USE system, where it is the proxy's table and nothing else
	if ku := dial(bed, primitive.ProtocolVersion4); ku != nil {
		c10UnqualifiedAroundUse(x, ku.cl)
		ku.cl.Close()
	}
	closeBed(bed, k4, k3)

	// restart: a new proxy with the same configuration presents the same tables
	if rbed, rring, ok := x.startInstance(cluster, prim); ok {
		if rk := dial(rbed, primitive.ProtocolVersion4); rk != nil {
			if rv := x.readInstance(rk, rring, "primary after restart", "restart"); rv != nil {
				r.Obs("restarts_compared", 1)
				r.Eval(1)
				for _, t := range []string{"local", "peers"} {
					if strings.Join(rv.canon[t], "\n") != strings.Join(view.canon[t], "\n") {
						x.violate("C10/restart/system."+t+"-differs", fmt.Sprintf("a restarted proxy with the same configuration presents a different system.%s", t),
							map[string]interface{}{"before": view.canon[t], "after": rv.canon[t]})
					}
				}
			}
			rk.cl.Close()
		}
		rbed.Close()
	}

	// mutual consistency: one proxy per entry of the shared list
	others := g.others()
	if len(others) == 0 {
		return
	}
	views := []*c10View{view}
	for _, in := range others {
		c.Step("cfg %d instance for entry %d (%s)", g.Idx, in.Idx, in.Self.Text)
		ibed, iring, ok := x.startInstance(cluster, in)
		if !ok {
			continue
		}
		if ik := dial(ibed, primitive.ProtocolVersion4); ik != nil {
			if iv := x.readInstance(ik, iring, fmt.Sprintf("instance of entry %d (%s)", in.Idx, in.Self.Text), "other-instance"); iv != nil {
				views = append(views, iv)
				r.Obs("instances_read", 1)
			}
			ik.cl.Close()
		}
		ibed.Close()
	}
	if len(views) < 2 {
		return
	}
	r.Eval(1)
	r.Obs("peer_lists_compared", 1)
	r.Obs("instances_compared", len(views))
	ref := views[0]
	for _, v := range views[1:] {
		what := map[string]bool{}
		var diffs []string
		for key, t := range ref.nodes {
			o, ok := v.nodes[key]
			ip, _ := hex.DecodeString(key)
			switch {
			case !ok:
				what["addresses"] = true
				diffs = append(diffs, fmt.Sprintf("%s only presented by %s", net.IP(ip), ref.who))
			default:
				if o.DC != t.DC {
					if g.DCMode == "some" {
						// entries without a data center default to each instance's own: the documented rule itself makes
						// the instances differ, the property's "with and without explicit data centers" does not cover it
						r.Obs("partial-dc-list:instances-disagree-on-a-dc", 1)
					} else {
						what["data-center"] = true
						diffs = append(diffs, fmt.Sprintf("%s: dc %s (%s) vs %s (%s)", net.IP(ip), t.DC, ref.who, o.DC, v.who))
					}
				}
				if o.Tokens != t.Tokens {
					what["tokens"] = true
					diffs = append(diffs, fmt.Sprintf("%s: tokens %s (%s) vs %s (%s)", net.IP(ip), t.Tokens, ref.who, o.Tokens, v.who))
				}
				if o.HostID != t.HostID {
					what["host-id"] = true
					diffs = append(diffs, fmt.Sprintf("%s: host id %s (%s) vs %s (%s)", net.IP(ip), t.HostID, ref.who, o.HostID, v.who))
				}
			}
		}
		for key := range v.nodes {
			if _, ok := ref.nodes[key]; !ok {
				ip, _ := hex.DecodeString(key)
				what["addresses"] = true
				diffs = append(diffs, fmt.Sprintf("%s only presented by %s", net.IP(ip), v.who))
			}
		}
		if len(what) > 0 {
			var ws []string
			for w := range what {
				ws = append(ws, w)
			}
			sort.Strings(ws)
			x.violate(fmt.Sprintf("C10/mutual/node-sets-differ/%s/%s/tokens-%s", strings.Join(ws, "+"), g.famClass(), g.TokMode),
				fmt.Sprintf("proxies sharing one peer list present different rings: %s", strings.Join(diffs, "; ")),
				map[string]interface{}{"a": ref.who, "a_nodes": ref.nodes, "b": v.who, "b_nodes": v.nodes})
		}
	}
}

// ---------------------------------------------------------------------------------------------------------------------
// host ids across OS processes

func c10ProbeChild(c *Ctx) {
	var addrs []string
	for _, a := range c.Replay["addrs"].([]interface{}) {
		addrs = append(addrs, a.(string))
	}
	g := &c10Cfg{Idx: -1, SelfMode: "outside", DCMode: "none", TokMode: "none"}
	fam := func(t string) string {
		if strings.Contains(t, ":") {
			return "v6"
		}
		return "v4"
	}
	g.Self = c10Entry{Text: addrs[0], Fam: fam(addrs[0])}
	for _, a := range addrs[1:] {
		g.List = append(g.List, c10Entry{Text: a, Fam: fam(a)})
	}
	x := &c10Run{c: c, r: c.R, g: g, scen: map[string]interface{}{"kind": "hostid-probe", "addrs": addrs}}
	cluster, err := fakecass.New(fakecass.Config{Hosts: 1, DC: c10Backend.DC, Log: mon.NewLog(false)})
	if err != nil {
		c.R.Inconc("probe: " + err.Error())
		return
	}
	defer cluster.Close()
	bed, ring, ok := x.startInstance(cluster, g.primary())
	if !ok {
		return
	}
	defer bed.Close()
	cl, err := bed.ReadyClient(primitive.ProtocolVersion4, "")
	if err != nil {
		c.R.Inconc("probe: " + err.Error())
		return
	}
	defer cl.Close()
	v := x.readInstance(&c10Client{cl: cl}, ring, "probe", "other-process")
	if v == nil {
		return
	}
	ids := map[string]string{}
	for key, t := range v.nodes {
		ids[key] = strings.TrimPrefix(t.HostID, "u:")
	}
	c.R.Extra["hostids"] = ids
	c.R.NonTrivial("probe/a")
	c.R.NonTrivial("probe/b")
}

func c10ProbeParent(c *Ctx) {
	r := c.R
	addrs, ids := c10Reg.sample(12)
	if len(addrs) < 2 {
		return
	}
	exe, err := os.Executable()
	if err != nil {
		r.Inconc("probe: " + err.Error())
		return
	}
	dir := filepath.Join(c.Dir, "out", "logs")
	_ = os.MkdirAll(dir, 0o755)
	base := filepath.Join(dir, fmt.Sprintf("C10-%s-s%d-probe", c.Tier, c.Shard))
	rb, _ := json.Marshal(map[string]interface{}{"kind": "hostid-probe", "addrs": addrs})
	if err := os.WriteFile(base+".replay.json", rb, 0o644); err != nil {
		r.Inconc("probe: " + err.Error())
		return
	}
	_ = os.Remove(base + ".result.json")
	c.Step("host-id probe in a second process: %v", addrs)
	cmd := exec.Command(exe, "worker", "C10", c.Tier, "0", "1", base+".result.json", base+".progress", base+".replay.json")
	lf, _ := os.Create(base + ".log")
	cmd.Stdout, cmd.Stderr = lf, lf
	cmd.Env = os.Environ()
	if err := cmd.Start(); err != nil {
		r.Inconc("probe: " + err.Error())
		return
	}
	done := make(chan error, 1)
	go func() { done <- cmd.Wait() }()
	select {
	case <-done:
	case <-time.After(3 * time.Minute): // watchdog only
		_ = cmd.Process.Kill()
		<-done
		r.Inconc("probe: second process did not finish (watchdog)")
		return
	}
	if lf != nil {
		_ = lf.Close()
	}
	b, err := os.ReadFile(base + ".result.json")
	if err != nil {
		r.Inconc("probe: no result from the second process: " + err.Error())
		return
	}
	var child struct {
		Extra map[string]interface{} `json:"extra"`
	}
	if err := json.Unmarshal(b, &child); err != nil {
		r.Inconc("probe: " + err.Error())
		return
	}
	got, _ := child.Extra["hostids"].(map[string]interface{})
	n := 0
	for key, want := range ids {
		h, ok := got[key].(string)
		if !ok {
			continue
		}
		n++
		if h != want {
			ip, _ := hex.DecodeString(key)
			r.Violate(mon.Violation{Signature: "C10/host-id/differs-for-same-address/other-process",
				Detail:   fmt.Sprintf("address %s: host_id %s in this process, %s in a second process running the same proxy code", net.IP(ip), want, h),
				Scenario: map[string]interface{}{"kind": "hostid-probe", "addrs": addrs}})
		}
	}
	r.Obs("host_ids_compared_across_processes", n)
	r.Eval(1)
}

// ---------------------------------------------------------------------------------------------------------------------

func runC10(c *Ctx) {
	r := c.R
	if c.Replay != nil && c.Replay["kind"] == "hostid-probe" && os.Getenv("VERIF_REPLAYING") == "" {
		c10ProbeChild(c)
		return
	}
	r.Assume("an address is its IP value: 10.0.0.1 and ::ffff:10.0.0.1 (any spelling) are one address; 'address order' is the order of the 16-byte values (IPv4 at ::ffff:a.b.c.d)")
	r.Assume("the backend-derived facts are those fakecass serves in its system.local (release 4.0.7, Murmur3Partitioner, cql 3.4.5, dc1; dse_version 6.8.0 when DSE)")
	r.Assume("rack, cluster_name and schema_version are not fixed by the property: any non-empty text / any uuid; native_protocol_version only has to name the negotiated version")
	r.Assume("names and the integer type of count(...)/now() result columns are not fixed by the property; an alias on a function result is an observation only")
	r.Assume("peer lists with data centers for only SOME entries: per-instance model only (missing ones default to each instance's own data center, so instances legitimately differ)")
	r.Require("configurations", "selector_lists", "cells_decoded", "query_results_checked", "prepare_execute_checked", "instances_compared", "restarts_compared", "now_cells_checked", "count_cells_checked", "no_rpc_address_reads", "pipelined_system_reads")

	nCfg := c.Pick(200, 60000)
	nLists := 30
	if c.Replay != nil {
		switch c.Replay["kind"] {
		case "cfg":
			idx := int(c.Replay["idx"].(float64))
			c10RunConfig(c, c10GenCfg(c.Rng(idx), idx), nLists)
			r.NonTrivial("replay/a")
			r.NonTrivial("replay/b")
			r.Required = nil
			return
		case "hostid-probe":
			r.Required = nil
		}
	}
	c.Parallel(nCfg, 3, func(i int) {
		c10RunConfig(c, c10GenCfg(c.Rng(i), i), nLists)
	})
	if c.Replay == nil {
		c.Parallel(c.Pick(12, 600), 3, func(i int) { c10NoRPCAddress(c, i) })
	}
	c10ProbeParent(c)
	r.Extra["configurations_total"] = nCfg
	r.Extra["selector_lists_per_configuration"] = nLists
}

// c10NoRPCAddress: without a configured rpc-address the proxy describes itself by the local address of the client's
// connection: each client, whichever address it dialled and in whatever order clients arrive, reads its own address as
// rpc_address and the version-3 UUID of THAT address as host_id.
func c10NoRPCAddress(c *Ctx, idx int) {
	r := c.R
	rng := c.Rng(660000 + idx)
	c.Step("c10 no rpc-address idx=%d", idx)
	bed, err := px.NewBed(px.BedConfig{Hosts: 1, NumConns: 1, Keyspaces: []string{"ks1"}, ListenWildcard: true})
	if err != nil {
		r.Inconc("c10 no-rpc-address: cannot start bed: " + err.Error())
		return
	}
	defer bed.Close()
	_, port, _ := net.SplitHostPort(bed.Addr)
	var order []string
	for k := 0; k < 5; k++ {
		order = append(order, fmt.Sprintf("127.0.%d.%d", rng.Intn(3), 1+rng.Intn(4)))
	}
	idOf, addrOf := map[string]string{}, map[string]string{}
	for k, ip := range order {
		cl, err := rawcql.Dial(net.JoinHostPort(ip, port), primitive.ProtocolVersion4, bed.Log)
		if err != nil {
			r.Inconc("c10 no-rpc-address: dial " + ip + ": " + err.Error())
			return
		}
		if err := cl.Handshake("", 10*time.Second); err != nil {
			cl.Close()
			r.Inconc("c10 no-rpc-address: handshake: " + err.Error())
			return
		}
		for qi, q := range []string{"SELECT rpc_address, host_id FROM system.local", "SELECT * FROM system.local"} {
			f, err := cl.Call(int16(1+qi), &message.Query{Query: q, Options: &message.QueryOptions{Consistency: primitive.ConsistencyLevelOne}}, 10*time.Second)
			if err != nil {
				r.Inconc("c10 no-rpc-address: no reply")
				cl.Close()
				return
			}
			fr, derr := rawcql.DecodeWith("", f)
			rows, ok := (message.Message)(nil), false
			if derr == nil {
				rows, ok = fr.Body.Message.(*message.RowsResult)
			}
			r.Eval(1)
			if !ok {
				r.Violate(mon.Violation{Signature: "C10/no-rpc-address/not-rows", Detail: fmt.Sprintf("%q answered %v", q, derr), Scenario: map[string]interface{}{"kind": "c10-no-rpc-address", "idx": idx}})
				cl.Close()
				return
			}
			rr := rows.(*message.RowsResult)
			var gotAddr net.IP
			var gotID []byte
			if len(rr.Data) == 1 {
				for ci, col := range rr.Metadata.Columns {
					switch col.Name {
					case "rpc_address":
						gotAddr = net.IP(rr.Data[0][ci])
					case "host_id":
						gotID = rr.Data[0][ci]
					}
				}
			}
			r.Obs("no_rpc_address_reads", 1)
			bad := ""
			var id16 [16]byte
			copy(id16[:], gotID)
			switch {
			case gotAddr == nil || !gotAddr.Equal(net.ParseIP(ip)):
				bad = "rpc_address is not the address the client dialled"
			case len(gotID) != 16 || model.CheckHostIDShape(id16) != "":
				bad = "host_id is not a version-3 UUID"
			case idOf[ip] != "" && idOf[ip] != string(gotID):
				bad = "host_id of this address differs from the one an earlier client read"
			case addrOf[string(gotID)] != "" && addrOf[string(gotID)] != ip:
				bad = "host_id equals the one read for another address (" + addrOf[string(gotID)] + ")"
			}
			if bad != "" {
				r.Violate(mon.Violation{Signature: "C10/no-rpc-address/local-row-not-of-this-connection",
					Detail:   fmt.Sprintf("no rpc-address configured; client #%d dialled %s (clients so far: %v): %q returned rpc_address %v host_id %x: %s", k+1, ip, order[:k+1], q, gotAddr, gotID, bad),
					Scenario: map[string]interface{}{"kind": "c10-no-rpc-address", "idx": idx}})
				cl.Close()
				return
			}
			idOf[ip], addrOf[string(gotID)] = string(gotID), ip
		}
		cl.Close()
	}
	r.NonTrivial(fmt.Sprintf("no-rpc-address/%v", order))
}

// c10Pipelined: see the call site. Texts that are refused when sent alone are compared by their error reply as well.
func c10Pipelined(x *c10Run, cl *rawcql.Client, qs []string) {
	r := x.r
	opts := &message.QueryOptions{Consistency: primitive.ConsistencyLevelOne}
	base := map[string]*rawcql.Frame{}
	for i, q := range qs {
		f, err := cl.Call(int16(20000+i), &message.Query{Query: q, Options: opts}, 20*time.Second)
		if err != nil || f == nil {
			r.Inconc(fmt.Sprintf("cfg %d: no reply to %q (pipelined phase, baseline)", x.g.Idx, q))
			return
		}
		base[q] = f
	}
	rng := rand.New(rand.NewSource(int64(x.g.Idx) + 77))
	for round := 0; round < 4; round++ {
		n := 40 + rng.Intn(60)
		type sent struct {
			q  string
			ch chan *rawcql.Frame
			st int16
		}
		var reqs []sent
		for k := 0; k < n; k++ {
			q := qs[rng.Intn(len(qs))]
			st := int16(21000 + round*200 + k)
			ch := cl.Expect(st)
			if cl.Send(st, &message.Query{Query: q, Options: opts}) != nil {
				break
			}
			reqs = append(reqs, sent{q, ch, st})
		}
		bad, none := 0, 0
		var first string
		for _, rq := range reqs {
			f, err := cl.Wait(rq.ch, 20*time.Second)
			r.Eval(1)
			r.Obs("pipelined_system_reads", 1)
			if err != nil || f == nil {
				none++
				continue
			}
			b := base[rq.q]
			if f.OpCode != b.OpCode || f.Flags != b.Flags || !bytes.Equal(f.Body, b.Body) {
				bad++
				if first == "" {
					first = fmt.Sprintf("%q on stream %d: opcode %#x body %d bytes (alone: opcode %#x body %d bytes, first difference at %d)", rq.q, rq.st, int(f.OpCode), len(f.Body), int(b.OpCode), len(b.Body), firstDiff(f.Body, b.Body))
				}
			}
		}
		if none > 0 {
			x.violate("C10/pipelined/no-reply", fmt.Sprintf("%d of %d pipelined system reads on one connection were not answered", none, len(reqs)), nil)
			return
		}
		if bad > 0 {
			x.violate("C10/pipelined/answer-differs-from-the-answer-to-the-same-text-sent-alone", fmt.Sprintf("%d of %d system reads pipelined on one connection got an answer that differs from the answer the same text got when sent alone on that connection; e.g. %s", bad, len(reqs), first), nil)
			return
		}
	}
	r.NonTrivial(fmt.Sprintf("pipelined/%s/%d-texts", x.g.shape(), len(qs)))
}

// c10UnqualifiedAroundUse: see the call site.
func c10UnqualifiedAroundUse(x *c10Run, cl *rawcql.Client) {
	r := x.r
	opts := &message.QueryOptions{Consistency: primitive.ConsistencyLevelOne}
	texts := []string{"SELECT * FROM local", "SELECT * FROM peers", "SELECT key, host_id, rpc_address, data_center FROM local"}
	for i, q := range texts {
		_, _ = cl.Call(int16(100+i), &message.Query{Query: q, Options: opts}, 20*time.Second)
	}
	if f, err := cl.Call(110, &message.Query{Query: "USE system", Options: opts}, 20*time.Second); err != nil || f.OpCode != primitive.OpCodeResult {
		r.Inconc(fmt.Sprintf("cfg %d: USE system not answered with a result", x.g.Idx))
		return
	}
	for i, q := range texts {
		qualified := strings.Replace(strings.Replace(q, "FROM local", "FROM system.local", 1), "FROM peers", "FROM system.peers", 1)
		a, errA := cl.Call(int16(120+2*i), &message.Query{Query: q, Options: opts}, 20*time.Second)
		b, errB := cl.Call(int16(121+2*i), &message.Query{Query: qualified, Options: opts}, 20*time.Second)
		r.Eval(1)
		if errA != nil || errB != nil {
			r.Inconc(fmt.Sprintf("cfg %d: no reply to %q / %q after USE system", x.g.Idx, q, qualified))
			return
		}
		r.Obs("unqualified_reads_after_use_system", 1)
		if a.OpCode != b.OpCode || !bytes.Equal(a.Body, b.Body) {
			x.violate("C10/unqualified-read-after-use-system-differs", fmt.Sprintf("on one connection %q was sent before and after USE system; after it the answer (opcode %#x, %d bytes) differs from the answer to %q (opcode %#x, %d bytes; first difference at byte %d)", q, int(a.OpCode), len(a.Body), qualified, int(b.OpCode), len(b.Body), firstDiff(a.Body, b.Body)), nil)
			return
		}
	}
}
