//go:build verif

package scen

import (
	"bytes"
	"fmt"
	"math/rand"
	"net"
	"reflect"
	"strings"
	"sync"
	"sync/atomic"
	"time"

	"github.com/datastax/go-cassandra-native-protocol/message"
	"github.com/datastax/go-cassandra-native-protocol/primitive"

	"verif/fakecass"
	"verif/mon"
	"verif/px"
	"verif/rawcql"
)

func init() {
	Register(&Runner{Prop: "C14", Level: "exploration",
		Rule:    "histories of clients connecting, REGISTERing for any subset of event types, disconnecting, and backend events of all three kinds and all schema targets/change types in bursts, with clients registering/disconnecting concurrently with bursts, control-connection failover between bursts and two proxies on one backend; every event carries a unique id so exactly-once is a counting problem; barrier = a sentinel event received by an always-registered witness client + one OPTIONS round trip per client (FIFO queues), no wall clock; distinct = history hash; non-trivial = >= 2 clients and >= 1 register/disconnect between events",
		Shards:  shards(4, 16),
		Timeout: timeouts(10*time.Minute, 60*time.Minute),
		Run:     runC14})
}

type c14Client struct {
	cl         *rawcql.Client
	zombie     bool
	registered bool // REGISTER incl. SCHEMA_CHANGE acknowledged
	regTypes   []primitive.EventType
	proxy      int
}

func schemaEvent(id string, k int) *message.SchemaChangeEvent {
	types := []primitive.SchemaChangeType{primitive.SchemaChangeTypeCreated, primitive.SchemaChangeTypeUpdated, primitive.SchemaChangeTypeDropped}
	ev := &message.SchemaChangeEvent{ChangeType: types[k%3], Keyspace: "ks_" + id}
	switch (k / 3) % 5 {
	case 0:
		ev.Target = primitive.SchemaChangeTargetKeyspace
	case 1:
		ev.Target = primitive.SchemaChangeTargetTable
		ev.Object = "tbl_" + id
	case 2:
		ev.Target = primitive.SchemaChangeTargetType
		ev.Object = "typ_" + id
	case 3:
		ev.Target = primitive.SchemaChangeTargetFunction
		ev.Object = "fn_" + id
		ev.Arguments = []string{"int", "text"}
	case 4:
		ev.Target = primitive.SchemaChangeTargetAggregate
		ev.Object = "agg_" + id
		ev.Arguments = []string{"bigint"}
	}
	return ev
}

// eventsOf decodes the EVENT frames a client received.
func eventsOf(cl *rawcql.Client) (schema map[string][]*message.SchemaChangeEvent, other []string, badStream int) {
	schema = map[string][]*message.SchemaChangeEvent{}
	for _, f := range cl.Frames() {
		if f.OpCode != primitive.OpCodeEvent {
			continue
		}
		if f.Stream != -1 {
			badStream++
		}
		fr, err := rawcql.DecodeWith("", f)
		if err != nil {
			other = append(other, "undecodable: "+err.Error())
			continue
		}
		switch m := fr.Body.Message.(type) {
		case *message.SchemaChangeEvent:
			id := strings.TrimPrefix(m.Keyspace, "ks_")
			schema[id] = append(schema[id], m)
		default:
			other = append(other, fmt.Sprintf("%T", m))
		}
	}
	return
}

func c14History(c *Ctx, idx int) {
	r := c.R
	rng := c.Rng(idx)
	twoProxies := idx%4 == 3
	hosts := 1 + rng.Intn(3)
	steps := 8 + rng.Intn(10)
	scenario := map[string]interface{}{"kind": "c14", "idx": idx}
	c.Step("c14 history idx=%d hosts=%d steps=%d twoProxies=%v", idx, hosts, steps, twoProxies)
	bed, err := px.NewBed(px.BedConfig{Hosts: hosts, NumConns: 1, Keyspaces: []string{"ks1"}, KeepBodies: true, ReconnectBase: time.Millisecond, ReconnectMax: 3 * time.Millisecond, RefreshWindow: 20 * time.Millisecond})
	if err != nil {
		r.Inconc("c14: cannot start bed: " + err.Error())
		return
	}
	defer bed.Close()
	beds := []*px.Bed{bed}
	if twoProxies {
		b2, err := px.NewBed(px.BedConfig{Cluster: bed.Cluster, Log: bed.Log, NumConns: 1, ReconnectBase: time.Millisecond, ReconnectMax: 3 * time.Millisecond})
		if err != nil {
			r.Inconc("c14: cannot start second proxy: " + err.Error())
			return
		}
		defer b2.Close()
		beds = append(beds, b2)
	}
	var clients []*c14Client
	newClient := func(proxy int, types []primitive.EventType) *c14Client {
		ver := []primitive.ProtocolVersion{4, 4, 3}[rng.Intn(3)]
		comp := []string{"", "", "lz4", "snappy"}[rng.Intn(4)]
		cl, err := beds[proxy].ReadyClient(ver, comp)
		if err != nil {
			return nil
		}
		cc := &c14Client{cl: cl, proxy: proxy}
		if len(types) > 0 {
			f, err := cl.Call(1, &message.Register{EventTypes: types}, 10*time.Second)
			if err != nil || f.OpCode != primitive.OpCodeReady {
				cl.Close()
				return nil
			}
			cc.regTypes = types
			for _, t := range types {
				if t == primitive.EventTypeSchemaChange {
					cc.registered = true
				}
			}
		}
		clients = append(clients, cc)
		return cc
	}
	allTypes := []primitive.EventType{primitive.EventTypeSchemaChange, primitive.EventTypeTopologyChange, primitive.EventTypeStatusChange}
	subset := func() []primitive.EventType {
		m := 1 + rng.Intn(7)
		var out []primitive.EventType
		for i, t := range allTypes {
			if m&(1<<i) != 0 {
				out = append(out, t)
			}
		}
		return out
	}
	// one always-registered witness per proxy
	var witnesses []*c14Client
	for p := range beds {
		w := newClient(p, []primitive.EventType{primitive.EventTypeSchemaChange})
		if w == nil {
			r.Inconc("c14: witness could not register")
			return
		}
		witnesses = append(witnesses, w)
	}
	evSeq := 0
	injected := map[string]*message.SchemaChangeEvent{}
	type expectation struct {
		must map[*c14Client]bool
		may  map[*c14Client]bool
	}
	expect := map[string]*expectation{}
	var shape strings.Builder
	churnCount := 0

	controlUp := func() bool {
		return waitFor(func() bool { return len(bed.Cluster.EstablishedControlConns()) >= len(beds) }, 20*time.Second)
	}
	barrier := func() bool {
		// sentinel received by every witness ⇒ every earlier event was fanned out by that proxy; then one OPTIONS round trip
		// per client flushes that client's FIFO queue
		evSeq++
		sid := fmt.Sprintf("%d_%d_s", idx, evSeq)
		sev := schemaEvent(sid, 0)
		if !controlUp() {
			return false
		}
		bed.Cluster.Emit(sev)
		for _, w := range witnesses {
			got := waitFor(func() bool { s, _, _ := eventsOf(w.cl); return len(s[sid]) > 0 }, 20*time.Second)
			if !got {
				ProgressSteps(w.cl, 50, 20000)
				if s, _, _ := eventsOf(w.cl); len(s[sid]) == 0 {
					r.Violate(mon.Violation{Signature: "C14/event-lost/witness", Detail: fmt.Sprintf("an always-registered client on proxy %d never received schema event %s although the control connection was up and the client completed 50 further round trips", w.proxy, sid), Scenario: scenario})
					return false
				}
			}
		}
		for _, cc := range clients {
			if !cc.cl.IsClosed() {
				_ = cc.cl.Options(20001, 20*time.Second)
			}
		}
		return true
	}

	origin := map[string]string{}
	for s := 0; s < steps; s++ {
		x := rng.Intn(100)
		switch {
		case x < 20:
			shape.WriteString("c")
			newClient(rng.Intn(len(beds)), nil)
		case x < 40:
			shape.WriteString("r")
			newClient(rng.Intn(len(beds)), subset())
		case x < 50 && len(clients) > len(beds):
			shape.WriteString("d")
			cc := clients[len(beds)+rng.Intn(len(clients)-len(beds))]
			cc.cl.Close()
			<-cc.cl.Closed()
			// the proxy notices the close asynchronously; a barrier-less "disconnected" client simply must not disturb others
		case x < 54 && len(beds) == 1:
			shape.WriteString("z")
			// zombies: registered clients whose proxy-side reader is busy in a slow USE while the client goes away; the proxy
			// only notices when it writes to them. Other clients must not be disturbed by that.
			bed.Cluster.SetSlowUse("slowks", 400*time.Millisecond)
			nz := 2 + rng.Intn(3)
			for z := 0; z < nz; z++ {
				zc := newClient(0, []primitive.EventType{primitive.EventTypeSchemaChange})
				if zc == nil {
					continue
				}
				zc.registered = false // never a must-target again
				zc.zombie = true
				_ = zc.cl.Send(2, &message.Query{Query: "USE slowks"})
			}
			time.Sleep(20 * time.Millisecond) // the USE frames are being served
			for _, cc := range clients {
				if cc.zombie {
					cc.cl.Close()
				}
			}
			r.Obs("zombie_rounds", 1)
			// several events while the zombies are still registered inside the proxy
			ex := &expectation{must: map[*c14Client]bool{}, may: map[*c14Client]bool{}}
			for _, cc := range clients {
				if cc.registered && !cc.cl.IsClosed() {
					ex.must[cc] = true
				}
			}
			for k := 0; k < 12; k++ {
				evSeq++
				id := fmt.Sprintf("%d_%d", idx, evSeq)
				ev := schemaEvent(id, rng.Intn(15))
				injected[id] = ev
				origin[id] = shape.String()
				expect[id] = ex
				if bed.Cluster.Emit(ev) < len(beds) {
					delete(expect, id)
				}
				r.Obs("schema_events_injected", 1)
				time.Sleep(2 * time.Millisecond)
			}
			time.Sleep(450 * time.Millisecond) // the slow USEs end, the proxy notices the closed sockets
			if !barrier() {
				return
			}
		case x >= 68 && x < 72 && hosts >= 3 && len(beds) == 1:
			shape.WriteString("v")
			// a node of an older release: the host the proxy tries first when its control connection fails over only speaks
			// v3 now, so the proxy has to turn that connection down (it registered on it already) and move on; the turned-down
			// connection must not stay behind as a second source of events
			if !barrier() {
				return
			}
			ctl := bed.Cluster.EstablishedControlConns()
			if len(ctl) != 1 {
				break
			}
			// every host but one (the highest that does not serve the control connection) turns into an old-release node
			survivor := hosts
			if survivor == ctl[0].Host.Idx {
				survivor--
			}
			for h := 1; h <= hosts; h++ {
				if h != survivor {
					atomic.StoreInt32(&bed.Cluster.Hosts[h-1].MaxVersion, 3)
				}
			}
			for _, x := range bed.Cluster.ControlConns() {
				x.Kill(false)
			}
			up := waitFor(func() bool {
				for _, x := range bed.Cluster.EstablishedControlConns() {
					if x.ID != ctl[0].ID {
						return true
					}
				}
				return false
			}, 20*time.Second)
			for h := 1; h <= hosts; h++ {
				atomic.StoreInt32(&bed.Cluster.Hosts[h-1].MaxVersion, 0)
			}
			if !up {
				r.Inconc("c14: control connection did not come back after a fail-over past an old-release node")
				return
			}
			time.Sleep(10 * time.Millisecond)
			r.Obs("failovers_past_an_old_release_node", 1)
		case x >= 63 && x < 68 && len(clients) > len(beds):
			shape.WriteString("R")
			// an open client sends another REGISTER (any subset of types): registrations add up, a client that has registered
			// for SCHEMA_CHANGE once stays a target whatever it registers for later
			cc := clients[len(beds)+rng.Intn(len(clients)-len(beds))]
			if cc.zombie || cc.cl.IsClosed() {
				break
			}
			types := subset()
			if f, err := cc.cl.Call(int16(100+s), &message.Register{EventTypes: types}, 10*time.Second); err == nil && f.OpCode == primitive.OpCodeReady {
				cc.regTypes = append(cc.regTypes, types...)
				for _, t := range types {
					if t == primitive.EventTypeSchemaChange {
						cc.registered = true
					}
				}
				r.Obs("repeated_registers", 1)
			}
		case x >= 58 && x < 63 && len(beds) == 1:
			shape.WriteString("k")
			// a burst, and right behind it the control connection ends (FIN after the last event): every event of the burst was
			// emitted on the control connection and received by the proxy, so it is owed to every registered client even though
			// the proxy learns about the lost connection while it still has events of that connection to hand on
			if !barrier() {
				return
			}
			if !controlUp() {
				r.Inconc("c14: no control connection before a burst")
				return
			}
			ex := &expectation{must: map[*c14Client]bool{}, may: map[*c14Client]bool{}}
			for _, cc := range clients {
				if cc.registered && !cc.cl.IsClosed() {
					ex.must[cc] = true
				}
			}
			ctl := bed.Cluster.EstablishedControlConns()
			nk := 2 + rng.Intn(24)
			for k := 0; k < nk; k++ {
				evSeq++
				id := fmt.Sprintf("%d_%d", idx, evSeq)
				ev := schemaEvent(id, rng.Intn(15))
				injected[id] = ev
				origin[id] = shape.String()
				expect[id] = ex
				if bed.Cluster.Emit(ev) < len(beds) {
					delete(expect, id)
				}
				r.Obs("schema_events_injected", 1)
			}
			for _, x := range ctl {
				x.CloseWrite()
			}
			waitFor(func() bool {
				for _, x := range ctl {
					if !x.IsClosed() {
						return false
					}
				}
				return true
			}, 10*time.Second)
			for _, x := range ctl {
				x.Kill(false)
			}
			if !controlUp() {
				r.Inconc("c14: control connection did not come back after it ended behind a burst")
				return
			}
			// the burst is delivered (behind the reconnect) before any client is touched again
			if !barrier() {
				return
			}
			r.Obs("bursts_followed_by_control_close", 1)
		case x < 58:
			shape.WriteString("f")
			// control-connection failover between bursts
			if !barrier() {
				return
			}
			if hosts >= 2 && len(beds) == 1 && rng.Intn(2) == 0 {
				// the refresh fails on a healthy connection (system.peers answered with an error): the proxy must give that
				// connection up (close it) and fail over; a lingering old connection would keep receiving events
				old := bed.Cluster.EstablishedControlConns()
				bed.Cluster.SystemOverride = func(x *fakecass.Conn, table string) message.Message {
					if table == "peers" && len(old) > 0 && x.ID == old[0].ID {
						return &message.ServerError{ErrorMessage: "peers unavailable"}
					}
					return nil
				}
				bed.Cluster.Emit(&message.TopologyChangeEvent{ChangeType: primitive.TopologyChangeTypeNewNode, Address: &primitive.Inet{Addr: net.ParseIP("10.9.8.7"), Port: 9042}})
				moved := waitFor(func() bool {
					for _, x := range bed.Cluster.EstablishedControlConns() {
						if len(old) > 0 && x.ID != old[0].ID {
							return true
						}
					}
					return false
				}, 20*time.Second)
				bed.Cluster.SystemOverride = nil
				if !moved {
					r.Inconc("c14: no fail-over observed after a failed refresh")
					return
				}
				r.Obs("control_failovers_after_failed_refresh", 1)
			} else {
				// every other time a schema change happens in the cluster at the moment the new control connection registers:
				// its event is written right behind the READY that answers the REGISTER
				var fired, firedConn int32
				var rid string
				var rev *message.SchemaChangeEvent
				if len(beds) == 1 && rng.Intn(2) == 0 {
					evSeq++
					rid = fmt.Sprintf("%d_%d", idx, evSeq)
					rev = schemaEvent(rid, rng.Intn(15))
					bed.Cluster.SetOnRegister(func(x *fakecass.Conn) {
						if atomic.CompareAndSwapInt32(&fired, 0, 1) {
							atomic.StoreInt32(&firedConn, int32(x.ID))
							_ = x.EmitOn(rev)
						}
					})
				}
				for _, x := range bed.Cluster.ControlConns() {
					x.Kill(rng.Intn(2) == 0)
				}
				up := controlUp()
				bed.Cluster.SetOnRegister(nil)
				if up && rev != nil && atomic.LoadInt32(&fired) == 1 {
					// owed to every registered client if the connection it was written to is the control connection now
					est := bed.Cluster.EstablishedControlConns()
					if len(est) == 1 && int32(est[0].ID) == atomic.LoadInt32(&firedConn) {
						ex := &expectation{must: map[*c14Client]bool{}, may: map[*c14Client]bool{}}
						for _, cc := range clients {
							if cc.registered && !cc.cl.IsClosed() {
								ex.must[cc] = true
							}
						}
						injected[rid] = rev
						origin[rid] = shape.String()
						expect[rid] = ex
						r.Obs("schema_events_injected", 1)
						r.Obs("events_right_behind_the_register_reply", 1)
						if !barrier() {
							return
						}
					}
				}
			}
			if !controlUp() {
				r.Inconc("c14: control connection did not come back after failover")
				return
			}
			r.Obs("control_failovers", 1)
		default:
			shape.WriteString("b")
			if !controlUp() {
				r.Inconc("c14: no control connection before a burst")
				return
			}
			n := 1 + rng.Intn(12)
			if x > 95 {
				n = 100
			}
			// must targets: registered and open now; churn clients (registering / disconnecting during the burst): may
			ex := &expectation{must: map[*c14Client]bool{}, may: map[*c14Client]bool{}}
			for _, cc := range clients {
				if cc.registered && !cc.cl.IsClosed() {
					ex.must[cc] = true
				}
			}
			ctlBefore := map[int]bool{}
			for _, x := range bed.Cluster.EstablishedControlConns() {
				ctlBefore[x.ID] = true
			}
			burstFirst := evSeq + 1
			var wg sync.WaitGroup
			nChurn := rng.Intn(3)
			var churners []*c14Client
			var victims []*c14Client
			for k := 0; k < nChurn; k++ {
				if rng.Intn(2) == 0 {
					// a client that will register during the burst
					ver := primitive.ProtocolVersion4
					cl, err := beds[rng.Intn(len(beds))].ReadyClient(ver, "")
					if err == nil {
						cc := &c14Client{cl: cl}
						clients = append(clients, cc)
						churners = append(churners, cc)
						ex.may[cc] = true
					}
				} else if len(clients) > len(beds) {
					cc := clients[len(beds)+rng.Intn(len(clients)-len(beds))]
					if ex.must[cc] {
						delete(ex.must, cc)
						ex.may[cc] = true
						victims = append(victims, cc)
					}
				}
			}
			churnCount += len(churners) + len(victims)
			seed := rng.Int63()
			wg.Add(1)
			go func() {
				defer wg.Done()
				lr := rand.New(rand.NewSource(seed))
				for _, cc := range churners {
					time.Sleep(time.Duration(lr.Intn(300)) * time.Microsecond)
					f, err := cc.cl.Call(1, &message.Register{EventTypes: []primitive.EventType{primitive.EventTypeSchemaChange}}, 10*time.Second)
					if err == nil && f.OpCode == primitive.OpCodeReady {
						cc.registered = true
					}
				}
				for _, cc := range victims {
					time.Sleep(time.Duration(lr.Intn(300)) * time.Microsecond)
					cc.cl.Close()
					<-cc.cl.Closed() // its reader has ended: what it holds now is all it will ever hold
				}
			}()
			for k := 0; k < n; k++ {
				evSeq++
				id := fmt.Sprintf("%d_%d", idx, evSeq)
				switch rng.Intn(5) {
				case 0: // topology / status events must never reach a client
					bed.Cluster.Emit(&message.TopologyChangeEvent{ChangeType: primitive.TopologyChangeTypeMovedNode, Address: &primitive.Inet{Addr: net.ParseIP("10.9.8.7"), Port: 9042}})
					r.Obs("topology_events_injected", 1)
				case 1:
					bed.Cluster.Emit(&message.StatusChangeEvent{ChangeType: primitive.StatusChangeTypeDown, Address: &primitive.Inet{Addr: net.ParseIP("10.9.8.7"), Port: 9042}})
					r.Obs("status_events_injected", 1)
				default:
					ev := schemaEvent(id, rng.Intn(15))
					injected[id] = ev
					origin[id] = shape.String()
					expect[id] = ex
					if bed.Cluster.Emit(ev) < len(beds) {
						// the control connection is not up on every proxy: the premise does not hold for this event
						delete(expect, id)
					}
					r.Obs("schema_events_injected", 1)
				}
			}
			wg.Wait()
			// premise of the burst: its events were written to control connections that stayed the proxy's control connections
			// (an event written to a connection the proxy has just given up - nobody asked it to here - reaches nobody)
			same := true
			for _, x := range bed.Cluster.EstablishedControlConns() {
				if !ctlBefore[x.ID] {
					same = false
				}
			}
			if !same || len(bed.Cluster.EstablishedControlConns()) < len(ctlBefore) {
				for q := burstFirst; q <= evSeq; q++ {
					delete(expect, fmt.Sprintf("%d_%d", idx, q))
				}
				r.Obs("bursts_voided_by_a_control_reconnect_nobody_asked_for", 1)
			}
			if !barrier() {
				return
			}
		}
	}
	if !barrier() {
		return
	}
	// oracle
	for _, cc := range clients {
		schema, other, badStream := eventsOf(cc.cl)
		if len(other) > 0 {
			r.Violate(mon.Violation{Signature: "C14/non-schema-event-forwarded/" + other[0], Detail: fmt.Sprintf("client %d received %d EVENT frame(s) that are not schema changes: %v", cc.cl.ID, len(other), other[:1]), Scenario: scenario})
		}
		if badStream > 0 {
			r.Violate(mon.Violation{Signature: "C14/event-stream-not-minus-one", Detail: fmt.Sprintf("client %d received %d EVENT frame(s) on a stream other than -1", cc.cl.ID, badStream), Scenario: scenario})
		}
		for id, ex := range expect {
			got := schema[id]
			r.Eval(1)
			switch {
			case ex.must[cc]:
				r.Obs("must_deliveries_checked", 1)
				if len(got) != 1 {
					var rec []string
					for _, f := range cc.cl.Frames() {
						if f.OpCode == primitive.OpCodeEvent {
							if fr, derr := rawcql.DecodeWith("", f); derr == nil {
								if m, ok := fr.Body.Message.(*message.SchemaChangeEvent); ok {
									rec = append(rec, m.Keyspace+"/"+m.Object)
									continue
								}
							}
							rec = append(rec, "undecodable-or-other-event")
						}
					}
					if len(rec) > 400 {
						rec = rec[len(rec)-400:]
					}
					r.Violate(mon.Violation{Signature: fmt.Sprintf("C14/registered-client-got-%s", countClass(len(got))), Detail: fmt.Sprintf("client %d (registered for %v before the event, connected throughout) received schema event %s %d times (history up to the event's burst: %s; whole history: %s)", cc.cl.ID, cc.regTypes, id, len(got), origin[id], shape.String()), Scenario: scenario,
						Witness: map[string]interface{}{"client_closed_now": cc.cl.IsClosed(), "client_saw_bytes_that_are_not_a_frame": cc.cl.Garbage(), "frames_received": len(cc.cl.Frames()), "schema_events_received_in_order": rec}})
				}
			case ex.may[cc]:
				r.Obs("may_deliveries_checked", 1)
				if len(got) > 1 {
					r.Violate(mon.Violation{Signature: "C14/concurrent-client-got-duplicate", Detail: fmt.Sprintf("client %d (registering/disconnecting during the burst) received schema event %s %d times", cc.cl.ID, id, len(got)), Scenario: scenario})
				}
			default:
				if len(got) > 0 && !cc.registered {
					r.Violate(mon.Violation{Signature: "C14/unregistered-client-got-event", Detail: fmt.Sprintf("client %d never registered for SCHEMA_CHANGE (registered: %v) but received schema event %s", cc.cl.ID, cc.regTypes, id), Scenario: scenario})
				}
				if len(got) > 1 {
					r.Violate(mon.Violation{Signature: "C14/late-client-got-duplicate", Detail: fmt.Sprintf("client %d received schema event %s %d times", cc.cl.ID, id, len(got)), Scenario: scenario})
				}
			}
			for _, g := range got {
				want := injected[id]
				if g.ChangeType != want.ChangeType || g.Target != want.Target || g.Keyspace != want.Keyspace || g.Object != want.Object || !reflect.DeepEqual(append([]string{}, g.Arguments...), append([]string{}, want.Arguments...)) {
					r.Violate(mon.Violation{Signature: "C14/event-content-changed/" + string(want.Target), Detail: fmt.Sprintf("client %d received %v, the backend emitted %v", cc.cl.ID, g, want), Scenario: scenario})
				}
			}
		}
		if !cc.registered && len(cc.regTypes) > 0 {
			r.Obs("clients_registered_without_schema", 1)
		}
	}
	for _, cc := range clients {
		cc.cl.Close()
	}
	r.Obs("histories", 1)
	if len(clients) >= 2 && churnCount+strings.Count(shape.String(), "r")+strings.Count(shape.String(), "d") > 0 {
		r.NonTrivial(fmt.Sprintf("c14/%x", hashString(fmt.Sprintf("%s/%d/%v", shape.String(), hosts, twoProxies))))
	}
	if idx%10 == 0 {
		r.Sample(map[string]interface{}{"history": shape.String(), "hosts": hosts, "two_proxies": twoProxies, "clients": len(clients), "events": len(expect)})
	}
}

func countClass(n int) string {
	if n == 0 {
		return "no-copy"
	}
	return "duplicate-copies"
}

func runC14(c *Ctx) {
	r := c.R
	r.Assume("events are injected only on a control connection that is up; failover is forced between bursts")
	r.Assume("EVENT frames are framed with the cluster's negotiated version whatever the client's version; content is compared after decoding")
	r.Require("must_deliveries_checked", "topology_events_injected", "status_events_injected", "control_failovers", "zombie_rounds", "control_failovers_after_failed_refresh", "bursts_followed_by_control_close", "repeated_registers", "failovers_past_an_old_release_node", "backlog_client_events_emitted")
	n := c.Pick(160, 15000)
	for i := 0; i < n; i++ {
		if c.Replay != nil && c.Replay["kind"] == "c14" {
			if i != int(c.Replay["idx"].(float64)) {
				continue
			}
		} else if !c.Mine(i) {
			continue
		}
		c14History(c, i)
	}
	if c.Replay == nil {
		for i := 0; i < c.Pick(1, 16); i++ {
			if c.Mine(i + 3) {
				c14Backlog(c, i)
			}
		}
	}
}

// c14Backlog: a registered client with a backlog - it has pipelined thousands of requests and is not reading - is still
// connected, so the schema events the backend emits meanwhile are its to receive, once each, when it reads again (unless
// the proxy gives it up and closes the connection). A second registered client that reads normally gets them at once.
func c14Backlog(c *Ctx, idx int) {
	r := c.R
	stall := time.Duration(c.Pick(6, 10)) * time.Second
	c.Step("c14 registered client with a backlog idx=%d", idx)
	bed, err := px.NewBed(px.BedConfig{Hosts: 1 + idx%2, NumConns: 1, Keyspaces: []string{"ks1"}})
	if err != nil {
		r.Inconc("c14 backlog: cannot start bed: " + err.Error())
		return
	}
	defer bed.Close()
	bed.OnHook(nil)
	wit, err := bed.ReadyClient(primitive.ProtocolVersion4, "")
	if err != nil {
		r.Inconc("c14 backlog: " + err.Error())
		return
	}
	defer wit.Close()
	if _, err := wit.Call(1, &message.Register{EventTypes: []primitive.EventType{primitive.EventTypeSchemaChange}}, 10*time.Second); err != nil {
		r.Inconc("c14 backlog: witness REGISTER: " + err.Error())
		return
	}
	id := fmt.Sprintf("backlog%d", idx)
	nEvents := 3 + idx%3
	emitted := 0
	res, err := slowReaderRun(bed, 3000, 16384, stall, true, func() {
		if len(bed.Cluster.EstablishedControlConns()) == 0 {
			return
		}
		for k := 0; k < nEvents; k++ {
			if bed.Cluster.Emit(schemaEvent(id, k)) > 0 {
				emitted++
			}
			time.Sleep(100 * time.Millisecond)
		}
	})
	if err != nil {
		r.Inconc("c14 backlog: " + err.Error())
		return
	}
	r.Eval(emitted)
	r.Obs("backlog_client_events_emitted", emitted)
	if emitted == 0 {
		r.Inconc("c14 backlog: no event could be emitted")
		return
	}
	ws, _, _ := eventsOf(wit)
	if len(ws[id]) != emitted { // the premise: the events went through the proxy at all (the witness is judged by the histories)
		r.Inconc(fmt.Sprintf("c14 backlog: the witness client got %d of %d events", len(ws[id]), emitted))
		return
	}
	r.NonTrivial(fmt.Sprintf("backlog/events=%d/h%d", nEvents, 1+idx%2))
	if res.Closed {
		r.Obs("backlog_client_closed_by_proxy", 1)
		return
	}
	mine := 0
	for _, b := range res.Events {
		if bytes.Contains(b, []byte(id)) {
			mine++
		}
	}
	r.Obs("must_deliveries_checked", emitted)
	switch {
	case mine < emitted:
		r.Violate(mon.Violation{Signature: "C14/registered-client-got-no-copy/client-with-backlog", Detail: fmt.Sprintf("a registered client had pipelined %d requests and was not reading when the backend emitted %d schema events; it stayed connected and read everything afterwards (%d replies), but received only %d of the events (another registered client received all %d)", res.Sent, emitted, len(res.PerStream), mine, emitted),
			Scenario: map[string]interface{}{"kind": "c14-backlog", "idx": idx}})
	case mine > emitted:
		r.Violate(mon.Violation{Signature: "C14/registered-client-got-duplicate-copies/client-with-backlog", Detail: fmt.Sprintf("%d events emitted, the client with a backlog received %d copies", emitted, mine), Scenario: map[string]interface{}{"kind": "c14-backlog", "idx": idx}})
	}
}
