//go:build verif

package scen

import (
	"encoding/hex"
	"fmt"
	"github.com/datastax/cql-proxy/proxy"
	"strings"
	"time"

	"github.com/datastax/go-cassandra-native-protocol/frame"
	"github.com/datastax/go-cassandra-native-protocol/message"
	"github.com/datastax/go-cassandra-native-protocol/primitive"

	"verif/fakecass"
	"verif/model"
	"verif/mon"
	"verif/px"
	"verif/rawcql"
)

func init() {
	Register(&Runner{Prop: "C04", Level: "fault_enumeration",
		Rule:    "requests that are not positively idempotent by construction (non-idempotent / unparseable QUERY texts, EXECUTE and BATCH children of ids prepared from non-idempotent text, prepared by another client, never prepared through the proxy, or forgotten by the host; counter and conditional batches; graph payload without the idempotent-graph option) x every complete outcome sequence of the decision tree (1-2 hosts exhaustive, 3-4 sampled), with connection loss before the request is read, after it is read and after a partial reply; oracle on the backend arrival log: an arrival k+1 exists only if outcome k cannot have applied the request, and the client's final frame is the last attempt's error or the proxy's connection-lost / no-more-hosts error; distinct = (hosts, class, kind, statement form, outcome sequence); non-trivial = sequence length >= 2 or a connection loss",
		Shards:  shards(4, 16),
		Timeout: timeouts(10*time.Minute, 60*time.Minute),
		Run:     runC04})
}

// nonIdemForms are statement texts that are non-idempotent (or unparseable) by the documented rules; %s = token.
var nonIdemForms = []struct{ Name, Text string }{
	{"now-in-values", "INSERT INTO ks1.t (k, v) VALUES ('%s', now())"},
	{"uuid-in-values", "INSERT INTO ks1.t (k, v) VALUES ('%s', uuid())"},
	{"now-nested-in-collection", "INSERT INTO ks1.t (k, m) VALUES ('%s', {'a': [now()]})"},
	{"system-qualified-now", "UPDATE ks1.t SET v = system.now() WHERE k = '%s'"},
	{"counter-update", "UPDATE ks1.c SET n = n + 1 WHERE k = '%s'"},
	{"counter-decrement", "UPDATE ks1.c SET n -= 2 WHERE k = '%s'"},
	{"list-append", "UPDATE ks1.t SET l = l + ['a'] WHERE k = '%s'"},
	{"list-prepend", "UPDATE ks1.t SET l = ['a'] + l WHERE k = '%s'"},
	{"list-remove", "UPDATE ks1.t SET l = l - ['a'] WHERE k = '%s'"},
	{"delete-by-index", "DELETE l[0] FROM ks1.t WHERE k = '%s'"},
	{"lwt-insert", "INSERT INTO ks1.t (k, v) VALUES ('%s', 1) IF NOT EXISTS"},
	{"lwt-update", "UPDATE ks1.t SET v = 2 WHERE k = '%s' IF v = 1"},
	{"lwt-delete", "DELETE FROM ks1.t WHERE k = '%s' IF EXISTS"},
	{"ambiguous-bind-add", "UPDATE ks1.t SET v = v + ? WHERE k = '%s'"},
	{"counter-batch", "BEGIN COUNTER BATCH UPDATE ks1.c SET n = n + 1 WHERE k = '%s' APPLY BATCH"},
	{"conditional-batch", "BEGIN BATCH INSERT INTO ks1.t (k, v) VALUES ('%s', 1) IF NOT EXISTS APPLY BATCH"},
	{"batch-with-now", "BEGIN UNLOGGED BATCH INSERT INTO ks1.t (k, v) VALUES ('%s', 1); UPDATE ks1.t SET v = now() WHERE k = 'x' APPLY BATCH"},
	{"now-upper-case", "INSERT INTO ks1.t (k, v) VALUES ('%s', NOW())"},
	{"uuid-mixed-case", "INSERT INTO ks1.t (k, v) VALUES ('%s', Uuid())"},
	{"system-upper-qualified-uuid", "UPDATE ks1.t SET v = SYSTEM.UUID() WHERE k = '%s'"},
	{"now-as-function-argument", "UPDATE ks1.t SET v = toTimestamp(Now()) WHERE k = '%s'"},
	{"quoted-lower-now", "INSERT INTO ks1.t (k, v) VALUES ('%s', \"now\"())"},
	{"keywords-lower-case-lwt", "update ks1.t set v = 2 where k = '%s' if v = 1"},
	{"unparseable-truncated", "INSERT INTO ks1.t (k, v) VALUES ('%s', "},
	{"unparseable-unknown-statement", "TRUNCATE ks1.t_%s"},
	{"unparseable-garbage-tail", "UPDATE ks1.t SET v = 1 WHERE k = '%s' ~~~"},
}

type c04Class string

const (
	c04Query        c04Class = "query-text"
	c04ExecPrepared c04Class = "execute-prepared-here"
	c04ExecOther    c04Class = "execute-prepared-by-other-client"
	c04ExecUnknown  c04Class = "execute-never-prepared-through-proxy"
	c04ExecForgot   c04Class = "execute-host-forgot"
	c04BatchText    c04Class = "batch-text-child"
	c04BatchPrep    c04Class = "batch-prepared-child"
	c04BatchUnknown c04Class = "batch-unknown-prepared-child"
	c04Graph        c04Class = "graph-payload"
)

var c04Classes = []c04Class{c04Query, c04ExecPrepared, c04ExecOther, c04ExecUnknown, c04ExecForgot, c04BatchText, c04BatchPrep, c04BatchUnknown, c04Graph}

type c04Bed struct {
	*seqBed
	other    *rawcql.Client
	prepared map[string]bool // statement text → prepared through the proxy
}

func newC04Bed(hosts, conns int) (*c04Bed, error) {
	sb, err := newSeqBed(hosts, conns, false)
	if err != nil {
		return nil, err
	}
	other, err := sb.bed.ReadyClient(primitive.ProtocolVersion4, "lz4")
	if err != nil {
		sb.close()
		return nil, err
	}
	return &c04Bed{seqBed: sb, other: other, prepared: map[string]bool{}}, nil
}

func (b *c04Bed) teach(q string) {
	for _, h := range b.bed.Cluster.Hosts {
		h.Learn(hex.EncodeToString(fakecass.PreparedID("", q)), q)
	}
}

// prepareVia prepares q through the proxy with the given client (once) and makes every host know the id.
func (b *c04Bed) prepareVia(cl *rawcql.Client, q string) error {
	key := fmt.Sprintf("%d/%s", cl.ID, q)
	if b.prepared[key] {
		return nil
	}
	f, err := cl.Call(29000+int16(len(b.prepared)%900), &message.Prepare{Query: q}, 10*time.Second)
	if err != nil {
		return err
	}
	if f.OpCode != primitive.OpCodeResult {
		return fmt.Errorf("PREPARE %q answered opcode %v", q, f.OpCode)
	}
	b.prepared[key] = true
	b.teach(q)
	return nil
}

// build returns the request frame of a class; tok is embedded so that the backend sees it.
func (b *c04Bed) build(class c04Class, form int, st int16, tok string) (*frame.Frame, string, error) {
	v := primitive.ProtocolVersion4
	nf := nonIdemForms[form%len(nonIdemForms)]
	opts := &message.QueryOptions{Consistency: primitive.ConsistencyLevelQuorum}
	// a prepared variant of the form: the token literal becomes a bind marker
	prepText := strings.Replace(nf.Text, "'%s'", "?", 1)
	prepText = strings.Replace(prepText, "%s", "x", 1)
	switch class {
	case c04Query:
		return frame.NewFrame(v, st, &message.Query{Query: fmt.Sprintf(nf.Text, tok), Options: opts}), nf.Name, nil
	case c04Graph:
		f := frame.NewFrame(v, st, &message.Query{Query: fmt.Sprintf(idemInsert, tok), Options: opts})
		f.SetCustomPayload(map[string][]byte{"graph-source": []byte("g"), "graph-language": []byte("gremlin-groovy")})
		return f, "graph-source-payload", nil
	case c04ExecPrepared, c04ExecOther, c04ExecUnknown, c04ExecForgot:
		if strings.HasPrefix(nf.Name, "unparseable") || strings.Contains(nf.Name, "batch") {
			prepText = nonIdemPrepared
			nf.Name = "now-in-values"
		}
		switch class {
		case c04ExecPrepared, c04ExecForgot:
			if err := b.prepareVia(b.cl, prepText); err != nil {
				return nil, "", err
			}
		case c04ExecOther:
			if err := b.prepareVia(b.other, prepText); err != nil {
				return nil, "", err
			}
		case c04ExecUnknown:
			prepText = "/*never prepared through the proxy*/ " + idemPrepared // idempotent text, but the proxy has never seen it
			b.teach(prepText)
			nf.Name = "idempotent-text-unknown-to-proxy"
		}
		ex := &message.Execute{QueryId: fakecass.PreparedID("", prepText), Options: &message.QueryOptions{Consistency: primitive.ConsistencyLevelQuorum,
			PositionalValues: []*primitive.Value{primitive.NewValue([]byte(tok))}}}
		return frame.NewFrame(v, st, ex), nf.Name, nil
	case c04BatchText:
		child := fmt.Sprintf(nf.Text, tok)
		if strings.HasPrefix(child, "BEGIN") {
			child = fmt.Sprintf(nonIdemInsert, tok)
			nf.Name = "now-in-values"
		}
		// the non-idempotent child is first, in the middle or last (the token is in the idempotent children too)
		idemChild := &message.BatchChild{Query: fmt.Sprintf(idemInsert, tok)}
		bad := &message.BatchChild{Query: child}
		children := [][]*message.BatchChild{{idemChild, bad}, {bad, idemChild}, {idemChild, bad, idemChild}}[form%3]
		return frame.NewFrame(v, st, &message.Batch{Type: primitive.BatchTypeLogged, Consistency: primitive.ConsistencyLevelQuorum, Children: children}),
			nf.Name + []string{"/last", "/first", "/middle"}[form%3], nil
	case c04BatchPrep, c04BatchUnknown:
		q := nonIdemPrepared
		name := "now-in-values"
		if class == c04BatchUnknown {
			q = "/*batch child never prepared through the proxy*/ " + idemPrepared
			b.teach(q)
			name = "idempotent-text-unknown-to-proxy"
		} else if err := b.prepareVia(b.cl, q); err != nil {
			return nil, "", err
		}
		idemChild := &message.BatchChild{Query: fmt.Sprintf(idemInsert, tok)}
		bad := &message.BatchChild{Id: fakecass.PreparedID("", q), Values: []*primitive.Value{primitive.NewValue([]byte("v"))}}
		children := [][]*message.BatchChild{{idemChild, bad}, {bad, idemChild}, {idemChild, bad, idemChild}}[form%3]
		return frame.NewFrame(v, st, &message.Batch{Type: primitive.BatchTypeLogged, Consistency: primitive.ConsistencyLevelQuorum, Children: children}),
			name + []string{"/last", "/first", "/middle"}[form%3], nil
	}
	return nil, "", fmt.Errorf("unknown class %s", class)
}

func c04Check(r *mon.Result, hosts int, class c04Class, form string, seq []model.Outcome, tok string, attempts []*Attempt, reply *rawcql.Frame, err error, scenario map[string]interface{}) {
	key := fmt.Sprintf("%s/%s/%s", class, form, seqShape(seq))
	// (a) the arrival log: an arrival k+1 only after an outcome that cannot have applied the request
	for i := 1; i < len(attempts); i++ {
		prev := attempts[i-1].Outcome
		ok := prev == "Unprepared" || !model.MayHaveBeenApplied(model.Outcome(prev))
		if prev == "" {
			ok = false
		}
		if !ok {
			r.Violate(mon.Violation{Signature: fmt.Sprintf("C04/re-executed-after/%s/%s", prev, class), Detail: fmt.Sprintf("h%d %s: a request that is not positively idempotent (%s) was sent again although the previous attempt's outcome was %s: attempts %s", hosts, key, form, prev, describe(attempts)), Scenario: scenario, Witness: attempts})
			return
		}
	}
	if err != nil || reply == nil {
		r.Violate(mon.Violation{Signature: fmt.Sprintf("C04/no-reply/%s", class), Detail: fmt.Sprintf("h%d %s: no reply: %v", hosts, key, err), Scenario: scenario})
		return
	}
	// (b) the client's final frame: the last attempt's error, or the proxy's own connection-lost / no-more-hosts error
	if len(attempts) == 0 {
		return
	}
	ri := replyInfo(reply)
	last := attempts[len(attempts)-1]
	ok := false
	switch {
	case last.Outcome == "Rows":
		ok = ri.Kind == "Rows" && ri.Tok == tok
	case last.Outcome == "Void":
		ok = ri.Kind == "Void"
	case last.Outcome == string(model.ConnLost) || last.Outcome == "" || last.Outcome == "PartialReply":
		ok = isConnLostErr(ri) || isNoMoreHosts(ri)
	default:
		ok = (strings.HasPrefix(ri.Kind, "Error:") && ri.Tok == tok && strings.Contains(ri.ErrMsg, last.Outcome)) || isNoMoreHosts(ri)
		if last.Outcome == "Unprepared" {
			ok = true // judged by C08
		}
	}
	if !ok {
		r.Violate(mon.Violation{Signature: fmt.Sprintf("C04/wrong-final-frame/%s/after-%s", class, last.Outcome), Detail: fmt.Sprintf("h%d %s: the last attempt ended with %s but the client received %s %q", hosts, key, last.Outcome, ri.Kind, ri.ErrMsg), Scenario: scenario, Witness: attempts})
	}
}

func runC04(c *Ctx) {
	r := c.R
	r.Assume("ground truth is attached by construction: the statement forms are non-idempotent or unparseable by the documented rules; EXECUTE/BATCH-by-id inherit the class of the text the id was prepared from through this proxy, ids the proxy never saw prepared are not positively idempotent")
	r.Assume("'may have been applied' is decided from the backend's view: the request bytes were fully received and the outcome is not one of unavailable / bootstrapping / read timeout / unprepared")
	r.Require("sequences_run", "partial_reply_cases", "lost_before_read_cases", "proxy_closed_connections_with_requests_in_flight", "custom_policy_cases", "redefined_id_cases", "partial_write_cases")
	type job struct {
		hosts, conns int
		class        c04Class
		form         int
		seq          []model.Outcome
		special      string // "" | partial-reply | lost-before-read
	}
	var jobs []job
	form := 0
	for _, g := range [][2]int{{1, 1}, {2, 1}, {2, 2}} {
		seqs := enumSeqs(g[0], false, model.AllOutcomes)
		for i, s := range seqs {
			if c.Quick() {
				for k := 0; k < 3; k++ {
					cl := c04Classes[(i+3*k)%len(c04Classes)]
					jobs = append(jobs, job{g[0], g[1], cl, form, s, ""})
					form++
				}
			} else {
				for _, cl := range c04Classes {
					jobs = append(jobs, job{g[0], g[1], cl, form, s, ""})
					form++
				}
			}
		}
	}
	rng := c.Rng(1)
	for i := 0; i < c.Pick(600, 400000); i++ {
		h := 3 + rng.Intn(2)
		var seq []model.Outcome
		for {
			o := model.AllOutcomes[rng.Intn(len(model.AllOutcomes))]
			if rng.Intn(3) > 0 {
				cont := []model.Outcome{model.Unavailable, model.Bootstrapping, model.ReadTimeoutRetry, model.Overloaded, model.ConnLost, model.WriteTimeoutLog}
				o = cont[rng.Intn(len(cont))]
			}
			seq = append(seq, o)
			if _, _, fin := model.Run(h, false, seq); fin != model.FinalIncomplete {
				break
			}
		}
		jobs = append(jobs, job{h, 1 + rng.Intn(2), c04Classes[rng.Intn(len(c04Classes))], rng.Intn(1000), seq, ""})
	}
	// connection loss after a partial reply / before the request is read, for every class
	for i, cl := range c04Classes {
		for rep := 0; rep < c.Pick(2, 200); rep++ {
			jobs = append(jobs, job{2, 1, cl, i + rep, nil, "partial-reply"})
			jobs = append(jobs, job{2, 1, cl, i + rep, nil, "lost-before-read"})
		}
	}
	r.Extra["jobs_total"] = len(jobs)
	beds := map[string]*c04Bed{}
	defer func() {
		for _, b := range beds {
			b.other.Close()
			b.close()
		}
	}()
	for i, j := range jobs {
		if !c.Mine(i) {
			continue
		}
		bk := fmt.Sprintf("%d/%d", j.hosts, j.conns)
		b := beds[bk]
		if b == nil {
			var err error
			b, err = newC04Bed(j.hosts, j.conns)
			if err != nil {
				r.Inconc("c04: cannot start bed: " + err.Error())
				continue
			}
			beds[bk] = b
		}
		tok := NewTok()
		st := b.nextStream()
		f, formName, err := b.build(j.class, j.form, st, tok)
		if err != nil {
			r.Inconc("c04: cannot build request: " + err.Error())
			continue
		}
		scenario := map[string]interface{}{"kind": "c04", "hosts": j.hosts, "conns": j.conns, "class": j.class, "form": formName, "seq": j.seq, "special": j.special}
		c.Step("c04 h%d c%d %s %s %v %s", j.hosts, j.conns, j.class, formName, j.seq, j.special)
		mark := b.bed.Log.Len()
		var reply *rawcql.Frame
		var callErr error
		switch j.special {
		case "":
			if j.class == c04ExecForgot { // the first host the request reaches has forgotten the id: UNPREPARED, re-prepare, then the script
				for _, h := range b.bed.Cluster.Hosts {
					h.Forget()
				}
			}
			b.scripts.Set(tok, j.seq)
			reply, callErr = b.cl.CallF(f, 15*time.Second)
			if j.class == c04ExecForgot {
				for _, q := range []string{idemPrepared, nonIdemPrepared, selectPrepared} {
					b.teach(q)
				}
			}
		case "partial-reply":
			// the backend writes half of a RESULT frame and drops the connection
			b.bed.Cluster.SetScript(func(a *fakecass.Arrival) fakecass.Outcome {
				if a.Token == tok && a.K == 1 {
					hdr := rawcql.EncodeHeader(a.Header.Version|0x80, 0, a.Stream, primitive.OpCodeResult, 64)
					hdr[0] = byte(a.Header.Version) | 0x80
					return fakecass.Outcome{Name: "PartialReply", RawFrame: append(hdr, []byte{0, 0, 0, 2, 0, 0}...), Drop: 2}
				}
				return b.scripts.Func()(a)
			})
			reply, callErr = b.cl.CallF(f, 15*time.Second)
			b.bed.Cluster.SetScript(b.scripts.Func())
			r.Obs("partial_reply_cases", 1)
		case "lost-before-read":
			// the connection the request will use is already dead on the backend side, the proxy has not noticed yet
			b.bed.Cluster.KillPooled(true, 1, 2)
			reply, callErr = b.cl.CallF(f, 15*time.Second)
			r.Obs("lost_before_read_cases", 1)
		}
		evs := b.bed.Log.Snapshot()
		if mark < len(evs) {
			evs = evs[mark:]
		}
		attempts := Traces(evs)[tok]
		c04Check(r, j.hosts, j.class, formName, j.seq, tok, attempts, reply, callErr, scenario)
		lost := j.special != ""
		for _, o := range j.seq {
			lost = lost || o == model.ConnLost
		}
		if lost {
			WaitHealed(b.bed, j.hosts*j.conns*len(b.bed.Proxy.VerifSessions()), 10*time.Second)
		}
		r.Eval(1)
		r.Obs("sequences_run", 1)
		r.Obs("class:"+string(j.class), 1)
		r.Obs("form:"+formName, 1)
		r.Obs("attempts_observed", len(attempts))
		if len(attempts) >= 2 || lost {
			r.NonTrivial(fmt.Sprintf("h%d/%s/%s/%s/%s", j.hosts, j.class, formName, seqShape(j.seq), j.special))
		}
		if i%211 == 0 {
			r.Sample(map[string]interface{}{"class": j.class, "form": formName, "seq": seqShape(j.seq), "attempts": describe(attempts), "reply": replyInfo(reply).Kind})
		}
		if callErr != nil {
			b.other.Close()
			b.close()
			delete(beds, bk)
		}
	}
	// a retry policy of the embedder's that always wants to retry
	for i := 0; i < c.Pick(2, 40); i++ {
		if c.Mine(i+1) && c.Replay == nil {
			c04CustomPolicy(c, i)
		}
	}
	// a backend that gives two statements the same prepared id
	for i := 0; i < c.Pick(12, 240); i++ {
		if c.Mine(i+2) && c.Replay == nil {
			c04RedefinedID(c, i)
		}
	}
	// requests in flight on connections that the proxy closes itself (idle timeout, host removed)
	for i := 0; i < c.Pick(4, 200); i++ {
		if c.Mine(i) && c.Replay == nil {
			proxyClosesConn(c, 1000+i, []string{"idle-timeout", "host-removed"}[i%2])
		}
	}
	// a write that reached its node in the middle of a pass of the connection's writer, before the node was lost
	for i := 0; i < c.Pick(2, 12); i++ {
		if (c.Mine(i+3) && c.Replay == nil) || (c.Replay != nil && c.Replay["kind"] == "c04-partial-write" && int(c.Replay["idx"].(float64)) == i) {
			for try := 0; try < 3 && !c04PartialWrite(c, i); try++ { // the premise (the nodes are used in turn) can be missed
			}
		}
	}
	var _ = px.HookCount
}

// eagerPolicy is a retry policy an embedder might configure: whatever the error, retry (alternating between the same and
// the next host) the first two times. A policy only ever decides about requests that are safe to send again; for requests
// that are not positively idempotent the proxy must not even follow it after an outcome that may have applied the request.
type eagerPolicy struct{}

func (eagerPolicy) dec(n int) proxy.RetryDecision {
	switch n {
	case 0:
		return proxy.RetrySame
	case 1:
		return proxy.RetryNext
	}
	return proxy.ReturnError
}
func (p eagerPolicy) OnReadTimeout(_ *message.ReadTimeout, n int) proxy.RetryDecision {
	return p.dec(n)
}
func (p eagerPolicy) OnWriteTimeout(_ *message.WriteTimeout, n int) proxy.RetryDecision {
	return p.dec(n)
}
func (p eagerPolicy) OnUnavailable(_ *message.Unavailable, n int) proxy.RetryDecision {
	return p.dec(n)
}
func (p eagerPolicy) OnErrorResponse(_ message.Error, n int) proxy.RetryDecision { return p.dec(n) }

// c04CustomPolicy: the non-idempotent request classes under the eager policy. Outcomes after which the request may have
// been applied must end the request whatever the policy says; the arrival log shows whether it was sent again.
func c04CustomPolicy(c *Ctx, idx int) {
	r := c.R
	hosts := 2 + idx%2
	c.Step("c04 custom retry policy idx=%d hosts=%d", idx, hosts)
	bed, err := px.NewBed(px.BedConfig{Hosts: hosts, NumConns: 1, Keyspaces: []string{"ks1"}, ReconnectBase: time.Millisecond, ReconnectMax: 3 * time.Millisecond, RetryPolicy: eagerPolicy{}})
	if err != nil {
		r.Inconc("c04 custom policy: cannot start bed: " + err.Error())
		return
	}
	defer bed.Close()
	bed.OnHook(nil)
	scripts := NewScripts()
	bed.Cluster.SetScript(scripts.Func())
	cl, err := bed.ReadyClient(primitive.ProtocolVersion4, "")
	if err != nil {
		r.Inconc("c04 custom policy: handshake: " + err.Error())
		return
	}
	defer cl.Close()
	if err := PrepareStandard(bed, cl, true); err != nil {
		r.Inconc("c04 custom policy: prepare: " + err.Error())
		return
	}
	outcomes := []model.Outcome{model.Overloaded, model.ServerError, model.Truncate, model.ReadFailure, model.WriteFailure, model.WriteTimeoutSimp, model.WriteTimeoutLog, model.WriteTimeoutCas, model.WriteFailureCas}
	kinds := []ReqKind{KQuery, KExecute, KBatch}
	for oi, o := range outcomes {
		for ki, kind := range kinds {
			tok := NewTok()
			scripts.Set(tok, []model.Outcome{o, o, o, o})
			mark := bed.Log.Len()
			_, cerr := cl.CallF(BuildRequest(primitive.ProtocolVersion4, int16(1+oi*10+ki), kind, false, tok, primitive.ConsistencyLevelQuorum), 15*time.Second)
			attempts := Traces(bed.Log.Snapshot()[mark:])[tok]
			r.Eval(1)
			r.Obs("custom_policy_cases", 1)
			r.NonTrivial(fmt.Sprintf("custom-policy/%s/%s", o, kind))
			if len(attempts) > 1 {
				r.Violate(mon.Violation{Signature: fmt.Sprintf("C04/re-executed-after/%s/custom-retry-policy/%s", o, kind),
					Detail:   fmt.Sprintf("a retry policy that always wants to retry is configured; a %s request that is not idempotent was answered %s and sent again: attempts %s (client error: %v)", kind, o, describe(attempts), cerr),
					Scenario: map[string]interface{}{"kind": "c04-custom-policy", "idx": idx}, Witness: attempts})
			}
		}
	}
}

// c04RedefinedID ("all histories of PREPAREs that define what a prepared id means"): the backend hands out the same prepared
// id for two different statements - first an idempotent one, then one that is not (a backend is free to choose its ids; the
// repository's own mock backend uses one fixed id). From the second PREPARE on the id stands for the non-idempotent text:
// an EXECUTE of it that ends in an outcome after which it may have been applied must not be sent again.
func c04RedefinedID(c *Ctx, idx int) {
	r := c.R
	hosts := 2 + idx%2
	c.Step("c04 prepared id redefined idx=%d hosts=%d", idx, hosts)
	bed, err := px.NewBed(px.BedConfig{Hosts: hosts, NumConns: 1, Keyspaces: []string{"ks1"}, ReconnectBase: time.Millisecond, ReconnectMax: 3 * time.Millisecond})
	if err != nil {
		r.Inconc("c04 redefined id: cannot start bed: " + err.Error())
		return
	}
	defer bed.Close()
	bed.OnHook(nil)
	id := []byte(fmt.Sprintf("redefined-id-%04d", idx%10000))[:16]
	scripts := NewScripts()
	inner := scripts.Func()
	bed.Cluster.SetScript(func(a *fakecass.Arrival) fakecass.Outcome {
		if a.OpCode == primitive.OpCodePrepare && strings.Contains(a.Query, "ks1.redef") {
			pr := fakecass.PreparedResultFor("", a.Query, a.Header.Version)
			pr.PreparedQueryId = id
			return fakecass.Outcome{Name: "Prepared", Msg: pr}
		}
		return inner(a)
	})
	idemText := "INSERT INTO ks1.redef (k, v) VALUES (?, 1)"
	nonIdemTexts := []string{"UPDATE ks1.redef SET l = l + [1] WHERE k = ?", "INSERT INTO ks1.redef (k, v) VALUES (?, now())", "UPDATE ks1.redef SET c = c + 1 WHERE k = ?", "INSERT INTO ks1.redef (k, v) VALUES (?, 1) IF NOT EXISTS"}
	nonIdem := nonIdemTexts[idx%len(nonIdemTexts)]
	histories := [][]string{{idemText, nonIdem}, {nonIdem}, {idemText, idemText, nonIdem}}
	history := histories[(idx/len(nonIdemTexts))%len(histories)]
	var clients []*rawcql.Client
	for i := 0; i < 2; i++ {
		cl, err := bed.ReadyClient(primitive.ProtocolVersion4, []string{"", "lz4"}[(idx+i)%2])
		if err != nil {
			r.Inconc("c04 redefined id: handshake: " + err.Error())
			return
		}
		defer cl.Close()
		clients = append(clients, cl)
	}
	for i, q := range history {
		f, err := clients[(i+idx)%2].Call(int16(100+i), &message.Prepare{Query: q}, 10*time.Second)
		if err != nil || f.OpCode != primitive.OpCodeResult {
			r.Inconc("c04 redefined id: PREPARE failed")
			return
		}
	}
	for _, h := range bed.Cluster.Hosts {
		h.Learn(hex.EncodeToString(id), history[len(history)-1])
	}
	outcomes := []model.Outcome{model.Overloaded, model.ServerError, model.WriteTimeoutSimp, model.ConnLost, model.Truncate}
	for oi, o := range outcomes {
		tok := NewTok()
		scripts.Set(tok, []model.Outcome{o, o, o, o})
		mark := bed.Log.Len()
		ex := &message.Execute{QueryId: id, Options: &message.QueryOptions{Consistency: primitive.ConsistencyLevelQuorum, PositionalValues: []*primitive.Value{primitive.NewValue([]byte(tok))}}}
		cl := clients[oi%2]
		_, cerr := cl.CallF(frame.NewFrame(primitive.ProtocolVersion4, int16(1+oi), ex), 15*time.Second)
		attempts := Traces(bed.Log.Snapshot()[mark:])[tok]
		r.Eval(1)
		r.Obs("redefined_id_cases", 1)
		r.NonTrivial(fmt.Sprintf("redefined-id/%s/history=%d/nonidem=%d", o, len(history), idx%len(nonIdemTexts)))
		if len(attempts) > 1 {
			r.Violate(mon.Violation{Signature: fmt.Sprintf("C04/re-executed-after/%s/prepared-id-redefined", o),
				Detail:   fmt.Sprintf("PREPAREs through the proxy, in this order: %q - the backend answered each with the same id, so the id now stands for %q; an EXECUTE of it was answered %s and sent again: attempts %s (client error: %v)", history, nonIdem, o, describe(attempts), cerr),
				Scenario: map[string]interface{}{"kind": "c04-redefined-id", "idx": idx}, Witness: attempts})
			return
		}
		if o == model.ConnLost {
			for _, h := range bed.Cluster.Hosts { // the hosts come back knowing the statement
				h.Learn(hex.EncodeToString(id), history[len(history)-1])
			}
			WaitHealed(bed, hosts*len(bed.Proxy.VerifSessions()), 10*time.Second)
		}
	}
}
