//go:build verif

package scen

import (
	"bytes"
	"encoding/binary"
	"fmt"
	"io"
	"math/rand"
	"net"
	"strings"
	"sync"
	"sync/atomic"
	"time"

	"github.com/datastax/go-cassandra-native-protocol/datatype"
	"github.com/datastax/go-cassandra-native-protocol/frame"
	"github.com/datastax/go-cassandra-native-protocol/message"
	"github.com/datastax/go-cassandra-native-protocol/primitive"

	"verif/fakecass"
	"verif/mon"
	"verif/px"
	"verif/rawcql"
)

// reprepareStorm (C01 "... whatever ... re-prepares ... or backend connection losses happen while the request is in flight"):
// several clients pipeline EXECUTEs (and a few QUERYs) while the hosts keep forgetting the prepared statements, so many
// EXECUTEs are answered UNPREPARED at once on the same backend connection and the proxy's re-PREPAREs are in flight beside
// them. Each re-PREPARE is, by a PRNG draw, prepared / refused with an error / answered by dropping the connection /
// swallowed (the connection is dropped a little later by the premise keeper). Every request must still get exactly one reply.
func reprepareStorm(c *Ctx, idx int) {
	r := c.R
	rng := c.Rng(81000 + idx)
	hosts, conns, nClients := 1+rng.Intn(3), 1+rng.Intn(2), 2+rng.Intn(5)
	window, rounds := 8+rng.Intn(56), c.Pick(6, 12)
	label := "reprepare-storm"
	scenario := map[string]interface{}{"kind": "reprepare-storm", "idx": idx, "hosts": hosts, "conns": conns, "clients": nClients, "window": window}
	c.Step("reprepare-storm idx=%d hosts=%d conns=%d clients=%d window=%d", idx, hosts, conns, nClients, window)
	bed, err := px.NewBed(px.BedConfig{Hosts: hosts, NumConns: conns, Keyspaces: []string{"ks1"}, KeepBodies: true, ReconnectBase: time.Millisecond, ReconnectMax: 3 * time.Millisecond})
	if err != nil {
		r.Inconc("reprepare-storm: cannot start bed: " + err.Error())
		return
	}
	defer bed.Close()
	bed.OnHook(nil)
	scripts := NewScripts()
	inner := scripts.Func()
	var smu sync.Mutex
	srng := rand.New(rand.NewSource(rng.Int63()))
	var active int32
	counts := map[string]int{}
	bed.Cluster.SetScript(func(a *fakecass.Arrival) fakecass.Outcome {
		if a.OpCode != primitive.OpCodePrepare || atomic.LoadInt32(&active) == 0 {
			return inner(a)
		}
		smu.Lock()
		x := srng.Intn(100)
		smu.Unlock()
		var o fakecass.Outcome
		switch {
		case x < 50:
			o = fakecass.Outcome{} // prepared
			o.Name = ""
		case x < 65:
			o = fakecass.Err("Overloaded", &message.Overloaded{ErrorMessage: "re-prepare refused"})
		case x < 72:
			o = fakecass.Err("Invalid", &message.Invalid{ErrorMessage: "re-prepare: no such table"})
		case x < 87:
			o = fakecass.DropBefore()
			o.Name = "ConnLost"
		default:
			o = fakecass.Outcome{Name: "Silence"}
			scripts.mu.Lock()
			scripts.Silent = append(scripts.Silent, a.Conn)
			scripts.mu.Unlock()
		}
		smu.Lock()
		n := o.Name
		if n == "" {
			n = "Prepared"
		}
		counts[n]++
		smu.Unlock()
		return o
	})
	var clients []*rawcql.Client
	for i := 0; i < nClients; i++ {
		cl, err := bed.ReadyClient(primitive.ProtocolVersion4, []string{"", "lz4", "snappy"}[i%3])
		if err != nil {
			r.Inconc("reprepare-storm: handshake: " + err.Error())
			return
		}
		defer cl.Close()
		clients = append(clients, cl)
	}
	if err := PrepareStandard(bed, clients[0], true); err != nil {
		r.Inconc("reprepare-storm: prepare: " + err.Error())
		return
	}
	mark := bed.Log.Len()
	atomic.StoreInt32(&active, 1)
	stop := make(chan struct{})
	var bg sync.WaitGroup
	bg.Add(1)
	go func() { // the hosts forget, again and again; swallowed re-PREPAREs lose their connection a little later
		defer bg.Done()
		frng := rand.New(rand.NewSource(int64(idx) + 99))
		for {
			select {
			case <-stop:
				return
			case <-time.After(time.Duration(1+frng.Intn(4)) * time.Millisecond):
				bed.Cluster.Hosts[frng.Intn(hosts)].Forget()
				scripts.KillSilent()
			}
		}
	}()
	var wg sync.WaitGroup
	var sent int64
	for ci, cl := range clients {
		wg.Add(1)
		go func(ci int, cl *rawcql.Client) {
			defer wg.Done()
			for round := 0; round < rounds; round++ {
				chans := make([]chan *rawcql.Frame, 0, window)
				for s := 0; s < window; s++ {
					st := int16(round*window + s)
					kind := KExecute
					if s%7 == 6 {
						kind = KQuery
					}
					chans = append(chans, cl.Expect(st))
					if cl.SendF(BuildRequest(primitive.ProtocolVersion4, st, kind, (s+ci)%3 != 0, NewTok(), primitive.ConsistencyLevelOne)) != nil {
						return
					}
					atomic.AddInt64(&sent, 1)
				}
				for _, ch := range chans {
					if _, err := cl.Wait(ch, 5*time.Second); err != nil {
						return // the drain phase decides whether something was lost
					}
				}
			}
		}(ci, cl)
	}
	wg.Wait()
	close(stop)
	bg.Wait()
	atomic.StoreInt32(&active, 0)
	drain(r, bed, scripts, clients, label, scenario, mark)
	// C08's rule on the same storm: every statement executed here was prepared through the proxy and is in its prepared
	// cache, so whatever happens to the re-prepares no client may be answered UNPREPARED
	unprep := 0
	var firstUnprep string
	for i, cl := range clients {
		for _, f := range cl.Frames() {
			if f.OpCode != primitive.OpCodeError {
				continue
			}
			if ri := DecodeReply([]string{"", "lz4", "snappy"}[i%3], f); ri.ErrCode == primitive.ErrorCodeUnprepared {
				unprep++
				if firstUnprep == "" {
					firstUnprep = fmt.Sprintf("client %d stream %d: %q", i, f.Stream, ri.ErrMsg)
				}
			}
		}
	}
	r.Obs("reprepare_storm_unprepared_answers_at_clients", unprep)
	if unprep > 0 && c.Prop == "C08" {
		r.Violate(mon.Violation{Signature: "C08/unprepared-reached-client/reprepare-storm", Detail: fmt.Sprintf("hosts forget the prepared statements again and again while %d clients pipeline EXECUTEs of them and re-PREPAREs are answered, refused, dropped or swallowed: %d requests were answered UNPREPARED although the statement is in the proxy's prepared cache (first: %s)", len(clients), unprep, firstUnprep), Scenario: scenario})
	}
	smu.Lock()
	for k, v := range counts {
		r.Obs("reprepare_storm_reprepare_outcome:"+k, v)
	}
	lost := counts["ConnLost"] + counts["Silence"]
	smu.Unlock()
	r.Obs("reprepare_storm_requests", int(sent))
	r.Eval(int(sent))
	if lost > 0 {
		r.NonTrivial(fmt.Sprintf("reprepare-storm/h%d/c%d/cl%d/w%d/seed%d", hosts, conns, nClients, window, c.Seed))
	}
	if idx%8 == 0 {
		r.Sample(scenario)
	}
}

// slowReader is a client that pipelines n QUERYs (each answered with a row of padBytes) and a REGISTER, reads nothing for
// `stall`, and then reads everything. It returns the number of frames per stream (stream -1 = events, returned apart),
// whether the proxy closed the connection, and the tokens by stream.
type slowReaderResult struct {
	PerStream map[int16]int
	Events    [][]byte // bodies of EVENT frames, in arrival order
	Closed    bool     // the connection was closed by the proxy before everything was read
	Sent      int
	Quiet     bool // reading stopped because nothing arrived for the quiet period
}

func slowReaderRun(bed *px.Bed, n, padBytes int, stall time.Duration, register bool, duringStall func()) (*slowReaderResult, error) {
	return slowReaderRunAt(bed.Addr, bed.Cluster, n, padBytes, stall, register, duringStall)
}

// slowReaderRunAt: the same against any proxy address with its fake backend (the real binary of C17).
func slowReaderRunAt(addr string, cluster *fakecass.Cluster, n, padBytes int, stall time.Duration, register bool, duringStall func()) (*slowReaderResult, error) {
	pad := make([]byte, padBytes)
	for i := range pad {
		pad[i] = 'p'
	}
	cols := []*message.ColumnMetadata{{Keyspace: "ks1", Table: "t", Name: "k", Type: datatype.Varchar}, {Keyspace: "ks1", Table: "t", Name: "pad", Type: datatype.Blob}}
	cluster.SetScript(func(a *fakecass.Arrival) fakecass.Outcome {
		if !strings.HasPrefix(a.Token, "T5107") {
			return fakecass.Outcome{}
		}
		return fakecass.Outcome{Name: "Rows", Msg: &message.RowsResult{Metadata: &message.RowsMetadata{ColumnCount: 2, Columns: cols}, Data: []message.Row{{[]byte(a.Token), pad}}}}
	})
	nc, err := net.DialTimeout("tcp", addr, 5*time.Second)
	if err != nil {
		return nil, err
	}
	defer nc.Close()
	enc := func(f *frame.Frame) []byte {
		var buf bytes.Buffer
		_ = frame.NewRawCodec().EncodeFrame(f, &buf)
		return buf.Bytes()
	}
	if _, err := nc.Write(enc(frame.NewFrame(primitive.ProtocolVersion4, 0, &message.Startup{Options: map[string]string{"CQL_VERSION": "3.0.0"}}))); err != nil {
		return nil, err
	}
	hdr := make([]byte, 9)
	_ = nc.SetReadDeadline(time.Now().Add(10 * time.Second))
	if _, err := io.ReadFull(nc, hdr); err != nil || hdr[4] != byte(primitive.OpCodeReady) {
		return nil, fmt.Errorf("no READY: %v", err)
	}
	res := &slowReaderResult{PerStream: map[int16]int{}}
	var sent int64
	done := make(chan struct{})
	go func() { // the writer: blocks when the proxy stops reading from this client, goes on when the reading starts
		defer close(done)
		if register {
			if _, err := nc.Write(enc(frame.NewFrame(primitive.ProtocolVersion4, 30000, &message.Register{EventTypes: []primitive.EventType{primitive.EventTypeSchemaChange}}))); err != nil {
				return
			}
		}
		for i := 0; i < n; i++ {
			q := fmt.Sprintf("SELECT * FROM ks1.t WHERE k = 'T5107%012x'", i)
			f := frame.NewFrame(primitive.ProtocolVersion4, int16(i), &message.Query{Query: q, Options: &message.QueryOptions{Consistency: primitive.ConsistencyLevelOne}})
			_ = nc.SetWriteDeadline(time.Now().Add(stall + 60*time.Second))
			if _, err := nc.Write(enc(f)); err != nil {
				return
			}
			atomic.AddInt64(&sent, 1)
		}
	}()
	time.Sleep(stall / 2)
	if duringStall != nil {
		duringStall()
	}
	time.Sleep(stall - stall/2)
	// now read: until every request sent so far is answered and the writer is done, the proxy closes, or nothing comes for 15 s
	got := 0
	for {
		select {
		case <-done:
		default:
		}
		want := int(atomic.LoadInt64(&sent))
		writerDone := false
		select {
		case <-done:
			writerDone = true
		default:
		}
		if writerDone && got >= want+map[bool]int{true: 1, false: 0}[register] {
			// everything answered; linger briefly for duplicates
			_ = nc.SetReadDeadline(time.Now().Add(300 * time.Millisecond))
		} else {
			_ = nc.SetReadDeadline(time.Now().Add(15 * time.Second))
		}
		if _, err := io.ReadFull(nc, hdr); err != nil {
			if ne, ok := err.(net.Error); ok && ne.Timeout() {
				res.Quiet = !(writerDone && got >= want)
				break
			}
			res.Closed = true
			break
		}
		blen := int(binary.BigEndian.Uint32(hdr[5:9]))
		if blen < 0 || blen > 64<<20 || hdr[0]&0x80 == 0 {
			return nil, fmt.Errorf("bytes that are not a response frame: %x", hdr)
		}
		body := make([]byte, blen)
		_ = nc.SetReadDeadline(time.Now().Add(30 * time.Second))
		if _, err := io.ReadFull(nc, body); err != nil {
			res.Closed = true
			break
		}
		st := int16(binary.BigEndian.Uint16(hdr[2:4]))
		if primitive.OpCode(hdr[4]) == primitive.OpCodeEvent {
			res.Events = append(res.Events, body)
			continue
		}
		res.PerStream[st]++
		got++
	}
	res.Sent = int(atomic.LoadInt64(&sent))
	return res, nil
}

// slowReaderScenario (C01): every request of a client that reads late is still answered exactly once - unless the proxy
// gives the client up and closes its connection, which ends the obligation.
func slowReaderScenario(c *Ctx, idx int) {
	r := c.R
	n := 3000 + 500*(idx%3)
	stall := 7 * time.Second // below the 10 s after which the proxy (since dd3f42b) gives up on a client that does not read
	if !c.Quick() && idx%2 == 1 {
		stall = 12 * time.Second // ... and above it: the proxy may then close the connection, which ends the obligation
	}
	scenario := map[string]interface{}{"kind": "slow-reader", "idx": idx, "n": n, "stall_s": int(stall / time.Second)}
	c.Step("slow-reader idx=%d n=%d stall=%s", idx, n, stall)
	bed, err := px.NewBed(px.BedConfig{Hosts: 1 + idx%2, NumConns: 1, Keyspaces: []string{"ks1"}})
	if err != nil {
		r.Inconc("slow-reader: cannot start bed: " + err.Error())
		return
	}
	defer bed.Close()
	bed.OnHook(nil)
	res, err := slowReaderRun(bed, n, 16384, stall, false, nil)
	if err != nil {
		r.Inconc("slow-reader: " + err.Error())
		return
	}
	r.Eval(res.Sent)
	r.Obs("slow_reader_requests", res.Sent)
	r.NonTrivial(fmt.Sprintf("slow-reader/n%d/stall%d/h%d", n, int(stall/time.Second), 1+idx%2))
	if res.Closed {
		r.Obs("slow_reader_connection_closed_by_proxy", 1)
		return
	}
	missing, dup := 0, 0
	firstMissing := -1
	for i := 0; i < res.Sent; i++ {
		switch k := res.PerStream[int16(i)]; {
		case k == 0:
			missing++
			if firstMissing < 0 {
				firstMissing = i
			}
		case k > 1:
			dup++
		}
	}
	if dup > 0 {
		r.Violate(mon.Violation{Signature: "C01/extra-frame/slow-reader", Detail: fmt.Sprintf("a client pipelined %d requests, read nothing for %s and then read everything: %d streams were answered more than once", res.Sent, stall, dup), Scenario: scenario})
	}
	if missing > 0 {
		// progress premise: the proxy serves another client meanwhile, and nothing more arrived for 15 s
		other, oerr := bed.ReadyClient(primitive.ProtocolVersion4, "")
		ok := oerr == nil && ProgressSteps(other, 50, 900)
		if other != nil {
			other.Close()
		}
		if !ok {
			r.Inconc("slow-reader: requests unanswered, but another client is not served either")
			return
		}
		r.Violate(mon.Violation{Signature: "C01/lost-reply/slow-reader", Detail: fmt.Sprintf("a client pipelined %d requests (16 KiB answers), read nothing for %s and then read everything: %d requests were never answered (first: stream %d) although the connection stayed open, every request was answered by the backend, nothing arrived for 15 s and another client completed 50 round trips", res.Sent, stall, missing, firstMissing), Scenario: scenario})
	}
}

// localAnswers (C01: "every request frame a connected client sends after the handshake is answered by exactly one response
// frame"): the requests the proxy answers itself, pipelined and repeated - OPTIONS, REGISTER, USE of the keyspace the
// connection is already in (same and other spellings), reads of the virtual system tables, PREPARE and repeated EXECUTE of
// those and of USE - mixed with forwarded queries on several connections.
func localAnswers(c *Ctx, idx int) {
	r := c.R
	rng := c.Rng(83000 + idx)
	label := "local-answers"
	scenario := map[string]interface{}{"kind": "local-answers", "idx": idx}
	c.Step("local-answers idx=%d", idx)
	bed, err := px.NewBed(px.BedConfig{Hosts: 1 + idx%2, NumConns: 1, Keyspaces: []string{"ks1", "ks2"}, KeepBodies: true})
	if err != nil {
		r.Inconc("local-answers: cannot start bed: " + err.Error())
		return
	}
	defer bed.Close()
	bed.OnHook(nil)
	scripts := NewScripts()
	bed.Cluster.SetScript(scripts.Func())
	var clients []*rawcql.Client
	for i := 0; i < 2+idx%3; i++ {
		cl, err := bed.ReadyClient(primitive.ProtocolVersion4, []string{"", "lz4", "snappy"}[(i+idx)%3])
		if err != nil {
			r.Inconc("local-answers: handshake: " + err.Error())
			return
		}
		defer cl.Close()
		clients = append(clients, cl)
	}
	mark := bed.Log.Len()
	opts := &message.QueryOptions{Consistency: primitive.ConsistencyLevelOne}
	uses := []string{"USE ks1", "USE ks1", `USE "ks1"`, "USE KS1", "USE ks2", "USE ks2", "USE system", "USE system", "USE ks1;"}
	var wg sync.WaitGroup
	var sent int64
	for ci, cl := range clients {
		wg.Add(1)
		seed := rng.Int63()
		go func(ci int, cl *rawcql.Client) {
			defer wg.Done()
			lr := rand.New(rand.NewSource(seed))
			var prepared [][]byte
			st := int16(0)
			for round := 0; round < 12; round++ {
				var chans []chan *rawcql.Frame
				var kinds []string
				for k := 0; k < 24; k++ {
					st++
					var msg message.Message
					kind := ""
					switch x := lr.Intn(10); {
					case x == 0:
						msg, kind = &message.Options{}, "options"
					case x == 1:
						msg, kind = &message.Register{EventTypes: [][]primitive.EventType{{primitive.EventTypeSchemaChange}, {primitive.EventTypeTopologyChange, primitive.EventTypeStatusChange}, {primitive.EventTypeSchemaChange, primitive.EventTypeSchemaChange}}[lr.Intn(3)]}, "register"
					case x <= 4:
						msg, kind = &message.Query{Query: uses[lr.Intn(len(uses))], Options: opts}, "use"
					case x == 5:
						msg, kind = &message.Query{Query: []string{"SELECT * FROM system.local", "SELECT * FROM system.peers", "SELECT key FROM system.local", "SELECT count(*) FROM system.peers"}[lr.Intn(4)], Options: opts}, "system-query"
					case x == 6:
						msg, kind = &message.Prepare{Query: []string{"SELECT * FROM system.local", "USE ks1", "USE ks2", "SELECT peer FROM system.peers"}[lr.Intn(4)]}, "prepare"
					case x == 7 && len(prepared) > 0:
						msg, kind = &message.Execute{QueryId: prepared[lr.Intn(len(prepared))], Options: opts}, "execute"
					default:
						f := BuildRequest(primitive.ProtocolVersion4, st, KQuery, true, NewTok(), primitive.ConsistencyLevelOne)
						chans = append(chans, cl.Expect(st))
						kinds = append(kinds, "forwarded")
						if cl.SendF(f) != nil {
							return
						}
						atomic.AddInt64(&sent, 1)
						continue
					}
					chans = append(chans, cl.Expect(st))
					kinds = append(kinds, kind)
					if cl.Send(st, msg) != nil {
						return
					}
					atomic.AddInt64(&sent, 1)
				}
				for i, ch := range chans {
					f, err := cl.Wait(ch, 5*time.Second)
					if err != nil {
						return // the drain phase decides whether something was lost
					}
					if kinds[i] == "prepare" && f.OpCode == primitive.OpCodeResult {
						if fr, derr := cl.Decode(f); derr == nil {
							if pr, ok := fr.Body.Message.(*message.PreparedResult); ok {
								prepared = append(prepared, pr.PreparedQueryId)
							}
						}
					}
				}
			}
		}(ci, cl)
	}
	wg.Wait()
	drain(r, bed, scripts, clients, label, scenario, mark)
	r.Obs("local_answers_requests", int(sent))
	r.Eval(int(sent))
	r.NonTrivial(fmt.Sprintf("local-answers/cl%d/seed%d/idx%d", len(clients), c.Seed, idx))
}
