//go:build verif

package scen

import (
	"fmt"
	"math/rand"
	"sync"
	"sync/atomic"
	"time"

	"github.com/datastax/go-cassandra-native-protocol/message"
	"github.com/datastax/go-cassandra-native-protocol/primitive"

	"verif/fakecass"
	"verif/px"
	"verif/rawcql"
)

// reprepareStorm (C01 "... whatever ... re-prepares ... or backend connection losses happen while the request is in flight"):
// several clients pipeline EXECUTEs (and a few QUERYs) while the hosts keep forgetting the prepared statements, so many
// EXECUTEs are answered UNPREPARED at once on the same backend connection and the proxy's re-PREPAREs are in flight beside
// them. Each re-PREPARE is, by a PRNG draw, prepared / refused with an error / answered by dropping the connection /
// swallowed (the connection is dropped a little later by the premise keeper). Every request must still get exactly one reply.
func reprepareStorm(c *Ctx, idx int) {
	r := c.R
	rng := c.Rng(81000 + idx)
	hosts, conns, nClients := 1+rng.Intn(3), 1+rng.Intn(2), 2+rng.Intn(5)
	window, rounds := 8+rng.Intn(56), c.Pick(6, 12)
	label := "reprepare-storm"
	scenario := map[string]interface{}{"kind": "reprepare-storm", "idx": idx, "hosts": hosts, "conns": conns, "clients": nClients, "window": window}
	c.Step("reprepare-storm idx=%d hosts=%d conns=%d clients=%d window=%d", idx, hosts, conns, nClients, window)
	bed, err := px.NewBed(px.BedConfig{Hosts: hosts, NumConns: conns, Keyspaces: []string{"ks1"}, KeepBodies: true, ReconnectBase: time.Millisecond, ReconnectMax: 3 * time.Millisecond})
	if err != nil {
		r.Inconc("reprepare-storm: cannot start bed: " + err.Error())
		return
	}
	defer bed.Close()
	bed.OnHook(nil)
	scripts := NewScripts()
	inner := scripts.Func()
	var smu sync.Mutex
	srng := rand.New(rand.NewSource(rng.Int63()))
	var active int32
	counts := map[string]int{}
	bed.Cluster.SetScript(func(a *fakecass.Arrival) fakecass.Outcome {
		if a.OpCode != primitive.OpCodePrepare || atomic.LoadInt32(&active) == 0 {
			return inner(a)
		}
		smu.Lock()
		x := srng.Intn(100)
		smu.Unlock()
		var o fakecass.Outcome
		switch {
		case x < 50:
			o = fakecass.Outcome{} // prepared
			o.Name = ""
		case x < 65:
			o = fakecass.Err("Overloaded", &message.Overloaded{ErrorMessage: "re-prepare refused"})
		case x < 72:
			o = fakecass.Err("Invalid", &message.Invalid{ErrorMessage: "re-prepare: no such table"})
		case x < 87:
			o = fakecass.DropBefore()
			o.Name = "ConnLost"
		default:
			o = fakecass.Outcome{Name: "Silence"}
			scripts.mu.Lock()
			scripts.Silent = append(scripts.Silent, a.Conn)
			scripts.mu.Unlock()
		}
		smu.Lock()
		n := o.Name
		if n == "" {
			n = "Prepared"
		}
		counts[n]++
		smu.Unlock()
		return o
	})
	var clients []*rawcql.Client
	for i := 0; i < nClients; i++ {
		cl, err := bed.ReadyClient(primitive.ProtocolVersion4, []string{"", "lz4", "snappy"}[i%3])
		if err != nil {
			r.Inconc("reprepare-storm: handshake: " + err.Error())
			return
		}
		defer cl.Close()
		clients = append(clients, cl)
	}
	if err := PrepareStandard(bed, clients[0], true); err != nil {
		r.Inconc("reprepare-storm: prepare: " + err.Error())
		return
	}
	mark := bed.Log.Len()
	atomic.StoreInt32(&active, 1)
	stop := make(chan struct{})
	var bg sync.WaitGroup
	bg.Add(1)
	go func() { // the hosts forget, again and again; swallowed re-PREPAREs lose their connection a little later
		defer bg.Done()
		frng := rand.New(rand.NewSource(int64(idx) + 99))
		for {
			select {
			case <-stop:
				return
			case <-time.After(time.Duration(1+frng.Intn(4)) * time.Millisecond):
				bed.Cluster.Hosts[frng.Intn(hosts)].Forget()
				scripts.KillSilent()
			}
		}
	}()
	var wg sync.WaitGroup
	var sent int64
	for ci, cl := range clients {
		wg.Add(1)
		go func(ci int, cl *rawcql.Client) {
			defer wg.Done()
			for round := 0; round < rounds; round++ {
				chans := make([]chan *rawcql.Frame, 0, window)
				for s := 0; s < window; s++ {
					st := int16(round*window + s)
					kind := KExecute
					if s%7 == 6 {
						kind = KQuery
					}
					chans = append(chans, cl.Expect(st))
					if cl.SendF(BuildRequest(primitive.ProtocolVersion4, st, kind, (s+ci)%3 != 0, NewTok(), primitive.ConsistencyLevelOne)) != nil {
						return
					}
					atomic.AddInt64(&sent, 1)
				}
				for _, ch := range chans {
					if _, err := cl.Wait(ch, 5*time.Second); err != nil {
						return // the drain phase decides whether something was lost
					}
				}
			}
		}(ci, cl)
	}
	wg.Wait()
	close(stop)
	bg.Wait()
	atomic.StoreInt32(&active, 0)
	drain(r, bed, scripts, clients, label, scenario, mark)
	smu.Lock()
	for k, v := range counts {
		r.Obs("reprepare_storm_reprepare_outcome:"+k, v)
	}
	lost := counts["ConnLost"] + counts["Silence"]
	smu.Unlock()
	r.Obs("reprepare_storm_requests", int(sent))
	r.Eval(int(sent))
	if lost > 0 {
		r.NonTrivial(fmt.Sprintf("reprepare-storm/h%d/c%d/cl%d/w%d/seed%d", hosts, conns, nClients, window, c.Seed))
	}
	if idx%8 == 0 {
		r.Sample(scenario)
	}
}
