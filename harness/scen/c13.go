//go:build verif

package scen

// C13 — handshake, version gate, compression selection are answered locally.
//
// Observation points: every frame the raw client receives (rawcql) and every frame any backend connection receives
// (fakecass log). Oracles are computed here from the property text only:
//   (a) exactly one reply per OPTIONS/STARTUP/REGISTER/rejected frame: frames per stream are counted after a barrier
//       (OPTIONS round trips on other streams: one client's frames are handled sequentially and replies are written in
//       order, so everything the proxy will ever answer to earlier locally-answered frames has arrived);
//   (b) nothing with opcode OPTIONS/STARTUP/REGISTER from a client reaches a backend: structural rule on the backend log
//       (STARTUP only as first frame of a backend connection, REGISTER only as second frame right after it, OPTIONS
//       never - heartbeats are configured to 1 h) plus content rules (client STARTUPs carry a marker option, client
//       REGISTERs an event list the proxy itself never uses);
//   (c) version gate: reject <=> version > max or version < 3, numeric order of the version byte;
//   (d) STARTUP option maps; (e) all orders of {OPTIONS, STARTUP, REGISTER, QUERY} up to length 4.

import (
	"bytes"
	"fmt"
	"strconv"
	"strings"
	"sync"
	"sync/atomic"
	"time"

	"github.com/datastax/go-cassandra-native-protocol/frame"
	"github.com/datastax/go-cassandra-native-protocol/message"
	"github.com/datastax/go-cassandra-native-protocol/primitive"

	"verif/fakecass"
	"verif/mon"
	"verif/px"
	"verif/rawcql"
)

func init() {
	Register(&Runner{Prop: "C13", Level: "exploration",
		Rule:    "exhaustive: {v2,v3,v4,v5,DSEv1,DSEv2} x 8 request opcodes x header flags x 5 configured max versions (reject <=> v>max or v<3, numeric byte order); all 250 other version bytes (both direction bits) x opcode; STARTUP option maps (compression names x letter case x unknown names x extra options) x accepted versions; all 340 orders of {OPTIONS,STARTUP,REGISTER,QUERY} up to length 4, awaited and pipelined, x compression. distinct = (part, max, version, opcode/name/sequence); non-trivial = everything except a bare accepted OPTIONS.",
		Shards:  shards(2, 5),
		Timeout: timeouts(6*time.Minute, 40*time.Minute),
		Run:     runC13})
}

var (
	c13Known = []primitive.ProtocolVersion{2, 3, 4, 5, 0x41, 0x42}
	c13Maxes = []primitive.ProtocolVersion{3, 4, 5, 0x41, 0x42}
	c13Ops   = []primitive.OpCode{primitive.OpCodeStartup, primitive.OpCodeOptions, primitive.OpCodeQuery, primitive.OpCodePrepare,
		primitive.OpCodeExecute, primitive.OpCodeRegister, primitive.OpCodeBatch, primitive.OpCodeAuthResponse}
	// event list of client REGISTERs: the proxy's own control connection registers (SCHEMA, TOPOLOGY, STATUS) in that order
	c13ClientEvents = []primitive.EventType{primitive.EventTypeStatusChange, primitive.EventTypeSchemaChange}
)

const c13Marker = "c13drv-"

func c13VerName(v primitive.ProtocolVersion) string {
	switch v {
	case 2:
		return "v2"
	case 3:
		return "v3"
	case 4:
		return "v4"
	case 5:
		return "v5"
	case 0x41:
		return "DSEv1"
	case 0x42:
		return "DSEv2"
	}
	return fmt.Sprintf("0x%02x", uint8(v))
}

func c13OpName(op primitive.OpCode) string {
	switch op {
	case primitive.OpCodeError:
		return "ERROR"
	case primitive.OpCodeStartup:
		return "STARTUP"
	case primitive.OpCodeReady:
		return "READY"
	case primitive.OpCodeAuthenticate:
		return "AUTHENTICATE"
	case primitive.OpCodeOptions:
		return "OPTIONS"
	case primitive.OpCodeSupported:
		return "SUPPORTED"
	case primitive.OpCodeQuery:
		return "QUERY"
	case primitive.OpCodeResult:
		return "RESULT"
	case primitive.OpCodePrepare:
		return "PREPARE"
	case primitive.OpCodeExecute:
		return "EXECUTE"
	case primitive.OpCodeRegister:
		return "REGISTER"
	case primitive.OpCodeEvent:
		return "EVENT"
	case primitive.OpCodeBatch:
		return "BATCH"
	case primitive.OpCodeAuthResponse:
		return "AUTH_RESPONSE"
	}
	return fmt.Sprintf("op0x%02x", uint8(op))
}

func c13Kinds(fs []*rawcql.Frame) string {
	if len(fs) == 0 {
		return "(none)"
	}
	p := make([]string, len(fs))
	for i, f := range fs {
		p[i] = c13OpName(f.OpCode)
	}
	return strings.Join(p, ",")
}

// c13Accepted lists the known versions a proxy configured with max must accept, per the property text.
func c13Accepted(max primitive.ProtocolVersion) []primitive.ProtocolVersion {
	var out []primitive.ProtocolVersion
	for _, v := range c13Known {
		if v >= 3 && v <= max {
			out = append(out, v)
		}
	}
	return out
}

func c13NewBed(max primitive.ProtocolVersion, own ...primitive.ProtocolVersion) (*px.Bed, error) {
	ver := max
	if ver > primitive.ProtocolVersion4 {
		ver = primitive.ProtocolVersion4
	}
	if len(own) > 0 && own[0] != 0 {
		ver = own[0]
	}
	return px.NewBed(px.BedConfig{Hosts: 1, NumConns: 1, MaxVersion: max, Version: ver, HeartBeat: time.Hour, Idle: 2 * time.Hour,
		KeepBodies: true, Keyspaces: []string{"ks1"}})
}

// c13Msg builds a well-formed request of the opcode.
func c13Msg(v primitive.ProtocolVersion, op primitive.OpCode, tok string) message.Message {
	q := "SELECT * FROM ks1.t WHERE k='" + tok + "'"
	switch op {
	case primitive.OpCodeStartup:
		return &message.Startup{Options: map[string]string{"CQL_VERSION": "3.0.0", "DRIVER_NAME": c13Marker + tok}}
	case primitive.OpCodeOptions:
		return &message.Options{}
	case primitive.OpCodeQuery:
		return &message.Query{Query: q, Options: &message.QueryOptions{Consistency: primitive.ConsistencyLevelOne}}
	case primitive.OpCodePrepare:
		return &message.Prepare{Query: q}
	case primitive.OpCodeExecute:
		ex := &message.Execute{QueryId: fakecass.PreparedID("", q), Options: &message.QueryOptions{Consistency: primitive.ConsistencyLevelOne}}
		if v.SupportsResultMetadataId() {
			ex.ResultMetadataId = fakecass.PreparedResultFor("", q, v).ResultMetadataId
		}
		return ex
	case primitive.OpCodeRegister:
		return &message.Register{EventTypes: c13ClientEvents}
	case primitive.OpCodeBatch:
		return &message.Batch{Type: primitive.BatchTypeLogged, Consistency: primitive.ConsistencyLevelOne,
			Children: []*message.BatchChild{{Query: "INSERT INTO ks1.t (k, v) VALUES ('" + tok + "', 1)"}}}
	case primitive.OpCodeAuthResponse:
		return &message.AuthResponse{Token: []byte("c13")}
	}
	panic("c13Msg: opcode")
}

// c13Wire returns the complete frame bytes (header + body) of a request encoded with the reference codec; comp != ""
// compresses the body. When the reference codec cannot express the message in that version the v3 body is used with a
// hand-made header (only ever needed for frames the gate must reject without looking at the body).
func c13Wire(v primitive.ProtocolVersion, stream int16, flags primitive.HeaderFlag, comp string, msg message.Message) []byte {
	f := frame.NewFrame(v, stream, msg)
	if comp != "" {
		f.SetCompress(true)
	}
	var buf bytes.Buffer
	if err := rawcql.CodecFor(comp).EncodeFrame(f, &buf); err == nil {
		b := append([]byte{}, buf.Bytes()...)
		b[1] |= byte(flags)
		return b
	}
	f3 := frame.NewFrame(primitive.ProtocolVersion3, stream, msg)
	buf.Reset()
	if err := rawcql.Plain.EncodeFrame(f3, &buf); err != nil {
		panic(err)
	}
	body := buf.Bytes()[9:]
	return append(c13Header(byte(v), byte(flags), stream, f3.Header.OpCode, len(body)), body...)
}

// c13Header builds a request header for any version byte: 8 bytes (1-byte stream) for versions 1 and 2, else 9 bytes.
func c13Header(verByte, flags byte, stream int16, op primitive.OpCode, bodyLen int) []byte {
	n := uint32(bodyLen)
	if v := verByte & 0x7f; v == 1 || v == 2 {
		return []byte{verByte, flags, byte(int8(stream)), byte(op), byte(n >> 24), byte(n >> 16), byte(n >> 8), byte(n)}
	}
	return []byte{verByte, flags, byte(uint16(stream) >> 8), byte(stream), byte(op), byte(n >> 24), byte(n >> 16), byte(n >> 8), byte(n)}
}

const c13Watchdog = 6 * time.Second

// c13Barrier performs k OPTIONS round trips with the given versions (cycled) on streams base, base+1, ...
// Result: "ok" | "closed" | "timeout" | "bad:<opcode>".
func c13Barrier(cl *rawcql.Client, vs []primitive.ProtocolVersion, base int16, k int) string {
	res, _, _ := c13BarrierX(cl, vs, base, k)
	return res
}

// c13BarrierX also returns the version and the frame of the round trip that was not answered SUPPORTED.
func c13BarrierX(cl *rawcql.Client, vs []primitive.ProtocolVersion, base int16, k int) (string, primitive.ProtocolVersion, *rawcql.Frame) {
	for i := 0; i < k; i++ {
		st := base + int16(i)
		v := vs[i%len(vs)]
		ch := cl.Expect(st)
		if err := cl.SendFrame(v, 0, st, primitive.OpCodeOptions, nil); err != nil {
			return "closed", v, nil
		}
		f, err := cl.Wait(ch, c13Watchdog)
		if err == rawcql.ErrClosed {
			return "closed", v, nil
		}
		if err != nil {
			return "timeout", v, nil
		}
		if f.OpCode != primitive.OpCodeSupported {
			return "bad:" + c13OpName(f.OpCode), v, f
		}
	}
	return "ok", 0, nil
}

func c13BackendRecv(evs []mon.Event) []mon.Event {
	var out []mon.Event
	for _, e := range evs {
		if e.Src == "backend" && e.K == "recv" {
			out = append(out, e)
		}
	}
	return out
}

func c13Since(bed *px.Bed, mark int) []mon.Event {
	evs := bed.Log.Snapshot()
	if mark > len(evs) {
		return nil
	}
	return evs[mark:]
}

func c13DescribeBackend(evs []mon.Event) string {
	var sb strings.Builder
	for i, e := range evs {
		if i >= 6 {
			sb.WriteString(" ...")
			break
		}
		fmt.Fprintf(&sb, "[conn %d %s ver=%d stream=%d tok=%s]", e.Conn, c13OpName(primitive.OpCode(e.Op)), e.Ver, e.St, e.Tok)
	}
	return sb.String()
}

// c13IsProtocolError decodes an ERROR frame with the reference codec.
func c13ErrorOf(f *rawcql.Frame, comp string) (code primitive.ErrorCode, msg string, ok bool) {
	if f.OpCode != primitive.OpCodeError {
		return 0, "", false
	}
	ri := DecodeReply(comp, f)
	if ri.Err != nil || !strings.HasPrefix(ri.Kind, "Error:") {
		return 0, fmt.Sprint(ri.Err), false
	}
	return ri.ErrCode, ri.ErrMsg, true
}

// c13KindName is a short stable name of a decoded reply for signatures.
func c13KindName(ri ReplyInfo) string {
	switch {
	case ri.Err != nil:
		return "undecodable"
	case strings.HasPrefix(ri.Kind, "Error:"):
		return fmt.Sprintf("ERROR:0x%04x", int(ri.ErrCode))
	case ri.Kind == "":
		return "(none)"
	}
	return ri.Kind
}

type c13Job struct {
	Kind string // gate | unknown | startup | orders
	Max  primitive.ProtocolVersion
	Comp string
	Mode string
	// Ver: the proxy's own protocol version towards the backend when the embedder sets it independently of the maximum for
	// clients (proxy.Config through the Go API; the command line refuses version > max): 0 = the usual min(max, v4)
	Ver primitive.ProtocolVersion
}

func (j c13Job) String() string {
	if j.Ver != 0 {
		return fmt.Sprintf("%s/max=%s/comp=%s/mode=%s/own-version=%s", j.Kind, c13VerName(j.Max), j.Comp, j.Mode, c13VerName(j.Ver))
	}
	return fmt.Sprintf("%s/max=%s/comp=%s/mode=%s", j.Kind, c13VerName(j.Max), j.Comp, j.Mode)
}

func (j c13Job) scenario() map[string]interface{} {
	return map[string]interface{}{"kind": "c13job", "job": j.Kind, "max": int(j.Max), "comp": j.Comp, "mode": j.Mode, "ver": int(j.Ver)}
}

func runC13(c *Ctx) {
	r := c.R
	r.Assume("known versions are ordered by their version byte (v3 < v4 < v5 < DSEv1=0x41 < DSEv2=0x42), as the flag help and README list them")
	r.Assume("the proxy's backend heartbeat interval is 1 h in these scenarios, so every OPTIONS frame a backend receives would be a forwarded client frame")
	r.Assume("one client's frames are processed sequentially and locally generated replies are written in order: an OPTIONS round trip is a barrier for earlier locally answered frames")
	r.Assume("fakecass compresses every response on a backend connection that negotiated compression (as Cassandra does)")
	r.Require("gate_rejected", "gate_accepted", "unknown_bytes", "startup_unsupported", "startup_supported", "reply_compressed",
		"orders_awaited", "orders_pipelined", "backend_own_startup", "backend_own_register")

	var jobs []c13Job
	for _, m := range c13Maxes {
		jobs = append(jobs, c13Job{Kind: "gate", Max: m}, c13Job{Kind: "unknown", Max: m})
	}
	// an embedder's configuration: the proxy's own version towards the backend above the maximum it accepts from clients
	jobs = append(jobs, c13Job{Kind: "gate", Max: 3, Ver: 4}, c13Job{Kind: "gate", Max: 4, Ver: 0x41}, c13Job{Kind: "gate", Max: 4, Ver: 5}, c13Job{Kind: "unknown", Max: 3, Ver: 4})
	// several connections that negotiated the same algorithm send large compressed frames at the same time
	jobs = append(jobs, c13Job{Kind: "together", Max: 4, Comp: "lz4"}, c13Job{Kind: "together", Max: 0x42, Comp: "snappy"})
	if c.Quick() {
		jobs = append(jobs, c13Job{Kind: "startup", Max: 4}, c13Job{Kind: "startup", Max: 0x42})
		for _, mode := range []string{"awaited", "pipelined"} {
			jobs = append(jobs, c13Job{Kind: "orders", Max: 4, Comp: "", Mode: mode}, c13Job{Kind: "orders", Max: 0x42, Comp: "lz4", Mode: mode},
				c13Job{Kind: "orders", Max: 3, Comp: "snappy", Mode: mode})
		}
	} else {
		for _, m := range c13Maxes {
			jobs = append(jobs, c13Job{Kind: "startup", Max: m})
			for rep := 0; rep < 240; rep++ { // the pipelined orders depend on timing inside the proxy: repeated
				for _, comp := range []string{"", "lz4", "snappy"} {
					for _, mode := range []string{"awaited", "pipelined"} {
						if rep == 0 || mode == "pipelined" {
							jobs = append(jobs, c13Job{Kind: "orders", Max: m, Comp: comp, Mode: mode})
						}
					}
				}
			}
		}
	}
	if c.Replay != nil && c.Replay["kind"] == "c13job" {
		j := c13Job{Kind: fmt.Sprint(c.Replay["job"]), Comp: fmt.Sprint(c.Replay["comp"]), Mode: fmt.Sprint(c.Replay["mode"])}
		if m, ok := c.Replay["max"].(float64); ok {
			j.Max = primitive.ProtocolVersion(int(m))
		}
		if m, ok := c.Replay["ver"].(float64); ok {
			j.Ver = primitive.ProtocolVersion(int(m))
		}
		c13RunJob(c, j)
		return
	}
	r.Extra["jobs_total"] = len(jobs)
	c.Parallel(len(jobs), 4, func(i int) { c13RunJob(c, jobs[i]) })
	r.Exhaustive = true
}

func c13RunJob(c *Ctx, j c13Job) {
	bed, err := c13NewBed(j.Max, j.Ver)
	if err != nil {
		c.R.Inconc("cannot start bed for " + j.String() + ": " + err.Error())
		return
	}
	defer bed.Close()
	switch j.Kind {
	case "gate":
		c13Gate(c, bed, j)
	case "unknown":
		c13Unknown(c, bed, j)
	case "startup":
		c13Startup(c, bed, j)
	case "orders":
		c13Orders(c, bed, j)
	case "together":
		c13Together(c, bed, j)
	}
	c13BackendRule(c.R, bed, j)
}

// ---------------------------------------------------------------------------------------------------------------------
// (b) nothing handshake-related from a client reaches a backend

func c13BackendRule(r *mon.Result, bed *px.Bed, j c13Job) {
	clientReg := c13Wire(4, 0, 0, "", &message.Register{EventTypes: c13ClientEvents})[9:]
	idx := map[int]int{}
	prev := map[int]int{}
	viol := func(what string, e mon.Event, why string) {
		r.Violate(mon.Violation{Signature: "C13/forwarded/" + what, Scenario: j.scenario(),
			Detail:  fmt.Sprintf("%s: backend connection %d received a %s frame (frame #%d on that connection, stream %d, version %d): %s", j, e.Conn, what, idx[e.Conn], e.St, e.Ver, why),
			Witness: map[string]interface{}{"event": e, "body": string(e.Body)}})
	}
	for _, e := range c13BackendRecv(bed.Log.Snapshot()) {
		idx[e.Conn]++
		op := primitive.OpCode(e.Op)
		switch op {
		case primitive.OpCodeOptions:
			viol("OPTIONS", e, "the proxy's own heartbeats are an hour away, so this is a client's OPTIONS")
		case primitive.OpCodeStartup:
			switch {
			case bytes.Contains(e.Body, []byte(c13Marker)):
				viol("STARTUP", e, "the body carries the DRIVER_NAME marker only client STARTUPs have")
			case idx[e.Conn] != 1:
				viol("STARTUP", e, "a backend connection's own handshake sends STARTUP only as its first frame")
			default:
				r.Obs("backend_own_startup", 1)
			}
		case primitive.OpCodeRegister:
			switch {
			case bytes.Equal(e.Body, clientReg):
				viol("REGISTER", e, "the event list is the one only client REGISTERs use")
			case idx[e.Conn] != 2 || prev[e.Conn] != int(primitive.OpCodeStartup):
				viol("REGISTER", e, "the proxy's control connection registers right after its STARTUP, nowhere else")
			default:
				r.Obs("backend_own_register", 1)
			}
		}
		prev[e.Conn] = e.Op
	}
}

// ---------------------------------------------------------------------------------------------------------------------
// (c) the version gate for known versions

func c13Gate(c *Ctx, bed *px.Bed, j c13Job) {
	max := j.Max
	for _, v := range c13Known {
		for _, op := range c13Ops {
			for _, fl := range []primitive.HeaderFlag{0, primitive.HeaderFlagCompressed, primitive.HeaderFlagTracing} {
				reject := v > max || v < 3
				if !reject && fl != 0 {
					continue // accepted frames are sent well-formed only
				}
				c.Step("C13 gate max=%s v=%s op=%s flags=%d", c13VerName(max), c13VerName(v), c13OpName(op), fl)
				c13GateCase(c, bed, j, v, op, fl, reject)
			}
		}
	}
	c13GateChain(c, bed, j)
}

func c13GateCase(c *Ctx, bed *px.Bed, j c13Job, v primitive.ProtocolVersion, op primitive.OpCode, fl primitive.HeaderFlag, reject bool) {
	r := c.R
	max := j.Max
	r.Eval(1)
	cl, err := bed.Client(v)
	if err != nil {
		r.Inconc("dial: " + err.Error())
		return
	}
	defer cl.Close()
	tok := NewTok()
	const stream = int16(7)
	wire := c13Wire(v, stream, fl, "", c13Msg(v, op, tok))
	mark := bed.Log.Len()
	first := cl.Expect(stream)
	_ = cl.SendRaw(wire, fmt.Sprintf("gate v=%s op=%s", c13VerName(v), c13OpName(op)))
	label := fmt.Sprintf("v=%s/max=%s", c13VerName(v), c13VerName(max))
	scen := j.scenario()
	wit := func() interface{} {
		return map[string]interface{}{"version": c13VerName(v), "max": c13VerName(max), "opcode": c13OpName(op), "flags": int(fl), "frame_hex": fmt.Sprintf("%x", wire),
			"frames_on_stream": c13Kinds(cl.OnStream(stream)), "all_frames": c13Kinds(cl.Frames()), "backend_recv": c13DescribeBackend(c13BackendRecv(c13Since(bed, mark)))}
	}
	bvs := []primitive.ProtocolVersion{max, 3, max}
	if reject {
		r.NonTrivial(fmt.Sprintf("gate/reject/%s/op=%s/flags=%d", label, c13OpName(op), fl))
		res, bv, bf := c13BarrierX(cl, bvs, 1000, 3)
		if bf != nil {
			if code, msg, ok := c13ErrorOf(bf, ""); ok && code == primitive.ErrorCodeProtocolError {
				r.Violate(mon.Violation{Signature: fmt.Sprintf("C13/gate/accepted-version-rejected/v=%s/max=%s", c13VerName(bv), c13VerName(max)), Scenario: scen, Witness: wit(),
					Detail: fmt.Sprintf("version %s is not above max %s and not below v3, so an OPTIONS must be answered SUPPORTED; got a protocol error: %q", c13VerName(bv), c13VerName(max), msg)})
				return
			}
		}
		switch {
		case res == "timeout":
			r.Inconc(fmt.Sprintf("gate %s op=%s: watchdog while waiting for the barrier OPTIONS", label, c13OpName(op)))
			return
		case res != "ok":
			r.Violate(mon.Violation{Signature: "C13/gate/rejected-version-leaves-connection-unusable/" + label, Scenario: scen, Witness: wit(),
				Detail: fmt.Sprintf("a %s %s frame (max %s) must be answered with a protocol error and leave the connection usable; the following OPTIONS (version <= max) ended with %q", c13VerName(v), c13OpName(op), c13VerName(max), res)})
			return
		}
		fs := cl.OnStream(stream)
		if len(fs) != 1 || fs[0].OpCode != primitive.OpCodeError {
			r.Violate(mon.Violation{Signature: fmt.Sprintf("C13/gate/rejected-version/%s/frames=%s", label, c13Kinds(fs)), Scenario: scen, Witness: wit(),
				Detail: fmt.Sprintf("a %s %s frame with max %s must get exactly one ERROR; frames on its stream after 3 barrier round trips: %s", c13VerName(v), c13OpName(op), c13VerName(max), c13Kinds(fs))})
			return
		}
		code, msg, ok := c13ErrorOf(fs[0], "")
		if !ok || code != primitive.ErrorCodeProtocolError {
			r.Violate(mon.Violation{Signature: fmt.Sprintf("C13/gate/rejected-version-wrong-error-code/%s", label), Scenario: scen, Witness: wit(),
				Detail: fmt.Sprintf("expected ERROR code PROTOCOL (0x000A), got code 0x%04x message %q decodable=%v", int(code), msg, ok)})
			return
		}
		if !strings.Contains(msg, strconv.Itoa(int(v))) {
			r.Violate(mon.Violation{Signature: fmt.Sprintf("C13/gate/error-does-not-name-version/%s", label), Scenario: scen, Witness: wit(),
				Detail: fmt.Sprintf("the protocol error must name the version (%d) so drivers can downgrade; message: %q", int(v), msg)})
		}
		// backend traffic caused by the rejected frame: frames in the rejected version (the proxy's own connections speak
		// the configured one) or carrying this frame's token. Other traffic - a pooled connection of the proxy that is
		// re-established in the background at that moment - is the proxy's own.
		var be []mon.Event
		for _, e := range c13BackendRecv(c13Since(bed, mark)) {
			if e.Ver == int(v) || e.Tok == tok || bytes.Contains(e.Body, []byte(tok)) {
				be = append(be, e)
			}
		}
		if len(be) > 0 {
			r.Violate(mon.Violation{Signature: fmt.Sprintf("C13/gate/rejected-version-forwarded/%s", label), Scenario: scen, Witness: wit(),
				Detail: "a rejected frame caused backend traffic: " + c13DescribeBackend(be)})
		}
		if len(cl.Frames()) != 4 {
			r.Violate(mon.Violation{Signature: fmt.Sprintf("C13/gate/stray-frames/%s", label), Scenario: scen, Witness: wit(),
				Detail: "expected exactly 1 error + 3 SUPPORTED, got " + c13Kinds(cl.Frames())})
		}
		if fs[0].Version == v {
			r.Obs("gate_error_framed_in_request_version", 1)
		} else {
			r.Obs("gate_error_framed_in_other_version", 1)
		}
		r.Obs("gate_rejected", 1)
		r.Obs("gate_rejected:"+c13VerName(v), 1)
		if op == primitive.OpCodeQuery && fl == 0 {
			r.Sample(map[string]interface{}{"part": "gate", "max": c13VerName(max), "version": c13VerName(v), "opcode": c13OpName(op), "reply": "ERROR PROTOCOL " + msg})
		}
		return
	}

	// accepted version: normal answer
	if op != primitive.OpCodeOptions {
		r.NonTrivial(fmt.Sprintf("gate/accept/%s/op=%s", label, c13OpName(op)))
	}
	async := op == primitive.OpCodeQuery || op == primitive.OpCodePrepare
	checked := async || op == primitive.OpCodeOptions || op == primitive.OpCodeStartup || op == primitive.OpCodeRegister
	if res, bv, bf := c13BarrierX(cl, bvs, 1000, 1); res != "ok" {
		if bf != nil {
			if code, msg, ok := c13ErrorOf(bf, ""); ok && code == primitive.ErrorCodeProtocolError {
				// the barrier OPTIONS itself (a version <= max) was refused: that is the finding, whatever frame preceded it
				r.Violate(mon.Violation{Signature: fmt.Sprintf("C13/gate/accepted-version-rejected/v=%s/max=%s", c13VerName(bv), c13VerName(max)), Scenario: scen, Witness: wit(),
					Detail: fmt.Sprintf("version %s is not above max %s and not below v3, so an OPTIONS must be answered SUPPORTED; got a protocol error: %q", c13VerName(bv), c13VerName(max), msg)})
				return
			}
		}
		if checked {
			r.Violate(mon.Violation{Signature: fmt.Sprintf("C13/gate/accepted-version-breaks-connection/%s/op=%s", label, c13OpName(op)), Scenario: scen, Witness: wit(),
				Detail: fmt.Sprintf("after a well-formed %s %s (max %s) an OPTIONS round trip ended with %q", c13VerName(v), c13OpName(op), c13VerName(max), res)})
		} else {
			r.Obs(fmt.Sprintf("gate_accepted_unchecked:%s:%s:barrier=%s", c13VerName(v), c13OpName(op), res), 1)
		}
		return
	}
	if async {
		if _, err := cl.Wait(first, c13Watchdog); err != nil {
			r.Inconc(fmt.Sprintf("gate %s op=%s: no reply to a forwarded request within the watchdog (%v)", label, c13OpName(op), err))
			return
		}
	}
	if res := c13Barrier(cl, bvs, 1010, 2); res != "ok" && checked {
		r.Inconc(fmt.Sprintf("gate %s op=%s: second barrier ended with %s", label, c13OpName(op), res))
		return
	}
	fs := cl.OnStream(stream)
	if !checked {
		r.Obs(fmt.Sprintf("gate_accepted_unchecked:%s:%s", c13OpName(op), c13Kinds(fs)), 1)
		return
	}
	want := map[primitive.OpCode]string{primitive.OpCodeOptions: "Supported", primitive.OpCodeStartup: "Ready", primitive.OpCodeRegister: "Ready",
		primitive.OpCodeQuery: "Rows", primitive.OpCodePrepare: "Prepared"}[op]
	got := "(none)"
	var ri ReplyInfo
	if len(fs) > 0 {
		ri = DecodeReply("", fs[0])
		got = ri.Kind
	}
	switch {
	case len(fs) == 1 && got == want && (op != primitive.OpCodeQuery || ri.Tok == tok):
		r.Obs("gate_accepted", 1)
		r.Obs("gate_accepted:"+c13VerName(v), 1)
	case len(fs) >= 1 && ri.ErrCode == primitive.ErrorCodeProtocolError && got == "Error:"+primitive.ErrorCodeProtocolError.String():
		r.Violate(mon.Violation{Signature: "C13/gate/accepted-version-rejected/" + label, Scenario: scen, Witness: wit(),
			Detail: fmt.Sprintf("version %s is not above max %s and not below v3, so a %s must get its normal answer (%s); got a protocol error: %q", c13VerName(v), c13VerName(max), c13OpName(op), want, ri.ErrMsg)})
	default:
		r.Violate(mon.Violation{Signature: fmt.Sprintf("C13/gate/accepted-version-wrong-reply/op=%s/frames=%s/first=%s", c13OpName(op), c13Kinds(fs), c13KindName(ri)), Scenario: scen, Witness: wit(),
			Detail: fmt.Sprintf("%s %s with max %s: expected exactly one %s, got frames %s (first decodes as %s %q)", c13VerName(v), c13OpName(op), c13VerName(max), want, c13Kinds(fs), got, ri.ErrMsg)})
	}
}

// c13GateChain sends every rejected (version, opcode) combination back-to-back on ONE connection: each gets exactly one
// protocol error, nothing reaches the backend and the connection is still usable afterwards.
func c13GateChain(c *Ctx, bed *px.Bed, j c13Job) {
	c13GateChainX(c, bed, j, false)
	c13GateChainX(c, bed, j, true)
}

// c13GateChainX: warm = the connection has completed OPTIONS, STARTUP and a forwarded QUERY in an accepted version before
// the frames of rejected versions arrive (the version is judged frame by frame, not once per connection).
func c13GateChainX(c *Ctx, bed *px.Bed, j c13Job, warm bool) {
	r := c.R
	max := j.Max
	c.Step("C13 gate chain max=%s warm=%v", c13VerName(max), warm)
	cl, err := bed.Client(max)
	if err != nil {
		r.Inconc("dial: " + err.Error())
		return
	}
	defer cl.Close()
	sfx := ""
	if warm {
		sfx = "/after-accepted-frames"
		ok := c13Barrier(cl, []primitive.ProtocolVersion{max}, 900, 1) == "ok"
		for i, op := range []primitive.OpCode{primitive.OpCodeStartup, primitive.OpCodeQuery} {
			st := int16(910 + i)
			ch := cl.Expect(st)
			_ = cl.SendRaw(c13Wire(max, st, 0, "", c13Msg(max, op, NewTok())), "warm-up")
			if _, err := cl.Wait(ch, c13Watchdog); err != nil {
				ok = false
			}
		}
		if !ok {
			r.Inconc("gate chain: warm-up frames in an accepted version were not answered")
			return
		}
	}
	type sent struct {
		v  primitive.ProtocolVersion
		op primitive.OpCode
		st int16
	}
	var all []sent
	var wire []byte
	chainToks := map[string]bool{}
	st := int16(0)
	for _, v := range c13Known {
		if !(v > max || v < 3) {
			continue
		}
		for _, op := range c13Ops {
			st++
			all = append(all, sent{v, op, st})
			tk := NewTok()
			chainToks[tk] = true
			wire = append(wire, c13Wire(v, st, 0, "", c13Msg(v, op, tk))...)
		}
	}
	if len(all) == 0 {
		return
	}
	r.Eval(1)
	r.NonTrivial("gate/chain/max=" + c13VerName(max) + sfx)
	mark := bed.Log.Len()
	_ = cl.SendRaw(wire, "gate chain")
	res := c13Barrier(cl, []primitive.ProtocolVersion{max, 3}, 1000, 3)
	scen := j.scenario()
	if res == "timeout" {
		// judge what did arrive: a rejected frame answered with anything but a PROTOCOL error is a violation by itself
		wrong := ""
		for _, s := range all {
			for _, f := range cl.OnStream(s.st) {
				if code, _, ok := c13ErrorOf(f, ""); !ok || code != primitive.ErrorCodeProtocolError {
					wrong = fmt.Sprintf("%s %s on stream %d answered %s", c13VerName(s.v), c13OpName(s.op), s.st, c13Kinds([]*rawcql.Frame{f}))
				}
			}
		}
		if wrong != "" {
			r.Violate(mon.Violation{Signature: "C13/gate/chain-rejected-frame-accepted/max=" + c13VerName(max) + sfx, Scenario: scen,
				Detail: fmt.Sprintf("%d frames of versions the proxy must reject were pipelined on one connection: %s (frames received: %s)", len(all), wrong, c13Kinds(cl.Frames()))})
			return
		}
		r.Inconc("gate chain: watchdog")
		return
	}
	if res != "ok" {
		r.Violate(mon.Violation{Signature: "C13/gate/chain-leaves-connection-unusable/max=" + c13VerName(max) + sfx, Scenario: scen,
			Detail: fmt.Sprintf("%d rejected frames pipelined on one connection, then OPTIONS: %s; frames received: %s", len(all), res, c13Kinds(cl.Frames()))})
		return
	}
	for _, s := range all {
		fs := cl.OnStream(s.st)
		code, msg, ok := primitive.ErrorCode(0), "", false
		if len(fs) == 1 {
			code, msg, ok = c13ErrorOf(fs[0], "")
		}
		if len(fs) == 1 && ok && code == primitive.ErrorCodeProtocolError && !strings.Contains(msg, strconv.Itoa(int(s.v))) {
			// every refusal names the version of the frame it refuses, whatever was refused on this connection before
			r.Violate(mon.Violation{Signature: fmt.Sprintf("C13/gate/chain-error-does-not-name-version/v=%s/max=%s", c13VerName(s.v), c13VerName(max)) + sfx, Scenario: scen,
				Detail: fmt.Sprintf("rejected frames of several versions pipelined on one connection: the protocol error for the %s %s frame on stream %d must name its version (%d) so drivers can downgrade; message: %q", c13VerName(s.v), c13OpName(s.op), s.st, int(s.v), msg)})
		}
		if len(fs) != 1 || !ok || code != primitive.ErrorCodeProtocolError {
			r.Violate(mon.Violation{Signature: fmt.Sprintf("C13/gate/chain/v=%s/max=%s/frames=%s", c13VerName(s.v), c13VerName(max), c13Kinds(fs)) + sfx, Scenario: scen,
				Detail: fmt.Sprintf("pipelined rejected frame %s %s on stream %d: expected exactly one PROTOCOL error, got %s", c13VerName(s.v), c13OpName(s.op), s.st, c13Kinds(fs))})
		} else {
			r.Obs("gate_chain_rejected", 1)
		}
	}
	extra := 3 // the barrier's SUPPORTED frames
	if warm {
		extra += 3 // ... and the answers to the warm-up OPTIONS, STARTUP and QUERY
	}
	if n := len(cl.Frames()); n != len(all)+extra {
		r.Violate(mon.Violation{Signature: "C13/gate/chain-stray-frames/max=" + c13VerName(max) + sfx, Scenario: scen,
			Detail: fmt.Sprintf("expected %d errors + 3 SUPPORTED, got %d frames: %s", len(all), n, c13Kinds(cl.Frames()))})
	}
	// backend traffic caused by the rejected frames: frames in a rejected version or carrying one of their tokens (a
	// forwarded request of an earlier case can still be on its way to the backend, the proxy's own connections speak an
	// accepted version)
	var be []mon.Event
	for _, e := range c13BackendRecv(c13Since(bed, mark)) {
		ev := primitive.ProtocolVersion(e.Ver)
		hasTok := chainToks[e.Tok]
		for tk := range chainToks {
			if !hasTok && bytes.Contains(e.Body, []byte(tk)) {
				hasTok = true
			}
		}
		if ev > max || ev < 3 || hasTok {
			be = append(be, e)
		}
	}
	if len(be) > 0 {
		r.Violate(mon.Violation{Signature: "C13/gate/chain-forwarded/max=" + c13VerName(max) + sfx, Scenario: scen, Detail: "rejected frames caused backend traffic: " + c13DescribeBackend(be)})
	}
}

// ---------------------------------------------------------------------------------------------------------------------
// (c) unknown version bytes: protocol error or closed connection, never forwarded

func c13Unknown(c *Ctx, bed *px.Bed, j c13Job) {
	r := c.R
	max := j.Max
	known := map[byte]bool{}
	for _, v := range c13Known {
		known[byte(v)] = true
	}
	n := 0
	for b := 0; b < 256; b++ {
		if known[byte(b)] {
			continue
		}
		ops := []primitive.OpCode{c13Ops[n%len(c13Ops)]}
		if !c.Quick() {
			ops = c13Ops
		}
		n++
		for _, op := range ops {
			c.Step("C13 unknown max=%s byte=0x%02x op=%s", c13VerName(max), b, c13OpName(op))
			r.Eval(1)
			r.NonTrivial(fmt.Sprintf("unknown/byte=0x%02x/op=%s", b, c13OpName(op)))
			cl, err := bed.Client(primitive.ProtocolVersion(b & 0x7f))
			if err != nil {
				r.Inconc("dial: " + err.Error())
				continue
			}
			tok := NewTok()
			const stream = int16(5)
			body := c13Wire(4, stream, 0, "", c13Msg(4, op, tok))[9:]
			wire := append(c13Header(byte(b), 0, stream, op, len(body)), body...)
			mark := bed.Log.Len()
			_ = cl.SendRaw(wire, fmt.Sprintf("unknown version byte 0x%02x op=%s", b, c13OpName(op)))
			res := c13Barrier(cl, []primitive.ProtocolVersion{3}, 1000, 2)
			scen := j.scenario()
			class := "unknown"
			if b&0x80 != 0 {
				class = "response-direction"
			}
			wit := map[string]interface{}{"byte": fmt.Sprintf("0x%02x", b), "opcode": c13OpName(op), "frame_hex": fmt.Sprintf("%x", wire), "barrier": res, "frames": c13Kinds(cl.Frames())}
			switch {
			case res == "timeout":
				// the bytes after an unknown version byte may be framed differently by the proxy; it may legitimately wait for more -
				// unless the frame was complete in the layout its version byte stands for (version 1: the 8-byte header of v1/v2) and
				// complete frames followed it: then nothing the proxy could be waiting for is still to come. Decided by progress, not
				// by the clock: another connection completes 50 round trips and this one is still neither answered nor closed.
				r.Obs("unknown_bytes_waiting", 1)
				decided := false
				if b&0x7f == 1 {
					if other, err := bed.Client(primitive.ProtocolVersion4); err == nil {
						if ProgressSteps(other, 50, 900) && !cl.IsClosed() && len(cl.OnStream(1000)) == 0 {
							decided = true
							r.Violate(mon.Violation{Signature: fmt.Sprintf("C13/unknown-version/%s/neither-answered-nor-closed", class), Scenario: scen, Witness: wit,
								Detail: fmt.Sprintf("version byte 0x%02x %s, sent with the 8-byte header that version 1 frames have and followed by a well-formed OPTIONS frame: the connection was not closed, and neither frame was answered while another connection completed 50 round trips (frames received: %s)", b, c13OpName(op), c13Kinds(cl.Frames()))})
						}
						other.Close()
					}
				}
				if !decided {
					r.Inconc(fmt.Sprintf("unknown version byte 0x%02x: neither closed nor answered within the watchdog", b))
				}
			case res == "closed":
				// closed connection: allowed. Whatever arrived before the close must not be a normal answer.
				for _, f := range cl.Frames() {
					if f.OpCode != primitive.OpCodeError && f.OpCode != primitive.OpCodeSupported {
						r.Violate(mon.Violation{Signature: fmt.Sprintf("C13/unknown-version/%s/answered=%s", class, c13OpName(f.OpCode)), Scenario: scen, Witness: wit,
							Detail: fmt.Sprintf("version byte 0x%02x %s was answered with %s before the connection closed", b, c13OpName(op), c13OpName(f.OpCode))})
					}
				}
				r.Obs("unknown_bytes", 1)
				r.Obs("unknown_closed", 1)
			default:
				fs := cl.OnStream(stream)
				okErr := false
				if len(fs) == 1 {
					code, msg, ok := c13ErrorOf(fs[0], "")
					okErr = ok && code == primitive.ErrorCodeProtocolError && (b&0x80 != 0 || strings.Contains(msg, strconv.Itoa(b)))
				}
				if !okErr {
					r.Violate(mon.Violation{Signature: fmt.Sprintf("C13/unknown-version/%s/frames=%s", class, c13Kinds(fs)), Scenario: scen, Witness: wit,
						Detail: fmt.Sprintf("version byte 0x%02x %s: the connection stayed open (%s), so exactly one PROTOCOL error naming the version was due; got %s", b, c13OpName(op), res, c13Kinds(fs))})
				} else {
					r.Obs("unknown_bytes", 1)
					r.Obs("unknown_error", 1)
				}
			}
			var be []mon.Event
			for _, e := range c13BackendRecv(c13Since(bed, mark)) { // frames that stem from this one: its token, or its version byte
				if e.Tok == tok || bytes.Contains(e.Body, []byte(tok)) || e.Ver == b&0x7f {
					be = append(be, e)
				}
			}
			if len(be) > 0 {
				r.Violate(mon.Violation{Signature: "C13/unknown-version/" + class + "/forwarded", Scenario: scen, Witness: wit,
					Detail: fmt.Sprintf("version byte 0x%02x caused backend traffic: %s", b, c13DescribeBackend(be))})
			}
			cl.Close()
		}
	}
}

// ---------------------------------------------------------------------------------------------------------------------
// (d) STARTUP option maps

type c13StartupCase struct {
	Name      string // COMPRESSION value; "-" = option absent
	Extras    bool
	Supported bool
	Alg       string
}

func c13StartupCases() []c13StartupCase {
	var out []c13StartupCase
	for _, ex := range []bool{false, true} {
		for _, n := range []string{"lz4", "LZ4", "Lz4", "lZ4", "snappy", "SNAPPY", "Snappy", "sNaPpY"} {
			out = append(out, c13StartupCase{Name: n, Extras: ex, Supported: true, Alg: strings.ToLower(n)})
		}
		for _, n := range []string{"zstd", "", "lz4 ", " lz4", "lz4x", "none", "snapy", "deflate", "LZ4\n", "gzip"} {
			out = append(out, c13StartupCase{Name: n, Extras: ex})
		}
		out = append(out, c13StartupCase{Name: "-", Extras: ex, Supported: true})
	}
	return out
}

func (sc c13StartupCase) options(tok string) map[string]string {
	o := map[string]string{"CQL_VERSION": "3.0.0", "DRIVER_NAME": c13Marker + tok}
	if sc.Name != "-" {
		o["COMPRESSION"] = sc.Name
	}
	if sc.Extras {
		o["DRIVER_VERSION"] = "4.17.0"
		o["NO_COMPACT"] = "true"
		o["THROW_ON_OVERLOAD"] = "1"
		o["X_UNKNOWN_OPTION"] = "whatever"
	}
	return o
}

// c13CompressibleQuery is a tokenised statement that compresses, but well below 8:1 (the dependency's lz4 wrapper cannot
// inflate more than that; that limit belongs to C03, not to this property).
func c13CompressibleQuery(tok string) string {
	var sb strings.Builder
	sb.WriteString("SELECT * FROM ks1.t WHERE k='" + tok + "' AND v IN (")
	x := uint32(2166136261)
	for i := 0; i < 48; i++ {
		x = (x ^ uint32(i)) * 16777619
		fmt.Fprintf(&sb, "'value-%03d-%08x', ", i, x)
	}
	sb.WriteString("'end')")
	return sb.String()
}

func c13Query(v primitive.ProtocolVersion, st int16, tok string) message.Message {
	return &message.Query{Query: c13CompressibleQuery(tok), Options: &message.QueryOptions{Consistency: primitive.ConsistencyLevelOne}}
}

// c13RoundTrip sends a tokenised QUERY (compressed with comp if not "") and waits for the reply on its stream.
func c13RoundTrip(cl *rawcql.Client, v primitive.ProtocolVersion, st int16, comp string) (tok string, f *rawcql.Frame, err error) {
	tok = NewTok()
	wire := c13Wire(v, st, 0, comp, c13Query(v, st, tok))
	ch := cl.Expect(st)
	if err = cl.SendFrame(v, primitive.HeaderFlag(wire[1]), st, primitive.OpCodeQuery, wire[9:]); err != nil {
		return
	}
	f, err = cl.Wait(ch, c13Watchdog)
	return
}

func c13Startup(c *Ctx, bed *px.Bed, j c13Job) {
	r := c.R
	max := j.Max
	versions := c13Accepted(max)
	if c.Quick() && len(versions) > 2 {
		versions = []primitive.ProtocolVersion{versions[0], versions[len(versions)-1]}
		if max >= 4 {
			versions = append(versions, 4)
		}
	}
	// the compression ratio of the probe statement, for the record
	plain := c13Wire(4, 1, 0, "", c13Query(4, 1, "T0000000000000000"))
	for _, alg := range []string{"lz4", "snappy"} {
		comp := c13Wire(4, 1, 0, alg, c13Query(4, 1, "T0000000000000000"))
		ratio10 := (len(plain) - 9) * 10 / (len(comp) - 9)
		r.ObsMax("max:probe_ratio_x10:"+alg, ratio10)
		if ratio10 >= 60 || ratio10 <= 11 {
			r.Inconc(fmt.Sprintf("probe statement compresses %d.%d:1 with %s: outside the useful range", ratio10/10, ratio10%10, alg))
			return
		}
	}
	for _, v := range versions {
		for _, sc := range c13StartupCases() {
			if sc.Alg == "snappy" && v == primitive.ProtocolVersion5 {
				r.Obs("startup_skipped_snappy_on_v5", 1) // protocol v5 has no snappy; the property is silent about it
				continue
			}
			c.Step("C13 startup max=%s v=%s compression=%q extras=%v", c13VerName(max), c13VerName(v), sc.Name, sc.Extras)
			r.Eval(1)
			r.NonTrivial(fmt.Sprintf("startup/max=%s/v=%s/compression=%q/extras=%v", c13VerName(max), c13VerName(v), sc.Name, sc.Extras))
			if sc.Supported {
				c13StartupSupported(c, bed, j, v, sc)
			} else {
				c13StartupUnsupported(c, bed, j, v, sc)
			}
		}
		c13Trio(c, bed, j, v)
	}
}

func c13StartupUnsupported(c *Ctx, bed *px.Bed, j c13Job, v primitive.ProtocolVersion, sc c13StartupCase) {
	r := c.R
	cl, err := bed.Client(v)
	if err != nil {
		r.Inconc("dial: " + err.Error())
		return
	}
	defer cl.Close()
	tok := NewTok()
	scen := j.scenario()
	wire := c13Wire(v, 1, 0, "", &message.Startup{Options: sc.options(tok)})
	_ = cl.SendFrame(v, 0, 1, primitive.OpCodeStartup, wire[9:])
	res := c13Barrier(cl, []primitive.ProtocolVersion{v}, 1000, 3)
	wit := func() interface{} {
		return map[string]interface{}{"version": c13VerName(v), "options": sc.options(tok), "frames_on_stream_1": c13Kinds(cl.OnStream(1)), "all_frames": c13Kinds(cl.Frames()), "barrier": res}
	}
	if res == "timeout" {
		r.Inconc("startup unsupported: watchdog")
		return
	}
	fs := cl.OnStream(1)
	r.Obs("startup_unsupported", 1)
	if len(fs) != 1 || fs[0].OpCode != primitive.OpCodeError {
		r.Violate(mon.Violation{Signature: "C13/startup-unsupported-compression/frames=" + c13Kinds(fs), Scenario: scen, Witness: wit(),
			Detail: fmt.Sprintf("STARTUP (version %s) with unsupported COMPRESSION=%q must get exactly one ERROR and nothing else; frames on its stream after 3 barrier round trips (barrier: %s): %s", c13VerName(v), sc.Name, res, c13Kinds(fs))})
	} else {
		r.Obs("startup_unsupported_only_error", 1)
	}
	if res != "ok" {
		if len(fs) == 1 && fs[0].OpCode == primitive.OpCodeError {
			r.Obs("startup_unsupported_then_"+res, 1) // an error followed by a close is still "only an error"
		}
		return
	}
	// the connection stays uncompressed: a driver's next attempt without compression works in the plain
	st2 := cl.Expect(2)
	wire2 := c13Wire(v, 2, 0, "", &message.Startup{Options: map[string]string{"CQL_VERSION": "3.0.0", "DRIVER_NAME": c13Marker + tok}})
	_ = cl.SendFrame(v, 0, 2, primitive.OpCodeStartup, wire2[9:])
	f2, err := cl.Wait(st2, c13Watchdog)
	if err != nil {
		r.Inconc(fmt.Sprintf("startup unsupported: no answer to the follow-up STARTUP (%v)", err))
		return
	}
	qtok, f3, err := c13RoundTrip(cl, v, 3, "")
	if err != nil {
		r.Inconc(fmt.Sprintf("startup unsupported: no answer to the follow-up QUERY (%v)", err))
		return
	}
	ri := DecodeReply("", f3)
	if f2.OpCode != primitive.OpCodeReady || f3.Flags.Contains(primitive.HeaderFlagCompressed) || ri.Kind != "Rows" || ri.Tok != qtok || ri.Echo.Comp != "" {
		r.Violate(mon.Violation{Signature: "C13/startup-unsupported-compression/connection-not-plain-afterwards", Scenario: scen, Witness: wit(),
			Detail: fmt.Sprintf("after the refused COMPRESSION=%q the connection must still be a plain one: follow-up STARTUP got %s, plain QUERY got %s flags=%#x kind=%s %q backend-session-compression=%q",
				sc.Name, c13OpName(f2.OpCode), c13OpName(f3.OpCode), int(f3.Flags), ri.Kind, ri.ErrMsg, ri.Echo.Comp)})
	} else {
		r.Obs("startup_unsupported_stays_plain", 1)
	}
}

func c13StartupSupported(c *Ctx, bed *px.Bed, j c13Job, v primitive.ProtocolVersion, sc c13StartupCase) {
	r := c.R
	scen := j.scenario()
	a, err := bed.Client(v)
	if err != nil {
		r.Inconc("dial: " + err.Error())
		return
	}
	defer a.Close()
	b, err := bed.ReadyClient(v, "")
	if err != nil {
		r.Inconc("second client: " + err.Error())
		return
	}
	defer b.Close()
	tok := NewTok()
	wire := c13Wire(v, 1, 0, "", &message.Startup{Options: sc.options(tok)})
	_ = a.SendFrame(v, 0, 1, primitive.OpCodeStartup, wire[9:])
	res := c13Barrier(a, []primitive.ProtocolVersion{v}, 1000, 3)
	if res == "timeout" {
		r.Inconc("startup supported: watchdog")
		return
	}
	fs := a.OnStream(1)
	wit := func() interface{} {
		return map[string]interface{}{"version": c13VerName(v), "options": sc.options(tok), "frames_on_stream_1": c13Kinds(a.OnStream(1)), "all_frames_a": c13Kinds(a.Frames()), "all_frames_b": c13Kinds(b.Frames())}
	}
	if res != "ok" || len(fs) != 1 || fs[0].OpCode != primitive.OpCodeReady {
		r.Violate(mon.Violation{Signature: fmt.Sprintf("C13/startup-supported/compression=%s/frames=%s", sc.Alg, c13Kinds(fs)), Scenario: scen, Witness: wit(),
			Detail: fmt.Sprintf("STARTUP (version %s) COMPRESSION=%q extras=%v must get exactly one READY; barrier %s, frames %s", c13VerName(v), sc.Name, sc.Extras, res, c13Kinds(fs))})
		return
	}
	a.Comp = sc.Alg
	// A -> proxy compressed (or plain when no compression was chosen), proxy -> A in A's algorithm
	qtok, f, err := c13RoundTrip(a, v, 2, sc.Alg)
	if err != nil {
		if err == rawcql.ErrClosed {
			r.Violate(mon.Violation{Signature: "C13/compression/request-closes-connection/" + sc.Alg, Scenario: scen, Witness: wit(),
				Detail: fmt.Sprintf("after READY for COMPRESSION=%q a %s-compressed QUERY closed the connection", sc.Name, sc.Alg)})
		} else {
			r.Inconc("startup supported: no reply to the QUERY within the watchdog")
		}
		return
	}
	ri := DecodeReply(sc.Alg, f)
	if ri.Err != nil {
		r.Violate(mon.Violation{Signature: "C13/compression/reply-not-decodable/" + sc.Alg, Scenario: scen, Witness: wit(),
			Detail: fmt.Sprintf("COMPRESSION=%q: reply (flags %#x) cannot be decoded with %s: %v", sc.Name, int(f.Flags), sc.Alg, ri.Err)})
		return
	}
	if ri.Kind != "Rows" || ri.Tok != qtok {
		r.Violate(mon.Violation{Signature: "C13/compression/request-not-served/" + sc.Alg, Scenario: scen, Witness: wit(),
			Detail: fmt.Sprintf("COMPRESSION=%q (version %s): the QUERY sent in the negotiated form got %s %q instead of its row", sc.Name, c13VerName(v), ri.Kind, ri.ErrMsg)})
		return
	}
	if sc.Alg != "" {
		if !f.Flags.Contains(primitive.HeaderFlagCompressed) {
			r.Violate(mon.Violation{Signature: "C13/compression/replies-not-compressed/" + sc.Alg, Scenario: scen, Witness: wit(),
				Detail: fmt.Sprintf("COMPRESSION=%q: the backend compresses every response of a compressed session, yet the client got an uncompressed RESULT (backend session compression %q): the proxy->client direction was not switched", sc.Name, ri.Echo.Comp)})
		} else {
			r.Obs("reply_compressed", 1)
			r.Obs("reply_compressed:"+sc.Alg, 1)
		}
		// a plain frame on a compressed connection is legal CQL; the property is silent: observation only
		if _, f2, err := c13RoundTrip(a, v, 3, ""); err == nil {
			r.Obs("plain_frame_on_compressed_connection:"+DecodeReply(sc.Alg, f2).Kind, 1)
		} else {
			r.Obs("plain_frame_on_compressed_connection:"+err.Error(), 1)
		}
	}
	if sc.Alg != "" {
		// bodiless requests in the negotiated form too: drivers that set the compression flag on every frame after the
		// handshake send their heartbeat OPTIONS (and REGISTER) compressed
		for vi, body := range c13EmptyCompressed(sc.Alg) {
			st := int16(40 + vi)
			ch := a.Expect(st)
			_ = a.SendFrame(v, primitive.HeaderFlagCompressed, st, primitive.OpCodeOptions, body)
			of, oerr := a.Wait(ch, c13Watchdog)
			switch {
			case oerr == rawcql.ErrClosed:
				r.Violate(mon.Violation{Signature: "C13/compression/compressed-options-closes-connection/" + sc.Alg, Scenario: scen, Witness: wit(),
					Detail: fmt.Sprintf("after READY for COMPRESSION=%q an OPTIONS frame with the COMPRESSED flag and the body % x (what %s makes of an empty body) closed the connection instead of being answered SUPPORTED", sc.Name, body, sc.Alg)})
				return
			case oerr != nil:
				r.Inconc("startup supported: no reply to a compressed OPTIONS within the watchdog")
				return
			case of.OpCode != primitive.OpCodeSupported:
				r.Violate(mon.Violation{Signature: "C13/compression/compressed-options-not-supported/" + sc.Alg, Scenario: scen, Witness: wit(),
					Detail: fmt.Sprintf("COMPRESSION=%q: compressed OPTIONS (body % x) answered %s", sc.Name, body, c13OpName(of.OpCode))})
				return
			}
			r.Obs("compressed_options_answered:"+sc.Alg, 1)
		}
	}
	r.Obs("startup_supported", 1)
	// B: the other connection keeps talking plain
	btok, bf, err := c13RoundTrip(b, v, 2, "")
	if err != nil {
		r.Inconc(fmt.Sprintf("second client: no reply (%v)", err))
		return
	}
	bri := DecodeReply("", bf)
	if bf.Flags.Contains(primitive.HeaderFlagCompressed) || bri.Kind != "Rows" || bri.Tok != btok || bri.Echo.Comp != "" {
		r.Violate(mon.Violation{Signature: "C13/compression/leaked-to-other-connection/" + sc.Alg, Scenario: scen, Witness: wit(),
			Detail: fmt.Sprintf("a second, plain client on the same proxy got flags=%#x kind=%s backend-session-compression=%q after the first negotiated %q", int(bf.Flags), bri.Kind, bri.Echo.Comp, sc.Name)})
	} else {
		r.Obs("other_connection_plain", 1)
	}
	if sc.Alg != "" {
		// B never negotiated compression: a compressed frame must not be served
		_, bf2, err := c13RoundTrip(b, v, 3, sc.Alg)
		switch {
		case err == rawcql.ErrClosed:
			r.Obs("compressed_frame_on_plain_connection:closed", 1)
		case err != nil:
			r.Inconc("compressed frame on the plain connection: watchdog")
		case bf2.OpCode == primitive.OpCodeError:
			r.Obs("compressed_frame_on_plain_connection:error", 1)
		default:
			r.Violate(mon.Violation{Signature: "C13/compression/other-connection-accepts-compressed/" + sc.Alg, Scenario: scen, Witness: wit(),
				Detail: fmt.Sprintf("a client that never sent COMPRESSION got %s for a %s-compressed QUERY", c13OpName(bf2.OpCode), sc.Alg)})
		}
	}
}

// c13Trio: lz4, snappy and plain clients interleaved on one proxy; every reply comes back in its own connection's form.
func c13Trio(c *Ctx, bed *px.Bed, j c13Job, v primitive.ProtocolVersion) {
	r := c.R
	c.Step("C13 trio max=%s v=%s", c13VerName(j.Max), c13VerName(v))
	algs := []string{"lz4", "", "snappy"}
	if v == primitive.ProtocolVersion5 {
		algs = []string{"lz4", ""}
	}
	var cls []*rawcql.Client
	for _, alg := range algs {
		cl, err := bed.ReadyClient(v, strings.ToUpper(alg))
		if err != nil {
			r.Inconc("trio: " + err.Error())
			return
		}
		defer cl.Close()
		cl.Comp = alg
		cls = append(cls, cl)
	}
	r.Eval(1)
	r.NonTrivial(fmt.Sprintf("trio/max=%s/v=%s", c13VerName(j.Max), c13VerName(v)))
	type pend struct {
		i   int
		tok string
		ch  chan *rawcql.Frame
	}
	var ps []pend
	for round := 0; round < 4; round++ {
		for i, cl := range cls {
			st := int16(10 + round)
			tok := NewTok()
			wire := c13Wire(v, st, 0, algs[i], c13Query(v, st, tok))
			ch := cl.Expect(st)
			_ = cl.SendFrame(v, primitive.HeaderFlag(wire[1]), st, primitive.OpCodeQuery, wire[9:])
			ps = append(ps, pend{i, tok, ch})
		}
	}
	for _, p := range ps {
		f, err := cls[p.i].Wait(p.ch, c13Watchdog)
		if err != nil {
			r.Inconc(fmt.Sprintf("trio: %v", err))
			return
		}
		ri := DecodeReply(algs[p.i], f)
		comp := f.Flags.Contains(primitive.HeaderFlagCompressed)
		if ri.Err != nil || ri.Kind != "Rows" || ri.Tok != p.tok || comp != (algs[p.i] != "") {
			r.Violate(mon.Violation{Signature: fmt.Sprintf("C13/compression/interleaved/conn=%s/compressed=%v/kind=%s", algs[p.i], comp, c13KindName(ri)), Scenario: j.scenario(),
				Detail: fmt.Sprintf("three clients (lz4, plain, snappy) interleaved on one proxy, version %s: the %q client got flags=%#x kind=%s err=%v", c13VerName(v), algs[p.i], int(f.Flags), ri.Kind, ri.Err)})
			return
		}
	}
	r.Obs("trio_replies", len(ps))
}

// ---------------------------------------------------------------------------------------------------------------------
// (e) all orders of {OPTIONS, STARTUP, REGISTER, QUERY} up to length 4

func c13Sequences() []string {
	var out []string
	var rec func(p string)
	rec = func(p string) {
		if len(p) > 0 {
			out = append(out, p)
		}
		if len(p) == 4 {
			return
		}
		for _, x := range "OSRQ" {
			rec(p + string(x))
		}
	}
	rec("")
	return out
}

func c13Orders(c *Ctx, bed *px.Bed, j c13Job) {
	r := c.R
	var versions []primitive.ProtocolVersion
	for _, v := range c13Accepted(j.Max) {
		if !(j.Comp == "snappy" && v == primitive.ProtocolVersion5) {
			versions = append(versions, v)
		}
	}
	seqs := c13Sequences()
	r.Extra["order_sequences"] = len(seqs)
	wantKind := map[byte]string{'O': "Supported", 'S': "Ready", 'R': "Ready", 'Q': "Rows"}
	opOf := map[byte]primitive.OpCode{'O': primitive.OpCodeOptions, 'S': primitive.OpCodeStartup, 'R': primitive.OpCodeRegister, 'Q': primitive.OpCodeQuery}
	type oc struct {
		seq string
		v   primitive.ProtocolVersion
	}
	var cases []oc
	for i, seq := range seqs {
		if c.Quick() {
			cases = append(cases, oc{seq, versions[i%len(versions)]})
			continue
		}
		for _, v := range versions {
			cases = append(cases, oc{seq, v})
		}
	}
	for i, cs := range cases {
		seq, v := cs.seq, cs.v
		c.Step("C13 order %s max=%s v=%s comp=%q seq=%s", j.Mode, c13VerName(j.Max), c13VerName(v), j.Comp, seq)
		r.Eval(1)
		if r.ViolationCount() > 25 {
			r.Obs("orders_cut_short_after_25_violations", 1)
			break
		}
		r.NonTrivial(fmt.Sprintf("order/%s/comp=%s/v=%s/%s", j.Mode, j.Comp, c13VerName(v), seq))
		cl, err := bed.Client(v)
		if err != nil {
			r.Inconc("dial: " + err.Error())
			continue
		}
		type sent struct {
			op   byte
			st   int16
			tok  string
			ch   chan *rawcql.Frame
			wire []byte
		}
		var all []sent
		cur := "" // compression in force for frames the client sends from here on
		for k := 0; k < len(seq); k++ {
			s := sent{op: seq[k], st: int16(k + 1), tok: NewTok()}
			switch s.op {
			case 'O':
				s.wire = c13Wire(v, s.st, 0, "", &message.Options{})
			case 'S':
				o := map[string]string{"CQL_VERSION": "3.0.0", "DRIVER_NAME": c13Marker + s.tok}
				if j.Comp != "" {
					o["COMPRESSION"] = j.Comp
				}
				s.wire = c13Wire(v, s.st, 0, "", &message.Startup{Options: o})
			case 'R':
				s.wire = c13Wire(v, s.st, 0, "", &message.Register{EventTypes: c13ClientEvents})
			case 'Q':
				s.wire = c13Wire(v, s.st, 0, cur, c13Query(v, s.st, s.tok))
			}
			if s.op == 'S' {
				cur = j.Comp
			}
			all = append(all, s)
		}
		scen := j.scenario()
		scen["seq"] = seq
		wit := func() interface{} {
			per := map[string]string{}
			for _, s := range all {
				per[fmt.Sprintf("%d:%c", s.st, s.op)] = c13Kinds(cl.OnStream(s.st))
			}
			return map[string]interface{}{"seq": seq, "version": c13VerName(v), "comp": j.Comp, "mode": j.Mode, "frames_per_stream": per, "all_frames": c13Kinds(cl.Frames())}
		}
		bad := false
		inconc := false
		check := func(s sent, f *rawcql.Frame) {
			ri := DecodeReply(j.Comp, f)
			if ri.Err != nil || ri.Kind != wantKind[s.op] || (s.op == 'Q' && ri.Tok != s.tok) {
				bad = true
				r.Violate(mon.Violation{Signature: fmt.Sprintf("C13/order/%s/wrong-reply/op=%s/got=%s", j.Mode, c13OpName(opOf[s.op]), c13KindName(ri)), Scenario: scen, Witness: wit(),
					Detail: fmt.Sprintf("sequence %s (%s, version %s, compression %q): frame #%d %s expected %s, got %s %q (decode error %v)", seq, j.Mode, c13VerName(v), j.Comp, s.st, c13OpName(opOf[s.op]), wantKind[s.op], ri.Kind, ri.ErrMsg, ri.Err)})
			}
		}
		wait := func(s sent) {
			f, err := cl.Wait(s.ch, c13Watchdog)
			switch {
			case err == nil:
				check(s, f)
			case err == rawcql.ErrClosed:
				bad = true
				r.Violate(mon.Violation{Signature: fmt.Sprintf("C13/order/%s/connection-closed/op=%s", j.Mode, c13OpName(opOf[s.op])), Scenario: scen, Witness: wit(),
					Detail: fmt.Sprintf("sequence %s: the connection closed while waiting for the reply to frame #%d %s", seq, s.st, c13OpName(opOf[s.op]))})
			default:
				// no frame on the stream it is owed on. Did a reply land elsewhere (another stream, twice on one stream)?
				sentOn := map[int16]bool{}
				for _, x := range all {
					sentOn[x.st] = true
				}
				per := map[int16]int{}
				stray := ""
				for _, f := range cl.Frames() {
					per[f.Stream]++
					if !sentOn[f.Stream] || per[f.Stream] > 1 {
						stray = fmt.Sprintf("stream %d (%s)", f.Stream, c13OpName(f.OpCode))
					}
				}
				switch {
				case stray != "":
					bad = true
					r.Violate(mon.Violation{Signature: fmt.Sprintf("C13/order/%s/reply-on-wrong-stream/op=%s", j.Mode, c13OpName(opOf[s.op])), Scenario: scen, Witness: wit(),
						Detail: fmt.Sprintf("sequence %s: frame #%d %s got no reply on its stream, but an extra frame arrived on %s; all frames: %s", seq, s.st, c13OpName(opOf[s.op]), stray, c13Kinds(cl.Frames()))})
				case s.op != 'Q' && c13Barrier(cl, []primitive.ProtocolVersion{v}, 2000, 3) == "ok" && len(cl.OnStream(s.st)) == 0:
					// OPTIONS/STARTUP/REGISTER are answered by the proxy itself, in order: three later OPTIONS were answered, this one never
					bad = true
					r.Violate(mon.Violation{Signature: fmt.Sprintf("C13/order/%s/no-reply/op=%s", j.Mode, c13OpName(opOf[s.op])), Scenario: scen, Witness: wit(),
						Detail: fmt.Sprintf("sequence %s: frame #%d %s was never answered although three later OPTIONS on the same connection were", seq, s.st, c13OpName(opOf[s.op]))})
				default:
					inconc = true
					r.Inconc(fmt.Sprintf("order %s %s: watchdog waiting for frame #%d", j.Mode, seq, s.st))
				}
			}
		}
		if j.Mode == "awaited" {
			for k := range all {
				all[k].ch = cl.Expect(all[k].st)
				_ = cl.SendFrame(v, primitive.HeaderFlag(all[k].wire[1]), all[k].st, opOf[all[k].op], all[k].wire[9:])
				wait(all[k])
				if bad || inconc {
					break
				}
			}
		} else {
			var buf []byte
			for k := range all {
				all[k].ch = cl.Expect(all[k].st)
				buf = append(buf, all[k].wire...)
			}
			_ = cl.SendRaw(buf, "pipelined "+seq)
			for k := range all {
				wait(all[k])
				if bad || inconc {
					break
				}
			}
		}
		if !bad && !inconc {
			res := c13Barrier(cl, []primitive.ProtocolVersion{v}, 1000, 2)
			switch {
			case res == "timeout":
				r.Inconc("order " + seq + ": watchdog in barrier")
			case res != "ok":
				r.Violate(mon.Violation{Signature: fmt.Sprintf("C13/order/%s/unusable-afterwards", j.Mode), Scenario: scen, Witness: wit(), Detail: fmt.Sprintf("sequence %s: barrier OPTIONS ended with %s", seq, res)})
			default:
				ok := len(cl.Frames()) == len(all)+2
				for _, s := range all {
					if fs := cl.OnStream(s.st); len(fs) != 1 {
						ok = false
						r.Violate(mon.Violation{Signature: fmt.Sprintf("C13/order/%s/op=%s/frames=%s", j.Mode, c13OpName(opOf[s.op]), c13Kinds(fs)), Scenario: scen, Witness: wit(),
							Detail: fmt.Sprintf("sequence %s: frame #%d %s must get exactly one reply, got %s", seq, s.st, c13OpName(opOf[s.op]), c13Kinds(fs))})
					}
				}
				if ok {
					r.Obs("orders_"+j.Mode, 1)
				} else if len(cl.Frames()) != len(all)+2 {
					r.Violate(mon.Violation{Signature: fmt.Sprintf("C13/order/%s/stray-frames", j.Mode), Scenario: scen, Witness: wit(), Detail: fmt.Sprintf("sequence %s: %d frames sent (+2 barrier), received %s", seq, len(all), c13Kinds(cl.Frames()))})
				}
			}
		}
		if i%61 == 0 {
			r.Sample(map[string]interface{}{"part": "orders", "mode": j.Mode, "seq": seq, "version": c13VerName(v), "comp": j.Comp, "frames": c13Kinds(cl.Frames())})
		}
		cl.Close()
	}
}

// c13EmptyCompressed returns the forms an empty body takes under the algorithm: what the reference compressor writes, and
// the bare minimum.
func c13EmptyCompressed(alg string) [][]byte {
	switch alg {
	case "lz4":
		return [][]byte{{0, 0, 0, 0, 0}, {0, 0, 0, 0}}
	case "snappy":
		return [][]byte{{0}}
	}
	return nil
}

// c13Together ("switches that client connection - and only that one - ... in both directions"): eight connections negotiate
// the same algorithm and each asks, in compressed frames of ~100 KB (the statement is padded with blanks), for one column of
// system.local that no other connection asks for.  The proxy answers these itself, so what comes back depends on nothing but
// what the proxy made of this connection's own frame: it must be the column this connection asked for.
func c13Together(c *Ctx, bed *px.Bed, j c13Job) {
	r := c.R
	cols := []string{"key", "rpc_address", "data_center", "rack", "tokens", "release_version", "partitioner", "cluster_name"}
	n := c.Pick(150, 1500)
	var wg sync.WaitGroup
	var wrong, none, asked int64
	var first atomic.Value
	for i, col := range cols {
		cl, err := bed.ReadyClient(primitive.ProtocolVersion4, j.Comp)
		if err != nil {
			r.Inconc("together: handshake: " + err.Error())
			continue
		}
		wg.Add(1)
		go func(i int, col string, cl *rawcql.Client) {
			defer wg.Done()
			defer cl.Close()
			q := "SELECT " + col + strings.Repeat(" ", 90000+1000*i) + " FROM system.local"
			for k := 0; k < n; k++ {
				f, err := cl.Call(int16(1+k%1000), &message.Query{Query: q, Options: &message.QueryOptions{Consistency: primitive.ConsistencyLevelOne}}, 20*time.Second)
				atomic.AddInt64(&asked, 1)
				if err != nil || f == nil {
					atomic.AddInt64(&none, 1)
					return
				}
				got := "?"
				if df, derr := rawcql.DecodeWith(j.Comp, f); derr == nil {
					if rr, ok := df.Body.Message.(*message.RowsResult); ok && rr.Metadata != nil && len(rr.Metadata.Columns) == 1 {
						got = rr.Metadata.Columns[0].Name
					} else {
						got = fmt.Sprintf("%T", df.Body.Message)
					}
				}
				if got != col {
					atomic.AddInt64(&wrong, 1)
					first.CompareAndSwap(nil, fmt.Sprintf("connection %d asked for column %q (request %d) and was answered with %q", i, col, k, got))
				}
			}
		}(i, col, cl)
	}
	wg.Wait()
	r.Eval(int(asked))
	r.Obs("together_requests", int(asked))
	r.NonTrivial("together/" + j.Comp)
	if none > 0 {
		r.Inconc(fmt.Sprintf("together/%s: %d connections got no reply", j.Comp, none))
	}
	if wrong > 0 {
		r.Violate(mon.Violation{Signature: "C13/compression/frame-not-decoded-as-this-connection-sent-it/" + j.Comp, Detail: fmt.Sprintf("8 connections negotiated %s and sent compressed system reads of ~100 KB at the same time; %d of %d were answered as if the connection had sent something else: %v", j.Comp, wrong, asked, first.Load()), Scenario: j.scenario()})
	}
}
