//go:build verif

// Package scen holds the scenario runners, one file per property family.
package scen

import (
	"fmt"
	"math/rand"
	"os"
	"runtime"
	"sort"
	"sync"
	"time"

	"verif/mon"
)

// Ctx is what a property runner gets.
type Ctx struct {
	Prop    string
	Tier    string // quick | thorough
	Seed    int64
	Shard   int
	NShards int
	R       *mon.Result
	Dir     string // /verif
	prog    *os.File
	pmu     sync.Mutex
	Replay  map[string]interface{} // non-nil when replaying a recorded scenario
}

func (c *Ctx) Quick() bool { return c.Tier != "thorough" }

// Pick returns q in the quick tier and t in the thorough tier.
func (c *Ctx) Pick(q, t int) int {
	if c.Quick() {
		return q
	}
	return t
}

// Mine reports whether scenario i belongs to this shard.
func (c *Ctx) Mine(i int) bool { return c.NShards <= 1 || i%c.NShards == c.Shard }

// Rng returns a PRNG determined by VERIF_SEED, the property and the scenario index.
func (c *Ctx) Rng(i int) *rand.Rand {
	h := int64(1469598103934665603)
	for _, b := range []byte(c.Prop) {
		h = (h ^ int64(b)) * 1099511628211
	}
	return rand.New(rand.NewSource(c.Seed*1000003 + h + int64(i)*7919))
}

// Step records that a scenario is starting (written before it runs so a crash names it).
func (c *Ctx) Step(format string, a ...interface{}) {
	if c.prog == nil {
		return
	}
	c.pmu.Lock()
	if os.Getenv("VERIF_MEM") != "" {
		var m runtime.MemStats
		runtime.ReadMemStats(&m)
		fmt.Fprintf(c.prog, "MEM heap=%dMB sys=%dMB goroutines=%d\n", m.HeapAlloc>>20, m.Sys>>20, runtime.NumGoroutine())
	}
	fmt.Fprintf(c.prog, "T %s\n", time.Now().Format("15:04:05.000"))
	fmt.Fprintf(c.prog, "START "+format+"\n", a...)
	c.pmu.Unlock()
}

func (c *Ctx) SetProgress(f *os.File) { c.prog = f }

// Parallel runs f(i) for i in [0,n) that belong to this shard on up to workers goroutines.
func (c *Ctx) Parallel(n, workers int, f func(i int)) {
	var wg sync.WaitGroup
	ch := make(chan int)
	for w := 0; w < workers; w++ {
		wg.Add(1)
		go func() {
			defer wg.Done()
			for i := range ch {
				f(i)
			}
		}()
	}
	for i := 0; i < n; i++ {
		if c.Mine(i) {
			ch <- i
		}
	}
	close(ch)
	wg.Wait()
}

// Runner is a property check.
type Runner struct {
	Prop    string
	Level   string // evidence level
	Rule    string // how cases are generated and what makes one non-trivial/distinct
	Shards  func(tier string) int
	Timeout func(tier string) time.Duration
	Run     func(c *Ctx)
	Race    bool // run the worker from the -race build
	Subproc bool // needs the plain cql-proxy binary
}

var registry = map[string]*Runner{}

func Register(r *Runner) { registry[r.Prop] = r }

func Get(prop string) *Runner { return registry[prop] }

func Props() []string {
	var out []string
	for k := range registry {
		out = append(out, k)
	}
	sort.Strings(out)
	return out
}

func shards(q, t int) func(string) int {
	return func(tier string) int {
		if tier == "thorough" {
			return t
		}
		return q
	}
}

func timeouts(q, t time.Duration) func(string) time.Duration {
	return func(tier string) time.Duration {
		if tier == "thorough" {
			return t
		}
		return q
	}
}
