//go:build verif

package scen

import (
	"fmt"
	"net"
	"sort"
	"strings"
	"sync/atomic"
	"time"

	"github.com/datastax/go-cassandra-native-protocol/message"
	"github.com/datastax/go-cassandra-native-protocol/primitive"

	"github.com/datastax/cql-proxy/proxycore"

	"verif/fakecass"
	"verif/model"
	"verif/mon"
	"verif/px"
)

// hostRemovedMidPlan: a request has made its first attempt (the answer is withheld) when another host leaves the cluster;
// then the answer - a retry-next error - arrives and the request walks on through the plan it was given before the removal.
// Whatever the removal does to the load balancer's host list, this traversal must still try every host that is (still) in
// the cluster exactly once, no host twice, and end with one reply: "each host is tried at most once per traversal ...
// a 'no more hosts' error exactly when every host has been tried".
func hostRemovedMidPlan(c *Ctx, idx int) {
	r := c.R
	hosts := 3 + idx%2
	rot := (idx / 2) % hosts        // how many plans are drawn before the request's own (varies its first host)
	pick := (idx / (2 * hosts)) % 3 // which of the removable hosts leaves
	okAt := 0                       // 0: every attempt fails (the whole plan is walked); n: the n-th arrival succeeds
	if idx%5 == 4 {
		okAt = hosts - 1 // the last host still in the cluster answers
	}
	key := fmt.Sprintf("host-removed-mid-plan/h%d/rot%d/pick%d/ok%d", hosts, rot, pick, okAt)
	scenario := map[string]interface{}{"kind": "host-removed-mid-plan", "idx": idx}
	c.Step("c05 %s", key)
	bed, err := px.NewBed(px.BedConfig{Hosts: hosts, NumConns: 1, Keyspaces: []string{"ks1"}, ReconnectBase: 20 * time.Millisecond, ReconnectMax: 50 * time.Millisecond, RefreshWindow: 20 * time.Millisecond})
	if err != nil {
		r.Inconc("host-removed-mid-plan: cannot start bed: " + err.Error())
		return
	}
	defer bed.Close()
	bed.OnHook(nil)
	tok := NewTok()
	bed.Cluster.SetScript(func(a *fakecass.Arrival) fakecass.Outcome {
		if a.Token != tok {
			return fakecass.Outcome{}
		}
		if okAt > 0 && a.N >= okAt {
			return fakecass.Rows()
		}
		o := fakecass.Err("Overloaded", &message.Overloaded{ErrorMessage: tok + " Overloaded"})
		o.Hold = a.N == 1
		return o
	})
	cl, err := bed.ReadyClient(primitive.ProtocolVersion4, "")
	if err != nil {
		r.Inconc("host-removed-mid-plan: handshake: " + err.Error())
		return
	}
	defer cl.Close()
	for i := 0; i < rot; i++ {
		if _, err := cl.CallF(BuildRequest(primitive.ProtocolVersion4, int16(50+i), KQuery, true, NewTok(), primitive.ConsistencyLevelOne), 10*time.Second); err != nil {
			r.Inconc("host-removed-mid-plan: warm-up: " + err.Error())
			return
		}
	}
	mark := bed.Log.Len()
	ch := cl.Expect(1)
	if err := cl.SendF(BuildRequest(primitive.ProtocolVersion4, 1, KQuery, true, tok, primitive.ConsistencyLevelOne)); err != nil {
		r.Inconc("host-removed-mid-plan: send: " + err.Error())
		return
	}
	if !waitFor(func() bool { return bed.Cluster.HeldCount() >= 1 }, 10*time.Second) {
		r.Inconc("host-removed-mid-plan: the first attempt did not reach a backend")
		return
	}
	first := 0
	if as := Traces(bed.Log.Snapshot()[mark:])[tok]; len(as) > 0 {
		first = as[0].Host
	}
	ctl := map[int]bool{}
	for _, x := range bed.Cluster.EstablishedControlConns() {
		ctl[x.Host.Idx] = true
	}
	var removable []int
	for h := 1; h <= hosts; h++ {
		if h != first && !ctl[h] { // a node does not announce its own departure, and the first host's answer is still needed
			removable = append(removable, h)
		}
	}
	if first == 0 || len(removable) == 0 {
		bed.Cluster.ReleaseHeld(nil)
		r.Inconc("host-removed-mid-plan: no host can be removed")
		return
	}
	gone := removable[pick%len(removable)]
	peersBefore := 0
	for _, x := range bed.Cluster.ControlConns() {
		peersBefore += x.PeersAnswered()
	}
	bed.Cluster.SetListed(gone, false)
	bed.Cluster.Emit(&message.TopologyChangeEvent{ChangeType: primitive.TopologyChangeTypeRemovedNode, Address: &primitive.Inet{Addr: net.ParseIP(bed.Cluster.HostIP(gone)), Port: int32(bed.Cluster.Port)}})
	refreshed := waitFor(func() bool {
		n := 0
		for _, x := range bed.Cluster.ControlConns() {
			n += x.PeersAnswered()
		}
		return n > peersBefore
	}, 10*time.Second)
	// the removal has been applied when the proxy has closed its pooled connection to the host
	applied := refreshed && waitFor(func() bool {
		for _, x := range bed.Cluster.Hosts[gone-1].Conns() {
			if !x.IsClosed() {
				return false
			}
		}
		return true
	}, 10*time.Second)
	bed.Cluster.ReleaseHeld(nil)
	reply, werr := cl.Wait(ch, 10*time.Second)
	r.Eval(1)
	r.Obs("host_removed_mid_plan_cases", 1)
	if !applied {
		r.Obs("host_removed_mid_plan_removal_not_observed", 1)
		return // nothing to judge: the plan was not walked across a removal
	}
	attempts := Traces(bed.Log.Snapshot()[mark:])[tok]
	seen := map[int]int{}
	var order []string
	for _, a := range attempts {
		seen[a.Host]++
		order = append(order, fmt.Sprint(a.Host))
	}
	r.NonTrivial(fmt.Sprintf("%s/first=%d/gone=%d", key, first, gone))
	detail := fmt.Sprintf("%d hosts, first attempt on host %d, host %d removed while its answer was withheld; hosts that received the request afterwards, in order: %s", hosts, first, gone, strings.Join(order, ","))
	if werr != nil || reply == nil {
		if ProgressSteps(cl, 50, 900) {
			r.Violate(mon.Violation{Signature: "C05/host-removed-mid-plan/no-reply", Detail: detail + "; the client never got a reply although it completed 50 further round trips", Scenario: scenario})
		} else {
			r.Inconc("host-removed-mid-plan: no reply and the client's OPTIONS round trips did not complete either")
		}
		return
	}
	var twice, missed []int
	for h := 1; h <= hosts; h++ {
		if seen[h] > 1 {
			twice = append(twice, h)
		}
		if h != gone && seen[h] == 0 && okAt == 0 {
			missed = append(missed, h)
		}
	}
	sort.Ints(twice)
	ri := replyInfo(reply)
	switch {
	case len(twice) > 0:
		r.Violate(mon.Violation{Signature: "C05/host-removed-mid-plan/host-tried-twice", Detail: fmt.Sprintf("%s: host(s) %v tried more than once in one traversal (answer to the client: %s)", detail, twice, ri.Kind), Scenario: scenario, Witness: attempts})
	case len(missed) > 0:
		r.Violate(mon.Violation{Signature: "C05/host-removed-mid-plan/live-host-never-tried", Detail: fmt.Sprintf("%s: host(s) %v are still in the cluster and healthy but were never tried; the client was answered %s %q", detail, missed, ri.Kind, ri.ErrMsg), Scenario: scenario, Witness: attempts})
	case okAt > 0 && ri.Kind != "Rows":
		r.Violate(mon.Violation{Signature: "C05/host-removed-mid-plan/not-failed-over-to-healthy-host", Detail: fmt.Sprintf("%s: a host in the plan answers successfully, but the client was answered %s %q", detail, ri.Kind, ri.ErrMsg), Scenario: scenario, Witness: attempts})
	}
	r.Obs("host_removed_mid_plan_outcome:"+strings.SplitN(ri.Kind, " ", 2)[0], 1)
}

// unpreparedAlongThePlan: an idempotent EXECUTE whose statement every host has forgotten. Each host it reaches answers
// UNPREPARED first (the proxy re-prepares and re-executes there, which is not a policy retry), then the scripted outcome:
// a retry-next error on the first hosts, rows on the last one. The traversal must still visit host after host, execute on
// each of them, and end with the rows: "fail over to healthy hosts ... an idempotent request succeeds whenever some host in
// its plan answers successfully".
func unpreparedAlongThePlan(c *Ctx, idx int) {
	r := c.R
	hosts := 2 + idx%3
	// the last three are retried once only (the policy counts): the re-prepare in front of them must not use that one retry up
	errs := []string{"Overloaded", "IsBootstrapping", "ServerError", "TruncateError", "Unavailable", "ReadTimeout", "WriteTimeoutBatchLog"}
	first := errs[idx%len(errs)]
	nErr := hosts - 1 // how many times the script answers with the error before a host answers rows
	if idx%len(errs) >= 4 {
		nErr = 1
	}
	key := fmt.Sprintf("unprepared-along-the-plan/h%d/%s", hosts, first)
	scenario := map[string]interface{}{"kind": "unprepared-along-the-plan", "idx": idx}
	c.Step("c05 %s", key)
	bed, err := px.NewBed(px.BedConfig{Hosts: hosts, NumConns: 1, Keyspaces: []string{"ks1"}, ReconnectBase: 20 * time.Millisecond, ReconnectMax: 50 * time.Millisecond})
	if err != nil {
		r.Inconc("unprepared-along-the-plan: cannot start bed: " + err.Error())
		return
	}
	defer bed.Close()
	bed.OnHook(nil)
	tok := NewTok()
	bed.Cluster.SetScript(func(a *fakecass.Arrival) fakecass.Outcome {
		if a.Token != tok {
			return fakecass.Outcome{}
		}
		if a.K > nErr { // the script is consulted once per execution (the automatic UNPREPARED answers do not consult it)
			return fakecass.Rows()
		}
		switch first {
		case "Unavailable":
			return fakecass.Err(first, &message.Unavailable{ErrorMessage: tok + " unavailable", Consistency: primitive.ConsistencyLevelQuorum, Required: 2, Alive: 1})
		case "ReadTimeout":
			return fakecass.Err(first, &message.ReadTimeout{ErrorMessage: tok + " read timeout", Consistency: primitive.ConsistencyLevelQuorum, Received: 2, BlockFor: 2, DataPresent: false})
		case "WriteTimeoutBatchLog":
			return fakecass.Err(first, &message.WriteTimeout{ErrorMessage: tok + " write timeout", Consistency: primitive.ConsistencyLevelQuorum, Received: 0, BlockFor: 2, WriteType: primitive.WriteTypeBatchLog})
		case "IsBootstrapping":
			return fakecass.Err(first, &message.IsBootstrapping{ErrorMessage: tok + " bootstrapping"})
		case "ServerError":
			return fakecass.Err(first, &message.ServerError{ErrorMessage: tok + " server error"})
		case "TruncateError":
			return fakecass.Err(first, &message.TruncateError{ErrorMessage: tok + " truncate error"})
		}
		return fakecass.Err(first, &message.Overloaded{ErrorMessage: tok + " overloaded"})
	})
	cl, err := bed.ReadyClient(primitive.ProtocolVersion4, []string{"", "lz4"}[idx%2])
	if err != nil {
		r.Inconc("unprepared-along-the-plan: handshake: " + err.Error())
		return
	}
	defer cl.Close()
	if err := PrepareStandard(bed, cl, true); err != nil {
		r.Inconc("unprepared-along-the-plan: prepare: " + err.Error())
		return
	}
	for _, h := range bed.Cluster.Hosts {
		h.Forget()
	}
	mark := bed.Log.Len()
	reply, werr := cl.CallF(BuildRequest(primitive.ProtocolVersion4, 1, KExecute, true, tok, primitive.ConsistencyLevelOne), 20*time.Second)
	r.Eval(1)
	r.Obs("unprepared_along_the_plan_cases", 1)
	attempts := Traces(bed.Log.Snapshot()[mark:])[tok]
	executed := map[int]bool{}
	unprep := 0
	for _, a := range attempts {
		if a.Outcome == "Unprepared" {
			unprep++
		} else if a.Outcome != "" {
			executed[a.Host] = true
		}
	}
	if unprep >= 2 || (unprep >= 1 && nErr == 1) {
		r.NonTrivial(key)
	}
	if werr != nil || reply == nil {
		r.Violate(mon.Violation{Signature: "C05/unprepared-along-the-plan/no-reply", Detail: fmt.Sprintf("%d hosts, all without the statement, the first %d execution(s) answered %s after the re-prepare: no reply (attempts %s)", hosts, nErr, first, describe(attempts)), Scenario: scenario, Witness: attempts})
		return
	}
	ri := replyInfoComp([]string{"", "lz4"}[idx%2], reply)
	if ri.Kind != "Rows" || ri.Tok != tok {
		r.Violate(mon.Violation{Signature: "C05/unprepared-along-the-plan/not-failed-over-to-healthy-host/" + first, Detail: fmt.Sprintf("%d hosts, all without the statement (it is in the proxy's prepared cache); the first %d execution(s) are answered %s once re-prepared, the next would be answered with rows and the policy prescribes another attempt: the client got %s %q; the request was executed on %d host(s) (attempts %s)", hosts, nErr, first, ri.Kind, ri.ErrMsg, len(executed), describe(attempts)), Scenario: scenario, Witness: attempts})
	}
}

// connLostDuringReprepare: an EXECUTE reaches a host that has forgotten the statement, is answered UNPREPARED, and the
// connection is lost while the proxy's own PREPARE is in flight there (step two of the three-step re-prepare). That is a
// connection loss like any other: the idempotent request moves on to the next host and ends with its rows, the
// non-idempotent one is not sent anywhere else and the client receives the connection-lost error.
func connLostDuringReprepare(c *Ctx, idx int) {
	r := c.R
	hosts := 2 + idx%3
	idem := idx%2 == 0
	kind := KExecute // (the standard BATCH carries no prepared child: nothing would be re-prepared)
	key := fmt.Sprintf("conn-lost-during-reprepare/h%d/idem=%v/%v", hosts, idem, kind)
	scenario := map[string]interface{}{"kind": "conn-lost-during-reprepare", "idx": idx}
	c.Step("c05 %s", key)
	bed, err := px.NewBed(px.BedConfig{Hosts: hosts, NumConns: 1, Keyspaces: []string{"ks1"}, ReconnectBase: 20 * time.Millisecond, ReconnectMax: 50 * time.Millisecond})
	if err != nil {
		r.Inconc("conn-lost-during-reprepare: cannot start bed: " + err.Error())
		return
	}
	defer bed.Close()
	bed.OnHook(nil)
	dropped := int32(1) // armed (set to 0) once the client's own PREPAREs are through
	bed.Cluster.SetScript(func(a *fakecass.Arrival) fakecass.Outcome {
		// the first re-prepare (a PREPARE of a standard statement carries no token) loses its connection unanswered
		if a.OpCode == primitive.OpCodePrepare && a.N == 0 && atomic.CompareAndSwapInt32(&dropped, 0, 1) {
			o := fakecass.DropBefore()
			o.Name = "ConnLost"
			return o
		}
		return fakecass.Outcome{}
	})
	cl, err := bed.ReadyClient(primitive.ProtocolVersion4, []string{"", "lz4"}[(idx/2)%2])
	if err != nil {
		r.Inconc("conn-lost-during-reprepare: handshake: " + err.Error())
		return
	}
	defer cl.Close()
	if err := PrepareStandard(bed, cl, true); err != nil {
		r.Inconc("conn-lost-during-reprepare: prepare: " + err.Error())
		return
	}
	atomic.StoreInt32(&dropped, 0)
	for _, h := range bed.Cluster.Hosts {
		h.Forget()
	}
	tok := NewTok()
	mark := bed.Log.Len()
	reply, werr := cl.CallF(BuildRequest(primitive.ProtocolVersion4, 1, kind, idem, tok, primitive.ConsistencyLevelOne), 20*time.Second)
	r.Eval(1)
	r.Obs("conn_lost_during_reprepare_cases", 1)
	attempts := Traces(bed.Log.Snapshot()[mark:])[tok]
	reached := map[int]bool{}
	for _, a := range attempts {
		reached[a.Host] = true
	}
	if atomic.LoadInt32(&dropped) == 1 {
		r.NonTrivial(key)
	} else {
		r.Obs("conn_lost_during_reprepare_without_reprepare", 1)
		return
	}
	if werr != nil || reply == nil {
		r.Violate(mon.Violation{Signature: "C05/conn-lost-during-reprepare/no-reply", Detail: fmt.Sprintf("%s: no reply (attempts %s)", key, describe(attempts)), Scenario: scenario, Witness: attempts})
		return
	}
	ri := replyInfoComp([]string{"", "lz4"}[(idx/2)%2], reply)
	switch {
	case idem && (ri.Kind != "Rows" && !strings.HasPrefix(ri.Kind, "Void") || len(reached) < 2):
		r.Violate(mon.Violation{Signature: "C05/conn-lost-during-reprepare/idempotent-not-failed-over", Detail: fmt.Sprintf("%s: the connection was lost while the proxy re-prepared the statement on the first host; the other host(s) are healthy and the policy prescribes the next host for an idempotent request: the client got %s %q after reaching %d host(s) (attempts %s)", key, ri.Kind, ri.ErrMsg, len(reached), describe(attempts)), Scenario: scenario, Witness: tail(bed.Log.Snapshot()[mark:], 80)})
	case !idem && len(reached) > 1:
		r.Violate(mon.Violation{Signature: "C05/conn-lost-during-reprepare/non-idempotent-sent-to-another-host", Detail: fmt.Sprintf("%s: the connection was lost while the proxy re-prepared the statement on the first host; the policy prescribes no retry after a connection loss for a request that is not idempotent, but it reached %d hosts and the client got %s %q (attempts %s)", key, len(reached), ri.Kind, ri.ErrMsg, describe(attempts)), Scenario: scenario, Witness: attempts})
	case !idem && !strings.HasPrefix(ri.Kind, "Error"):
		r.Violate(mon.Violation{Signature: "C05/conn-lost-during-reprepare/non-idempotent-answered-without-error", Detail: fmt.Sprintf("%s: the client got %s although its only attempt lost its connection (attempts %s)", key, ri.Kind, describe(attempts)), Scenario: scenario, Witness: attempts})
	}
	r.Obs("conn_lost_during_reprepare_outcome:"+strings.SplitN(ri.Kind, " ", 2)[0], 1)
}

// planAcrossCounterWrap: the load balancer's plan counter is preset (tag-guarded knob) just below 2^32 and just below 2^64,
// the places where a narrower or wrapping counter shows; then idempotent requests whose every attempt fails walk their whole
// plan: every host exactly once, then the last error - and a request that some host would answer gets its rows.
func planAcrossCounterWrap(c *Ctx, idx int) {
	r := c.R
	hosts := 3 + 2*(idx%2) // 3 or 5: not powers of two
	preset := []uint64{1<<32 - 4, 1<<64 - 4, 1<<33 - 3, 1<<31 - 2}[(idx/2)%4]
	key := fmt.Sprintf("plan-across-counter-wrap/h%d/preset=%#x", hosts, preset)
	scenario := map[string]interface{}{"kind": "plan-across-counter-wrap", "idx": idx}
	c.Step("c05 %s", key)
	bed, err := px.NewBed(px.BedConfig{Hosts: hosts, NumConns: 1, Keyspaces: []string{"ks1"}})
	if err != nil {
		r.Inconc("plan-across-counter-wrap: cannot start bed: " + err.Error())
		return
	}
	defer bed.Close()
	bed.OnHook(nil)
	if !proxycore.VerifSetPlanCounter(bed.Proxy.VerifLoadBalancer(), preset) {
		r.Inconc("plan-across-counter-wrap: VerifSetPlanCounter does not recognise the load balancer")
		return
	}
	scripts := NewScripts()
	bed.Cluster.SetScript(scripts.Func())
	cl, err := bed.ReadyClient(primitive.ProtocolVersion4, "")
	if err != nil {
		r.Inconc("plan-across-counter-wrap: handshake: " + err.Error())
		return
	}
	defer cl.Close()
	for k := 0; k < 10; k++ {
		tok := NewTok()
		seq := make([]model.Outcome, hosts+2)
		for i := range seq {
			seq[i] = model.Overloaded
		}
		healthyAt := -1
		if k%2 == 1 {
			healthyAt = hosts - 1 // the last host of the traversal answers
			seq[healthyAt] = model.Rows
		}
		scripts.Set(tok, seq)
		mark := bed.Log.Len()
		reply, werr := cl.CallF(BuildRequest(primitive.ProtocolVersion4, int16(k+1), KQuery, true, tok, primitive.ConsistencyLevelOne), 15*time.Second)
		attempts := Traces(bed.Log.Snapshot()[mark:])[tok]
		r.Eval(1)
		r.Obs("plan_across_counter_wrap_requests", 1)
		seen := map[int]int{}
		var order []string
		for _, a := range attempts {
			seen[a.Host]++
			order = append(order, fmt.Sprint(a.Host))
		}
		var twice, missed []int
		for h := 1; h <= hosts; h++ {
			if seen[h] > 1 {
				twice = append(twice, h)
			}
			if seen[h] == 0 {
				missed = append(missed, h)
			}
		}
		detail := fmt.Sprintf("%d hosts, plan counter preset to %#x, request #%d after the preset: hosts tried, in order: %s", hosts, preset, k, strings.Join(order, ","))
		if werr != nil || reply == nil {
			r.Violate(mon.Violation{Signature: "C05/plan-across-counter-wrap/no-reply", Detail: detail, Scenario: scenario})
			return
		}
		ri := replyInfo(reply)
		switch {
		case len(twice) > 0:
			r.Violate(mon.Violation{Signature: "C05/plan-across-counter-wrap/host-tried-twice", Detail: fmt.Sprintf("%s: host(s) %v tried more than once in one traversal (answer: %s)", detail, twice, ri.Kind), Scenario: scenario, Witness: attempts})
			return
		case len(missed) > 0:
			r.Violate(mon.Violation{Signature: "C05/plan-across-counter-wrap/host-never-tried", Detail: fmt.Sprintf("%s: host(s) %v never tried although every attempt failed with a retry-next error; answer %s %q", detail, missed, ri.Kind, ri.ErrMsg), Scenario: scenario, Witness: attempts})
			return
		case healthyAt >= 0 && ri.Kind != "Rows":
			r.Violate(mon.Violation{Signature: "C05/plan-across-counter-wrap/not-failed-over-to-healthy-host", Detail: fmt.Sprintf("%s: the last host of the plan answers rows, the client got %s %q", detail, ri.Kind, ri.ErrMsg), Scenario: scenario, Witness: attempts})
			return
		}
	}
	r.NonTrivial(key)
}

func tail(evs []mon.Event, n int) []mon.Event {
	if len(evs) > n {
		return evs[len(evs)-n:]
	}
	return evs
}
