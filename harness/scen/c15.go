//go:build verif

package scen

// C15 — query plans of the round-robin load balancer.
//
// Driven through the public API only: NewRoundRobinLoadBalancer, OnEvent(Bootstrap/Add/Remove), NewQueryPlan, Next
// (plus the tag-guarded VerifSetPlanCounter for the counter-wrap part). The oracle is a set model kept by the harness:
// an ordered list of host indices (bootstrap order, adds appended, removes delete) that never looks at the code under
// test.
//
//  part 1  sequential, exhaustive: every well-formed event history over <= 5 hosts up to a bounded length, with plans
//          created at every point and consumed immediately / held across 1..k events / partially consumed and resumed;
//          plus longer PRNG histories with the fresh-plan oracle after every event.
//  part 2  the same oracle with the plan counter preset just below 2^32 (and, thorough, 2^32+10 real calls).
//  part 3  8 goroutines creating/consuming plans while one applies events; the history (call/return = mon.Tick()) is
//          checked with porcupine against the sequential set model.

import (
	"crypto/tls"
	"fmt"
	"hash/fnv"
	"math/rand"
	"runtime"
	"runtime/debug"
	"sort"
	"strings"
	"sync"
	"sync/atomic"
	"time"

	"github.com/anishathalye/porcupine"
	"github.com/datastax/cql-proxy/proxycore"

	"verif/mon"
)

const c15N = 5 // host universe

var (
	c15Hosts [c15N]*proxycore.Host
	c15Index = map[string]int{}
)

func init() {
	for i := range c15Hosts {
		addr := fmt.Sprintf("127.0.0.%d:9042", i+1)
		c15Hosts[i] = &proxycore.Host{Endpoint: proxycore.NewEndpoint(addr), DC: "dc1"}
		c15Index[addr] = i
	}
	Register(&Runner{Prop: "C15", Level: "exploration",
		Rule:    "(1) every well-formed host-event history (Bootstrap of a prefix list of 0-5 hosts, then Add of an absent host / Remove of a present or absent host) over 5 hosts up to length 7 (quick) / 9 (thorough) events, one check per history prefix: plans created at every earlier point and held (untouched, or partially consumed and advanced one step per event) until the end, then a run of 2n+1 fresh plans consumed immediately; a duplicate Add is appended to every history for 'no panic' only; plus PRNG histories of 10-40 events with the fresh-plan oracle after every event. (2) plan counter preset to 2^32-k (k=1..8) x 1-5 hosts; thorough also reaches the wrap with 2^32+10 real NewQueryPlan calls on 3 hosts. (3) PRNG concurrent histories (1 event goroutine, 8 plan goroutines, <= 60 operations) checked for linearizability with porcupine against the set model. distinct = event history (sequential) / hash of the event history (concurrent); non-trivial = >= 1 removal of a present host and a plan held across an event.",
		Shards:  shards(8, 16),
		Timeout: timeouts(6*time.Minute, 45*time.Minute),
		Race:    false,
		Run:     runC15})
}

// c15SNIEndpoint is an endpoint as Astra bundles produce them: every host sits behind the same SNI proxy address and is
// told apart by its key only.
type c15SNIEndpoint struct{ key string }

func (e c15SNIEndpoint) String() string         { return "sni-proxy.invalid:29042:" + e.key }
func (e c15SNIEndpoint) Addr() string           { return "sni-proxy.invalid:29042" }
func (e c15SNIEndpoint) IsResolved() bool       { return false }
func (e c15SNIEndpoint) TLSConfig() *tls.Config { return nil }
func (e c15SNIEndpoint) Key() string            { return e.key }

// c15UseSNIEndpoints rebuilds the host universe with SNI-proxy endpoints (same Addr, distinct Key).
func c15UseSNIEndpoints() {
	c15Index = map[string]int{}
	for i := range c15Hosts {
		key := fmt.Sprintf("sni-proxy.invalid:29042:host-id-%d", i+1)
		c15Hosts[i] = &proxycore.Host{Endpoint: c15SNIEndpoint{key}, DC: "dc1"}
		c15Index[key] = i
	}
}

// ---------------------------------------------------------------------------------------------------------------------
// histories and the set model

type c15Ev struct {
	Add bool `json:"add"`
	H   int  `json:"h"`
}

type c15Hist struct {
	Boot int     `json:"boot"` // bootstrap with hosts 0..Boot-1 in that order
	Evs  []c15Ev `json:"evs"`
}

func (h c15Hist) String() string {
	var sb strings.Builder
	fmt.Fprintf(&sb, "B%d", h.Boot)
	for _, e := range h.Evs {
		if e.Add {
			fmt.Fprintf(&sb, " +h%d", e.H)
		} else {
			fmt.Fprintf(&sb, " -h%d", e.H)
		}
	}
	return sb.String()
}

func (h c15Hist) scenario() map[string]interface{} {
	evs := make([]interface{}, len(h.Evs))
	for i, e := range h.Evs {
		evs[i] = map[string]interface{}{"add": e.Add, "h": e.H}
	}
	return map[string]interface{}{"kind": "seq", "boot": h.Boot, "evs": evs}
}

// c15Model is the reference: an ordered list of present host indices.
type c15Model struct{ list []int }

func (m *c15Model) has(h int) bool {
	for _, x := range m.list {
		if x == h {
			return true
		}
	}
	return false
}

// apply returns the kind of the event relative to the model: add, add-duplicate, remove-present, remove-absent.
func (m *c15Model) apply(e c15Ev) string {
	if e.Add {
		if m.has(e.H) {
			return "add-duplicate"
		}
		m.list = append(m.list, e.H)
		return "add"
	}
	for i, x := range m.list {
		if x == e.H {
			m.list = append(append([]int{}, m.list[:i]...), m.list[i+1:]...)
			return "remove-present"
		}
	}
	return "remove-absent"
}

func c15Event(e c15Ev) proxycore.Event {
	if e.Add {
		return &proxycore.AddEvent{Host: c15Hosts[e.H]}
	}
	return &proxycore.RemoveEvent{Host: c15Hosts[e.H]}
}

func c15Bootstrap(lb proxycore.LoadBalancer, idx []int) {
	hosts := make([]*proxycore.Host, len(idx)) // a fresh slice each time: the harness never touches it again
	for i, h := range idx {
		hosts[i] = c15Hosts[h]
	}
	lb.OnEvent(&proxycore.BootstrapEvent{Hosts: hosts})
}

func c15HostIndex(h *proxycore.Host) int {
	if h == nil || h.Endpoint == nil {
		return -1
	}
	if i, ok := c15Index[h.Key()]; ok {
		return i
	}
	return -1
}

// c15Drain calls Next until it returns nil (or `limit` hosts were returned), then `extra` more times.
// It returns the hosts in order (index, -1 = not a host the harness ever announced), whether the plan was still
// yielding after `limit` hosts, and whether a non-nil host came back after the first nil.
func c15Drain(p proxycore.QueryPlan, have []int, limit, extra int) (seq []int, endless, afterNil bool) {
	seq = have
	for {
		h := p.Next()
		if h == nil {
			break
		}
		seq = append(seq, c15HostIndex(h))
		if len(seq) >= limit {
			endless = true
			break
		}
	}
	for i := 0; i < extra; i++ {
		if p.Next() != nil {
			afterNil = true
		}
	}
	return
}

func c15HasDup(seq []int) bool {
	var seen uint32
	for _, h := range seq {
		if h < 0 {
			continue
		}
		if seen&(1<<uint(h)) != 0 {
			return true
		}
		seen |= 1 << uint(h)
	}
	return false
}

func c15Mask(seq []int) (m uint8, unknown bool) {
	for _, h := range seq {
		if h < 0 || h >= c15N {
			unknown = true
			continue
		}
		m |= 1 << uint(h)
	}
	return
}

// c15JudgeFresh compares what a fresh plan yielded with the model's current set. "" = as the property demands.
func c15JudgeFresh(seq []int, model []int, endless, afterNil bool) string {
	if c15HasDup(seq) {
		return "plan-duplicate-host"
	}
	got, unknown := c15Mask(seq)
	want, _ := c15Mask(model)
	switch {
	case unknown:
		return "plan-unknown-host"
	case got&^want != 0:
		return "plan-yields-absent-host"
	case want&^got != 0:
		return "plan-missing-host"
	case endless || afterNil:
		return "plan-not-exhausted"
	}
	return ""
}

func c15Names(seq []int) string {
	parts := make([]string, len(seq))
	for i, h := range seq {
		if h < 0 {
			parts[i] = "?"
		} else {
			parts[i] = fmt.Sprintf("h%d", h)
		}
	}
	return "[" + strings.Join(parts, " ") + "]"
}

// c15Balanced is the order-free form of "consecutive plans start at consecutive hosts": over a run of first choices
// with stable membership of n hosts every window has per-host counts that differ by at most one. For runs of at
// least n plans that is equivalent to: the first n are distinct members and the sequence has period n.
func c15Balanced(first []int, model []int) bool {
	n := len(model)
	if n == 0 {
		return true
	}
	want, _ := c15Mask(model)
	var seen uint8
	for i, f := range first {
		if f < 0 || want&(1<<uint(f)) == 0 {
			return false
		}
		if i < n {
			if seen&(1<<uint(f)) != 0 {
				return false
			}
			seen |= 1 << uint(f)
		} else if first[i-n] != f {
			return false
		}
	}
	return true
}

// c15ModelOrder reports whether the first choices follow the model's list order (observation only).
func c15ModelOrder(first []int, model []int) bool {
	n := len(model)
	if n == 0 || len(first) == 0 {
		return true
	}
	pos := -1
	for i, h := range model {
		if h == first[0] {
			pos = i
		}
	}
	if pos < 0 {
		return false
	}
	for i, f := range first {
		if model[(pos+i)%n] != f {
			return false
		}
	}
	return true
}

// ---------------------------------------------------------------------------------------------------------------------
// shared reporter (keeps witnesses cheap when a broken implementation fails millions of cases)

type c15Rep struct {
	c    *Ctx
	mu   sync.Mutex
	seen map[string]int
}

func (p *c15Rep) violate(sig string, mk func() mon.Violation) {
	p.mu.Lock()
	n := p.seen[sig]
	p.seen[sig] = n + 1
	p.mu.Unlock()
	if n < 3 {
		v := mk()
		v.Signature = sig
		p.c.R.Violate(v)
	} else {
		p.c.R.Obs("violation:"+sig, 1)
	}
}

// ---------------------------------------------------------------------------------------------------------------------
// part 1: one sequential history

type c15Held struct {
	plan    proxycore.QueryPlan
	point   int   // created after this many events
	partial bool  // consumed a little at creation and one step per later event
	seq     []int // what it yielded so far
	created []int // model list at creation
}

type c15SeqStats struct {
	fresh, held, partial, heldRemoved, heldMissed, orderDiffers int
}

// c15RunSeq replays one history on a new load balancer. Plans are created at every point before the end and held;
// after the last event they are all drained and a run of fresh plans is checked against the model. With everyPoint
// the fresh-plan run is checked after every event as well. dupTail >= 0 appends a duplicate Add for "no panic" only.
func c15RunSeq(rep *c15Rep, h c15Hist, everyPoint bool, dupTail int, st *c15SeqStats) {
	stage := "NewRoundRobinLoadBalancer"
	defer func() {
		if x := recover(); x != nil {
			rep.violate("C15/panic/"+stage, func() mon.Violation { // still inside the deferred call: the stack is the panic's
				return mon.Violation{Detail: fmt.Sprintf("history %s: panic in %s: %v", h, stage, x), Scenario: h.scenario(), Witness: string(debug.Stack())}
			})
		}
	}()
	lb := proxycore.NewRoundRobinLoadBalancer()
	m := &c15Model{}
	for i := 0; i < h.Boot; i++ {
		m.list = append(m.list, i)
	}
	stage = "OnEvent-bootstrap"
	c15Bootstrap(lb, m.list)
	last := "bootstrap"

	var held []*c15Held
	hold := func(point int) {
		stage = "NewQueryPlan"
		a := &c15Held{plan: lb.NewQueryPlan(), point: point, created: m.list}
		b := &c15Held{plan: lb.NewQueryPlan(), point: point, created: m.list, partial: true}
		stage = "Next-held-plan"
		for k := 0; k <= point%3; k++ {
			if x := b.plan.Next(); x != nil {
				b.seq = append(b.seq, c15HostIndex(x))
			}
		}
		held = append(held, a, b)
	}
	freshRun := func() {
		n := len(m.list)
		runLen := 2*n + 1
		if runLen < 3 {
			runLen = 3
		}
		first := make([]int, 0, runLen)
		rotation := true
		for j := 0; j < runLen; j++ {
			stage = "NewQueryPlan"
			p := lb.NewQueryPlan()
			stage = "Next-fresh-plan"
			seq, endless, afterNil := c15Drain(p, nil, c15N+3, 3)
			st.fresh++
			if bad := c15JudgeFresh(seq, m.list, endless, afterNil); bad != "" {
				model := m.list
				rep.violate(fmt.Sprintf("C15/%s/fresh/after-%s", bad, last), func() mon.Violation {
					return mon.Violation{Detail: fmt.Sprintf("history %s: a new plan yielded %s (still yielding after %d hosts: %v, host after nil: %v); the cluster is %s", h, c15Names(seq), c15N+3, endless, afterNil, c15Names(model)),
						Scenario: h.scenario(), Witness: map[string]interface{}{"plan": c15Names(seq), "model": c15Names(model), "plan_number_in_run": j}}
				})
				return
			}
			if n > 0 {
				first = append(first, seq[0])
				if !c15ModelOrder(seq, m.list) { // is the whole plan the model list rotated? (observation)
					rotation = false
				}
			}
		}
		if !c15Balanced(first, m.list) {
			model := m.list
			rep.violate(fmt.Sprintf("C15/first-choice-imbalance/after-%s", last), func() mon.Violation {
				return mon.Violation{Detail: fmt.Sprintf("history %s: %d consecutive new plans with stable membership %s started at %s — some window has per-host first-choice counts that differ by more than one", h, len(first), c15Names(model), c15Names(first)),
					Scenario: h.scenario(), Witness: map[string]interface{}{"first_choices": c15Names(first), "model": c15Names(model)}}
			})
			return
		}
		if !rotation || !c15ModelOrder(first, m.list) {
			st.orderDiffers++
		}
	}

	for i, e := range h.Evs {
		hold(i)
		stage = "OnEvent-remove"
		if e.Add {
			stage = "OnEvent-add"
		}
		lb.OnEvent(c15Event(e))
		last = m.apply(e)
		stage = "Next-held-plan"
		for _, hp := range held {
			if hp.partial {
				if x := hp.plan.Next(); x != nil {
					hp.seq = append(hp.seq, c15HostIndex(x))
				}
			}
		}
		if everyPoint && i < len(h.Evs)-1 {
			freshRun()
		}
	}
	// drain everything that was held
	now, _ := c15Mask(m.list)
	for _, hp := range held {
		stage = "Next-held-plan"
		seq, _, _ := c15Drain(hp.plan, hp.seq, 3*c15N, 3)
		if hp.partial {
			st.partial++
		} else {
			st.held++
		}
		if c15HasDup(seq) {
			kind := "held"
			if hp.partial {
				kind = "held-partially-consumed"
			}
			point := hp.point
			rep.violate(fmt.Sprintf("C15/plan-duplicate-host/%s", kind), func() mon.Violation {
				return mon.Violation{Detail: fmt.Sprintf("history %s: a plan created after %d events and drained after all of them yielded %s", h, point, c15Names(seq)),
					Scenario: h.scenario(), Witness: map[string]interface{}{"plan": c15Names(seq), "created_after_events": point, "cluster_at_creation": c15Names(hp.created)}}
			})
			continue
		}
		got, _ := c15Mask(seq)
		was, _ := c15Mask(hp.created)
		if got&^now != 0 {
			st.heldRemoved++ // allowed: a held plan may still name a removed host
		}
		if now&^got&^was != 0 {
			st.heldMissed++ // allowed: a held plan may miss a host added later
		}
	}
	freshRun()

	if dupTail >= 0 && len(m.list) > 0 {
		// duplicate Add: the property promises nothing but "no crash"
		stage = "duplicate-add"
		d := m.list[dupTail%len(m.list)]
		lb.OnEvent(&proxycore.AddEvent{Host: c15Hosts[d]})
		p1, p2 := lb.NewQueryPlan(), lb.NewQueryPlan()
		c15Drain(p1, nil, 3*c15N, 2)
		lb.OnEvent(&proxycore.RemoveEvent{Host: c15Hosts[d]})
		c15Drain(p2, nil, 3*c15N, 2)
		c15Drain(lb.NewQueryPlan(), nil, 3*c15N, 2)
	}
}

// c15Count is the number of history prefixes (nodes) with `steps` more events from a state with p present hosts.
func c15Count(steps, p int, memo map[[2]int]int64) int64 {
	if steps == 0 {
		return 1
	}
	k := [2]int{steps, p}
	if v, ok := memo[k]; ok {
		return v
	}
	n := int64(1)
	if p > 0 {
		n += int64(p) * c15Count(steps-1, p-1, memo) // remove a present host
	}
	if p < c15N {
		n += int64(c15N-p) * c15Count(steps-1, p+1, memo) // add an absent host
		n += int64(c15N-p) * c15Count(steps-1, p, memo)   // remove an absent host
	}
	memo[k] = n
	return n
}

type c15Walk struct {
	c        *Ctx
	rep      *c15Rep
	mine     func(int) bool
	maxSteps int
	small    int // running index of nodes above the split depth
	sub      int // running index of subtrees at the split depth
	done     int
	st       c15SeqStats
	keyEvery int
}

const c15Split = 3

func (w *c15Walk) node(boot int, evs []c15Ev, present uint8, removals int, owned int) {
	depth := len(evs)
	process := owned == 1
	switch {
	case depth < c15Split:
		process = w.mine(w.small)
		w.small++
	case depth == c15Split:
		process = w.mine(w.sub)
		w.sub++
		owned = 0
		if process {
			owned = 1
		}
	}
	if depth >= c15Split && owned != 1 {
		return
	}
	if process {
		h := c15Hist{Boot: boot, Evs: evs}
		if w.done%4096 == 0 {
			w.c.Step("seq %s", h)
		}
		c15RunSeq(w.rep, h, false, w.done, &w.st)
		w.done++
		if removals > 0 && depth >= 1 {
			w.c.R.Obs("seq_nontrivial_histories", 1)
			if w.done%w.keyEvery == 0 {
				w.c.R.NonTrivial("seq:" + h.String())
			}
		}
		if w.done%200003 == 1 {
			w.c.R.Sample(map[string]interface{}{"part": "sequential", "history": h.String()})
		}
	}
	if depth == w.maxSteps {
		return
	}
	for hst := 0; hst < c15N; hst++ {
		bit := uint8(1) << uint(hst)
		if present&bit != 0 {
			w.node(boot, append(evs, c15Ev{false, hst}), present&^bit, removals+1, owned)
		} else {
			w.node(boot, append(evs, c15Ev{true, hst}), present|bit, removals, owned)
			w.node(boot, append(evs, c15Ev{false, hst}), present, removals, owned)
		}
	}
}

func (w *c15Walk) flush() {
	r := w.c.R
	r.Eval(w.done)
	r.Obs("seq_histories", w.done)
	r.Obs("seq_fresh_plans", w.st.fresh)
	r.Obs("seq_held_plans", w.st.held)
	r.Obs("seq_partially_consumed_plans", w.st.partial)
	r.Obs("held_plan_yielded_removed_host(allowed)", w.st.heldRemoved)
	r.Obs("held_plan_missed_added_host(allowed)", w.st.heldMissed)
	r.Obs("plan_order_differs_from_model_rotation(allowed)", w.st.orderDiffers)
}

func c15RandomHist(rng *rand.Rand) c15Hist {
	h := c15Hist{Boot: rng.Intn(c15N + 1)}
	present := uint8(1)<<uint(h.Boot) - 1
	n := 10 + rng.Intn(31)
	for i := 0; i < n; i++ {
		x := rng.Intn(c15N)
		bit := uint8(1) << uint(x)
		switch {
		case present&bit != 0:
			h.Evs = append(h.Evs, c15Ev{false, x})
			present &^= bit
		case rng.Intn(4) == 0:
			h.Evs = append(h.Evs, c15Ev{false, x}) // remove of an absent host
		default:
			h.Evs = append(h.Evs, c15Ev{true, x})
			present |= bit
		}
	}
	return h
}

// ---------------------------------------------------------------------------------------------------------------------
// part 2: the plan counter near 2^32

func c15CheckWrapRun(rep *c15Rep, lb proxycore.LoadBalancer, n int, plans int, how string, scen map[string]interface{}, heldFirst bool) (checked int) {
	model := make([]int, n)
	for i := range model {
		model[i] = i
	}
	stage := "NewQueryPlan"
	defer func() {
		if x := recover(); x != nil {
			rep.violate(fmt.Sprintf("C15/panic/counter-wrap/%s", stage), func() mon.Violation {
				return mon.Violation{Detail: fmt.Sprintf("%s, %d hosts: panic in %s: %v", how, n, stage, x), Scenario: scen, Witness: string(debug.Stack())}
			})
		}
	}()
	var ps []proxycore.QueryPlan
	if heldFirst {
		for j := 0; j < plans; j++ {
			ps = append(ps, lb.NewQueryPlan())
		}
	}
	var first []int
	var all []string
	bad := ""
	for j := 0; j < plans; j++ {
		var p proxycore.QueryPlan
		if heldFirst {
			p = ps[j]
		} else {
			stage = "NewQueryPlan"
			p = lb.NewQueryPlan()
		}
		stage = "Next"
		seq, endless, afterNil := c15Drain(p, nil, c15N+3, 3)
		checked++
		all = append(all, c15Names(seq))
		if len(seq) > 0 {
			first = append(first, seq[0])
		}
		if b := c15JudgeFresh(seq, model, endless, afterNil); b != "" && bad == "" {
			bad = b
		}
	}
	if bad != "" {
		rep.violate(fmt.Sprintf("C15/%s/counter-wrap/hosts=%d", bad, n), func() mon.Violation {
			return mon.Violation{Detail: fmt.Sprintf("%s, cluster %s with stable membership: the consecutive new plans were %s — every plan must name every host exactly once", how, c15Names(model), strings.Join(all, " ")),
				Scenario: scen, Witness: map[string]interface{}{"plans": all, "model": c15Names(model)}}
		})
	}
	if len(first) == plans && !c15Balanced(first, model) {
		rep.violate(fmt.Sprintf("C15/first-choice-imbalance/counter-wrap/hosts=%d", n), func() mon.Violation {
			return mon.Violation{Detail: fmt.Sprintf("%s, cluster %s with stable membership: consecutive new plans started at %s — some window has per-host first-choice counts that differ by more than one", how, c15Names(model), c15Names(first)),
				Scenario: scen, Witness: map[string]interface{}{"first_choices": c15Names(first), "plans": all}}
		})
	}
	return
}

func c15WrapPreset(c *Ctx, rep *c15Rep, n, k int, heldFirst bool) {
	lb := proxycore.NewRoundRobinLoadBalancer()
	model := make([]int, n)
	for i := range model {
		model[i] = i
	}
	c15Bootstrap(lb, model)
	preset := uint64(1)<<32 - uint64(k) // 2^32 - k
	if !proxycore.VerifSetPlanCounter(lb, preset) {
		c.R.Inconc("VerifSetPlanCounter does not recognise the load balancer")
		return
	}
	scen := map[string]interface{}{"kind": "wrap", "hosts": n, "k": k, "held": heldFirst}
	how := fmt.Sprintf("plan counter preset to 2^32-%d", k)
	if heldFirst {
		how += " (all plans created first, consumed afterwards)"
	}
	checked := c15CheckWrapRun(rep, lb, n, k+2*n+2, how, scen, heldFirst)
	c.R.Eval(1)
	c.R.Obs("wrap_preset_cases", 1)
	c.R.Obs("wrap_plans_checked", checked)
	c.R.NonTrivial(fmt.Sprintf("wrap:hosts=%d/k=%d/held=%v", n, k, heldFirst))
}

// c15WrapReal reaches the wrap without any hook: 2^32+10 real NewQueryPlan calls on 3 hosts.
func c15WrapReal(c *Ctx, rep *c15Rep, n int) {
	c.Step("wrap-real hosts=%d", n)
	lb := proxycore.NewRoundRobinLoadBalancer()
	model := make([]int, n)
	for i := range model {
		model[i] = i
	}
	c15Bootstrap(lb, model)
	const before = 10
	blind := uint64(1)<<32 - before
	var made uint64
	for made < blind { // only counted; plan number j (from 0) is the j-th call
		_ = lb.NewQueryPlan()
		made++
		if made&(1<<29-1) == 0 {
			c.Step("wrap-real hosts=%d made=%d", n, made)
		}
	}
	scen := map[string]interface{}{"kind": "wrap-real", "hosts": n}
	checked := c15CheckWrapRun(rep, lb, n, 2*before, fmt.Sprintf("%d real NewQueryPlan calls on one load balancer, then the next %d plans (no hook used)", made, 2*before), scen, false)
	c.R.Eval(1)
	c.R.Obs("wrap_real_newqueryplan_calls", int(made)+checked)
	c.R.Obs("wrap_plans_checked", checked)
	c.R.NonTrivial(fmt.Sprintf("wrap-real:hosts=%d", n))
}

// ---------------------------------------------------------------------------------------------------------------------
// part 3: concurrent histories and porcupine

const (
	c15OpBoot = iota
	c15OpAdd
	c15OpRemove
	c15OpPlan
)

type c15In struct {
	Kind int
	Mask uint8 // bootstrap
	H    int   // add / remove
}

type c15Op struct {
	client    int
	in        c15In
	out       []int // plan: the hosts in the order yielded
	call, ret int64 // mon.Tick() around OnEvent / NewQueryPlan
	end       int64 // mon.Tick() after the plan was drained
	afterNil  bool
	endless   bool
}

func c15SetName(m uint8) string {
	var parts []string
	for i := 0; i < c15N; i++ {
		if m&(1<<uint(i)) != 0 {
			parts = append(parts, fmt.Sprintf("h%d", i))
		}
	}
	return "{" + strings.Join(parts, ",") + "}"
}

func c15DescribeOp(in c15In, out []int) string {
	switch in.Kind {
	case c15OpBoot:
		return "OnEvent(Bootstrap " + c15SetName(in.Mask) + ")"
	case c15OpAdd:
		return fmt.Sprintf("OnEvent(Add h%d)", in.H)
	case c15OpRemove:
		return fmt.Sprintf("OnEvent(Remove h%d)", in.H)
	}
	return "NewQueryPlan -> " + c15Names(out)
}

// c15PorcupineModel: state = set of hosts (bit mask). Events mutate; a plan that yielded S is legal iff S has no
// duplicate and S == state.
func c15PorcupineModel() porcupine.Model {
	return porcupine.Model{
		Init: func() interface{} { return uint8(0) },
		Step: func(state, input, output interface{}) (bool, interface{}) {
			st := state.(uint8)
			in := input.(c15In)
			switch in.Kind {
			case c15OpBoot:
				return true, in.Mask
			case c15OpAdd:
				return true, st | 1<<uint(in.H)
			case c15OpRemove:
				return true, st &^ (1 << uint(in.H))
			}
			seq := output.([]int)
			if c15HasDup(seq) {
				return false, st
			}
			m, unknown := c15Mask(seq)
			return !unknown && m == st, st
		},
		Equal: func(a, b interface{}) bool { return a.(uint8) == b.(uint8) },
		DescribeOperation: func(input, output interface{}) string {
			out, _ := output.([]int)
			return c15DescribeOp(input.(c15In), out)
		},
		DescribeState: func(state interface{}) string { return c15SetName(state.(uint8)) },
	}
}

// c15SelfTest makes sure the model and the checker can tell a legal from an illegal history (else part 3 is vacuous).
func c15SelfTest() bool {
	m := c15PorcupineModel()
	op := func(cl int, in c15In, out []int, call, ret int64) porcupine.Operation {
		var o interface{}
		if out != nil {
			o = out
		}
		return porcupine.Operation{ClientId: cl, Input: in, Output: o, Call: call, Return: ret}
	}
	legal := []porcupine.Operation{
		op(0, c15In{Kind: c15OpBoot, Mask: 0b011}, nil, 1, 2),
		op(0, c15In{Kind: c15OpRemove, H: 0}, nil, 4, 8),
		op(1, c15In{Kind: c15OpPlan}, []int{1, 0}, 3, 5),
		op(2, c15In{Kind: c15OpPlan}, []int{1}, 6, 7),
	}
	stale := []porcupine.Operation{ // the second plan starts after the removal returned but still names h0
		op(0, c15In{Kind: c15OpBoot, Mask: 0b011}, nil, 1, 2),
		op(0, c15In{Kind: c15OpRemove, H: 0}, nil, 3, 4),
		op(1, c15In{Kind: c15OpPlan}, []int{1, 0}, 5, 6),
	}
	order := []porcupine.Operation{ // each plan is fine on its own, together they go back in time
		op(0, c15In{Kind: c15OpBoot, Mask: 0b011}, nil, 1, 2),
		op(0, c15In{Kind: c15OpRemove, H: 0}, nil, 3, 10),
		op(1, c15In{Kind: c15OpPlan}, []int{1}, 4, 5),
		op(2, c15In{Kind: c15OpPlan}, []int{0, 1}, 6, 7),
	}
	dup := []porcupine.Operation{
		op(0, c15In{Kind: c15OpBoot, Mask: 0b111}, nil, 1, 2),
		op(1, c15In{Kind: c15OpPlan}, []int{2, 0, 0}, 3, 4),
	}
	return porcupine.CheckOperations(m, legal) && !porcupine.CheckOperations(m, stale) && !porcupine.CheckOperations(m, order) && !porcupine.CheckOperations(m, dup)
}

type c15ConcPlan struct {
	boot   uint8
	events []c15Ev
	plans  int // per plan goroutine
}

const c15Goroutines = 8

func c15ConcScenario(rng *rand.Rand) c15ConcPlan {
	var p c15ConcPlan
	p.boot = uint8(rng.Intn(1 << c15N))
	if rng.Intn(8) != 0 && p.boot == 0 {
		p.boot = 0b00111
	}
	present := p.boot
	n := 4 + rng.Intn(13) // 4..16 events
	for i := 0; i < n; i++ {
		x := rng.Intn(c15N)
		bit := uint8(1) << uint(x)
		switch {
		case present&bit != 0:
			p.events = append(p.events, c15Ev{false, x})
			present &^= bit
		case rng.Intn(5) == 0:
			p.events = append(p.events, c15Ev{false, x})
		default:
			p.events = append(p.events, c15Ev{true, x})
			present |= bit
		}
	}
	p.plans = 2 + rng.Intn(4) // 2..5 per goroutine -> <= 1 + 16 + 40 = 57 operations
	return p
}

func (p c15ConcPlan) describe() string {
	return c15SetName(p.boot) + " " + strings.TrimPrefix(c15Hist{Evs: p.events}.String(), "B0 ")
}

func (p c15ConcPlan) hash() string {
	f := fnv.New64a()
	f.Write([]byte(p.describe()))
	return fmt.Sprintf("%016x", f.Sum64())
}

func c15Yield(rng *rand.Rand, max int) {
	for k := rng.Intn(max + 1); k > 0; k-- {
		runtime.Gosched()
	}
}

// c15RunConc runs one concurrent history and returns the recorded operations (bootstrap first) and any panic.
func c15RunConc(p c15ConcPlan, seed int64) (ops []c15Op, panics []string) {
	lb := proxycore.NewRoundRobinLoadBalancer()
	var bootIdx []int
	for i := 0; i < c15N; i++ {
		if p.boot&(1<<uint(i)) != 0 {
			bootIdx = append(bootIdx, i)
		}
	}
	b := c15Op{client: 0, in: c15In{Kind: c15OpBoot, Mask: p.boot}}
	b.call = mon.Tick()
	c15Bootstrap(lb, bootIdx)
	b.ret = mon.Tick()
	b.end = b.ret

	per := make([][]c15Op, c15Goroutines+1) // each goroutine appends to its own slice only
	pan := make([]string, c15Goroutines+1)
	start := make(chan struct{})
	var created, finished int64
	var wg sync.WaitGroup
	wg.Add(c15Goroutines + 1)
	go func() { // the only mutator, as in the proxy (the cluster delivers events from one goroutine)
		defer wg.Done()
		stage := "OnEvent"
		defer func() {
			if x := recover(); x != nil {
				pan[0] = fmt.Sprintf("%s: %v\n%s", stage, x, debug.Stack())
			}
		}()
		rng := rand.New(rand.NewSource(seed))
		// spread the events over the plan creations: event j waits until thr[j] plans exist (the plan goroutines never
		// wait for anything, so this cannot block for ever; it stops waiting when they are all done)
		thr := make([]int, len(p.events))
		for j := range thr {
			thr[j] = rng.Intn(c15Goroutines * p.plans)
		}
		sort.Ints(thr)
		burst := rng.Intn(3) == 0 // every third history: all events back to back right from the start
		<-start
		for j, e := range p.events {
			for spin := 1; !burst && atomic.LoadInt64(&created) < int64(thr[j]) && atomic.LoadInt64(&finished) < c15Goroutines; spin++ {
				if spin%256 == 0 { // mostly busy-wait so that the event lands in the middle of plan creations
					runtime.Gosched()
				}
			}
			o := c15Op{client: 0, in: c15In{Kind: c15OpRemove, H: e.H}}
			if e.Add {
				o.in.Kind = c15OpAdd
			}
			ev := c15Event(e)
			o.call = mon.Tick()
			lb.OnEvent(ev)
			o.ret = mon.Tick()
			o.end = o.ret
			per[0] = append(per[0], o)
		}
	}()
	for g := 1; g <= c15Goroutines; g++ {
		go func(g int) {
			defer wg.Done()
			defer atomic.AddInt64(&finished, 1)
			stage := "NewQueryPlan"
			defer func() {
				if x := recover(); x != nil {
					pan[g] = fmt.Sprintf("%s: %v\n%s", stage, x, debug.Stack())
				}
			}()
			rng := rand.New(rand.NewSource(seed + int64(g)*104729))
			<-start
			drain := func(o *c15Op, plan proxycore.QueryPlan) {
				// consumption is not part of the linearizable operation: the snapshot was taken by NewQueryPlan
				stage = "Next"
				o.out = []int{}
				slow := rng.Intn(2) == 0
				for len(o.out) < 3*c15N {
					if slow {
						c15Yield(rng, 2)
					}
					h := plan.Next()
					if h == nil {
						break
					}
					o.out = append(o.out, c15HostIndex(h))
				}
				o.endless = len(o.out) >= 3*c15N
				for k := 0; k < 3; k++ {
					if plan.Next() != nil {
						o.afterNil = true
					}
				}
				o.end = mon.Tick()
				per[g] = append(per[g], *o)
			}
			batch := rng.Intn(2) == 0 // create all plans back to back and consume them afterwards
			var waitingOps []c15Op
			var waitingPlans []proxycore.QueryPlan
			for j := 0; j < p.plans; j++ {
				if !batch {
					c15Yield(rng, 3)
				}
				o := c15Op{client: g, in: c15In{Kind: c15OpPlan}}
				stage = "NewQueryPlan"
				o.call = mon.Tick()
				plan := lb.NewQueryPlan()
				o.ret = mon.Tick()
				atomic.AddInt64(&created, 1)
				if batch {
					waitingOps, waitingPlans = append(waitingOps, o), append(waitingPlans, plan)
				} else {
					drain(&o, plan)
				}
			}
			for j := range waitingOps {
				drain(&waitingOps[j], waitingPlans[j])
			}
		}(g)
	}
	close(start)
	wg.Wait()
	ops = append(ops, b)
	for _, s := range per {
		ops = append(ops, s...)
	}
	for _, s := range pan {
		if s != "" {
			panics = append(panics, s)
		}
	}
	return
}

func c15Render(ops []c15Op) []string {
	s := append([]c15Op{}, ops...)
	sort.Slice(s, func(i, j int) bool { return s[i].call < s[j].call })
	out := make([]string, len(s))
	for i, o := range s {
		out[i] = fmt.Sprintf("g%d [%d,%d] %s", o.client, o.call, o.ret, c15DescribeOp(o.in, o.out))
		if o.in.Kind == c15OpPlan {
			out[i] += fmt.Sprintf(" (drained at %d)", o.end)
		}
	}
	return out
}

// c15Classify names why a history is not linearizable. The events come from one goroutine, so the states form a
// sequence s0 (before bootstrap), s1, ...; a plan may see state j iff event j's call precedes the plan's return and
// event j+1's return does not precede the plan's call.
func c15Classify(ops []c15Op, wide bool) (class string, culprit *c15Op) {
	var evs []c15Op
	for _, o := range ops {
		if o.in.Kind != c15OpPlan {
			evs = append(evs, o)
		}
	}
	sort.Slice(evs, func(i, j int) bool { return evs[i].call < evs[j].call })
	states := []uint8{0}
	st := uint8(0)
	for _, e := range evs {
		switch e.in.Kind {
		case c15OpBoot:
			st = e.in.Mask
		case c15OpAdd:
			st |= 1 << uint(e.in.H)
		case c15OpRemove:
			st &^= 1 << uint(e.in.H)
		}
		states = append(states, st)
	}
	for i := range ops {
		o := &ops[i]
		if o.in.Kind != c15OpPlan {
			continue
		}
		if c15HasDup(o.out) {
			return "plan-duplicate-host", o
		}
		ret := o.ret
		if wide {
			ret = o.end
		}
		lo, hi := 0, 0 // admissible state indices [lo, hi]
		for j, e := range evs {
			if e.ret < o.call {
				lo = j + 1
			}
			if e.call < ret {
				hi = j + 1
			}
		}
		m, unknown := c15Mask(o.out)
		ok, ever := false, false
		for j, s := range states {
			if s == m && !unknown {
				ever = true
				if j >= lo && j <= hi {
					ok = true
				}
			}
		}
		if !ok {
			if ever {
				return "plan-set-stale-or-early", o
			}
			return "plan-set-never-existed", o
		}
	}
	return "real-time-order-between-plans", nil
}

func c15ToPorcupine(ops []c15Op, wide bool) []porcupine.Operation {
	out := make([]porcupine.Operation, len(ops))
	for i, o := range ops {
		var output interface{}
		if o.in.Kind == c15OpPlan {
			output = o.out
		}
		ret := o.ret
		if wide {
			ret = o.end
		}
		out[i] = porcupine.Operation{ClientId: o.client, Input: o.in, Output: output, Call: o.call, Return: ret}
	}
	return out
}

func c15Conc(c *Ctx, rep *c15Rep, idx int, model porcupine.Model) {
	r := c.R
	rng := c.Rng(1000000 + idx)
	p := c15ConcScenario(rng)
	scen := map[string]interface{}{"kind": "conc", "index": idx}
	c.Step("conc %d %s", idx, p.describe())
	ops, panics := c15RunConc(p, rng.Int63())
	r.Eval(1)
	r.Obs("conc_histories", 1)
	for _, s := range panics {
		stage := strings.SplitN(s, ":", 2)[0]
		rep.violate("C15/panic/concurrent/"+stage, func() mon.Violation {
			return mon.Violation{Detail: fmt.Sprintf("concurrent history %d (%s): panic in %s", idx, p.describe(), s), Scenario: scen, Witness: c15Render(ops)}
		})
	}
	if len(panics) > 0 {
		return
	}
	// evidence about the shape of the history
	removal, heldAcross, overlap := false, false, 0
	present := p.boot
	for _, e := range p.events {
		if !e.Add && present&(1<<uint(e.H)) != 0 {
			removal = true
		}
		if e.Add {
			present |= 1 << uint(e.H)
		} else {
			present &^= 1 << uint(e.H)
		}
	}
	nPlans, nEvents := 0, 0
	for _, o := range ops {
		if o.in.Kind != c15OpPlan {
			nEvents++
			continue
		}
		nPlans++
		ov := false
		for _, e := range ops {
			if e.in.Kind == c15OpPlan || e.in.Kind == c15OpBoot {
				continue
			}
			if o.ret < e.call && e.ret < o.end {
				heldAcross = true
			}
			if o.call < e.ret && e.call < o.ret {
				ov = true
			}
		}
		if ov {
			overlap++
		}
		// per-plan safety, whatever the membership did meanwhile
		if o.afterNil || o.endless {
			rep.violate("C15/plan-not-exhausted/concurrent", func() mon.Violation {
				return mon.Violation{Detail: fmt.Sprintf("concurrent history %d (%s): a plan yielded %s and did not stay exhausted (host after nil: %v, still yielding after %d: %v)", idx, p.describe(), c15Names(o.out), o.afterNil, 3*c15N, o.endless), Scenario: scen, Witness: c15Render(ops)}
			})
		}
	}
	r.Obs("conc_plan_ops", nPlans)
	r.Obs("conc_event_ops", nEvents)
	r.Obs("conc_plans_overlapping_an_event", overlap)
	r.ObsMax("max:conc_ops_per_history", len(ops))
	if heldAcross {
		r.Obs("conc_histories_with_plan_held_across_event", 1)
	}
	if removal && heldAcross {
		r.NonTrivial("conc:" + p.hash())
	}
	if idx%97 == 0 {
		r.Sample(map[string]interface{}{"part": "concurrent", "events": p.describe(), "ops": len(ops), "plans_overlapping_an_event": overlap, "first_ops": c15Render(ops)[:6]})
	}

	res, _ := porcupine.CheckOperationsVerbose(model, c15ToPorcupine(ops, false), 30*time.Second)
	r.Obs("porcupine:"+string(res), 1)
	class, culprit := c15Classify(ops, false)
	switch res {
	case porcupine.Unknown:
		r.Inconc(fmt.Sprintf("concurrent history %d: porcupine timed out after 30s on %d operations", idx, len(ops)))
	case porcupine.Ok:
		if culprit != nil { // harness sanity: the direct interval check disagrees with porcupine
			r.Inconc(fmt.Sprintf("concurrent history %d: porcupine says linearizable but the interval check says %s for %s", idx, class, c15DescribeOp(culprit.in, culprit.out)))
		}
	case porcupine.Illegal:
		wideRes := porcupine.CheckOperationsTimeout(model, c15ToPorcupine(ops, true), 30*time.Second)
		rep.violate("C15/not-linearizable/"+class, func() mon.Violation {
			d := fmt.Sprintf("concurrent history %d (bootstrap and events: %s): no linearization of the %d recorded operations against the set model (a plan must equal the host set at one instant between the call and the return of NewQueryPlan, without duplicate); classification: %s", idx, p.describe(), len(ops), class)
			if culprit != nil {
				d += fmt.Sprintf("; first offending operation: g%d [%d,%d] %s", culprit.client, culprit.call, culprit.ret, c15DescribeOp(culprit.in, culprit.out))
			}
			d += fmt.Sprintf("; with the operation window stretched to the end of consumption porcupine says %s", wideRes)
			return mon.Violation{Detail: d, Scenario: scen, Witness: c15Render(ops)}
		})
	}
}

// ---------------------------------------------------------------------------------------------------------------------

func runC15(c *Ctx) {
	r := c.R
	rep := &c15Rep{c: c, seen: map[string]int{}}
	r.Assume("events reach the load balancer from one goroutine at a time (the cluster's event loop); only plan creation/consumption is concurrent with them")
	r.Assume("the set of hosts of a plan is fixed when NewQueryPlan returns (the property's 'a new query plan yields every host currently in the cluster'); later consumption is only required to be safe")
	r.Assume("'consecutive plans start at consecutive hosts' is checked in its order-free form: within a run of new plans with stable membership every window's per-host first-choice counts differ by at most one")
	r.Assume("a second Add of a present host is outside the property (the cluster never emits it); it is driven for 'no panic' only")

	if c.Replay != nil {
		c15Replay(c, rep)
		return
	}
	if c.Shard%2 == 1 {
		// every other shard: hosts behind one SNI proxy address, told apart by their key only (Astra endpoints)
		c15UseSNIEndpoints()
		r.Obs("shards_with_sni_proxy_endpoints", 1)
	} else {
		r.Obs("shards_with_ip_endpoints", 1)
	}
	r.Require("seq_histories", "seq_fresh_plans", "seq_held_plans", "wrap_plans_checked", "conc_histories", "conc_plan_ops", "conc_histories_with_plan_held_across_event", "porcupine_selftest_ok", "porcupine:Ok", "e2e_plans_checked")

	// thorough: the last shard only makes the 2^32+10 real calls; the others share the rest
	workers, dedicated := c.NShards, false
	if !c.Quick() && c.NShards > 1 {
		workers = c.NShards - 1
		dedicated = c.Shard == c.NShards-1
	}
	mine := func(i int) bool { return workers <= 1 || i%workers == c.Shard }
	maxSteps := c.Pick(6, 8) // events after the bootstrap: histories of length <= 7 / 9
	memo := map[[2]int]int64{}
	var total int64
	for b := 0; b <= c15N; b++ {
		total += c15Count(maxSteps, b, memo)
	}
	r.Extra["exhaustive_part"] = map[string]interface{}{"part": "sequential well-formed histories (bootstrap prefix list of 0-5 hosts + <= " + fmt.Sprint(maxSteps) + " add/remove events over 5 hosts)", "histories": total, "max_length_including_bootstrap": maxSteps + 1}
	if dedicated {
		if c15SelfTest() {
			r.Obs("porcupine_selftest_ok", 1)
		}
		c15WrapReal(c, rep, 3)
		return
	}

	// part 0: notifications produced by the real cluster from a control connection
	for i := 0; i < c.Pick(24, 400); i++ {
		if mine(i) {
			c15EndToEnd(c, i)
		}
	}

	// part 1
	w := &c15Walk{c: c, rep: rep, mine: mine, maxSteps: maxSteps, keyEvery: c.Pick(200, 20000)}
	for b := 0; b <= c15N; b++ {
		w.node(b, make([]c15Ev, 0, maxSteps), uint8(1)<<uint(b)-1, 0, -1)
	}
	w.flush()
	nRandom := c.Pick(400, 6000)
	rw := &c15Walk{c: c}
	for i := 0; i < nRandom; i++ {
		if !mine(i) {
			continue
		}
		h := c15RandomHist(c.Rng(i))
		c.Step("random %s", h)
		c15RunSeq(rep, h, true, i, &rw.st)
		rw.done++
		r.Obs("random_long_histories", 1)
		r.ObsMax("max:random_history_events", len(h.Evs))
		if i%50 == 0 {
			r.NonTrivial("random:" + h.String())
		}
	}
	rw.flush()

	// part 2
	i := 0
	for n := 1; n <= c15N; n++ {
		for k := 1; k <= 8; k++ {
			for _, heldFirst := range []bool{false, true} {
				if mine(i) {
					c.Step("wrap hosts=%d k=%d held=%v", n, k, heldFirst)
					c15WrapPreset(c, rep, n, k, heldFirst)
				}
				i++
			}
		}
	}

	// part 3
	if c15SelfTest() {
		r.Obs("porcupine_selftest_ok", 1)
	} else {
		r.Inconc("porcupine self-test failed: the model cannot tell legal from illegal histories")
		return
	}
	model := c15PorcupineModel()
	nConc := c.Pick(300, 20000)
	for i := 0; i < nConc; i++ {
		if mine(i) {
			c15Conc(c, rep, i, model)
		}
	}
}

func c15Replay(c *Ctx, rep *c15Rep) {
	num := func(k string) int {
		f, _ := c.Replay[k].(float64)
		return int(f)
	}
	switch c.Replay["kind"] {
	case "seq":
		h := c15Hist{Boot: num("boot")}
		if evs, ok := c.Replay["evs"].([]interface{}); ok {
			for _, e := range evs {
				m := e.(map[string]interface{})
				add, _ := m["add"].(bool)
				hh, _ := m["h"].(float64)
				h.Evs = append(h.Evs, c15Ev{add, int(hh)})
			}
		}
		w := &c15Walk{c: c}
		c.Step("replay seq %s", h)
		c15RunSeq(rep, h, true, 0, &w.st)
		w.done = 1
		w.flush()
	case "wrap":
		held, _ := c.Replay["held"].(bool)
		c15WrapPreset(c, rep, num("hosts"), num("k"), held)
	case "wrap-real":
		c15WrapReal(c, rep, num("hosts"))
	case "conc":
		// the schedule is not reproducible; re-run the same scenario a number of times
		model := c15PorcupineModel()
		for j := 0; j < 200; j++ {
			c15Conc(c, rep, num("index"), model)
		}
	default:
		c.R.Inconc(fmt.Sprintf("cannot replay scenario kind %v", c.Replay["kind"]))
	}
	c.R.NonTrivial("replay")
	c.R.NonTrivial("replay-2")
}
