//go:build verif

package scen

import (
	"fmt"
	"math/rand"
	"net"
	"strings"
	"sync"
	"sync/atomic"
	"time"

	"github.com/datastax/go-cassandra-native-protocol/message"
	"github.com/datastax/go-cassandra-native-protocol/primitive"

	"verif/fakecass"
	"verif/mon"
	"verif/px"
	"verif/rawcql"
)

func init() {
	Register(&Runner{Prop: "C07", Level: "exploration",
		Rule:    "interleaved histories of USE (valid, quoted, mixed-case, non-existent; several clients switching to the same new keyspace at the same instant through the sessions-store gate), pipelined USE+query, QUERY/PREPARE/EXECUTE/BATCH and host restarts across 2-12 concurrent clients with different versions and compressions; oracle = per-client sequential register model in send order compared with the connection attributes (keyspace, version, compression) the fake backend echoes for the very connection each request arrived on; distinct = per-client operation-sequence hash; non-trivial = >= 1 successful and >= 1 failed or concurrent USE",
		Shards:  shards(4, 16),
		Timeout: timeouts(10*time.Minute, 60*time.Minute),
		Run:     runC07})
}

var c07Keyspaces = []string{"ks1", "ks2", "KsMixed", `we"ird`, "ks3", "ks4", "ks5", "ks6"}

type useForm struct {
	Text  string // what follows USE
	Canon string // canonical name the backend would answer ("" = does not exist)
	Class string
}

var useForms = []useForm{
	{"ks1", "ks1", "plain"},
	{"KS1", "ks1", "upper-folds"},
	{"Ks2", "ks2", "mixed-folds"},
	{`"ks2"`, "ks2", "quoted-lower"},
	{`"KsMixed"`, "KsMixed", "quoted-mixed"},
	{"KsMixed", "", "unquoted-mixed-folds-to-missing"},
	{`"we""ird"`, `we"ird`, "quoted-escaped-quote"},
	{"nosuch", "", "missing"},
	{`"KS1"`, "", "quoted-upper-missing"},
	{"ks3", "ks3", "plain"},
	{"ks4", "ks4", "plain"},
	{"ks5", "ks5", "plain"},
	{"ks6", "ks6", "plain"},
	{"ks2;", "ks2", "trailing-semicolon"},
	{"ks1 ;", "ks1", "trailing-blank-semicolon"},
	{`"KsMixed";`, "KsMixed", "quoted-mixed-trailing-semicolon"},
	{"nosuch;", "", "missing-trailing-semicolon"},
}

type c07Op struct {
	Kind   string // use | query | execute | batch | prepare
	Use    useForm
	Wait   bool // wait for the reply before the next op
	Stream int16
	Tok    string
	// model expectation at send time
	WantKs string
}

func c07History(c *Ctx, idx int, hosts, conns, nClients, steps int, restarts bool, simultaneous bool) {
	r := c.R
	rng := c.Rng(idx)
	scenario := map[string]interface{}{"kind": "c07", "idx": idx, "hosts": hosts, "conns": conns, "clients": nClients, "steps": steps, "restarts": restarts, "simultaneous": simultaneous}
	c.Step("c07 history idx=%d hosts=%d conns=%d clients=%d steps=%d restarts=%v simultaneous=%v", idx, hosts, conns, nClients, steps, restarts, simultaneous)
	bed, err := px.NewBed(px.BedConfig{Hosts: hosts, NumConns: conns, Keyspaces: c07Keyspaces, KeepBodies: true, MaxVersion: primitive.ProtocolVersionDse2,
		ReconnectBase: time.Millisecond, ReconnectMax: 3 * time.Millisecond})
	if err != nil {
		r.Inconc("c07: cannot start bed: " + err.Error())
		return
	}
	defer bed.Close()
	gates := NewGates()
	bed.OnHook(func(ev *px.HookEvent) {
		if ev.Point == "proxy.sessions.store" {
			gates.Handle(ev, 0)
		}
	})
	type cspec struct {
		ver  primitive.ProtocolVersion
		comp string
	}
	specs := []cspec{{4, ""}, {4, "lz4"}, {3, ""}, {4, "snappy"}, {3, "lz4"}, {5, ""}, {5, "lz4"}, {0x42, ""}, {0x41, "lz4"}, {3, "snappy"}}
	var clients []*rawcql.Client
	var cs []cspec
	for i := 0; i < nClients; i++ {
		sp := specs[(i+idx)%len(specs)]
		cl, err := bed.ReadyClient(sp.ver, sp.comp)
		if err != nil {
			r.Inconc("c07: handshake: " + err.Error())
			return
		}
		defer cl.Close()
		clients = append(clients, cl)
		cs = append(cs, sp)
	}
	// every client prepares the standard SELECT (forwarded; the prepared id does not depend on the keyspace here)
	for _, cl := range clients {
		if f, err := cl.Call(30000, &message.Prepare{Query: selectPrepared}, 10*time.Second); err != nil || f.OpCode != primitive.OpCodeResult {
			r.Inconc(fmt.Sprintf("c07: prepare failed: %v", err))
			return
		}
	}
	for _, h := range bed.Cluster.Hosts {
		h.Learn(fmt.Sprintf("%x", fakecass.PreparedID("", selectPrepared)), selectPrepared)
	}

	stop := make(chan struct{})
	var bg sync.WaitGroup
	if restarts {
		bg.Add(1)
		restartSeed := rng.Int63()
		go func() {
			defer bg.Done()
			lr := rand.New(rand.NewSource(restartSeed))
			for {
				select {
				case <-stop:
					return
				case <-time.After(time.Duration(5+lr.Intn(20)) * time.Millisecond):
					bed.Cluster.KillPooled(lr.Intn(2) == 0, 1+lr.Intn(hosts))
				}
			}
		}()
	}
	if simultaneous {
		gates.Arm("proxy.sessions.store@0")
		bg.Add(1)
		go func() {
			defer bg.Done()
			if gates.Await("proxy.sessions.store@0", 20*time.Second) {
				time.Sleep(5 * time.Millisecond) // the other clients' USE of the same keyspace pile up behind the first one
			}
			gates.Release("proxy.sessions.store@0")
		}()
	}

	type result struct {
		ops []c07Op
	}
	results := make([]result, nClients)
	var preparedUses int64
	defer func() { r.Obs("uses_sent_as_prepare_execute", int(atomic.LoadInt64(&preparedUses))) }()
	var wg sync.WaitGroup
	start := make(chan struct{})
	for ci, cl := range clients {
		wg.Add(1)
		go func(ci int, cl *rawcql.Client, seed int64) {
			defer wg.Done()
			lr := rand.New(rand.NewSource(seed))
			stream := int16(0)
			<-start
			var pendingUse []struct {
				ch chan *rawcql.Frame
				uf useForm
			}
			var ops []c07Op
			for s := 0; s < steps; s++ {
				stream++
				op := c07Op{Stream: stream}
				x := lr.Intn(100)
				switch {
				case s == 0 && simultaneous:
					op.Kind, op.Use, op.Wait = "use", useForms[9+(idx%4)], true // everybody switches to the same new keyspace at once
				case x < 22:
					op.Kind, op.Use = "use", useForms[lr.Intn(len(useForms))]
					op.Wait = lr.Intn(3) > 0
				case x < 60:
					op.Kind = "query"
				case x < 80:
					op.Kind = "execute"
				case x < 90:
					op.Kind = "batch"
				default:
					op.Kind = "prepare"
				}
				op.Wait = op.Wait || (op.Kind != "use" && lr.Intn(4) == 0)
				var ch chan *rawcql.Frame
				ch = cl.Expect(stream)
				var err error
				switch op.Kind {
				case "use":
					sent := false
					if lr.Intn(4) == 0 {
						// the same USE as a prepared statement: PREPARE "USE x", then EXECUTE of the returned id
						if pf, perr := cl.Call(stream+20000, &message.Prepare{Query: "USE " + op.Use.Text}, 20*time.Second); perr == nil && pf != nil {
							if fr, derr := rawcql.DecodeWith(cl.Comp, pf); derr == nil {
								if pr, ok := fr.Body.Message.(*message.PreparedResult); ok {
									err = cl.Send(stream, &message.Execute{QueryId: pr.PreparedQueryId, ResultMetadataId: pr.ResultMetadataId, Options: &message.QueryOptions{Consistency: primitive.ConsistencyLevelOne}})
									sent = true
									atomic.AddInt64(&preparedUses, 1)
								}
							}
						}
					}
					if !sent {
						err = cl.Send(stream, &message.Query{Query: "USE " + op.Use.Text, Options: &message.QueryOptions{Consistency: primitive.ConsistencyLevelOne}})
					}
				default:
					op.Tok = NewTok()
					kind := map[string]ReqKind{"query": KQuery, "execute": KExecute, "batch": KBatch, "prepare": KPrepare}[op.Kind]
					f := BuildRequest(cl.Version, stream, kind, true, op.Tok, primitive.ConsistencyLevelOne)
					if kind == KExecute {
						f.Body.Message.(*message.Execute).QueryId = fakecass.PreparedID("", selectPrepared)
						if cl.Version.SupportsResultMetadataId() {
							f.Body.Message.(*message.Execute).ResultMetadataId = fakecass.PreparedResultFor("", selectPrepared, cl.Version).ResultMetadataId
						}
					}
					err = cl.SendF(f)
				}
				ops = append(ops, op)
				if err != nil {
					break
				}
				if op.Wait {
					if _, err := cl.Wait(ch, 30*time.Second); err != nil {
						break
					}
				}
				_ = pendingUse
			}
			// forwarded requests are answered asynchronously: wait (bounded) until every stream has its reply
			waitFor(func() bool {
				for _, op := range ops {
					if len(cl.OnStream(op.Stream)) == 0 {
						return false
					}
				}
				return true
			}, 20*time.Second)
			results[ci].ops = ops
		}(ci, cl, rng.Int63())
	}
	close(start)
	wg.Wait()
	close(stop)
	gates.ReleaseAll()
	bg.Wait()

	// oracle
	for ci, cl := range clients {
		sp := cs[ci]
		okUse, badUse := 0, 0
		var shape strings.Builder
		state := ""
		for _, op := range results[ci].ops {
			op.WantKs = state
			frames := cl.OnStream(op.Stream)
			r.Eval(1)
			if len(frames) != 1 {
				if len(frames) == 0 && !restarts {
					r.Violate(mon.Violation{Signature: "C07/no-reply/" + op.Kind, Detail: fmt.Sprintf("client %d (v%d %q) stream %d %s: %d replies (client connection closed: %v)", cl.ID, sp.ver, sp.comp, op.Stream, op.Kind, len(frames), cl.IsClosed()), Scenario: scenario, Witness: historyOf(bed.Log.Snapshot(), cl.ID, op.Stream, op.Tok)})
				}
				continue
			}
			ri := DecodeReply(sp.comp, frames[0])
			shape.WriteString(op.Kind[:1])
			switch op.Kind {
			case "use":
				shape.WriteString(op.Use.Class[:2])
				if op.Use.Canon != "" {
					okUse++
					fr, _ := rawcql.DecodeWith(sp.comp, frames[0])
					var got string
					if fr != nil {
						if sk, ok := fr.Body.Message.(*message.SetKeyspaceResult); ok {
							got = sk.Keyspace
						}
					}
					if ri.Kind == "SetKeyspace" && got == op.Use.Canon {
						state = op.Use.Canon
						r.Obs("use_ok:"+op.Use.Class, 1)
					} else if strings.HasPrefix(ri.Kind, "Error:") && restarts {
						r.Obs("use_failed_during_restart", 1) // a host being down while the session connects is not this property's business
					} else {
						r.Violate(mon.Violation{Signature: "C07/use-reply/" + op.Use.Class, Detail: fmt.Sprintf("client %d (v%d %q): USE %s answered %s %q (keyspace %q); the backend names it %q", cl.ID, sp.ver, sp.comp, op.Use.Text, ri.Kind, ri.ErrMsg, got, op.Use.Canon), Scenario: scenario})
					}
				} else {
					badUse++
					if strings.HasPrefix(ri.Kind, "Error:") && (strings.Contains(ri.ErrMsg, "does not exist") || restarts) {
						r.Obs("use_rejected:"+op.Use.Class, 1)
					} else if restarts && ri.Kind == "SetKeyspace" {
						// every connection attempt of the new session was cut by the scripted restarts before the backend could
						// answer USE: the backend did not reject it, so this is not a *failed* USE in the property's sense. No
						// request may run anywhere else from now on.
						state = "\x00unverified:" + op.Use.Text
						r.Obs("use_unverified_during_restart", 1)
					} else {
						r.Violate(mon.Violation{Signature: "C07/failed-use-reply/" + op.Use.Class, Detail: fmt.Sprintf("client %d: USE %s (no such keyspace) answered %s %q; expected the backend's error", cl.ID, op.Use.Text, ri.Kind, ri.ErrMsg), Scenario: scenario})
					}
				}
			case "prepare":
				// PREPARE replies carry no connection echo
			default:
				if !ri.HasEcho {
					if !restarts && !(op.Kind != "" && strings.HasPrefix(ri.Kind, "Error:") && false) {
						r.Violate(mon.Violation{Signature: "C07/data-request-failed/" + op.Kind, Detail: fmt.Sprintf("client %d (v%d %q) %s on stream %d answered %s %q", cl.ID, sp.ver, sp.comp, op.Kind, op.Stream, ri.Kind, ri.ErrMsg), Scenario: scenario})
					}
					continue
				}
				r.Obs("echoes_checked", 1)
				e := ri.Echo
				if e.Tok != op.Tok {
					r.Violate(mon.Violation{Signature: "C07/wrong-token/" + op.Kind, Detail: fmt.Sprintf("client %d stream %d: echo token %s, sent %s", cl.ID, op.Stream, e.Tok, op.Tok), Scenario: scenario})
					continue
				}
				if e.Ks != op.WantKs {
					first := "after-use"
					if op.WantKs == "" {
						first = "before-any-use"
					}
					r.Violate(mon.Violation{Signature: fmt.Sprintf("C07/wrong-keyspace/%s/%s", op.Kind, first), Detail: fmt.Sprintf("client %d (v%d %q) %s token %s executed on a connection whose keyspace is %q, the client's current keyspace is %q", cl.ID, sp.ver, sp.comp, op.Kind, op.Tok, e.Ks, op.WantKs), Scenario: scenario, Witness: historyOf(bed.Log.Snapshot(), cl.ID, op.Stream, op.Tok)})
				}
				if e.Ver != int(sp.ver) {
					r.Violate(mon.Violation{Signature: fmt.Sprintf("C07/wrong-version/%s", op.Kind), Detail: fmt.Sprintf("client %d speaks version %d but its %s was executed on a connection speaking version %d", cl.ID, sp.ver, op.Kind, e.Ver), Scenario: scenario})
				}
				if e.Comp != sp.comp {
					r.Violate(mon.Violation{Signature: fmt.Sprintf("C07/wrong-compression/%s", op.Kind), Detail: fmt.Sprintf("client %d uses compression %q but its %s was executed on a connection with compression %q", cl.ID, sp.comp, op.Kind, e.Comp), Scenario: scenario})
				}
			}
		}
		if okUse > 0 && (badUse > 0 || simultaneous) {
			h := fmt.Sprintf("%x", hashString(shape.String()))
			r.NonTrivial(fmt.Sprintf("c07/v%d/%s/%s", sp.ver, sp.comp, h))
		}
	}
	r.Obs("histories", 1)
	if simultaneous {
		r.Obs("simultaneous_use_histories", 1)
		r.Obs("sessions_store_gate_hits", gates.Hits["proxy.sessions.store@0"])
	}
	if idx%10 == 0 {
		r.Sample(scenario)
	}
}

func hashString(s string) uint64 {
	h := uint64(1469598103934665603)
	for i := 0; i < len(s); i++ {
		h = (h ^ uint64(s[i])) * 1099511628211
	}
	return h
}

func runC07(c *Ctx) {
	r := c.R
	r.Assume("the proxy processes one client's frames sequentially, so the model state at send time is the state the request must run in, pipelined or not")
	r.Assume("a USE failing because a host is down during a scripted restart is not judged (only histories without restarts demand success)")
	r.Require("echoes_checked", "histories", "simultaneous_use_histories", "late_host_histories", "concurrent_failed_use_histories", "transient_use_error_histories")
	n := c.Pick(120, 12000)
	for i := 0; i < n; i++ {
		if c.Replay != nil && c.Replay["kind"] == "c07" {
			if i != int(c.Replay["idx"].(float64)) {
				continue
			}
		} else if !c.Mine(i) {
			continue
		}
		rng := c.Rng(10000 + i)
		hosts := 1 + rng.Intn(3)
		conns := 1 + rng.Intn(2)
		clients := 2 + rng.Intn(11)
		steps := 20 + rng.Intn(181)
		if c.Quick() {
			steps = 20 + rng.Intn(80)
			clients = 2 + rng.Intn(7)
		}
		c07History(c, i, hosts, conns, clients, steps, i%5 == 4, i%3 == 0)
	}
	if c.Replay == nil {
		for i := 0; i < c.Pick(12, 400); i++ {
			if c.Mine(i) {
				c07LateHost(c, i)
			}
		}
		for i := 0; i < c.Pick(12, 600); i++ {
			if c.Mine(i + 1) {
				c07ConcurrentFailedUse(c, i)
			}
		}
		for i := 0; i < c.Pick(8, 400); i++ {
			if c.Mine(i + 2) {
				c07UseAnsweredWithTransientError(c, i)
			}
		}
		for i := 0; i < c.Pick(12, 600); i++ {
			if c.Mine(i + 3) {
				c07FirstRequestsTogether(c, i)
			}
		}
		for i := 0; i < c.Pick(4, 200); i++ {
			if c.Mine(i) {
				c07ReconnectWhoseUseIsRefused(c, i)
			}
		}
	}
	var _ = mon.Event{}
}

// c07LateHost: a host joins the cluster after the clients' sessions exist. Its connections, too, must be in each
// session's keyspace and speak its version and compression: every request - whichever host it is routed to - is answered
// from a connection whose attributes are the client's.
func c07LateHost(c *Ctx, idx int) {
	r := c.R
	rng := c.Rng(77000 + idx)
	scenario := map[string]interface{}{"kind": "c07-late-host", "idx": idx}
	c.Step("c07 late host idx=%d", idx)
	bed, err := px.NewBed(px.BedConfig{Hosts: 3, NumConns: 1 + idx%2, Keyspaces: c07Keyspaces, KeepBodies: true, MaxVersion: primitive.ProtocolVersionDse2, Unlisted: []int{3},
		RefreshWindow: 20 * time.Millisecond, ReconnectBase: time.Millisecond, ReconnectMax: 3 * time.Millisecond})
	if err != nil {
		r.Inconc("c07 late host: cannot start bed: " + err.Error())
		return
	}
	defer bed.Close()
	type cspec struct {
		ver  primitive.ProtocolVersion
		comp string
		ks   string
	}
	specs := []cspec{{4, "lz4", "ks1"}, {4, "snappy", "ks2"}, {3, "lz4", "ks1"}, {4, "", "ks3"}, {5, "lz4", ""}, {0x42, "snappy", "ks2"}}
	var clients []*rawcql.Client
	var cs []cspec
	for i := 0; i < 3; i++ {
		sp := specs[(idx+i)%len(specs)]
		cl, err := bed.ReadyClient(sp.ver, sp.comp)
		if err != nil {
			r.Inconc("c07 late host: handshake: " + err.Error())
			return
		}
		defer cl.Close()
		if sp.ks != "" {
			if f, err := cl.Call(1, &message.Query{Query: "USE " + sp.ks, Options: &message.QueryOptions{Consistency: primitive.ConsistencyLevelOne}}, 10*time.Second); err != nil || f.OpCode != primitive.OpCodeResult {
				r.Inconc("c07 late host: USE failed")
				return
			}
		}
		// the session exists and works before the host joins
		if _, err := cl.CallF(BuildRequest(sp.ver, 2, KQuery, true, NewTok(), primitive.ConsistencyLevelOne), 10*time.Second); err != nil {
			r.Inconc("c07 late host: first request failed")
			return
		}
		clients = append(clients, cl)
		cs = append(cs, sp)
	}
	// the host joins
	bed.Cluster.SetListed(3, true)
	bed.Cluster.Emit(&message.TopologyChangeEvent{ChangeType: primitive.TopologyChangeTypeNewNode, Address: &primitive.Inet{Addr: net.ParseIP(bed.Cluster.HostIP(3)), Port: int32(bed.Cluster.Port)}})
	sessions := len(bed.Proxy.VerifSessions())
	if !waitFor(func() bool {
		n := 0
		for _, x := range bed.Cluster.Hosts[2].Conns() {
			if !x.IsRegistered() && x.Ver() != 0 && !x.IsClosed() {
				n++
			}
		}
		return n >= sessions*(1+idx%2)
	}, 15*time.Second) {
		r.Inconc("c07 late host: the new host's pools were not connected (judged by C16)")
		return
	}
	time.Sleep(30 * time.Millisecond)
	reachedLate := 0
	for ci, cl := range clients {
		sp := cs[ci]
		for k := 0; k < 12; k++ {
			tok := NewTok()
			kind := []ReqKind{KQuery, KBatch, KQuery}[k%3]
			f, err := cl.CallF(BuildRequest(sp.ver, int16(10+k), kind, rng.Intn(2) == 0, tok, primitive.ConsistencyLevelOne), 15*time.Second)
			r.Eval(1)
			if err != nil || f == nil {
				r.Violate(mon.Violation{Signature: "C07/no-reply/late-host", Detail: fmt.Sprintf("client v%d %q keyspace %q: request after a host joined got no reply", sp.ver, sp.comp, sp.ks), Scenario: scenario})
				return
			}
			ri := DecodeReply(sp.comp, f)
			if ri.Kind != "Rows" || !ri.HasEcho {
				r.Violate(mon.Violation{Signature: "C07/data-request-failed/late-host", Detail: fmt.Sprintf("client v%d %q keyspace %q: request after a host joined answered %s %q (attempts: %s)", sp.ver, sp.comp, sp.ks, ri.Kind, ri.ErrMsg, describe(Traces(bed.Log.Snapshot())[tok])), Scenario: scenario})
				return
			}
			r.Obs("echoes_checked", 1)
			if ri.Echo.Host == 3 {
				reachedLate++
			}
			if ri.Echo.Ks != sp.ks || ri.Echo.Ver != int(sp.ver) || ri.Echo.Comp != sp.comp {
				r.Violate(mon.Violation{Signature: fmt.Sprintf("C07/wrong-connection-attributes/late-host/host=%d", ri.Echo.Host), Detail: fmt.Sprintf("client v%d compression %q keyspace %q: request executed on host %d on a connection with version %d compression %q keyspace %q", sp.ver, sp.comp, sp.ks, ri.Echo.Host, ri.Echo.Ver, ri.Echo.Comp, ri.Echo.Ks), Scenario: scenario})
				return
			}
		}
	}
	r.Obs("late_host_histories", 1)
	if reachedLate > 0 {
		r.NonTrivial(fmt.Sprintf("late-host/%d", idx%12))
	}
	// the late host's own connections, as the backend saw them negotiated
	for _, x := range bed.Cluster.Hosts[2].Conns() {
		if !x.IsRegistered() && x.Ver() != 0 {
			r.Obs("late_host_conn_comp:"+x.Comp(), 1)
		}
	}
}

// c07ConcurrentFailedUse: several clients that share a session key (version, compression) send USE of the same keyspace at
// about the same time; the keyspace does not exist and the backend is slow to say so, so all but the first arrive while the
// first one's session is still being created. Every one of them must be told the error, and must go on running in the
// keyspace it was in ("a failed USE returns the backend's error and leaves the previous keyspace in force").
func c07ConcurrentFailedUse(c *Ctx, idx int) {
	r := c.R
	rng := c.Rng(78000 + idx)
	n := 2 + rng.Intn(5)
	comp := []string{"", "lz4", "snappy"}[idx%3]
	ver := []primitive.ProtocolVersion{4, 4, 3, 5}[idx%4]
	gap := time.Duration(rng.Intn(30)) * time.Millisecond
	scenario := map[string]interface{}{"kind": "c07-concurrent-failed-use", "idx": idx}
	c.Step("c07 concurrent failed USE idx=%d clients=%d v%d %q gap=%s", idx, n, ver, comp, gap)
	bed, err := px.NewBed(px.BedConfig{Hosts: 1 + idx%2, NumConns: 1, Keyspaces: c07Keyspaces, KeepBodies: true, MaxVersion: primitive.ProtocolVersionDse2})
	if err != nil {
		r.Inconc("c07 concurrent failed USE: cannot start bed: " + err.Error())
		return
	}
	defer bed.Close()
	bad := fmt.Sprintf("nosuch_%d", idx)
	bed.Cluster.SetSlowUseMissing(bad, 250*time.Millisecond)
	var clients []*rawcql.Client
	var prev []string
	for i := 0; i < n; i++ {
		cl, err := bed.ReadyClient(ver, comp)
		if err != nil {
			r.Inconc("c07 concurrent failed USE: handshake: " + err.Error())
			return
		}
		defer cl.Close()
		ks := []string{"ks1", "ks2", ""}[(i+idx)%3]
		if ks != "" {
			if f, err := cl.Call(1, &message.Query{Query: "USE " + ks, Options: &message.QueryOptions{Consistency: primitive.ConsistencyLevelOne}}, 10*time.Second); err != nil || f.OpCode != primitive.OpCodeResult {
				r.Inconc("c07 concurrent failed USE: first USE failed")
				return
			}
		}
		clients = append(clients, cl)
		prev = append(prev, ks)
	}
	type res struct {
		f   *rawcql.Frame
		err error
	}
	out := make([]res, n)
	var wg sync.WaitGroup
	for i, cl := range clients {
		wg.Add(1)
		go func(i int, cl *rawcql.Client) {
			defer wg.Done()
			time.Sleep(time.Duration(i) * gap)
			f, err := cl.Call(2, &message.Query{Query: "USE " + bad, Options: &message.QueryOptions{Consistency: primitive.ConsistencyLevelOne}}, 30*time.Second)
			out[i] = res{f, err}
		}(i, cl)
	}
	wg.Wait()
	for i, cl := range clients {
		r.Eval(1)
		if out[i].err != nil || out[i].f == nil {
			r.Violate(mon.Violation{Signature: "C07/failed-use-reply/concurrent-failed-use/no-reply", Detail: fmt.Sprintf("client %d of %d (v%d %q): USE of a keyspace that does not exist got no reply while %d clients sent it at the same time", i, n, ver, comp, n), Scenario: scenario})
			return
		}
		ri := DecodeReply(comp, out[i].f)
		if !strings.HasPrefix(ri.Kind, "Error") {
			r.Violate(mon.Violation{Signature: "C07/failed-use-reply/concurrent-failed-use/answered-" + strings.SplitN(ri.Kind, " ", 2)[0], Detail: fmt.Sprintf("client %d of %d (v%d %q, %s after the first): USE %s - a keyspace the backend refuses - was answered %s instead of an error, while another client's USE of the same keyspace was in progress", i, n, ver, comp, time.Duration(i)*gap, bad, ri.Kind), Scenario: scenario})
			return
		}
		for k := 0; k < 3; k++ {
			tok := NewTok()
			f, err := cl.CallF(BuildRequest(ver, int16(10+k), KQuery, true, tok, primitive.ConsistencyLevelOne), 15*time.Second)
			if err != nil || f == nil {
				r.Violate(mon.Violation{Signature: "C07/no-reply/concurrent-failed-use", Detail: fmt.Sprintf("client %d: request after the failed USE got no reply", i), Scenario: scenario})
				return
			}
			di := DecodeReply(comp, f)
			if di.Kind != "Rows" || !di.HasEcho {
				r.Violate(mon.Violation{Signature: "C07/data-request-failed/after-concurrent-failed-use", Detail: fmt.Sprintf("client %d of %d (v%d %q, keyspace %q before): after its USE %s was refused, a data request was answered %s %q", i, n, ver, comp, prev[i], bad, di.Kind, di.ErrMsg), Scenario: scenario})
				return
			}
			r.Obs("echoes_checked", 1)
			if di.Echo.Ks != prev[i] {
				r.Violate(mon.Violation{Signature: "C07/keyspace-changed-by-failed-use/concurrent-failed-use", Detail: fmt.Sprintf("client %d: keyspace %q before the refused USE, but the next request ran in %q", i, prev[i], di.Echo.Ks), Scenario: scenario})
				return
			}
		}
	}
	r.Obs("concurrent_failed_use_histories", 1)
	r.NonTrivial(fmt.Sprintf("concurrent-failed-use/n%d/v%d/%s/gap%d", n, ver, comp, gap/time.Millisecond))
}

// c07UseAnsweredWithTransientError: the backend answers the USE that the proxy itself sends on its new pooled connections
// with OVERLOADED / IS_BOOTSTRAPPING (a node that is shedding load or starting up) - for a keyspace that does not exist
// and for one that does. Whatever the proxy then tells the client: a SET_KEYSPACE answer obliges it to run the client's
// requests in that keyspace, an error answer leaves the previous keyspace in force; and the missing keyspace can only end
// in an error.
func c07UseAnsweredWithTransientError(c *Ctx, idx int) {
	r := c.R
	conns := 1 + idx%2
	comp := []string{"", "lz4"}[(idx/2)%2]
	scenario := map[string]interface{}{"kind": "c07-use-answered-with-transient-error", "idx": idx}
	c.Step("c07 USE answered with a transient error idx=%d conns=%d %q", idx, conns, comp)
	bed, err := px.NewBed(px.BedConfig{Hosts: 1 + idx%2, NumConns: conns, Keyspaces: c07Keyspaces, KeepBodies: true, ReconnectBase: time.Millisecond, ReconnectMax: 5 * time.Millisecond})
	if err != nil {
		r.Inconc("c07 transient USE error: cannot start bed: " + err.Error())
		return
	}
	defer bed.Close()
	cl, err := bed.ReadyClient(primitive.ProtocolVersion4, comp)
	if err != nil {
		r.Inconc("c07 transient USE error: handshake: " + err.Error())
		return
	}
	defer cl.Close()
	opts := &message.QueryOptions{Consistency: primitive.ConsistencyLevelOne}
	if f, err := cl.Call(1, &message.Query{Query: "USE ks1", Options: opts}, 10*time.Second); err != nil || f.OpCode != primitive.OpCodeResult {
		r.Inconc("c07 transient USE error: first USE failed")
		return
	}
	cur := "ks1"
	mkErrs := func(n int) []message.Error {
		var out []message.Error
		for i := 0; i < n; i++ {
			if (i+idx)%2 == 0 {
				out = append(out, &message.Overloaded{ErrorMessage: "node is overloaded"})
			} else {
				out = append(out, &message.IsBootstrapping{ErrorMessage: "node is bootstrapping"})
			}
		}
		return out
	}
	for step, target := range []string{fmt.Sprintf("ghost_%d", idx), "ks2", fmt.Sprintf("ghost2_%d", idx), "ks3"} {
		exists := target == "ks2" || target == "ks3"
		bed.Cluster.SetUseErrors(target, mkErrs(conns*(1+idx%2)*(1+step%2)))
		f, err := cl.Call(int16(10+step), &message.Query{Query: "USE " + target, Options: opts}, 30*time.Second)
		r.Eval(1)
		if err != nil || f == nil {
			r.Violate(mon.Violation{Signature: "C07/no-reply/use-answered-with-transient-error", Detail: fmt.Sprintf("USE %s (the backend answers the proxy's own USE with OVERLOADED / IS_BOOTSTRAPPING first): no reply", target), Scenario: scenario})
			return
		}
		ri := DecodeReply(comp, f)
		switch {
		case strings.HasPrefix(ri.Kind, "Error"):
			// the previous keyspace stays in force
		case ri.Kind == "SetKeyspace" && exists:
			cur = target
		case ri.Kind == "SetKeyspace":
			r.Violate(mon.Violation{Signature: "C07/failed-use-reply/use-answered-with-transient-error/answered-SetKeyspace", Detail: fmt.Sprintf("USE %s - a keyspace that does not exist; the backend answered the proxy's own USE with OVERLOADED / IS_BOOTSTRAPPING and then with 'keyspace does not exist' - was answered SET_KEYSPACE", target), Scenario: scenario})
			return
		}
		for k := 0; k < 4; k++ {
			tok := NewTok()
			df, err := cl.CallF(BuildRequest(primitive.ProtocolVersion4, int16(100+step*10+k), KQuery, true, tok, primitive.ConsistencyLevelOne), 15*time.Second)
			if err != nil || df == nil {
				r.Violate(mon.Violation{Signature: "C07/no-reply/after-use-answered-with-transient-error", Detail: fmt.Sprintf("request after USE %s got no reply", target), Scenario: scenario})
				return
			}
			di := DecodeReply(comp, df)
			if di.Kind != "Rows" || !di.HasEcho {
				r.Violate(mon.Violation{Signature: "C07/data-request-failed/after-use-answered-with-transient-error", Detail: fmt.Sprintf("USE %s was answered %s; the client's keyspace is therefore %q, but its next request was answered %s %q", target, ri.Kind, cur, di.Kind, di.ErrMsg), Scenario: scenario})
				return
			}
			r.Obs("echoes_checked", 1)
			if di.Echo.Ks != cur {
				r.Violate(mon.Violation{Signature: "C07/wrong-keyspace/after-use-answered-with-transient-error", Detail: fmt.Sprintf("USE %s was answered %s; the client's keyspace is therefore %q, but its next request ran in %q", target, ri.Kind, cur, di.Echo.Ks), Scenario: scenario})
				return
			}
		}
	}
	// the keyspace that was refused is created: the same USE, by the same client and by another one, now succeeds - a
	// refusal is an answer to one request, not something the proxy knows about the keyspace
	ghost := fmt.Sprintf("ghost_%d", idx)
	bed.Cluster.AddKeyspace(ghost)
	bed.Cluster.SetUseErrors(ghost, nil) // scripted answers the earlier step did not use up are not part of this one
	cl2, err := bed.ReadyClient(primitive.ProtocolVersion4, comp)
	if err != nil {
		r.Inconc("c07 transient USE error: handshake of the second client: " + err.Error())
		return
	}
	defer cl2.Close()
	for who, k := range []*rawcql.Client{cl, cl2} {
		f, err := k.Call(int16(300+who), &message.Query{Query: "USE " + ghost, Options: opts}, 30*time.Second)
		r.Eval(1)
		if err != nil || f == nil {
			r.Violate(mon.Violation{Signature: "C07/no-reply/use-of-a-keyspace-created-after-it-was-refused", Detail: "USE " + ghost + ": no reply", Scenario: scenario})
			return
		}
		if ri := DecodeReply(comp, f); ri.Kind != "SetKeyspace" {
			r.Violate(mon.Violation{Signature: "C07/use-refused-although-the-keyspace-exists-now", Detail: fmt.Sprintf("USE %s was refused while the keyspace did not exist; it was then created, and USE %s (client %d of 2) was answered %s %q", ghost, ghost, who+1, ri.Kind, ri.ErrMsg), Scenario: scenario})
			return
		}
		tok := NewTok()
		df, err := k.CallF(BuildRequest(primitive.ProtocolVersion4, int16(310+who), KQuery, true, tok, primitive.ConsistencyLevelOne), 15*time.Second)
		if err != nil || df == nil {
			r.Violate(mon.Violation{Signature: "C07/no-reply/after-use-of-a-keyspace-created-after-it-was-refused", Detail: "request after USE " + ghost + " got no reply", Scenario: scenario})
			return
		}
		if di := DecodeReply(comp, df); di.Kind != "Rows" || !di.HasEcho || di.Echo.Ks != ghost {
			r.Violate(mon.Violation{Signature: "C07/wrong-keyspace/after-use-of-a-keyspace-created-after-it-was-refused", Detail: fmt.Sprintf("USE %s was answered SET_KEYSPACE; the next request was answered %s %q in keyspace %q", ghost, di.Kind, di.ErrMsg, di.Echo.Ks), Scenario: scenario})
			return
		}
		r.Obs("echoes_checked", 1)
	}
	r.Obs("transient_use_error_histories", 1)
	r.NonTrivial(fmt.Sprintf("use-answered-with-transient-error/c%d/%s/%d", conns, comp, idx%4))
}

// c07FirstRequestsTogether: on a proxy that has no session yet, clients that differ in compression only (or in protocol
// version only, or in keyspace only) send their first forwarded request at the same moment, so that the sessions they need are
// being connected at the same time.  Every reply's echo names the keyspace, version and compression of the backend connection
// that served it: they must be the client's own.
func c07FirstRequestsTogether(c *Ctx, idx int) {
	r := c.R
	scenario := map[string]interface{}{"kind": "c07-first-requests-together", "idx": idx}
	c.Step("c07 first requests together idx=%d", idx)
	bed, err := px.NewBed(px.BedConfig{Hosts: 1 + idx%3, NumConns: 1 + idx%2, Keyspaces: c07Keyspaces, KeepBodies: true, MaxVersion: primitive.ProtocolVersion5})
	if err != nil {
		r.Inconc("c07 first requests together: cannot start bed: " + err.Error())
		return
	}
	defer bed.Close()
	type who struct {
		ver  primitive.ProtocolVersion
		comp string
		ks   string
		cl   *rawcql.Client
	}
	var ws []*who
	switch idx % 3 {
	case 0: // compression only
		ws = []*who{{ver: 4, comp: ""}, {ver: 4, comp: "lz4"}, {ver: 4, comp: "snappy"}, {ver: 4, comp: "lz4"}}
	case 1: // version only
		ws = []*who{{ver: 3, comp: ""}, {ver: 4, comp: ""}, {ver: 5, comp: ""}, {ver: 3, comp: ""}}
	default: // keyspace only (the USE is the first thing that needs the session)
		ws = []*who{{ver: 4, comp: "lz4", ks: "ks1"}, {ver: 4, comp: "lz4", ks: "ks2"}, {ver: 4, comp: "lz4", ks: ""}, {ver: 4, comp: "lz4", ks: "ks3"}}
	}
	for _, w := range ws {
		cl, err := bed.ReadyClient(w.ver, w.comp)
		if err != nil {
			r.Inconc("c07 first requests together: handshake: " + err.Error())
			return
		}
		defer cl.Close()
		w.cl = cl
	}
	start := make(chan struct{})
	var wg sync.WaitGroup
	var mu sync.Mutex
	var bad []string
	for i, w := range ws {
		wg.Add(1)
		go func(i int, w *who) {
			defer wg.Done()
			<-start
			if w.ks != "" {
				f, err := w.cl.Call(1, &message.Query{Query: "USE " + w.ks, Options: &message.QueryOptions{Consistency: primitive.ConsistencyLevelOne}}, 20*time.Second)
				if err != nil || f.OpCode != primitive.OpCodeResult {
					mu.Lock()
					bad = append(bad, fmt.Sprintf("client %d: USE %s failed", i, w.ks))
					mu.Unlock()
					return
				}
			}
			for k := 0; k < 6; k++ {
				tok := NewTok()
				f, err := w.cl.CallF(BuildRequest(w.ver, int16(10+k), KQuery, true, tok, primitive.ConsistencyLevelOne), 20*time.Second)
				if err != nil || f == nil {
					mu.Lock()
					bad = append(bad, fmt.Sprintf("client %d (v%d, %q, keyspace %q): request %d got no reply", i, w.ver, w.comp, w.ks, k))
					mu.Unlock()
					return
				}
				ri := DecodeReply(w.comp, f)
				r.Eval(1)
				if ri.Kind != "Rows" || !ri.HasEcho {
					mu.Lock()
					bad = append(bad, fmt.Sprintf("client %d (v%d, %q, keyspace %q): request %d answered %s %q", i, w.ver, w.comp, w.ks, k, ri.Kind, ri.ErrMsg))
					mu.Unlock()
					return
				}
				r.Obs("echoes_checked", 1)
				if ri.Echo.Ks != w.ks || ri.Echo.Ver != int(w.ver) || ri.Echo.Comp != w.comp {
					mu.Lock()
					bad = append(bad, fmt.Sprintf("client %d (v%d, compression %q, keyspace %q): request %d ran on a backend connection with v%d, compression %q, keyspace %q", i, w.ver, w.comp, w.ks, k, ri.Echo.Ver, ri.Echo.Comp, ri.Echo.Ks))
					mu.Unlock()
					return
				}
			}
		}(i, w)
	}
	close(start)
	wg.Wait()
	r.Obs("first_requests_together_cases", 1)
	r.NonTrivial(fmt.Sprintf("first-requests-together/%d/h%d", idx%3, 1+idx%3))
	if len(bad) > 0 {
		r.Violate(mon.Violation{Signature: fmt.Sprintf("C07/first-requests-together/%s", []string{"compression", "version", "keyspace"}[idx%3]),
			Detail: fmt.Sprintf("clients that differ in %s only sent their first requests at the same moment on a proxy without sessions: %s", []string{"compression", "protocol version", "keyspace"}[idx%3], strings.Join(bad, "; ")), Scenario: scenario})
	}
}

// c07ReconnectWhoseUseIsRefused: a client is in keyspace ks1; the backend connections of its session are lost, and the node
// takes 150 ms over the USE of every re-connect and then refuses it (overloaded) a few times before it accepts one.  Requests
// the client sends meanwhile may fail (there is no usable connection) - but whatever is executed is executed in ks1: a
// connection is not handed requests before its keyspace is set.
func c07ReconnectWhoseUseIsRefused(c *Ctx, idx int) {
	r := c.R
	conns := 1 + idx%2
	comp := []string{"", "lz4"}[(idx/2)%2]
	scenario := map[string]interface{}{"kind": "c07-reconnect-whose-use-is-refused", "idx": idx}
	c.Step("c07 reconnect whose USE is refused idx=%d conns=%d %q", idx, conns, comp)
	bed, err := px.NewBed(px.BedConfig{Hosts: 1, NumConns: conns, Keyspaces: c07Keyspaces, KeepBodies: true, ReconnectBase: 5 * time.Millisecond, ReconnectMax: 20 * time.Millisecond})
	if err != nil {
		r.Inconc("c07 reconnect/USE refused: cannot start bed: " + err.Error())
		return
	}
	defer bed.Close()
	cl, err := bed.ReadyClient(primitive.ProtocolVersion4, comp)
	if err != nil {
		r.Inconc("c07 reconnect/USE refused: handshake: " + err.Error())
		return
	}
	defer cl.Close()
	opts := &message.QueryOptions{Consistency: primitive.ConsistencyLevelOne}
	if f, err := cl.Call(1, &message.Query{Query: "USE ks1", Options: opts}, 10*time.Second); err != nil || f.OpCode != primitive.OpCodeResult {
		r.Inconc("c07 reconnect/USE refused: USE ks1 failed")
		return
	}
	bed.Cluster.SetSlowUse("ks1", 150*time.Millisecond)
	var errs []message.Error
	for i := 0; i < 3*conns; i++ {
		errs = append(errs, &message.Overloaded{ErrorMessage: "node is overloaded"})
	}
	bed.Cluster.SetUseErrors("ks1", errs)
	bed.Cluster.KillPooled(idx%3 == 0, 1)
	executed, failed := 0, 0
	for k := 0; k < 90; k++ {
		tok := NewTok()
		f, err := cl.CallF(BuildRequest(primitive.ProtocolVersion4, int16(10+k), KQuery, true, tok, primitive.ConsistencyLevelOne), 10*time.Second)
		r.Eval(1)
		if err != nil || f == nil {
			r.Violate(mon.Violation{Signature: "C07/no-reply/during-reconnects-whose-use-is-refused", Detail: "a request sent while the session's connections were being re-established got no reply", Scenario: scenario})
			return
		}
		ri := DecodeReply(comp, f)
		if ri.Kind == "Rows" && ri.HasEcho {
			executed++
			r.Obs("echoes_checked", 1)
			if ri.Echo.Ks != "ks1" {
				r.Violate(mon.Violation{Signature: "C07/wrong-keyspace/on-a-reconnected-connection-whose-use-is-unanswered", Detail: fmt.Sprintf("the client is in keyspace ks1; its session's backend connections were lost and the node takes 150 ms over the USE of each re-connect before refusing it: request %d sent meanwhile was executed on a backend connection in keyspace %q", k, ri.Echo.Ks), Scenario: scenario})
				return
			}
		} else {
			failed++
		}
		time.Sleep(10 * time.Millisecond)
	}
	bed.Cluster.SetSlowUse("ks1", 0)
	bed.Cluster.SetUseErrors("ks1", nil)
	r.Obs("reconnect_use_refused_cases", 1)
	r.Obs("reconnect_use_refused_requests_executed", executed)
	r.Obs("reconnect_use_refused_requests_failed", failed)
	if failed > 0 {
		r.NonTrivial(fmt.Sprintf("reconnect-whose-use-is-refused/c%d/%s", conns, comp))
	}
}
