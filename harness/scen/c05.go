//go:build verif

package scen

import (
	"fmt"
	"net"
	"runtime"
	"strings"
	"sync"
	"sync/atomic"
	"time"

	"github.com/datastax/cql-proxy/proxy"
	"github.com/datastax/go-cassandra-native-protocol/message"
	"github.com/datastax/go-cassandra-native-protocol/primitive"

	"verif/fakecass"
	"verif/model"
	"verif/mon"
	"verif/px"
	"verif/rawcql"
)

func init() {
	Register(&Runner{Prop: "C05", Level: "fault_enumeration",
		Rule:    "every complete outcome sequence of the documented-policy decision tree (exhaustive for small clusters, PRNG-sampled for larger ones) x request kind x idempotency class x (hosts, conns), driven one at a time through the real proxy; distinct = (hosts, conns, kind, class, outcome sequence); non-trivial = sequence length >= 2 or ends in a proxy-made error. Plus the four decision functions of NewDefaultRetryPolicy() over all retry counts 0-4 x field grids.",
		Shards:  shards(4, 16),
		Timeout: timeouts(8*time.Minute, 40*time.Minute),
		Run:     runC05})
}

// enumSeqs enumerates every complete outcome sequence of the model's decision tree over n hosts.
func enumSeqs(n int, idem bool, alphabet []model.Outcome) [][]model.Outcome {
	var out [][]model.Outcome
	var rec func(prefix []model.Outcome)
	rec = func(prefix []model.Outcome) {
		for _, o := range alphabet {
			seq := append(append([]model.Outcome{}, prefix...), o)
			_, _, final := model.Run(n, idem, seq)
			if final == model.FinalIncomplete {
				rec(seq)
			} else {
				out = append(out, seq)
			}
		}
	}
	rec(nil)
	return out
}

type seqCase struct {
	Hosts, Conns int
	Kind         ReqKind
	Idem         bool
	Seq          []model.Outcome
}

func (s seqCase) key() string {
	parts := make([]string, len(s.Seq))
	for i, o := range s.Seq {
		parts[i] = string(o)
	}
	return fmt.Sprintf("h%d/c%d/%s/idem=%v/%s", s.Hosts, s.Conns, s.Kind, s.Idem, strings.Join(parts, ","))
}

// seqBed is a proxy + cluster reused for many sequential sequence scenarios.
type seqBed struct {
	bed     *px.Bed
	cl      *rawcql.Client
	scripts *Scripts
	stream  int16
	hosts   int
	conns   int
}

func newSeqBed(hosts, conns int, graph bool) (*seqBed, error) {
	bed, err := px.NewBed(px.BedConfig{Hosts: hosts, NumConns: conns, Keyspaces: []string{"ks1"}, ReconnectBase: time.Millisecond, ReconnectMax: 3 * time.Millisecond, IdempotentGraph: graph})
	if err != nil {
		return nil, err
	}
	bed.OnHook(nil)
	sb := &seqBed{bed: bed, scripts: NewScripts(), hosts: hosts, conns: conns}
	// error answers come plain, with warnings, with a custom payload or with a tracing id (chosen by the token), and - for
	// two thirds of the (hosts, conns) shapes - compressed: the retry decision must not depend on how the error is dressed
	sb.scripts.Decorate = true
	bed.Cluster.SetScript(sb.scripts.Func())
	sb.cl, err = bed.ReadyClient(primitive.ProtocolVersion4, []string{"", "lz4", "snappy"}[(hosts+conns)%3])
	if err != nil {
		bed.Close()
		return nil, err
	}
	if err := PrepareStandard(bed, sb.cl, true); err != nil {
		bed.Close()
		return nil, err
	}
	return sb, nil
}

func (sb *seqBed) close() { sb.cl.Close(); sb.bed.Close() }

func (sb *seqBed) nextStream() int16 {
	sb.stream = (sb.stream + 1) % 20000
	return sb.stream
}

// runSeq drives one request through the proxy with the scripted outcome sequence and returns what was observed.
func (sb *seqBed) runSeq(kind ReqKind, idem bool, seq []model.Outcome) (tok string, attempts []*Attempt, reply *rawcql.Frame, err error) {
	tok = NewTok()
	sb.scripts.Set(tok, seq)
	mark := sb.bed.Log.Len()
	st := sb.nextStream()
	f := BuildRequest(primitive.ProtocolVersion4, st, kind, idem, tok, primitive.ConsistencyLevelQuorum)
	reply, err = sb.cl.CallF(f, 15*time.Second)
	evs := sb.bed.Log.Snapshot()
	if mark < len(evs) {
		evs = evs[mark:]
	}
	attempts = Traces(evs)[tok]
	lost := false
	for _, o := range seq {
		if o == model.ConnLost {
			lost = true
		}
	}
	if lost {
		WaitHealed(sb.bed, sb.hosts*sb.conns*len(sb.bed.Proxy.VerifSessions()), 10*time.Second)
	}
	return
}

func expectedIdem(kind ReqKind, idem bool, graphIdem bool) bool {
	switch kind {
	case KPrepare:
		return true
	case KGraph:
		return graphIdem
	}
	return idem
}

// checkSeq compares one observed run with the model. It reports C05 (and, for C04's predicate, the caller re-uses it).
func checkSeq(r *mon.Result, prop string, sc seqCase, truthIdem bool, tok string, attempts []*Attempt, reply *rawcql.Frame, callErr error) {
	positions, _, final := model.Run(sc.Hosts, truthIdem, sc.Seq)
	witness := func() interface{} {
		return map[string]interface{}{"case": sc.key(), "token": tok, "model_positions": positions, "model_final": final, "observed_attempts": attempts, "reply": fmt.Sprintf("%+v", replyInfo(reply)), "call_error": fmt.Sprint(callErr)}
	}
	scen := map[string]interface{}{"kind": "seq", "hosts": sc.Hosts, "conns": sc.Conns, "req": int(sc.Kind), "idem": sc.Idem, "seq": sc.Seq}
	cls := "idem"
	if !truthIdem {
		cls = "nonidem"
	}
	if callErr != nil || reply == nil {
		r.Violate(mon.Violation{Property: prop, Signature: fmt.Sprintf("%s/no-reply/%s/%s/%s", prop, sc.Kind, cls, seqShape(sc.Seq)), Detail: fmt.Sprintf("no reply for %s: %v", sc.key(), callErr), Scenario: scen, Witness: witness()})
		return
	}
	// attempts
	obs := make([]string, len(attempts))
	for i, a := range attempts {
		obs[i] = a.Outcome
	}
	bad := len(attempts) != len(positions)
	if !bad {
		first := attempts[0].Host
		for i, a := range attempts {
			want := ((first-1+positions[i])%sc.Hosts+sc.Hosts)%sc.Hosts + 1
			wantOut := string(sc.Seq[i])
			if sc.Kind == KPrepare && (sc.Seq[i] == model.Rows || sc.Seq[i] == model.Void) {
				wantOut = "Prepared"
			}
			if a.Host != want || a.Outcome != wantOut {
				bad = true
			}
		}
	}
	if bad {
		r.Violate(mon.Violation{Property: prop, Signature: fmt.Sprintf("%s/attempts-differ/%s/%s/%s", prop, sc.Kind, cls, seqShape(sc.Seq)),
			Detail: fmt.Sprintf("%s: model attempts at plan positions %v, observed %d attempts %v", sc.key(), positions, len(attempts), describe(attempts)), Scenario: scen, Witness: witness()})
		return
	}
	ri := replyInfo(reply)
	ok := true
	switch final {
	case model.FinalNoMoreHosts:
		ok = isNoMoreHosts(ri)
	case model.FinalConnLost:
		ok = isConnLostErr(ri)
	case model.FinalRelay:
		last := sc.Seq[len(positions)-1]
		switch last {
		case model.Rows:
			if sc.Kind == KPrepare {
				ok = ri.Kind == "Prepared"
			} else {
				ok = ri.Kind == "Rows" && ri.Tok == tok
			}
		case model.Void:
			if sc.Kind == KPrepare {
				ok = ri.Kind == "Prepared"
			} else {
				ok = ri.Kind == "Void"
			}
		default:
			ok = strings.HasPrefix(ri.Kind, "Error:") && ri.Tok == tok && strings.Contains(ri.ErrMsg, string(last))
		}
	}
	if !ok {
		r.Violate(mon.Violation{Property: prop, Signature: fmt.Sprintf("%s/final-differs/%s/%s/%s/%s", prop, sc.Kind, cls, final, seqShape(sc.Seq)),
			Detail: fmt.Sprintf("%s: model final %s, client got %+v", sc.key(), final, ri), Scenario: scen, Witness: witness()})
	}
}

func replyInfo(f *rawcql.Frame) ReplyInfo {
	if f == nil {
		return ReplyInfo{Kind: "(none)"}
	}
	if f.Flags.Contains(primitive.HeaderFlagCompressed) { // the sequence beds use clients with and without compression
		if ri := DecodeReply("lz4", f); ri.Err == nil {
			return ri
		}
		return DecodeReply("snappy", f)
	}
	return DecodeReply("", f)
}

func describe(as []*Attempt) string {
	var sb strings.Builder
	for _, a := range as {
		fmt.Fprintf(&sb, "[host %d %s]", a.Host, a.Outcome)
	}
	return sb.String()
}

func seqShape(seq []model.Outcome) string {
	parts := make([]string, len(seq))
	for i, o := range seq {
		parts[i] = string(o)
	}
	return strings.Join(parts, ",")
}

func runC05(c *Ctx) {
	r := c.R
	r.Assume("the retry count is the request's global number of policy-driven retries ('once' = retryCount == 0); fail-over after connection loss does not consume a retry")
	r.Assume("plan = hosts sorted by address, rotated by an unknown but fixed start (read off the first attempt)")
	r.Assume("PREPARE requests are treated as idempotent (preparing has no side effect)")
	r.Require("sequences_run", "decision_calls", "send_gate_cases", "same_host_retry_host_lost_cases", "partial_pool_cases", "partial_pool_lost_slot_0", "partial_pool_lost_slot_1", "host_removed_mid_plan_cases", "unprepared_along_the_plan_cases", "conn_lost_during_reprepare_cases", "plan_across_counter_wrap_requests")

	// (1) decision functions, exhaustive grid (every shard contributes a slice)
	decisionFunctions(c)

	// (2) sequence scenarios
	var cases []seqCase
	kinds := []ReqKind{KQuery, KExecute, KBatch, KPrepare}
	type cfg struct{ h, cn int }
	exhaustive := []cfg{{1, 1}, {1, 2}, {2, 1}, {2, 2}, {3, 1}}
	if !c.Quick() {
		exhaustive = []cfg{{1, 1}, {1, 2}, {2, 1}, {2, 2}, {3, 1}, {3, 2}, {4, 1}}
	}
	for _, g := range exhaustive {
		for _, idem := range []bool{true, false} {
			alpha := model.AllOutcomes
			if g.h >= 3 {
				alpha = model.CoreOutcomes
			}
			seqs := enumSeqs(g.h, idem, alpha)
			for i, s := range seqs {
				ks := kinds
				if !idem {
					ks = kinds[:3] // PREPARE is always idempotent
				}
				kind := ks[i%len(ks)]
				if g.h <= 2 || (!c.Quick() && g.h <= 3) {
					for _, k := range ks {
						cases = append(cases, seqCase{g.h, g.cn, k, idem, s})
					}
					continue
				}
				cases = append(cases, seqCase{g.h, g.cn, kind, idem, s})
			}
		}
	}
	// sampled: larger clusters, random walks down the decision tree
	rng := c.Rng(0)
	nSample := c.Pick(1500, 400000)
	for i := 0; i < nSample; i++ {
		h := 3 + rng.Intn(2)
		cn := 1 + rng.Intn(2)
		idem := rng.Intn(2) == 0
		var seq []model.Outcome
		for {
			o := model.AllOutcomes[rng.Intn(len(model.AllOutcomes))]
			if rng.Intn(3) > 0 { // bias towards outcomes that continue
				cont := []model.Outcome{model.Unavailable, model.Bootstrapping, model.Overloaded, model.ServerError, model.Truncate, model.ConnLost, model.ReadTimeoutRetry, model.WriteTimeoutLog}
				o = cont[rng.Intn(len(cont))]
			}
			seq = append(seq, o)
			if _, _, fin := model.Run(h, idem, seq); fin != model.FinalIncomplete {
				break
			}
		}
		ks := kinds
		if !idem {
			ks = kinds[:3]
		}
		cases = append(cases, seqCase{h, cn, ks[rng.Intn(len(ks))], idem, seq})
	}
	r.Extra["sequence_cases_total"] = len(cases)

	// group by bed
	beds := map[string]*seqBed{}
	defer func() {
		for _, b := range beds {
			b.close()
		}
	}()
	if c.Replay != nil && c.Replay["kind"] == "seq" {
		cases = []seqCase{replaySeqCase(c.Replay)}
	}
	for i, sc := range cases {
		if !c.Mine(i) && c.Replay == nil {
			continue
		}
		bk := fmt.Sprintf("%d/%d", sc.Hosts, sc.Conns)
		sb := beds[bk]
		if sb == nil {
			var err error
			sb, err = newSeqBed(sc.Hosts, sc.Conns, false)
			if err != nil {
				r.Inconc("cannot start bed " + bk + ": " + err.Error())
				continue
			}
			beds[bk] = sb
		}
		c.Step("seq %s", sc.key())
		tok, attempts, reply, err := sb.runSeq(sc.Kind, sc.Idem, sc.Seq)
		truth := expectedIdem(sc.Kind, sc.Idem, false)
		checkSeq(r, "C05", sc, truth, tok, attempts, reply, err)
		r.Eval(1)
		r.Obs("sequences_run", 1)
		r.Obs("attempts_observed", len(attempts))
		r.Obs("kind:"+sc.Kind.String(), 1)
		_, _, fin := model.Run(sc.Hosts, truth, sc.Seq)
		r.Obs("final:"+fin, 1)
		if len(sc.Seq) >= 2 || fin != model.FinalRelay {
			r.NonTrivial(sc.key())
		}
		if i%97 == 0 {
			r.Sample(map[string]interface{}{"case": sc.key(), "observed": describe(attempts), "reply": replyInfo(reply).Kind})
		}
		if err != nil { // the client connection may be unusable now; rebuild the bed
			sb.close()
			delete(beds, bk)
		}
	}
	r.Exhaustive = false
	// targeted: the request's connection dies between registration and write
	for i := 0; i < c.Pick(8, 800); i++ {
		if c.Mine(i) || c.Replay != nil {
			sendGate(c, i, i%2 == 0, 2+i%2)
		}
	}
	for i := 0; i < c.Pick(6, 600); i++ {
		if c.Mine(i+3) || c.Replay != nil {
			sameHostRetryHostLost(c, i, i%2 == 0, 1+i%3)
		}
	}
	for i := 0; i < c.Pick(24, 720); i++ {
		if c.Mine(i+2) || c.Replay != nil {
			hostRemovedMidPlan(c, i)
		}
	}
	for i := 0; i < c.Pick(21, 840); i++ {
		if c.Mine(i+3) || c.Replay != nil {
			unpreparedAlongThePlan(c, i)
		}
	}
	for i := 0; i < c.Pick(12, 480); i++ {
		if c.Mine(i+6) || c.Replay != nil {
			connLostDuringReprepare(c, i)
		}
	}
	for i := 0; i < c.Pick(8, 64); i++ {
		if c.Mine(i+4) || c.Replay != nil {
			planAcrossCounterWrap(c, i)
		}
	}
	// requests in flight on a connection the proxy closes itself (idle timeout, host removed): the idempotent ones fail over
	for i := 0; i < c.Pick(4, 120); i++ {
		if c.Mine(i+5) && c.Replay == nil {
			proxyClosesConn(c, 2000+i, []string{"idle-timeout", "host-removed"}[i%2])
		}
	}
	for i := 0; i < c.Pick(8, 480); i++ {
		if c.Mine(i+1) || c.Replay != nil {
			partialPool(c, i, 2+i%2)
		}
	}
}

func replaySeqCase(m map[string]interface{}) seqCase {
	sc := seqCase{Hosts: int(m["hosts"].(float64)), Conns: int(m["conns"].(float64)), Kind: ReqKind(int(m["req"].(float64))), Idem: m["idem"].(bool)}
	for _, o := range m["seq"].([]interface{}) {
		sc.Seq = append(sc.Seq, model.Outcome(o.(string)))
	}
	return sc
}

// decisionFunctions drives NewDefaultRetryPolicy()'s four functions over all retry counts and field values of interest.
func decisionFunctions(c *Ctx) {
	r := c.R
	p := proxy.NewDefaultRetryPolicy()
	conv := func(d proxy.RetryDecision) model.Decision {
		switch d {
		case proxy.RetrySame:
			return model.RetrySame
		case proxy.RetryNext:
			return model.RetryNext
		}
		return model.Return
	}
	n := 0
	bad := func(what string, got proxy.RetryDecision, want model.Decision) {
		r.Violate(mon.Violation{Signature: "C05/decision/" + what, Detail: fmt.Sprintf("%s: policy returned %v, documented policy says %v", what, got, want)})
	}
	for retry := 0; retry <= 4; retry++ {
		for rcv := int32(0); rcv <= 9; rcv++ {
			for blk := int32(0); blk <= 9; blk++ {
				for _, data := range []bool{false, true} {
					for _, cl := range []primitive.ConsistencyLevel{primitive.ConsistencyLevelOne, primitive.ConsistencyLevelQuorum, primitive.ConsistencyLevelAll} {
						m := &message.ReadTimeout{Consistency: cl, Received: rcv, BlockFor: blk, DataPresent: data}
						o := model.ReadTimeoutFew
						if data {
							o = model.ReadTimeoutData
						} else if rcv >= blk {
							o = model.ReadTimeoutRetry
						}
						want := model.Decide(o, true, retry)
						if got := p.OnReadTimeout(m, retry); conv(got) != want {
							bad(fmt.Sprintf("OnReadTimeout/retry=%d/received>=blockFor=%v/data=%v", retry, rcv >= blk, data), got, want)
						}
						n++
					}
				}
			}
		}
		wts := map[primitive.WriteType]model.Outcome{primitive.WriteTypeSimple: model.WriteTimeoutSimp, primitive.WriteTypeBatch: model.WriteTimeoutBat,
			primitive.WriteTypeUnloggedBatch: model.WriteTimeoutUnl, primitive.WriteTypeCounter: model.WriteTimeoutCnt, primitive.WriteTypeBatchLog: model.WriteTimeoutLog,
			primitive.WriteTypeCas: model.WriteTimeoutCas, primitive.WriteTypeView: model.WriteTimeoutSimp, primitive.WriteTypeCdc: model.WriteTimeoutSimp}
		for wt, o := range wts {
			for rcv := int32(0); rcv <= 3; rcv++ {
				for blk := int32(0); blk <= 3; blk++ {
					m := &message.WriteTimeout{Consistency: primitive.ConsistencyLevelQuorum, Received: rcv, BlockFor: blk, WriteType: wt}
					want := model.Decide(o, true, retry) // the policy function is only consulted for idempotent requests
					if got := p.OnWriteTimeout(m, retry); conv(got) != want {
						bad(fmt.Sprintf("OnWriteTimeout/retry=%d/type=%s", retry, wt), got, want)
					}
					n++
				}
			}
		}
		for req := int32(0); req <= 3; req++ {
			for alive := int32(0); alive <= 3; alive++ {
				m := &message.Unavailable{Consistency: primitive.ConsistencyLevelQuorum, Required: req, Alive: alive}
				want := model.Decide(model.Unavailable, true, retry)
				if got := p.OnUnavailable(m, retry); conv(got) != want {
					bad(fmt.Sprintf("OnUnavailable/retry=%d", retry), got, want)
				}
				n++
			}
		}
		errs := map[model.Outcome]message.Error{model.ServerError: &message.ServerError{}, model.Overloaded: &message.Overloaded{}, model.Truncate: &message.TruncateError{},
			model.ReadFailure: &message.ReadFailure{}, model.WriteFailure: &message.WriteFailure{}}
		for o, m := range errs {
			want := model.Decide(o, true, retry)
			if got := p.OnErrorResponse(m, retry); conv(got) != want {
				bad(fmt.Sprintf("OnErrorResponse/retry=%d/%s", retry, o), got, want)
			}
			n++
		}
	}
	r.Obs("decision_calls", n)
	r.Eval(n)
	r.NonTrivial("decision-functions/readtimeout")
	r.NonTrivial("decision-functions/writetimeout")
	r.NonTrivial("decision-functions/unavailable")
	r.NonTrivial("decision-functions/error")
}

// sendGate: the request's first Send is held between registration in the connection's pending table and the write; the
// connection dies meanwhile. The request never reached that host, so it must be answered with the next host's result
// (both idempotency classes), exactly once.
func sendGate(c *Ctx, idx int, idem bool, hosts int) {
	r := c.R
	cls := "nonidem"
	if idem {
		cls = "idem"
	}
	scenario := map[string]interface{}{"kind": "send-gate", "idem": idem, "hosts": hosts}
	c.Step("send-gate idx=%d idem=%v hosts=%d", idx, idem, hosts)
	bed, err := px.NewBed(px.BedConfig{Hosts: hosts, NumConns: 1, Keyspaces: []string{"ks1"}, ReconnectBase: 50 * time.Millisecond, ReconnectMax: 100 * time.Millisecond})
	if err != nil {
		r.Inconc("send-gate: cannot start bed: " + err.Error())
		return
	}
	defer bed.Close()
	gates := NewGates()
	armed := false
	bed.OnHook(func(ev *px.HookEvent) {
		if ev.Point == "clientconn.send.registered" && armed {
			gates.Handle(ev, bed.Cluster.HostIdxOfAddr(ev.Remote))
		} else if ev.Point == "clientconn.closing.flagged" {
			gates.Handle(ev, bed.Cluster.HostIdxOfAddr(ev.Remote))
		}
	})
	cl, err := bed.ReadyClient(primitive.ProtocolVersion4, "")
	if err != nil {
		r.Inconc("send-gate: handshake: " + err.Error())
		return
	}
	defer cl.Close()
	var keys []string
	for h := 1; h <= hosts; h++ {
		keys = append(keys, gateKey("clientconn.send.registered", h))
	}
	gates.Arm(keys...)
	armed = true
	tok := NewTok()
	mark := bed.Log.Len()
	ch := cl.Expect(1)
	if err := cl.SendF(BuildRequest(primitive.ProtocolVersion4, 1, KQuery, idem, tok, primitive.ConsistencyLevelQuorum)); err != nil {
		r.Inconc("send-gate: send: " + err.Error())
		return
	}
	first := 0
	waitFor(func() bool {
		for h := 1; h <= hosts; h++ {
			if gates.Await(gateKey("clientconn.send.registered", h), time.Millisecond) {
				first = h
				return true
			}
		}
		return false
	}, 10*time.Second)
	if first == 0 {
		gates.ReleaseAll()
		r.Inconc("send-gate: the request never reached the send gate")
		return
	}
	armed = false
	for h := 1; h <= hosts; h++ { // later sends (to the next host) must pass
		if h != first {
			gates.Release(gateKey("clientconn.send.registered", h))
		}
	}
	closingBefore := gates.Hits[gateKey("clientconn.closing.flagged", first)]
	bed.Cluster.KillPooled(false, first)
	// the dying connection's Closing has started (it is about to notify the registered request)
	waitFor(func() bool {
		gates.mu.Lock()
		defer gates.mu.Unlock()
		return gates.Hits[gateKey("clientconn.closing.flagged", first)] > closingBefore
	}, 5*time.Second)
	time.Sleep(2 * time.Millisecond)
	gates.Release(gateKey("clientconn.send.registered", first))
	reply, werr := cl.Wait(ch, 15*time.Second)
	// give a wrong second frame the chance to show up
	ProgressSteps(cl, 20, 900)
	evs := bed.Log.Snapshot()[mark:]
	attempts := Traces(evs)[tok]
	frames := cl.OnStream(1)
	r.Eval(1)
	r.Obs("send_gate_cases", 1)
	r.NonTrivial(fmt.Sprintf("send-gate/%s/h%d/first=%d", cls, hosts, first))
	if werr != nil || reply == nil {
		r.Violate(mon.Violation{Signature: "C05/send-gate/no-reply/" + cls, Detail: fmt.Sprintf("request held at the send gate of host %d while that connection died got no reply: %v (attempts %s)", first, werr, describe(attempts)), Scenario: scenario})
		return
	}
	ri := replyInfo(reply)
	if len(frames) != 1 {
		r.Violate(mon.Violation{Signature: "C05/send-gate/reply-count/" + cls, Detail: fmt.Sprintf("%d frames on the request's stream", len(frames)), Scenario: scenario})
	}
	// the request was never written to the first host (no arrival there); some other host answered Rows
	reachedFirst := false
	answeredRows := false
	for _, a := range attempts {
		if a.Host == first {
			reachedFirst = true
		}
		if a.Outcome == "Rows" {
			answeredRows = true
		}
	}
	if reachedFirst {
		r.Obs("send_gate_request_reached_first_host", 1) // the write won the race against the kill: nothing to judge
		return
	}
	if !idem && isConnLostErr(ri) && len(attempts) == 0 {
		// the proxy cannot tell a lost write from a lost connection: a connection-lost error is acceptable for a request that is
		// not idempotent as long as no other host executes it
		r.Obs("send_gate_nonidem_conn_lost_error_and_not_executed", 1)
		return
	}
	if hosts >= 2 && !(ri.Kind == "Rows" && ri.Tok == tok) {
		what := "no other host was tried"
		if answeredRows {
			what = "another host executed it successfully"
		}
		r.Violate(mon.Violation{Signature: "C05/send-gate/not-failed-over/" + cls + "/" + strings.SplitN(ri.Kind, " ", 2)[0], Detail: fmt.Sprintf("a %s request that was never written to host %d (its connection died between registration and write) was answered %s %q; %s (attempts %s)", cls, first, ri.Kind, ri.ErrMsg, what, describe(attempts)), Scenario: scenario, Witness: historyOf(evs, cl.ID, 1, tok)})
	}
}

// sameHostRetryHostLost: the policy decides "retry on the same host" for a response that is dispatched after that host
// was removed from the cluster (its pool is gone). The run must still terminate with exactly one reply.
func sameHostRetryHostLost(c *Ctx, idx int, idem bool, hosts int) {
	r := c.R
	cls := "nonidem"
	if idem {
		cls = "idem"
	}
	if hosts < 2 {
		hosts = 2
	}
	scenario := map[string]interface{}{"kind": "same-host-retry-host-lost", "idem": idem, "hosts": hosts}
	c.Step("same-host-retry-host-lost idx=%d idem=%v hosts=%d", idx, idem, hosts)
	bed, err := px.NewBed(px.BedConfig{Hosts: hosts, NumConns: 1, Keyspaces: []string{"ks1"}, ReconnectBase: 20 * time.Millisecond, ReconnectMax: 50 * time.Millisecond, RefreshWindow: 20 * time.Millisecond})
	if err != nil {
		r.Inconc("same-host-retry: cannot start bed: " + err.Error())
		return
	}
	defer bed.Close()
	gates := NewGates()
	var armed int32
	bed.OnHook(func(ev *px.HookEvent) {
		if ev.Point == "clientconn.receive.dispatch" && atomic.LoadInt32(&armed) == 1 {
			gates.Handle(ev, bed.Cluster.HostIdxOfAddr(ev.Remote))
		}
	})
	scripts := NewScripts()
	bed.Cluster.SetScript(scripts.Func())
	cl, err := bed.ReadyClient(primitive.ProtocolVersion4, "")
	if err != nil {
		r.Inconc("same-host-retry: handshake: " + err.Error())
		return
	}
	defer cl.Close()
	first := 0
	var tok string
	var ch chan *rawcql.Frame
	stream := int16(0)
	mark := bed.Log.Len()
	for try := 0; try < 6 && first <= 1; try++ {
		// the response of a request that landed on a host other than the control connection's host (host 1) is held
		tok = NewTok()
		scripts.Set(tok, []model.Outcome{model.ReadTimeoutRetry, model.Rows, model.Rows})
		var keys []string
		for h := 1; h <= hosts; h++ {
			keys = append(keys, gateKey("clientconn.receive.dispatch", h))
		}
		gates.Arm(keys...)
		atomic.StoreInt32(&armed, 1)
		stream++
		ch = cl.Expect(stream)
		if err := cl.SendF(BuildRequest(primitive.ProtocolVersion4, stream, KQuery, idem, tok, primitive.ConsistencyLevelQuorum)); err != nil {
			r.Inconc("same-host-retry: send: " + err.Error())
			return
		}
		first = 0
		waitFor(func() bool {
			for h := 1; h <= hosts; h++ {
				if gates.Await(gateKey("clientconn.receive.dispatch", h), time.Millisecond) {
					first = h
					return true
				}
			}
			return false
		}, 10*time.Second)
		atomic.StoreInt32(&armed, 0)
		if first <= 1 {
			gates.ReleaseAll()
			if first == 1 {
				_, _ = cl.Wait(ch, 10*time.Second)
			}
		}
	}
	if first <= 1 {
		gates.ReleaseAll()
		r.Inconc("same-host-retry: no response could be held on a host other than the control host")
		return
	}
	for h := 1; h <= hosts; h++ {
		if h != first {
			gates.Release(gateKey("clientconn.receive.dispatch", h))
		}
	}
	// the host leaves the cluster: peers table + topology event; wait for the observable refresh (system.peers re-queried)
	peersBefore := 0
	for _, x := range bed.Cluster.ControlConns() {
		peersBefore += x.PeersAnswered()
	}
	bed.Cluster.SetListed(first, false)
	ip := net.ParseIP(bed.Cluster.HostIP(first))
	bed.Cluster.Emit(&message.TopologyChangeEvent{ChangeType: primitive.TopologyChangeTypeRemovedNode, Address: &primitive.Inet{Addr: ip, Port: int32(bed.Cluster.Port)}})
	refreshed := waitFor(func() bool {
		n := 0
		for _, x := range bed.Cluster.ControlConns() {
			n += x.PeersAnswered()
		}
		return n > peersBefore
	}, 10*time.Second)
	time.Sleep(20 * time.Millisecond) // the removal events are delivered right after the refresh query is answered
	gates.Release(gateKey("clientconn.receive.dispatch", first))
	reply, werr := cl.Wait(ch, 5*time.Second)
	stepsOK := ProgressSteps(cl, 50, 900)
	if werr != nil || reply == nil { // late, but before the 50 round trips were over: answered
		if fs := cl.OnStream(stream); len(fs) > 0 {
			reply, werr = fs[0], nil
		}
	}
	r.Eval(1)
	r.Obs("same_host_retry_host_lost_cases", 1)
	if !refreshed {
		r.Obs("same_host_retry_refresh_not_observed", 1)
	}
	r.NonTrivial(fmt.Sprintf("same-host-retry-host-lost/%s/h%d/first=%d", cls, hosts, first))
	attempts := Traces(bed.Log.Snapshot()[mark:])[tok]
	if werr != nil || reply == nil {
		if !stepsOK {
			r.Inconc("same-host-retry: no reply and the client's OPTIONS round trips did not complete either")
			return
		}
		r.Violate(mon.Violation{Signature: "C05/same-host-retry-host-lost/never-terminates/" + cls, Detail: fmt.Sprintf("the policy retried on host %d, which had just been removed from the cluster: the request was never answered although the client completed 50 further round trips (attempts %s); goroutines in request code: %s", first, describe(attempts), requestGoroutines()), Scenario: scenario, Witness: requestGoroutines()})
		return
	}
	if n := len(cl.OnStream(stream)); n != 1 {
		r.Violate(mon.Violation{Signature: "C05/same-host-retry-host-lost/reply-count/" + cls, Detail: fmt.Sprintf("%d frames on the request's stream", n), Scenario: scenario})
	}
	ri := replyInfo(reply)
	r.Obs("same_host_retry_outcome:"+strings.SplitN(ri.Kind, " ", 2)[0], 1)
}

func requestGoroutines() string {
	buf := make([]byte, 2<<20)
	n := runtime.Stack(buf, true)
	var keep []string
	for _, g := range strings.Split(string(buf[:n]), "\n\n") {
		if strings.Contains(g, "proxy.(*request).executeInternal") {
			if len(g) > 1500 {
				g = g[:1500]
			}
			keep = append(keep, g)
		}
	}
	if len(keep) > 3 {
		keep = keep[:3]
	}
	return strings.Join(keep, "\n\n")
}

// partialPool: a host with two pooled connections loses one of them for good (the backend stops accepting, the other
// connection stays up). The host is still healthy: an idempotent request whose other hosts all answer with a retryable
// error must succeed on it ("succeeds whenever some host in its plan answers successfully").
func partialPool(c *Ctx, idx int, hosts int) {
	r := c.R
	scenario := map[string]interface{}{"kind": "partial-pool", "idx": idx, "hosts": hosts}
	c.Step("partial-pool idx=%d hosts=%d", idx, hosts)
	bed, err := px.NewBed(px.BedConfig{Hosts: hosts, NumConns: 2, Keyspaces: []string{"ks1"}, ReconnectBase: 120 * time.Millisecond, ReconnectMax: 200 * time.Millisecond, ConnectTimeout: 500 * time.Millisecond})
	if err != nil {
		r.Inconc("partial-pool: cannot start bed: " + err.Error())
		return
	}
	defer bed.Close()
	healthy := 1 + idx%hosts
	bed.Cluster.SetScript(func(a *fakecass.Arrival) fakecass.Outcome {
		if a.Host != healthy {
			return OutcomeFor(model.Overloaded, a.Token, a.Header.Version)
		}
		return fakecass.Rows()
	})
	// which slot of the healthy host's pool loses its connection is read off the pool's own hook
	var smu sync.Mutex
	var cleared []int
	bed.OnHook(func(ev *px.HookEvent) {
		if ev.Point == "connpool.slot.clear" && strings.HasPrefix(ev.Endpoint, bed.Cluster.HostIP(healthy)+":") {
			smu.Lock()
			cleared = append(cleared, ev.Idx)
			smu.Unlock()
		}
	})
	cl, err := bed.ReadyClient(primitive.ProtocolVersion4, "")
	if err != nil {
		r.Inconc("partial-pool: handshake: " + err.Error())
		return
	}
	defer cl.Close()
	pooledOpen := func() []*fakecass.Conn {
		var out []*fakecass.Conn
		for _, x := range bed.Cluster.Hosts[healthy-1].Conns() {
			if !x.IsRegistered() && !x.IsClosed() {
				out = append(out, x)
			}
		}
		return out
	}
	orig := pooledOpen()
	if len(orig) != 2 {
		r.Inconc(fmt.Sprintf("partial-pool: expected 2 pooled connections, found %d", len(orig)))
		return
	}
	first := (idx / hosts) % 2
	// round 1 loses one of the two connections, round 2 (after the pool has healed) the other one: both slots are covered
	for round, victim := range []*fakecass.Conn{orig[first], orig[1-first]} {
		smu.Lock()
		nCleared := len(cleared)
		smu.Unlock()
		bed.Cluster.Hosts[healthy-1].StopListener() // the lost connection cannot be replaced
		before := len(bed.Policy.Calls.Snapshot())
		victim.Kill(false)
		// phase "right after the loss": the proxy has noticed (the pool reported the slot) but not yet tried to reconnect;
		// phase "later": at least one reconnect of that slot has failed
		if !waitFor(func() bool { smu.Lock(); defer smu.Unlock(); return len(cleared) > nCleared }, 10*time.Second) {
			r.Inconc("partial-pool: the proxy did not notice the lost connection")
			return
		}
		// (the hook fires just before the pool empties the slot: give it the moment it needs; a pool that keeps the dead
		// connection in its slot longer than that is what this phase is about)
		nBefore := len(bed.BackendConns())
		waitFor(func() bool { return len(bed.BackendConns()) < nBefore }, 60*time.Millisecond)
		badEarly := 0
		for k := 0; k < 6; k++ {
			tok := NewTok()
			f, err := cl.CallF(BuildRequest(primitive.ProtocolVersion4, int16(100*round+50+k), KQuery, true, tok, primitive.ConsistencyLevelQuorum), 10*time.Second)
			r.Eval(1)
			if err != nil {
				badEarly++
				continue
			}
			if ri := replyInfo(f); !(ri.Kind == "Rows" && ri.Tok == tok && ri.Echo.Host == healthy) {
				badEarly++
			}
		}
		if badEarly > 0 {
			smu.Lock()
			slot := cleared[len(cleared)-1]
			smu.Unlock()
			r.Violate(mon.Violation{Signature: "C05/healthy-host-skipped/one-of-two-connections-down", Detail: fmt.Sprintf("host %d has just lost the connection in slot %d of its two-connection pool (no reconnect attempted yet) and has the other one up; every other host answers Overloaded: %d of 6 idempotent requests were not answered by host %d", healthy, slot, badEarly, healthy), Scenario: scenario})
			return
		}
		ok := waitFor(func() bool {
			n := 0
			for _, pc := range bed.Policy.Calls.Snapshot()[before:] {
				if pc.Kind == "delay" {
					n++
				}
			}
			return n >= 3
		}, 10*time.Second)
		if !ok {
			r.Inconc("partial-pool: the proxy did not notice the lost connection")
			return
		}
		smu.Lock()
		slot := cleared[len(cleared)-1]
		smu.Unlock()
		bad := 0
		var sample ReplyInfo
		for k := 0; k < 12; k++ {
			tok := NewTok()
			f, err := cl.CallF(BuildRequest(primitive.ProtocolVersion4, int16(100*round+k+1), KQuery, true, tok, primitive.ConsistencyLevelQuorum), 10*time.Second)
			r.Eval(1)
			if err != nil {
				bad++
				continue
			}
			ri := replyInfo(f)
			if !(ri.Kind == "Rows" && ri.Tok == tok && ri.Echo.Host == healthy) {
				bad++
				sample = ri
			}
		}
		r.Obs("partial_pool_cases", 1)
		r.Obs(fmt.Sprintf("partial_pool_lost_slot_%d", slot), 1)
		r.NonTrivial(fmt.Sprintf("partial-pool/h%d/healthy=%d/lost-slot=%d/round=%d", hosts, healthy, slot, round))
		if bad > 0 {
			r.Violate(mon.Violation{Signature: "C05/healthy-host-skipped/one-of-two-connections-down", Detail: fmt.Sprintf("host %d has the connection in slot %d of its two-connection pool down (it cannot be re-established) and the other one up; every other host answers Overloaded: %d of 12 idempotent requests were not answered by host %d (e.g. %s %q)", healthy, slot, bad, healthy, sample.Kind, sample.ErrMsg), Scenario: scenario})
			return
		}
		if round == 0 {
			if err := bed.Cluster.Hosts[healthy-1].Start(false); err != nil {
				r.Inconc("partial-pool: cannot restart the listener: " + err.Error())
				return
			}
			if !waitFor(func() bool { return len(pooledOpen()) == 2 }, 10*time.Second) {
				r.Inconc("partial-pool: the pool did not heal between the rounds")
				return
			}
		}
	}
}
