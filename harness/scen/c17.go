//go:build verif

package scen

import (
	"bytes"
	"crypto/md5"
	crand "crypto/rand"
	"crypto/tls"
	"crypto/x509"
	"crypto/x509/pkix"
	"encoding/binary"
	"encoding/hex"
	"encoding/pem"
	"fmt"
	"math/rand"
	"net"
	"os"
	"os/exec"
	"path/filepath"
	"regexp"
	"strings"
	"sync"
	"sync/atomic"
	"time"

	"github.com/datastax/go-cassandra-native-protocol/datatype"
	"github.com/datastax/go-cassandra-native-protocol/frame"
	"github.com/datastax/go-cassandra-native-protocol/message"
	"github.com/datastax/go-cassandra-native-protocol/primitive"

	"verif/fakecass"
	"verif/gen"
	"verif/mon"
	"verif/rawcql"
)

func init() {
	Register(&Runner{Prop: "C17", Level: "exploration",
		Rule:    "the real cql-proxy binary as a subprocess (plain build) per max-version setting, a fake backend behind it and two canary clients (plain and lz4) issuing a system SELECT and a forwarded tokenised query after every batch of hostile inputs; hostile client byte streams (valid frames with one header field mutated over its whole range, truncations at every header offset, lying body lengths up to 16 MiB, hostile strings in every string-typed field incl. keyspace names, deeply nested terms followed by a retryable error, hostile lz4/snappy bodies, wrong opcodes/directions, slow-loris, connections dropped mid-frame) and hostile backend replies (unknown/duplicate/negative streams, mismatched and request opcodes, short error bodies, garbage metadata, unsolicited and garbage EVENTs, other versions, random bytes, half frames, bad heartbeat replies, malformed system.local/peers rows at start-up, refresh and failover); oracle: process alive (no exit, no panic:/fatal error: on stderr) and both canaries answered correctly; distinct = (mutation kind, field, opcode, version); every case is non-trivial",
		Shards:  shards(3, 6),
		Timeout: timeouts(12*time.Minute, 90*time.Minute),
		Subproc: true,
		Run:     runC17})
}

type hostile struct {
	Kind  string // label: mutation kind/field
	Bytes []byte // raw bytes written on a fresh connection
	Slow  bool   // write in small pieces
	Keep  bool   // keep the connection open afterwards (do not close)
	Pre   string // "" | "startup" | "startup-lz4" | "startup-snappy": handshake first
	Then  []byte // bytes to send after Bytes with a short pause (e.g. the rest of a frame)
}

type c17Proc struct {
	cmd     *exec.Cmd
	stderr  string
	addr    string
	cluster *fakecass.Cluster
	log     *mon.Log
	done    chan struct{}
	exitErr error
	maxv    string
	tlsCfg  *tls.Config // != nil: the proxy listens with TLS (--proxy-cert-file / --proxy-key-file)
}

func (p *c17Proc) dial() (*rawcql.Client, error) {
	return rawcql.DialTLS(p.addr, primitive.ProtocolVersion4, nil, p.tlsCfg)
}

func c17Start(c *Ctx, maxv string, tag string) (*c17Proc, error) {
	return c17StartX(c, maxv, tag, "", nil)
}

// c17StartX: extra = further command-line flags; tlsCfg = how the harness' clients reach the proxy (nil: plain TCP)
func c17StartX(c *Ctx, maxv string, tag string, extra string, tlsCfg *tls.Config) (*c17Proc, error) {
	log := mon.NewLog(false)
	cluster, err := fakecass.New(fakecass.Config{Hosts: 2, Keyspaces: []string{"ks1"}, Log: log})
	if err != nil {
		return nil, err
	}
	port := freePort()
	dir := filepath.Join(c.Dir, "out", "logs", "c17")
	_ = os.MkdirAll(dir, 0o755)
	p := &c17Proc{addr: fmt.Sprintf("127.0.0.1:%d", port), cluster: cluster, log: log, done: make(chan struct{}), maxv: maxv, tlsCfg: tlsCfg,
		stderr: filepath.Join(dir, fmt.Sprintf("proxy-%s-s%d-%s-%d.stderr", maxv, c.Shard, tag, time.Now().UnixNano()%1000000))}
	ef, err := os.Create(p.stderr)
	if err != nil {
		cluster.Close()
		return nil, err
	}
	bin := filepath.Join(c.Dir, "out", "bin", "cql-proxy")
	// the address space of the proxy process is capped so that an allocation storm ends in the process's own
	// "fatal error: runtime: out of memory" (which the oracle sees) instead of the kernel's OOM killer picking a victim
	verFlag := ""
	if maxv == "v3" {
		verFlag = " --protocol-version v3" // the default (v4) would be above the maximum: refused at start-up
	}
	// heartbeats every 300 ms and a 3 s idle timeout make the proxy replace a backend connection that has gone quiet within
	// seconds; a deployment with long timeouts (tag "longidle...") has no such second line of defence
	hb, idle := "300ms", "3s"
	if strings.HasPrefix(tag, "longidle") {
		hb, idle = "5m", "10m"
	}
	fdLimit := ""
	if strings.HasPrefix(tag, "fd") {
		fdLimit = "ulimit -n " + strings.TrimPrefix(tag, "fd") + "; "
	}
	p.cmd = exec.Command("sh", "-c", fmt.Sprintf(fdLimit+"ulimit -v %d; exec %s --contact-points %s --port %d --bind %s --max-protocol-version %s%s --heartbeat-interval %s --idle-timeout %s --connect-timeout 2s%s",
		c17MemLimitKB, bin, cluster.ContactPoint(), cluster.Port, p.addr, maxv, verFlag, hb, idle, extra))
	p.cmd.Stdout = ef
	p.cmd.Stderr = ef
	p.cmd.Env = append(os.Environ(), "GOTRACEBACK=all")
	if err := p.cmd.Start(); err != nil {
		cluster.Close()
		return nil, err
	}
	go func() { p.exitErr = p.cmd.Wait(); _ = ef.Close(); close(p.done) }()
	ok := waitFor(func() bool {
		if !p.alive() {
			return true
		}
		cl, err := p.dial()
		if err != nil {
			return false
		}
		defer cl.Close()
		return cl.Options(1, 2*time.Second) == nil
	}, 30*time.Second)
	if !ok || !p.alive() {
		p.stop()
		return nil, fmt.Errorf("proxy did not start (alive=%v), stderr %s", p.alive(), p.stderr)
	}
	return p, nil
}

func (p *c17Proc) alive() bool {
	select {
	case <-p.done:
		return false
	default:
		return true
	}
}

func (p *c17Proc) stop() {
	if p.alive() {
		_ = p.cmd.Process.Kill()
		<-p.done
	}
	p.cluster.Close()
}

// canary runs both canaries; returns "" when both are answered correctly.
func (p *c17Proc) canary() string {
	for _, comp := range []string{"", "lz4"} {
		var last string
		okc := false
		timeouts := 0
		for attempt := 0; attempt < 12 && !okc; attempt++ {
			if !p.alive() {
				return "process exited"
			}
			if attempt > 0 {
				time.Sleep(500 * time.Millisecond) // pools the proxy itself closed reconnect with its default policy (seconds)
			}
			cl, err := p.dial()
			if err != nil {
				last = "dial: " + err.Error()
				continue
			}
			func() {
				defer cl.Close()
				if err := cl.Handshake(comp, 5*time.Second); err != nil {
					last = "handshake: " + err.Error()
					return
				}
				f, err := cl.Call(1, &message.Query{Query: "SELECT key, rpc_address FROM system.local", Options: &message.QueryOptions{Consistency: primitive.ConsistencyLevelOne}}, 5*time.Second)
				if err != nil {
					last = "system query: " + err.Error()
					return
				}
				if ri := DecodeReply(comp, f); ri.Kind != "Rows" {
					last = "system query answered " + ri.Kind
					return
				}
				tok := NewTok()
				f, err = cl.CallF(BuildRequest(primitive.ProtocolVersion4, 2, KQuery, true, tok, primitive.ConsistencyLevelOne), 5*time.Second)
				if err != nil {
					last = "forwarded query: " + err.Error()
					if err == rawcql.ErrTimeout {
						timeouts++
						if timeouts >= 2 { // the connection is open, local answers work, forwarded requests get no answer at all
							attempt = 99
						}
					}
					return
				}
				ri := DecodeReply(comp, f)
				if ri.Kind == "Rows" && ri.Tok == tok {
					okc = true
					return
				}
				last = fmt.Sprintf("forwarded query answered %s %q (token %q, sent %q)", ri.Kind, ri.ErrMsg, ri.Tok, tok)
				if ri.Kind == "Rows" && ri.Tok != tok {
					last = "WRONG ANSWER: " + last
					attempt = 99
				}
			}()
		}
		if !okc {
			return fmt.Sprintf("canary(%q): %s", comp, last)
		}
	}
	return ""
}

const c17MemLimitKB = 6 << 20 // 6 GiB of address space for the proxy under test

var panicRe = regexp.MustCompile(`(?m)^(panic: |fatal error: )`)

// ---------------------------------------------------------------------------------------------------------------------
// hostile client inputs

func hdr9(ver byte, flags byte, stream int16, op byte, blen int32) []byte {
	b := make([]byte, 9)
	b[0], b[1] = ver, flags
	binary.BigEndian.PutUint16(b[2:], uint16(stream))
	b[4] = op
	binary.BigEndian.PutUint32(b[5:], uint32(blen))
	return b
}

func encPlain(f *frame.Frame) []byte {
	var buf bytes.Buffer
	if err := rawcql.Plain.EncodeFrame(f, &buf); err != nil {
		return nil
	}
	b := buf.Bytes()
	binary.BigEndian.PutUint32(b[5:9], uint32(len(b)-9)) // the reference codec over-declares traced requests
	return b
}

func hostileStrings(rng *rand.Rand) map[string]string {
	long := strings.Repeat("k", 65535)
	return map[string]string{
		"empty": "", "dquote": `"`, "two-dquotes": `""`, "three-dquotes": `"""`, "unbalanced-open": `"abc`, "unbalanced-close": `abc"`, "quote-inside": `a"b`,
		"long-64k": long, "quoted-long": `"` + long[:60000] + `"`, "nul": "a\x00b", "invalid-utf8": "\xff\xfe\xfd", "only-space": "   ", "dot": ".", "semicolon": ";",
		"newline": "a\nb", "quoted-empty": `""`, "squote": `'`, "backslash": `\`, "unicode": "ключ", "system-lookalike": `"system`, "control": "\x01\x02\x7f",
	}
}

func c17ClientInputs(rng *rand.Rand, maxv string, n int, maxFrame int) []hostile {
	var out []hostile
	v4 := primitive.ProtocolVersion4
	q := func(s string) *frame.Frame {
		return frame.NewFrame(v4, 7, &message.Query{Query: s, Options: &message.QueryOptions{Consistency: primitive.ConsistencyLevelOne}})
	}
	valid := encPlain(q("SELECT * FROM ks1.t WHERE k = 'x'"))
	add := func(kind string, b []byte, pre string) { out = append(out, hostile{Kind: kind, Bytes: b, Pre: pre}) }
	// 1. header field mutations over their whole range
	for vb := 0; vb < 256; vb++ {
		b := append([]byte{}, valid...)
		b[0] = byte(vb)
		add(fmt.Sprintf("header/version=%#02x", vb), b, "startup")
	}
	for fl := 0; fl < 256; fl += 1 {
		b := append([]byte{}, valid...)
		b[1] = byte(fl)
		add(fmt.Sprintf("header/flags=%#02x", fl), b, "startup")
	}
	for _, st := range []int16{-1, -2, -32768, 32767, 0, 1} {
		b := append([]byte{}, valid...)
		binary.BigEndian.PutUint16(b[2:], uint16(st))
		add(fmt.Sprintf("header/stream=%d", st), b, "startup")
	}
	for op := 0; op < 256; op++ {
		b := append([]byte{}, valid...)
		b[4] = byte(op)
		add(fmt.Sprintf("header/opcode=%#02x", op), b, "startup")
		b2 := append([]byte{}, b...)
		b2[0] |= 0x80
		add(fmt.Sprintf("header/opcode=%#02x+response-bit", op), b2, "startup")
	}
	blen := len(valid) - 9
	for _, l := range []int{0, 1, blen - 1, blen + 1, blen + 1000, 1 << 20, maxFrame, -1, -2147483648, 2147483647} {
		b := append([]byte{}, valid...)
		binary.BigEndian.PutUint32(b[5:], uint32(int32(l)))
		add(fmt.Sprintf("header/body-length=%d(actual %d)", l, blen), b, "startup")
		if l > blen && l <= maxFrame { // with the bytes following
			full := append(append([]byte{}, b...), bytes.Repeat([]byte{'z'}, l-blen)...)
			add(fmt.Sprintf("header/body-length=%d-with-bytes", l), full, "startup")
		}
	}
	// 2. truncations
	for cut := 0; cut < 9; cut++ {
		add(fmt.Sprintf("truncated/header-at-%d", cut), valid[:cut], "startup")
	}
	for _, cut := range []int{9, 10, 12, 13, len(valid) / 2, len(valid) - 1} {
		add(fmt.Sprintf("truncated/body-at-%d", cut), valid[:cut], "startup")
	}
	add("no-startup/query-first", valid, "")
	// 3. hostile strings in every string-typed field
	hs := hostileStrings(rng)
	for name, s := range hs {
		add("string/query="+name, encPlain(q(s)), "startup")
		add("string/use-keyspace="+name, encPlain(q("USE "+s)), "startup")
		add("string/use-quoted-keyspace="+name, encPlain(q(`USE "`+s+`"`)), "startup")
		add("string/select-from="+name, encPlain(q("SELECT * FROM "+s+".local")), "startup")
		add("string/select-table="+name, encPlain(q("SELECT * FROM system."+s)), "startup")
		add("string/select-selector="+name, encPlain(q("SELECT "+s+" FROM system.local")), "startup")
		add("string/prepare="+name, encPlain(frame.NewFrame(v4, 7, &message.Prepare{Query: s})), "startup")
		add("string/startup-key="+name, encPlain(frame.NewFrame(v4, 1, &message.Startup{Options: map[string]string{s: "x", "CQL_VERSION": "3.0.0"}})), "")
		add("string/startup-compression="+name, encPlain(frame.NewFrame(v4, 1, &message.Startup{Options: map[string]string{"COMPRESSION": s, "CQL_VERSION": "3.0.0"}})), "")
		add("string/batch-child="+name, encPlain(frame.NewFrame(v4, 7, &message.Batch{Type: primitive.BatchTypeLogged, Consistency: primitive.ConsistencyLevelOne, Children: []*message.BatchChild{{Query: s}, {Query: "USE " + s}}})), "startup")
		if len(s) < 60000 {
			add("string/named-value-name="+name, encPlain(frame.NewFrame(v4, 7, &message.Query{Query: "INSERT INTO ks1.t (k) VALUES (:a)", Options: &message.QueryOptions{Consistency: primitive.ConsistencyLevelOne, NamedValues: map[string]*primitive.Value{s: primitive.NewValue([]byte("v"))}}})), "startup")
		}
		for _, v := range []primitive.ProtocolVersion{primitive.ProtocolVersion5, primitive.ProtocolVersionDse2} {
			add(fmt.Sprintf("string/prepare-keyspace-v%d=%s", v, name), encPlain(frame.NewFrame(v, 7, &message.Prepare{Query: "SELECT * FROM t WHERE k = ?", Keyspace: s})), "startup")
			add(fmt.Sprintf("string/query-keyspace-v%d=%s", v, name), encPlain(frame.NewFrame(v, 7, &message.Query{Query: "SELECT * FROM local", Options: &message.QueryOptions{Consistency: primitive.ConsistencyLevelOne, Keyspace: s}})), "startup")
		}
	}
	// REGISTER with garbage event types / empty list
	regBody := func(types ...string) []byte {
		var b bytes.Buffer
		_ = binary.Write(&b, binary.BigEndian, uint16(len(types)))
		for _, t := range types {
			_ = binary.Write(&b, binary.BigEndian, uint16(len(t)))
			b.WriteString(t)
		}
		return append(hdr9(4, 0, 3, byte(primitive.OpCodeRegister), int32(b.Len())), b.Bytes()...)
	}
	add("register/empty-list", regBody(), "startup")
	add("register/garbage-types", regBody("NOPE", "", "\xff"), "startup")
	add("register/count-larger-than-present", append(hdr9(4, 0, 3, byte(primitive.OpCodeRegister), 2), 0xff, 0xff), "startup")
	// 4. deep nesting (the backend answers Overloaded so that an idempotency decision is forced)
	for _, br := range []string{"[", "(", "{"} {
		for _, depth := range []int{1000, 100000, maxFrame / 2, maxFrame - 200} {
			s := "INSERT INTO ks1.t (k, v) VALUES ('T00000000deadbeef', " + strings.Repeat(br, depth) + ")"
			add(fmt.Sprintf("nesting/%s x %d", br, depth), encPlain(q(s)), "startup")
		}
	}
	add("nesting/where-parens", encPlain(q("UPDATE ks1.t SET v = 1 WHERE k = 'T00000000deadbeef' AND "+strings.Repeat("(", maxFrame/2))), "startup")
	// 5. hostile compressed bodies
	lzBody := func(declared uint32, block []byte) []byte {
		b := make([]byte, 4, 4+len(block))
		binary.BigEndian.PutUint32(b, declared)
		return append(b, block...)
	}
	plainBody := valid[9:]
	for _, d := range []uint32{0, 1, uint32(len(plainBody)) - 1, uint32(len(plainBody)) + 1, 1 << 20, 1 << 30, 0xffffffff} {
		body := lzBody(d, append([]byte{byte(len(plainBody) << 4)}, plainBody...)) // one literal run (only valid for short bodies)
		add(fmt.Sprintf("lz4/lying-length=%d", d), append(hdr9(4, 1, 7, 7, int32(len(body))), body...), "startup-lz4")
	}
	add("lz4/back-reference-before-start", func() []byte {
		body := lzBody(64, []byte{0x1f, 'a', 0xff, 0xff, 0x50, 'b', 'c', 'd', 'e', 'f'})
		return append(hdr9(4, 1, 7, 7, int32(len(body))), body...)
	}(), "startup-lz4")
	add("lz4/truncated-block", func() []byte {
		body := lzBody(1000, []byte{0xf0, 0xff, 0xff})
		return append(hdr9(4, 1, 7, 7, int32(len(body))), body...)
	}(), "startup-lz4")
	add("lz4/empty-body-with-flag", hdr9(4, 1, 7, 7, 0), "startup-lz4")
	add("lz4/compressed-flag-without-negotiation", append(hdr9(4, 1, 7, 7, 8), 0, 0, 0, 4, 0x40, 'a', 'b', 'c'), "startup")
	for i := 0; i < 40; i++ {
		body := make([]byte, 4+rng.Intn(200))
		rng.Read(body)
		binary.BigEndian.PutUint32(body, uint32(rng.Intn(5000)))
		add("lz4/random-block", append(hdr9(4, 1, 7, 7, int32(len(body))), body...), "startup-lz4")
		body2 := make([]byte, 1+rng.Intn(200))
		rng.Read(body2)
		add("snappy/random-block", append(hdr9(4, 1, 7, 7, int32(len(body2))), body2...), "startup-snappy")
	}
	// 5a. LZ4 blocks whose last match ends before / at / up to 8 bytes past the announced decompressed length, with and
	// without length-extension bytes, the match overlapping itself or not
	for lits := 1; lits <= 6; lits++ {
		for _, mlen := range []int{4, 5, 7, 18, 19, 20, 274} {
			for _, over := range []int{-2, -1, 0, 1, 2, 3, 4, 5, 8} {
				announced := lits + mlen - over
				if announced < 1 {
					continue
				}
				off := 1 + (lits+mlen+over+8)%lits
				var blk []byte
				ml := mlen - 4
				tok := byte(lits << 4)
				if ml >= 15 {
					tok |= 15
				} else {
					tok |= byte(ml)
				}
				blk = append(blk, tok)
				blk = append(blk, plainBody[:lits]...)
				blk = append(blk, byte(off), 0)
				if ml >= 15 {
					rest := ml - 15
					for rest >= 255 {
						blk = append(blk, 255)
						rest -= 255
					}
					blk = append(blk, byte(rest))
				}
				body := lzBody(uint32(announced), blk)
				add(fmt.Sprintf("lz4/last-match-ends-%+d-from-announced-length/lits=%d/match=%d", over, lits, mlen), append(hdr9(4, 1, 7, 7, int32(len(body))), body...), "startup-lz4")
			}
		}
	}
	// 5c. what a connection does first: every ordered pair of (QUERY | PREPARE | PREPARE+EXECUTE) x statement on a fresh
	// connection (statements the proxy answers itself are prepared under md5(text))
	{
		stmts := []string{"USE ks1", "USE system", `USE "ks1"`, "SELECT * FROM system.local", "SELECT * FROM system.peers", "SELECT * FROM system.peers_v2",
			"SELECT count(*) FROM system.peers", "SELECT key, rpc_address AS a FROM system.local", "SELECT * FROM ks1.t WHERE k = 'x'", "INSERT INTO ks1.t (k, v) VALUES ('x', now())", "SELECT * FROM system.nope", "garbage ("}
		type sop struct {
			name string
			b    []byte
		}
		var ops []sop
		for si, st := range stmts {
			qf := encPlain(frame.NewFrame(v4, int16(10+si), &message.Query{Query: st, Options: &message.QueryOptions{Consistency: primitive.ConsistencyLevelOne}}))
			pf := encPlain(frame.NewFrame(v4, int16(40+si), &message.Prepare{Query: st}))
			id := md5.Sum([]byte(st))
			ef := encPlain(frame.NewFrame(v4, int16(70+si), &message.Execute{QueryId: id[:], Options: &message.QueryOptions{Consistency: primitive.ConsistencyLevelOne}}))
			ops = append(ops, sop{"query:" + st, qf}, sop{"prepare:" + st, pf}, sop{"prepare+execute:" + st, append(append([]byte{}, pf...), ef...)}, sop{"execute-unprepared:" + st, ef})
		}
		for _, a := range ops {
			for _, b := range ops {
				out = append(out, hostile{Kind: "first-on-connection/" + a.name + " then " + b.name, Bytes: a.b, Then: b.b, Pre: "startup"})
			}
		}
	}
	add("snappy/huge-declared-length", append(hdr9(4, 1, 7, 7, 6), 0xff, 0xff, 0xff, 0xff, 0x0f, 0x00), "startup-snappy")
	// 5b. tiny frames whose inner length fields claim gigabytes
	claim := func(kind string, op byte, body []byte, flags byte) {
		add("length-claim/"+kind, append(hdr9(4, flags, 7, op, int32(len(body))), body...), "startup")
	}
	for _, n := range []uint32{1 << 26, 1 << 30, 0x7fffffff} {
		l := []byte{byte(n >> 24), byte(n >> 16), byte(n >> 8), byte(n)}
		claim(fmt.Sprintf("query-string=%d", n), 7, append(append([]byte{}, l...), 'S', 'E', 'L'), 0)
		claim(fmt.Sprintf("prepare-string=%d", n), 9, append(append([]byte{}, l...), 'S', 'E', 'L'), 0)
		claim(fmt.Sprintf("auth-response-token=%d", n), 0x0f, append(append([]byte{}, l...), 'x'), 0)
		claim(fmt.Sprintf("custom-payload-value=%d", n), 7, append(append([]byte{0, 1, 0, 1, 'k'}, l...), 'v'), 4)
		claim(fmt.Sprintf("batch-child-string=%d", n), 0x0d, append(append([]byte{0, 0, 1, 0}, l...), 'I', 'N', 'S'), 0)
		claim(fmt.Sprintf("query-value=%d", n), 7, append(append([]byte{0, 0, 0, 1, 'x', 0, 1, 1, 0, 1}, l...), 'v'), 0)
	}
	// 6. slow-loris and mid-frame drops
	out = append(out, hostile{Kind: "slow-loris/valid-frame-byte-by-byte", Bytes: valid, Slow: true, Pre: "startup"})
	out = append(out, hostile{Kind: "slow-loris/half-header-then-silence", Bytes: valid[:5], Keep: true, Pre: "startup"})
	out = append(out, hostile{Kind: "slow-loris/half-body-then-silence", Bytes: valid[:len(valid)-3], Keep: true, Pre: "startup"})
	// 7. mutated generator frames: one random byte flipped / truncated, all opcodes
	ops := []primitive.OpCode{primitive.OpCodeQuery, primitive.OpCodeExecute, primitive.OpCodeBatch, primitive.OpCodePrepare}
	for len(out) < n {
		vs := []primitive.ProtocolVersion{3, 4, 5, 0x41, 0x42}
		v := vs[rng.Intn(len(vs))]
		op := ops[rng.Intn(len(ops))]
		f, desc := gen.RandomRequest(rng, v, op, 512, "T00000000deadbeef")
		b := encPlain(f)
		if b == nil {
			continue
		}
		switch rng.Intn(4) {
		case 0:
			i := 9 + rng.Intn(len(b)-9+1)
			if i < len(b) {
				b[i] ^= byte(1 + rng.Intn(255))
			}
			add(fmt.Sprintf("mutated/%s/%s/byte-flip", desc.Version, desc.OpCode), b, "startup")
		case 1:
			cut := 9 + rng.Intn(len(b)-9+1)
			b = b[:cut]
			binary.BigEndian.PutUint32(b[5:9], uint32(cut-9))
			add(fmt.Sprintf("mutated/%s/%s/truncated-body-consistent-length", desc.Version, desc.OpCode), b, "startup")
		case 2:
			for k := 0; k < 4; k++ {
				i := 9 + rng.Intn(len(b)-9+1)
				if i < len(b) {
					b[i] = byte(rng.Intn(256))
				}
			}
			add(fmt.Sprintf("mutated/%s/%s/4-random-bytes", desc.Version, desc.OpCode), b, "startup")
		default:
			junk := make([]byte, rng.Intn(300))
			rng.Read(junk)
			add("random-bytes", junk, []string{"", "startup"}[rng.Intn(2)])
		}
	}
	return out
}

func (p *c17Proc) sendHostile(h hostile) {
	nc, err := net.DialTimeout("tcp", p.addr, 5*time.Second)
	if err != nil {
		return
	}
	_ = nc.SetDeadline(time.Now().Add(15 * time.Second))
	if strings.HasPrefix(h.Pre, "startup") {
		opts := map[string]string{"CQL_VERSION": "3.0.0"}
		if strings.HasSuffix(h.Pre, "-lz4") {
			opts["COMPRESSION"] = "lz4"
		} else if strings.HasSuffix(h.Pre, "-snappy") {
			opts["COMPRESSION"] = "snappy"
		}
		_, _ = nc.Write(encPlain(frame.NewFrame(primitive.ProtocolVersion4, 0, &message.Startup{Options: opts})))
		buf := make([]byte, 9)
		_, _ = nc.Read(buf)
	}
	if h.Slow {
		for i := 0; i < len(h.Bytes); i++ {
			_, _ = nc.Write(h.Bytes[i : i+1])
			time.Sleep(200 * time.Microsecond)
		}
	} else {
		for off := 0; off < len(h.Bytes); off += 1 << 20 {
			end := off + 1<<20
			if end > len(h.Bytes) {
				end = len(h.Bytes)
			}
			if _, err := nc.Write(h.Bytes[off:end]); err != nil {
				break
			}
		}
	}
	if h.Then != nil {
		_ = nc.SetReadDeadline(time.Now().Add(20 * time.Millisecond))
		_, _ = nc.Read(make([]byte, 4096))
		_, _ = nc.Write(h.Then)
	}
	if h.Keep {
		go func() { time.Sleep(3 * time.Second); _ = nc.Close() }()
		return
	}
	// give the proxy a moment to answer or close, then drop the connection
	_ = nc.SetReadDeadline(time.Now().Add(30 * time.Millisecond))
	buf := make([]byte, 4096)
	_, _ = nc.Read(buf)
	_ = nc.Close()
}

// ---------------------------------------------------------------------------------------------------------------------
// hostile backend replies

type backendHostility struct {
	Kind string
	Make func(a *fakecass.Arrival) fakecass.Outcome
}

func respFrame(v primitive.ProtocolVersion, flags byte, stream int16, op byte, body []byte) []byte {
	return append(hdr9(byte(v)|0x80, flags, stream, op, int32(len(body))), body...)
}

func c17BackendHostilities(rng *rand.Rand) []backendHostility {
	raw := func(kind string, mk func(a *fakecass.Arrival) []byte, drop int) backendHostility {
		return backendHostility{kind, func(a *fakecass.Arrival) fakecass.Outcome {
			return fakecass.Outcome{Name: kind, RawFrame: mk(a), Drop: drop}
		}}
	}
	voidBody := []byte{0, 0, 0, 1}
	var hs []backendHostility
	hs = append(hs,
		raw("reply/unknown-stream", func(a *fakecass.Arrival) []byte { return respFrame(a.Header.Version, 0, a.Stream+1000, 8, voidBody) }, 0),
		raw("reply/negative-stream", func(a *fakecass.Arrival) []byte { return respFrame(a.Header.Version, 0, -5, 8, voidBody) }, 0),
		raw("reply/duplicate", func(a *fakecass.Arrival) []byte {
			f := respFrame(a.Header.Version, 0, a.Stream, 8, voidBody)
			return append(append([]byte{}, f...), f...)
		}, 0),
		raw("reply/request-opcode-with-response-bit", func(a *fakecass.Arrival) []byte { return respFrame(a.Header.Version, 0, a.Stream, 7, voidBody) }, 0),
		raw("reply/request-direction", func(a *fakecass.Arrival) []byte {
			f := respFrame(a.Header.Version, 0, a.Stream, 8, voidBody)
			f[0] &= 0x7f
			return f
		}, 0),
		raw("reply/opcode-supported-for-query", func(a *fakecass.Arrival) []byte { return respFrame(a.Header.Version, 0, a.Stream, 6, []byte{0, 0}) }, 0),
		raw("reply/opcode-ready-for-query", func(a *fakecass.Arrival) []byte { return respFrame(a.Header.Version, 0, a.Stream, 2, nil) }, 0),
		raw("reply/opcode-auth-challenge", func(a *fakecass.Arrival) []byte {
			return respFrame(a.Header.Version, 0, a.Stream, 0x0e, []byte{0, 0, 0, 0})
		}, 0),
		raw("reply/unknown-opcode", func(a *fakecass.Arrival) []byte { return respFrame(a.Header.Version, 0, a.Stream, 0x7f, voidBody) }, 0),
		raw("reply/error-empty-body", func(a *fakecass.Arrival) []byte { return respFrame(a.Header.Version, 0, a.Stream, 0, nil) }, 0),
		raw("reply/error-3-bytes", func(a *fakecass.Arrival) []byte {
			return respFrame(a.Header.Version, 0, a.Stream, 0, []byte{0, 0, 0x10})
		}, 0),
		raw("reply/error-code-only", func(a *fakecass.Arrival) []byte {
			return respFrame(a.Header.Version, 0, a.Stream, 0, []byte{0, 0, 0x10, 0})
		}, 0),
		raw("reply/error-unavailable-missing-fields", func(a *fakecass.Arrival) []byte {
			return respFrame(a.Header.Version, 0, a.Stream, 0, []byte{0, 0, 0x10, 0, 0, 1, 'x'})
		}, 0),
		raw("reply/error-unprepared-missing-id", func(a *fakecass.Arrival) []byte {
			return respFrame(a.Header.Version, 0, a.Stream, 0, []byte{0, 0, 0x25, 0, 0, 1, 'x'})
		}, 0),
		raw("reply/error-unprepared-huge-id-length", func(a *fakecass.Arrival) []byte {
			return respFrame(a.Header.Version, 0, a.Stream, 0, []byte{0, 0, 0x25, 0, 0, 1, 'x', 0xff, 0xff})
		}, 0),
		raw("reply/error-unknown-code", func(a *fakecass.Arrival) []byte {
			return respFrame(a.Header.Version, 0, a.Stream, 0, []byte{0x7f, 0xff, 0xff, 0xff, 0, 1, 'x'})
		}, 0),
		raw("reply/result-unknown-kind", func(a *fakecass.Arrival) []byte {
			return respFrame(a.Header.Version, 0, a.Stream, 8, []byte{0, 0, 0, 9})
		}, 0),
		raw("reply/result-rows-garbage-metadata", func(a *fakecass.Arrival) []byte {
			return respFrame(a.Header.Version, 0, a.Stream, 8, []byte{0, 0, 0, 2, 0xff, 0xff, 0xff, 0xff, 0x7f, 0xff, 0xff, 0xff})
		}, 0),
		raw("reply/result-prepared-garbage", func(a *fakecass.Arrival) []byte {
			return respFrame(a.Header.Version, 0, a.Stream, 8, []byte{0, 0, 0, 4, 0xff, 0xff, 1, 2, 3})
		}, 0),
		raw("reply/result-empty-body", func(a *fakecass.Arrival) []byte { return respFrame(a.Header.Version, 0, a.Stream, 8, nil) }, 0),
		raw("reply/flags-all-set", func(a *fakecass.Arrival) []byte { return respFrame(a.Header.Version, 0xff, a.Stream, 8, voidBody) }, 0),
		raw("reply/compressed-flag-plain-body", func(a *fakecass.Arrival) []byte {
			return respFrame(a.Header.Version, 0x01, a.Stream, 0, []byte{0, 0, 0x10, 1, 0, 1, 'x'})
		}, 0),
		raw("reply/tracing-flag-short-body", func(a *fakecass.Arrival) []byte {
			return respFrame(a.Header.Version, 0x02, a.Stream, 0, []byte{0, 0, 0x10, 1})
		}, 0),
		raw("reply/warning-flag-garbage", func(a *fakecass.Arrival) []byte {
			return respFrame(a.Header.Version, 0x08, a.Stream, 0, []byte{0xff, 0xff, 0, 0})
		}, 0),
		raw("reply/other-version-3", func(a *fakecass.Arrival) []byte { return respFrame(3, 0, a.Stream, 8, voidBody) }, 0),
		raw("reply/other-version-5", func(a *fakecass.Arrival) []byte { return respFrame(5, 0, a.Stream, 8, voidBody) }, 0),
		raw("reply/version-2-short-header", func(a *fakecass.Arrival) []byte { return []byte{0x82, 0, byte(a.Stream), 8, 0, 0, 0, 4, 0, 0, 0, 1} }, 0),
		raw("reply/unsupported-version-byte", func(a *fakecass.Arrival) []byte { return respFrame(0x7f, 0, a.Stream, 8, voidBody) }, 0),
		raw("reply/negative-body-length", func(a *fakecass.Arrival) []byte {
			f := respFrame(a.Header.Version, 0, a.Stream, 8, voidBody)
			binary.BigEndian.PutUint32(f[5:9], 0xffffffff)
			return f
		}, 0),
		raw("reply/huge-body-length-then-close", func(a *fakecass.Arrival) []byte {
			f := respFrame(a.Header.Version, 0, a.Stream, 8, voidBody)
			binary.BigEndian.PutUint32(f[5:9], 0x7fffffff)
			return f
		}, 2),
		raw("reply/half-frame-then-silence", func(a *fakecass.Arrival) []byte { return respFrame(a.Header.Version, 0, a.Stream, 8, voidBody)[:6] }, 0),
		raw("reply/half-frame-then-close", func(a *fakecass.Arrival) []byte { return respFrame(a.Header.Version, 0, a.Stream, 8, voidBody)[:11] }, 2),
		raw("reply/unsolicited-event-on-pooled-connection", func(a *fakecass.Arrival) []byte {
			ev := respFrame(a.Header.Version, 0, -1, 0x0c, []byte{0, 13, 'S', 'C', 'H', 'E', 'M', 'A', '_', 'C', 'H', 'A', 'N', 'G', 'E', 0, 7, 'C', 'R', 'E', 'A', 'T', 'E', 'D', 0, 8, 'K', 'E', 'Y', 'S', 'P', 'A', 'C', 'E', 0, 1, 'k'})
			return append(ev, respFrame(a.Header.Version, 0, a.Stream, 8, voidBody)...)
		}, 0),
		raw("reply/garbage-event-on-pooled-connection", func(a *fakecass.Arrival) []byte {
			return append(respFrame(a.Header.Version, 0, -1, 0x0c, []byte{0xff, 0xff, 1}), respFrame(a.Header.Version, 0, a.Stream, 8, voidBody)...)
		}, 0),
	)
	for i := 0; i < 12; i++ {
		junk := make([]byte, 1+rng.Intn(64))
		rng.Read(junk)
		j := junk
		hs = append(hs, raw("reply/random-bytes", func(a *fakecass.Arrival) []byte { return j }, rng.Intn(2)*2))
	}
	// replies on an lz4 session whose compressed ERROR body ends before / at / past the announced decompressed length
	// (the proxy has to decompress error frames to see whether they are UNPREPARED)
	for _, lits := range []int{1, 4} {
		for _, mlen := range []int{4, 19} {
			for _, over := range []int{-1, 0, 1, 2, 3, 4, 8} {
				lits, mlen, over := lits, mlen, over
				announced := lits + mlen - over
				if announced < 1 {
					continue
				}
				hs = append(hs, raw(fmt.Sprintf("reply/lz4-error-body-last-match-ends-%+d-from-announced-length/lits=%d/match=%d", over, lits, mlen), func(a *fakecass.Arrival) []byte {
					ml := mlen - 4
					tok := byte(lits << 4)
					if ml >= 15 {
						tok |= 15
					} else {
						tok |= byte(ml)
					}
					blk := []byte{tok}
					blk = append(blk, []byte{0, 0, 0x25, 0, 0, 0}[:lits]...)
					blk = append(blk, 1, 0)
					if ml >= 15 {
						blk = append(blk, byte(ml-15))
					}
					body := []byte{byte(announced >> 24), byte(announced >> 16), byte(announced >> 8), byte(announced)}
					return respFrame(a.Header.Version, 1, a.Stream, 0, append(body, blk...))
				}, 0))
			}
		}
	}
	return hs
}

func c17ControlOverrides() map[string]func(c *fakecass.Conn, table string) message.Message {
	col := func(tbl, name string, t datatype.DataType) *message.ColumnMetadata {
		return &message.ColumnMetadata{Keyspace: "system", Table: tbl, Name: name, Type: t}
	}
	rows := func(cols []*message.ColumnMetadata, data ...message.Row) message.Message {
		return &message.RowsResult{Metadata: &message.RowsMetadata{ColumnCount: int32(len(cols)), Columns: cols}, Data: data}
	}
	ip := func(c *fakecass.Conn) []byte { return net.ParseIP(c.Host.IP).To4() }
	full := func(tbl string) []*message.ColumnMetadata {
		return []*message.ColumnMetadata{col(tbl, "rpc_address", datatype.Inet), col(tbl, "data_center", datatype.Varchar), col(tbl, "partitioner", datatype.Varchar),
			col(tbl, "release_version", datatype.Varchar), col(tbl, "cql_version", datatype.Varchar), col(tbl, "peer", datatype.Inet), col(tbl, "host_id", datatype.Uuid)}
	}
	okRow := func(c *fakecass.Conn) message.Row {
		return message.Row{ip(c), []byte("dc1"), []byte("p"), []byte("4.0.0"), []byte("3.4.5"), ip(c), bytes.Repeat([]byte{7}, 16)}
	}
	return map[string]func(c *fakecass.Conn, table string) message.Message{
		"local-zero-rows": func(c *fakecass.Conn, t string) message.Message {
			if t == "local" {
				return rows(full("local"))
			}
			return nil
		},
		"local-null-rpc-address": func(c *fakecass.Conn, t string) message.Message {
			if t == "local" {
				r := okRow(c)
				r[0] = nil
				return rows(full("local"), r)
			}
			return nil
		},
		"local-rpc-address-wrong-length": func(c *fakecass.Conn, t string) message.Message {
			if t == "local" {
				r := okRow(c)
				r[0] = []byte{1, 2, 3}
				return rows(full("local"), r)
			}
			return nil
		},
		"local-missing-rpc-address-column": func(c *fakecass.Conn, t string) message.Message {
			if t == "local" {
				return rows(full("local")[1:], okRow(c)[1:])
			}
			return nil
		},
		"local-rpc-address-typed-varchar": func(c *fakecass.Conn, t string) message.Message {
			if t == "local" {
				cols := full("local")
				cols[0] = col("local", "rpc_address", datatype.Varchar)
				r := okRow(c)
				r[0] = []byte("not an address")
				return rows(cols, r)
			}
			return nil
		},
		"local-null-data-center": func(c *fakecass.Conn, t string) message.Message {
			if t == "local" {
				r := okRow(c)
				r[1] = nil
				return rows(full("local"), r)
			}
			return nil
		},
		"local-fewer-cells-than-columns": func(c *fakecass.Conn, t string) message.Message {
			if t == "local" {
				return rows(full("local"), okRow(c)[:3])
			}
			return nil
		},
		"local-void-result": func(c *fakecass.Conn, t string) message.Message {
			if t == "local" {
				return &message.VoidResult{}
			}
			return nil
		},
		"local-error-result": func(c *fakecass.Conn, t string) message.Message {
			if t == "local" {
				return &message.ServerError{ErrorMessage: "boom"}
			}
			return nil
		},
		"peers-null-and-garbage-rows": func(c *fakecass.Conn, t string) message.Message {
			if t == "peers" {
				r1 := okRow(c)
				r1[0], r1[5] = nil, nil
				r2 := okRow(c)
				r2[0], r2[5] = []byte{0, 0, 0, 0}, []byte{9, 9}
				r3 := okRow(c)
				r3[1] = nil
				r4 := okRow(c) // duplicate of the local host
				return rows(full("peers"), r1, r2, r3, r4, r4)
			}
			return nil
		},
		"peers-zero-columns": func(c *fakecass.Conn, t string) message.Message {
			if t == "peers" {
				return rows(nil, message.Row{}, message.Row{})
			}
			return nil
		},
		"peers-error-result": func(c *fakecass.Conn, t string) message.Message {
			if t == "peers" {
				return &message.Invalid{ErrorMessage: "no peers for you"}
			}
			return nil
		},
	}
}

// ---------------------------------------------------------------------------------------------------------------------

var c17Findings int32

func c17Crash(r *mon.Result, p *c17Proc, phase string, suspects []string, why string) {
	atomic.AddInt32(&c17Findings, 1)
	b, _ := os.ReadFile(p.stderr)
	s := string(b)
	kind, top, excerpt := "exit", "(no panic on stderr)", ""
	if loc := panicRe.FindStringIndex(s); loc != nil {
		k, t, e := crashInfoText(s[loc[0]:])
		kind, top, excerpt = k, t, e
	} else if i := strings.Index(s, "pthread_create failed: Resource temporarily unavailable"); i >= 0 {
		// the runtime could not create a thread and aborted (SIGABRT, no "fatal error:" line): under the address-space cap
		// this is how memory exhaustion by announced-but-never-sent lengths ends when a thread stack is the allocation
		// that no longer fits - the same finding as "fatal error: out of memory"
		kind, top = "fatal", "out-of-memory"
		excerpt = s[i:]
		if len(excerpt) > 1500 {
			excerpt = excerpt[:1500]
		}
	} else if len(s) > 1500 {
		excerpt = s[len(s)-1500:]
	} else {
		excerpt = s
	}
	if p.alive() {
		kind, top = "wedged", strings.SplitN(why, ":", 2)[0]
	}
	if len(suspects) > 25 {
		suspects = suspects[len(suspects)-25:]
	}
	r.Violate(mon.Violation{Signature: fmt.Sprintf("C17/%s/%s/%s", phase, kind, top), Detail: fmt.Sprintf("max-version %s, phase %s: %s; inputs since the last good canary: %v\n%s", p.maxv, phase, why, suspects, excerpt),
		Scenario: map[string]interface{}{"kind": "c17", "phase": phase, "maxv": p.maxv}, Witness: map[string]interface{}{"suspects": suspects, "stderr": excerpt}})
}

// crashInfoText extracts kind, top repository frame and an excerpt from a stderr text starting at the panic.
func crashInfoText(rest string) (kind, top, excerpt string) {
	kind = "panic"
	if strings.HasPrefix(rest, "fatal error: ") {
		kind = "fatal"
	}
	// the runtime writes "fatal error: " and the message with separate write calls, so a log line of another goroutine can
	// land between them: the message is looked for in the text right behind the marker, not only on its line
	head := rest
	if len(head) > 1200 {
		head = head[:1200]
	}
	if strings.HasPrefix(rest, "fatal error: ") && (strings.Contains(head, "out of memory") || strings.Contains(head, "cannot allocate memory")) {
		ex := rest
		if len(ex) > 3000 {
			ex = ex[:3000]
		}
		return "fatal", "out-of-memory", ex
	}
	lines := strings.Split(rest, "\n")
	msg := lines[0]
	msg = regexp.MustCompile(`0x[0-9a-f]+`).ReplaceAllString(msg, "0x?")
	msg = regexp.MustCompile(`\d+`).ReplaceAllString(msg, "N")
	top = "(no repo frame)"
	fr := regexp.MustCompile(`^(github\.com/datastax/cql-proxy/[^\s(]+(?:\([^)]*\))?[^\s(]*)\(`)
	for _, l := range lines {
		if m := fr.FindStringSubmatch(strings.TrimSpace(l)); m != nil {
			top = strings.TrimPrefix(m[1], "github.com/datastax/cql-proxy/")
			break
		}
	}
	if len(msg) > 100 {
		msg = msg[:100]
	}
	if len(lines) > 40 {
		lines = lines[:40]
	}
	return kind, top + ":" + msg, strings.Join(lines, "\n")
}

func runC17(c *Ctx) {
	r := c.R
	r.Assume("declared frame body lengths above 16 MiB are out of scope (resource question); lz4 decoding in dependencies' assembly is not instrumented")
	r.Assume("a start-up that fails with an error exit because the backend's system tables are unusable is not a crash; a panic / fatal error is")
	r.Require("backend_garbage_under_fire_runs", "garbage_replies_under_fire", "client_inputs_sent", "backend_hostilities", "backend_hostile_replies_sent", "control_overrides", "canary_rounds_ok", "repeated_failing_requests_sent", "tls_new_client_served_while_peers_stall", "tls_hostile_cql_inputs_sent", "requests_with_large_answers_sent_by_a_client_that_does_not_read")
	maxvs := []string{"v4", "DSEv2"}
	if !c.Quick() {
		maxvs = []string{"v4", "v5", "DSEv1", "DSEv2"} // the harness clients of this check speak v4, so a v3 maximum is left to C13/C20
	}
	maxFrame := 16 << 20
	corpusDir := filepath.Join(c.Dir, "out", "logs", "c17")
	_ = os.MkdirAll(corpusDir, 0o755)
	job := 0
	// ---------------------------------------------------------------- backend garbage while well-behaved clients pipeline
	// (in-process proxy; C01's pairing oracle decides "a well-behaved client keeps receiving answers": only its lost-reply
	// verdicts count here - premise: every attempt was answered or dropped, and nothing moves any more while that client's own
	// OPTIONS are still answered)
	for i := 0; i < c.Pick(3, 60); i++ {
		job++
		if !c.Mine(job) {
			continue
		}
		sub := &Ctx{Prop: c.Prop, Tier: c.Tier, Seed: c.Seed + int64(i), Shard: 0, NShards: 1, R: mon.NewResult("C17"), Dir: c.Dir}
		sub.prog = c.prog
		killUnderFireHow(sub, int(c.Seed)+i, 16+8*(i%2), c.Pick(120, 300), true)
		r.Eval(1)
		r.Obs("backend_garbage_under_fire_runs", 1)
		for _, k := range []string{"garbage_replies_under_fire", "requests_beside_garbage_replies"} {
			r.Obs(k, sub.R.Observed[k])
		}
		for k := range sub.R.Distinct {
			r.NonTrivial(k)
		}
		for _, v := range sub.R.Violations {
			if strings.HasPrefix(v.Signature, "C01/lost-reply/") {
				v.Signature = "C17/well-behaved-request-unanswered/" + strings.TrimPrefix(v.Signature, "C01/lost-reply/")
				v.Detail = "a node answers requests with bytes that are no answer (the proxy closes that backend connection) while well-behaved clients pipeline requests: " + v.Detail
				r.Violate(v)
			} else {
				fmt.Printf("note: backend-garbage-under-fire reported %s (judged by its own property's check)\n", v.Signature)
			}
		}
	}
	for mi, maxv := range maxvs {
		// ------------------------------------------------------------ phase A: hostile client byte streams
		job++
		if c.Mine(job) {
			rng := c.Rng(mi)
			inputs := c17ClientInputs(rng, maxv, c.Pick(6000, 80000), maxFrame)
			p, err := c17Start(c, maxv, "client")
			if err != nil {
				r.Inconc("c17: " + err.Error())
			} else {
				cf, _ := os.Create(filepath.Join(corpusDir, fmt.Sprintf("corpus-client-%s-s%d.txt", maxv, c.Shard)))
				var suspects []string
				p.cluster.SetScript(func(a *fakecass.Arrival) fakecass.Outcome {
					if a.Token == "T00000000deadbeef" { // hostile statements that reach the backend get a retryable error: forces the idempotency decision
						return fakecass.Err("Overloaded", &message.Overloaded{ErrorMessage: "busy"})
					}
					return fakecass.Outcome{}
				})
				c.Step("c17 client inputs maxv=%s n=%d", maxv, len(inputs))
				var wg sync.WaitGroup
				sem := make(chan struct{}, 8)
				for i, h := range inputs {
					if cf != nil {
						fmt.Fprintf(cf, "%d %s %s\n", i, h.Kind, hex.EncodeToString(h.Bytes[:minInt(len(h.Bytes), 64)]))
					}
					suspects = append(suspects, h.Kind)
					wg.Add(1)
					sem <- struct{}{}
					go func(h hostile) { defer wg.Done(); defer func() { <-sem }(); p.sendHostile(h) }(h)
					r.Obs("client_inputs_sent", 1)
					r.Eval(1)
					r.NonTrivial("client/" + maxv + "/" + h.Kind)
					if atomic.LoadInt32(&c17Findings) >= 8 {
						r.Obs("client_phase_cut_short_after_8_findings", 1)
						break
					}
					if (i+1)%20 == 0 || i == len(inputs)-1 {
						wg.Wait()
						if why := p.canary(); why != "" {
							c17Crash(r, p, "client-input", suspects, why)
							p.stop()
							p, err = c17Start(c, maxv, "client")
							if err != nil {
								r.Inconc("c17: cannot restart the proxy: " + err.Error())
								break
							}
						} else {
							r.Obs("canary_rounds_ok", 1)
						}
						suspects = suspects[:0]
					}
				}
				wg.Wait()
				if cf != nil {
					_ = cf.Close()
				}
				if p != nil {
					p.stop()
				}
			}
		}
		// ------------------------------------------------------------ phase B: hostile backend replies
		job++
		if c.Mine(job) {
			rng := c.Rng(100 + mi)
			hs := c17BackendHostilities(rng)
			reps := c.Pick(1, 8)
			p, err := c17Start(c, maxv, "backend")
			if err != nil {
				r.Inconc("c17: " + err.Error())
			} else {
				var cur atomic.Value
				p.cluster.SetScript(func(a *fakecass.Arrival) fakecass.Outcome {
					if h, ok := cur.Load().(*backendHostility); ok && h != nil && strings.HasPrefix(a.Token, "T0000000bad") {
						return h.Make(a)
					}
					return fakecass.Outcome{}
				})
				for rep := 0; rep < reps; rep++ {
					for hi := range hs {
						h := &hs[hi]
						c.Step("c17 backend hostility maxv=%s %s", maxv, h.Kind)
						cur.Store(h)
						cl, err := rawcql.Dial(p.addr, primitive.ProtocolVersion4, nil)
						hcomp := ""
						if strings.HasPrefix(h.Kind, "reply/lz4-") {
							hcomp = "lz4"
						}
						if err == nil && cl.Handshake(hcomp, 5*time.Second) == nil {
							for k := 0; k < 3; k++ { // hit both hosts
								f := BuildRequest(primitive.ProtocolVersion4, int16(k+1), []ReqKind{KQuery, KExecute, KBatch}[k%3], true, fmt.Sprintf("T0000000bad%06d", rng.Intn(999999)), primitive.ConsistencyLevelOne)
								_, _ = cl.CallF(f, 300*time.Millisecond)
							}
							cl.Close()
						}
						cur.Store((*backendHostility)(nil))
						sent := 0
						for _, e := range p.log.Snapshot() {
							if e.Src == "backend" && e.K == "reply" && e.Outcome == h.Kind {
								sent++
							}
						}
						if sent > 0 {
							r.Obs("backend_hostile_replies_sent", 1)
						} else {
							r.Obs("backend_hostilities_not_delivered", 1)
						}
						r.Obs("backend_hostilities", 1)
						r.Eval(1)
						r.NonTrivial("backend/" + maxv + "/" + h.Kind)
						if why := p.canary(); why != "" {
							c17Crash(r, p, "backend-reply", []string{h.Kind}, why)
							p.stop()
							if p, err = c17Start(c, maxv, "backend"); err != nil {
								r.Inconc("c17: cannot restart the proxy: " + err.Error())
								break
							}
							p.cluster.SetScript(func(a *fakecass.Arrival) fakecass.Outcome {
								if h, ok := cur.Load().(*backendHostility); ok && h != nil && strings.HasPrefix(a.Token, "T0000000bad") {
									return h.Make(a)
								}
								return fakecass.Outcome{}
							})
						} else {
							r.Obs("canary_rounds_ok", 1)
						}
					}
					if p == nil {
						break
					}
				}
				// EXECUTE / BATCH children with prepared ids that are not 16 bytes long (the backend knows them), answered with
				// the errors that make the proxy look the id up again
				if p != nil {
					for _, idLen := range []int{0, 1, 5, 15, 17, 40} {
						for oi, mk := range []func(tok string) fakecass.Outcome{
							func(tok string) fakecass.Outcome {
								return fakecass.Err("Overloaded", &message.Overloaded{ErrorMessage: tok})
							},
							func(tok string) fakecass.Outcome {
								return fakecass.Err("WriteTimeout", &message.WriteTimeout{ErrorMessage: tok, Consistency: primitive.ConsistencyLevelOne, BlockFor: 1, WriteType: primitive.WriteTypeBatchLog})
							},
							func(tok string) fakecass.Outcome { o := fakecass.DropBefore(); o.Name = "ConnLost"; return o },
						} {
							kind := fmt.Sprintf("reply/error-to-prepared-id-of-%d-bytes/%d", idLen, oi)
							c.Step("c17 backend hostility maxv=%s %s", maxv, kind)
							id := bytes.Repeat([]byte{0xde}, idLen)
							for _, h := range p.cluster.Hosts {
								h.Learn(hex.EncodeToString(id), idemPrepared)
							}
							mk := mk
							p.cluster.SetScript(func(a *fakecass.Arrival) fakecass.Outcome {
								if strings.HasPrefix(a.Token, "T0000000bad") {
									return mk(a.Token)
								}
								return fakecass.Outcome{}
							})
							if cl, err := rawcql.Dial(p.addr, primitive.ProtocolVersion4, nil); err == nil {
								if cl.Handshake("", 5*time.Second) == nil {
									tok := fmt.Sprintf("T0000000bad%06d", rng.Intn(999999))
									ex := &message.Execute{QueryId: id, Options: &message.QueryOptions{Consistency: primitive.ConsistencyLevelOne, PositionalValues: []*primitive.Value{primitive.NewValue([]byte(tok))}}}
									_, _ = cl.Call(1, ex, 500*time.Millisecond)
									tok2 := fmt.Sprintf("T0000000bad%06d", rng.Intn(999999))
									bt := &message.Batch{Type: primitive.BatchTypeLogged, Consistency: primitive.ConsistencyLevelOne, Children: []*message.BatchChild{
										{Query: fmt.Sprintf(idemInsert, tok2)}, {Id: id, Values: []*primitive.Value{primitive.NewValue([]byte("v"))}}}}
									_, _ = cl.Call(2, bt, 500*time.Millisecond)
								}
								cl.Close()
							}
							r.Obs("backend_hostilities", 1)
							r.Eval(1)
							r.NonTrivial("backend/" + maxv + "/" + kind)
							if why := p.canary(); why != "" {
								c17Crash(r, p, "backend-reply", []string{kind}, why)
								p.stop()
								if p, err = c17Start(c, maxv, "backend"); err != nil {
									r.Inconc("c17: cannot restart the proxy: " + err.Error())
									p = nil
									break
								}
							} else {
								r.Obs("canary_rounds_ok", 1)
							}
						}
						if p == nil {
							break
						}
					}
					if p != nil {
						p.cluster.SetScript(nil)
					}
				}
				// the proxy's own re-PREPARE (sent after an UNPREPARED) is answered with UNPREPARED again
				if p != nil {
					kind := "reply/unprepared-answer-to-re-prepare"
					c.Step("c17 backend hostility maxv=%s %s", maxv, kind)
					cl, err := rawcql.Dial(p.addr, primitive.ProtocolVersion4, nil)
					if err == nil && cl.Handshake("", 5*time.Second) == nil {
						if f, err := cl.Call(1, &message.Prepare{Query: idemPrepared}, 5*time.Second); err == nil && f.OpCode == primitive.OpCodeResult {
							for _, h := range p.cluster.Hosts {
								h.Forget()
							}
							var nPrep int32
							p.cluster.SetScript(func(a *fakecass.Arrival) fakecass.Outcome {
								if a.OpCode == primitive.OpCodePrepare && atomic.AddInt32(&nPrep, 1) <= 3 {
									return fakecass.Outcome{Name: kind, Msg: &message.Unprepared{ErrorMessage: "unprepared again", Id: fakecass.PreparedID("", idemPrepared)}}
								}
								return fakecass.Outcome{}
							})
							_, _ = cl.CallF(BuildRequest(primitive.ProtocolVersion4, 2, KExecute, true, NewTok(), primitive.ConsistencyLevelOne), 2*time.Second)
							if atomic.LoadInt32(&nPrep) > 0 {
								r.Obs("backend_hostile_replies_sent", 1)
							}
						}
						cl.Close()
					}
					r.Obs("backend_hostilities", 1)
					r.Eval(1)
					r.NonTrivial("backend/" + maxv + "/" + kind)
					if why := p.canary(); why != "" {
						c17Crash(r, p, "backend-reply", []string{kind}, why)
						p.stop()
						if p, err = c17Start(c, maxv, "backend"); err != nil {
							r.Inconc("c17: cannot restart the proxy: " + err.Error())
							p = nil
						}
					} else {
						r.Obs("canary_rounds_ok", 1)
					}
					if p != nil {
						p.cluster.SetScript(nil)
					}
				}
				// garbage and unexpected frames on the CONTROL connection and bad heartbeat replies
				if p != nil {
					for _, kind := range []string{"control/garbage-event", "control/event-unknown-type", "control/response-on-unknown-stream", "control/random-bytes", "heartbeat/error-reply", "heartbeat/result-reply", "heartbeat/garbage-reply", "heartbeat/unprepared-reply-with-cached-id",
						"heartbeat/unprepared-reply-with-cached-id+warning", "heartbeat/unprepared-reply-with-cached-id+tracing", "heartbeat/unprepared-reply-with-cached-id+payload"} {
						c.Step("c17 control hostility maxv=%s %s", maxv, kind)
						if strings.HasPrefix(kind, "heartbeat/unprepared-reply-with-cached-id") {
							// the id named by the UNPREPARED answer is one the proxy has in its prepared cache
							if pcl, err := rawcql.Dial(p.addr, primitive.ProtocolVersion4, nil); err == nil {
								if pcl.Handshake("", 5*time.Second) == nil {
									_, _ = pcl.Call(1, &message.Prepare{Query: idemPrepared}, 5*time.Second)
								}
								pcl.Close()
							}
						}
						if strings.HasPrefix(kind, "heartbeat/") {
							k := kind
							p.cluster.Intercept = func(x *fakecass.Conn, hdr *frame.Header, raw []byte) bool {
								if hdr.OpCode != primitive.OpCodeOptions {
									return false
								}
								switch k {
								case "heartbeat/error-reply":
									_ = x.WriteRaw(respFrame(hdr.Version, 0, hdr.StreamId, 0, []byte{0, 0, 0, 0, 0, 1, 'x'}), k)
								case "heartbeat/result-reply":
									_ = x.WriteRaw(respFrame(hdr.Version, 0, hdr.StreamId, 8, []byte{0, 0, 0, 1}), k)
								case "heartbeat/unprepared-reply-with-cached-id", "heartbeat/unprepared-reply-with-cached-id+warning", "heartbeat/unprepared-reply-with-cached-id+tracing", "heartbeat/unprepared-reply-with-cached-id+payload":
									// ... plain, and dressed the ways that make a reader decode the frame to find the error code
									id := fakecass.PreparedID("", idemPrepared)
									body := append([]byte{0, 0, 0x25, 0, 0, 1, 'x', 0, byte(len(id))}, id...)
									flags := byte(0)
									switch {
									case strings.HasSuffix(k, "+warning"):
										flags, body = 0x08, append([]byte{0, 1, 0, 1, 'w'}, body...)
									case strings.HasSuffix(k, "+tracing"):
										flags, body = 0x02, append(make([]byte, 16), body...)
									case strings.HasSuffix(k, "+payload"):
										flags, body = 0x04, append([]byte{0, 1, 0, 1, 'k', 0, 0, 0, 1, 'v'}, body...)
									}
									_ = x.WriteRaw(respFrame(hdr.Version, flags, hdr.StreamId, 0, body), k)
								default:
									_ = x.WriteRaw(respFrame(hdr.Version, 0, hdr.StreamId, 6, []byte{0xff, 0xff, 0xff}), k)
								}
								return true
							}
							time.Sleep(1200 * time.Millisecond) // several heartbeat intervals (300 ms)
							p.cluster.Intercept = nil
						} else {
							for _, x := range p.cluster.ControlConns() {
								switch kind {
								case "control/garbage-event":
									_ = x.WriteRaw(respFrame(x.Ver(), 0, -1, 0x0c, []byte{0xff, 0xff, 1, 2, 3}), kind)
								case "control/event-unknown-type":
									_ = x.WriteRaw(respFrame(x.Ver(), 0, -1, 0x0c, []byte{0, 4, 'N', 'O', 'P', 'E', 0, 0}), kind)
								case "control/response-on-unknown-stream":
									_ = x.WriteRaw(respFrame(x.Ver(), 0, 1234, 8, []byte{0, 0, 0, 1}), kind)
								default:
									junk := make([]byte, 40)
									rng.Read(junk)
									_ = x.WriteRaw(junk, kind)
								}
							}
						}
						r.Obs("backend_hostilities", 1)
						r.Eval(1)
						r.NonTrivial("backend/" + maxv + "/" + kind)
						if why := p.canary(); why != "" {
							c17Crash(r, p, "backend-reply", []string{kind}, why)
							p.stop()
							if p, err = c17Start(c, maxv, "backend"); err != nil {
								r.Inconc("c17: cannot restart the proxy: " + err.Error())
								break
							}
						} else {
							r.Obs("canary_rounds_ok", 1)
						}
					}
				}
				if p != nil {
					p.stop()
				}
			}
		}
		// ------------------------------------------------------------ phase D: well-formed requests that fail, over and over
		job++
		if c.Mine(job) && mi == 0 {
			c17RepeatedFailures(c, maxv)
		}
		// ------------------------------------------------------------ phase G: client versions the backend refuses
		job++
		if c.Mine(job) && mi == len(maxvs)-1 {
			c17BackendRefusesVersion(c, maxv)
		}
		// ------------------------------------------------------------ phase F: a client that asks for a lot and reads nothing
		job++
		if c.Mine(job) && mi == 0 {
			c17NeverReadsBigAnswers(c, maxv)
		}
		// ------------------------------------------------------------ phase E: the same proxy behind its TLS listener
		job++
		if c.Mine(job) && (mi == 0 || !c.Quick()) {
			c17TLSListener(c, maxv)
		}
		// ------------------------------------------------------------ phase C: malformed system tables on the control connection
		job++
		if c.Mine(job) {
			var cwg sync.WaitGroup
			csem := make(chan struct{}, 12)
			for name, ov := range c17ControlOverrides() {
				for _, when := range []string{"refresh", "failover", "startup"} {
					name, ov, when := name, ov, when
					cwg.Add(1)
					csem <- struct{}{}
					go func() {
						defer cwg.Done()
						defer func() { <-csem }()
						c.Step("c17 control override maxv=%s %s at %s", maxv, name, when)
						r.Obs("control_overrides", 1)
						r.Eval(1)
						r.NonTrivial("control/" + maxv + "/" + name + "/" + when)
						if when == "startup" {
							// the override is in place before the proxy connects: it may refuse to start, but must not panic
							log := mon.NewLog(false)
							cluster, err := fakecass.New(fakecass.Config{Hosts: 2, Keyspaces: []string{"ks1"}, Log: log})
							if err != nil {
								return
							}
							cluster.SystemOverride = ov
							stderr := filepath.Join(corpusDir, fmt.Sprintf("proxy-startup-%s-%s-s%d.stderr", maxv, name, c.Shard))
							ef, _ := os.Create(stderr)
							cmd := exec.Command(filepath.Join(c.Dir, "out", "bin", "cql-proxy"), "--contact-points", cluster.ContactPoint(), "--port", fmt.Sprint(cluster.Port), "--bind", fmt.Sprintf("127.0.0.1:%d", freePort()), "--max-protocol-version", maxv, "--protocol-version", map[bool]string{true: "v3", false: "v4"}[maxv == "v3"], "--connect-timeout", "1s")
							cmd.Stdout, cmd.Stderr = ef, ef
							cmd.Env = append(os.Environ(), "GOTRACEBACK=all")
							if cmd.Start() == nil {
								done := make(chan struct{})
								go func() { _ = cmd.Wait(); close(done) }()
								select {
								case <-done:
								case <-time.After(3 * time.Second):
									_ = cmd.Process.Kill()
									<-done
								}
							}
							_ = ef.Close()
							b, _ := os.ReadFile(stderr)
							if loc := panicRe.FindIndex(b); loc != nil {
								k, t, e := crashInfoText(string(b[loc[0]:]))
								r.Violate(mon.Violation{Signature: fmt.Sprintf("C17/control-rows/%s/%s", k, t), Detail: fmt.Sprintf("max-version %s: the backend answered the start-up system queries with '%s' and the proxy died with a %s instead of an error:\n%s", maxv, name, k, e), Scenario: map[string]interface{}{"kind": "c17", "override": name, "when": when}})
							} else {
								_ = os.Remove(stderr)
							}
							cluster.Close()
							return
						}
						p, err := c17Start(c, maxv, "control")
						if err != nil {
							r.Inconc("c17: " + err.Error())
							return
						}
						p.cluster.SystemOverride = ov
						if when == "refresh" {
							ip := net.ParseIP(p.cluster.HostIP(2))
							p.cluster.Emit(&message.TopologyChangeEvent{ChangeType: primitive.TopologyChangeTypeNewNode, Address: &primitive.Inet{Addr: ip, Port: int32(p.cluster.Port)}})
							// the real refresh window is 10 s: wait for the observable re-query (bounded), then a little longer
							before := 0
							waitFor(func() bool {
								n := 0
								for _, e := range p.log.Snapshot() {
									if e.Src == "backend" && e.K == "reply" && e.Outcome == "SystemOverride" {
										n++
									}
								}
								if before == 0 {
									before = -1
								}
								return n > 0 || !p.alive()
							}, 14*time.Second)
						} else {
							for _, x := range p.cluster.ControlConns() {
								x.Kill(false)
							}
							waitFor(func() bool {
								for _, e := range p.log.Snapshot() {
									if e.Src == "backend" && e.K == "reply" && e.Outcome == "SystemOverride" {
										return true
									}
								}
								return !p.alive()
							}, 10*time.Second)
						}
						time.Sleep(200 * time.Millisecond)
						p.cluster.SystemOverride = nil
						if why := p.canary(); why != "" {
							c17Crash(r, p, "control-rows", []string{name + " at " + when}, why)
						} else {
							r.Obs("canary_rounds_ok", 1)
						}
						p.stop()
					}()
				}
			}
			cwg.Wait()
		}
	}
}

func minInt(a, b int) int {
	if a < b {
		return a
	}
	return b
}

// c17RepeatedFailures: a client sends nothing but well-formed requests that fail - USE of keyspaces that do not exist, with
// and without compression and in several protocol versions (each combination makes the proxy open backend connections that
// the backend then refuses to put into the keyspace) - several hundred times. The proxy runs with a limit of 256 open files,
// as a daemon started by a service manager might: whatever the proxy allocates per failed request has to be given back, or
// the well-behaved client stops being served.
func c17RepeatedFailures(c *Ctx, maxv string) {
	r := c.R
	const fds = 256
	c.Step("c17 repeated failing requests maxv=%s open-files-limit=%d", maxv, fds)
	p, err := c17Start(c, maxv, fmt.Sprintf("fd%d", fds))
	if err != nil {
		r.Inconc("c17: " + err.Error())
		return
	}
	defer p.stop()
	openAtBackend := func() int {
		n := 0
		for _, h := range p.cluster.Hosts {
			for _, x := range h.Conns() {
				if !x.IsClosed() {
					n++
				}
			}
		}
		return n
	}
	if why := p.canary(); why != "" {
		r.Inconc("c17: canary fails before the phase: " + why)
		return
	}
	base := openAtBackend()
	n := c.Pick(300, 3000)
	sent := 0
	var suspects []string
	for i := 0; i < n; i++ {
		comp := []string{"", "lz4", "snappy"}[i%3]
		if i%30 == 0 || sent == 0 {
			// a fresh client connection now and then (the old one is dropped)
		}
		cl, err := rawcql.Dial(p.addr, primitive.ProtocolVersion4, nil)
		if err != nil {
			break // judged by the canary below
		}
		if cl.Handshake(comp, 5*time.Second) == nil {
			for k := 0; k < 4; k++ {
				q := fmt.Sprintf("USE nosuch_%d_%d", i, k)
				if k == 3 {
					q = fmt.Sprintf(`USE "NoSuch %d"`, i)
				}
				suspects = append(suspects, "repeated-failure/"+q)
				if _, err := cl.Call(int16(k+1), &message.Query{Query: q, Options: &message.QueryOptions{Consistency: primitive.ConsistencyLevelOne}}, 10*time.Second); err != nil {
					break
				}
				sent++
				r.Eval(1)
			}
		}
		cl.Close()
		if !p.alive() {
			break
		}
	}
	r.Obs("repeated_failing_requests_sent", sent)
	// a client that sends well-formed requests and never reads an answer: its own answers pile up, nobody else's may
	if p.alive() {
		if nc, err := net.DialTimeout("tcp", p.addr, 5*time.Second); err == nil {
			_, _ = nc.Write(encPlain(frame.NewFrame(primitive.ProtocolVersion4, 0, &message.Startup{Options: map[string]string{"CQL_VERSION": "3.0.0"}})))
			_ = nc.SetWriteDeadline(time.Now().Add(20 * time.Second))
			if t, ok := nc.(*net.TCPConn); ok {
				_ = t.SetReadBuffer(2048) // a small receive window: the proxy's answers back up into the proxy quickly
			}
			pad := "x"
			nw := 0
			for i := 0; i < c.Pick(150000, 600000); i++ {
				q := frame.NewFrame(primitive.ProtocolVersion4, int16(1+i%30000), &message.Query{Query: fmt.Sprintf("SELECT * FROM ks1.t WHERE k = 'T%016x' AND pad = '%s'", 0xabc000000000+i, pad), Options: &message.QueryOptions{Consistency: primitive.ConsistencyLevelOne}})
				if _, err := nc.Write(encPlain(q)); err != nil {
					break // the proxy stopped reading from this client (or dropped it): fine either way
				}
				nw++
			}
			r.Obs("requests_sent_by_a_client_that_never_reads", nw)
			suspects = append(suspects, fmt.Sprintf("a client that sent %d requests and never read an answer (still connected)", nw))
			if why := p.canary(); why != "" {
				c17Crash(r, p, "client-input/never-reads", suspects[len(suspects)-1:], why)
				_ = nc.Close()
				return
			}
			r.Obs("canary_rounds_ok", 1)
			_ = nc.Close()
		}
	}
	// and many short-lived hostile connections (4 at a time): whatever a client connection holds is given back when it ends
	{
		var hin []hostile
		for _, h := range c17ClientInputs(c.Rng(77), maxv, 2600, 1<<20) {
			k := h.Kind
			if strings.HasPrefix(k, "header/") && !strings.HasPrefix(k, "header/body-length") || strings.HasPrefix(k, "truncated/") || strings.HasPrefix(k, "string/") && len(h.Bytes) < 4096 || strings.HasPrefix(k, "first-on-connection/") {
				hin = append(hin, h)
			}
		}
		if len(hin) > c.Pick(1500, 6000) {
			hin = hin[:c.Pick(1500, 6000)]
		}
		var wg sync.WaitGroup
		sem := make(chan struct{}, 4)
		for _, h := range hin {
			if !p.alive() {
				break
			}
			wg.Add(1)
			sem <- struct{}{}
			go func(h hostile) { defer wg.Done(); defer func() { <-sem }(); p.sendHostile(h) }(h)
			r.Eval(1)
		}
		wg.Wait()
		r.Obs("short_lived_hostile_connections_under_fd_limit", len(hin))
		suspects = append(suspects, fmt.Sprintf("%d short-lived hostile connections", len(hin)))
	}
	time.Sleep(200 * time.Millisecond)
	after := openAtBackend()
	r.ObsMax("max:backend_connections_open_after_repeated_failures", after)
	r.NonTrivial(fmt.Sprintf("repeated-failures/%s", maxv))
	if why := p.canary(); why != "" {
		if len(suspects) > 6 {
			suspects = suspects[len(suspects)-6:]
		}
		c17Crash(r, p, "client-input/repeated-failing-requests", suspects, fmt.Sprintf("%s (after %d failing USE statements; connections open at the backend: %d before, %d after; open-files limit of the proxy: %d)", why, sent, base, after, fds))
		return
	}
	r.Obs("canary_rounds_ok", 1)
}

// c17TLSListener: the proxy listens with --proxy-cert-file / --proxy-key-file. Hostile peers at the TLS layer - connections that
// send nothing, a ClientHello cut off after 3 bytes / inside the record / dripped byte by byte, garbage, a plain CQL STARTUP on
// the TLS port, records claiming 16 KiB that never come, handshakes abandoned half way, and hostile CQL frames inside a
// completed TLS session - are held open while well-behaved clients (one connected before, fresh ones connecting afterwards)
// must keep being served: "no byte sequence sent by a client ... stops it serving other clients".
func c17TLSListener(c *Ctx, maxv string) {
	r := c.R
	c.Step("c17 tls listener maxv=%s", maxv)
	dir := filepath.Join(c.Dir, "out", "logs", "c17")
	_ = os.MkdirAll(dir, 0o755)
	now := time.Now()
	ca := c19MakeCA(pkix.Name{CommonName: "verif C17 listener CA"}, nil, nil, now)
	key := c19Key()
	tmpl := &x509.Certificate{SerialNumber: c19Serial(), Subject: pkix.Name{CommonName: "localhost"}, DNSNames: []string{"localhost"},
		IPAddresses: []net.IP{net.ParseIP("127.0.0.1")}, NotBefore: now.Add(-time.Hour), NotAfter: now.Add(24 * time.Hour),
		KeyUsage: x509.KeyUsageDigitalSignature, ExtKeyUsage: []x509.ExtKeyUsage{x509.ExtKeyUsageServerAuth}}
	der, err := x509.CreateCertificate(crand.Reader, tmpl, ca.cert, &key.PublicKey, ca.key)
	if err != nil {
		r.Inconc("c17 tls: " + err.Error())
		return
	}
	kder, _ := x509.MarshalECPrivateKey(key)
	certFile := filepath.Join(dir, fmt.Sprintf("listener-%s-s%d.crt", maxv, c.Shard))
	keyFile := filepath.Join(dir, fmt.Sprintf("listener-%s-s%d.key", maxv, c.Shard))
	_ = os.WriteFile(certFile, pem.EncodeToMemory(&pem.Block{Type: "CERTIFICATE", Bytes: der}), 0o600)
	_ = os.WriteFile(keyFile, pem.EncodeToMemory(&pem.Block{Type: "EC PRIVATE KEY", Bytes: kder}), 0o600)
	pool := x509.NewCertPool()
	pool.AddCert(ca.cert)
	cfg := &tls.Config{RootCAs: pool, ServerName: "localhost"}
	p, err := c17StartX(c, maxv, "tls", fmt.Sprintf(" --proxy-cert-file %s --proxy-key-file %s", certFile, keyFile), cfg)
	if err != nil {
		r.Inconc("c17 tls: " + err.Error())
		return
	}
	defer p.stop()
	if why := p.canary(); why != "" {
		r.Inconc("c17 tls: canary fails before the phase: " + why)
		return
	}
	// a well-behaved client that is connected throughout
	old, err := p.dial()
	if err != nil || old.Handshake("", 5*time.Second) != nil {
		r.Inconc("c17 tls: the long-lived client cannot connect")
		return
	}
	defer old.Close()
	oldOK := func() string {
		f, err := old.Call(7, &message.Query{Query: "SELECT key FROM system.local", Options: &message.QueryOptions{Consistency: primitive.ConsistencyLevelOne}}, 10*time.Second)
		if err != nil {
			return "the client connected before the hostile peers: " + err.Error()
		}
		if ri := DecodeReply("", f); ri.Kind != "Rows" {
			return "the client connected before the hostile peers was answered " + ri.Kind
		}
		return ""
	}
	// a genuine ClientHello, to be cut off and dripped
	var hello []byte
	{
		a, b := net.Pipe()
		go func() { _ = tls.Client(a, cfg).Handshake() }()
		_ = b.SetReadDeadline(time.Now().Add(2 * time.Second))
		buf := make([]byte, 4096)
		n, _ := b.Read(buf)
		hello = append(hello, buf[:n]...)
		_ = a.Close()
		_ = b.Close()
	}
	if len(hello) < 50 || hello[0] != 0x16 {
		r.Inconc("c17 tls: could not record a ClientHello")
		return
	}
	rng := c.Rng(4242)
	type tcase struct {
		kind string
		run  func(nc net.Conn)
	}
	write := func(b []byte) func(net.Conn) { return func(nc net.Conn) { _, _ = nc.Write(b) } }
	garbage := make([]byte, 300)
	rng.Read(garbage)
	cases := []tcase{
		{"silent", func(net.Conn) {}},
		{"hello-first-3-bytes", write(hello[:3])},
		{"hello-record-header-only", write(hello[:5])},
		{"hello-cut-inside-record", write(hello[:len(hello)/2])},
		{"hello-all-but-last-byte", write(hello[:len(hello)-1])},
		{"hello-dripped", func(nc net.Conn) {
			for i := 0; i < len(hello)-1; i++ {
				if _, err := nc.Write(hello[i : i+1]); err != nil {
					return
				}
				time.Sleep(time.Millisecond)
			}
		}},
		{"record-claiming-16KiB", write([]byte{0x16, 0x03, 0x01, 0x40, 0x00, 0x01})},
		{"garbage", write(garbage)},
		{"plain-cql-startup", write(encPlain(frame.NewFrame(primitive.ProtocolVersion4, 0, &message.Startup{Options: map[string]string{"CQL_VERSION": "3.0.0"}})))},
		{"plain-cql-options-v5", write(encPlain(frame.NewFrame(primitive.ProtocolVersion5, 0, &message.Options{})))},
		{"hello-then-silence", write(hello)}, // the server answers with its flight and waits for ours
		{"hello-then-garbage", func(nc net.Conn) {
			_, _ = nc.Write(hello)
			_ = nc.SetReadDeadline(time.Now().Add(300 * time.Millisecond))
			_, _ = nc.Read(make([]byte, 8192))
			_, _ = nc.Write(garbage)
		}},
		{"alert-record", write([]byte{0x15, 0x03, 0x03, 0x00, 0x02, 0x02, 0x28})},
		{"sslv2-style-hello", write([]byte{0x80, 0x2e, 0x01, 0x03, 0x01, 0x00, 0x15, 0x00, 0x00, 0x00, 0x10})},
	}
	var held []net.Conn
	defer func() {
		for _, nc := range held {
			_ = nc.Close()
		}
	}()
	rounds := c.Pick(3, 12)
	var suspects []string
	for round := 0; round < rounds; round++ {
		for _, tc := range cases {
			nc, err := net.DialTimeout("tcp", p.addr, 5*time.Second)
			if err != nil {
				continue // judged by the canary
			}
			_ = nc.SetWriteDeadline(time.Now().Add(5 * time.Second))
			tc.run(nc)
			held = append(held, nc) // stays open: a stalled peer
			suspects = append(suspects, "tls/"+tc.kind)
			r.Eval(1)
			r.NonTrivial("tls/" + maxv + "/" + tc.kind)
			r.Obs("tls_hostile_peers_held_open", 1)
			// after every stalled peer: the old client is served, and a NEW client gets through the listener
			why := oldOK()
			if why == "" {
				cl, err := p.dial()
				if err != nil {
					why = "a client connecting after the hostile peer: " + err.Error()
				} else {
					if err := cl.Options(3, 10*time.Second); err != nil {
						why = "a client connecting after the hostile peer: OPTIONS: " + err.Error()
					}
					cl.Close()
				}
			}
			if why != "" || !p.alive() {
				if why == "" {
					why = "process exited"
				}
				c17Crash(r, p, "client-input/tls-listener/"+tc.kind, suspects[len(suspects)-1:], why+fmt.Sprintf(" (%d stalled TLS-level peers are connected)", len(held)))
				return
			}
			r.Obs("tls_new_client_served_while_peers_stall", 1)
		}
		// hostile CQL frames inside a completed TLS session
		for _, h := range c17ClientInputs(c.Rng(round+900), maxv, 200, 1<<20) {
			if len(h.Bytes) > 1<<16 || h.Slow || h.Pre != "" {
				continue
			}
			nc, err := net.DialTimeout("tcp", p.addr, 5*time.Second)
			if err != nil {
				break
			}
			tc := tls.Client(nc, cfg)
			_ = tc.SetDeadline(time.Now().Add(10 * time.Second))
			if tc.Handshake() == nil {
				_, _ = tc.Write(h.Bytes)
				_ = tc.SetReadDeadline(time.Now().Add(20 * time.Millisecond))
				_, _ = tc.Read(make([]byte, 4096))
				r.Obs("tls_hostile_cql_inputs_sent", 1)
				r.Eval(1)
				suspects = append(suspects, "tls-session/"+h.Kind)
			}
			_ = nc.Close() // without close_notify
		}
		if why := p.canary(); why != "" {
			if len(suspects) > 20 {
				suspects = suspects[len(suspects)-20:]
			}
			c17Crash(r, p, "client-input/tls-listener", suspects, why)
			return
		}
		r.Obs("canary_rounds_ok", 1)
	}
}

// c17NeverReadsBigAnswers: a client pipelines 8000 well-formed requests whose answers are 16 KiB each and reads nothing, so
// the answers fill the socket buffers and then every queue between that client and the backends. It stays connected. Other
// clients must go on being served (the canaries get a minute, as everywhere): "no byte sequence sent by a client ... stops it
// serving other clients; the offending connection is answered with an error or closed". The proxy runs with a 5 min heartbeat
// interval and a 10 min idle timeout here, so that replacing "idle" backend connections cannot paper over a stall.
func c17NeverReadsBigAnswers(c *Ctx, maxv string) {
	r := c.R
	c.Step("c17 a client that pipelines requests with large answers and never reads maxv=%s", maxv)
	p, err := c17Start(c, maxv, "longidle-neverreads")
	if err != nil {
		r.Inconc("c17: " + err.Error())
		return
	}
	defer p.stop()
	if why := p.canary(); why != "" {
		r.Inconc("c17: canary fails before the phase: " + why)
		return
	}
	why := ""
	res, err := slowReaderRunAt(p.addr, p.cluster, 8000, 16384, 10*time.Second, false, func() { why = p.canary() })
	p.cluster.SetScript(nil)
	if err != nil {
		r.Inconc("c17 never-reads: " + err.Error())
		return
	}
	r.Eval(res.Sent)
	r.Obs("requests_with_large_answers_sent_by_a_client_that_does_not_read", res.Sent)
	r.NonTrivial("never-reads-big-answers/" + maxv)
	if res.Closed {
		r.Obs("non_reading_client_closed_by_proxy", 1)
	}
	if why != "" {
		c17Crash(r, p, "client-input/never-reads-large-answers", []string{fmt.Sprintf("a client that pipelined %d requests with 16 KiB answers and read nothing (still connected)", res.Sent)}, why)
		return
	}
	r.Obs("canary_rounds_ok", 1)
	if why := p.canary(); why != "" {
		c17Crash(r, p, "client-input/never-reads-large-answers/afterwards", []string{"the same client, gone"}, why)
		return
	}
	r.Obs("canary_rounds_ok", 1)
}

// c17BackendRefusesVersion: the proxy accepts protocol versions (maximum DSEv2 / v5) that its backend, a cluster of an older
// release, refuses for new connections. A client that speaks such a version gets errors for its requests - every time it
// asks, with and without compression, also after a failed USE - and the proxy goes on serving everybody else.
func c17BackendRefusesVersion(c *Ctx, maxv string) {
	r := c.R
	c.Step("c17 client versions the backend refuses maxv=%s", maxv)
	p, err := c17Start(c, maxv, "oldbackend")
	if err != nil {
		r.Inconc("c17: " + err.Error())
		return
	}
	defer p.stop()
	for _, h := range p.cluster.Hosts {
		atomic.StoreInt32(&h.MaxVersion, 4)
	}
	if why := p.canary(); why != "" {
		r.Inconc("c17: canary fails before the phase: " + why)
		return
	}
	vers := []primitive.ProtocolVersion{primitive.ProtocolVersion5, primitive.ProtocolVersionDse1, primitive.ProtocolVersionDse2}
	if maxv == "v5" {
		vers = vers[:1]
	} else if maxv == "v4" || maxv == "v3" {
		vers = nil
	}
	var suspects []string
	sent := 0
	for _, v := range vers {
		for _, comp := range []string{"", "lz4", "snappy"} {
			if v == primitive.ProtocolVersion5 && comp == "snappy" {
				continue
			}
			cl, err := rawcql.Dial(p.addr, v, nil)
			if err != nil {
				continue
			}
			if cl.Handshake(comp, 5*time.Second) == nil {
				for k := 0; k < 4; k++ {
					var f *frame.Frame
					switch k {
					case 2:
						f = frame.NewFrame(v, int16(k+1), &message.Query{Query: "USE ks1", Options: &message.QueryOptions{Consistency: primitive.ConsistencyLevelOne}})
					default:
						f = BuildRequest(v, int16(k+1), []ReqKind{KQuery, KBatch, KQuery, KQuery}[k], true, NewTok(), primitive.ConsistencyLevelOne)
					}
					suspects = append(suspects, fmt.Sprintf("backend-refuses-version/%s/%s/request-%d", c13VerName(v), comp, k))
					if _, err := cl.CallF(f, 10*time.Second); err != nil {
						break
					}
					sent++
					r.Eval(1)
				}
			}
			cl.Close()
			r.NonTrivial(fmt.Sprintf("backend-refuses-version/%s/%s", c13VerName(v), comp))
			if !p.alive() {
				break
			}
		}
	}
	r.Obs("requests_in_versions_the_backend_refuses", sent)
	if why := p.canary(); why != "" {
		if len(suspects) > 8 {
			suspects = suspects[len(suspects)-8:]
		}
		c17Crash(r, p, "client-input/version-the-backend-refuses", suspects, why)
		return
	}
	r.Obs("canary_rounds_ok", 1)
}
