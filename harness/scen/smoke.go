//go:build verif

package scen

import (
	"fmt"
	"time"

	"github.com/datastax/go-cassandra-native-protocol/message"
	"github.com/datastax/go-cassandra-native-protocol/primitive"

	"verif/fakecass"
	"verif/px"
)

func init() {
	Register(&Runner{Prop: "SMOKE", Level: "exploration", Rule: "smoke", Shards: shards(1, 1), Timeout: timeouts(time.Minute, time.Minute), Run: smoke})
}

func smoke(c *Ctx) {
	bed, err := px.NewBed(px.BedConfig{Hosts: 3, NumConns: 2, Keyspaces: []string{"ks1"}, KeepBodies: true})
	if err != nil {
		panic(err)
	}
	defer bed.Close()
	bed.OnHook(nil)
	cl, err := bed.ReadyClient(primitive.ProtocolVersion4, "lz4")
	if err != nil {
		panic(err)
	}
	for i := 0; i < 5; i++ {
		tok := fmt.Sprintf("T%016x", i+1)
		f, err := cl.Call(int16(i+1), &message.Query{Query: "SELECT * FROM ks1.t WHERE k='" + tok + "'", Options: &message.QueryOptions{Consistency: primitive.ConsistencyLevelOne}}, 5*time.Second)
		if err != nil {
			panic(err)
		}
		fr, err := cl.Decode(f)
		if err != nil {
			panic(err)
		}
		e, ok := fakecass.DecodeEcho(fr.Body.Message.(*message.RowsResult))
		fmt.Printf("reply stream=%d op=%v echo=%+v ok=%v\n", f.Stream, f.OpCode, e, ok)
		c.R.Eval(1)
		c.R.NonTrivial(fmt.Sprint(e.Host))
	}
	f, err := cl.Call(100, &message.Query{Query: "SELECT * FROM system.local"}, 5*time.Second)
	fmt.Println(f, err)
	for _, e := range bed.Log.Snapshot() {
		fmt.Printf("%d %s %s cl=%d host=%d conn=%d st=%d op=%d tok=%s out=%s note=%s\n", e.L, e.Src, e.K, e.Cl, e.Host, e.Conn, e.St, e.Op, e.Tok, e.Outcome, e.Note)
	}
}
