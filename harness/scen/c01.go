//go:build verif

package scen

import (
	"fmt"
	"math/rand"
	"net"
	"os"
	"runtime"
	"sort"
	"strings"
	"sync"
	"sync/atomic"
	"time"

	"github.com/datastax/go-cassandra-native-protocol/frame"
	"github.com/datastax/go-cassandra-native-protocol/message"
	"github.com/datastax/go-cassandra-native-protocol/primitive"

	"verif/fakecass"
	"verif/model"
	"verif/mon"
	"verif/px"
	"verif/rawcql"
)

func init() {
	Register(&Runner{Prop: "C01", Level: "exploration",
		Rule:    "outcome storms (concurrent clients, pipelined mixed requests, random per-attempt outcomes incl. silence-then-drop), deterministic connection-death orderings through gate hooks, unhooked mass deaths and stream exhaustion against the real proxy; oracle = per (client, stream) send/receive pairing over the recorded history + bounded-progress rule for lost replies; distinct = (request kind, ordered outcome sequence observed at the backend, death/release order); non-trivial = >= 1 retry, re-prepare or connection death",
		Shards:  shards(4, 16),
		Timeout: timeouts(10*time.Minute, 60*time.Minute),
		Run:     runC01})
}

// ---------------------------------------------------------------------------------------------------------------------
// the exactly-once oracle

type eoKey struct {
	cl int
	st int16
}

type eoOutcome struct {
	Stray       []mon.Event         // frames received with no outstanding request on that stream (duplicates included)
	Outstanding map[eoKey]mon.Event // requests sent and not answered (yet)
	Answered    int
	BadDir      []mon.Event // reply frames without the response bit / with a request opcode
}

func exactlyOnce(events []mon.Event, closedClients map[int]bool) eoOutcome {
	out := eoOutcome{Outstanding: map[eoKey]mon.Event{}}
	for _, e := range events {
		if e.Src != "client" {
			continue
		}
		k := eoKey{e.Cl, int16(e.St)}
		switch e.K {
		case "send":
			if prev, dup := out.Outstanding[k]; dup {
				_ = prev // the harness never reuses a stream before its reply; treated as harness bug by callers
			}
			out.Outstanding[k] = e
		case "recv":
			if e.St == -1 && primitive.OpCode(e.Op) == primitive.OpCodeEvent {
				continue
			}
			if _, ok := out.Outstanding[k]; ok {
				delete(out.Outstanding, k)
				out.Answered++
			} else {
				out.Stray = append(out.Stray, e)
			}
		case "closed":
			closedClients[e.Cl] = true
		}
	}
	for k := range out.Outstanding {
		if closedClients[k.cl] {
			delete(out.Outstanding, k) // premise: only while the client stays connected
		}
	}
	return out
}

func opName(op int) string {
	return strings.TrimPrefix(strings.Fields(primitive.OpCode(op).String())[1], "")
}

// drain applies the bounded-progress rule: kill silent connections (premise), run OPTIONS round trips on every client
// with outstanding requests, and decide "lost" when nothing moves although the premise holds. It reports violations.
var flushSeq int64

func drain(r *mon.Result, bed *px.Bed, scripts *Scripts, clients []*rawcql.Client, label string, scenario map[string]interface{}, mark int) {
	closed := map[int]bool{}
	byID := map[int]*rawcql.Client{}
	for _, cl := range clients {
		byID[cl.ID] = cl
	}
	prev := -1
	stable := 0
	noFlush := map[int]bool{}
	wedged := map[int]bool{} // clients whose own OPTIONS the proxy stopped answering
	for round := 0; round < 60; round++ {
		scripts.KillSilent()
		evs := bed.Log.Snapshot()[mark:]
		eo := exactlyOnce(evs, closed)
		if len(eo.Outstanding) == 0 {
			break
		}
		// premise: every backend attempt of an outstanding token is answered or its connection was dropped
		traces := Traces(evs)
		premise := true
		for _, se := range eo.Outstanding {
			for _, a := range traces[se.Tok] {
				if (a.Outcome == "" || a.Outcome == string(model.ConnLost) || a.Outcome == "Silence") && !a.Closed {
					premise = false
					if x := bed.Cluster.ConnByID(a.Conn); x != nil {
						x.Kill(false)
					}
				}
			}
		}
		// logical steps on every client with outstanding requests (the clients side by side: one that the proxy no longer
		// answers at all costs a full time-out, and is left alone afterwards - its outstanding requests stay outstanding)
		stepped := true
		seen := map[int]bool{}
		var swg sync.WaitGroup
		var smu sync.Mutex
		for k := range eo.Outstanding {
			if seen[k.cl] {
				continue
			}
			seen[k.cl] = true
			cl := byID[k.cl]
			if cl == nil || cl.IsClosed() || wedged[k.cl] {
				continue
			}
			swg.Add(1)
			go func(id int, cl *rawcql.Client, flush bool) {
				defer swg.Done()
				if !ProgressSteps(cl, 50, 32000+int16(round%500)) {
					smu.Lock()
					stepped = false
					wedged[id] = true
					noFlush[id] = true
					smu.Unlock()
					return
				}
				// ... and a few forwarded round trips: OPTIONS are answered by the proxy itself, so on a loaded machine a hundred
				// of them can complete while forwarded requests are still queued towards the backends; requests that travel
				// the same way pace the verdict by the speed the proxy-backend pipeline really has
				for q := 0; q < 5 && flush; q++ {
					ftok := fmt.Sprintf("%s%012x", fakecass.FlushTokenPrefix, atomic.AddInt64(&flushSeq, 1))
					if _, err := cl.CallF(BuildRequest(cl.Version, 32600+int16(q), KQuery, true, ftok, primitive.ConsistencyLevelOne), 10*time.Second); err != nil {
						smu.Lock()
						noFlush[id] = true // a flush request that is itself lost: no pacing for this client any more
						smu.Unlock()
						flush = false
					}
				}
			}(k.cl, cl, !noFlush[k.cl])
		}
		swg.Wait()
		if !stepped {
			// the client's own OPTIONS got no answer: either the client connection was closed or the proxy is wedged for
			// this client; the latter shows as outstanding OPTIONS in the next round
			r.Obs("progress_step_failures", 1)
		}
		if len(eo.Outstanding) == prev && premise {
			stable++
		} else {
			stable = 0
		}
		prev = len(eo.Outstanding)
		if stable >= 3 {
			break
		}
	}
	evs := bed.Log.Snapshot()[mark:]
	eo := exactlyOnce(evs, closed)
	traces := Traces(evs)
	r.Obs("requests_answered", eo.Answered)
	for _, e := range evs {
		if e.Src == "client" && e.K == "garbage" {
			r.Violate(mon.Violation{Signature: fmt.Sprintf("C01/not-a-response-frame/%s", label),
				Detail:   fmt.Sprintf("client %d received bytes that are not a response frame (%s): whatever was meant for its outstanding requests can no longer be told apart; first bytes %x", e.Cl, e.Note, e.Body[:minInt(len(e.Body), 32)]),
				Scenario: scenario, Witness: historyOf(evs, e.Cl, int16(e.St), "")})
		}
	}
	for _, e := range eo.Stray {
		r.Violate(mon.Violation{Signature: fmt.Sprintf("C01/extra-frame/%s/%s", label, opName(e.Op)),
			Detail:   fmt.Sprintf("client %d received a frame on stream %d with no outstanding request (duplicate or stray reply), opcode %v", e.Cl, e.St, primitive.OpCode(e.Op)),
			Scenario: scenario, Witness: historyOf(evs, e.Cl, int16(e.St), "")})
	}
	if len(eo.Outstanding) > 0 {
		// group by what the request was, so the signature does not depend on counts
		kinds := map[string]int{}
		var sample mon.Event
		for _, se := range eo.Outstanding {
			kinds[opName(se.Op)]++
			sample = se
		}
		var ks []string
		for k := range kinds {
			ks = append(ks, k)
		}
		sort.Strings(ks)
		dump := goroutineDump()
		r.Violate(mon.Violation{Signature: fmt.Sprintf("C01/lost-reply/%s/%s", label, strings.Join(ks, "+")),
			Detail: fmt.Sprintf("%d request(s) never answered although every backend attempt was answered or dropped and the client completed 2x50 further round trips - or, for %d client connection(s), the proxy stopped answering anything at all, the client's own OPTIONS included, although the connection is open (%v); e.g. client %d stream %d token %s attempts %s; stuck goroutines: %s",
				len(eo.Outstanding), len(wedged), kinds, sample.Cl, sample.St, sample.Tok, describe(traces[sample.Tok]), stuckSummary(dump)),
			Scenario: scenario, Witness: map[string]interface{}{"history": historyOf(evs, sample.Cl, int16(sample.St), sample.Tok), "goroutines": dump}})
	}
}

func goroutineDump() string {
	buf := make([]byte, 4<<20)
	n := runtime.Stack(buf, true)
	s := string(buf[:n])
	// keep only goroutines inside the repository
	var keep []string
	for _, g := range strings.Split(s, "\n\n") {
		if strings.Contains(g, "github.com/datastax/cql-proxy/proxycore.(*ClientConn).Closing") || strings.Contains(g, "proxy.(*request)") {
			keep = append(keep, g)
		}
	}
	if len(keep) > 12 {
		keep = keep[:12]
	}
	return strings.Join(keep, "\n\n")
}

func stuckSummary(dump string) string {
	n := strings.Count(dump, "(*ClientConn).Closing")
	m := strings.Count(dump, "sync.(*RWMutex).RLock")
	return fmt.Sprintf("%d goroutine(s) in ClientConn.Closing, %d blocked in RWMutex.RLock", n, m)
}

// historyOfTok: the history of the request that carried the token, including what its client received on its stream.
func historyOfTok(evs []mon.Event, tok string) []string {
	for _, e := range evs {
		if e.Src == "client" && e.K == "send" && e.Tok == tok {
			var out []string
			for _, l := range historyOf(evs, e.Cl, int16(e.St), tok) {
				out = append(out, l)
			}
			for _, x := range evs {
				if x.Src == "client" && x.K == "recv" && x.Cl == e.Cl && x.St == e.St && x.L > e.L {
					ri := DecodeReply("", &rawcql.Frame{IsResponse: true, Version: primitive.ProtocolVersion(x.Ver), Flags: primitive.HeaderFlag(x.Fl), Stream: int16(x.St), OpCode: primitive.OpCode(x.Op), Body: x.Body})
					out = append(out, fmt.Sprintf("reply: %s %q body=%q", ri.Kind, ri.ErrMsg, clipStr(string(x.Body), 160)))
					break
				}
			}
			return out
		}
	}
	return historyOf(evs, -1, -1, tok)
}

func historyOf(evs []mon.Event, cl int, st int16, tok string) []string {
	var out []string
	for _, e := range evs {
		if (e.Src == "client" && e.Cl == cl && int16(e.St) == st) || (tok != "" && e.Tok == tok) || e.Src == "harness" {
			out = append(out, fmt.Sprintf("%d %s %s cl=%d host=%d conn=%d st=%d op=%d tok=%s outcome=%s %s", e.L, e.Src, e.K, e.Cl, e.Host, e.Conn, e.St, e.Op, e.Tok, e.Outcome, e.Note))
		}
		if len(out) > 80 {
			break
		}
	}
	return out
}

// identityCheck is C02's oracle on the same history: the reply on (client, stream) answers the request sent there.
func identityCheck(r *mon.Result, prop string, evs []mon.Event, comps map[int]string, label string, scenario map[string]interface{}) int {
	checked := 0
	sent := map[eoKey]mon.Event{}
	for _, e := range evs {
		if e.Src != "client" {
			continue
		}
		k := eoKey{e.Cl, int16(e.St)}
		if e.K == "send" {
			sent[k] = e
			continue
		}
		if e.K != "recv" || e.St == -1 {
			continue
		}
		se, ok := sent[k]
		if !ok {
			continue
		}
		delete(sent, k)
		ri := DecodeReply(comps[e.Cl], &rawcql.Frame{IsResponse: true, Version: primitive.ProtocolVersion(e.Ver), Flags: primitive.HeaderFlag(e.Fl), Stream: int16(e.St), OpCode: primitive.OpCode(e.Op), Body: e.Body})
		if ri.Err != nil {
			r.Violate(mon.Violation{Property: prop, Signature: fmt.Sprintf("%s/undecodable-reply/%s", prop, label), Detail: fmt.Sprintf("client %d stream %d: reply does not decode: %v", e.Cl, e.St, ri.Err), Scenario: scenario})
			continue
		}
		checked++
		reqOp := primitive.OpCode(se.Op)
		bad := ""
		switch {
		case ri.Tok != "" && se.Tok != "" && ri.Tok != se.Tok:
			bad = fmt.Sprintf("reply carries token %s but the request on this stream carried %s", ri.Tok, se.Tok)
		case ri.Tok != "" && se.Tok == "":
			bad = fmt.Sprintf("reply carries token %s but the request on this stream had none (opcode %v)", ri.Tok, reqOp)
		case reqOp == primitive.OpCodeOptions && ri.Kind != "Supported" && !strings.HasPrefix(ri.Kind, "Error:"):
			bad = "OPTIONS answered with " + ri.Kind
		case reqOp == primitive.OpCodePrepare && ri.Kind != "Prepared" && !strings.HasPrefix(ri.Kind, "Error:"):
			bad = "PREPARE answered with " + ri.Kind
		case (reqOp == primitive.OpCodeExecute || reqOp == primitive.OpCodeBatch || reqOp == primitive.OpCodeQuery) && (ri.Kind == "Prepared" || ri.Kind == "Supported" || ri.Kind == "Ready"):
			bad = fmt.Sprintf("%v answered with %s", reqOp, ri.Kind)
		case reqOp == primitive.OpCodeRegister && ri.Kind != "Ready" && !strings.HasPrefix(ri.Kind, "Error:"):
			bad = "REGISTER answered with " + ri.Kind
		}
		if bad == "" && reqOp == primitive.OpCodePrepare && ri.Kind == "Prepared" && se.Tok != "" {
			// the prepared id is a function of the statement text of *this* request
			plain := se.Body
			if primitive.HeaderFlag(se.Fl).Contains(primitive.HeaderFlagCompressed) {
				if p, err := fakecass.Decompress(comps[e.Cl], se.Body); err == nil {
					plain = p
				}
			}
			if q := prepareText(plain); q != "" {
				want := fmt.Sprintf("%x", fakecass.PreparedID("", q))
				if ri.PrepID != want {
					bad = fmt.Sprintf("PREPARE reply id %s is not the id of this request's statement (%s)", ri.PrepID, want)
				}
			}
		}
		if bad != "" {
			r.Violate(mon.Violation{Property: prop, Signature: fmt.Sprintf("%s/misrouted/%s/%s->%s", prop, label, opName(se.Op), strings.SplitN(ri.Kind, " ", 2)[0]),
				Detail: fmt.Sprintf("client %d stream %d: %s", e.Cl, e.St, bad), Scenario: scenario, Witness: historyOf(evs, e.Cl, int16(e.St), se.Tok)})
		}
	}
	return checked
}

func prepareText(body []byte) string {
	if len(body) < 4 {
		return ""
	}
	n := int(body[0])<<24 | int(body[1])<<16 | int(body[2])<<8 | int(body[3])
	if n < 0 || 4+n > len(body) {
		return ""
	}
	return string(body[4 : 4+n])
}

// ---------------------------------------------------------------------------------------------------------------------
// workload 1: outcome storm

type stormParams struct {
	Hosts, Conns, Clients, PerClient, Window int
	Silence                                  bool // ConnLost as silence + later kill instead of an immediate drop
	Compress                                 bool
	SameStreams                              bool // every client uses the same stream ids 0,1,2,... (C02)
	DeathRate                                int  // per-mille probability of a connection-loss outcome
}

func (p stormParams) String() string {
	return fmt.Sprintf("storm h%d c%d cl%d x%d w%d silence=%v comp=%v", p.Hosts, p.Conns, p.Clients, p.PerClient, p.Window, p.Silence, p.Compress)
}

func randomSeq(rng *rand.Rand, deathRate int) []model.Outcome {
	var seq []model.Outcome
	for len(seq) < 6 {
		x := rng.Intn(1000)
		var o model.Outcome
		switch {
		case x < deathRate:
			o = model.ConnLost
		case x < deathRate+600:
			o = model.Rows
		default:
			o = model.AllOutcomes[rng.Intn(len(model.AllOutcomes))]
			if o == model.ConnLost {
				o = model.Overloaded
			}
		}
		seq = append(seq, o)
		if o == model.Rows || o == model.Void {
			break
		}
	}
	return seq
}

func storm(c *Ctx, idx int, p stormParams, props []string) {
	r := c.R
	rng := c.Rng(idx)
	bed, err := px.NewBed(px.BedConfig{Hosts: p.Hosts, NumConns: p.Conns, Keyspaces: []string{"ks1"}, ReconnectBase: time.Millisecond, ReconnectMax: 3 * time.Millisecond, KeepBodies: true})
	if err != nil {
		r.Inconc("storm: cannot start bed: " + err.Error())
		return
	}
	defer bed.Close()
	bed.OnHook(nil)
	scripts := NewScripts()
	scripts.ConnLostSilence = p.Silence
	bed.Cluster.SetScript(scripts.Func())
	scenario := map[string]interface{}{"kind": "storm", "idx": idx, "params": p.String()}

	var clients []*rawcql.Client
	comps := map[int]string{}
	for i := 0; i < p.Clients; i++ {
		comp := ""
		if p.Compress && i%2 == 1 {
			comp = []string{"lz4", "snappy"}[(i/2)%2]
		}
		cl, err := bed.ReadyClient(primitive.ProtocolVersion4, comp)
		if err != nil {
			r.Inconc("storm: client handshake failed: " + err.Error())
			return
		}
		defer cl.Close()
		clients = append(clients, cl)
		comps[cl.ID] = comp
	}
	if err := PrepareStandard(bed, clients[0], true); err != nil {
		r.Inconc("storm: prepare failed: " + err.Error())
		return
	}
	mark := bed.Log.Len()

	stop := make(chan struct{})
	var killerWG sync.WaitGroup
	killerWG.Add(1)
	go func() { // premise keeper: silent connections are dropped a little later
		defer killerWG.Done()
		for {
			select {
			case <-stop:
				return
			case <-time.After(3 * time.Millisecond):
				scripts.KillSilent()
			}
		}
	}()

	var wg sync.WaitGroup
	var sentTotal int64
	for ci, cl := range clients {
		wg.Add(1)
		seed := rng.Int63() + int64(ci)
		go func(ci int, cl *rawcql.Client) {
			defer wg.Done()
			lr := rand.New(rand.NewSource(seed))
			sem := make(chan struct{}, p.Window)
			cl.SetOnFrame(func(f *rawcql.Frame) {
				if f.Stream >= 0 && f.Stream < 30000 {
					select {
					case <-sem:
					default:
					}
				}
			})
			for i := 0; i < p.PerClient; i++ {
				select {
				case sem <- struct{}{}:
				case <-cl.Closed():
					return
				case <-time.After(30 * time.Second):
					return // the drain phase decides whether something was lost
				}
				st := int16(i)
				if !p.SameStreams {
					st = int16((i*7 + ci*1000) % 30000)
					st = int16(i) // unique per client is enough; kept simple
				}
				x := lr.Intn(100)
				var err error
				switch {
				case x < 8:
					err = cl.Send(st, &message.Options{})
				case x < 12:
					err = cl.Send(st, &message.Query{Query: "SELECT * FROM system.local", Options: &message.QueryOptions{Consistency: primitive.ConsistencyLevelOne}})
				case x < 14:
					err = cl.Send(st, &message.Register{EventTypes: []primitive.EventType{primitive.EventTypeSchemaChange}})
				case x < 16: // a version the proxy rejects locally (max is v4)
					err = cl.SendFrame(primitive.ProtocolVersion5, 0, st, primitive.OpCodeOptions, nil)
				case x < 18: // an opcode the proxy does not handle
					err = cl.Send(st, &message.AuthResponse{Token: []byte("x")})
				default:
					tok := NewTok()
					scripts.Set(tok, randomSeq(lr, p.DeathRate))
					kind := []ReqKind{KQuery, KQuery, KExecute, KBatch, KPrepare}[lr.Intn(5)]
					f := BuildRequest(primitive.ProtocolVersion4, st, kind, lr.Intn(2) == 0, tok, primitive.ConsistencyLevelQuorum)
					err = cl.SendF(f)
				}
				if err != nil {
					return
				}
				atomic.AddInt64(&sentTotal, 1)
			}
		}(ci, cl)
	}
	wg.Wait()
	drain(r, bed, scripts, clients, "storm", scenario, mark)
	close(stop)
	killerWG.Wait()

	evs := bed.Log.Snapshot()[mark:]
	for _, pr := range props {
		if pr == "C02" {
			n := identityCheck(r, "C02", evs, comps, "storm", scenario)
			r.Obs("replies_identity_checked", n)
		}
		if pr == "C03" {
			n := transparencyCheck(r, evs, "storm", scenario)
			r.Obs("requests_compared", n)
		}
	}
	// C04's predicate is trace-local and holds under concurrency too
	traces := Traces(evs)
	deaths := 0
	for _, e := range evs {
		if e.Src == "backend" && e.K == "closed" {
			deaths++
		}
	}
	r.Obs("requests_sent", int(sentTotal))
	r.Obs("backend_conn_deaths", deaths)
	r.Obs("storms", 1)
	for tok, as := range traces {
		_ = tok
		if len(as) >= 2 {
			shape := make([]string, len(as))
			for i, a := range as {
				shape[i] = a.Outcome
			}
			r.NonTrivial(fmt.Sprintf("storm/%s/%s", opName(as[0].Op), strings.Join(shape, ",")))
			r.Obs("tokens_with_retry_or_failover", 1)
		}
	}
	r.Eval(int(sentTotal))
	streamConservation(r, bed, "storm", scenario)
}

// streamConservation checks at quiescence that no backend stream id leaked: free + mapped == 2048, and mapped counts
// only heartbeats in flight.
func streamConservation(r *mon.Result, bed *px.Bed, label string, scenario map[string]interface{}) {
	for attempt := 0; attempt < 50; attempt++ {
		bad := ""
		for _, bc := range bed.BackendConns() {
			select {
			case <-bc.IsClosed():
				continue
			default:
			}
			free, mapped := bc.VerifPending()
			if free+mapped != 2048 || mapped > 1 {
				_, remote := bc.VerifAddrs()
				bad = fmt.Sprintf("backend connection to %s: free=%d mapped=%d", remote, free, mapped)
			}
		}
		if bad == "" {
			r.Obs("stream_conservation_checks", 1)
			return
		}
		if attempt == 49 {
			r.Violate(mon.Violation{Signature: "C01/stream-leak/" + label, Detail: "at quiescence " + bad + " (expected free+mapped == 2048 and nothing mapped)", Scenario: scenario})
		}
		time.Sleep(10 * time.Millisecond)
	}
}

// ---------------------------------------------------------------------------------------------------------------------
// workload 2: deterministic connection-death orderings

var deathGates = []string{"clientconn.receive.dispatch@1", "clientconn.receive.dispatch@2", "clientconn.closing.flagged@1", "clientconn.closing.flagged@2", "connpool.slot.clear@1", "connpool.slot.clear@2"}

// linearExtensions enumerates all orders of the six gates in which a connection's late reply is dispatched before the
// same connection's Closing (both happen on that connection's reader goroutine).
func linearExtensions() [][]int {
	var out [][]int
	perm := []int{0, 1, 2, 3, 4, 5}
	var rec func(k int)
	rec = func(k int) {
		if k == len(perm) {
			pos := make([]int, 6)
			for i, g := range perm {
				pos[g] = i
			}
			if pos[0] < pos[2] && pos[1] < pos[3] {
				out = append(out, append([]int{}, perm...))
			}
			return
		}
		for i := k; i < len(perm); i++ {
			perm[k], perm[i] = perm[i], perm[k]
			rec(k + 1)
			perm[k], perm[i] = perm[i], perm[k]
		}
	}
	rec(0)
	return out
}

func deathOrder(c *Ctx, idx int, order []int, class string) {
	r := c.R
	names := make([]string, len(order))
	for i, g := range order {
		names[i] = strings.NewReplacer("clientconn.", "", "connpool.", "").Replace(deathGates[g])
	}
	label := "death-order"
	scenario := map[string]interface{}{"kind": "death-order", "order": order, "class": class}
	c.Step("death-order %v %s", names, class)
	bed, err := px.NewBed(px.BedConfig{Hosts: 2, NumConns: 1, Keyspaces: []string{"ks1"}, ReconnectBase: time.Millisecond, ReconnectMax: 3 * time.Millisecond})
	if err != nil {
		r.Inconc("death-order: cannot start bed: " + err.Error())
		return
	}
	defer bed.Close()
	gates := NewGates()
	gates.Filter = func(ev *px.HookEvent) bool { // only pooled connections, never the control connection
		if ev.Local == "" {
			return true
		}
		x := bed.Cluster.ConnByPeerAddr(ev.Local)
		return x != nil && !x.IsRegistered()
	}
	bed.OnHook(func(ev *px.HookEvent) { gates.Handle(ev, bed.Cluster.HostIdxOfAddr(ev.Remote)) })
	scripts := NewScripts()
	scripts.ConnLostSilence = true
	bed.Cluster.SetScript(func(a *fakecass.Arrival) fakecass.Outcome {
		if strings.HasPrefix(a.Query, "SELECT late") {
			o := fakecass.Rows()
			o.Hold = true
			return o
		}
		return scripts.Func()(a)
	})
	cl, err := bed.ReadyClient(primitive.ProtocolVersion4, "")
	if err != nil {
		r.Inconc("death-order: handshake: " + err.Error())
		return
	}
	defer cl.Close()
	if err := PrepareStandard(bed, cl, true); err != nil {
		r.Inconc("death-order: prepare: " + err.Error())
		return
	}
	mark := bed.Log.Len()
	// 4 silent requests (two per host, alternating through the round-robin plan) + 2 whose reply is held ("late")
	n := 0
	send := func(idem bool, late bool) {
		tok := NewTok()
		scripts.Set(tok, []model.Outcome{model.ConnLost, model.Rows, model.Rows})
		q := fmt.Sprintf(nonIdemInsert, tok)
		if idem {
			q = fmt.Sprintf(idemInsert, tok)
		}
		if late {
			q = fmt.Sprintf("SELECT late FROM ks1.t WHERE k='%s'", tok) // the script holds this reply until just before the kill
		}
		_ = cl.Send(int16(n), &message.Query{Query: q, Options: &message.QueryOptions{Consistency: primitive.ConsistencyLevelOne}})
		n++
	}
	for i := 0; i < 4; i++ {
		idem := class == "idem" || (class == "mixed" && i%2 == 0)
		send(idem, false)
	}
	send(true, true)
	send(true, true)
	// wait until all six arrived at the backend
	if !waitFor(func() bool {
		cnt := 0
		for _, e := range bed.Log.Snapshot()[mark:] {
			if e.Src == "backend" && e.K == "recv" && e.Arrival == 1 {
				cnt++
			}
		}
		return cnt >= 6
	}, 10*time.Second) {
		r.Inconc("death-order: requests did not reach the backend")
		return
	}
	gates.Arm(deathGates...)
	bed.Cluster.ReleaseHeld(nil) // late replies are written now, then both hosts die in one critical section
	bed.Cluster.KillPooled(false, 1, 2)
	// release the gates in the order under test; a gate nobody reaches within the bound is skipped (e.g. a late reply that
	// lost the race against the kill) and the order actually executed is recorded
	var executed []string
	for _, g := range order {
		k := deathGates[g]
		if gates.Await(k, 300*time.Millisecond) {
			executed = append(executed, names[indexOf(order, g)])
		}
		gates.Release(k)
		time.Sleep(500 * time.Microsecond)
	}
	gates.ReleaseAll()
	drain(r, bed, scripts, []*rawcql.Client{cl}, label, scenario, mark)
	r.Eval(1)
	r.Obs("death_orders_run", 1)
	r.Obs("gates_reached", len(executed))
	r.NonTrivial("death-order/" + class + "/" + strings.Join(executed, ">"))
	if idx%40 == 0 {
		r.Sample(map[string]interface{}{"death_order": executed, "class": class})
	}
}

func indexOf(a []int, v int) int {
	for i, x := range a {
		if x == v {
			return i
		}
	}
	return -1
}

func waitFor(cond func() bool, d time.Duration) bool {
	deadline := time.Now().Add(d)
	for time.Now().Before(deadline) {
		if cond() {
			return true
		}
		time.Sleep(time.Millisecond)
	}
	return cond()
}

// ---------------------------------------------------------------------------------------------------------------------
// workload 3: unhooked mass death; workload 4: exhaustion

func massDeath(c *Ctx, idx int, hosts, pendingPerConn int) {
	r := c.R
	label := "mass-death"
	scenario := map[string]interface{}{"kind": "mass-death", "hosts": hosts, "pending": pendingPerConn, "idx": idx}
	c.Step("mass-death hosts=%d pending=%d idx=%d", hosts, pendingPerConn, idx)
	bed, err := px.NewBed(px.BedConfig{Hosts: hosts, NumConns: 1, Keyspaces: []string{"ks1"}, ReconnectBase: time.Millisecond, ReconnectMax: 3 * time.Millisecond})
	if err != nil {
		r.Inconc("mass-death: cannot start bed: " + err.Error())
		return
	}
	defer bed.Close()
	bed.OnHook(nil)
	scripts := NewScripts()
	scripts.ConnLostSilence = true
	scripts.Default = model.ConnLost // every first arrival is swallowed; after the deaths hosts answer
	bed.Cluster.SetScript(func(a *fakecass.Arrival) fakecass.Outcome {
		if a.K >= 2 {
			return fakecass.Rows()
		}
		return scripts.Func()(a)
	})
	nClients := 2
	var clients []*rawcql.Client
	for i := 0; i < nClients; i++ {
		cl, err := bed.ReadyClient(primitive.ProtocolVersion4, "")
		if err != nil {
			r.Inconc("mass-death: handshake: " + err.Error())
			return
		}
		defer cl.Close()
		clients = append(clients, cl)
	}
	mark := bed.Log.Len()
	total := hosts * pendingPerConn
	rng := c.Rng(idx)
	for i := 0; i < total; i++ {
		cl := clients[i%nClients]
		tok := NewTok()
		idem := rng.Intn(4) != 0
		f := BuildRequest(primitive.ProtocolVersion4, int16(i/nClients), KQuery, idem, tok, primitive.ConsistencyLevelOne)
		if err := cl.SendF(f); err != nil {
			r.Inconc("mass-death: send: " + err.Error())
			return
		}
	}
	if !waitFor(func() bool {
		cnt := 0
		for _, e := range bed.Log.Snapshot()[mark:] {
			if e.Src == "backend" && e.K == "recv" && e.Arrival == 1 {
				cnt++
			}
		}
		return cnt >= total
	}, 20*time.Second) {
		r.Inconc("mass-death: requests did not all reach the backend")
		return
	}
	all := make([]int, hosts)
	for i := range all {
		all[i] = i + 1
	}
	scripts.mu.Lock()
	scripts.Silent = nil // the mass kill below drops them all at once
	scripts.mu.Unlock()
	bed.Cluster.KillPooled(idx%2 == 1, all...)
	drain(r, bed, scripts, clients, label, scenario, mark)
	r.Eval(total)
	r.Obs("mass_deaths_run", 1)
	r.Obs("max:pending_at_death", total)
	r.NonTrivial(fmt.Sprintf("mass-death/h%d/p%d/rst=%v", hosts, pendingPerConn, idx%2 == 1))
}

func exhaustion(c *Ctx, idx int) {
	r := c.R
	label := "exhaustion"
	scenario := map[string]interface{}{"kind": "exhaustion", "idx": idx}
	c.Step("exhaustion idx=%d", idx)
	bed, err := px.NewBed(px.BedConfig{Hosts: 1, NumConns: 1, Keyspaces: []string{"ks1"}, KeepBodies: true})
	if err != nil {
		r.Inconc("exhaustion: cannot start bed: " + err.Error())
		return
	}
	defer bed.Close()
	bed.OnHook(nil)
	scripts := NewScripts()
	bed.Cluster.SetScript(func(a *fakecass.Arrival) fakecass.Outcome {
		o := fakecass.Rows()
		o.Hold = true
		return o
	})
	cl, err := bed.ReadyClient(primitive.ProtocolVersion4, "")
	if err != nil {
		r.Inconc("exhaustion: handshake: " + err.Error())
		return
	}
	defer cl.Close()
	mark := bed.Log.Len()
	total := 2048 + 300 + idx*37
	for i := 0; i < total; i++ {
		f := BuildRequest(primitive.ProtocolVersion4, int16(i), KQuery, true, NewTok(), primitive.ConsistencyLevelOne)
		if err := cl.SendF(f); err != nil {
			r.Inconc("exhaustion: send: " + err.Error())
			return
		}
	}
	// wait until the proxy has processed every request (the last ones are answered locally: streams exhausted)
	waitFor(func() bool { return bed.Cluster.HeldCount()+int(cl.Received()) >= total }, 20*time.Second)
	held := bed.Cluster.HeldCount()
	rng := c.Rng(idx)
	bed.Cluster.ReleaseHeld(rng.Perm(held))
	drain(r, bed, scripts, []*rawcql.Client{cl}, label, scenario, mark)
	evs := bed.Log.Snapshot()[mark:]
	n := identityCheck(r, "C01", evs, map[int]string{}, label, scenario)
	_ = n
	local := 0
	for _, f := range cl.Frames() {
		if f.OpCode == primitive.OpCodeError {
			local++
		}
	}
	r.Eval(total)
	r.Obs("exhaustion_runs", 1)
	r.Obs("answered_no_more_hosts", local)
	r.Obs("max:held_backend_replies", held)
	if local > 0 {
		r.NonTrivial(fmt.Sprintf("exhaustion/%d", total))
	}
	streamConservation(r, bed, label, scenario)
}

// ---------------------------------------------------------------------------------------------------------------------

func runC01(c *Ctx) {
	r := c.R
	r.Assume("'never none' is restated as bounded progress: a reply is lost iff every backend attempt was answered or dropped and the same client completed 2x50 further OPTIONS round trips with nothing moving")
	r.Assume("a request counts only while its client connection stays open; EVENT frames on stream -1 are not replies")
	r.Require("requests_answered", "death_orders_run", "kill_under_fire_runs", "proxy_closed_connections_with_requests_in_flight", "reprepare_storm_requests", "slow_reader_requests", "local_answers_requests")
	if os.Getenv("VERIF_C01_ONLY") != "" {
		// debugging aid
	}
	i := 0
	next := func() int { i++; return i }

	if c.Replay != nil {
		switch c.Replay["kind"] {
		case "death-order":
			var ord []int
			for _, v := range c.Replay["order"].([]interface{}) {
				ord = append(ord, int(v.(float64)))
			}
			deathOrder(c, 0, ord, c.Replay["class"].(string))
			return
		}
	}

	// 1. storms
	storms := []stormParams{
		{Hosts: 2, Conns: 1, Clients: 4, PerClient: 600, Window: 200, DeathRate: 10},
		{Hosts: 3, Conns: 2, Clients: 8, PerClient: 500, Window: 300, DeathRate: 5, Compress: true},
		{Hosts: 1, Conns: 1, Clients: 2, PerClient: 800, Window: 100, DeathRate: 10, Silence: true},
		{Hosts: 4, Conns: 1, Clients: 16, PerClient: 300, Window: 150, DeathRate: 8, Silence: true, Compress: true},
	}
	if !c.Quick() {
		for k := 0; k < 236; k++ {
			rng := c.Rng(1000 + k)
			storms = append(storms, stormParams{Hosts: 1 + rng.Intn(4), Conns: 1 + rng.Intn(2), Clients: 1 + rng.Intn(16), PerClient: 500 + rng.Intn(1500),
				Window: 50 + rng.Intn(1950), DeathRate: rng.Intn(25), Silence: rng.Intn(2) == 0, Compress: rng.Intn(2) == 0})
		}
	}
	if c.Replay != nil && c.Replay["kind"] == "storm" { // the storm of the recorded index (thorough list)
		want := int(c.Replay["idx"].(float64))
		all := storms
		if c.Quick() {
			for k := 0; k < 236; k++ {
				rng := c.Rng(1000 + k)
				all = append(all, stormParams{Hosts: 1 + rng.Intn(4), Conns: 1 + rng.Intn(2), Clients: 1 + rng.Intn(16), PerClient: 500 + rng.Intn(1500),
					Window: 50 + rng.Intn(1950), DeathRate: rng.Intn(25), Silence: rng.Intn(2) == 0, Compress: rng.Intn(2) == 0})
			}
		}
		if want >= 1 && want <= len(all) {
			c.Step("%s", all[want-1].String())
			storm(c, want, all[want-1], nil)
		}
		return
	}
	for _, sp := range storms {
		k := next()
		if c.Mine(k) {
			c.Step("%s", sp.String())
			storm(c, k, sp, nil)
		}
	}

	// 2. death orderings
	exts := linearExtensions()
	r.Extra["death_order_linear_extensions"] = len(exts)
	var chosen [][]int
	if c.Quick() {
		rng := c.Rng(7)
		for _, j := range rng.Perm(len(exts))[:24] {
			chosen = append(chosen, exts[j])
		}
		// the simultaneous-death order that needs both Closing calls to overlap is always in the quick list
		chosen = append(chosen, []int{0, 1, 2, 3, 4, 5}, []int{0, 1, 3, 2, 5, 4})
	} else {
		chosen = exts
	}
	classes := []string{"idem", "nonidem", "mixed"}
	for j, ord := range chosen {
		for ci, cls := range classes {
			if c.Quick() && ci != j%3 {
				continue
			}
			k := next()
			if c.Mine(k) {
				deathOrder(c, j, ord, cls)
			}
		}
	}

	// 3. unhooked mass deaths
	for j := 0; j < c.Pick(5, 300); j++ {
		k := next()
		if c.Mine(k) {
			massDeath(c, j, 2+j%3, 1500+(j%3)*250)
		}
	}
	// 3b. connection deaths racing with senders
	for j := 0; j < c.Pick(4, 240); j++ {
		k := next()
		if c.Mine(k) {
			killUnderFire(c, j, 24+8*(j%2), c.Pick(250, 600))
		}
	}
	// 3c. the proxy closes connections with requests in flight itself
	for j := 0; j < c.Pick(4, 120); j++ {
		k := next()
		if c.Mine(k) {
			proxyClosesConn(c, j, []string{"idle-timeout", "host-removed"}[j%2])
		}
	}
	// 3d. hosts that keep forgetting statements while EXECUTEs are pipelined; re-PREPAREs that fail or lose their connection
	for j := 0; j < c.Pick(6, 240); j++ {
		k := next()
		if c.Mine(k) {
			reprepareStorm(c, j)
		}
	}
	// 3f. the requests the proxy answers itself, pipelined and repeated
	for j := 0; j < c.Pick(4, 160); j++ {
		k := next()
		if c.Mine(k) {
			localAnswers(c, j)
		}
	}
	// 3e. a client that pipelines thousands of requests and reads late
	for j := 0; j < c.Pick(1, 12); j++ {
		k := next()
		if c.Mine(k) {
			slowReaderScenario(c, j)
		}
	}
	// 4. exhaustion
	for j := 0; j < c.Pick(2, 60); j++ {
		k := next()
		if c.Mine(k) {
			exhaustion(c, j)
		}
	}
	var _ = frame.NewFrame
}

// killUnderFire: many clients send at full speed to a host with a single pooled connection while that connection is
// killed again and again; every connection death races with the senders registering requests on it.
func killUnderFire(c *Ctx, idx int, nClients, rounds int) {
	killUnderFireHow(c, idx, nClients, rounds, false)
}

// killUnderFireHow: with garbage set the backend connections are not killed by the harness; instead a node answers the next
// request it reads with bytes that are no answer to it (a frame on a stream nobody uses, or junk), and the proxy closes the
// connection itself - while the well-behaved clients' requests are in flight on it and keep arriving (C17).
func killUnderFireHow(c *Ctx, idx int, nClients, rounds int, garbage bool) {
	r := c.R
	label := "kill-under-fire"
	if garbage {
		label = "backend-garbage-under-fire"
	}
	scenario := map[string]interface{}{"kind": label, "idx": idx, "clients": nClients, "rounds": rounds}
	c.Step("%s idx=%d clients=%d rounds=%d", label, idx, nClients, rounds)
	bed, err := px.NewBed(px.BedConfig{Hosts: 1 + idx%2, NumConns: 1, Keyspaces: []string{"ks1"}, ReconnectBase: time.Millisecond, ReconnectMax: 2 * time.Millisecond})
	if err != nil {
		r.Inconc("kill-under-fire: cannot start bed: " + err.Error())
		return
	}
	defer bed.Close()
	bed.OnHook(nil)
	scripts := NewScripts()
	bed.Cluster.SetScript(scripts.Func())
	var garble [3]int32 // per host: the next request read there is answered with garbage
	if garbage {
		inner := scripts.Func()
		bed.Cluster.SetScript(func(a *fakecass.Arrival) fakecass.Outcome {
			if h := a.Conn.Host.Idx; a.Token != "" && h < len(garble) {
				if k := atomic.SwapInt32(&garble[h], 0); k != 0 {
					raw := []byte{0xff, 0xfe, 0xfd, 0xfc, 0xfb, 0xfa, 0xf9, 0xf8, 0xf7, 0xf6}
					if k%2 == 0 {
						raw = respFrame(a.Header.Version, 0, a.Stream+1000, 8, []byte{0, 0, 0, 1})
					}
					return fakecass.Outcome{Name: "Garbage", RawFrame: raw}
				}
			}
			return inner(a)
		})
	}
	var clients []*rawcql.Client
	for i := 0; i < nClients; i++ {
		cl, err := bed.ReadyClient(primitive.ProtocolVersion4, "")
		if err != nil {
			r.Inconc(label + ": handshake: " + err.Error())
			return
		}
		defer cl.Close()
		clients = append(clients, cl)
	}
	mark := bed.Log.Len()
	stop := make(chan struct{})
	var wg sync.WaitGroup
	var sent int64
	for ci, cl := range clients {
		wg.Add(1)
		go func(ci int, cl *rawcql.Client) {
			defer wg.Done()
			sem := make(chan struct{}, 48)
			cl.SetOnFrame(func(f *rawcql.Frame) {
				if f.Stream >= 0 && f.Stream < 30000 {
					select {
					case <-sem:
					default:
					}
				}
			})
			for i := 0; ; i++ {
				select {
				case <-stop:
					return
				case sem <- struct{}{}:
				case <-time.After(20 * time.Second):
					return
				}
				if i >= 29000 {
					return
				}
				f := BuildRequest(primitive.ProtocolVersion4, int16(i), KQuery, i%3 != 0, NewTok(), primitive.ConsistencyLevelOne)
				if cl.SendF(f) != nil {
					return
				}
				atomic.AddInt64(&sent, 1)
			}
		}(ci, cl)
	}
	all := []int{1}
	if idx%2 == 1 {
		all = []int{1, 2}
	}
	for k := 0; k < rounds; k++ {
		time.Sleep(time.Duration(1500+(k%7)*300) * time.Microsecond)
		if garbage {
			for _, h := range all {
				atomic.StoreInt32(&garble[h], int32(1+k%2))
			}
			time.Sleep(2 * time.Millisecond) // (the closed connection has to be replaced before the next one is worth garbling)
			continue
		}
		bed.Cluster.KillPooled(k%2 == 0, all...)
	}
	close(stop)
	wg.Wait()
	drain(r, bed, scripts, clients, label, scenario, mark)
	r.Eval(int(sent))
	if garbage {
		n := 0
		for _, e := range bed.Log.Snapshot()[mark:] {
			if e.Src == "backend" && e.K == "reply" && e.Outcome == "Garbage" {
				n++
			}
		}
		r.Obs("garbage_replies_under_fire", n)
		r.Obs("requests_beside_garbage_replies", int(sent))
		if n >= 2 {
			r.NonTrivial(fmt.Sprintf("%s/cl%d/r%d/h%d", label, nClients, rounds, 1+idx%2))
		}
		return
	}
	r.Obs("kill_under_fire_runs", 1)
	r.Obs("requests_sent", int(sent))
	r.Obs("connection_kills_under_fire", rounds)
	r.NonTrivial(fmt.Sprintf("kill-under-fire/cl%d/r%d/h%d", nClients, rounds, 1+idx%2))
}

// transparencyCheck is C03's request-side oracle on a storm history: every backend arrival of a token (first attempt,
// retries and fail-overs alike) carries the version, flags, opcode and body bytes the client sent for that token.
func transparencyCheck(r *mon.Result, evs []mon.Event, label string, scenario map[string]interface{}) int {
	sent := map[string]mon.Event{}
	for _, e := range evs {
		if e.Src == "client" && e.K == "send" && e.Tok != "" {
			sent[e.Tok] = e
		}
	}
	// a request that was answered successfully is never sent again: a later arrival of its bytes is somebody else's request
	// carrying the wrong body
	for tok, as := range Traces(evs) {
		for i, a := range as {
			// (only when the connection that carried the successful answer stayed open: an answer written to a connection
			// that died may never have reached the proxy, and re-sending an idempotent request is then legitimate)
			// (nor when this arrival's own connection died: a frame sent first can be read by a busy backend last - the proxy
			// noticed the dying connection, retried elsewhere and was answered there before this one was logged)
			if i > 0 && !as[i-1].Closed && !a.Closed && (as[i-1].Outcome == "Rows" || as[i-1].Outcome == "Void" || as[i-1].Outcome == "Prepared") {
				r.Violate(mon.Violation{Property: "C03", Signature: fmt.Sprintf("C03/request-altered/%s/%s/foreign-body-after-success", label, opName(a.Op)),
					Detail:   fmt.Sprintf("the bytes of request %s reached host %d again (arrival #%d) after that request had already been answered %s: another request was forwarded with this request's body", tok, a.Host, i+1, as[i-1].Outcome),
					Scenario: scenario, Witness: as})
				break
			}
		}
	}
	// response side: bytes that are not a frame at all, and replies whose flags / opcode / body are not those of any reply a
	// backend sent for the request's token (frames the proxy made itself carry no echo of the token and are not compared)
	replies := map[string][]mon.Event{}
	for _, e := range evs {
		if e.Src == "backend" && e.K == "reply" && e.Tok != "" {
			if e.Note == "rawframe" { // written verbatim (error codes the reference codec cannot encode): header + body
				if len(e.Body) < 9 {
					continue
				}
				e.Fl, e.Op, e.Body = int(e.Body[1]), int(e.Body[4]), e.Body[9:]
			}
			replies[e.Tok] = append(replies[e.Tok], e)
		}
		if e.Src == "client" && e.K == "garbage" {
			r.Violate(mon.Violation{Property: "C03", Signature: fmt.Sprintf("C03/response-altered/%s/not-a-response-frame", label),
				Detail:   fmt.Sprintf("client %d received bytes that are not a response frame (%s); first bytes %x", e.Cl, e.Note, e.Body[:minInt(len(e.Body), 32)]),
				Scenario: scenario})
		}
	}
	lastSend := map[eoKey]mon.Event{}
	for _, e := range evs {
		if e.Src != "client" {
			continue
		}
		k := eoKey{e.Cl, int16(e.St)}
		if e.K == "send" {
			lastSend[k] = e
			continue
		}
		se, ok := lastSend[k]
		if e.K != "recv" || !ok || se.Tok == "" || len(replies[se.Tok]) == 0 {
			continue
		}
		delete(lastSend, k)
		tok := fakecass.FindToken(e.Body)
		if tok != se.Tok {
			continue // made by the proxy, compressed (the token is not visible), or misrouted (C02 decides that)
		}
		r.Obs("storm_responses_byte_compared", 1)
		same := false
		for _, b := range replies[se.Tok] {
			if b.Fl == e.Fl && b.Op == e.Op && bytesEqual(b.Body, e.Body) {
				same = true
				break
			}
		}
		if !same {
			b := replies[se.Tok][len(replies[se.Tok])-1]
			r.Violate(mon.Violation{Property: "C03", Signature: fmt.Sprintf("C03/response-altered/%s/%s", label, opName(e.Op)),
				Detail:   fmt.Sprintf("client %d stream %d token %s: the reply (flags %#x opcode %#x body %d bytes) equals none of the %d replies a backend sent for this request (last: flags %#x opcode %#x body %d bytes, first difference at %d)", e.Cl, e.St, se.Tok, e.Fl, e.Op, len(e.Body), len(replies[se.Tok]), b.Fl, b.Op, len(b.Body), firstDiff(e.Body, b.Body)),
				Scenario: scenario})
		}
	}
	n := 0
	for _, e := range evs {
		if e.Src != "backend" || e.K != "recv" || e.Tok == "" || e.Arrival == 0 {
			continue
		}
		se, ok := sent[e.Tok]
		if !ok {
			continue
		}
		n++
		what := ""
		switch {
		case e.Ver != se.Ver:
			what = "version"
		case e.Fl != se.Fl:
			what = "flags"
		case e.Op != se.Op:
			what = "opcode"
		case !bytesEqual(e.Body, se.Body):
			what = "body"
		}
		if what != "" {
			attempt := "first-attempt"
			if e.Arrival > 1 {
				attempt = "re-sent"
			}
			r.Violate(mon.Violation{Property: "C03", Signature: fmt.Sprintf("C03/request-altered/%s/%s/%s/%s", label, opName(se.Op), what, attempt),
				Detail:   fmt.Sprintf("token %s: arrival #%d at host %d differs from what the client sent in its %s (client body %d bytes, backend body %d bytes, first difference at %d)", e.Tok, e.Arrival, e.Host, what, len(se.Body), len(e.Body), firstDiff(e.Body, se.Body)),
				Scenario: scenario})
		}
	}
	return n
}

func bytesEqual(a, b []byte) bool {
	if len(a) != len(b) {
		return false
	}
	for i := range a {
		if a[i] != b[i] {
			return false
		}
	}
	return true
}

// proxyClosesConn: the proxy itself closes a backend connection that has requests in flight - because the connection
// stopped answering heartbeats for longer than the idle timeout, or because its host left the cluster. For the requests
// on it this is a lost connection like any other: each is answered exactly once (C01), and the ones that are not
// positively idempotent are not sent anywhere else (C04).
func proxyClosesConn(c *Ctx, idx int, how string) {
	r := c.R
	label := "proxy-closes-connection/" + how
	scenario := map[string]interface{}{"kind": "proxy-closes-connection", "how": how, "idx": idx}
	c.Step("proxy-closes-connection how=%s idx=%d", how, idx)
	hosts := 3 + idx%2
	bed, err := px.NewBed(px.BedConfig{Hosts: hosts, NumConns: 1 + idx%2, Keyspaces: []string{"ks1"}, KeepBodies: true, HeartBeat: 40 * time.Millisecond, Idle: 250 * time.Millisecond, ConnectTimeout: 400 * time.Millisecond,
		RefreshWindow: 20 * time.Millisecond, ReconnectBase: 2 * time.Millisecond, ReconnectMax: 10 * time.Millisecond})
	if err != nil {
		r.Inconc(label + ": cannot start bed: " + err.Error())
		return
	}
	defer bed.Close()
	bed.OnHook(nil)
	if !waitFor(func() bool { return len(bed.Cluster.EstablishedControlConns()) >= 1 }, 10*time.Second) {
		r.Inconc(label + ": no control connection")
		return
	}
	ctl := bed.Cluster.EstablishedControlConns()[0].Host.Idx
	victim := 1 + (ctl+idx%(hosts-1))%hosts // never the host serving the control connection
	if victim == ctl {
		victim = 1 + victim%hosts
	}
	var armed int32
	var vmu sync.Mutex
	swallowed := map[*fakecass.Conn]bool{}
	bed.Cluster.SetScript(func(a *fakecass.Arrival) fakecass.Outcome {
		if a.Host == victim && atomic.LoadInt32(&armed) == 1 {
			vmu.Lock()
			swallowed[a.Conn] = true
			vmu.Unlock()
			return fakecass.Silence()
		}
		return fakecass.Outcome{} // the default: PREPARED for a PREPARE, the echo row otherwise
	})
	var clients []*rawcql.Client
	for i := 0; i < 2; i++ {
		cl, err := bed.ReadyClient(primitive.ProtocolVersion4, "")
		if err != nil {
			r.Inconc(label + ": handshake: " + err.Error())
			return
		}
		defer cl.Close()
		clients = append(clients, cl)
	}
	if err := PrepareStandard(bed, clients[0], true); err != nil {
		r.Inconc(label + ": prepare: " + err.Error())
		return
	}
	atomic.StoreInt32(&armed, 1)
	mark := bed.Log.Len()
	rng := c.Rng(4400 + idx)
	total := 12 * hosts
	nonIdem := map[string]bool{}
	kinds := []ReqKind{KQuery, KExecute, KBatch}
	for i := 0; i < total; i++ {
		tok := NewTok()
		idem := rng.Intn(2) == 0
		if !idem {
			nonIdem[tok] = true
		}
		if err := clients[i%2].SendF(BuildRequest(primitive.ProtocolVersion4, int16(1+i/2), kinds[rng.Intn(3)], idem, tok, primitive.ConsistencyLevelOne)); err != nil {
			r.Inconc(label + ": send: " + err.Error())
			return
		}
	}
	// every request has been read by some host; those on the victim are in flight there
	if !waitFor(func() bool {
		cnt := 0
		for _, e := range bed.Log.Snapshot()[mark:] {
			if e.Src == "backend" && e.K == "recv" && e.Arrival == 1 && e.Tok != "" {
				cnt++
			}
		}
		return cnt >= total
	}, 20*time.Second) {
		r.Inconc(label + ": requests did not all reach the backend")
		return
	}
	atomic.StoreInt32(&armed, 0)
	vmu.Lock()
	var vconns []*fakecass.Conn
	for x := range swallowed {
		vconns = append(vconns, x)
	}
	vmu.Unlock()
	if len(vconns) == 0 {
		r.Inconc(label + ": no request was in flight on the chosen host")
		return
	}
	switch how {
	case "idle-timeout":
		for _, x := range vconns {
			x.Mute() // from now on it does not answer heartbeats either
		}
	case "host-removed":
		bed.Cluster.SetListed(victim, false)
		bed.Cluster.Emit(&message.TopologyChangeEvent{ChangeType: primitive.TopologyChangeTypeRemovedNode, Address: &primitive.Inet{Addr: net.ParseIP(bed.Cluster.HostIP(victim)), Port: int32(bed.Cluster.Port)}})
	}
	// the proxy closes those connections itself (the backend never does)
	if !waitFor(func() bool {
		for _, x := range vconns {
			if !x.IsClosed() {
				return false
			}
		}
		return true
	}, 20*time.Second) {
		r.Inconc(label + ": the proxy did not close the connections (judged by C16)")
		return
	}
	r.Obs("proxy_closed_connections_with_requests_in_flight", len(vconns))
	drain(r, bed, NewScripts(), clients, label, scenario, mark)
	evs := bed.Log.Snapshot()[mark:]
	inflight := 0
	for tok, as := range Traces(evs) {
		if len(as) > 0 && as[0].Host == victim && as[0].Outcome == "Silence" || (len(as) > 0 && as[0].Host == victim && as[0].Outcome == "") {
			inflight++
		}
		if !nonIdem[tok] && len(as) >= 1 && as[0].Host == victim && (as[0].Outcome == "Silence" || as[0].Outcome == "") {
			r.Obs(fmt.Sprintf("idempotent_in_flight_on_proxy_closed_connection:%s:attempts=%d", opName(as[0].Op), len(as)), 1)
		}
		// C05: an idempotent request that was in flight there has lost its connection - it moves on to the next host, and the
		// other hosts answer rows
		if !nonIdem[tok] && len(as) == 1 && as[0].Host == victim && (as[0].Outcome == "Silence" || as[0].Outcome == "") {
			r.Violate(mon.Violation{Property: "C05", Signature: fmt.Sprintf("C05/not-failed-over/proxy-closed-connection/%s/%s", how, opName(as[0].Op)),
				Detail:   fmt.Sprintf("request %s is idempotent; it was in flight on a connection to host %d that the proxy closed itself (%s) and was never sent to another host although %d healthy hosts remain in its plan; history: %v", tok, as[0].Host, how, hosts-1, historyOfTok(evs, tok)),
				Scenario: scenario, Witness: as})
		}
		if nonIdem[tok] && len(as) > 1 {
			r.Violate(mon.Violation{Property: "C04", Signature: fmt.Sprintf("C04/re-executed-after/proxy-closed-connection/%s/%s", how, opName(as[0].Op)),
				Detail:   fmt.Sprintf("request %s is not idempotent; it was in flight on a connection to host %d that the proxy closed itself (%s), and was then sent again: attempts %s", tok, as[0].Host, how, describe(as)),
				Scenario: scenario, Witness: as})
		}
	}
	r.Eval(total)
	r.Obs("requests_in_flight_on_proxy_closed_connections", inflight)
	r.NonTrivial(fmt.Sprintf("%s/h%d/c%d", label, hosts, 1+idx%2))
}
