//go:build verif

package scen

import (
	"bytes"
	"encoding/binary"
	"errors"
	"encoding/hex"
	"encoding/json"
	"fmt"
	"io"
	"math/rand"
	"regexp"
	"runtime"
	"runtime/debug"
	"sort"
	"strings"
	"sync"
	"sync/atomic"
	"time"

	"github.com/datastax/cql-proxy/codecs"
	"github.com/datastax/go-cassandra-native-protocol/frame"
	"github.com/datastax/go-cassandra-native-protocol/message"
	"github.com/datastax/go-cassandra-native-protocol/primitive"

	"verif/gen"
	"verif/mon"
)

// C11 — the partial QUERY/EXECUTE/BATCH codecs (codecs.CustomRawCodec) against the reference codec (frame.NewRawCodec()),
// in process, on the same bytes.
//
//	valid bodies (directed minimal ones + PRNG over the whole option space, 5 versions x 3 opcodes):
//	  reference encode -> partial DecodeBody (exactly as proxy.client.Receive calls it) must succeed -> query / prepared id /
//	  result-metadata id / batch type / children (kind, text or id, raw value bytes) / consistency equal the reference decode
//	  of the same bytes -> partial EncodeFrame reproduces the body bytes and declares their length.
//	malformed bodies: every prefix of sample bodies (shorter than the leading fields, whose end the generator knows: must be
//	  an error; longer: must decode, agree and round-trip, the tail being opaque by design), single-field mutations of the
//	  leading fields, random bytes.  Oracle: returns (panics are recovered and reported), error or success that does not
//	  yield more bytes than it was given; an input that cannot be parsed by construction (invalid batch / child type, a
//	  length or count that needs more bytes than the body has) must be an error; an input the reference accepts completely
//	  is a valid body and gets the full differential check.  Anything else the partial decoder accepts is only counted
//	  ("lenient"): the property does not ask a partial decoder to validate what it does not read.
func init() {
	Register(&Runner{Prop: "C11", Level: "exploration",
		Rule:    "directed minimal QUERY/EXECUTE/BATCH per version x consistency, then PRNG-generated requests (gen.RandomSpec: flags, 0-64 values incl. null/unset/empty/large, string+prepared batch children, custom payload, tracing) x {v3,v4,v5,DSEv1,DSEv2}: partial decode vs reference decode vs original bytes; plus every prefix, single-field mutations (lengths, counts, type tags) and random bytes. distinct = (version, opcode, option-flag set + header decorations, check kind: valid | prefix-short | prefix-long | mutated field kind | random); non-trivial = the message has values, children or optional fields.",
		Shards:  shards(8, 16),
		Timeout: timeouts(6*time.Minute, 45*time.Minute),
		Run:     runC11})
}

var (
	c11Ref    = frame.NewRawCodec()
	c11Custom = codecs.CustomRawCodec
	c11Ops    = []primitive.OpCode{primitive.OpCodeQuery, primitive.OpCodeExecute, primitive.OpCodeBatch}
)

// c11Input is one body handed to both decoders.
type c11Input struct {
	V     primitive.ProtocolVersion
	Op    primitive.OpCode
	Flags primitive.HeaderFlag
	Body  []byte
}

func (in c11Input) header() *frame.Header {
	return &frame.Header{Version: in.V, Flags: in.Flags, StreamId: 7, OpCode: in.Op, BodyLength: int32(len(in.Body))}
}

// c11View is what the property compares: the fields both decoders must agree on.
type c11View struct {
	Query     string
	Id, Rmid  []byte
	Cons      uint16
	BatchType uint8
	Children  []c11Child
}

type c11Child struct {
	Kind   uint8 // 0 query string, 1 prepared id
	Text   string
	Id     []byte
	Values []byte // raw [short n][value]* bytes
}

var c11NumRe = regexp.MustCompile(`[0-9]+`)

func c11PanicClass(p string) string {
	s := c11NumRe.ReplaceAllString(p, "N")
	if len(s) > 60 {
		s = s[:60]
	}
	return s
}

// partialDecode calls the code under test the way proxy.client.Receive does (viaBuffer: the *bytes.Buffer source a
// compressed client's body arrives in).  A panic is turned into a string.
func c11PartialDecode(in c11Input, viaBuffer bool) (body *frame.Body, err error, panicked string) {
	defer func() {
		if p := recover(); p != nil {
			body, err, panicked = nil, nil, fmt.Sprint(p)
		}
	}()
	var src io.Reader = codecs.NewFrameBodyReader(in.Body)
	if viaBuffer {
		src = bytes.NewBuffer(in.Body)
	}
	body, err = c11Custom.DecodeBody(in.header(), src)
	return
}

func c11RefDecode(in c11Input) (body *frame.Body, consumedAll bool, err error, panicked string) {
	defer func() {
		if p := recover(); p != nil {
			body, err, panicked = nil, nil, fmt.Sprint(p)
		}
	}()
	rd := bytes.NewReader(in.Body)
	body, err = c11Ref.DecodeBody(in.header(), rd)
	return body, rd.Len() == 0, err, ""
}

var c11EncodeSeq int64

// c11FailingWriter accepts `left` bytes and then fails (short write + error), like a socket that is reset.
type c11FailingWriter struct{ left int }

func (w *c11FailingWriter) Write(p []byte) (int, error) {
	if len(p) <= w.left {
		w.left -= len(p)
		return len(p), nil
	}
	n := w.left
	w.left = 0
	return n, errors.New("connection reset by peer")
}

// c11Reencode encodes a (partially decoded) body with the custom codec the way the consistency-override path does
// (EncodeFrame of header + body) and returns the declared body length and the body bytes.
func c11Reencode(in c11Input, body *frame.Body) (declared int, out []byte, err error, panicked string) {
	defer func() {
		if p := recover(); p != nil {
			err, panicked = nil, fmt.Sprint(p)
		}
	}()
	// every fourth body is first encoded into a writer that fails after a few bytes (a backend connection that is reset
	// while the re-encoded frame is written): what that attempt leaves behind must not show in the encode that follows
	if atomic.AddInt64(&c11EncodeSeq, 1)%4 == 0 {
		_ = c11Custom.EncodeFrame(&frame.Frame{Header: in.header(), Body: body}, &c11FailingWriter{left: 9 + int(atomic.LoadInt64(&c11EncodeSeq)%23)})
	}
	var buf bytes.Buffer
	if err = c11Custom.EncodeFrame(&frame.Frame{Header: in.header(), Body: body}, &buf); err != nil {
		return 0, nil, err, ""
	}
	b := buf.Bytes()
	if len(b) < 9 {
		return 0, nil, fmt.Errorf("encoded frame of %d bytes", len(b)), ""
	}
	return int(int32(binary.BigEndian.Uint32(b[5:9]))), b[9:], nil, ""
}

func c11ViewOfPartial(msg message.Message) (c11View, bool) {
	switch m := msg.(type) {
	case *codecs.PartialQuery:
		return c11View{Query: m.Query, Cons: uint16(m.Consistency)}, true
	case *codecs.PartialExecute:
		return c11View{Id: m.QueryId, Rmid: m.ResultMetadataId, Cons: uint16(m.Consistency)}, true
	case *codecs.PartialBatch:
		v := c11View{BatchType: uint8(m.Type), Cons: uint16(m.Consistency), Children: make([]c11Child, len(m.Queries))}
		for i, q := range m.Queries {
			switch x := q.QueryOrId.(type) {
			case string:
				v.Children[i] = c11Child{Kind: 0, Text: x, Values: q.Values}
			case []byte:
				v.Children[i] = c11Child{Kind: 1, Id: x, Values: q.Values}
			default:
				return v, false
			}
		}
		return v, true
	}
	return c11View{}, false
}

func c11ViewOfRef(msg message.Message, ver primitive.ProtocolVersion) (c11View, bool) {
	switch m := msg.(type) {
	case *message.Query:
		return c11View{Query: m.Query, Cons: uint16(m.Options.Consistency)}, true
	case *message.Execute:
		return c11View{Id: m.QueryId, Rmid: m.ResultMetadataId, Cons: uint16(m.Options.Consistency)}, true
	case *message.Batch:
		v := c11View{BatchType: uint8(m.Type), Cons: uint16(m.Consistency), Children: make([]c11Child, len(m.Children))}
		for i, c := range m.Children {
			var vb bytes.Buffer
			if err := primitive.WritePositionalValues(c.Values, &vb, ver); err != nil {
				return v, false
			}
			if c.Id != nil {
				v.Children[i] = c11Child{Kind: 1, Id: c.Id, Values: vb.Bytes()}
			} else {
				v.Children[i] = c11Child{Kind: 0, Text: c.Query, Values: vb.Bytes()}
			}
		}
		return v, true
	}
	return c11View{}, false
}

// c11Diff names the first field on which the partial view differs from the reference view ("" if none).
func c11Diff(ref, par c11View) string {
	switch {
	case ref.Query != par.Query:
		return "query"
	case !bytes.Equal(ref.Id, par.Id):
		return "prepared-id"
	case !bytes.Equal(ref.Rmid, par.Rmid):
		return "result-metadata-id"
	case ref.BatchType != par.BatchType:
		return "batch-type"
	case len(ref.Children) != len(par.Children):
		return "child-count"
	}
	for i := range ref.Children {
		a, b := ref.Children[i], par.Children[i]
		switch {
		case a.Kind != b.Kind:
			return "child-kind"
		case a.Text != b.Text:
			return "child-text"
		case !bytes.Equal(a.Id, b.Id):
			return "child-id"
		case !bytes.Equal(a.Values, b.Values):
			return "child-values"
		}
	}
	if ref.Cons != par.Cons {
		return "consistency"
	}
	return ""
}

// c11FromView builds the Partial* message the decoder should have produced, from reference fields and the opaque tail.
func c11FromView(op primitive.OpCode, v c11View, tail []byte) message.Message {
	switch op {
	case primitive.OpCodeQuery:
		return &codecs.PartialQuery{Query: v.Query, Consistency: primitive.ConsistencyLevel(v.Cons), Parameters: tail}
	case primitive.OpCodeExecute:
		return &codecs.PartialExecute{QueryId: v.Id, ResultMetadataId: v.Rmid, Consistency: primitive.ConsistencyLevel(v.Cons), Parameters: tail}
	}
	b := &codecs.PartialBatch{Type: primitive.BatchType(v.BatchType), Consistency: primitive.ConsistencyLevel(v.Cons), Parameters: tail}
	for _, c := range v.Children {
		if c.Kind == 0 {
			b.Queries = append(b.Queries, codecs.PartialBatchQuery{QueryOrId: c.Text, Values: c.Values})
		} else {
			b.Queries = append(b.Queries, codecs.PartialBatchQuery{QueryOrId: c.Id, Values: c.Values})
		}
	}
	return b
}

// ---------------------------------------------------------------------------------------------------------------------

type c11Found struct {
	v        mon.Violation
	size     int
	count    int
	versions map[string]int
}

type c11 struct {
	c              *Ctx
	r              *mon.Result
	mu             sync.Mutex
	found          map[string]*c11Found
	cur            atomic.Value                  // description of the input being evaluated (for the watchdog)
	bigAlloc       int32                         // budget of mutants whose claimed length makes a decoder allocate >= 16 MB
	hugeAlloc      int32                         // ... 2 GB
	tracingQuirk   bool                          // the REFERENCE codec itself declares len+16 for a request with the tracing flag
	dsev1Misparsed bool                          // see probeDsev1
	prev           map[primitive.OpCode]*c11Prev // per opcode, the message decoded before the current one (guarded by mu)
}

// sig maps a finding class to its stable signature: C11/<opcode>/<class> (the versions are listed in the detail).
// One defect gets one signature: when the probe at start-up found that the codec parses a DSEv1 EXECUTE as if it had a
// result-metadata id, everything that goes wrong with a DSEv1 EXECUTE is that defect (the class goes into the detail).
func (k *c11) sig(in c11Input, class string) string {
	if k.dsev1Misparsed && in.Op == primitive.OpCodeExecute && in.V == primitive.ProtocolVersionDse1 {
		return "C11/execute/dsev1-misparsed"
	}
	return "C11/" + gen.OpName(in.Op) + "/" + class
}

// probeDsev1 decodes the smallest DSEv1 EXECUTE (id a1, consistency ANY, no flags) with the code under test.
func (k *c11) probeDsev1() {
	in := c11Input{V: primitive.ProtocolVersionDse1, Op: primitive.OpCodeExecute, Body: []byte{0, 1, 0xa1, 0, 0, 0, 0, 0, 0}}
	body, err, pan := c11PartialDecode(in, false)
	if pan != "" || err != nil {
		k.dsev1Misparsed = true
		return
	}
	v, ok := c11ViewOfPartial(body.Message)
	k.dsev1Misparsed = !ok || !bytes.Equal(v.Id, []byte{0xa1}) || v.Cons != 0
}

func (k *c11) violate(sig string, in c11Input, lead int, mode, mutation string, mustFail bool, detail string, ref *c11View) {
	hexBody, truncated := hex.EncodeToString(in.Body), false
	if len(in.Body) > 4096 {
		hexBody, truncated = hex.EncodeToString(in.Body[:4096]), true
	}
	scenario := map[string]interface{}{"kind": "body", "version": int(in.V), "opcode": int(in.Op), "flags": int(in.Flags), "body": hexBody,
		"lead": lead, "mode": mode, "mutation": mutation, "must_fail": mustFail}
	if ref != nil { // the reference's view of the full body, so that a replay of a prefix has its ground truth
		scenario["ref"] = *ref
	}
	if truncated {
		scenario = map[string]interface{}{"kind": "rerun", "note": "body too large to embed; rerun the tier with the same seed", "at": fmt.Sprint(k.cur.Load())}
	}
	v := mon.Violation{Signature: sig, Detail: fmt.Sprintf("%s %s (header flags %#02x, body %d bytes, leading fields end at %d, check=%s%s): %s",
		gen.VersionName(in.V), gen.OpName(in.Op), uint8(in.Flags), len(in.Body), lead, mode, c11Opt(mutation), detail),
		Scenario: scenario,
		Witness: map[string]interface{}{"version": gen.VersionName(in.V), "opcode": gen.OpName(in.Op), "header_flags": int(in.Flags),
			"body_hex": hexBody, "body_len": len(in.Body), "lead_end": lead, "check": mode, "mutation": mutation, "at": fmt.Sprint(k.cur.Load())}}
	k.mu.Lock()
	f := k.found[sig]
	if f == nil {
		f = &c11Found{size: 1 << 62, versions: map[string]int{}}
		k.found[sig] = f
	}
	f.count++
	f.versions[gen.VersionName(in.V)]++
	if len(in.Body) < f.size { // keep the smallest witness per signature
		f.v, f.size = v, len(in.Body)
	}
	k.mu.Unlock()
}

// c11FieldOf strips the value class of a mutation name ("value-len:+1" -> "value-len"): one signature per field.
func c11FieldOf(mutation string) string {
	if i := strings.IndexByte(mutation, ':'); i > 0 {
		return mutation[:i]
	}
	return mutation
}

func c11Opt(s string) string {
	if s == "" {
		return ""
	}
	return " " + s
}

type c11Prev struct {
	in   c11Input
	ref  c11View
	body *frame.Body
}

func (k *c11) flush() {
	k.mu.Lock()
	defer k.mu.Unlock()
	sigs := make([]string, 0, len(k.found))
	for s := range k.found {
		sigs = append(sigs, s)
	}
	sort.Strings(sigs)
	for _, s := range sigs {
		f := k.found[s]
		f.v.Detail += fmt.Sprintf(" [smallest of %d inputs with this signature in this shard; per version: %v]", f.count, f.versions)
		k.r.Violate(f.v)
		k.r.Obs("inputs-with:"+s, f.count)
	}
	k.found = map[string]*c11Found{}
}

// checkValid is the full property on a body known to be valid (built by the generator / accepted completely by the
// reference).  ref is the reference view of the FULL body (for a prefix the tail is cut, the leading fields are not).
// lead is the end of the leading fields (-1 if unknown).  Returns true if nothing was wrong.
func (k *c11) checkValid(in c11Input, ref c11View, lead int, mode, mutation string, viaBuffer bool) bool {
	body, err, pan := c11PartialDecode(in, viaBuffer)
	// a message decoded earlier is still what it was after this decode (the proxy keeps decoded messages while it reads the
	// next frame: overrides, retries and the idempotency check look at them later)
	k.mu.Lock()
	prev := k.prev[in.Op] // the last message of this kind: a decoder that recycles its buffers recycles them for the same kind
	delete(k.prev, in.Op)
	k.mu.Unlock()
	if prev != nil && pan == "" {
		if pv, usable := c11ViewOfPartial(prev.body.Message); !usable {
			k.violate(k.sig(prev.in, "decoded-message-changed-by-a-later-decode"), prev.in, -1, "valid", "", false, "the message decoded before this one is no longer of its type", &prev.ref)
		} else if d := c11Diff(prev.ref, pv); d != "" {
			k.violate(k.sig(prev.in, "decoded-message-changed-by-a-later-decode"), prev.in, -1, "valid", "", false, fmt.Sprintf("after the next body had been decoded, field %s of the message decoded before reads %s (it was %s)", d, c11Show(pv, d), c11Show(prev.ref, d)), &prev.ref)
		} else if _, out, e2, p2 := c11Reencode(prev.in, prev.body); p2 == "" && e2 == nil && !bytes.Equal(out, prev.in.Body) && c11PayloadEntries(prev.in) <= 1 {
			k.violate(k.sig(prev.in, "decoded-message-changed-by-a-later-decode"), prev.in, -1, "valid", "", false, "after the next body had been decoded, the message decoded before re-encodes differently: "+c11FirstDiff(prev.in.Body, out), &prev.ref)
		} else {
			k.r.Obs("earlier_messages_rechecked_after_a_later_decode", 1)
		}
	}
	if pan != "" {
		k.violate(k.sig(in, "decode-panic/"+c11PanicClass(pan)), in, lead, mode, mutation, false, "partial DecodeBody panicked: "+pan, &ref)
		return false
	}
	ok := true
	var par c11View
	usable := false
	if err != nil {
		why := "the reference codec accepts these bytes"
		if mode == "prefix-long" {
			why = "the reference codec accepts the full body and this prefix contains all leading fields (the rest is opaque to a partial decoder)"
		}
		k.violate(k.sig(in, "valid-rejected"), in, lead, mode, mutation, false, why+"; partial DecodeBody returns: "+err.Error(), &ref)
		ok = false
	} else if par, usable = c11ViewOfPartial(body.Message); !usable {
		k.violate(k.sig(in, "wrong-message-type"), in, lead, mode, mutation, false, fmt.Sprintf("partial DecodeBody returned %T", body.Message), &ref)
		ok = false
	} else if d := c11Diff(ref, par); d != "" {
		ok = false
		switch {
		case d == "result-metadata-id" && len(par.Rmid) == 0 && in.V != primitive.ProtocolVersionDse1:
			k.violate("C11/execute/result-metadata-id-dropped/"+gen.VersionName(in.V), in, lead, mode, mutation, false,
				fmt.Sprintf("reference decodes ResultMetadataId=%x, PartialExecute.ResultMetadataId is empty (read and thrown away), so the re-encoded body writes a zero-length id", ref.Rmid), &ref)
			// test the encoder independently of this decoder defect
			body.Message.(*codecs.PartialExecute).ResultMetadataId = ref.Rmid
		default:
			k.violate(k.sig(in, d+"-mismatch"), in, lead, mode, mutation, false, fmt.Sprintf("field %s: reference %s, partial %s", d, c11Show(ref, d), c11Show(par, d)), &ref)
			usable = false
		}
	}
	if !usable {
		// the decoder gave nothing to re-encode: still exercise the encoder on the message it should have produced
		if lead < 0 || lead > len(in.Body) {
			return ok
		}
		body = &frame.Body{Message: c11FromView(in.Op, ref, in.Body[lead:])}
		if in.Flags.Contains(primitive.HeaderFlagCustomPayload) {
			if rb, _, e, _ := c11RefDecode(in); e == nil && rb != nil {
				body.CustomPayload = rb.CustomPayload
			} else {
				return ok
			}
		}
		mode += "+encode-from-reference-fields"
	}
	declared, out, err, pan := c11Reencode(in, body)
	switch {
	case pan != "":
		k.violate(k.sig(in, "encode-panic/"+c11PanicClass(pan)), in, lead, mode, mutation, false, "partial EncodeFrame panicked: "+pan, &ref)
		return false
	case err != nil:
		k.violate(k.sig(in, "reencode-error"), in, lead, mode, mutation, false, "partial EncodeFrame: "+err.Error(), &ref)
		return false
	case !bytes.Equal(out, in.Body) && len(in.Body) > 0 && c11PayloadEntries(in) > 1:
		// the reference writes a multi-entry custom payload in Go map order: compare everything after the payload
		pl := c11PayloadLen(in.Body)
		if pl < 0 || pl > len(out) || pl > len(in.Body) || !bytes.Equal(out[pl:], in.Body[pl:]) {
			k.violate(k.sig(in, "reencode-mismatch"), in, lead, mode, mutation, false, c11FirstDiff(in.Body, out), &ref)
			return false
		}
		k.r.Obs("reencode:payload-map-order-differs(reference, not compared)", 1)
	case !bytes.Equal(out, in.Body):
		k.violate(k.sig(in, "reencode-mismatch"), in, lead, mode, mutation, false, c11FirstDiff(in.Body, out), &ref)
		return false
	}
	if declared != len(out) {
		if in.Flags.Contains(primitive.HeaderFlagTracing) && declared == len(out)+16 && k.tracingQuirk {
			k.r.Obs("reencode:declared-length=len+16-with-tracing-flag(reference EncodeFrame does the same)", 1)
		} else {
			k.violate(k.sig(in, "reencode-declared-length"), in, lead, mode, mutation, false,
				fmt.Sprintf("EncodeFrame wrote a header declaring %d body bytes and then %d body bytes (EncodedLength disagrees with Encode)", declared, len(out)), &ref)
			return false
		}
	}
	if ok && usable && mode == "valid" && len(in.Body) < 1<<16 {
		k.mu.Lock()
		if k.prev == nil {
			k.prev = map[primitive.OpCode]*c11Prev{}
		}
		k.prev[in.Op] = &c11Prev{in: in, ref: ref, body: body}
		k.mu.Unlock()
	}
	return ok
}

func c11Show(v c11View, field string) string {
	switch field {
	case "query":
		return fmt.Sprintf("%q", c11Trunc(v.Query))
	case "prepared-id":
		return fmt.Sprintf("%x", v.Id)
	case "result-metadata-id":
		return fmt.Sprintf("%x", v.Rmid)
	case "consistency":
		return fmt.Sprintf("%#04x", v.Cons)
	case "batch-type":
		return fmt.Sprint(v.BatchType)
	}
	return fmt.Sprintf("%d children", len(v.Children))
}

func c11Trunc(s string) string {
	if len(s) > 80 {
		return s[:80] + "..."
	}
	return s
}

func c11FirstDiff(want, got []byte) string {
	n := len(want)
	if len(got) < n {
		n = len(got)
	}
	i := 0
	for i < n && want[i] == got[i] {
		i++
	}
	w := func(b []byte) string {
		e := i + 12
		if e > len(b) {
			e = len(b)
		}
		if i > len(b) {
			return ""
		}
		return hex.EncodeToString(b[i:e])
	}
	return fmt.Sprintf("re-encoded body differs from the input: input %d bytes, re-encoded %d bytes, first difference at offset %d (input %s, re-encoded %s)",
		len(want), len(got), i, w(want), w(got))
}

func c11PayloadEntries(in c11Input) int {
	if !in.Flags.Contains(primitive.HeaderFlagCustomPayload) || len(in.Body) < 2 {
		return 0
	}
	return int(binary.BigEndian.Uint16(in.Body))
}

// c11PayloadLen walks a [bytes map] and returns its length (-1 if it does not fit).
func c11PayloadLen(b []byte) int {
	if len(b) < 2 {
		return -1
	}
	n, off := int(binary.BigEndian.Uint16(b)), 2
	for i := 0; i < n; i++ {
		if off+2 > len(b) {
			return -1
		}
		off += 2 + int(binary.BigEndian.Uint16(b[off:]))
		if off+4 > len(b) {
			return -1
		}
		l := int(int32(binary.BigEndian.Uint32(b[off:])))
		off += 4
		if l > 0 {
			off += l
		}
		if off > len(b) {
			return -1
		}
	}
	return off
}

// checkMalformed is the oracle for an input of unknown validity.  mustFail: the input cannot be parsed by construction.
func (k *c11) checkMalformed(in c11Input, lead int, mode, mutation string, mustFail bool) {
	k.checkMalformedRef(in, lead, mode, mutation, mustFail, true)
}

// useRef=false skips the reference decode (random bytes: the reference allocates every length it reads in the tail, up
// to 2 GB, before it notices the body is short; nothing it could say about random bytes is worth that).
func (k *c11) checkMalformedRef(in c11Input, lead int, mode, mutation string, mustFail, useRef bool) {
	body, err, pan := c11PartialDecode(in, false)
	if pan != "" {
		k.violate(k.sig(in, "decode-panic/"+c11PanicClass(pan)), in, lead, mode, mutation, mustFail, "partial DecodeBody panicked: "+pan, nil)
		return
	}
	if mustFail {
		if err == nil {
			k.violate(k.sig(in, "malformed-accepted/"+c11FieldOf(mutation)), in, lead, mode, mutation, mustFail,
				"this body cannot be parsed (see mutation), yet partial DecodeBody succeeded: "+fmt.Sprint(body.Message), nil)
		} else {
			k.r.Obs("malformed/"+mode+"/must-fail-rejected", 1)
		}
		return
	}
	var (
		rb   *frame.Body
		all  bool
		rerr error = fmt.Errorf("reference not consulted")
		rpan string
	)
	if useRef {
		rb, all, rerr, rpan = c11RefDecode(in)
	}
	if rpan != "" {
		k.r.Obs("reference-panicked(not the code under test)", 1)
		rerr = fmt.Errorf("panic")
	}
	if rerr == nil && all {
		// a body the reference accepts to the last byte is a valid body: full property
		if ref, ok := c11ViewOfRef(rb.Message, in.V); ok {
			k.r.Obs("malformed/"+mode+"/still-valid(full check)", 1)
			k.checkValid(in, ref, -1, "mutant-valid", mutation, false)
			return
		}
	}
	if err != nil {
		k.r.Obs("malformed/"+mode+"/rejected", 1)
		return
	}
	// accepted by the partial decoder although the reference rejects it (or leaves bytes over): allowed leniency, but what
	// it hands on must not be more than it was given
	_, out, eerr, epan := c11Reencode(in, body)
	switch {
	case epan != "":
		k.violate(k.sig(in, "encode-panic/"+c11PanicClass(epan)), in, lead, mode, mutation, mustFail, "partial EncodeFrame of an accepted body panicked: "+epan, nil)
	case eerr != nil:
		k.r.Obs("malformed/"+mode+"/accepted-lenient(encode error)", 1)
	case len(out) > len(in.Body):
		k.violate(k.sig(in, "malformed-overread"), in, lead, mode, mutation, mustFail,
			fmt.Sprintf("accepted body of %d bytes re-encodes to %d bytes: the decoder handed on bytes it was not given", len(in.Body), len(out)), nil)
	case !bytes.Equal(out, in.Body):
		k.r.Obs("malformed/"+mode+"/accepted-lenient(re-encode differs)", 1)
	default:
		if !useRef {
			k.r.Obs("malformed/"+mode+"/accepted(round-trips; reference not consulted)", 1)
		} else if rerr == nil {
			k.r.Obs("malformed/"+mode+"/accepted-lenient(reference leaves bytes over)", 1)
		} else {
			k.r.Obs("malformed/"+mode+"/accepted-lenient(reference rejects)", 1)
		}
	}
}

// ---------------------------------------------------------------------------------------------------------------------
// case lists

func c11Key(d gen.Desc, kind string) string {
	return d.Version + "/" + d.OpCode + "/" + d.Flags + "/" + d.Header + "/" + kind
}

// one generated request, encoded by the reference
type c11Case struct {
	in   c11Input
	d    gen.Desc
	ref  c11View
	lead int
}

func (k *c11) build(spec gen.ReqSpec) (c11Case, bool) {
	f, d := gen.Build(spec)
	body, err := gen.EncodeBody(f)
	if err != nil {
		k.r.Inconc(fmt.Sprintf("generator: reference codec cannot encode %s %s: %v", d.Version, d.OpCode, err))
		return c11Case{}, false
	}
	in := c11Input{V: spec.Version, Op: spec.OpCode, Flags: f.Header.Flags, Body: body}
	rb, all, err, pan := c11RefDecode(in)
	if err != nil || pan != "" || !all {
		k.r.Inconc(fmt.Sprintf("generator: reference codec does not decode its own %s %s (err=%v panic=%q consumedAll=%v)", d.Version, d.OpCode, err, pan, all))
		return c11Case{}, false
	}
	ref, ok := c11ViewOfRef(rb.Message, in.V)
	if !ok || d.Layout.LeadEnd > len(body) {
		k.r.Inconc("generator: layout/view inconsistent")
		return c11Case{}, false
	}
	return c11Case{in: in, d: d, ref: ref, lead: d.Layout.LeadEnd}, true
}

func (k *c11) valid(cs c11Case, viaBuffer bool) {
	k.r.Eval(1)
	k.r.Obs("valid/"+cs.d.Version+"/"+cs.d.OpCode, 1)
	if cs.d.NonTrivial() {
		k.r.NonTrivial(c11Key(cs.d, "valid"))
	}
	if viaBuffer {
		k.r.Obs("valid:decoded-from-bytes.Buffer(source of compressed clients)", 1)
	}
	if k.checkValid(cs.in, cs.ref, cs.lead, "valid", "", viaBuffer) {
		k.r.Obs("valid:agreed-and-round-tripped", 1)
	}
}

// directed: the smallest message of each kind, per version and consistency level (these give the minimal witnesses).
func (k *c11) directed() {
	id, rmid := []byte{0xA1}, []byte{0xB2}
	for _, v := range gen.Versions {
		for _, cl := range gen.Consistencies {
			base := gen.ReqSpec{Version: v, Consistency: cl, Seed: 1, QueryId: id, ResultMetadataId: rmid, BulkIn: "query"}
			q := base
			q.OpCode = primitive.OpCodeQuery
			e := base
			e.OpCode = primitive.OpCodeExecute
			b1 := base
			b1.OpCode = primitive.OpCodeBatch
			b1.Children = []gen.ChildSpec{{Prepared: true, Id: id}}
			b2 := b1
			b2.Children = []gen.ChildSpec{{Prepared: false}, {Prepared: true, Id: id, Values: []gen.ValueKind{gen.ValNull, gen.ValEmpty, gen.ValRegular}}}
			b0 := b1
			b0.Children = nil
			for _, s := range []gen.ReqSpec{q, e, b1, b2, b0} {
				k.cur.Store(fmt.Sprintf("directed %s %s cl=%v", gen.VersionName(v), gen.OpName(s.OpCode), cl))
				if cs, ok := k.build(s); ok {
					k.r.Obs("directed", 1)
					k.valid(cs, false)
					k.prefixes(cs)
				}
			}
		}
	}
}

func c11MaxBody(rng *rand.Rand, big int) int {
	switch x := rng.Intn(100); {
	case x < 80:
		return 256
	case x < 97:
		return 8 << 10
	}
	return big
}

func (k *c11) validBatch(b, perCombo int) {
	rng := k.c.Rng(b)
	big := k.c.Pick(256<<10, 1<<20)
	n := 0
	for i := 0; i < perCombo; i++ {
		for _, v := range gen.Versions {
			for _, op := range c11Ops {
				spec := gen.RandomSpec(rng, v, op, c11MaxBody(rng, big), "")
				k.cur.Store(fmt.Sprintf("valid batch=%d case=%d %s %s", b, n, gen.VersionName(v), gen.OpName(op)))
				if cs, ok := k.build(spec); ok {
					if n == 0 && b < 8 {
						k.r.Sample(map[string]interface{}{"check": "valid", "cell": cs.d.Key(), "values": cs.d.NValues, "children": cs.d.NChildren,
							"body_len": len(cs.in.Body), "lead_end": cs.lead, "body_hex_prefix": hex.EncodeToString(cs.in.Body[:c11Min(48, len(cs.in.Body))])})
					}
					k.valid(cs, n%4 == 3)
				}
				n++
			}
		}
	}
}

func c11Min(a, b int) int {
	if a < b {
		return a
	}
	return b
}

// prefixes checks every proper prefix of the body.
func (k *c11) prefixes(cs c11Case) {
	for p := 0; p < len(cs.in.Body); p++ {
		in := cs.in
		in.Body = append(make([]byte, 0, p), cs.in.Body[:p]...)
		k.r.Eval(1)
		if p < cs.lead {
			if cs.d.NonTrivial() {
				k.r.NonTrivial(c11Key(cs.d, "prefix-short"))
			}
			k.r.Obs("prefix/short", 1)
			k.checkMalformed(in, cs.lead, "prefix", "truncated-inside-leading-fields", true)
		} else {
			if cs.d.NonTrivial() {
				k.r.NonTrivial(c11Key(cs.d, "prefix-long"))
			}
			k.r.Obs("prefix/long", 1)
			if k.checkValid(in, cs.ref, cs.lead, "prefix-long", "", false) {
				k.r.Obs("prefix/long:decoded-agreed-round-tripped", 1)
			}
		}
	}
}

func c11Put(b []byte, f gen.Field, val int64) {
	switch f.Size {
	case 1:
		b[f.Off] = byte(val)
	case 2:
		binary.BigEndian.PutUint16(b[f.Off:], uint16(val))
	case 4:
		binary.BigEndian.PutUint32(b[f.Off:], uint32(int32(val)))
	}
}

type c11Mut struct {
	val      int64
	class    string
	mustFail bool
}

// mutationsOf lists the single-field mutations of f and which of them make the body unparseable by construction.
func (k *c11) mutationsOf(rng *rand.Rand, cs c11Case, f gen.Field, fields []gen.Field, idx int) []c11Mut {
	after := len(cs.in.Body) - (f.Off + f.Size) // bytes of the body behind this field
	var out []c11Mut
	add := func(v int64, class string, mustFail bool) {
		if v != f.Val {
			out = append(out, c11Mut{v, class, mustFail})
		}
	}
	switch f.Kind {
	case gen.FQueryLen, gen.FChildQueryLen, gen.FValueLen:
		add(f.Val+1, "+1", f.Val+1 > int64(after))
		add(f.Val-1, "-1", false)
		add(0, "zero", false)
		add(-1, "-1value", false)
		add(-2, "-2value", false)
		add(-3-int64(rng.Intn(1000)), "negative", false)
		add(-1<<31, "min-int", false)
		add(int64(after)+1, "just-beyond-body", true)
		add(int64(after)+1+int64(rng.Intn(70000)), "beyond-body", true)
		if atomic.AddInt32(&k.bigAlloc, -1) >= 0 {
			add(0x00ffffff, "16M", 0x00ffffff > after)
		}
		if atomic.AddInt32(&k.hugeAlloc, -1) >= 0 {
			add(0x7fffffff, "max-int", true)
		}
	case gen.FIdLen, gen.FRmidLen, gen.FChildIdLen:
		add(f.Val+1, "+1", f.Val+1 > int64(after))
		add(f.Val-1, "-1", false)
		add(0, "zero", false)
		add(0x8000, "0x8000", 0x8000 > after)
		add(0xffff, "0xffff", 0xffff > after)
		if after+1 <= 0xffff {
			add(int64(after)+1, "just-beyond-body", true)
		}
	case gen.FBatchType:
		add(3, "invalid", true)
		add(255, "invalid", true)
		for i := 0; i < 4; i++ {
			add(int64(3+rng.Intn(253)), "invalid", true)
		}
	case gen.FChildType:
		add(2, "invalid", true)
		add(255, "invalid", true)
		for i := 0; i < 3; i++ {
			add(int64(2+rng.Intn(254)), "invalid", true)
		}
	case gen.FChildCount, gen.FValueCount:
		// the real children / values parse as before; each extra one needs at least min bytes of what follows them
		min, follow := 5, 0 // child: type + [short bytes] length + value count
		if f.Kind == gen.FValueCount {
			min = 4 // value: [int] length
		}
		// what follows: from the end of this child's values (value count) or of the last child (child count)
		end := cs.lead - 2 // offset of the consistency level = end of the last child
		if f.Kind == gen.FValueCount {
			end = f.Off + f.Size
			for j := idx + 1; j < len(fields) && fields[j].Kind == gen.FValueLen && fields[j].Child == f.Child; j++ {
				end = fields[j].Off + 4
				if fields[j].Val > 0 {
					end += int(fields[j].Val)
				}
			}
		}
		follow = len(cs.in.Body) - end
		for _, extra := range []int64{1, 2, 1 + int64(rng.Intn(1000))} {
			if f.Val+extra <= 0xffff {
				add(f.Val+extra, "more-than-present", extra*int64(min) > int64(follow))
			}
		}
		add(0xffff, "0xffff", (0xffff-f.Val)*int64(min) > int64(follow))
		add(f.Val-1, "-1", false)
		add(0, "zero", false)
	case gen.FConsistency:
		add(int64(rng.Intn(1<<16)), "any", false)
		add(0xffff, "any", false)
	}
	for i := range out { // a negative count does not exist on the wire
		if out[i].val < 0 && f.Size < 4 {
			out[i].val &= 0xffff
		}
	}
	return out
}

func (k *c11) mutants(rng *rand.Rand, cs c11Case) {
	fields := cs.d.Layout.Fields
	pick := make([]int, len(fields))
	for i := range pick {
		pick[i] = i
	}
	if len(pick) > 24 { // a sample of the fields of a large batch, always with the first few
		rng.Shuffle(len(pick)-6, func(i, j int) { pick[6+i], pick[6+j] = pick[6+j], pick[6+i] })
		pick = pick[:24]
	}
	for _, idx := range pick {
		f := fields[idx]
		for _, m := range k.mutationsOf(rng, cs, f, fields, idx) {
			in := cs.in
			in.Body = append(make([]byte, 0, len(cs.in.Body)), cs.in.Body...)
			c11Put(in.Body, f, m.val)
			name := f.Kind.String() + ":" + m.class
			fits, big := c11Walk(in, 1<<20)
			budget := &k.bigAlloc
			for _, off := range big {
				if int32(binary.BigEndian.Uint32(in.Body[off:])) > 64<<20 {
					budget = &k.hugeAlloc
				}
			}
			if len(big) > 0 && m.class != "16M" && m.class != "max-int" && atomic.AddInt32(budget, -1) < 0 {
				k.r.Obs("mutant:skipped(a misaligned field claims > 1 MiB; allocation cost)", 1)
				continue
			}
			k.r.Eval(1)
			k.r.Obs("mutant/"+name, 1)
			if cs.d.NonTrivial() {
				k.r.NonTrivial(c11Key(cs.d, "mutate-"+f.Kind.String()))
			}
			if !fits {
				k.r.Obs("mutant:reference-not-consulted(leading fields point beyond the body)", 1)
			}
			k.checkMalformedRef(in, cs.lead, "mutant", name, m.mustFail, fits)
		}
	}
}

func (k *c11) randomBytes(rng *rand.Rand, n int) {
	for i := 0; i < n; i++ {
		in := c11Input{V: gen.Versions[rng.Intn(len(gen.Versions))], Op: c11Ops[rng.Intn(len(c11Ops))]}
		l := rng.Intn(48)
		if rng.Intn(10) == 0 {
			l = rng.Intn(400)
		}
		in.Body = make([]byte, l)
		rng.Read(in.Body)
		shape := "uniform"
		if rng.Intn(2) == 0 && l >= 6 { // make the first fields plausible so that the decoder gets further
			shape = "plausible-head"
			switch in.Op {
			case primitive.OpCodeQuery:
				binary.BigEndian.PutUint32(in.Body, uint32(rng.Intn(l)))
			case primitive.OpCodeExecute:
				binary.BigEndian.PutUint16(in.Body, uint16(1+rng.Intn(l)))
			case primitive.OpCodeBatch:
				in.Body[0] = byte(rng.Intn(3))
				binary.BigEndian.PutUint16(in.Body[1:], uint16(rng.Intn(4)))
				in.Body[3] = byte(rng.Intn(2))
				in.Body[4], in.Body[5] = 0, byte(rng.Intn(l))
			}
		}
		if in.V >= primitive.ProtocolVersion4 && rng.Intn(10) == 0 {
			in.Flags = in.Flags.Add(primitive.HeaderFlagCustomPayload)
			if l >= 2 {
				binary.BigEndian.PutUint16(in.Body, uint16(rng.Intn(2)))
			}
		}
		if rng.Intn(4) == 0 {
			in.Flags = in.Flags.Add(primitive.HeaderFlagTracing)
		}
		k.r.Eval(1)
		k.r.Obs("random/"+gen.OpName(in.Op)+"/"+shape, 1)
		k.r.NonTrivial(gen.VersionName(in.V) + "/" + gen.OpName(in.Op) + "/-/-/random-" + shape)
		if c11ClampAllocs(&in, 70000, &k.hugeAlloc) {
			k.r.Obs("random:claimed-length-clamped(cost control)", 1)
		}
		k.checkMalformedRef(in, -1, "random", shape, false, false)
	}
}

// c11Walk follows the leading fields of a body with this file's own knowledge of the layout (payload, then QUERY:
// [long string]; EXECUTE: [short bytes]s; BATCH: children with their values).  It is COST CONTROL, not an oracle:
//   - fits=false: some length or count points beyond the body, so no decoder can accept the body and the reference need
//     not be asked (it would make([]byte, n) every length it meets, up to 2 GB, before noticing);
//   - big: offsets of the [long string]/[bytes] lengths above max that a decoder allocates before noticing the body is
//     shorter (primitive.ReadLongString / ReadBytes).
func c11Walk(in c11Input, max int) (fits bool, big []int) {
	b := in.Body
	fits = true
	long := func(off int) int { // a 4-byte length at off; returns the bytes to skip
		if off+4 > len(b) {
			fits = false
			return 0
		}
		n := int(int32(binary.BigEndian.Uint32(b[off:])))
		if n > max {
			big = append(big, off)
		}
		if n > 0 {
			if off+4+n > len(b) {
				fits = false
			}
			return n
		}
		return 0
	}
	short := func(off int) int {
		if off+2 > len(b) {
			fits = false
			return 0
		}
		n := int(binary.BigEndian.Uint16(b[off:]))
		if off+2+n > len(b) {
			fits = false
		}
		return n
	}
	off := 0
	if in.Flags.Contains(primitive.HeaderFlagCustomPayload) {
		n := short(0) // entry count, not a byte length
		fits = len(b) >= 2
		off = 2
		for i := 0; i < n && fits; i++ {
			off += 2 + short(off)
			off += 4 + long(off)
		}
	}
	if !fits {
		return
	}
	switch in.Op {
	case primitive.OpCodeQuery:
		off += 4 + long(off)
		if off+2 > len(b) {
			fits = false
		}
	case primitive.OpCodeExecute:
		off += 2 + short(off)
		if fits && in.V.SupportsResultMetadataId() {
			off += 2 + short(off)
		}
		if off+2 > len(b) {
			fits = false
		}
	case primitive.OpCodeBatch:
		if off+3 > len(b) {
			fits = false
			return
		}
		n := int(binary.BigEndian.Uint16(b[off+1:]))
		off += 3
		for i := 0; i < n && fits; i++ {
			if off >= len(b) {
				fits = false
				return
			}
			kind := b[off]
			off++
			switch kind {
			case 0:
				off += 4 + long(off)
			case 1:
				off += 2 + short(off)
			default:
				fits = false
				return
			}
			if !fits || off+2 > len(b) {
				fits = false
				return
			}
			nv := int(binary.BigEndian.Uint16(b[off:]))
			off += 2
			for j := 0; j < nv && fits; j++ {
				if off+4 > len(b) {
					fits = false
					return
				}
				l := int(int32(binary.BigEndian.Uint32(b[off:])))
				off += 4
				if l > 0 {
					off += l
				}
				if off > len(b) {
					fits = false
				}
			}
		}
		if off+2 > len(b) {
			fits = false
		}
	}
	return
}

// c11ClampAllocs rewrites the over-large claimed lengths of a random input unless the budget still allows one.
func c11ClampAllocs(in *c11Input, max int, budget *int32) (clamped bool) {
	for round := 0; round < 8; round++ { // rewriting a length moves what follows: walk again
		_, big := c11Walk(*in, max)
		if len(big) == 0 || atomic.AddInt32(budget, -1) >= 0 {
			return
		}
		off := big[0]
		n := int(int32(binary.BigEndian.Uint32(in.Body[off:])))
		binary.BigEndian.PutUint32(in.Body[off:], uint32(n%max))
		clamped = true
	}
	if _, big := c11Walk(*in, max); len(big) > 0 { // give up: make it a short body
		in.Body = in.Body[:big[0]]
	}
	return
}

func (k *c11) malformedBatch(b int) {
	rng := k.c.Rng(1000000 + b)
	// twelve sample bodies per batch for the field mutations, the first two also for the prefixes; small so that "every
	// prefix" stays cheap
	for i := 0; i < 12; i++ {
		v, op := gen.Versions[(b+i)%len(gen.Versions)], c11Ops[(b/len(gen.Versions)+i)%len(c11Ops)]
		max := 64
		if rng.Intn(4) == 0 {
			max = 1200
		}
		spec := gen.RandomSpec(rng, v, op, max, "")
		k.cur.Store(fmt.Sprintf("malformed batch=%d sample=%d %s %s", b, i, gen.VersionName(v), gen.OpName(op)))
		cs, ok := k.build(spec)
		if !ok {
			continue
		}
		if i < 2 {
			if len(cs.in.Body) <= 2500 {
				k.prefixes(cs)
			} else {
				k.r.Obs("prefix:sample-too-large-skipped", 1)
			}
		}
		k.mutants(rng, cs)
		if b < 4 && i == 0 {
			k.r.Sample(map[string]interface{}{"check": "prefixes+mutations", "cell": cs.d.Key(), "body_len": len(cs.in.Body), "lead_end": cs.lead, "fields": len(cs.d.Layout.Fields)})
		}
	}
	k.cur.Store(fmt.Sprintf("malformed batch=%d random bytes", b))
	k.randomBytes(rng, 300)
}

// watch runs f and gives up on it (inconclusive) if it does not return in time; the goroutine is abandoned.
func (k *c11) watch(name string, d time.Duration, f func()) {
	done := make(chan struct{})
	go func() {
		defer close(done)
		f()
	}()
	select {
	case <-done:
	case <-time.After(d):
		k.r.Inconc(fmt.Sprintf("C11 watchdog (%s) fired in %s; input being evaluated: %v", d, name, k.cur.Load()))
	}
}

func (k *c11) replay(sc map[string]interface{}) {
	if sc["kind"] != "body" {
		k.r.Inconc("C11 replay: this witness was too large to embed; rerun the tier with the recorded seed")
		return
	}
	num := func(key string) int { f, _ := sc[key].(float64); return int(f) }
	body, err := hex.DecodeString(fmt.Sprint(sc["body"]))
	if err != nil {
		k.r.Inconc("C11 replay: bad body hex")
		return
	}
	in := c11Input{V: primitive.ProtocolVersion(num("version")), Op: primitive.OpCode(num("opcode")), Flags: primitive.HeaderFlag(num("flags")), Body: body}
	mode, _ := sc["mode"].(string)
	mutation, _ := sc["mutation"].(string)
	mustFail, _ := sc["must_fail"].(bool)
	k.r.Eval(1)
	k.r.NonTrivial("replay/" + mode)
	k.r.NonTrivial("replay/" + gen.VersionName(in.V) + "/" + gen.OpName(in.Op))
	switch mode {
	case "valid", "mutant-valid", "prefix-long", "valid+encode-from-reference-fields", "prefix-long+encode-from-reference-fields", "mutant-valid+encode-from-reference-fields":
		base := mode
		if i := strings.IndexByte(mode, '+'); i > 0 {
			base = mode[:i]
		}
		if rv, ok := sc["ref"]; ok { // recorded ground truth
			var ref c11View
			if b, err := json.Marshal(rv); err == nil && json.Unmarshal(b, &ref) == nil {
				k.checkValid(in, ref, num("lead"), base, mutation, false)
				return
			}
		}
		rb, _, err, pan := c11RefDecode(in)
		if err != nil || pan != "" {
			// a long prefix: the reference needs the cut tail; compare only what both can see
			k.checkMalformed(in, num("lead"), "prefix", mutation, false)
			return
		}
		ref, _ := c11ViewOfRef(rb.Message, in.V)
		k.checkValid(in, ref, num("lead"), base, mutation, false)
	default:
		k.checkMalformed(in, num("lead"), mode, mutation, mustFail)
	}
}

// allocProbe records (observation only; it belongs to C17) that the decoders allocate a claimed length before they know
// the body has it: a 6-byte QUERY body that claims a 64 MiB string.
func (k *c11) allocProbe() {
	in := c11Input{V: primitive.ProtocolVersion4, Op: primitive.OpCodeQuery, Body: []byte{0x04, 0x00, 0x00, 0x00, 'S', 'E'}}
	var m0, m1 runtime.MemStats
	runtime.ReadMemStats(&m0)
	_, err, pan := c11PartialDecode(in, false)
	runtime.ReadMemStats(&m1)
	if pan == "" && err != nil && m1.TotalAlloc-m0.TotalAlloc >= 64<<20 {
		k.r.Obs("observation(C17): a 6-byte QUERY body claiming a 64 MiB query string makes DecodeBody allocate 64 MiB before it returns the error (primitive.ReadLongString: make([]byte, n) then ReadFull)", 1)
	}
}

func runC11(c *Ctx) {
	k := &c11{c: c, r: c.R, found: map[string]*c11Found{}}
	k.cur.Store("start")
	// inputs that make a decoder allocate 16 MiB / up to 2 GiB before it fails are few, and the heap is kept from
	// ballooning between collections (16 workers share the machine)
	k.bigAlloc, k.hugeAlloc = int32(c.Pick(40, 120)), 3
	debug.SetMemoryLimit(3 << 30)
	c.R.Assume("the reference codec (go-cassandra-native-protocol) is the ground truth for what a valid QUERY/EXECUTE/BATCH body contains; its own quirks (request with tracing flag: EncodeFrame declares len+16; custom payload written in map order) are observed, not attributed to the partial codecs")
	c.R.Assume("a malformed body the partial decoder accepts without reading the malformed part (opaque tail, value lengths < -2, consistency out of range) is counted as lenient, not as a violation; must-reject is asserted only where no parse exists (truncation inside the leading fields, invalid batch/child type, length or count beyond the body)")

	// does the reference itself over-declare the length of a traced request?
	{
		f := frame.NewFrame(primitive.ProtocolVersion4, 1, &message.Query{Query: "SELECT k FROM ks1.t", Options: &message.QueryOptions{}})
		f.RequestTracingId(true)
		var buf bytes.Buffer
		if err := c11Ref.EncodeFrame(f, &buf); err == nil && buf.Len() >= 9 {
			declared, actual := int(binary.BigEndian.Uint32(buf.Bytes()[5:9])), buf.Len()-9
			k.tracingQuirk = declared == actual+16
			if k.tracingQuirk && c.Shard == 0 {
				c.R.Obs("reference-quirk:EncodeFrame(request with TRACING flag) declares body length = actual+16", 1)
			}
		}
	}

	k.probeDsev1()

	if c.Replay != nil {
		if c.Shard == 0 {
			c.Step("C11 replay")
			k.replay(c.Replay)
			k.flush()
		}
		return
	}

	// the directed minimal messages run in every shard so that each shard's smallest witness is the minimal one, but they
	// are counted once (shard 0)
	c.Step("C11 directed minimal messages (all versions x consistency levels)")
	if c.Shard != 0 {
		k.r = mon.NewResult("C11-directed-uncounted")
	}
	k.watch("directed", 2*time.Minute, k.directed)
	k.r = c.R
	const perCombo = 17 // x 15 (version, opcode) combinations = 255 messages per batch
	nValid := c.Pick(20000, 500000) / (perCombo * 15)
	for b := 0; b <= nValid; b++ {
		if !c.Mine(b) {
			continue
		}
		c.Step("C11 valid batch=%d (PRNG index %d, %d messages)", b, b, perCombo*15)
		b := b
		k.watch(fmt.Sprintf("valid batch %d", b), 3*time.Minute, func() { k.validBatch(b, perCombo) })
	}
	// one malformed batch is 12 sample bodies (field mutations; all prefixes of 2 of them) + 300 random inputs: ~1130 inputs
	nMal := c.Pick(300000, 20000000) / 1130
	for b := 0; b <= nMal; b++ {
		if !c.Mine(b) {
			continue
		}
		c.Step("C11 malformed batch=%d (PRNG index %d)", b, 1000000+b)
		b := b
		k.watch(fmt.Sprintf("malformed batch %d", b), 3*time.Minute, func() { k.malformedBatch(b) })
	}
	if c.Shard == 1%c.NShards {
		c.Step("C11 concurrent decodes")
		k.watch("concurrent decodes", 3*time.Minute, k.concurrentDecodes)
	}
	k.flush()
	c.R.Require("valid:agreed-and-round-tripped", "prefix/short", "prefix/long", "malformed/prefix/must-fail-rejected",
		"malformed/mutant/must-fail-rejected", "malformed/mutant/rejected", "malformed/random/rejected")
	if c.Shard == 0 {
		k.allocProbe()
	}
}

// concurrentDecodes: every client connection decodes on its own goroutine. Eight goroutines decode valid bodies (through the
// bytes.Buffer path that compressed connections take, and the plain one) and compare each result with the reference view,
// while malformed bodies - batches with an invalid child kind among them - are decoded in between, as a hostile or broken
// client beside them would make the proxy do. A decoder that shares state between calls shows here and nowhere else.
func (k *c11) concurrentDecodes() {
	rng := k.c.Rng(424242)
	var cases []c11Case
	var bad []c11Input
	for i := 0; len(cases) < 90 && i < 2000; i++ {
		v := gen.Versions[i%len(gen.Versions)]
		op := []primitive.OpCode{primitive.OpCodeQuery, primitive.OpCodeExecute, primitive.OpCodeBatch}[(i/len(gen.Versions))%3]
		spec := gen.RandomSpec(rng, v, op, 256, NewTok())
		spec.Payload = nil
		if op == primitive.OpCodeExecute {
			spec.QueryId = []byte{0x81, 0x82, 0x83, 0x84}
		}
		if cs, ok := k.build(spec); ok && !cs.in.Flags.Contains(primitive.HeaderFlagCustomPayload) {
			cases = append(cases, cs)
			if op == primitive.OpCodeBatch && len(cs.in.Body) > 4 && (cs.in.Body[1] != 0 || cs.in.Body[2] != 0) {
				m := append([]byte{}, cs.in.Body...)
				m[3] = 2 // child kind: neither query string (0) nor prepared id (1)
				bad = append(bad, c11Input{V: cs.in.V, Op: cs.in.Op, Flags: cs.in.Flags, Body: m})
			}
		}
	}
	if len(cases) < 30 || len(bad) == 0 {
		k.r.Inconc("c11 concurrent decodes: too few cases")
		return
	}
	rounds := k.c.Pick(3000, 40000)
	var wg sync.WaitGroup
	var wrong int64
	var first atomic.Value
	for g := 0; g < 8; g++ {
		wg.Add(1)
		go func(g int) {
			defer wg.Done()
			lr := rand.New(rand.NewSource(int64(g)*7919 + k.c.Seed))
			for j := 0; j < rounds; j++ {
				if j%50 == g { // a malformed body now and then; whatever it returns is judged by the sequential part
					_, _, _ = c11PartialDecode(bad[lr.Intn(len(bad))], j%2 == 0)
					continue
				}
				cs := cases[lr.Intn(len(cases))]
				body, err, pan := c11PartialDecode(cs.in, j%4 != 3)
				what := ""
				switch {
				case pan != "":
					what = "panic: " + pan
				case err != nil:
					what = "error: " + err.Error()
				default:
					if pv, ok := c11ViewOfPartial(body.Message); !ok {
						what = fmt.Sprintf("message of type %T", body.Message)
					} else if d := c11Diff(cs.ref, pv); d != "" {
						what = fmt.Sprintf("field %s: reference %s, partial %s", d, c11Show(cs.ref, d), c11Show(pv, d))
					}
				}
				if what != "" {
					atomic.AddInt64(&wrong, 1)
					first.CompareAndSwap(nil, fmt.Sprintf("%s %s: %s", gen.VersionName(cs.in.V), gen.OpName(cs.in.Op), clip(what, 300)))
					if atomic.LoadInt64(&wrong) > 50 {
						return
					}
				}
			}
		}(g)
	}
	wg.Wait()
	k.r.Eval(8 * rounds)
	k.r.Obs("concurrent_decodes", 8*rounds)
	if n := atomic.LoadInt64(&wrong); n > 0 {
		w, _ := first.Load().(string)
		k.r.Violate(mon.Violation{Signature: "C11/valid-body-misdecoded-under-concurrent-decodes", Detail: fmt.Sprintf("eight goroutines decoded valid bodies (each decodes correctly alone) while malformed bodies were decoded in between: %d wrong outcomes; e.g. %s", n, w),
			Scenario: map[string]interface{}{"kind": "concurrent-decodes"}})
	}
}
