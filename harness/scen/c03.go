//go:build verif

package scen

import (
	"bytes"
	"encoding/hex"
	"fmt"
	"os"
	"strconv"
	"strings"
	"sync"
	"time"

	"github.com/datastax/go-cassandra-native-protocol/primitive"

	"verif/fakecass"
	"verif/gen"
	"verif/model"
	"verif/mon"
	"verif/px"
	"verif/rawcql"
)

func init() {
	Register(&Runner{Prop: "C03", Level: "exploration",
		Rule:    "request messages from the reference codec over its option space (QUERY/EXECUTE/BATCH/PREPARE; flags, positional/named values incl. null/unset/empty/large, paging state, serial consistency, timestamp, keyspace, now-in-seconds, DSE continuous paging; tracing and custom payload incl. graph) x versions v3/v4/v5/DSEv1/DSEv2 x none/lz4/snappy x body size classes up to 256 kB (quick) / 4 MiB (thorough) x content classes random/text/highly-compressible, and responses of every RESULT kind and ERROR code with tracing id / warnings / custom payload, compressed when negotiated; oracle = byte comparison of the raw frames logged at the client and backend boundaries (version, flags, opcode, body; stream id excluded), nothing decoded; distinct = (version, compression, opcode, flag set, header decorations, size class, content class, response kind) cells; non-trivial = body > 0 bytes",
		Shards:  shards(4, 16),
		Timeout: timeouts(10*time.Minute, 60*time.Minute),
		Run:     runC03})
}

var c03KnownStatements = []string{"INSERT INTO ks1.t (k, v) VALUES (?, ?)", "SELECT * FROM ks1.t WHERE k = ?", "UPDATE ks1.t SET v = ? WHERE k = ?", "DELETE FROM ks1.t WHERE k = ?"}

func c03KnownID(i int) []byte {
	return fakecass.PreparedID("", c03KnownStatements[i%len(c03KnownStatements)])
}

type c03Client struct {
	ver  primitive.ProtocolVersion
	comp string
	cl   *rawcql.Client
}

func retryableKind(kind string) bool {
	switch kind {
	case "error/unavailable", "error/bootstrapping", "error/overloaded", "error/server", "error/truncate", "error/read-timeout", "error/write-timeout":
		return true
	}
	return false
}

func runC03(c *Ctx) {
	r := c.R
	if c.Replay == nil {
		c03Storms(c)
		for i := 0; i < c.Pick(60, 3000); i++ {
			if c.Mine(i) {
				c03RetryPipelined(c, i)
			}
		}
	}
	r.Assume("statements and prepared ids are chosen so that the proxy forwards them (user keyspace, ids the backend knows); no write-consistency override is configured")
	r.Assume("for responses the retry policy may swallow (unavailable, bootstrapping, overloaded, server error, truncate, retryable timeouts) the script answers identically on every host and the client must hold either exactly those bytes or the proxy's own 'no more hosts' error")
	r.Require("requests_compared", "responses_compared", "third_attempts_after_pipelined_requests")
	maxBody := c.Pick(256<<10, 4<<20)
	n := c.Pick(3000, 150000)
	bed, err := px.NewBed(px.BedConfig{Hosts: 2, NumConns: 1, Keyspaces: []string{"ks1"}, KeepBodies: true, MaxVersion: primitive.ProtocolVersionDse2})
	if err != nil {
		r.Inconc("c03: cannot start bed: " + err.Error())
		return
	}
	defer bed.Close()
	for _, h := range bed.Cluster.Hosts {
		for i := range c03KnownStatements {
			h.Learn(hex.EncodeToString(c03KnownID(i)), c03KnownStatements[i])
		}
	}
	var smu sync.Mutex
	script := map[string]fakecass.Outcome{}
	bed.Cluster.SetScript(func(a *fakecass.Arrival) fakecass.Outcome {
		smu.Lock()
		defer smu.Unlock()
		return script[a.Token]
	})
	versions := []primitive.ProtocolVersion{3, 4, 5, 0x41, 0x42}
	comps := []string{"", "lz4", "snappy"}
	ops := []primitive.OpCode{primitive.OpCodeQuery, primitive.OpCodeExecute, primitive.OpCodeBatch, primitive.OpCodePrepare}
	clients := map[string]*c03Client{}
	getClient := func(v primitive.ProtocolVersion, comp string) *c03Client {
		k := fmt.Sprintf("%d/%s", v, comp)
		if cc := clients[k]; cc != nil && !cc.cl.IsClosed() {
			return cc
		}
		cl, err := bed.ReadyClient(v, comp)
		if err != nil {
			return nil
		}
		cc := &c03Client{v, comp, cl}
		clients[k] = cc
		return cc
	}
	defer func() {
		for _, cc := range clients {
			cc.cl.Close()
		}
	}()
	stream := int16(0)
	for i := 0; i < n; i++ {
		if c.Replay != nil && c.Replay["kind"] == "c03" {
			if i != int(c.Replay["i"].(float64)) {
				continue
			}
		} else if !c.Mine(i) {
			continue
		}
		rng := c.Rng(i)
		v := versions[i%len(versions)]
		comp := comps[(i/len(versions))%len(comps)]
		if v == primitive.ProtocolVersion5 && comp == "snappy" {
			comp = "lz4"
		}
		op := ops[(i/(len(versions)*len(comps)))%len(ops)]
		cc := getClient(v, comp)
		if cc == nil {
			r.Inconc("c03: cannot connect a client")
			continue
		}
		tok := NewTok()
		mb := maxBody
		if i%4 != 0 { // most bodies small, every fourth up to the tier's maximum
			mb = 4096
		}
		spec := gen.RandomSpec(rng, v, op, mb, tok)
		stream = (stream + 1) % 30000
		spec.Stream = stream
		if op == primitive.OpCodeExecute {
			spec.QueryId = c03KnownID(rng.Intn(4))
		}
		for ci := range spec.Children {
			if spec.Children[ci].Prepared {
				spec.Children[ci].Id = c03KnownID(rng.Intn(4))
			}
		}
		f, desc := gen.Build(spec)
		kinds := gen.ResponseKinds(v)
		kind := kinds[rng.Intn(len(kinds))]
		o := fakecass.Outcome{Name: kind, Msg: gen.Response(rng, v, kind), Tracing: rng.Intn(4) == 0}
		if v >= primitive.ProtocolVersion4 {
			if rng.Intn(4) == 0 {
				o.Warnings = []string{"warning one " + tok, "w2"}
			}
			if rng.Intn(4) == 0 {
				o.Payload = map[string][]byte{"k": []byte("v" + tok)}
			}
		}
		smu.Lock()
		script[tok] = o
		smu.Unlock()
		cell := fmt.Sprintf("%s/%s/%s", comp, desc.Key(), kind)
		scenario := map[string]interface{}{"kind": "c03", "i": i, "cell": cell}
		c.Step("c03 frame %d %s", i, cell)
		mark := bed.Log.Len()
		reply, err := cc.cl.CallF(f, 30*time.Second)
		evs := bed.Log.Snapshot()[mark:]
		r.Eval(1)
		// what the client sent on this stream
		var sent *mon.Event
		var arrivals, replies []mon.Event
		for k := range evs {
			e := evs[k]
			switch {
			case e.Src == "client" && e.K == "send" && e.Cl == cc.cl.ID && int16(e.St) == stream:
				sent = &evs[k]
			case e.Src == "backend" && e.K == "recv" && e.Tok == tok && e.Arrival > 0:
				arrivals = append(arrivals, e)
			case e.Src == "backend" && e.K == "reply" && e.Tok == tok:
				replies = append(replies, e)
			}
		}
		compName := comp
		if compName == "" {
			compName = "plain"
		}
		if sent == nil {
			r.Inconc("c03: send event not found")
			continue
		}
		if len(arrivals) == 0 {
			sig := fmt.Sprintf("C03/request-never-reached-backend/%s/%s/content=%s", compName, desc.OpCode, desc.Content)
			if d := os.Getenv("VERIF_DUMP"); d != "" {
				_ = os.WriteFile(d, sent.Body, 0o644)
			}
			state := "open"
			if cc.cl.IsClosed() {
				state = "closed by the proxy"
			}
			r.Violate(mon.Violation{Signature: sig, Detail: fmt.Sprintf("a well-formed %s %s request (%s, body %d bytes on the wire, filler class %s size %s) was not forwarded to any backend; client connection %s; reply: %v %v", desc.Version, desc.OpCode, compName, len(sent.Body), desc.Content, desc.SizeClass, state, replyInfoComp(comp, reply).Kind+" "+strconv.Quote(replyInfoComp(comp, reply).ErrMsg), err),
				Scenario: scenario, Witness: map[string]interface{}{"spec_seed": spec.Seed, "cell": cell, "wire_body_len": len(sent.Body)}})
			continue
		}
		for _, a := range arrivals {
			r.Obs("requests_compared", 1)
			diff := ""
			switch {
			case a.Ver != sent.Ver:
				diff = fmt.Sprintf("version %d != %d", a.Ver, sent.Ver)
			case a.Fl != sent.Fl:
				diff = fmt.Sprintf("header flags %#x != %#x", a.Fl, sent.Fl)
			case a.Op != sent.Op:
				diff = fmt.Sprintf("opcode %d != %d", a.Op, sent.Op)
			case !bytes.Equal(a.Body, sent.Body):
				diff = fmt.Sprintf("body differs (client sent %d bytes, backend received %d bytes, first difference at %d)", len(sent.Body), len(a.Body), firstDiff(a.Body, sent.Body))
			}
			if diff != "" {
				r.Violate(mon.Violation{Signature: fmt.Sprintf("C03/request-altered/%s/%s/%s", desc.OpCode, compName, strings.SplitN(diff, " ", 2)[0]), Detail: fmt.Sprintf("%s %s request (%s): backend received a different frame: %s; cell %s", desc.Version, desc.OpCode, compName, diff, cell), Scenario: scenario})
				break
			}
		}
		if err != nil || reply == nil {
			r.Violate(mon.Violation{Signature: fmt.Sprintf("C03/no-reply/%s/%s/%s", desc.OpCode, compName, kind), Detail: fmt.Sprintf("no reply for cell %s: %v", cell, err), Scenario: scenario})
			continue
		}
		if len(replies) == 0 {
			r.Inconc("c03: backend reply event not found")
			continue
		}
		br := replies[len(replies)-1]
		same := reply.Version == primitive.ProtocolVersion(br.Ver) && int(reply.Flags) == br.Fl && int(reply.OpCode) == br.Op && bytes.Equal(reply.Body, br.Body)
		if !same {
			ri := replyInfoComp(comp, reply)
			if retryableKind(kind) && isNoMoreHosts(ri) {
				r.Obs("responses_swallowed_by_retry_policy", 1)
			} else {
				what := "body"
				switch {
				case int(reply.Flags) != br.Fl:
					what = "flags"
				case int(reply.OpCode) != br.Op:
					what = "opcode"
				case reply.Version != primitive.ProtocolVersion(br.Ver):
					what = "version"
				}
				r.Violate(mon.Violation{Signature: fmt.Sprintf("C03/response-altered/%s/%s/%s", kind, compName, what), Detail: fmt.Sprintf("response %s (%s, tracing=%v warnings=%v payload=%v): the client received version %d flags %#x opcode %d body %d bytes, the backend sent version %d flags %#x opcode %d body %d bytes (first difference at %d)", kind, compName, o.Tracing, len(o.Warnings) > 0, len(o.Payload) > 0,
					reply.Version, reply.Flags, reply.OpCode, len(reply.Body), br.Ver, br.Fl, br.Op, len(br.Body), firstDiff(reply.Body, br.Body)), Scenario: scenario})
			}
		} else {
			r.Obs("responses_compared", 1)
		}
		r.Obs("op:"+desc.OpCode, 1)
		r.Obs("ver:"+desc.Version, 1)
		r.Obs("comp:"+compName, 1)
		r.Obs("resp:"+kind, 1)
		r.Obs("size:"+desc.SizeClass, 1)
		r.Obs("content:"+desc.Content, 1)
		if len(sent.Body) > 0 {
			r.NonTrivial(cell)
		}
		if i%97 == 0 {
			r.Sample(map[string]interface{}{"cell": cell, "wire_body_len": len(sent.Body), "response_body_len": len(reply.Body)})
		}
		smu.Lock()
		delete(script, tok)
		smu.Unlock()
	}
}

// c03Storms: the same comparison on concurrent histories with retries and fail-overs (a re-sent request must still be
// the client's bytes).
func c03Storms(c *Ctx) {
	storms := []stormParams{
		{Hosts: 3, Conns: 1, Clients: 6, PerClient: 400, Window: 64, DeathRate: 6, Compress: true},
		{Hosts: 2, Conns: 2, Clients: 4, PerClient: 500, Window: 8, DeathRate: 3},
	}
	if !c.Quick() {
		for k := 0; k < 16; k++ {
			rng := c.Rng(7000 + k)
			storms = append(storms, stormParams{Hosts: 2 + rng.Intn(3), Conns: 1 + rng.Intn(2), Clients: 2 + rng.Intn(10), PerClient: 500 + rng.Intn(1500), Window: 2 + rng.Intn(200), DeathRate: rng.Intn(12), Compress: rng.Intn(2) == 0, Silence: rng.Intn(2) == 0})
		}
	}
	for k, sp := range storms {
		if c.Mine(k) {
			c.Step("c03 %s", sp.String())
			storm(c, 9000+k, sp, []string{"C03"})
		}
	}
}

func replyInfoComp(comp string, f *rawcql.Frame) ReplyInfo {
	if f == nil {
		return ReplyInfo{Kind: "(none)"}
	}
	return DecodeReply(comp, f)
}

func firstDiff(a, b []byte) int {
	n := len(a)
	if len(b) < n {
		n = len(b)
	}
	for i := 0; i < n; i++ {
		if a[i] != b[i] {
			return i
		}
	}
	return n
}

// c03RetryPipelined: a request that is retried more than once while other small requests are pipelined on the same client
// connection. Every attempt of a request that reaches a backend must carry that request's own bytes, however often it is
// retried and whatever else the client sent in between.
//
//	A -> host x: retryable error; A -> host y: reply held; the client sends B1..Bn (answered at once); the held reply
//	(a retryable error again) is released; A -> host z: must still be A.
func c03RetryPipelined(c *Ctx, idx int) {
	r := c.R
	rng := c.Rng(810000 + idx)
	hosts := 3 + rng.Intn(2)
	comp := []string{"", "lz4", "snappy"}[rng.Intn(3)]
	kinds := []ReqKind{KQuery, KExecute, KBatch}
	kind := kinds[idx%3]
	nB := 1 + rng.Intn(6)
	retryable := []model.Outcome{model.Unavailable, model.Bootstrapping, model.Overloaded, model.ServerError, model.ReadTimeoutRetry}
	o1, o2 := retryable[rng.Intn(len(retryable))], retryable[rng.Intn(len(retryable))]
	if idx%5 == 4 {
		o2 = model.Bootstrapping
	}
	label := "retry-pipelined"
	scenario := map[string]interface{}{"kind": "c03-retry-pipelined", "idx": idx}
	c.Step("c03 retry-pipelined idx=%d hosts=%d comp=%q kind=%v first=%s second=%s pipelined=%d", idx, hosts, comp, kind, o1, o2, nB)
	bed, err := px.NewBed(px.BedConfig{Hosts: hosts, NumConns: 1, Keyspaces: []string{"ks1"}, KeepBodies: true})
	if err != nil {
		r.Inconc("c03 retry-pipelined: cannot start bed: " + err.Error())
		return
	}
	defer bed.Close()
	cl, err := bed.ReadyClient(primitive.ProtocolVersion4, comp)
	if err != nil {
		r.Inconc("c03 retry-pipelined: handshake: " + err.Error())
		return
	}
	defer cl.Close()
	if err := PrepareStandard(bed, cl, true); err != nil {
		r.Inconc("c03 retry-pipelined: prepare: " + err.Error())
		return
	}
	tokA := NewTok()
	bed.Cluster.SetScript(func(a *fakecass.Arrival) fakecass.Outcome {
		if a.Token != tokA {
			return fakecass.Rows()
		}
		switch a.K {
		case 1:
			return OutcomeFor(o1, tokA, primitive.ProtocolVersion4)
		case 2:
			o := OutcomeFor(o2, tokA, primitive.ProtocolVersion4)
			o.Hold = true
			return o
		}
		return fakecass.Rows()
	})
	chA := cl.Expect(100)
	if err := cl.SendF(BuildRequest(primitive.ProtocolVersion4, 100, kind, true, tokA, primitive.ConsistencyLevelOne)); err != nil {
		r.Inconc("c03 retry-pipelined: send: " + err.Error())
		return
	}
	if !waitFor(func() bool { return bed.Cluster.HeldCount() == 1 }, 10*time.Second) {
		r.Inconc(fmt.Sprintf("c03 retry-pipelined: the second attempt did not arrive (first outcome %s)", o1))
		return
	}
	for b := 0; b < nB; b++ {
		kb := kinds[rng.Intn(3)]
		if f, err := cl.CallF(BuildRequest(primitive.ProtocolVersion4, int16(200+b), kb, rng.Intn(2) == 0, NewTok(), primitive.ConsistencyLevelOne), 10*time.Second); err != nil || f == nil {
			r.Inconc("c03 retry-pipelined: a pipelined request was not answered")
			return
		}
	}
	bed.Cluster.ReleaseHeld(nil)
	fA, err := cl.Wait(chA, 10*time.Second)
	evs := bed.Log.Snapshot()
	n := transparencyCheck(r, evs, label, scenario)
	r.Eval(n)
	r.Obs("requests_compared", n)
	arrivalsA := bed.Cluster.Arrivals(tokA)
	if err != nil || fA == nil {
		// the request was answered by nobody: judged by C01; here only the bytes matter
		r.Obs("retry_pipelined_unanswered", 1)
	} else if ri := DecodeReply(comp, fA); ri.Kind == "Rows" && ri.Tok != tokA {
		r.Violate(mon.Violation{Signature: fmt.Sprintf("C03/request-altered/%s/%s/answered-with-another-requests-result", label, opName(int(fA.OpCode))),
			Detail: fmt.Sprintf("request %s was answered with the rows of %s", tokA, ri.Tok), Scenario: scenario})
	}
	if arrivalsA >= 3 {
		r.Obs("third_attempts_after_pipelined_requests", 1)
		r.NonTrivial(fmt.Sprintf("retry-pipelined/%v/%s/%s,%s/n%d", kind, comp, o1, o2, nB))
	}
}
