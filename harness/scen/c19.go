//go:build verif

package scen

// C19 — Astra bundle TLS: a TLS connection to the metadata service or to a database node is accepted only if the server's
// chain verifies against the bundle CA for the bundle host name now; the proxy presents the bundle's client certificate and the
// node's host id (or contact point) as SNI; servers with bad chains are rejected before any CQL byte is sent to them.
//
// The real astra package is driven end to end, in-process and offline: bundles are zip archives built in memory
// (astra.LoadBundleZip), astra.NewResolver(...).Resolve talks to a harness HTTPS metadata server, and the endpoints it returns
// (and those of resolver.NewEndpoint(row)) are dialled with proxycore.ConnectClient + Handshake against harness TLS "nodes".
// The oracle never runs certificate verification itself: whether a chain verifies is fixed by how the chain was minted.

import (
	"context"
	"encoding/json"
	"errors"
	"fmt"
	"math/rand"
	"net"
	"strings"
	"sync"
	"sync/atomic"
	"time"

	"crypto/tls"

	"github.com/datastax/cql-proxy/astra"
	"github.com/datastax/cql-proxy/proxycore"
	"github.com/datastax/go-cassandra-native-protocol/datatype"
	"github.com/datastax/go-cassandra-native-protocol/message"
	"github.com/datastax/go-cassandra-native-protocol/primitive"

	"verif/mon"
)

func init() {
	Register(&Runner{Prop: "C19", Level: "exploration",
		Rule:    "PRNG-generated bundle host names (15 name shapes: localhost, single/deep/long labels, upper/mixed case, digit/hyphen labels, astra-like, punycode-looking, wildcard-looking, underscore, trailing dot) x 9 server chain kinds (valid, other-ca, self-signed, wrong-name, expired, not-yet-valid, inter-present, inter-missing, empty Certificate message) x TLS 1.2/1.3 servers x target (metadata service via Resolve; node via Resolve contact point; node via NewEndpoint(row) with a generated host id); every chain kind picks one of several PRNG-chosen variants; distinct = (chain kind, name shape, TLS version, target); every case with a chain that does not verify is non-trivial, and so is every valid case (SNI / client certificate are checked there)",
		Shards:  shards(2, 8),
		Timeout: timeouts(3*time.Minute, 20*time.Minute),
		Run:     runC19})
}

const (
	c19TargetMeta = "metadata"
	c19TargetCP   = "node-cp"
	c19TargetRow  = "node-row"
)

func c19TargetClass(t string) string {
	if t == c19TargetMeta {
		return "metadata"
	}
	return "node"
}

var c19Shapes = []string{"localhost", "simple", "single-label", "deep", "long-label", "long-name", "upper", "mixed-case", "digit-hyphen", "astra-like", "punycode-looking", "wildcard-looking", "localhost-mixed-case", "underscore", "trailing-dot"}

func c19Label(rng *rand.Rand, n int) string {
	const al = "abcdefghijklmnopqrstuvwxyz0123456789"
	b := make([]byte, n)
	for i := range b {
		b[i] = al[rng.Intn(len(al))]
	}
	if b[0] >= '0' && b[0] <= '9' {
		b[0] = al[rng.Intn(26)]
	}
	return string(b)
}

func c19UUID(rng *rand.Rand, edge int) (raw [16]byte, text string) {
	switch edge {
	case 0:
		// all zero
	case 1:
		for i := range raw {
			raw[i] = 0xff
		}
	default:
		for i := range raw {
			raw[i] = byte(rng.Intn(256))
		}
		if rng.Intn(2) == 0 { // a proper version-4 uuid
			raw[6] = raw[6]&0x0f | 0x40
			raw[8] = raw[8]&0x3f | 0x80
		}
	}
	text = fmt.Sprintf("%x-%x-%x-%x-%x", raw[0:4], raw[4:6], raw[6:8], raw[8:10], raw[10:16])
	return
}

// c19GenName generates a bundle host name of the shape selected by idx. strict = a leaf minted for exactly this name must verify
// under any reading of the property; for the two non-strict shapes only the rejection of bad chains is judged.
func c19GenName(rng *rand.Rand, idx int) (name, shape string, strict bool) {
	shape = c19Shapes[idx%len(c19Shapes)]
	strict = true
	tlds := []string{"com", "net", "example", "internal", "io", "cloud"}
	tld := tlds[rng.Intn(len(tlds))]
	switch shape {
	case "localhost":
		name = "localhost"
	case "localhost-mixed-case":
		name = []string{"LocalHost", "LOCALHOST", "localHOST"}[rng.Intn(3)]
	case "simple":
		name = c19Label(rng, 2+rng.Intn(10)) + "." + c19Label(rng, 3+rng.Intn(12)) + "." + tld
	case "single-label":
		name = c19Label(rng, 3+rng.Intn(20))
	case "deep":
		n := 5 + rng.Intn(4)
		parts := make([]string, n)
		for i := range parts {
			parts[i] = c19Label(rng, 1+rng.Intn(8))
		}
		name = strings.Join(parts, ".") + "." + tld
	case "long-label":
		name = c19Label(rng, 63) + "." + c19Label(rng, 5) + "." + tld
	case "long-name":
		total := 230 + rng.Intn(24) // <= 253
		for len(name) < total-10 {
			l := 20 + rng.Intn(43)
			if len(name)+l+1 > total-4 {
				l = total - 4 - len(name) - 1
				if l < 1 {
					break
				}
			}
			name += c19Label(rng, l) + "."
		}
		name += "com"
	case "upper":
		name = strings.ToUpper(c19Label(rng, 4+rng.Intn(8)) + "." + c19Label(rng, 4+rng.Intn(8)) + "." + tld)
	case "mixed-case":
		b := []byte(c19Label(rng, 4+rng.Intn(8)) + "." + c19Label(rng, 4+rng.Intn(8)) + "." + tld)
		for i := range b {
			if b[i] >= 'a' && b[i] <= 'z' && rng.Intn(2) == 0 {
				b[i] -= 32
			}
		}
		name = string(b)
	case "digit-hyphen":
		mk := func() string {
			return fmt.Sprintf("%d%s-%s%d", rng.Intn(10), c19Label(rng, 1+rng.Intn(4)), c19Label(rng, 1+rng.Intn(4)), rng.Intn(100))
		}
		name = mk() + "." + mk() + "." + tld
	case "astra-like":
		_, u := c19UUID(rng, 9)
		name = u + "-" + []string{"us-east1", "eu-west-1", "ap-south-1", "westus2"}[rng.Intn(4)] + ".db.astra.datastax.com"
	case "punycode-looking":
		name = "xn--" + c19Label(rng, 3+rng.Intn(6)) + "-" + c19Label(rng, 3) + "." + "xn--" + c19Label(rng, 5) + "." + tld
	case "wildcard-looking":
		name = []string{"wildcard", "star", "any", "x--star"}[rng.Intn(4)] + "." + c19Label(rng, 3+rng.Intn(8)) + "." + tld
	case "underscore":
		strict = false
		name = c19Label(rng, 3) + "_" + c19Label(rng, 3) + "." + c19Label(rng, 5) + "." + tld
	case "trailing-dot":
		strict = false
		name = c19Label(rng, 4+rng.Intn(6)) + "." + c19Label(rng, 5) + "." + tld + "."
	}
	return
}

func c19SameHost(a, b string) bool {
	return strings.EqualFold(strings.TrimSuffix(a, "."), strings.TrimSuffix(b, "."))
}

func c19VerName(v uint16) string {
	if v == tls.VersionTLS13 {
		return "tls13"
	}
	return "tls12"
}

// c19Case is one connection attempt against one harness server.
type c19Case struct {
	NameIdx int    `json:"name_index"`
	Host    string `json:"bundle_host"`
	Shape   string `json:"name_shape"`
	Strict  bool   `json:"strict_name"`
	Kind    string `json:"chain_kind"`
	Variant string `json:"chain_variant"`
	Version string `json:"server_tls"`
	Target  string `json:"target"`
	NodeID  string `json:"node_id,omitempty"`
}

func (cs c19Case) key() string {
	return fmt.Sprintf("%s/%s/%s/%s", cs.Kind, cs.Shape, cs.Version, cs.Target)
}

func (cs c19Case) scenario() map[string]interface{} {
	return map[string]interface{}{"kind": "name", "index": cs.NameIdx, "case": cs}
}

// c19Judge applies the oracle to one finished case.
//
//	clientAccepted: Resolve returned endpoints / ConnectClient returned a connection.
//	sniOK: tells whether the SNI a server saw is the expected one for this case.
func c19Judge(r *mon.Result, cs c19Case, clientAccepted bool, clientErr error, obs []*c19ConnObs, watchdogOK bool, sniOK func(string) bool, sniWant string) {
	class := c19TargetClass(cs.Target)
	witness := map[string]interface{}{"case": cs, "client_accepted": clientAccepted, "client_error": fmt.Sprint(clientErr), "server_connections": obs}
	r.Eval(1)
	r.NonTrivial(cs.key())
	r.Obs("variant:"+cs.Kind+"/"+cs.Variant, 1)

	if !watchdogOK {
		r.Inconc(fmt.Sprintf("%s: the harness server did not see the connection finish within the watchdog (client error: %v)", cs.key(), clientErr))
		return
	}
	srvDone, sawHello := false, false
	appBytes, rawApp12 := 0, 0
	for _, o := range obs {
		r.Obs("handshakes_observed", 1)
		sawHello = sawHello || o.SawHello
		if o.HandshakeOK {
			srvDone = true
			r.Obs("handshakes_completed", 1)
		} else {
			r.Obs("handshakes_failed", 1)
			if cs.Version == "tls12" { // before the handshake completes every TLS 1.2 record type is visible in clear
				for _, t := range o.RawRecords {
					if t == 23 {
						rawApp12++
					}
				}
			}
		}
		appBytes += o.AppBytes
	}
	accepted := clientAccepted || srvDone || appBytes > 0
	outcome := "rejected"
	if accepted {
		outcome = "accepted"
	}
	r.Obs(fmt.Sprintf("%s/%s/%s", cs.Kind, cs.Target, outcome), 1)
	r.Obs(class+"/"+outcome, 1)
	r.Obs(cs.Version+"/"+outcome, 1)

	// SNI: sent in the ClientHello whatever the server answers afterwards
	for _, o := range obs {
		if !o.SawHello {
			continue
		}
		r.Obs("sni_checked/"+cs.Target, 1)
		if !sniOK(o.SNI) {
			r.Violate(mon.Violation{Signature: "C19/wrong-sni/" + cs.Target,
				Detail:   fmt.Sprintf("%s server saw SNI %q, expected %s (bundle host %q, chain %s)", cs.Target, o.SNI, sniWant, cs.Host, cs.Kind),
				Scenario: cs.scenario(), Witness: witness})
		}
	}

	if !accepted {
		r.Obs("reject_reason:"+cs.Kind+":"+c19Reason(clientErr), 1)
	}
	if !c19KindVerifies(cs.Kind) {
		r.Obs("app_bytes_on_rejected_servers", appBytes)
		r.Obs("tls12_appdata_records_on_rejected_servers", rawApp12)
		if accepted {
			r.Violate(mon.Violation{Signature: fmt.Sprintf("C19/accepted-bad-chain/%s/%s", cs.Kind, class),
				Detail: fmt.Sprintf("%s connection to a server presenting a %s chain (variant %s) for bundle host %q was accepted: client accepted=%v, server handshake completed=%v, application bytes received=%d",
					cs.Target, cs.Kind, cs.Variant, cs.Host, clientAccepted, srvDone, appBytes),
				Scenario: cs.scenario(), Witness: witness})
		}
		if class == "node" && (appBytes > 0 || rawApp12 > 0) {
			r.Violate(mon.Violation{Signature: "C19/bytes-before-auth/" + cs.Kind,
				Detail:   fmt.Sprintf("node presenting a %s chain (variant %s) received %d application bytes (%d clear application-data records)", cs.Kind, cs.Variant, appBytes, rawApp12),
				Scenario: cs.scenario(), Witness: witness})
		}
		if class == "metadata" && appBytes > 0 {
			r.Obs("http_bytes_on_rejected_metadata_servers", appBytes)
		}
		return
	}

	// chain verifies by construction
	if !clientAccepted {
		switch {
		case !cs.Strict:
			r.Obs("nonstrict-name-valid-chain-rejected/"+cs.Shape, 1)
		case !sawHello:
			r.Inconc(fmt.Sprintf("%s: client failed before the server saw a ClientHello: %v", cs.key(), clientErr))
		default:
			r.Violate(mon.Violation{Signature: fmt.Sprintf("C19/rejected-valid-chain/%s/%s", cs.Kind, class),
				Detail:   fmt.Sprintf("%s connection to a server presenting a %s chain (variant %s) that verifies for bundle host %q (%s) was refused: %v", cs.Target, cs.Kind, cs.Variant, cs.Host, cs.Shape, clientErr),
				Scenario: cs.scenario(), Witness: witness})
		}
		return
	}
	if !srvDone {
		r.Inconc(fmt.Sprintf("%s: client reports success but no harness server completed a handshake", cs.key()))
		return
	}
	for _, o := range obs {
		if !o.HandshakeOK {
			continue
		}
		r.Obs("client_cert_checked/"+class, 1)
		if o.ClientCerts == 0 {
			r.Violate(mon.Violation{Signature: "C19/no-client-cert/" + class,
				Detail: fmt.Sprintf("%s server (%s) completed the handshake but the client presented no certificate", cs.Target, cs.Version), Scenario: cs.scenario(), Witness: witness})
		} else if !o.ClientCertOK {
			r.Violate(mon.Violation{Signature: "C19/wrong-client-cert/" + class,
				Detail: fmt.Sprintf("%s server (%s) was presented a client certificate that is not the bundle's", cs.Target, cs.Version), Scenario: cs.scenario(), Witness: witness})
		}
		if class == "node" {
			for _, op := range o.Frames {
				if op == 0x01 {
					r.Obs("startup_frames_on_accepted_nodes", 1)
				}
			}
		} else if o.AppBytes > 0 {
			r.Obs("http_requests_on_accepted_metadata_servers", 1)
		}
	}
}

// c19Reason classifies the client's error text for the evidence file only (never used in a verdict).
func c19Reason(err error) string {
	if err == nil {
		return "(no error)"
	}
	s := err.Error()
	for _, k := range []string{"signed by unknown authority", "certificate is valid for", "certificate is not valid for any names", "expired or is not yet valid",
		"unexpected handshake message", "bad certificate", "not authorized to sign", "timeout", "deadline exceeded", "connection refused", "no such host"} {
		if strings.Contains(s, k) {
			return k
		}
	}
	return "other"
}

type c19Plan struct {
	kind    string
	version uint16
	target  string
}

func c19Plans(targets ...string) []c19Plan {
	var out []c19Plan
	for _, v := range []uint16{tls.VersionTLS12, tls.VersionTLS13} {
		for _, k := range c19Kinds {
			if k == ckEmpty && v != tls.VersionTLS12 {
				continue // only the hand-written TLS 1.2 server can send an empty certificate list
			}
			for _, t := range targets {
				out = append(out, c19Plan{k, v, t})
			}
		}
	}
	return out
}

func c19RunName(c *Ctx, idx int) {
	r := c.R
	rng := c.Rng(idx)
	host, shape, strict := c19GenName(rng, idx)
	c.Step("name %d shape=%s host=%s", idx, shape, host)
	pki := newC19PKI(time.Now(), fmt.Sprintf("%d", idx))

	meta, err := newC19Station("metadata", pki.clientDER)
	if err != nil {
		r.Inconc("cannot listen: " + err.Error())
		return
	}
	defer meta.close()
	node, err := newC19Station("node", pki.clientDER)
	if err != nil {
		r.Inconc("cannot listen: " + err.Error())
		return
	}
	defer node.close()

	zr, bvariant, err := pki.bundleZip(rng, host, meta.port)
	if err != nil {
		r.Inconc("cannot build bundle zip: " + err.Error())
		return
	}
	bundle, err := astra.LoadBundleZip(zr)
	if err != nil {
		r.Inconc(fmt.Sprintf("LoadBundleZip refused a well-formed bundle (%s, host %q): %v", bvariant, host, err))
		return
	}
	r.Obs("bundles_loaded", 1)
	r.Obs("bundle_variant:"+bvariant, 1)
	resolver := astra.NewResolver(bundle, 15*time.Second)

	nodePlans := c19Plans(c19TargetCP, c19TargetRow)
	rng.Shuffle(len(nodePlans), func(i, j int) { nodePlans[i], nodePlans[j] = nodePlans[j], nodePlans[i] })
	var contactPoints []string
	cpSet := map[string]bool{}
	for i, p := range nodePlans {
		if p.target == c19TargetCP {
			_, u := c19UUID(rng, 2+i)
			for cpSet[u] {
				_, u = c19UUID(rng, 9)
			}
			cpSet[u] = true
			contactPoints = append(contactPoints, u)
		}
	}
	region := []string{"", "dc1"}[rng.Intn(2)]
	body, _ := json.Marshal(map[string]interface{}{"version": 1, "region": region, "contact_info": map[string]interface{}{
		"type": "sni_proxy", "local_dc": "dc1", "sni_proxy_address": fmt.Sprintf("127.0.0.1:%d", node.port), "contact_points": contactPoints}})
	meta.setMetadata(body)

	// ---- metadata family: bundle.TLSConfig.Clone(), standard verification with ServerName = bundle host
	var endpoints []proxycore.Endpoint
	metaPlans := c19Plans(c19TargetMeta)
	rng.Shuffle(len(metaPlans), func(i, j int) { metaPlans[i], metaPlans[j] = metaPlans[j], metaPlans[i] })
	for _, p := range metaPlans {
		cs := c19Case{NameIdx: idx, Host: host, Shape: shape, Strict: strict, Kind: p.kind, Version: c19VerName(p.version), Target: p.target}
		sc := &c19ServerCase{version: p.version, empty: p.kind == ckEmpty}
		cs.Variant = "empty-certificate-list"
		if !sc.empty {
			sc.chain, cs.Variant = pki.chain(rng, p.kind, host, host)
		}
		c.Step("name %d host=%s %s variant=%s", idx, host, cs.key(), cs.Variant)
		meta.setCase(sc)
		ctx, cancel := context.WithTimeout(context.Background(), 20*time.Second)
		eps, rerr := resolver.Resolve(ctx)
		cancel()
		ok := sc.waitConns(1, 8*time.Second)
		meta.setCase(nil)
		if rerr == nil {
			endpoints = eps
			r.Obs("resolve_ok", 1)
			r.Obs("endpoints_returned", len(eps))
		} else {
			r.Obs("resolve_failed", 1)
		}
		c19Judge(r, cs, rerr == nil, rerr, sc.snapshot(), ok, func(s string) bool { return c19SameHost(s, host) }, fmt.Sprintf("the bundle host %q", host))
		if idx < len(c19Shapes) && p.kind == ckWrongName {
			r.Sample(map[string]interface{}{"case": cs, "client_error": fmt.Sprint(rerr), "server": sc.snapshot()})
		}
	}

	// ---- node family: copyTLSConfig (SNI = host id / contact point, hand-written verification against the bundle host)
	if endpoints == nil {
		r.Obs("node_family_skipped_no_successful_resolve", 1)
		return
	}
	usedSNI := map[string]bool{}
	nextEP := 0
	for i, p := range nodePlans {
		cs := c19Case{NameIdx: idx, Host: host, Shape: shape, Strict: strict, Kind: p.kind, Version: c19VerName(p.version), Target: p.target}
		var ep proxycore.Endpoint
		var sniOK func(string) bool
		var sniWant, decoy string
		if p.target == c19TargetCP {
			if nextEP >= len(endpoints) {
				r.Obs("contact_point_cases_skipped_fewer_endpoints_than_contact_points", 1)
				continue
			}
			ep = endpoints[nextEP]
			nextEP++
			decoy = contactPoints[rng.Intn(len(contactPoints))]
			sniWant = "one of the not yet used contact points returned by the metadata service"
			sniOK = func(s string) bool {
				if cpSet[s] && !usedSNI[s] {
					usedSNI[s] = true
					return true
				}
				return false
			}
		} else {
			raw, text := c19UUID(rng, i)
			cs.NodeID = text
			decoy = text
			rows := &message.RowsResult{
				Metadata: &message.RowsMetadata{ColumnCount: 3, Columns: []*message.ColumnMetadata{
					{Keyspace: "system", Table: "peers", Name: "peer", Type: datatype.Inet},
					{Keyspace: "system", Table: "peers", Name: "data_center", Type: datatype.Varchar},
					{Keyspace: "system", Table: "peers", Name: "host_id", Type: datatype.Uuid}}},
				Data: message.RowSet{message.Row{[]byte{10, 0, 0, byte(1 + i%250)}, []byte("dc1"), append([]byte(nil), raw[:]...)}},
			}
			var nerr error
			ep, nerr = resolver.NewEndpoint(proxycore.NewResultSet(rows, primitive.ProtocolVersion4).Row(0))
			if nerr != nil || ep == nil {
				r.Inconc(fmt.Sprintf("NewEndpoint(row host_id=%s) failed after a successful Resolve: %v", text, nerr))
				continue
			}
			sniWant = fmt.Sprintf("the host id %q", text)
			sniOK = func(s string) bool { return strings.EqualFold(s, text) }
		}
		sc := &c19ServerCase{version: p.version, empty: p.kind == ckEmpty}
		cs.Variant = "empty-certificate-list"
		if !sc.empty {
			sc.chain, cs.Variant = pki.chain(rng, p.kind, host, decoy)
		}
		c.Step("name %d host=%s %s variant=%s id=%s", idx, host, cs.key(), cs.Variant, cs.NodeID)
		node.setCase(sc)
		ctx, cancel := context.WithTimeout(context.Background(), 20*time.Second)
		cl, cerr := proxycore.ConnectClient(ctx, ep, proxycore.ClientConnConfig{})
		if cerr == nil && cl != nil {
			if _, herr := cl.Handshake(ctx, primitive.ProtocolVersion4, nil); herr != nil {
				r.Obs("cql_handshake_failed_after_tls_accept", 1)
			} else {
				r.Obs("cql_handshake_ok", 1)
			}
			_ = cl.Close()
		}
		cancel()
		ok := sc.waitConns(1, 8*time.Second)
		node.setCase(nil)
		c19Judge(r, cs, cerr == nil, cerr, sc.snapshot(), ok, sniOK, sniWant)
		if idx >= 1 && idx < 4 && (p.kind == ckValid || p.kind == ckSelfSigned) && p.version == tls.VersionTLS13 {
			r.Sample(map[string]interface{}{"case": cs, "client_error": fmt.Sprint(cerr), "server": sc.snapshot()})
		}
	}
	if s := meta.strays() + node.strays(); s > 0 {
		r.Obs("stray_connections_outside_cases", s)
	}
}

func runC19(c *Ctx) {
	r := c.R
	r.Assume("whether a chain verifies is fixed by construction of the chain (signer, names, validity window minted relative to the clock at run start with margins of at least one hour); the harness never runs x509 verification")
	r.Assume("every generated bundle host name resolves to 127.0.0.1 through an in-process DNS stub installed as net.DefaultResolver of the worker process (no packet leaves the process)")
	r.Assume("for the name shapes 'underscore' and 'trailing-dot' only the rejection of bad chains is judged; acceptance of a leaf minted for exactly that name is counted, not required")
	r.Assume("the empty-Certificate-message case is exercised with a hand-written TLS 1.2 server flight only (crypto/tls servers cannot send one; no TLS 1.3 variant)")
	r.Assume("HTTP bytes sent to a metadata server whose chain was (wrongly) accepted are reported through accepted-bad-chain only; bytes-before-auth is about CQL bytes to nodes")
	r.Require("forged_twin_presentations:after-a-genuine-handshake", "forged_twin_genuine_accepted", "metadata/accepted", "metadata/rejected", "node/accepted", "node/rejected", "startup_frames_on_accepted_nodes", "tls12/rejected", "tls13/rejected",
		"empty/metadata/rejected", "empty/node-cp/rejected", "empty/node-row/rejected", "client_cert_checked/node", "client_cert_checked/metadata", "sni_checked/node-row", "sni_checked/node-cp", "sni_checked/metadata", "expiry_connections_after_expiry", "expiry_accepted_while_valid")

	old := net.DefaultResolver
	net.DefaultResolver = c19StubResolver()
	defer func() { net.DefaultResolver = old }()

	if c.Replay != nil {
		if f, ok := c.Replay["index"].(float64); ok {
			if c.Replay["kind"] == "expiry" {
				c19Expiry(c, int(f))
			} else {
				c19RunName(c, int(f))
			}
			return
		}
	}
	n := c.Pick(2*len(c19Shapes), 8000)
	c.Parallel(n, 8, func(i int) { c19RunName(c, i) })
	c.Parallel(c.Pick(6, 300), 6, func(i int) { c19Expiry(c, i) })
	c.Parallel(c.Pick(24, 720), 6, func(i int) { c19ForgedTwin(c, i) })
	c19DNSQueries.Lock()
	r.Obs("dns_stub_queries", c19DNSQueries.n)
	c19DNSQueries.Unlock()
	r.Obs("names_planned_all_shards", n)
	r.Extra["names_total"] = n
	r.Extra["cases_per_name"] = len(c19Plans(c19TargetMeta)) + len(c19Plans(c19TargetCP, c19TargetRow))
}

// c19Expiry: "verifies ... at the current time". Endpoints are created while the node's certificate is valid; the
// certificate then expires; a connection through the SAME endpoint objects (what every reconnect of the proxy uses) must
// be rejected before any CQL byte is sent. Accept/reject is fixed by construction: the leaf's notAfter is 1.2 s after
// its creation, the second connection is made after that instant has been waited out.
func c19ForgedTwin(c *Ctx, idx int) {
	r := c.R
	rng := c.Rng(200000 + idx)
	host, shape, _ := c19GenName(rng, idx)
	c.Step("forged-twin %d shape=%s host=%s", idx, shape, host)
	now := time.Now()
	pki := newC19PKI(now, fmt.Sprintf("t%d", idx))
	meta, err := newC19Station("metadata", pki.clientDER)
	if err != nil {
		r.Inconc("cannot listen: " + err.Error())
		return
	}
	defer meta.close()
	node, err := newC19Station("node", pki.clientDER)
	if err != nil {
		r.Inconc("cannot listen: " + err.Error())
		return
	}
	defer node.close()
	zr, _, err := pki.bundleZip(rng, host, meta.port)
	if err != nil {
		r.Inconc("cannot build bundle zip: " + err.Error())
		return
	}
	bundle, err := astra.LoadBundleZip(zr)
	if err != nil {
		r.Inconc("LoadBundleZip: " + err.Error())
		return
	}
	resolver := astra.NewResolver(bundle, 15*time.Second)
	_, cp := c19UUID(rng, 3)
	body, _ := json.Marshal(map[string]interface{}{"version": 1, "region": "", "contact_info": map[string]interface{}{
		"type": "sni_proxy", "local_dc": "dc1", "sni_proxy_address": fmt.Sprintf("127.0.0.1:%d", node.port), "contact_points": []string{cp}}})
	meta.setMetadata(body)
	msc := &c19ServerCase{version: tls.VersionTLS13}
	msc.chain, _ = pki.chain(rng, ckValid, host, host)
	meta.setCase(msc)
	ctx, cancel := context.WithTimeout(context.Background(), 20*time.Second)
	eps, rerr := resolver.Resolve(ctx)
	cancel()
	meta.setCase(nil)
	if rerr != nil || len(eps) == 0 {
		r.Inconc(fmt.Sprintf("forged-twin: Resolve failed with a valid chain: %v", rerr))
		return
	}
	raw, _ := c19UUID(rng, 5)
	rows := &message.RowsResult{
		Metadata: &message.RowsMetadata{ColumnCount: 3, Columns: []*message.ColumnMetadata{
			{Keyspace: "system", Table: "peers", Name: "peer", Type: datatype.Inet},
			{Keyspace: "system", Table: "peers", Name: "data_center", Type: datatype.Varchar},
			{Keyspace: "system", Table: "peers", Name: "host_id", Type: datatype.Uuid}}},
		Data: message.RowSet{message.Row{[]byte{10, 0, 0, 9}, []byte("dc1"), append([]byte(nil), raw[:]...)}},
	}
	rowEP, nerr := resolver.NewEndpoint(proxycore.NewResultSet(rows, primitive.ProtocolVersion4).Row(0))
	if nerr != nil {
		r.Inconc("forged-twin: NewEndpoint: " + nerr.Error())
		return
	}
	targets := []struct {
		name string
		ep   proxycore.Endpoint
	}{{c19TargetCP, eps[0]}, {c19TargetRow, rowEP}}
	// the genuine node certificate, and forgeries that copy everything a peer can see of it without the CA's key: subject,
	// names, validity and SERIAL NUMBER, under an issuer with the bundle CA's distinguished name
	serial := c19Serial()
	gskid := make([]byte, 20)
	rng.Read(gskid)
	gder, gkey := c19Leaf(c19LeafSpec{dnsNames: []string{host}, cn: "node", notBefore: now.Add(-time.Hour), notAfter: now.Add(24 * time.Hour), signer: pki.root, serial: serial, skid: gskid})
	// a second bundle, with a CA of its own, is loaded in this process and used for nothing: its CA is not this bundle's
	pki2 := newC19PKI(now, fmt.Sprintf("t%d-second-bundle", idx))
	if zr2, _, err := pki2.bundleZip(rng, "other."+host, meta.port); err == nil {
		if _, err := astra.LoadBundleZip(zr2); err == nil {
			r.Obs("second_bundles_loaded", 1)
		}
	}
	genuine := tls.Certificate{Certificate: [][]byte{gder}, PrivateKey: gkey}
	rootSubj := pki.root.cert.Subject
	type forgery struct {
		name    string
		chain   tls.Certificate
		genuine *tls.Certificate // the genuine server of this case, when it is not the plain leaf under the root
	}
	mk := func(name string, spec c19LeafSpec, extra ...[]byte) forgery {
		spec.serial = serial
		spec.skid = gskid // the key identifiers are extensions an issuer fills in as it likes
		spec.akid = pki.root.cert.SubjectKeyId
		spec.cn = "node"
		spec.notBefore, spec.notAfter = now.Add(-time.Hour), now.Add(24*time.Hour)
		der, key := c19Leaf(spec)
		return forgery{name: name, chain: tls.Certificate{Certificate: append([][]byte{der}, extra...), PrivateKey: key}}
	}
	forgeries := []forgery{
		mk("other-ca-same-issuer-name", c19LeafSpec{dnsNames: []string{host}, signer: pki.otherSame}),
		mk("other-ca-same-issuer-name+its-ca", c19LeafSpec{dnsNames: []string{host}, signer: pki.otherSame}, pki.otherSame.der),
		mk("other-ca-same-issuer-name+real-root", c19LeafSpec{dnsNames: []string{host}, signer: pki.otherSame}, pki.root.der),
		mk("self-signed-with-ca-name", c19LeafSpec{dnsNames: []string{host}, selfSubj: &rootSubj, selfCA: true}),
		mk("other-ca-wrong-name", c19LeafSpec{dnsNames: []string{"decoy.invalid"}, signer: pki.otherSame}),
		mk("unrelated-ca", c19LeafSpec{dnsNames: []string{host}, signer: pki.other}),
		// the impostor proves possession of its own key only; the genuine certificate (public) rides along in the list
		mk("self-signed+genuine-certificate-appended", c19LeafSpec{dnsNames: []string{host}}, gder),
		mk("unrelated-ca+genuine-certificate-appended", c19LeafSpec{dnsNames: []string{host}, signer: pki.other}, gder),
		mk("unrelated-ca+its-ca+genuine-certificate-appended", c19LeafSpec{dnsNames: []string{host}, signer: pki.other}, pki.other.der, gder),
		mk("ca-of-another-bundle-loaded-in-this-process", c19LeafSpec{dnsNames: []string{host}, signer: pki2.root}),
		mk("ca-of-another-bundle-loaded-in-this-process+its-ca", c19LeafSpec{dnsNames: []string{host}, signer: pki2.root}, pki2.root.der),
	}
	// a server whose leaf hangs under an intermediate of the bundle CA but which does not present that intermediate does not
	// verify - whatever chains other servers presented through the same endpoint before (here: a genuine one with the
	// intermediate in its list)
	{
		lder, lkey := c19Leaf(c19LeafSpec{dnsNames: []string{host}, cn: "node-b", notBefore: now.Add(-time.Hour), notAfter: now.Add(24 * time.Hour), signer: pki.inter})
		gder2, gkey2 := c19Leaf(c19LeafSpec{dnsNames: []string{host}, cn: "node-a", notBefore: now.Add(-time.Hour), notAfter: now.Add(24 * time.Hour), signer: pki.inter})
		forgeries = append(forgeries, forgery{name: "leaf-under-intermediate-presented-without-it", chain: tls.Certificate{Certificate: [][]byte{lder}, PrivateKey: lkey},
			genuine: &tls.Certificate{Certificate: [][]byte{gder2, pki.inter.der}, PrivateKey: gkey2}})
	}
	dial := func(ep proxycore.Endpoint, ver uint16, chain tls.Certificate) (bool, error, []*c19ConnObs, bool) {
		sc := &c19ServerCase{version: ver, chain: chain}
		node.setCase(sc)
		ctx, cancel := context.WithTimeout(context.Background(), 20*time.Second)
		cl, cerr := proxycore.ConnectClient(ctx, ep, proxycore.ClientConnConfig{})
		if cerr == nil && cl != nil {
			_, _ = cl.Handshake(ctx, primitive.ProtocolVersion4, nil)
			_ = cl.Close()
		}
		cancel()
		ok := sc.waitConns(1, 8*time.Second)
		node.setCase(nil)
		return cerr == nil, cerr, sc.snapshot(), ok
	}
	fg := forgeries[idx%len(forgeries)]
	if fg.genuine != nil {
		genuine = *fg.genuine
	}
	judge := func(stage string, tgName string, acc bool, cerr error, obs []*c19ConnObs, ok bool) {
		r.Eval(1)
		app := 0
		for _, o := range obs {
			app += o.AppBytes
		}
		if !ok {
			r.Inconc("forged-twin: watchdog waiting for the server side of the connection")
			return
		}
		r.Obs("forged_twin_presentations:"+stage, 1)
		r.NonTrivial(fmt.Sprintf("forged-twin/%s/%s/%s/%s", fg.name, stage, shape, tgName))
		if acc || app > 0 {
			r.Violate(mon.Violation{Signature: fmt.Sprintf("C19/accepted-bad-chain/forged-twin/%s/%s/%s", fg.name, stage, c19TargetClass(tgName)),
				Detail:   fmt.Sprintf("a server presented a certificate that copies subject, names, validity and serial number of the genuine node certificate but is not signed by the bundle CA (%s); presented %s through the endpoint for %s (bundle host %q): accepted=%v, application bytes received by the impostor: %d (client error: %v)", fg.name, stage, tgName, host, acc, app, cerr),
				Scenario: map[string]interface{}{"kind": "forged-twin", "index": idx}, Witness: obs})
		}
	}
	for ti, tg := range targets {
		ver := []uint16{tls.VersionTLS12, tls.VersionTLS13}[(idx+ti)%2]
		// before any genuine handshake
		if ti == 0 {
			acc, cerr, obs, ok := dial(tg.ep, ver, fg.chain)
			judge("before-any-genuine-handshake", tg.name, acc, cerr, obs, ok)
		}
		// the genuine node is accepted
		acc, cerr, _, _ := dial(tg.ep, ver, genuine)
		r.Eval(1)
		if acc {
			r.Obs("forged_twin_genuine_accepted", 1)
		} else {
			r.Obs("forged_twin_genuine_refused:"+c19Reason(cerr), 1)
		}
		// then the impostor, through the same endpoint object
		acc, cerr, obs, ok := dial(tg.ep, ver, fg.chain)
		judge("after-a-genuine-handshake", tg.name, acc, cerr, obs, ok)
		// ... and six connections to the impostor at the same moment (what a pool with several connections per host, or
		// several sessions connecting at once, do)
		if ti == 1 || len(targets) == 1 {
			sc := &c19ServerCase{version: ver, chain: fg.chain}
			node.setCase(sc)
			var wg sync.WaitGroup
			accepted := int32(0)
			var firstErr atomic.Value
			for k := 0; k < 6; k++ {
				wg.Add(1)
				go func() {
					defer wg.Done()
					ctx, cancel := context.WithTimeout(context.Background(), 20*time.Second)
					defer cancel()
					cl, cerr := proxycore.ConnectClient(ctx, tg.ep, proxycore.ClientConnConfig{})
					if cerr == nil && cl != nil {
						atomic.AddInt32(&accepted, 1)
						_, _ = cl.Handshake(ctx, primitive.ProtocolVersion4, nil)
						_ = cl.Close()
					} else if cerr != nil {
						firstErr.Store(cerr.Error())
					}
				}()
			}
			wg.Wait()
			okc := sc.waitConns(6, 8*time.Second)
			node.setCase(nil)
			var e error
			if v, _ := firstErr.Load().(string); v != "" {
				e = errors.New(v)
			}
			judge("six-connections-at-once", tg.name, atomic.LoadInt32(&accepted) > 0, e, sc.snapshot(), okc)
		}
	}
}

func c19Expiry(c *Ctx, idx int) {
	r := c.R
	rng := c.Rng(100000 + idx)
	host, shape, _ := c19GenName(rng, idx)
	c.Step("expiry %d shape=%s host=%s", idx, shape, host)
	now := time.Now()
	pki := newC19PKI(now, fmt.Sprintf("x%d", idx))
	meta, err := newC19Station("metadata", pki.clientDER)
	if err != nil {
		r.Inconc("cannot listen: " + err.Error())
		return
	}
	defer meta.close()
	node, err := newC19Station("node", pki.clientDER)
	if err != nil {
		r.Inconc("cannot listen: " + err.Error())
		return
	}
	defer node.close()
	zr, _, err := pki.bundleZip(rng, host, meta.port)
	if err != nil {
		r.Inconc("cannot build bundle zip: " + err.Error())
		return
	}
	bundle, err := astra.LoadBundleZip(zr)
	if err != nil {
		r.Inconc("LoadBundleZip: " + err.Error())
		return
	}
	resolver := astra.NewResolver(bundle, 15*time.Second)
	_, cp := c19UUID(rng, 3)
	body, _ := json.Marshal(map[string]interface{}{"version": 1, "region": "", "contact_info": map[string]interface{}{
		"type": "sni_proxy", "local_dc": "dc1", "sni_proxy_address": fmt.Sprintf("127.0.0.1:%d", node.port), "contact_points": []string{cp}}})
	meta.setMetadata(body)
	msc := &c19ServerCase{version: tls.VersionTLS13}
	msc.chain, _ = pki.chain(rng, ckValid, host, host)
	meta.setCase(msc)
	ctx, cancel := context.WithTimeout(context.Background(), 20*time.Second)
	eps, rerr := resolver.Resolve(ctx)
	cancel()
	meta.setCase(nil)
	if rerr != nil || len(eps) == 0 {
		r.Inconc(fmt.Sprintf("expiry: Resolve failed with a valid chain: %v", rerr))
		return
	}
	raw, _ := c19UUID(rng, 5)
	rows := &message.RowsResult{
		Metadata: &message.RowsMetadata{ColumnCount: 3, Columns: []*message.ColumnMetadata{
			{Keyspace: "system", Table: "peers", Name: "peer", Type: datatype.Inet},
			{Keyspace: "system", Table: "peers", Name: "data_center", Type: datatype.Varchar},
			{Keyspace: "system", Table: "peers", Name: "host_id", Type: datatype.Uuid}}},
		Data: message.RowSet{message.Row{[]byte{10, 0, 0, 9}, []byte("dc1"), append([]byte(nil), raw[:]...)}},
	}
	rowEP, nerr := resolver.NewEndpoint(proxycore.NewResultSet(rows, primitive.ProtocolVersion4).Row(0))
	if nerr != nil {
		r.Inconc("expiry: NewEndpoint: " + nerr.Error())
		return
	}
	targets := []struct {
		name string
		ep   proxycore.Endpoint
	}{{c19TargetCP, eps[0]}, {c19TargetRow, rowEP}}
	// the node's certificate: valid now, expiring very soon
	minted := time.Now()
	lifetime := 1200 * time.Millisecond
	der, key := c19Leaf(c19LeafSpec{dnsNames: []string{host}, cn: "node", notBefore: minted.Add(-time.Hour), notAfter: minted.Add(lifetime), signer: pki.root})
	chain := tls.Certificate{Certificate: [][]byte{der}, PrivateKey: key}
	dial := func(ep proxycore.Endpoint, ver uint16) (bool, error, []*c19ConnObs, bool) {
		sc := &c19ServerCase{version: ver, chain: chain}
		node.setCase(sc)
		ctx, cancel := context.WithTimeout(context.Background(), 20*time.Second)
		cl, cerr := proxycore.ConnectClient(ctx, ep, proxycore.ClientConnConfig{})
		if cerr == nil && cl != nil {
			_, _ = cl.Handshake(ctx, primitive.ProtocolVersion4, nil)
			_ = cl.Close()
		}
		cancel()
		ok := sc.waitConns(1, 8*time.Second)
		node.setCase(nil)
		return cerr == nil, cerr, sc.snapshot(), ok
	}
	for ti, tg := range targets {
		ver := []uint16{tls.VersionTLS12, tls.VersionTLS13}[(idx+ti)%2]
		// while valid: accepted
		if time.Since(minted) < lifetime-300*time.Millisecond {
			acc, cerr, _, _ := dial(tg.ep, ver)
			r.Eval(1)
			if acc {
				r.Obs("expiry_accepted_while_valid", 1)
			} else {
				r.Obs("expiry_first_connection_failed:"+c19Reason(cerr), 1)
			}
		}
	}
	// wait the validity out (input generation, not an oracle reading the clock: the verdict is fixed by construction)
	if d := lifetime + 400*time.Millisecond - time.Since(minted); d > 0 {
		time.Sleep(d)
	}
	for ti, tg := range targets {
		ver := []uint16{tls.VersionTLS12, tls.VersionTLS13}[(idx+ti)%2]
		acc, cerr, obs, ok := dial(tg.ep, ver)
		r.Eval(1)
		r.Obs("expiry_connections_after_expiry", 1)
		r.NonTrivial(fmt.Sprintf("expired-after-endpoint-creation/%s/%s/%s", shape, c19VerName(ver), tg.name))
		scenario := map[string]interface{}{"kind": "expiry", "index": idx, "target": tg.name}
		app := 0
		for _, o := range obs {
			app += o.AppBytes
		}
		if !ok {
			r.Inconc("expiry: watchdog waiting for the server side of the connection")
			continue
		}
		if acc || app > 0 {
			r.Violate(mon.Violation{Signature: fmt.Sprintf("C19/accepted-bad-chain/expired-after-endpoint-creation/%s", c19TargetClass(tg.name)),
				Detail:   fmt.Sprintf("the endpoint for %s (bundle host %q) was created while the node's certificate was valid; %s after the certificate's notAfter a connection through the same endpoint was accepted=%v and the node received %d application bytes (client error: %v)", tg.name, host, time.Since(minted.Add(lifetime)).Round(time.Millisecond), acc, app, cerr),
				Scenario: scenario, Witness: obs})
		} else {
			r.Obs("expiry_rejected_after_expiry", 1)
		}
	}
}
