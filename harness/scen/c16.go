//go:build verif

package scen

import (
	"context"
	"encoding/json"
	"fmt"
	"io"
	"net"
	"net/http"
	"os"
	"strings"
	"sync"
	"sync/atomic"
	"time"

	"github.com/datastax/cql-proxy/proxy"
	"github.com/datastax/cql-proxy/proxycore"
	"github.com/datastax/go-cassandra-native-protocol/frame"
	"github.com/datastax/go-cassandra-native-protocol/message"
	"github.com/datastax/go-cassandra-native-protocol/primitive"

	"verif/fakecass"
	"verif/mon"
	"verif/px"
	"verif/rawcql"
)

func init() {
	Register(&Runner{Prop: "C16", Level: "fault_enumeration",
		Rule:    "sequences of node additions, removals, restarts (with a failed USE earlier) over 1-4 hosts with routing checked after each observable refresh; kills of pooled/control connections (single and simultaneous) and muted connections with reconnects observed through a recording ReconnectPolicy; the backoff calculator over a (base,max) grid x attempts x resets; outage clock and /readiness sampled at states the harness knows; distinct = fault/topology sequence or (base,max) configuration; non-trivial = >= 2 steps, for configurations: cap reached",
		Shards:  shards(4, 16),
		Timeout: timeouts(10*time.Minute, 60*time.Minute),
		Run:     runC16})
}

// ---------------------------------------------------------------------------------------------------------------------
// 3. the backoff calculator, directly

func c16Backoff(c *Ctx) {
	r := c.R
	n := c.Pick(2000, 200000)
	bases := []time.Duration{time.Millisecond, 10 * time.Millisecond, 100 * time.Millisecond, time.Second, 2 * time.Second, 10 * time.Second, time.Minute, 10 * time.Minute, time.Hour}
	for i := 0; i < n; i++ {
		if !c.Mine(i) {
			continue
		}
		rng := c.Rng(50000 + i)
		base := bases[rng.Intn(len(bases))]
		if rng.Intn(2) == 0 {
			base = time.Duration(1+rng.Int63n(int64(time.Hour/time.Millisecond))) * time.Millisecond
		}
		max := base + time.Duration(rng.Int63n(int64(24*time.Hour-base)))
		switch rng.Intn(4) {
		case 0:
			max = base
		case 1:
			max = base + time.Duration(rng.Int63n(int64(time.Second)))
		}
		p := proxycore.NewReconnectPolicyWithDelays(base, max)
		if rng.Intn(2) == 0 {
			p = p.Clone()
		}
		capped := false
		afterReset := true
		var prev time.Duration
		steps := rng.Intn(81)
		for k := 0; k < steps; k++ {
			if rng.Intn(20) == 0 {
				p.Reset()
				afterReset = true
			}
			d := p.NextDelay()
			r.Eval(1)
			class := ""
			switch {
			case d <= 0:
				class = "non-positive"
			case d > max:
				class = "above-max"
			case d < base:
				class = "below-base"
			case afterReset && d > base+250*time.Millisecond && d != max:
				class = "not-reset"
			}
			if class != "" {
				r.Violate(mon.Violation{Signature: "C16/backoff/" + class, Detail: fmt.Sprintf("NewReconnectPolicyWithDelays(%s, %s): delay #%d = %s (previous %s, just reset: %v)", base, max, k, d, prev, afterReset),
					Scenario: map[string]interface{}{"kind": "backoff", "base": int64(base), "max": int64(max)}})
				break
			}
			if d == max {
				capped = true
			}
			prev = d
			afterReset = false
		}
		r.Obs("backoff_configs", 1)
		if capped {
			r.NonTrivial(fmt.Sprintf("backoff/%d/%d", base, max))
		}
		if i%500 == 0 {
			r.Sample(map[string]interface{}{"base": base.String(), "max": max.String(), "steps": steps, "cap_reached": capped})
		}
	}
}

// checkPolicyLog applies the same bounds to what the running proxy asked of its (recording) reconnect policy.
func checkPolicyLog(r *mon.Result, bed *px.Bed, base, max time.Duration, scenario map[string]interface{}) {
	calls := bed.Policy.Calls.Snapshot()
	fresh := map[int64]bool{}
	for _, cl := range calls {
		switch cl.Kind {
		case "clone":
			fresh[cl.ID] = true
		case "reset":
			fresh[cl.ID] = true
			r.Obs("policy_resets", 1)
		case "delay":
			r.Obs("policy_delays", 1)
			class := ""
			switch {
			case cl.Delay <= 0:
				class = "non-positive"
			case cl.Delay > max:
				class = "above-max"
			case cl.Delay < base && cl.Delay != max:
				class = "below-base"
			}
			if class != "" {
				r.Violate(mon.Violation{Signature: "C16/live-backoff/" + class, Detail: fmt.Sprintf("the proxy's reconnect policy (base %s, max %s) returned %s", base, max, cl.Delay), Scenario: scenario})
			}
			_ = fresh
		}
	}
}

// ---------------------------------------------------------------------------------------------------------------------
// 1. routing follows the peers table

type topoStep struct {
	Op   string // add | remove | restart | remove-control
	Host int
}

func c16Topology(c *Ctx, idx int, total int, steps []topoStep, failedUse bool, realWindow bool) {
	r := c.R
	label := make([]string, len(steps))
	for i, s := range steps {
		label[i] = fmt.Sprintf("%s%d", s.Op, s.Host)
	}
	scenario := map[string]interface{}{"kind": "topology", "idx": idx, "total": total, "steps": steps, "failed_use": failedUse}
	c.Step("c16 topology idx=%d total=%d steps=%v failedUse=%v realWindow=%v", idx, total, label, failedUse, realWindow)
	window := 30 * time.Millisecond
	if realWindow {
		window = 0
	}
	// hosts beyond the first two start unlisted (but listening)
	var unlisted []int
	for h := 3; h <= total; h++ {
		unlisted = append(unlisted, h)
	}
	bed, err := px.NewBed(px.BedConfig{Hosts: total, NumConns: 1, Keyspaces: []string{"ks1"}, Unlisted: unlisted, RefreshWindow: window,
		ReconnectBase: time.Millisecond, ReconnectMax: 3 * time.Millisecond})
	if err != nil {
		r.Inconc("c16: cannot start bed: " + err.Error())
		return
	}
	defer bed.Close()
	cl, err := bed.ReadyClient(primitive.ProtocolVersion4, "")
	if err != nil {
		r.Inconc("c16: handshake: " + err.Error())
		return
	}
	defer cl.Close()
	stream := int16(0)
	if failedUse {
		stream++
		f, err := cl.Call(stream, &message.Query{Query: "USE nosuchks"}, 10*time.Second)
		if err != nil || f.OpCode != primitive.OpCodeError {
			r.Inconc("c16: the failing USE did not fail")
		}
		stream++
		_, _ = cl.Call(stream, &message.Query{Query: "USE ks1"}, 10*time.Second)
		r.Obs("failed_use_then_topology", 1)
	}
	listed := map[int]bool{1: true, 2: total >= 2}
	peersAnswered := func() int { // how often the proxy has read system.peers so far (refreshes and control (re)connects alike)
		n := 0
		for _, e := range bed.Log.Snapshot() {
			if e.Src == "backend" && e.K == "reply" && e.Outcome == "System:peers" {
				n++
			}
		}
		return n
	}
	controlUp := func() bool {
		return waitFor(func() bool { return len(bed.Cluster.EstablishedControlConns()) >= 1 }, 20*time.Second)
	}
	wd := 20 * time.Second
	if realWindow {
		wd = 40 * time.Second
	}
	for si, st := range steps {
		if !controlUp() { // events are only announced on an established control connection
			r.Inconc("c16: no established control connection before a topology step")
			return
		}
		before := peersAnswered()
		ip := net.ParseIP(bed.Cluster.HostIP(st.Host))
		inet := &primitive.Inet{Addr: ip, Port: int32(bed.Cluster.Port)}
		switch st.Op {
		case "add":
			bed.Cluster.SetListed(st.Host, true)
			listed[st.Host] = true
			bed.Cluster.Emit(&message.TopologyChangeEvent{ChangeType: primitive.TopologyChangeTypeNewNode, Address: inet})
		case "remove":
			// a node serving the control connection always lists itself (system.local): move the control connection away first
			for tries := 0; tries < 8; tries++ {
				on := false
				for _, x := range bed.Cluster.ControlConns() {
					if x.Host.Idx == st.Host {
						on = true
						x.Kill(false)
					}
				}
				if !on {
					break
				}
				time.Sleep(10 * time.Millisecond)
				if !controlUp() {
					r.Inconc("c16: control connection did not come back")
					return
				}
			}
			before = peersAnswered()
			bed.Cluster.SetListed(st.Host, false)
			listed[st.Host] = false
			bed.Cluster.Emit(&message.TopologyChangeEvent{ChangeType: primitive.TopologyChangeTypeRemovedNode, Address: inet})
		case "ctl-loss-in-window":
			// a topology event schedules a refresh; the control connection is lost before the refresh window ends
			bed.Cluster.Emit(&message.StatusChangeEvent{ChangeType: primitive.StatusChangeTypeUp, Address: inet})
			for _, x := range bed.Cluster.ControlConns() {
				x.Kill(false)
			}
			if !waitFor(func() bool { return len(bed.Cluster.EstablishedControlConns()) >= 1 }, wd) {
				r.Inconc("c16: control connection did not come back")
				return
			}
			time.Sleep(3 * window) // the pending refresh (if any) fires on the new connection
			before = -1            // the reconnect itself re-queried the tables; nothing more to wait for in this step
		case "later":
			// nothing happens for six seconds: routing that had converged must stay converged (whatever timers a removal or
			// an addition left behind have fired by then)
			time.Sleep(6 * time.Second)
			before = -1
		case "down-events-then-control-host-stops":
			// the control node announces every other node DOWN (they are not: a partitioned node sees the others that way),
			// then stops itself. The control connection must fail over to one of the others all the same.
			var ctlHost int
			for _, x := range bed.Cluster.EstablishedControlConns() {
				ctlHost = x.Host.Idx
			}
			if ctlHost == 0 {
				r.Inconc("c16: no control connection to announce DOWN events on")
				return
			}
			for h, v := range listed {
				if v && h != ctlHost {
					bed.Cluster.Emit(&message.StatusChangeEvent{ChangeType: primitive.StatusChangeTypeDown, Address: &primitive.Inet{Addr: net.ParseIP(bed.Cluster.HostIP(h)), Port: int32(bed.Cluster.Port)}})
				}
			}
			time.Sleep(20 * time.Millisecond)
			bed.Cluster.Hosts[ctlHost-1].Stop()
			r.Obs("down_events_then_control_host_stops", 1)
			elsewhere := waitFor(func() bool {
				for _, x := range bed.Cluster.EstablishedControlConns() {
					if x.Host.Idx != ctlHost {
						return true
					}
				}
				return false
			}, wd)
			if !elsewhere {
				r.Violate(mon.Violation{Signature: "C16/control-not-failed-over-to-reachable-host/after-down-events", Detail: fmt.Sprintf("the control node (host %d) announced the other %d nodes DOWN and then stopped; the others are up and listed, but %s later the control connection has not been re-established on any of them", ctlHost, nListedOf(listed)-1, wd), Scenario: scenario})
				return
			}
			_ = bed.Cluster.Hosts[ctlHost-1].Start(true)
			before = peersAnswered()
			bed.Cluster.Emit(&message.StatusChangeEvent{ChangeType: primitive.StatusChangeTypeUp, Address: &primitive.Inet{Addr: net.ParseIP(bed.Cluster.HostIP(ctlHost)), Port: int32(bed.Cluster.Port)}})
		case "restart":
			bed.Cluster.Hosts[st.Host-1].Stop()
			time.Sleep(5 * time.Millisecond)
			_ = bed.Cluster.Hosts[st.Host-1].Start(true)
			if !controlUp() { // the control connection may have been on the restarted host
				r.Inconc("c16: no established control connection after a restart")
				return
			}
			before = peersAnswered()
			bed.Cluster.Emit(&message.StatusChangeEvent{ChangeType: primitive.StatusChangeTypeUp, Address: inet})
		}
		// the observable refresh: the control connection re-queries system.peers
		if !waitFor(func() bool { return peersAnswered() > before }, wd) {
			r.Violate(mon.Violation{Signature: "C16/no-refresh/" + st.Op, Detail: fmt.Sprintf("after %s of host %d and the topology event the control connection never re-queried system.peers (watchdog %s)", st.Op, st.Host, wd), Scenario: scenario})
			return
		}
		// for an added or restarted host: its pool must complete STARTUP for the session
		if st.Op == "add" || st.Op == "restart" {
			ok := waitFor(func() bool {
				for _, x := range bed.Cluster.Hosts[st.Host-1].Conns() {
					if !x.IsRegistered() && x.Ver() != 0 {
						return true
					}
				}
				return false
			}, wd)
			if !ok {
				r.Violate(mon.Violation{Signature: "C16/added-host-never-connected/" + st.Op, Detail: fmt.Sprintf("step %d (%s host %d): no pooled connection to the host completed STARTUP after the refresh", si, st.Op, st.Host), Scenario: scenario})
				return
			}
		}
		if st.Op == "remove" {
			// the proxy closes the pools of a removed host; wait until that is observable so no request is in a window
			waitFor(func() bool {
				for _, x := range bed.Cluster.Hosts[st.Host-1].Conns() {
					if !x.IsRegistered() {
						return false
					}
				}
				return true
			}, 2*time.Second)
		}
		time.Sleep(10 * time.Millisecond)
		// routing: rounds of 4 x hosts + 2 requests. The backend has seen the refresh (and the new pool's STARTUP, the old
		// pool's close), but the proxy may need a moment more before its routing has caught up, so up to 10 rounds are sent:
		// a listed host that none of them reached is starved, a de-listed host that is still reached in the last one is not
		// dropped.
		nListed := 0
		for _, v := range listed {
			if v {
				nListed++
			}
		}
		reached := map[int]int{}
		allReached := func() bool {
			for h, v := range listed {
				if v && reached[h] == 0 {
					return false
				}
			}
			return true
		}
		strayHost, rounds := 0, 0
		for round := 0; round < 10; round++ {
			rounds++
			mark := bed.Log.Len()
			for k := 0; k < 4*nListed+2; k++ {
				stream++
				tok := NewTok()
				f, err := cl.CallF(BuildRequest(primitive.ProtocolVersion4, stream, KQuery, true, tok, primitive.ConsistencyLevelOne), 15*time.Second)
				r.Eval(1)
				if err != nil {
					r.Violate(mon.Violation{Signature: "C16/request-lost-after-topology-change/" + st.Op, Detail: fmt.Sprintf("request after step %d (%s host %d) got no reply: %v", si, st.Op, st.Host, err), Scenario: scenario})
					return
				}
				ri := DecodeReply("", f)
				if ri.HasEcho {
					reached[ri.Echo.Host]++
				}
			}
			strayHost = 0
			for _, e := range bed.Log.Snapshot()[mark:] {
				if e.Src == "backend" && e.K == "recv" && e.Arrival > 0 && !listed[e.Host] {
					strayHost = e.Host
				}
			}
			if strayHost == 0 && allReached() {
				break
			}
			time.Sleep(20 * time.Millisecond)
		}
		r.ObsMax("max:routing_rounds_until_converged", rounds)
		if strayHost != 0 {
			r.Violate(mon.Violation{Signature: "C16/stray-traffic-to-delisted-host", Detail: fmt.Sprintf("after step %d (%s host %d) requests still reached host %d, which the peers table no longer lists, in the last of %d rounds of %d requests", si, st.Op, st.Host, strayHost, rounds, 4*nListed+2), Scenario: scenario})
		}
		for h, v := range listed {
			if v && reached[h] == 0 {
				r.Violate(mon.Violation{Signature: "C16/listed-host-gets-no-traffic/" + st.Op, Detail: fmt.Sprintf("after step %d (%s host %d) none of %d requests reached listed host %d (distribution %v)", si, st.Op, st.Host, rounds*(4*nListed+2), h, reached), Scenario: scenario})
			}
		}
		r.Obs("topology_steps_checked", 1)
		r.Obs("step:"+st.Op, 1)
	}
	if len(steps) >= 2 {
		r.NonTrivial("topology/" + strings.Join(label, ",") + fmt.Sprintf("/fu=%v", failedUse))
	}
	if idx%5 == 0 {
		r.Sample(map[string]interface{}{"topology_steps": label, "failed_use": failedUse})
	}
}

func nListedOf(listed map[int]bool) int {
	n := 0
	for _, v := range listed {
		if v {
			n++
		}
	}
	return n
}

// ---------------------------------------------------------------------------------------------------------------------
// 2. healing

// c16ProgressSteps client round trips, each followed by a pause of idle/4, are at least c16ProgressSteps/4 idle timeouts
// during which the proxy demonstrably ran (it answered every one of them): a muted connection that is still open after
// that many is a violation, with fewer the watchdog verdict stays inconclusive.
const c16ProgressSteps = 120

// c16WaitClosed waits until the proxy has closed the connection, at most 160 answered client round trips with a pause of
// idle/4 after each; it returns how many round trips were answered.
func c16WaitClosed(bed *px.Bed, victim *fakecass.Conn, idle time.Duration) (closed bool, steps int) {
	cl, err := bed.ReadyClient(primitive.ProtocolVersion4, "")
	if err != nil {
		return waitFor(func() bool { return victim.IsClosed() }, 40*idle), 0
	}
	defer cl.Close()
	for i := 0; i < 160; i++ {
		if victim.IsClosed() {
			return true, steps
		}
		if cl.Options(int16(1+i%1000), 5*time.Second) == nil {
			steps++
		}
		time.Sleep(idle / 4)
	}
	return victim.IsClosed(), steps
}

func c16Heal(c *Ctx, idx int, hosts, conns int, fault string) {
	r := c.R
	scenario := map[string]interface{}{"kind": "heal", "idx": idx, "hosts": hosts, "conns": conns, "fault": fault}
	c.Step("c16 heal idx=%d hosts=%d conns=%d fault=%s", idx, hosts, conns, fault)
	base, max := 5*time.Millisecond, 40*time.Millisecond
	hb, idle, ct := 15*time.Millisecond, 90*time.Millisecond, 60*time.Millisecond
	bed, err := px.NewBed(px.BedConfig{Hosts: hosts, NumConns: conns, Keyspaces: []string{"ks1"}, ReconnectBase: base, ReconnectMax: max, HeartBeat: hb, Idle: idle, ConnectTimeout: ct})
	if err != nil {
		r.Inconc("c16: cannot start bed: " + err.Error())
		return
	}
	defer bed.Close()
	pooledOpen := func(h int) int {
		n := 0
		for _, x := range bed.Cluster.Hosts[h-1].Conns() {
			if !x.IsRegistered() && x.Ver() != 0 && !x.IsClosed() {
				n++
			}
		}
		return n
	}
	allHealed := func() bool {
		for h := 1; h <= hosts; h++ {
			if pooledOpen(h) < conns {
				return false
			}
		}
		return len(bed.Cluster.EstablishedControlConns()) >= 1
	}
	if !waitFor(allHealed, 10*time.Second) {
		r.Inconc("c16 heal: bed not fully connected")
		return
	}
	target := 1 + idx%hosts
	delaysBefore := len(bed.Policy.Calls.Snapshot())
	switch fault {
	case "kill-pooled":
		bed.Cluster.KillPooled(idx%2 == 0, target)
	case "kill-host":
		bed.Cluster.KillHosts(false, target)
	case "kill-host-slow-start":
		// the node is back at once, but while it starts up it answers the first STARTUPs with IS_BOOTSTRAPPING: the proxy must
		// keep trying until the node takes connections
		atomic.StoreInt32(&bed.Cluster.Hosts[target-1].StartupFailures, int32(2+idx%3))
		bed.Cluster.KillHosts(false, target)
	case "kill-control":
		for _, x := range bed.Cluster.ControlConns() {
			x.Kill(false)
		}
	case "kill-all":
		all := make([]int, hosts)
		for i := range all {
			all[i] = i + 1
		}
		bed.Cluster.KillHosts(idx%2 == 0, all...)
	case "stop-all-restart-one":
		for _, h := range bed.Cluster.Hosts {
			h.Stop()
		}
		before := len(bed.Policy.Calls.Snapshot())
		if !waitFor(func() bool {
			n := 0
			for _, cl := range bed.Policy.Calls.Snapshot()[before:] {
				if cl.Kind == "delay" {
					n++
				}
			}
			return n >= 2*hosts+2 // every pool and the control connection have failed at least one reconnect
		}, 10*time.Second) {
			r.Inconc("c16 heal: no failed reconnects recorded while everything is down")
			return
		}
		back := 1 + (idx/6)%hosts
		_ = bed.Cluster.Hosts[back-1].Start(false)
		// the control connection must come back on the one host that accepts again, within a bounded number of attempts
		attemptsBefore := len(bed.Policy.Calls.Snapshot())
		okc := waitFor(func() bool {
			for _, x := range bed.Cluster.EstablishedControlConns() {
				if x.Host.Idx == back {
					return true
				}
			}
			n := 0
			for _, cl := range bed.Policy.Calls.Snapshot()[attemptsBefore:] {
				if cl.Kind == "delay" {
					n++
				}
			}
			return n > 40*(hosts+2) // logical bound: far more reconnect attempts than hosts, and still no control connection
		}, 30*time.Second)
		established := false
		for _, x := range bed.Cluster.EstablishedControlConns() {
			established = established || x.Host.Idx == back
		}
		r.Obs("heal:stop-all-restart-one", 1)
		r.Eval(1)
		r.NonTrivial(fmt.Sprintf("heal/stop-all-restart-one/h%d/back=%d", hosts, back))
		if !established {
			if okc {
				r.Violate(mon.Violation{Signature: "C16/control-not-failed-over-to-reachable-host", Detail: fmt.Sprintf("all %d hosts went down, then host %d came back: after more than %d further reconnect attempts the control connection was still not re-established on it", hosts, back, 40*(hosts+2)), Scenario: scenario})
			} else {
				r.Inconc("c16 heal: control connection not re-established before the watchdog (stop-all-restart-one)")
			}
			return
		}
		// definitely connected: the connection has also answered a heartbeat sent after its system queries
		hbSeen := waitFor(func() bool {
			for _, x := range bed.Cluster.EstablishedControlConns() {
				if x.Host.Idx == back && bed.Cluster.OptionsCount(x.ID) >= 1 {
					return true
				}
			}
			return false
		}, 5*time.Second)
		if hbSeen {
			if d := bed.Proxy.OutageDuration(); d != 0 {
				r.Violate(mon.Violation{Signature: "C16/outage-reported-while-connected", Detail: fmt.Sprintf("OutageDuration() = %s although a control connection is established again and answering heartbeats", d), Scenario: scenario})
			}
		}
		for _, h := range bed.Cluster.Hosts {
			_ = h.Start(false)
		}
		checkPolicyLog(r, bed, base, max, scenario)
		return
	case "mute-pooled", "mute-pooled-busy", "mute-pooled-twice":
		var victim *fakecass.Conn
		for _, x := range bed.Cluster.Hosts[target-1].Conns() {
			if !x.IsRegistered() {
				victim = x
			}
		}
		if fault == "mute-pooled-busy" {
			// the connection goes silent while requests are in flight on it
			victim = nil
			var vmu sync.Mutex
			var armed int32 = 1
			bed.Cluster.SetScript(func(a *fakecass.Arrival) fakecass.Outcome {
				if a.Host == target && atomic.LoadInt32(&armed) == 1 {
					vmu.Lock()
					if victim == nil || victim == a.Conn {
						victim = a.Conn
						vmu.Unlock()
						return fakecass.Silence()
					}
					vmu.Unlock()
				}
				return fakecass.Rows()
			})
			if bcl, err := bed.ReadyClient(primitive.ProtocolVersion4, ""); err == nil {
				defer bcl.Close()
				for k := 0; k < 3*hosts*conns; k++ {
					_ = bcl.SendF(BuildRequest(primitive.ProtocolVersion4, int16(k+1), KQuery, true, NewTok(), primitive.ConsistencyLevelOne))
				}
				waitFor(func() bool { vmu.Lock(); defer vmu.Unlock(); return victim != nil }, 5*time.Second)
				time.Sleep(10 * time.Millisecond)
			}
			atomic.StoreInt32(&armed, 0)
			vmu.Lock()
			v := victim
			vmu.Unlock()
			victim = v
		}
		if victim == nil {
			r.Inconc("c16 heal: no pooled connection to mute")
			return
		}
		before := bed.Cluster.OptionsCount(victim.ID)
		victim.Mute()
		bound := int(idle/hb) + 2
		closed, steps := c16WaitClosed(bed, victim, idle)
		unanswered := bed.Cluster.OptionsCount(victim.ID) - before
		if fault == "mute-pooled-twice" && closed && unanswered <= bound {
			// the connection that replaces it goes silent too: a replacement is watched like the connection it replaces
			first := victim
			var second *fakecass.Conn
			waitFor(func() bool {
				for _, x := range bed.Cluster.Hosts[target-1].Conns() {
					if !x.IsRegistered() && x.ID > first.ID && !x.IsClosed() { // opened after the one it replaces
						second = x
						return true
					}
				}
				return false
			}, 15*time.Second)
			if second == nil {
				r.Inconc("c16 heal: no replacement connection to mute")
				return
			}
			time.Sleep(50 * time.Millisecond) // its handshake is over
			victim = second
			before = bed.Cluster.OptionsCount(victim.ID)
			victim.Mute()
			closed, steps = c16WaitClosed(bed, victim, idle)
			unanswered = bed.Cluster.OptionsCount(victim.ID) - before
			r.Obs("muted_replacement_connections", 1)
		}
		r.Obs("muted_connections", 1)
		r.ObsMax("max:unanswered_heartbeats_before_close", unanswered)
		if unanswered > bound {
			r.Violate(mon.Violation{Signature: "C16/muted-connection-not-closed", Detail: fmt.Sprintf("a connection that stopped answering received %d heartbeats (bound idle/heartbeat+2 = %d) and closed=%v", unanswered, bound, closed), Scenario: scenario})
			return
		}
		if !closed && steps >= c16ProgressSteps {
			r.Violate(mon.Violation{Signature: "C16/muted-connection-not-replaced", Detail: fmt.Sprintf("a pooled connection stopped answering (heartbeats unanswered: %d); it was still open after %d client round trips through the proxy, each followed by a pause of a quarter of the idle timeout (%s): the proxy was running for at least %d idle timeouts and did not replace it", unanswered, steps, idle, steps/4), Scenario: scenario})
			return
		}
		if !closed {
			r.Inconc("c16 heal: muted connection still open when the watchdog fired (heartbeats unanswered: " + fmt.Sprint(unanswered) + ")")
			return
		}
	case "mute-control":
		cs := bed.Cluster.ControlConns()
		if len(cs) == 0 {
			r.Inconc("c16 heal: no control connection")
			return
		}
		victim := cs[0]
		before := bed.Cluster.OptionsCount(victim.ID)
		victim.Mute()
		bound := int(idle/hb) + 2
		closed, steps := c16WaitClosed(bed, victim, idle)
		unanswered := bed.Cluster.OptionsCount(victim.ID) - before
		r.Obs("muted_connections", 1)
		if !closed && steps >= c16ProgressSteps {
			r.Violate(mon.Violation{Signature: "C16/muted-control-connection-not-replaced", Detail: fmt.Sprintf("the control connection stopped answering (heartbeats unanswered: %d); it was still open after %d client round trips through the proxy, each followed by a pause of a quarter of the idle timeout (%s)", unanswered, steps, idle), Scenario: scenario})
			return
		}
		if unanswered > bound {
			r.Violate(mon.Violation{Signature: "C16/muted-control-connection-not-closed", Detail: fmt.Sprintf("a control connection that stopped answering received %d heartbeats (bound %d), closed=%v", unanswered, bound, closed), Scenario: scenario})
			return
		}
		if !closed {
			r.Inconc("c16 heal: muted control connection still open when the watchdog fired")
			return
		}
	}
	// replacement: all pools and the control connection are back within (hosts+2) recorded reconnect attempts per policy clone
	healed := waitFor(allHealed, 15*time.Second)
	calls := bed.Policy.Calls.Snapshot()[delaysBefore:]
	perClone := map[int64]int{}
	for _, cl := range calls {
		if cl.Kind == "delay" {
			perClone[cl.ID]++
		}
	}
	worst := 0
	for _, n := range perClone {
		if n > worst {
			worst = n
		}
	}
	r.ObsMax("max:nextdelay_calls_per_clone_until_healed", worst)
	if !healed {
		if worst > 2*(hosts+2) {
			r.Violate(mon.Violation{Signature: "C16/not-healed/" + fault, Detail: fmt.Sprintf("after %s the proxy did not restore all connections within %d reconnect attempts (NextDelay calls per policy clone: %v) although every host accepts connections", fault, hosts+2, perClone), Scenario: scenario})
		} else if pcl, perr := bed.ReadyClient(primitive.ProtocolVersion4, ""); perr == nil && ProgressSteps(pcl, 100, 1) && !allHealed() {
			// the proxy is running (it has just answered 100 round trips), every host accepts connections, and 15 s - several
			// hundred times the maximum reconnect delay of this scenario - have passed: a slot that is still empty was given up
			pcl.Close()
			r.Violate(mon.Violation{Signature: "C16/not-healed/" + fault, Detail: fmt.Sprintf("after %s the proxy did not restore all connections although every host accepts connections again; it made only %d reconnect attempts (NextDelay calls per policy clone: %v) and then stopped trying, while it kept answering clients", fault, worst, perClone), Scenario: scenario})
		} else {
			r.Inconc("c16 heal: not healed when the watchdog fired after " + fault)
		}
		return
	}
	// and the proxy serves again through every host
	cl, err := bed.ReadyClient(primitive.ProtocolVersion4, "")
	if err == nil {
		reached := map[int]bool{}
		// the backend has seen the replacement connection's STARTUP; the proxy may need a moment more before it routes to
		// it: up to 10 rounds of 4 x hosts requests before a healed host counts as starved
		for round := 0; round < 10 && len(reached) < hosts; round++ {
			if round > 0 {
				time.Sleep(20 * time.Millisecond)
			}
			for k := 0; k < 4*hosts; k++ {
				f, err := cl.CallF(BuildRequest(primitive.ProtocolVersion4, int16(round*100+k+1), KQuery, true, NewTok(), primitive.ConsistencyLevelOne), 10*time.Second)
				if err == nil {
					if ri := DecodeReply("", f); ri.HasEcho {
						reached[ri.Echo.Host] = true
					}
				}
			}
		}
		cl.Close()
		if len(reached) < hosts {
			r.Violate(mon.Violation{Signature: "C16/healed-host-gets-no-traffic/" + fault, Detail: fmt.Sprintf("after healing from %s only hosts %v served requests (of %d)", fault, reached, hosts), Scenario: scenario})
		}
	}
	checkPolicyLog(r, bed, base, max, scenario)
	r.Eval(1)
	r.Obs("heal:"+fault, 1)
	r.NonTrivial(fmt.Sprintf("heal/%s/h%d/c%d", fault, hosts, conns))
}

// ---------------------------------------------------------------------------------------------------------------------
// 4. outage clock (in-process) and /readiness (through proxy.Run)

func c16Outage(c *Ctx, idx int) {
	r := c.R
	scenario := map[string]interface{}{"kind": "outage", "idx": idx}
	c.Step("c16 outage idx=%d", idx)
	hosts := 1 + idx%3
	bed, err := px.NewBed(px.BedConfig{Hosts: hosts, NumConns: 1, ReconnectBase: 2 * time.Millisecond, ReconnectMax: 10 * time.Millisecond, HeartBeat: 10 * time.Millisecond, Idle: 200 * time.Millisecond, ConnectTimeout: 100 * time.Millisecond})
	if err != nil {
		r.Inconc("c16 outage: cannot start bed: " + err.Error())
		return
	}
	defer bed.Close()
	definitelyConnected := func() bool {
		// an established control connection that answered at least one later heartbeat
		return waitFor(func() bool {
			for _, x := range bed.Cluster.EstablishedControlConns() {
				if bed.Cluster.OptionsCount(x.ID) >= 1 {
					return true
				}
			}
			return false
		}, 10*time.Second)
	}
	for round := 0; round < 3; round++ {
		if !definitelyConnected() {
			r.Inconc("c16 outage: control connection not established")
			return
		}
		if d := bed.Proxy.OutageDuration(); d != 0 {
			// the state may have changed between the two observations only through a fault, and none was injected
			r.Violate(mon.Violation{Signature: "C16/outage-reported-while-connected", Detail: fmt.Sprintf("OutageDuration() = %s while a control connection is established and answering heartbeats", d), Scenario: scenario})
			return
		}
		r.Obs("outage_zero_samples", 1)
		// everything down
		for _, h := range bed.Cluster.Hosts {
			h.Stop()
		}
		before := len(bed.Policy.Calls.Snapshot())
		// every reconnect-policy clone the proxy holds (one per pooled connection and one for the control connection) has
		// asked for a delay since: the control connection, whichever clone is its, has noticed the loss and is reconnecting
		failedReconnect := waitFor(func() bool {
			calls := bed.Policy.Calls.Snapshot()
			clones := map[int64]bool{}
			for _, cl := range calls {
				if cl.Kind == "clone" {
					clones[cl.ID] = true
				}
			}
			for _, cl := range calls[before:] {
				if cl.Kind == "delay" {
					delete(clones, cl.ID)
				}
			}
			return len(clones) == 0
		}, 10*time.Second)
		if !failedReconnect {
			r.Inconc("c16 outage: no reconnect attempt recorded while all hosts are down")
			return
		}
		d1 := bed.Proxy.OutageDuration()
		time.Sleep(2 * time.Millisecond)
		d2 := bed.Proxy.OutageDuration()
		if d1 <= 0 || d2 < d1 {
			r.Violate(mon.Violation{Signature: "C16/outage-not-reported-while-down", Detail: fmt.Sprintf("all hosts are down and reconnects failed, OutageDuration() = %s then %s", d1, d2), Scenario: scenario})
			return
		}
		r.Obs("outage_positive_samples", 1)
		for _, h := range bed.Cluster.Hosts {
			_ = h.Start(false)
		}
	}
	r.Eval(1)
	r.NonTrivial(fmt.Sprintf("outage/h%d", hosts))
}

var freePortSeq int32

// freePort returns a port on 127.0.0.1 that is probed and released before its user binds it. It lies below the kernel's
// ephemeral range (so no outgoing connection or ":0" listener of any process can take it in between) and is a function of
// (pid, sequence number), so workers of this or a concurrent run are handed other ports.
func freePort() int {
	pid := os.Getpid()
	for i := 0; i < 200; i++ {
		n := int(atomic.AddInt32(&freePortSeq, 1))
		port := 20000 + (pid*131+n*7)%12000
		l, err := net.Listen("tcp", fmt.Sprintf("127.0.0.1:%d", port))
		if err != nil {
			continue
		}
		_ = l.Close()
		return port
	}
	return 0
}

func c16Readiness(c *Ctx, idx int) {
	r := c.R
	scenario := map[string]interface{}{"kind": "readiness", "idx": idx}
	c.Step("c16 readiness idx=%d", idx)
	log := mon.NewLog(false)
	cluster, err := fakecass.New(fakecass.Config{Hosts: 2, Log: log})
	if err != nil {
		r.Inconc("c16 readiness: " + err.Error())
		return
	}
	defer cluster.Close()
	bind, hport := freePort(), freePort()
	timeout := 300 * time.Millisecond
	ctx, cancel := context.WithCancel(context.Background())
	defer cancel()
	var exit int32 = -1
	go func() {
		rc := proxy.Run(ctx, []string{"--contact-points", cluster.ContactPoint(), "--port", fmt.Sprint(cluster.Port), "--bind", fmt.Sprintf("127.0.0.1:%d", bind),
			"--health-check", "--http-bind", fmt.Sprintf("127.0.0.1:%d", hport), "--readiness-timeout", timeout.String(), "--heartbeat-interval", "50ms", "--idle-timeout", "1s", "--connect-timeout", "500ms"})
		atomic.StoreInt32(&exit, int32(rc))
	}()
	type sample struct {
		status int
		dur    time.Duration
	}
	get := func() (sample, error) {
		hc := &http.Client{Timeout: 5 * time.Second}
		resp, err := hc.Get(fmt.Sprintf("http://127.0.0.1:%d/readiness", hport))
		if err != nil {
			return sample{}, err
		}
		defer resp.Body.Close()
		b, _ := io.ReadAll(resp.Body)
		var v struct{ OutageDuration string }
		if err := json.Unmarshal(b, &v); err != nil {
			return sample{}, fmt.Errorf("bad body %q: %v", b, err)
		}
		d, err := time.ParseDuration(v.OutageDuration)
		return sample{resp.StatusCode, d}, err
	}
	check := func(s sample, where string) {
		r.Obs("readiness_samples", 1)
		// the endpoint's own consistency: 503 ⇔ the duration it reports >= readiness timeout
		if (s.status == 503) != (s.dur >= timeout) || (s.status != 200 && s.status != 503) {
			r.Violate(mon.Violation{Signature: "C16/readiness-inconsistent", Detail: fmt.Sprintf("%s: /readiness answered %d with OutageDuration %s (timeout %s)", where, s.status, s.dur, timeout), Scenario: scenario})
		}
	}
	if !waitFor(func() bool { _, err := get(); return err == nil }, 15*time.Second) {
		r.Inconc("c16 readiness: health endpoint not up")
		return
	}
	if !waitFor(func() bool { return len(cluster.EstablishedControlConns()) >= 1 }, 10*time.Second) {
		r.Inconc("c16 readiness: control connection not established")
		return
	}
	s, err := get()
	if err != nil {
		r.Inconc("c16 readiness: " + err.Error())
		return
	}
	check(s, "connected")
	if s.status != 200 || s.dur != 0 {
		r.Violate(mon.Violation{Signature: "C16/readiness-not-ready-while-connected", Detail: fmt.Sprintf("control connection established, /readiness answered %d OutageDuration %s", s.status, s.dur), Scenario: scenario})
	}
	for _, h := range cluster.Hosts {
		h.Stop()
	}
	// while no control connection exists the reported outage grows; once the REPORTED duration exceeds the timeout the
	// status must be 503 (decided on the reported value, not on a clock of ours)
	saw503 := false
	var last time.Duration
	for i := 0; i < 400 && !saw503; i++ {
		s, err := get()
		if err != nil {
			break
		}
		check(s, "down")
		if s.dur < last {
			r.Violate(mon.Violation{Signature: "C16/outage-not-monotone", Detail: fmt.Sprintf("while every host is down the reported outage went from %s to %s", last, s.dur), Scenario: scenario})
		}
		last = s.dur
		saw503 = s.status == 503
		time.Sleep(5 * time.Millisecond)
	}
	if !saw503 {
		if last == 0 {
			r.Violate(mon.Violation{Signature: "C16/readiness-no-outage-while-down", Detail: "every host is down and the control connection is closed, but /readiness keeps reporting OutageDuration 0s", Scenario: scenario})
		} else {
			r.Inconc("c16 readiness: 503 not seen before the sampling budget ended (last reported " + last.String() + ")")
		}
	} else {
		r.Obs("readiness_503_seen", 1)
	}
	for _, h := range cluster.Hosts {
		_ = h.Start(false)
	}
	// back to ready after the control connection is re-established (default reconnect policy: seconds)
	back := waitFor(func() bool {
		if len(cluster.EstablishedControlConns()) == 0 {
			return false
		}
		s, err := get()
		return err == nil && s.status == 200 && s.dur == 0
	}, 60*time.Second)
	if back {
		r.Obs("readiness_recovered", 1)
	} else {
		if len(cluster.EstablishedControlConns()) > 0 {
			s, _ := get()
			r.Violate(mon.Violation{Signature: "C16/readiness-stuck-after-recovery", Detail: fmt.Sprintf("the control connection is established again but /readiness answers %d OutageDuration %s", s.status, s.dur), Scenario: scenario})
		} else {
			r.Inconc("c16 readiness: control connection not re-established before the watchdog")
		}
	}
	cancel()
	waitFor(func() bool { return atomic.LoadInt32(&exit) >= 0 }, 5*time.Second)
	r.Eval(1)
	r.NonTrivial("readiness/run")
}

func runC16(c *Ctx) {
	r := c.R
	r.Assume("'within the refresh window' is observed as: the control connection re-queries system.peers after the topology event (refresh window shortened to 30 ms through the tag-guarded knob; thorough also runs sequences with the real 10 s default)")
	r.Assume("backoff bounds: base <= delay <= max and delay > 0; 'reset' = the first delay after Reset() is at most base + 250 ms (or the cap); durations beyond a 1 h base / 24 h max are not claimed")
	r.Assume("outage/readiness are sampled only at instants whose state the harness knows (established control connection that answered a heartbeat / all hosts down and failed reconnects recorded)")
	r.Require("backoff_configs", "topology_steps_checked", "policy_delays", "outage_positive_samples", "readiness_samples", "muted_connections")
	k := 0
	next := func() int { k++; return k }
	if c.Replay != nil {
		switch c.Replay["kind"] {
		case "topology":
			var steps []topoStep
			for _, s := range c.Replay["steps"].([]interface{}) {
				m := s.(map[string]interface{})
				steps = append(steps, topoStep{m["Op"].(string), int(m["Host"].(float64))})
			}
			c16Topology(c, 0, int(c.Replay["total"].(float64)), steps, c.Replay["failed_use"].(bool), false)
			return
		case "heal":
			c16Heal(c, int(c.Replay["idx"].(float64)), int(c.Replay["hosts"].(float64)), int(c.Replay["conns"].(float64)), c.Replay["fault"].(string))
			return
		}
	}
	c16Backoff(c)
	// topology sequences: a fixed core list first (never depends on the PRNG), then generated ones
	fixed := []struct {
		total int
		steps []topoStep
		fu    bool
	}{
		{3, []topoStep{{"remove", 2}}, true},
		{3, []topoStep{{"add", 3}, {"remove", 3}, {"add", 3}}, false},
		{2, []topoStep{{"restart", 2}, {"remove", 2}, {"add", 2}}, true},
		{4, []topoStep{{"add", 3}, {"add", 4}, {"remove", 2}}, false},
		{3, []topoStep{{"ctl-loss-in-window", 2}, {"add", 3}, {"remove", 2}}, false},
		{4, []topoStep{{"add", 3}, {"ctl-loss-in-window", 3}, {"add", 4}}, false},
		{3, []topoStep{{"add", 3}, {"remove", 3}, {"add", 3}, {"later", 0}}, false},
		{3, []topoStep{{"add", 3}, {"down-events-then-control-host-stops", 0}, {"remove", 3}}, false},
	}
	if !c.Quick() {
		for k := 0; k < 12; k++ {
			fixed = append(fixed, struct {
				total int
				steps []topoStep
				fu    bool
			}{2 + k%3, []topoStep{{"remove", 2}, {"add", 2}, {"later", 0}, {"down-events-then-control-host-stops", 0}, {"restart", 2}}[k%3 : 3+k%3], k%2 == 0})
		}
	}
	for i, f := range fixed {
		if j := next(); c.Mine(j) {
			c16Topology(c, 2000+i, f.total, f.steps, f.fu, false)
		}
	}
	nSeq := c.Pick(32, 1500)
	for i := 0; i < nSeq; i++ {
		j := next()
		if !c.Mine(j) {
			continue
		}
		rng := c.Rng(70000 + i)
		total := 2 + rng.Intn(3)
		listed := map[int]bool{1: true, 2: true}
		var steps []topoStep
		nSteps := 1 + rng.Intn(c.Pick(3, 6))
		for s := 0; s < nSteps; s++ {
			var cand []topoStep
			for h := 2; h <= total; h++ {
				if listed[h] {
					cand = append(cand, topoStep{"remove", h}, topoStep{"restart", h})
				} else {
					cand = append(cand, topoStep{"add", h}, topoStep{"add", h})
				}
			}
			st := cand[rng.Intn(len(cand))]
			if rng.Intn(6) == 0 {
				st = topoStep{"ctl-loss-in-window", 2}
			}
			if st.Op == "add" {
				listed[st.Host] = true
			} else if st.Op == "remove" {
				listed[st.Host] = false
			}
			steps = append(steps, st)
		}
		c16Topology(c, i, total, steps, i%3 == 0, false)
	}
	if !c.Quick() {
		for i := 0; i < 5; i++ {
			if j := next(); c.Mine(j) {
				c16Topology(c, 1000+i, 3, []topoStep{{"add", 3}, {"remove", 2}}, i%2 == 0, true)
			}
		}
	}
	faults := []string{"kill-pooled", "kill-host", "kill-control", "kill-all", "mute-pooled", "mute-control", "stop-all-restart-one", "mute-pooled-busy", "kill-host-slow-start", "mute-pooled-twice"}
	for i := 0; i < c.Pick(28, 1400); i++ {
		if j := next(); c.Mine(j) {
			c16Heal(c, i, 1+i%4, 1+(i/4)%2, faults[(i*7+i/9)%len(faults)])
		}
	}
	for i := 0; i < c.Pick(3, 150); i++ {
		if j := next(); c.Mine(j) {
			c16Outage(c, i)
		}
	}
	for i := 0; i < c.Pick(2, 100); i++ {
		if j := next(); c.Mine(j) {
			c16RefreshWithEvent(c, i, []string{"local-query", "peers-query"}[i%2])
		}
	}
	for i := 0; i < c.Pick(2, 60); i++ {
		if j := next(); c.Mine(j) {
			c16NodeJoinsDuringRefresh(c, i)
		}
	}
	for i := 0; i < c.Pick(4, 80); i++ {
		if j := next(); c.Mine(j) {
			c16NodeJoinsDuringFailover(c, i)
		}
	}
	for i := 0; i < c.Pick(3, 60); i++ {
		if j := next(); c.Mine(j) {
			c16OutageAfterFailedRefresh(c, i)
		}
	}
	for i := 0; i < c.Pick(6, 120); i++ {
		if j := next(); c.Mine(j) {
			c16OutageHalfReadyNodes(c, i)
		}
	}
	for i := 0; i < c.Pick(1, 30); i++ {
		if j := next(); c.Mine(j) {
			c16Readiness(c, i)
		}
	}
	var _ = rawcql.Plain
}

// c16RefreshWithEvent: a schema-change event reaches the control connection while the proxy is running the refresh
// queries that a topology change triggered. The refresh must still complete on that connection (system.peers re-queried,
// the new node connected) instead of the control connection being given up.
// c16NodeJoinsDuringRefresh: a node joins while a refresh is under way - its NEW_NODE event is written on the control
// connection after the control node has read its peers table for the refresh query but before that answer is sent, so the
// answer does not list the node yet. The event must not be lost: the node gets its pooled connections after the next window.
func c16NodeJoinsDuringRefresh(c *Ctx, idx int) {
	r := c.R
	scenario := map[string]interface{}{"kind": "node-joins-during-refresh", "idx": idx}
	c.Step("c16 node-joins-during-refresh idx=%d", idx)
	bed, err := px.NewBed(px.BedConfig{Hosts: 4, NumConns: 1, Keyspaces: []string{"ks1"}, Unlisted: []int{3, 4}, RefreshWindow: 20 * time.Millisecond,
		ReconnectBase: time.Millisecond, ReconnectMax: 3 * time.Millisecond, ConnectTimeout: 3 * time.Second})
	if err != nil {
		r.Inconc("c16: cannot start bed: " + err.Error())
		return
	}
	defer bed.Close()
	if !waitFor(func() bool { return len(bed.Cluster.EstablishedControlConns()) == 1 }, 10*time.Second) {
		r.Inconc("c16 node-joins-during-refresh: no established control connection")
		return
	}
	ctl := bed.Cluster.EstablishedControlConns()[0]
	inet := func(h int) *primitive.Inet {
		return &primitive.Inet{Addr: net.ParseIP(bed.Cluster.HostIP(h)), Port: int32(bed.Cluster.Port)}
	}
	var fired int32
	bed.Cluster.SystemOverride = func(x *fakecass.Conn, table string) message.Message {
		if x.ID == ctl.ID && table == "peers" && atomic.CompareAndSwapInt32(&fired, 0, 1) {
			// the peers table has been "read" (host 4 is not listed when the default answer is built right after this call);
			// the event goes out in front of the answer, the node becomes visible a moment later
			bed.Cluster.Emit(&message.TopologyChangeEvent{ChangeType: primitive.TopologyChangeTypeNewNode, Address: inet(4)})
			go func() { time.Sleep(5 * time.Millisecond); bed.Cluster.SetListed(4, true) }()
		}
		return nil
	}
	// the refresh that the race happens in is started by host 3 joining in the ordinary way
	bed.Cluster.SetListed(3, true)
	bed.Cluster.Emit(&message.TopologyChangeEvent{ChangeType: primitive.TopologyChangeTypeNewNode, Address: inet(3)})
	pooled := func(h int) bool {
		for _, x := range bed.Cluster.Hosts[h-1].Conns() {
			if !x.IsRegistered() && x.Ver() != 0 && !x.IsClosed() {
				return true
			}
		}
		return false
	}
	r.Eval(1)
	r.Obs("node_joins_during_refresh_cases", 1)
	if !waitFor(func() bool { return atomic.LoadInt32(&fired) == 1 && pooled(3) }, 20*time.Second) {
		r.Inconc("c16 node-joins-during-refresh: the first refresh was not observed")
		return
	}
	r.NonTrivial("node-joins-during-refresh")
	// premise of the verdict: the control connection is up and answers (a later refresh would be possible)
	ok := waitFor(func() bool { return pooled(4) }, 15*time.Second)
	if !ok {
		cl, cerr := bed.ReadyClient(primitive.ProtocolVersion4, "")
		served := cerr == nil && ProgressSteps(cl, 50, 900)
		if cl != nil {
			cl.Close()
		}
		if !served || len(bed.Cluster.EstablishedControlConns()) == 0 {
			r.Inconc("c16 node-joins-during-refresh: the proxy is not serving / has no control connection")
			return
		}
		r.Violate(mon.Violation{Signature: "C16/added-host-never-connected/node-joined-during-a-refresh", Detail: "host 4's NEW_NODE event reached the proxy while a refresh (started for host 3) was waiting for its system.peers answer, which did not list host 4 yet; 15 s later (refresh window 20 ms) the proxy has no pooled connection to host 4 although the peers table lists it and the control connection is up: the event was lost", Scenario: scenario})
	}
}

// c16NodeJoinsDuringFailover: the control connection is lost; the new control connection has registered for events and read
// the system tables when a node joins - its NEW_NODE event arrives right behind the system.peers answer, possibly before the
// proxy has finished the fail-over. The event must not be lost: the node gets its pooled connections.
func c16NodeJoinsDuringFailover(c *Ctx, idx int) {
	r := c.R
	scenario := map[string]interface{}{"kind": "node-joins-during-failover", "idx": idx}
	c.Step("c16 node-joins-during-failover idx=%d", idx)
	bed, err := px.NewBed(px.BedConfig{Hosts: 4, NumConns: 1, Keyspaces: []string{"ks1"}, Unlisted: []int{4}, RefreshWindow: 20 * time.Millisecond,
		ReconnectBase: time.Millisecond, ReconnectMax: 3 * time.Millisecond, ConnectTimeout: 3 * time.Second})
	if err != nil {
		r.Inconc("c16: cannot start bed: " + err.Error())
		return
	}
	defer bed.Close()
	if !waitFor(func() bool { return len(bed.Cluster.EstablishedControlConns()) == 1 }, 10*time.Second) {
		r.Inconc("c16 node-joins-during-failover: no established control connection")
		return
	}
	old := bed.Cluster.EstablishedControlConns()[0]
	var fired int32
	delay := time.Duration(idx%4) * 500 * time.Microsecond
	bed.Cluster.SystemOverride = func(x *fakecass.Conn, table string) message.Message {
		if x.ID != old.ID && x.IsRegistered() && table == "peers" && atomic.CompareAndSwapInt32(&fired, 0, 1) {
			go func() {
				time.Sleep(delay) // the answer (without host 4) goes out first
				bed.Cluster.SetListed(4, true)
				bed.Cluster.Emit(&message.TopologyChangeEvent{ChangeType: primitive.TopologyChangeTypeNewNode, Address: &primitive.Inet{Addr: net.ParseIP(bed.Cluster.HostIP(4)), Port: int32(bed.Cluster.Port)}})
			}()
		}
		return nil
	}
	old.Host.Stop()
	defer func() { _ = old.Host.Start(false) }()
	pooled := func(h int) bool {
		for _, x := range bed.Cluster.Hosts[h-1].Conns() {
			if !x.IsRegistered() && x.Ver() != 0 && !x.IsClosed() {
				return true
			}
		}
		return false
	}
	r.Eval(1)
	r.Obs("node_joins_during_failover_cases", 1)
	if !waitFor(func() bool { return atomic.LoadInt32(&fired) == 1 && len(bed.Cluster.EstablishedControlConns()) >= 1 }, 20*time.Second) {
		r.Inconc("c16 node-joins-during-failover: the fail-over was not observed")
		return
	}
	r.NonTrivial("node-joins-during-failover")
	if !waitFor(func() bool { return pooled(4) }, 15*time.Second) {
		cl, cerr := bed.ReadyClient(primitive.ProtocolVersion4, "")
		served := cerr == nil && ProgressSteps(cl, 50, 900)
		if cl != nil {
			cl.Close()
		}
		if !served || len(bed.Cluster.EstablishedControlConns()) == 0 {
			r.Inconc("c16 node-joins-during-failover: the proxy is not serving / has no control connection")
			return
		}
		r.Violate(mon.Violation{Signature: "C16/added-host-never-connected/node-joined-during-a-control-failover", Detail: fmt.Sprintf("the control node stopped; host 4 joined %s after the new control connection's system.peers query had been answered (the new connection had registered for events before); 15 s later the proxy has no pooled connection to host 4 although the peers table lists it and a control connection is up: the NEW_NODE event was lost", delay), Scenario: scenario})
	}
}

// c16OutageAfterFailedRefresh: the control connection is not lost by the network but given up by the proxy - a refresh query on
// it is answered with an error - while no node accepts new connections. From then on there is no control connection, and
// that has to show as a non-zero, growing outage.
func c16OutageAfterFailedRefresh(c *Ctx, idx int) {
	r := c.R
	scenario := map[string]interface{}{"kind": "outage-after-failed-refresh", "idx": idx}
	c.Step("c16 outage-after-failed-refresh idx=%d", idx)
	hosts := 1 + idx%3
	bed, err := px.NewBed(px.BedConfig{Hosts: hosts, NumConns: 1, ReconnectBase: 2 * time.Millisecond, ReconnectMax: 10 * time.Millisecond, RefreshWindow: 20 * time.Millisecond, ConnectTimeout: 200 * time.Millisecond})
	if err != nil {
		r.Inconc("c16 outage-after-failed-refresh: cannot start bed: " + err.Error())
		return
	}
	defer bed.Close()
	if !waitFor(func() bool { return len(bed.Cluster.EstablishedControlConns()) == 1 }, 10*time.Second) {
		r.Inconc("c16 outage-after-failed-refresh: no established control connection")
		return
	}
	ctl := bed.Cluster.EstablishedControlConns()[0]
	if d := bed.Proxy.OutageDuration(); d != 0 {
		r.Violate(mon.Violation{Signature: "C16/outage-reported-while-connected", Detail: fmt.Sprintf("OutageDuration() = %s while a control connection is established", d), Scenario: scenario})
		return
	}
	for _, h := range bed.Cluster.Hosts {
		h.StopListener() // established connections stay, nobody gets a new one
	}
	defer func() {
		for _, h := range bed.Cluster.Hosts {
			_ = h.Start(false)
		}
	}()
	var failed int32
	bed.Cluster.SystemOverride = func(x *fakecass.Conn, table string) message.Message {
		if x.ID == ctl.ID {
			atomic.AddInt32(&failed, 1)
			return &message.Overloaded{ErrorMessage: "system query refused"}
		}
		return nil
	}
	before := len(bed.Policy.Calls.Snapshot())
	bed.Cluster.Emit(&message.StatusChangeEvent{ChangeType: primitive.StatusChangeTypeUp, Address: &primitive.Inet{Addr: net.ParseIP(bed.Cluster.HostIP(1)), Port: int32(bed.Cluster.Port)}})
	// the proxy gave the connection up (it closes it) and its reconnect attempts fail: delays are being asked for
	gaveUp := waitFor(func() bool {
		if atomic.LoadInt32(&failed) == 0 || !ctl.IsClosed() {
			return false
		}
		n := 0
		for _, cl := range bed.Policy.Calls.Snapshot()[before:] {
			if cl.Kind == "delay" {
				n++
			}
		}
		return n >= 3
	}, 10*time.Second)
	r.Eval(1)
	r.Obs("outage_after_failed_refresh_cases", 1)
	if !gaveUp {
		r.Obs("outage_after_failed_refresh_not_given_up", 1) // the proxy kept the connection: nothing to judge
		return
	}
	r.NonTrivial(fmt.Sprintf("outage-after-failed-refresh/h%d", hosts))
	time.Sleep(20 * time.Millisecond)
	d1 := bed.Proxy.OutageDuration()
	time.Sleep(5 * time.Millisecond)
	d2 := bed.Proxy.OutageDuration()
	if len(bed.Cluster.EstablishedControlConns()) > 0 {
		return // it found a way back in after all
	}
	if d1 <= 0 || d2 < d1 {
		r.Violate(mon.Violation{Signature: "C16/outage-not-reported-while-down/after-failed-refresh", Detail: fmt.Sprintf("a refresh query on the control connection was answered with an error, the proxy closed that connection, no node accepts new connections and at least three reconnect delays have been asked for: OutageDuration() = %s then %s", d1, d2), Scenario: scenario})
		return
	}
	r.Obs("outage_positive_samples", 1)
}

// c16OutageHalfReadyNodes: the control connection is lost and every node the proxy turns to accepts the connection and the
// handshake (it even registers for events) but answers the system-table queries behind them with an error - a node that
// is restarting. No control connection exists during all of that: the reported outage has to be non-zero and to grow by
// at least the time that passes between two readings, over several reconnect attempts.
func c16OutageHalfReadyNodes(c *Ctx, idx int) {
	r := c.R
	scenario := map[string]interface{}{"kind": "outage-half-ready-nodes", "idx": idx}
	c.Step("c16 outage-half-ready-nodes idx=%d", idx)
	hosts := 1 + idx%3
	refusedTable := []string{"peers", "local"}[(idx/3)%2]
	bed, err := px.NewBed(px.BedConfig{Hosts: hosts, NumConns: 1, ReconnectBase: 2 * time.Millisecond, ReconnectMax: 10 * time.Millisecond, RefreshWindow: 20 * time.Millisecond, ConnectTimeout: 2 * time.Second})
	if err != nil {
		r.Inconc("c16 outage-half-ready-nodes: cannot start bed: " + err.Error())
		return
	}
	defer bed.Close()
	if !waitFor(func() bool { return len(bed.Cluster.EstablishedControlConns()) == 1 }, 10*time.Second) {
		r.Inconc("c16 outage-half-ready-nodes: no established control connection")
		return
	}
	ctl := bed.Cluster.EstablishedControlConns()[0]
	var refused int32
	bed.Cluster.SystemOverride = func(x *fakecass.Conn, table string) message.Message {
		if x.ID != ctl.ID && table == refusedTable {
			atomic.AddInt32(&refused, 1)
			return &message.ServerError{ErrorMessage: "node is starting up"}
		}
		return nil
	}
	defer func() { bed.Cluster.SystemOverride = nil }()
	ctl.Kill(false)
	r.Eval(1)
	r.Obs("outage_half_ready_nodes_cases", 1)
	if !waitFor(func() bool { return atomic.LoadInt32(&refused) >= 3 }, 10*time.Second) {
		r.Obs("outage_half_ready_nodes_not_reached", 1) // fewer than three half-finished reconnects: nothing to judge
		return
	}
	r.NonTrivial(fmt.Sprintf("outage-half-ready-nodes/h%d/%s", hosts, refusedTable))
	type reading struct {
		before, after time.Time
		d             time.Duration
		refused       int32
	}
	var rd []reading
	for k := 0; k < 12; k++ {
		n := atomic.LoadInt32(&refused)
		x := reading{before: time.Now(), refused: n}
		x.d = bed.Proxy.OutageDuration()
		x.after = time.Now()
		rd = append(rd, x)
		waitFor(func() bool { return atomic.LoadInt32(&refused) > n }, time.Second) // the next reading lies behind another attempt
	}
	if len(bed.Cluster.EstablishedControlConns()) > 0 {
		return
	}
	r.Obs("outage_half_ready_readings", len(rd))
	for k, x := range rd {
		if x.d <= 0 {
			r.Violate(mon.Violation{Signature: "C16/outage-not-reported-while-down/half-ready-nodes", Detail: fmt.Sprintf("the control connection was lost and %d reconnects got through the handshake only to have system.%s refused: no control connection exists, OutageDuration() = %s", x.refused, refusedTable, x.d), Scenario: scenario})
			return
		}
		// the clock inside OutageDuration() was read between `before` and `after` (monotonic readings of one process)
		if k > 0 && x.d-rd[k-1].d < x.before.Sub(rd[k-1].after) {
			r.Violate(mon.Violation{Signature: "C16/outage-restarts-while-down/half-ready-nodes", Detail: fmt.Sprintf("no control connection exists between two readings taken at least %s apart (%d and %d reconnects had system.%s refused by then), yet the reported outage went from %s to %s: the outage clock was restarted although the outage never ended", x.before.Sub(rd[k-1].after), rd[k-1].refused, x.refused, refusedTable, rd[k-1].d, x.d), Scenario: scenario})
			return
		}
	}
	r.Obs("outage_positive_samples", 1)
}

func c16RefreshWithEvent(c *Ctx, idx int, during string) {
	r := c.R
	scenario := map[string]interface{}{"kind": "refresh-with-event", "idx": idx, "during": during}
	c.Step("c16 refresh-with-event idx=%d during=%s", idx, during)
	bed, err := px.NewBed(px.BedConfig{Hosts: 3, NumConns: 1, Keyspaces: []string{"ks1"}, Unlisted: []int{3}, RefreshWindow: 20 * time.Millisecond,
		ReconnectBase: time.Millisecond, ReconnectMax: 3 * time.Millisecond, ConnectTimeout: 3 * time.Second})
	if err != nil {
		r.Inconc("c16: cannot start bed: " + err.Error())
		return
	}
	defer bed.Close()
	if !waitFor(func() bool { return len(bed.Cluster.EstablishedControlConns()) == 1 }, 10*time.Second) {
		r.Inconc("c16 refresh-with-event: no established control connection")
		return
	}
	ctl := bed.Cluster.EstablishedControlConns()[0]
	var fired int32
	bed.Cluster.Intercept = func(x *fakecass.Conn, hdr *frame.Header, raw []byte) bool {
		if x.ID != ctl.ID || hdr.OpCode != primitive.OpCodeQuery {
			return false
		}
		q := strings.ToLower(string(raw))
		want := "system.local"
		if during == "peers-query" {
			want = "system.peers"
		}
		if strings.Contains(q, want) && atomic.CompareAndSwapInt32(&fired, 0, 1) {
			// the event is written on the control connection BEFORE the answer to the refresh query
			bed.Cluster.Emit(&message.SchemaChangeEvent{ChangeType: primitive.SchemaChangeTypeCreated, Target: primitive.SchemaChangeTargetKeyspace, Keyspace: "ks_during_refresh"})
		}
		return false
	}
	peersBefore := ctl.PeersAnswered()
	bed.Cluster.SetListed(3, true)
	ip := net.ParseIP(bed.Cluster.HostIP(3))
	bed.Cluster.Emit(&message.TopologyChangeEvent{ChangeType: primitive.TopologyChangeTypeNewNode, Address: &primitive.Inet{Addr: ip, Port: int32(bed.Cluster.Port)}})
	// logical outcome: either the same control connection answers system.peers again (refresh completed) or it is closed
	done := waitFor(func() bool { return ctl.PeersAnswered() > peersBefore || ctl.IsClosed() }, 20*time.Second)
	r.Eval(1)
	r.Obs("refresh_with_event_cases", 1)
	r.NonTrivial("refresh-with-event/" + during)
	if atomic.LoadInt32(&fired) == 0 {
		r.Inconc("c16 refresh-with-event: the refresh query was never observed")
		return
	}
	if !done {
		r.Inconc("c16 refresh-with-event: neither refresh completion nor connection close observed before the watchdog")
		return
	}
	if ctl.IsClosed() && ctl.PeersAnswered() == peersBefore {
		r.Violate(mon.Violation{Signature: "C16/refresh-aborted/schema-event-during-" + during, Detail: fmt.Sprintf("a schema-change event arrived on the control connection while the proxy was running the %s of the topology refresh; the refresh never completed on that connection (the backend answered every query) and the proxy closed the control connection instead: the new node is only picked up after the refresh timeout plus a control-connection fail-over", during), Scenario: scenario})
		return
	}
	// the added host gets its pool
	ok := waitFor(func() bool {
		for _, x := range bed.Cluster.Hosts[2].Conns() {
			if !x.IsRegistered() && x.Ver() != 0 {
				return true
			}
		}
		return false
	}, 10*time.Second)
	if !ok {
		r.Violate(mon.Violation{Signature: "C16/added-host-never-connected/refresh-with-event", Detail: "the refresh completed but the added host never received a pooled connection", Scenario: scenario})
	}
}
