//go:build verif

package scen

import (
	"bytes"
	"context"
	"encoding/binary"
	"encoding/hex"
	"fmt"
	"os"
	"path/filepath"
	"strings"
	"sync"
	"sync/atomic"
	"time"

	"github.com/datastax/cql-proxy/proxy"
	"github.com/datastax/go-cassandra-native-protocol/datatype"
	"github.com/datastax/go-cassandra-native-protocol/frame"
	"github.com/datastax/go-cassandra-native-protocol/message"
	"github.com/datastax/go-cassandra-native-protocol/primitive"

	"verif/fakecass"
	"verif/gen"
	"verif/mon"
	"verif/rawcql"
)

func init() {
	Register(&Runner{Prop: "C12", Level: "exploration",
		Rule:    "the proxy started through proxy.Run with a generated (unsupported-consistency set, override) given as flags or YAML; requests from the protocol generator (QUERY select / non-select, EXECUTE of ids prepared through the proxy from select / non-select text, BATCH, PREPARE; all option flags, tracing, custom payload) on v3/v4/v5/DSEv1/DSEv2 clients with none/lz4/snappy; oracle: the uncompressed body the backend received equals the body the client sent with exactly the two consistency bytes replaced by the override iff (non-SELECT QUERY, EXECUTE of a non-SELECT id, or BATCH) and the consistency is in the set, byte-identical otherwise; header version/flags/opcode unchanged; a sentinel request behind it is answered (framing stays in sync); distinct = (set, override, version, compression, opcode, flags, header decorations); non-trivial = consistency in the set or header decorations present",
		Shards:  shards(4, 16),
		Timeout: timeouts(10*time.Minute, 60*time.Minute),
		Run:     runC12})
}

var clNames = map[primitive.ConsistencyLevel]string{
	primitive.ConsistencyLevelAny: "ANY", primitive.ConsistencyLevelOne: "ONE", primitive.ConsistencyLevelTwo: "TWO", primitive.ConsistencyLevelThree: "THREE",
	primitive.ConsistencyLevelQuorum: "QUORUM", primitive.ConsistencyLevelAll: "ALL", primitive.ConsistencyLevelLocalQuorum: "LOCAL_QUORUM",
	primitive.ConsistencyLevelEachQuorum: "EACH_QUORUM", primitive.ConsistencyLevelSerial: "SERIAL", primitive.ConsistencyLevelLocalSerial: "LOCAL_SERIAL",
	primitive.ConsistencyLevelLocalOne: "LOCAL_ONE"}

type runProxy struct {
	cluster *fakecass.Cluster
	log     *mon.Log
	addr    string
	cancel  context.CancelFunc
	exit    int32
}

// startRunProxy starts the proxy through proxy.Run (the only way to configure the write-consistency override).
func startRunProxy(dir string, extra []string, yaml string) (*runProxy, error) {
	log := mon.NewLog(true)
	cluster, err := fakecass.New(fakecass.Config{Hosts: 2, Keyspaces: []string{"ks1"}, Log: log})
	if err != nil {
		return nil, err
	}
	// an address no other process of this or a concurrent run is handed (IP and port are functions of pid and a sequence
	// number): probed on 127.0.0.1, a port could be taken by someone else between the probe and the proxy's bind, and the
	// readiness probe below would then talk to that someone
	addr, aerr := c20FreeAddr()
	if aerr != nil {
		cluster.Close()
		return nil, aerr
	}
	rp := &runProxy{cluster: cluster, log: log, addr: addr, exit: -1}
	args := []string{"--contact-points", cluster.ContactPoint(), "--port", fmt.Sprint(cluster.Port), "--bind", rp.addr, "--max-protocol-version", "DSEv2",
		"--heartbeat-interval", "30s", "--idle-timeout", "60s"}
	args = append(args, extra...)
	if yaml != "" {
		_ = os.MkdirAll(dir, 0o755)
		f, err := os.CreateTemp(dir, "c12-*.yaml")
		if err != nil {
			cluster.Close()
			return nil, err
		}
		_, _ = f.WriteString(yaml)
		_ = f.Close()
		defer os.Remove(f.Name())
		args = append(args, "--config", f.Name())
	}
	ctx, cancel := context.WithCancel(context.Background())
	rp.cancel = cancel
	go func() { atomic.StoreInt32(&rp.exit, int32(proxy.Run(ctx, args))) }()
	ok := waitFor(func() bool {
		if atomic.LoadInt32(&rp.exit) >= 0 {
			return true
		}
		cl, err := rawcql.Dial(rp.addr, primitive.ProtocolVersion4, nil)
		if err != nil {
			return false
		}
		defer cl.Close()
		return cl.Options(1, 2*time.Second) == nil
	}, 20*time.Second)
	if ok {
		time.Sleep(30 * time.Millisecond) // a proxy that could not bind its address has exited by now
	}
	if !ok || atomic.LoadInt32(&rp.exit) >= 0 {
		rp.close()
		return nil, fmt.Errorf("proxy.Run did not reach the running state (exit %d) with args %v", atomic.LoadInt32(&rp.exit), args)
	}
	return rp, nil
}

func (rp *runProxy) close() {
	rp.cancel()
	rp.cluster.Close()
}

func c12Config(c *Ctx, idx int) {
	r := c.R
	rng := c.Rng(idx)
	levels := gen.Consistencies
	// the unsupported set and the override
	var set []primitive.ConsistencyLevel
	switch idx % 6 {
	case 0: // no list configured: nothing is ever modified
	case 1:
		set = append(set, levels...)
	default:
		for _, l := range levels {
			if rng.Intn(3) == 0 {
				set = append(set, l)
			}
		}
		if len(set) == 0 {
			set = []primitive.ConsistencyLevel{levels[rng.Intn(len(levels))]}
		}
	}
	override := levels[rng.Intn(len(levels))]
	inSet := map[primitive.ConsistencyLevel]bool{}
	var names []string
	for _, l := range set {
		inSet[l] = true
		n := clNames[l]
		if rng.Intn(2) == 0 {
			n = strings.ToLower(n)
		}
		names = append(names, n)
	}
	var extra []string
	yaml := ""
	useYaml := idx%4 == 3 && len(set) > 0
	if len(set) > 0 {
		if useYaml {
			yaml = "unsupported-write-consistencies: [" + strings.Join(names, ", ") + "]\nunsupported-write-consistency-override: " + clNames[override] + "\n"
		} else {
			extra = []string{"--unsupported-write-consistencies", strings.Join(names, ","), "--unsupported-write-consistency-override", clNames[override]}
		}
	}
	cfgKey := fmt.Sprintf("set=%s/override=%s/yaml=%v", strings.ToUpper(strings.Join(names, "+")), clNames[override], useYaml)
	c.Step("c12 config %d %s", idx, cfgKey)
	rp, err := startRunProxy(filepath.Join(c.Dir, "out", "tmp"), extra, yaml)
	if err != nil {
		r.Inconc("c12: " + err.Error())
		return
	}
	defer rp.close()
	for _, h := range rp.cluster.Hosts {
		for i := range c03KnownStatements {
			h.Learn(hex.EncodeToString(c03KnownID(i)), c03KnownStatements[i])
		}
	}
	// prepare the known statements THROUGH the proxy so it knows which ids are SELECTs
	pcl, err := rawcql.Dial(rp.addr, primitive.ProtocolVersion4, rp.log)
	if err != nil || pcl.Handshake("", 10*time.Second) != nil {
		r.Inconc("c12: cannot connect")
		return
	}
	for i, q := range c03KnownStatements {
		f, err := pcl.Call(int16(100+i), &message.Prepare{Query: q}, 10*time.Second)
		if err != nil || f.OpCode != primitive.OpCodeResult {
			r.Inconc("c12: PREPARE through the proxy failed")
			return
		}
	}
	pcl.Close()
	isSelectID := func(id []byte) bool { return bytes.Equal(id, c03KnownID(1)) }

	versions := []primitive.ProtocolVersion{3, 4, 5, 0x41, 0x42}
	comps := []string{"", "lz4", "snappy"}
	ops := []primitive.OpCode{primitive.OpCodeQuery, primitive.OpCodeExecute, primitive.OpCodeBatch, primitive.OpCodeQuery, primitive.OpCodeExecute, primitive.OpCodePrepare}
	clients := map[string]*rawcql.Client{}
	defer func() {
		for _, cl := range clients {
			cl.Close()
		}
	}()
	var smu sync.Mutex
	_ = smu
	stream := int16(0)
	nReq := 150
	for k := 0; k < nReq; k++ {
		v := versions[(k+idx)%len(versions)]
		comp := comps[(k/len(versions)+idx)%len(comps)]
		if v == primitive.ProtocolVersion5 && comp == "snappy" {
			comp = ""
		}
		ck := fmt.Sprintf("%d/%s", v, comp)
		cl := clients[ck]
		if cl == nil || cl.IsClosed() {
			cl, err = rawcql.Dial(rp.addr, v, rp.log)
			if err != nil || cl.Handshake(comp, 10*time.Second) != nil {
				r.Inconc("c12: cannot connect a client")
				continue
			}
			clients[ck] = cl
		}
		op := ops[k%len(ops)]
		tok := NewTok()
		spec := gen.RandomSpec(rng, v, op, 2048, tok)
		stream = (stream + 2) % 30000
		spec.Stream = stream
		if k%3 == 0 && len(set) > 0 { // make sure consistencies inside the set are well represented
			spec.Consistency = set[rng.Intn(len(set))]
		}
		if op == primitive.OpCodeExecute {
			spec.QueryId = c03KnownID(rng.Intn(4))
		}
		for ci := range spec.Children {
			if spec.Children[ci].Prepared {
				spec.Children[ci].Id = c03KnownID(rng.Intn(4))
			}
		}
		f, desc := gen.Build(spec)
		lay := gen.LayoutOf(f)
		compName := comp
		if compName == "" {
			compName = "plain"
		}
		mark := rp.log.Len()
		reply, cerr := cl.CallF(f, 30*time.Second)
		// sentinel right behind it on the same client connection: framing towards the backend must still be in sync
		stok := NewTok()
		sreply, serr := cl.CallF(BuildRequest(v, stream+1, KQuery, true, stok, primitive.ConsistencyLevelOne), 30*time.Second)
		evs := rp.log.Snapshot()[mark:]
		r.Eval(1)
		var sent *mon.Event
		var arrivals []mon.Event
		for i := range evs {
			e := evs[i]
			if e.Src == "client" && e.K == "send" && e.Cl == cl.ID && int16(e.St) == stream {
				sent = &evs[i]
			}
			if e.Src == "backend" && e.K == "recv" && e.Tok == tok && e.Arrival > 0 {
				arrivals = append(arrivals, e)
			}
		}
		rewrite := false
		switch op {
		case primitive.OpCodeQuery:
			rewrite = !spec.Select && inSet[spec.Consistency]
		case primitive.OpCodeExecute:
			rewrite = !isSelectID(spec.QueryId) && inSet[spec.Consistency]
		case primitive.OpCodeBatch:
			rewrite = inSet[spec.Consistency]
		}
		class := fmt.Sprintf("%s/%s/%s/rewrite=%v", desc.Version, desc.OpCode, compName, rewrite)
		sc := map[string]interface{}{"kind": "c12", "idx": idx, "config": cfgKey, "request": k, "cell": desc.Key(), "consistency": clNames[spec.Consistency]}
		if sent == nil {
			r.Inconc("c12: send event not found")
			continue
		}
		if (cerr != nil || reply == nil || len(arrivals) == 0) && atomic.LoadInt32(&rp.exit) >= 0 {
			// proxy.Run has returned (it could not bind its address, or was shut down): whoever answered, it was not the
			// proxy under test
			r.Inconc(fmt.Sprintf("c12 config %d: proxy.Run returned %d while the configuration was in use", idx, atomic.LoadInt32(&rp.exit)))
			return
		}
		if cerr != nil || reply == nil || len(arrivals) == 0 {
			r.Violate(mon.Violation{Signature: fmt.Sprintf("C12/request-not-served/%s/header=%s", class, desc.Header), Detail: fmt.Sprintf("config %s: %s %s request with consistency %s (header decorations %s, flags %s) reached %d backends, reply error: %v", cfgKey, desc.Version, desc.OpCode, clNames[spec.Consistency], desc.Header, desc.Flags, len(arrivals), cerr), Scenario: sc})
			cl.Close()
			delete(clients, ck)
			rp.cluster.KillPooled(false, 1, 2) // a backend connection that is out of sync must not spoil the following requests
			time.Sleep(300 * time.Millisecond)
			continue
		}
		plainSent := sent.Body
		if primitive.HeaderFlag(sent.Fl).Contains(primitive.HeaderFlagCompressed) {
			plainSent, _ = fakecass.Decompress(comp, sent.Body)
		}
		// where the consistency sits in the uncompressed body
		coff := -1
		for _, fl := range lay.Fields {
			if fl.Kind == gen.FConsistency {
				coff = fl.Off
			}
		}
		if op != primitive.OpCodePrepare && (coff < 0 || coff+2 > len(plainSent) || binary.BigEndian.Uint16(plainSent[coff:]) != uint16(spec.Consistency)) {
			r.Inconc(fmt.Sprintf("c12: harness cannot locate the consistency field (offset %d) in a %s body", coff, desc.OpCode))
			continue
		}
		for _, a := range arrivals {
			plainGot := a.Body
			if primitive.HeaderFlag(a.Fl).Contains(primitive.HeaderFlagCompressed) {
				var derr error
				plainGot, derr = fakecass.Decompress(a.Comp, a.Body)
				if derr != nil {
					r.Violate(mon.Violation{Signature: "C12/backend-cannot-decompress/" + class, Detail: fmt.Sprintf("config %s: the backend cannot decompress the forwarded frame: %v", cfgKey, derr), Scenario: sc})
					continue
				}
			}
			want := plainSent
			if rewrite {
				want = append([]byte{}, plainSent...)
				binary.BigEndian.PutUint16(want[coff:], uint16(override))
			}
			r.Obs("frames_compared", 1)
			hdrDiff := ""
			switch {
			case a.Ver != sent.Ver:
				hdrDiff = "version"
			case a.Op != sent.Op:
				hdrDiff = "opcode"
			case (a.Fl &^ 0x01) != (sent.Fl &^ 0x01): // the compressed bit may legitimately differ after re-encoding
				hdrDiff = fmt.Sprintf("flags %#x->%#x", sent.Fl, a.Fl)
			}
			if hdrDiff != "" {
				r.Violate(mon.Violation{Signature: fmt.Sprintf("C12/header-changed/%s/%s", class, strings.SplitN(hdrDiff, " ", 2)[0]), Detail: fmt.Sprintf("config %s: header %s differs between what the client sent and what the backend received", cfgKey, hdrDiff), Scenario: sc})
			}
			if lay.PayloadLen > 0 && len(spec.Payload) > 1 && len(plainGot) >= lay.PayloadLen && len(want) >= lay.PayloadLen {
				// a custom payload with several entries is a map: the order of its entries carries no meaning
				pg, e1 := primitive.ReadBytesMap(bytes.NewReader(plainGot[:lay.PayloadLen]))
				pw, e2 := primitive.ReadBytesMap(bytes.NewReader(want[:lay.PayloadLen]))
				samePayload := e1 == nil && e2 == nil && len(pg) == len(pw)
				for k2, v2 := range pw {
					samePayload = samePayload && bytes.Equal(pg[k2], v2)
				}
				if samePayload {
					plainGot = append(append([]byte{}, want[:lay.PayloadLen]...), plainGot[lay.PayloadLen:]...)
					r.Obs("payload_maps_compared_as_maps", 1)
				}
			}
			if !bytes.Equal(plainGot, want) {
				what := "body-differs"
				gotCons := -1
				if coff >= 0 && coff+2 <= len(plainGot) {
					gotCons = int(binary.BigEndian.Uint16(plainGot[coff:]))
				}
				switch {
				case !rewrite && bytes.Equal(withCons(plainGot, coff, uint16(spec.Consistency)), plainSent):
					what = "consistency-rewritten-but-should-not"
				case rewrite && bytes.Equal(plainGot, plainSent):
					what = "consistency-not-rewritten"
				case rewrite && gotCons >= 0 && gotCons != int(override) && bytes.Equal(withCons(plainGot, coff, uint16(spec.Consistency)), plainSent):
					what = "rewritten-to-wrong-level"
				case len(plainGot) != len(want):
					what = fmt.Sprintf("body-length-%+d", len(plainGot)-len(want))
				}
				r.Violate(mon.Violation{Signature: fmt.Sprintf("C12/%s/%s/header=%s", what, class, desc.Header), Detail: fmt.Sprintf("config %s: %s %s request, consistency %s (in set: %v), select=%v: backend received a body of %d bytes, expected %d bytes identical to the client's%s; first difference at %d; flags %s", cfgKey, desc.Version, desc.OpCode, clNames[spec.Consistency], inSet[spec.Consistency], spec.Select, len(plainGot), len(want), map[bool]string{true: " except consistency=" + clNames[override], false: ""}[rewrite], firstDiff(plainGot, want), desc.Flags), Scenario: sc})
			}
		}
		if serr != nil || sreply == nil || replyInfoComp(comp, sreply).Tok != stok {
			r.Violate(mon.Violation{Signature: fmt.Sprintf("C12/framing-out-of-sync/%s/header=%s", class, desc.Header), Detail: fmt.Sprintf("config %s: the request sent right behind a %s %s (%s, rewrite=%v) on the same connection was not answered correctly: %v %s", cfgKey, desc.Version, desc.OpCode, desc.Header, rewrite, serr, replyInfoComp(comp, sreply).Kind), Scenario: sc})
			cl.Close()
			delete(clients, ck)
			rp.cluster.KillPooled(false, 1, 2)
			time.Sleep(300 * time.Millisecond)
		} else {
			r.Obs("sentinels_ok", 1)
		}
		r.Obs(fmt.Sprintf("rewrite=%v", rewrite), 1)
		r.Obs("op:"+desc.OpCode, 1)
		if rewrite || desc.Header != "-" {
			r.NonTrivial(fmt.Sprintf("%s/%s/%s/%s/%s/%s", cfgKey, desc.Version, compName, desc.OpCode, desc.Flags, desc.Header))
		}
		if k%50 == 0 && idx%3 == 0 {
			r.Sample(map[string]interface{}{"config": cfgKey, "cell": desc.Key(), "consistency": clNames[spec.Consistency], "rewrite_expected": rewrite})
		}
	}
	// the same comparison with the requests pipelined: bursts of writes (consistency inside the set, so each is re-encoded)
	// and a few reads, written back to back on one connection before any reply is awaited; each request must arrive exactly
	// once and be its own bytes with the consistency substituted
	if len(set) > 0 {
		c12Pipelined(c, rp, idx, cfgKey, set, inSet, override, isSelectID)
		c12UndefinedConsistency(c, rp, idx, cfgKey, set)
	}
	// a SELECT prepared a moment ago is still a SELECT: PREPARE a statement nobody has seen (large result metadata), EXECUTE
	// it the moment the reply arrives with a consistency inside the set; it must reach the backend unmodified
	if len(set) > 0 {
		wide := make([]*message.ColumnMetadata, 1500)
		for i := range wide {
			wide[i] = &message.ColumnMetadata{Keyspace: "ks1", Table: "t", Name: fmt.Sprintf("column_number_%d", i), Type: datatype.Varchar}
		}
		rp.cluster.SetScript(func(a *fakecass.Arrival) fakecass.Outcome {
			if a.OpCode == primitive.OpCodePrepare && strings.Contains(a.Query, "fresh_") {
				pr := fakecass.PreparedResultFor("", a.Query, a.Header.Version)
				pr.ResultMetadata = &message.RowsMetadata{ColumnCount: int32(len(wide)), Columns: wide}
				return fakecass.Outcome{Name: "Prepared", Msg: pr}
			}
			return fakecass.Outcome{}
		})
		cl, err := rawcql.Dial(rp.addr, primitive.ProtocolVersion4, rp.log)
		if err == nil && cl.Handshake("", 10*time.Second) == nil {
			cons := set[rng.Intn(len(set))]
			for j := 0; j < 25; j++ {
				q := fmt.Sprintf("SELECT * FROM ks1.fresh_%d_%d WHERE k = ?", idx, j)
				st := int16(1000 + 2*j)
				if j%3 == 1 {
					// the driver flow after a proxy restart: EXECUTE of an id the proxy has not seen prepared (answered
					// UNPREPARED), then PREPARE, then EXECUTE again on the same connection
					ex0 := &message.Execute{QueryId: fakecass.PreparedID("", q), Options: &message.QueryOptions{Consistency: cons, PositionalValues: []*primitive.Value{primitive.NewValue([]byte("early"))}}}
					_, _ = cl.CallF(frame.NewFrame(primitive.ProtocolVersion4, int16(3000+j), ex0), 10*time.Second)
					r.Obs("executes_before_prepare", 1)
				}
				pf, err := cl.Call(st, &message.Prepare{Query: q}, 10*time.Second)
				if err != nil || pf.OpCode != primitive.OpCodeResult {
					r.Inconc("c12: fresh PREPARE failed")
					break
				}
				tok := NewTok()
				mark := rp.log.Len()
				ex := &message.Execute{QueryId: fakecass.PreparedID("", q), Options: &message.QueryOptions{Consistency: cons, PositionalValues: []*primitive.Value{primitive.NewValue([]byte(tok))}}}
				if _, err := cl.CallF(frame.NewFrame(primitive.ProtocolVersion4, st+1, ex), 10*time.Second); err != nil {
					r.Inconc("c12: fresh EXECUTE got no reply")
					break
				}
				r.Obs("fresh_prepared_select_executes", 1)
				r.Eval(1)
				for _, e := range rp.log.Snapshot()[mark:] {
					if e.Src == "backend" && e.K == "recv" && e.Tok == tok {
						// EXECUTE body: [short bytes id][short consistency]...
						if len(e.Body) >= 20 {
							got := primitive.ConsistencyLevel(binary.BigEndian.Uint16(e.Body[18:20]))
							if got != cons {
								r.Violate(mon.Violation{Signature: "C12/consistency-rewritten-but-should-not/fresh-prepared-select", Detail: fmt.Sprintf("config %s: EXECUTE of a SELECT prepared through the proxy a moment earlier was sent with consistency %s and reached the backend with %s: the proxy did not know yet that the id is a SELECT", cfgKey, clNames[cons], clNames[got]), Scenario: map[string]interface{}{"kind": "c12", "idx": idx, "config": cfgKey}})
							}
						}
					}
				}
			}
			cl.Close()
		}
		r.NonTrivial("fresh-prepared-select/" + cfgKey)
	}
	r.Obs("configs", 1)
}

func withCons(b []byte, off int, cons uint16) []byte {
	if off < 0 || off+2 > len(b) {
		return b
	}
	out := append([]byte{}, b...)
	binary.BigEndian.PutUint16(out[off:], cons)
	return out
}

func runC12(c *Ctx) {
	r := c.R
	r.Assume("EXECUTE ids are prepared through the proxy first, so it knows which ids are SELECTs; the compressed header bit may differ after a rewrite (the body is re-encoded), bodies are compared uncompressed")
	r.Require("frames_compared", "rewrite=true", "rewrite=false", "sentinels_ok", "fresh_prepared_select_executes")
	n := c.Pick(24, 16000)
	for i := 0; i < n; i++ {
		if c.Replay != nil && c.Replay["kind"] == "c12-evicted" {
			break
		}
		if c.Replay != nil && c.Replay["kind"] == "c12" {
			if i != int(c.Replay["idx"].(float64)) {
				continue
			}
		} else if !c.Mine(i) {
			continue
		}
		c12Config(c, i)
	}
	// once per run (shard 0): a prepared SELECT whose entry has left the proxy's prepared cache (takes as many PREPAREs as
	// the default cache holds: about ten seconds)
	if (c.Replay == nil && c.Mine(0)) || (c.Replay != nil && c.Replay["kind"] == "c12-evicted") {
		c12EvictedSelect(c, 1e8/256+2000)
	}
}

// c12Pipelined: see the call site.
func c12Pipelined(c *Ctx, rp *runProxy, idx int, cfgKey string, set []primitive.ConsistencyLevel, inSet map[primitive.ConsistencyLevel]bool, override primitive.ConsistencyLevel, isSelectID func([]byte) bool) {
	r := c.R
	rng := c.Rng(idx + 5000)
	for round := 0; round < 3; round++ {
		v := []primitive.ProtocolVersion{4, 5, 0x42}[(round+idx)%3]
		comp := []string{"", "lz4", ""}[(round+idx/3)%3]
		cl, err := rawcql.Dial(rp.addr, v, rp.log)
		if err != nil || cl.Handshake(comp, 10*time.Second) != nil {
			r.Inconc("c12 pipelined: cannot connect a client")
			return
		}
		type item struct {
			tok     string
			spec    gen.ReqSpec
			st      int16
			ch      chan *rawcql.Frame
			coff    int
			rewrite bool
			op      primitive.OpCode
		}
		var items []*item
		var frames []*frame.Frame
		n := 48 + rng.Intn(80)
		for k := 0; k < n; k++ {
			op := []primitive.OpCode{primitive.OpCodeQuery, primitive.OpCodeExecute, primitive.OpCodeBatch}[k%3]
			tok := NewTok()
			spec := gen.RandomSpec(rng, v, op, 512, tok)
			spec.Stream = int16(k + 1)
			if k%5 != 4 {
				spec.Consistency = set[rng.Intn(len(set))]
			}
			if len(spec.Payload) > 1 { // a map of several entries may be re-encoded in another order; the sequential part covers it
				spec.Payload = nil
			}
			if op == primitive.OpCodeExecute {
				spec.QueryId = c03KnownID(rng.Intn(4))
			}
			for ci := range spec.Children {
				if spec.Children[ci].Prepared {
					spec.Children[ci].Id = c03KnownID(rng.Intn(4))
				}
			}
			f, _ := gen.Build(spec)
			lay := gen.LayoutOf(f)
			coff := -1
			for _, fl := range lay.Fields {
				if fl.Kind == gen.FConsistency {
					coff = fl.Off
				}
			}
			rewrite := false
			switch op {
			case primitive.OpCodeQuery:
				rewrite = !spec.Select && inSet[spec.Consistency]
			case primitive.OpCodeExecute:
				rewrite = !isSelectID(spec.QueryId) && inSet[spec.Consistency]
			case primitive.OpCodeBatch:
				rewrite = inSet[spec.Consistency]
			}
			items = append(items, &item{tok: tok, spec: spec, st: spec.Stream, coff: coff, rewrite: rewrite, op: op})
			frames = append(frames, f)
		}
		mark := rp.log.Len()
		for i, f := range frames {
			items[i].ch = cl.Expect(items[i].st)
			if err := cl.SendF(f); err != nil {
				break
			}
		}
		answered := 0
		for _, it := range items {
			if it.ch == nil {
				continue
			}
			if f, err := cl.Wait(it.ch, 20*time.Second); err == nil && f != nil {
				answered++
			}
		}
		evs := rp.log.Snapshot()[mark:]
		sent := map[string]mon.Event{}
		arrivals := map[string][]mon.Event{}
		for _, e := range evs {
			if e.Src == "client" && e.K == "send" && e.Cl == cl.ID && e.Tok != "" {
				sent[e.Tok] = e
			}
			if e.Src == "backend" && e.K == "recv" && e.Tok != "" && e.Arrival > 0 {
				arrivals[e.Tok] = append(arrivals[e.Tok], e)
			}
		}
		bad := map[string]int{}
		var first string
		for _, it := range items {
			se, ok := sent[it.tok]
			if !ok {
				continue
			}
			r.Eval(1)
			r.Obs("pipelined_requests", 1)
			as := arrivals[it.tok]
			plainSent := se.Body
			if primitive.HeaderFlag(se.Fl).Contains(primitive.HeaderFlagCompressed) {
				plainSent, _ = fakecass.Decompress(comp, se.Body)
			}
			if it.coff < 0 || it.coff+2 > len(plainSent) {
				continue
			}
			want := plainSent
			if it.rewrite {
				want = append([]byte{}, plainSent...)
				binary.BigEndian.PutUint16(want[it.coff:], uint16(override))
				r.Obs("pipelined_rewrites_expected", 1)
			}
			what := ""
			switch {
			case len(as) == 0:
				what = "never-reached-a-backend"
			case len(as) > 1:
				what = "reached-backends-more-than-once"
			default:
				got := as[0].Body
				if primitive.HeaderFlag(as[0].Fl).Contains(primitive.HeaderFlagCompressed) {
					got, _ = fakecass.Decompress(as[0].Comp, as[0].Body)
				}
				if !bytes.Equal(got, want) {
					what = "body-differs"
					if it.rewrite && bytes.Equal(got, plainSent) {
						what = "consistency-not-rewritten"
					}
				}
			}
			if what != "" {
				bad[what+"/"+map[primitive.OpCode]string{primitive.OpCodeQuery: "query", primitive.OpCodeExecute: "execute", primitive.OpCodeBatch: "batch"}[it.op]]++
				if first == "" {
					first = fmt.Sprintf("token %s on stream %d (consistency %s, rewrite expected: %v): %s", it.tok, it.st, clNames[it.spec.Consistency], it.rewrite, what)
				}
			}
		}
		r.NonTrivial(fmt.Sprintf("pipelined/%s/v%d/%s/n=%d", cfgKey, v, comp, n))
		for what, cnt := range bad {
			r.Violate(mon.Violation{Signature: "C12/pipelined/" + what, Detail: fmt.Sprintf("config %s: %d requests written back to back on one v%d %q connection (%d answered): %d of them %s; e.g. %s", cfgKey, n, v, comp, answered, cnt, what, first),
				Scenario: map[string]interface{}{"kind": "c12-pipelined", "idx": idx, "round": round}})
		}
		cl.Close()
		if len(bad) > 0 {
			rp.cluster.KillPooled(false, 1, 2)
			time.Sleep(300 * time.Millisecond)
			return
		}
	}
}
