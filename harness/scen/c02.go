//go:build verif

package scen

import (
	"fmt"
	"sync"
	"sync/atomic"
	"time"

	"github.com/datastax/go-cassandra-native-protocol/frame"
	"github.com/datastax/go-cassandra-native-protocol/message"
	"github.com/datastax/go-cassandra-native-protocol/primitive"

	"verif/fakecass"
	"verif/model"
	"verif/mon"
	"verif/px"
	"verif/rawcql"
)

func init() {
	Register(&Runner{Prop: "C02", Level: "exploration",
		Rule:    "clients deliberately sharing stream ids, backend replies held and released in PRNG permutations, rounds that recycle all 2048 backend stream ids many times, exhaustion bursts, storms with failover, concurrent re-PREPARE with a yield between the stream-id rewrite and the encode; oracle = the token (or prepared id / reply kind) echoed on (client, stream) equals what that client sent there; distinct = (clients, window, permutation seed, round); non-trivial = >= 2 requests in flight on the backend connection when answered",
		Shards:  shards(4, 16),
		Timeout: timeouts(10*time.Minute, 60*time.Minute),
		Run:     runC02})
}

// reorderRounds: every client uses stream ids 0..w-1 in every round; the backend holds all replies of a round and
// releases them in a random permutation; the same stream ids are reused in the next round.
func reorderRounds(c *Ctx, idx, hosts, conns, nClients, w, rounds int, errEvery int) {
	r := c.R
	label := "reorder"
	scenario := map[string]interface{}{"kind": "reorder", "idx": idx, "hosts": hosts, "conns": conns, "clients": nClients, "w": w, "rounds": rounds}
	c.Step("reorder idx=%d hosts=%d conns=%d clients=%d w=%d rounds=%d", idx, hosts, conns, nClients, w, rounds)
	bed, err := px.NewBed(px.BedConfig{Hosts: hosts, NumConns: conns, Keyspaces: []string{"ks1"}, KeepBodies: true})
	if err != nil {
		r.Inconc("reorder: cannot start bed: " + err.Error())
		return
	}
	defer bed.Close()
	bed.OnHook(nil)
	rng := c.Rng(idx)
	var smu sync.Mutex
	errToks := map[string]model.Outcome{}
	bed.Cluster.SetScript(func(a *fakecass.Arrival) fakecass.Outcome {
		smu.Lock()
		eo, isErr := errToks[a.Token]
		smu.Unlock()
		var o fakecass.Outcome
		if isErr {
			o = OutcomeFor(eo, a.Token, a.Header.Version)
		} else if a.OpCode == primitive.OpCodePrepare {
			o = fakecass.Outcome{Name: "Prepared", Msg: fakecass.PreparedResultFor("", a.Query, a.Header.Version)}
		} else {
			o = fakecass.Rows()
		}
		o.Hold = true
		return o
	})
	var clients []*rawcql.Client
	comps := map[int]string{}
	for i := 0; i < nClients; i++ {
		comp := []string{"", "", "lz4", "snappy"}[i%4]
		cl, err := bed.ReadyClient(primitive.ProtocolVersion4, comp)
		if err != nil {
			r.Inconc("reorder: handshake: " + err.Error())
			return
		}
		defer cl.Close()
		clients = append(clients, cl)
		comps[cl.ID] = comp
	}
	// standard prepared statements (their replies are held too: release them)
	go func() {
		for i := 0; i < 200 && bed.Cluster.HeldCount() < 3; i++ {
			time.Sleep(time.Millisecond)
			bed.Cluster.ReleaseHeld(nil)
		}
	}()
	prepDone := make(chan error, 1)
	go func() { prepDone <- PrepareStandard(bed, clients[0], true) }()
	for {
		select {
		case err := <-prepDone:
			if err != nil {
				r.Inconc("reorder: prepare: " + err.Error())
				return
			}
			goto prepared
		case <-time.After(time.Millisecond):
			bed.Cluster.ReleaseHeld(nil)
		}
	}
prepared:
	mark := bed.Log.Len()
	terminalErrs := []model.Outcome{model.Invalid, model.Unauthorized, model.WriteFailure, model.ReadTimeoutData, model.WriteTimeoutSimp}
	sent := 0
	for round := 0; round < rounds; round++ {
		total := nClients * w
		var wg sync.WaitGroup
		before := make([]int64, nClients)
		for ci, cl := range clients {
			before[ci] = cl.Received()
			wg.Add(1)
			go func(ci int, cl *rawcql.Client, seed int64) {
				defer wg.Done()
				for s := 0; s < w; s++ {
					tok := NewTok()
					kind := []ReqKind{KQuery, KExecute, KBatch, KPrepare, KQuery}[(s+ci+round)%5]
					if errEvery > 0 && (s+ci)%errEvery == 0 {
						smu.Lock()
						errToks[tok] = terminalErrs[(s+round)%len(terminalErrs)]
						smu.Unlock()
					}
					f := BuildRequest(primitive.ProtocolVersion4, int16(s), kind, true, tok, primitive.ConsistencyLevelOne)
					if err := cl.SendF(f); err != nil {
						return
					}
				}
			}(ci, cl, rng.Int63())
		}
		wg.Wait()
		sent += total
		// all requests are either held at the backend or already answered locally (streams exhausted)
		ok := waitFor(func() bool {
			got := 0
			for ci, cl := range clients {
				got += int(cl.Received() - before[ci])
			}
			return bed.Cluster.HeldCount()+got >= total
		}, 30*time.Second)
		if !ok {
			r.Inconc(fmt.Sprintf("reorder: round %d: backend did not receive all requests", round))
			break
		}
		held := bed.Cluster.HeldCount()
		r.ObsMax("max:in_flight_at_backend", held)
		bed.Cluster.ReleaseHeld(rng.Perm(held))
		ok = waitFor(func() bool {
			got := 0
			for ci, cl := range clients {
				got += int(cl.Received() - before[ci])
			}
			return got >= total
		}, 30*time.Second)
		if !ok {
			break // the exactly-once oracle below reports what is missing
		}
		if held >= 2 {
			r.NonTrivial(fmt.Sprintf("reorder/cl%d/w%d/h%d/c%d/seed%d/round%d", nClients, w, hosts, conns, c.Seed, round))
		}
	}
	evs := bed.Log.Snapshot()[mark:]
	eo := exactlyOnce(evs, map[int]bool{})
	if len(eo.Outstanding) > 0 || len(eo.Stray) > 0 {
		r.Violate(mon.Violation{Signature: "C02/reorder/unpaired-replies", Detail: fmt.Sprintf("%d requests unanswered, %d stray frames after a reorder round", len(eo.Outstanding), len(eo.Stray)), Scenario: scenario})
	}
	n := identityCheck(r, "C02", evs, comps, label, scenario)
	r.Obs("replies_identity_checked", n)
	r.Obs("requests_sent", sent)
	r.Obs("backend_stream_recycling_x100", sent*100/(2048*hosts*conns))
	r.Eval(sent)
	if idx%3 == 0 {
		r.Sample(scenario)
	}
}

// reprepareRace: many concurrent EXECUTEs of ids the hosts have forgotten; the proxy re-prepares from its shared cached
// PREPARE frame on several connections at once. A yield at requestsender.stream.set widens the window in which one
// connection's stream id is visible to another connection's encoder.
func reprepareRace(c *Ctx, idx int, hosts, conns, nReq int, yield time.Duration) {
	r := c.R
	label := "reprepare-race"
	scenario := map[string]interface{}{"kind": "reprepare-race", "idx": idx, "hosts": hosts, "conns": conns, "n": nReq, "yield_us": yield.Microseconds()}
	c.Step("reprepare-race idx=%d hosts=%d conns=%d n=%d yield=%s", idx, hosts, conns, nReq, yield)
	bed, err := px.NewBed(px.BedConfig{Hosts: hosts, NumConns: conns, Keyspaces: []string{"ks1"}, KeepBodies: true, ReconnectBase: time.Millisecond, ReconnectMax: 3 * time.Millisecond})
	if err != nil {
		r.Inconc("reprepare-race: cannot start bed: " + err.Error())
		return
	}
	defer bed.Close()
	bed.OnHook(func(ev *px.HookEvent) {
		if ev.Point == "requestsender.stream.set" && yield > 0 {
			time.Sleep(yield)
		}
	})
	scripts := NewScripts()
	bed.Cluster.SetScript(scripts.Func())
	cl, err := bed.ReadyClient(primitive.ProtocolVersion4, "")
	if err != nil {
		r.Inconc("reprepare-race: handshake: " + err.Error())
		return
	}
	defer cl.Close()
	if err := PrepareStandard(bed, cl, false); err != nil {
		r.Inconc("reprepare-race: prepare: " + err.Error())
		return
	}
	mark := bed.Log.Len()
	for round := 0; round < 4; round++ {
		for _, h := range bed.Cluster.Hosts {
			h.Forget()
		}
		chans := make([]chan *rawcql.Frame, nReq)
		for i := 0; i < nReq; i++ {
			st := int16(round*nReq + i)
			chans[i] = cl.Expect(st)
			f := BuildRequest(primitive.ProtocolVersion4, st, KExecute, i%2 == 0, NewTok(), primitive.ConsistencyLevelOne)
			if err := cl.SendF(f); err != nil {
				r.Inconc("reprepare-race: send: " + err.Error())
				return
			}
		}
		for i := range chans {
			if _, err := cl.Wait(chans[i], 20*time.Second); err != nil {
				break
			}
		}
	}
	drain(r, bed, scripts, []*rawcql.Client{cl}, label, scenario, mark)
	evs := bed.Log.Snapshot()[mark:]
	n := identityCheck(r, "C02", evs, map[int]string{}, label, scenario)
	// a PREPARE that reached a backend connection must be answered on that connection's own stream: the backend log shows
	// the stream the proxy put in the header; a proxy-side "invalid stream" shows up as a closed backend connection
	closed, prepares, unprep := 0, 0, 0
	for _, e := range evs {
		if e.Src == "backend" && e.K == "closed" {
			closed++
		}
		if e.Src == "backend" && e.K == "recv" && primitive.OpCode(e.Op) == primitive.OpCodePrepare {
			prepares++
		}
		if e.Src == "backend" && e.K == "reply" && e.Outcome == "Unprepared" {
			unprep++
		}
	}
	if closed > 0 {
		r.Violate(mon.Violation{Signature: "C02/reprepare-race/backend-connection-closed", Detail: fmt.Sprintf("%d backend connection(s) were closed by the proxy during concurrent re-prepares although the backend answered every frame on the stream it arrived with (a reply arrived on a stream id the connection did not expect)", closed), Scenario: scenario, Witness: historyOf(evs, -1, -1, "")})
	}
	r.Obs("replies_identity_checked", n)
	r.Obs("reprepares_observed", prepares)
	r.Obs("unprepared_observed", unprep)
	r.Eval(4 * nReq)
	if prepares >= 2 {
		r.NonTrivial(fmt.Sprintf("reprepare-race/h%d/c%d/n%d/y%d", hosts, conns, nReq, yield.Microseconds()))
	}
	_ = message.Options{}
}

func runC02(c *Ctx) {
	r := c.R
	r.Assume("tokens are unique per request; a reply identifies the request it answers by the echoed token (rows, error text), the prepared id (function of the statement text) or its kind")
	r.Require("replies_identity_checked", "reprepares_observed", "late_heartbeat_cases", "same_prepare_requests")
	i := 0
	next := func() int { i++; return i }
	type rp struct{ hosts, conns, clients, w, rounds, errEvery int }
	rounds := []rp{
		{1, 1, 8, 200, 14, 7}, // 1600 in flight on ONE backend connection, 22400 requests = 10.9x recycling of 2048 ids
		{1, 1, 2, 1200, 6, 0}, // 2400 > 2048: exhaustion burst every round
		{2, 2, 16, 100, 6, 5},
		{3, 1, 4, 512, 5, 11},
	}
	if !c.Quick() {
		for k := 0; k < 400; k++ {
			rng := c.Rng(500 + k)
			rounds = append(rounds, rp{1 + rng.Intn(3), 1 + rng.Intn(2), 2 + rng.Intn(15), 50 + rng.Intn(463), 10 + rng.Intn(30), rng.Intn(12)})
		}
	}
	for j, p := range rounds {
		k := next()
		if c.Mine(k) {
			reorderRounds(c, j, p.hosts, p.conns, p.clients, p.w, p.rounds, p.errEvery)
		}
	}
	storms := []stormParams{
		{Hosts: 2, Conns: 2, Clients: 8, PerClient: 1500, Window: 400, DeathRate: 4, SameStreams: true, Compress: true},
		{Hosts: 3, Conns: 1, Clients: 12, PerClient: 800, Window: 256, DeathRate: 8, SameStreams: true, Silence: true},
	}
	if !c.Quick() {
		for k := 0; k < 140; k++ {
			rng := c.Rng(900 + k)
			storms = append(storms, stormParams{Hosts: 1 + rng.Intn(4), Conns: 1 + rng.Intn(2), Clients: 2 + rng.Intn(15), PerClient: 1000 + rng.Intn(3000), Window: 64 + rng.Intn(1900),
				DeathRate: rng.Intn(15), SameStreams: true, Silence: rng.Intn(2) == 0, Compress: rng.Intn(2) == 0})
		}
	}
	for _, sp := range storms {
		k := next()
		if c.Mine(k) {
			c.Step("%s", sp.String())
			storm(c, k, sp, []string{"C02"})
		}
	}
	for j := 0; j < c.Pick(2, 48); j++ {
		k := next()
		if c.Mine(k) {
			lateHeartbeatReply(c, j)
		}
	}
	for j := 0; j < c.Pick(4, 120); j++ {
		k := next()
		if c.Mine(k) {
			samePrepare(c, j)
		}
	}
	yields := []time.Duration{0, 200 * time.Microsecond, time.Millisecond}
	for j := 0; j < c.Pick(6, 600); j++ {
		k := next()
		if c.Mine(k) {
			reprepareRace(c, j, 2+j%2, 1+j%2, 50, yields[j%3])
		}
	}
}

// samePrepare: what every driver does when it starts - several clients PREPARE the same few statements, pipelined on
// different streams and all at once (statements that were prepared through the proxy before). Every PREPARE must get exactly
// one PREPARED reply, on its own stream, naming the id of the text sent on that stream; the tokenised queries in between
// must get their own rows. In odd rounds the backend holds its replies and releases them in one go, in a PRNG order.
func samePrepare(c *Ctx, idx int) {
	r := c.R
	label := "same-prepare"
	rng := c.Rng(7000 + idx)
	hosts, conns, nClients, w := 1+idx%3, 1+idx%2, 2+rng.Intn(7), 24+rng.Intn(72)
	scenario := map[string]interface{}{"kind": "same-prepare", "idx": idx, "hosts": hosts, "conns": conns, "clients": nClients, "w": w}
	c.Step("same-prepare idx=%d hosts=%d conns=%d clients=%d w=%d", idx, hosts, conns, nClients, w)
	bed, err := px.NewBed(px.BedConfig{Hosts: hosts, NumConns: conns, Keyspaces: []string{"ks1"}, KeepBodies: true})
	if err != nil {
		r.Inconc("same-prepare: cannot start bed: " + err.Error())
		return
	}
	defer bed.Close()
	bed.OnHook(nil)
	var hold int32
	bed.Cluster.SetScript(func(a *fakecass.Arrival) fakecass.Outcome {
		var o fakecass.Outcome
		if a.OpCode == primitive.OpCodePrepare {
			o = fakecass.Outcome{Name: "Prepared", Msg: fakecass.PreparedResultFor("", a.Query, a.Header.Version)}
		} else {
			o = fakecass.Rows()
		}
		o.Hold = atomic.LoadInt32(&hold) == 1
		return o
	})
	var texts []string
	for i := 0; i < 2+idx%4; i++ {
		texts = append(texts, fmt.Sprintf("INSERT INTO ks1.t (k, v) VALUES ('T%016x', ?)", 0x5a5e000000000000+uint64(idx)<<16+uint64(i)))
	}
	var clients []*rawcql.Client
	comps := map[int]string{}
	for i := 0; i < nClients; i++ {
		comp := []string{"", "lz4", "", "snappy"}[i%4]
		cl, err := bed.ReadyClient(primitive.ProtocolVersion4, comp)
		if err != nil {
			r.Inconc("same-prepare: handshake: " + err.Error())
			return
		}
		defer cl.Close()
		clients = append(clients, cl)
		comps[cl.ID] = comp
	}
	mark := bed.Log.Len()
	for i, q := range texts { // prepared through the proxy once before, one at a time
		if _, err := clients[0].Call(int16(20000+i), &message.Prepare{Query: q}, 10*time.Second); err != nil {
			r.Inconc("same-prepare: first prepare: " + err.Error())
			return
		}
	}
	sent := 0
	for round := 0; round < 6; round++ {
		atomic.StoreInt32(&hold, int32(round%2))
		before := make([]int64, nClients)
		var wg sync.WaitGroup
		for ci, cl := range clients {
			before[ci] = cl.Received()
			wg.Add(1)
			go func(ci int, cl *rawcql.Client) {
				defer wg.Done()
				for s := 0; s < w; s++ {
					var f *frame.Frame
					if s%5 == 4 {
						f = BuildRequest(primitive.ProtocolVersion4, int16(s), KQuery, true, NewTok(), primitive.ConsistencyLevelOne)
					} else {
						f = frame.NewFrame(primitive.ProtocolVersion4, int16(s), &message.Prepare{Query: texts[(s+ci+round)%len(texts)]})
					}
					if cl.SendF(f) != nil {
						return
					}
				}
			}(ci, cl)
		}
		wg.Wait()
		total := nClients * w
		sent += total
		got := func() int {
			n := 0
			for ci, cl := range clients {
				n += int(cl.Received() - before[ci])
			}
			return n
		}
		if round%2 == 1 {
			// whatever the proxy forwards is held; what it answers itself arrives: wait until the two add up, then release
			if !waitFor(func() bool { return bed.Cluster.HeldCount()+got() >= total }, 20*time.Second) {
				atomic.StoreInt32(&hold, 0)
				bed.Cluster.ReleaseHeld(nil)
				break // the pairing oracle below reports what is missing
			}
			held := bed.Cluster.HeldCount()
			r.ObsMax("max:same_prepare_in_flight_at_backend", held)
			atomic.StoreInt32(&hold, 0)
			bed.Cluster.ReleaseHeld(rng.Perm(held))
		}
		if !waitFor(func() bool { return got() >= total }, 20*time.Second) {
			break
		}
	}
	atomic.StoreInt32(&hold, 0)
	bed.Cluster.ReleaseHeld(nil)
	time.Sleep(20 * time.Millisecond)
	evs := bed.Log.Snapshot()[mark:]
	eo := exactlyOnce(evs, map[int]bool{})
	if len(eo.Outstanding) > 0 || len(eo.Stray) > 0 {
		w := ""
		if len(eo.Stray) > 0 {
			w = fmt.Sprintf("; first stray frame: client %d stream %d", eo.Stray[0].Cl, eo.Stray[0].St)
		}
		r.Violate(mon.Violation{Signature: "C02/same-prepare/unpaired-replies", Detail: fmt.Sprintf("%d requests unanswered, %d frames on streams with no request in flight, while %d clients prepared the same %d statements on many streams%s", len(eo.Outstanding), len(eo.Stray), nClients, len(texts), w), Scenario: scenario})
	}
	n := identityCheck(r, "C02", evs, comps, label, scenario)
	r.Obs("replies_identity_checked", n)
	r.Obs("same_prepare_requests", sent)
	r.Eval(sent)
	r.NonTrivial(fmt.Sprintf("same-prepare/h%d/c%d/cl%d/w%d/t%d/seed%d", hosts, conns, nClients, w, len(texts), c.Seed))
	if idx%10 == 0 {
		r.Sample(scenario)
	}
}

// lateHeartbeatReply: the backend answers one of the proxy's own heartbeats (OPTIONS on a pooled connection) only after
// the proxy has given up waiting for it; meanwhile clients use every stream id of that connection. The late SUPPORTED
// frame must not be delivered to a client request.
func lateHeartbeatReply(c *Ctx, idx int) {
	r := c.R
	label := "late-heartbeat-reply"
	scenario := map[string]interface{}{"kind": "late-heartbeat-reply", "idx": idx}
	c.Step("late-heartbeat-reply idx=%d", idx)
	bed, err := px.NewBed(px.BedConfig{Hosts: 1, NumConns: 1, Keyspaces: []string{"ks1"}, KeepBodies: true, HeartBeat: 80 * time.Millisecond, ConnectTimeout: 120 * time.Millisecond, Idle: 20 * time.Second})
	if err != nil {
		r.Inconc("late-heartbeat: cannot start bed: " + err.Error())
		return
	}
	defer bed.Close()
	type heldHB struct {
		conn   *fakecass.Conn
		ver    primitive.ProtocolVersion
		stream int16
	}
	var hmu sync.Mutex
	var held *heldHB
	bed.Cluster.Intercept = func(x *fakecass.Conn, hdr *frame.Header, raw []byte) bool {
		if hdr.OpCode != primitive.OpCodeOptions || x.IsRegistered() {
			return false
		}
		hmu.Lock()
		defer hmu.Unlock()
		if held == nil {
			held = &heldHB{x, hdr.Version, hdr.StreamId}
			return true // swallowed for now
		}
		return false
	}
	bed.Cluster.SetScript(func(a *fakecass.Arrival) fakecass.Outcome {
		o := fakecass.Rows()
		o.Hold = true
		return o
	})
	var clients []*rawcql.Client
	for i := 0; i < 2; i++ {
		cl, err := bed.ReadyClient(primitive.ProtocolVersion4, "")
		if err != nil {
			r.Inconc("late-heartbeat: handshake: " + err.Error())
			return
		}
		defer cl.Close()
		clients = append(clients, cl)
	}
	// wait for a heartbeat to be swallowed and for the proxy to give up on it (its timeout is the connect timeout)
	if !waitFor(func() bool { hmu.Lock(); defer hmu.Unlock(); return held != nil }, 5*time.Second) {
		r.Inconc("late-heartbeat: no heartbeat observed on the pooled connection")
		return
	}
	time.Sleep(300 * time.Millisecond)
	mark := bed.Log.Len()
	total := 2300
	for i := 0; i < total; i++ {
		cl := clients[i%2]
		if err := cl.SendF(BuildRequest(primitive.ProtocolVersion4, int16(i/2), KQuery, true, NewTok(), primitive.ConsistencyLevelOne)); err != nil {
			r.Inconc("late-heartbeat: send: " + err.Error())
			return
		}
	}
	waitFor(func() bool { return bed.Cluster.HeldCount()+int(clients[0].Received()+clients[1].Received()) >= total }, 20*time.Second)
	inFlight := bed.Cluster.HeldCount()
	// now the late answer to the heartbeat arrives
	hmu.Lock()
	h := held
	hmu.Unlock()
	late := append(rawcql.EncodeHeader(h.ver, 0, h.stream, primitive.OpCodeSupported, 2), 0, 0)
	late[0] |= 0x80
	_ = h.conn.WriteRaw(late, "late SUPPORTED for the heartbeat")
	time.Sleep(20 * time.Millisecond)
	bed.Cluster.ReleaseHeld(nil)
	for _, cl := range clients {
		ProgressSteps(cl, 5, 31000)
	}
	waitFor(func() bool { return int(clients[0].Received()+clients[1].Received()) >= total }, 5*time.Second)
	evs := bed.Log.Snapshot()[mark:]
	n := identityCheck(r, "C02", evs, map[int]string{}, label, scenario)
	r.Obs("replies_identity_checked", n)
	r.Obs("late_heartbeat_cases", 1)
	r.ObsMax("max:in_flight_at_backend", inFlight)
	r.Eval(total)
	r.NonTrivial(fmt.Sprintf("late-heartbeat/%d/inflight=%d", idx, inFlight))
}
