//go:build verif

package scen

// Helpers of the C19 check: an in-memory PKI (harness CA, unrelated CAs, intermediate, leaves of every chain kind, client
// certificate), in-memory secure-connect bundles, logging TLS servers (metadata service, database node, and a hand-written
// TLS 1.2 server that sends an EMPTY Certificate message), and an in-process DNS stub so that any generated bundle host name
// resolves to 127.0.0.1 without network access.

import (
	"archive/zip"
	"bytes"
	"context"
	"crypto/ecdsa"
	"crypto/elliptic"
	crand "crypto/rand"
	"crypto/tls"
	"crypto/x509"
	"crypto/x509/pkix"
	"encoding/binary"
	"encoding/json"
	"encoding/pem"
	"errors"
	"fmt"
	"io"
	"math/big"
	"math/rand"
	"net"
	"strings"
	"sync"
	"time"
)

// ---------------------------------------------------------------------------------------------------------------------
// PKI

type c19CA struct {
	cert *x509.Certificate
	der  []byte
	key  *ecdsa.PrivateKey
}

type c19PKI struct {
	now       time.Time
	root      *c19CA // the bundle's CA (ca.crt)
	other     *c19CA // unrelated CA, different subject
	otherSame *c19CA // unrelated CA with the SAME subject and subject key id as root, but another key
	inter     *c19CA // intermediate signed by root
	clientDER []byte // client leaf signed by root
	clientKey *ecdsa.PrivateKey
}

func c19Key() *ecdsa.PrivateKey {
	k, err := ecdsa.GenerateKey(elliptic.P256(), crand.Reader)
	if err != nil {
		panic("c19: keygen: " + err.Error())
	}
	return k
}

func c19Serial() *big.Int {
	b := make([]byte, 12)
	_, _ = crand.Read(b)
	b[0] &= 0x7f
	b[0] |= 0x01
	return new(big.Int).SetBytes(b)
}

func c19MakeCA(subject pkix.Name, skid []byte, parent *c19CA, now time.Time) *c19CA {
	key := c19Key()
	tmpl := &x509.Certificate{
		SerialNumber:          c19Serial(),
		Subject:               subject,
		NotBefore:             now.Add(-365 * 24 * time.Hour),
		NotAfter:              now.Add(10 * 365 * 24 * time.Hour),
		IsCA:                  true,
		BasicConstraintsValid: true,
		KeyUsage:              x509.KeyUsageCertSign | x509.KeyUsageCRLSign | x509.KeyUsageDigitalSignature,
		SubjectKeyId:          skid,
	}
	signer, signKey := tmpl, key
	if parent != nil {
		signer, signKey = parent.cert, parent.key
	}
	der, err := x509.CreateCertificate(crand.Reader, tmpl, signer, &key.PublicKey, signKey)
	if err != nil {
		panic("c19: create CA: " + err.Error())
	}
	cert, err := x509.ParseCertificate(der)
	if err != nil {
		panic("c19: parse CA: " + err.Error())
	}
	return &c19CA{cert: cert, der: der, key: key}
}

func newC19PKI(now time.Time, tag string) *c19PKI {
	p := &c19PKI{now: now}
	rootSubj := pkix.Name{CommonName: "verif C19 bundle CA " + tag, Organization: []string{"verif"}}
	skid := make([]byte, 20)
	_, _ = crand.Read(skid)
	p.root = c19MakeCA(rootSubj, skid, nil, now)
	p.other = c19MakeCA(pkix.Name{CommonName: "verif C19 unrelated CA " + tag, Organization: []string{"elsewhere"}}, nil, nil, now)
	p.otherSame = c19MakeCA(rootSubj, skid, nil, now)
	p.inter = c19MakeCA(pkix.Name{CommonName: "verif C19 intermediate " + tag, Organization: []string{"verif"}}, nil, p.root, now)
	p.clientKey = c19Key()
	tmpl := &x509.Certificate{
		SerialNumber: c19Serial(),
		Subject:      pkix.Name{CommonName: "verif C19 client " + tag},
		NotBefore:    now.Add(-24 * time.Hour),
		NotAfter:     now.Add(365 * 24 * time.Hour),
		KeyUsage:     x509.KeyUsageDigitalSignature,
		ExtKeyUsage:  []x509.ExtKeyUsage{x509.ExtKeyUsageClientAuth},
	}
	der, err := x509.CreateCertificate(crand.Reader, tmpl, p.root.cert, &p.clientKey.PublicKey, p.root.key)
	if err != nil {
		panic("c19: create client cert: " + err.Error())
	}
	p.clientDER = der
	return p
}

// leafSpec says what a server leaf looks like. signer == nil means self-signed.
type c19LeafSpec struct {
	dnsNames  []string
	cn        string
	notBefore time.Time
	notAfter  time.Time
	signer    *c19CA
	selfCA    bool // self-signed leaf that also claims to be a CA
	selfSubj  *pkix.Name
	serial    *big.Int // nil = a fresh random serial number
	skid      []byte   // subject key identifier extension (nil = none)
	akid      []byte   // authority key identifier extension (nil = what the signer implies)
}

func c19Leaf(s c19LeafSpec) (der []byte, key *ecdsa.PrivateKey) {
	key = c19Key()
	subj := pkix.Name{CommonName: s.cn}
	if s.selfSubj != nil {
		subj = *s.selfSubj
	}
	serial := s.serial
	if serial == nil {
		serial = c19Serial()
	}
	tmpl := &x509.Certificate{
		SerialNumber: serial,
		Subject:      subj,
		DNSNames:     s.dnsNames,
		NotBefore:    s.notBefore,
		NotAfter:     s.notAfter,
		KeyUsage:     x509.KeyUsageDigitalSignature,
		ExtKeyUsage:  []x509.ExtKeyUsage{x509.ExtKeyUsageServerAuth},
	}
	if s.skid != nil {
		tmpl.SubjectKeyId = s.skid
	}
	if s.akid != nil {
		tmpl.AuthorityKeyId = s.akid
	}
	if s.selfCA {
		tmpl.IsCA = true
		tmpl.BasicConstraintsValid = true
		tmpl.KeyUsage |= x509.KeyUsageCertSign
	}
	parent, signKey := tmpl, key
	if s.signer != nil {
		parent, signKey = s.signer.cert, s.signer.key
	}
	der, err := x509.CreateCertificate(crand.Reader, tmpl, parent, &key.PublicKey, signKey)
	if err != nil {
		panic("c19: create leaf: " + err.Error())
	}
	return der, key
}

// Chain kinds. The verdict of each kind is fixed BY CONSTRUCTION (never by running x509 verification in the harness).
const (
	ckValid        = "valid"         // leaf for the bundle host, signed by the bundle CA                        -> verifies
	ckOtherCA      = "other-ca"      // leaf for the bundle host, signed by an unrelated CA                      -> does not
	ckSelfSigned   = "self-signed"   // leaf for the bundle host, signed by itself                               -> does not
	ckWrongName    = "wrong-name"    // leaf signed by the bundle CA, for a DNS name other than the bundle host  -> does not
	ckExpired      = "expired"       // leaf for the bundle host, signed by the bundle CA, notAfter in the past  -> does not
	ckNotYet       = "not-yet-valid" // ... notBefore in the future                                              -> does not
	ckInterPresent = "inter-present" // leaf signed by an intermediate of the bundle CA, intermediate presented  -> verifies
	ckInterMissing = "inter-missing" // same leaf, intermediate NOT presented                                    -> does not
	ckEmpty        = "empty"         // Certificate message with an empty certificate list (TLS 1.2 only)         -> does not
)

var c19Kinds = []string{ckValid, ckOtherCA, ckSelfSigned, ckWrongName, ckExpired, ckNotYet, ckInterPresent, ckInterMissing, ckEmpty}

func c19KindVerifies(kind string) bool { return kind == ckValid || kind == ckInterPresent }

// chain builds the certificate chain a server of the given kind presents for bundle host `host`. `sni` is the name the proxy is
// expected to send as SNI (the node's host id / contact point; for the metadata service the bundle host itself): the wrong-name
// kind uses it as one of its decoy names. Returns the chain and the name of the variant chosen.
func (p *c19PKI) chain(rng *rand.Rand, kind, host, sni string) (tls.Certificate, string) {
	hour := time.Hour
	day := 24 * time.Hour
	okBefore := []time.Duration{-hour, -day, -30 * day}[rng.Intn(3)]
	okAfter := []time.Duration{2 * hour, day, 365 * day}[rng.Intn(3)]
	spec := c19LeafSpec{dnsNames: []string{host}, cn: "node", notBefore: p.now.Add(okBefore), notAfter: p.now.Add(okAfter), signer: p.root}
	variant := "plain"
	var extra [][]byte
	switch kind {
	case ckValid:
		switch rng.Intn(3) {
		case 1:
			variant = "root-appended"
			extra = [][]byte{p.root.der}
		case 2:
			variant = "extra-san"
			spec.dnsNames = []string{"decoy.invalid", host, "other.decoy.invalid"}
		}
	case ckOtherCA:
		switch rng.Intn(4) {
		case 0:
			spec.signer = p.other
		case 1:
			variant = "ca-appended"
			spec.signer = p.other
			extra = [][]byte{p.other.der}
		case 2:
			variant = "same-subject"
			spec.signer = p.otherSame
		case 3:
			variant = "same-subject-real-root-appended"
			spec.signer = p.otherSame
			extra = [][]byte{p.root.der}
		}
	case ckSelfSigned:
		spec.signer = nil
		switch rng.Intn(4) {
		case 1:
			variant = "is-ca"
			spec.selfCA = true
		case 2:
			variant = "root-subject"
			subj := p.root.cert.Subject
			spec.selfSubj = &subj
			spec.selfCA = true
		case 3:
			variant = "real-root-appended"
			extra = [][]byte{p.root.der}
		}
	case ckWrongName:
		labels := strings.Split(strings.TrimSuffix(host, "."), ".")
		v := rng.Intn(8)
		if v >= 6 { // the decoy named after the expected SNI is the interesting one for node connections: weight 3/8
			v = 0
		}
		if v == 0 && strings.EqualFold(sni, host) {
			v = 1 + rng.Intn(5)
		}
		if v == 2 && len(labels) < 2 {
			v = 3
		}
		switch v {
		case 0:
			variant = "name-is-sni"
			spec.dnsNames = []string{sni}
		case 1:
			variant = "prefixed-label"
			spec.dnsNames = []string{"x" + strings.TrimPrefix(host, "*")}
		case 2:
			variant = "parent-domain"
			spec.dnsNames = []string{strings.Join(labels[1:], ".")}
		case 3:
			variant = "sub-domain"
			spec.dnsNames = []string{"sub." + host}
		case 4:
			variant = "cn-only-match"
			spec.cn = host
			spec.dnsNames = []string{"decoy.invalid"}
		case 5:
			variant = "wildcard-below-host"
			spec.dnsNames = []string{"*." + host}
		}
	case ckExpired:
		back := []time.Duration{hour, day, 365 * day}[rng.Intn(3)]
		variant = fmt.Sprintf("ended-%s-ago", back)
		spec.notAfter = p.now.Add(-back)
		spec.notBefore = spec.notAfter.Add(-30 * day)
	case ckNotYet:
		fwd := []time.Duration{hour, day, 365 * day}[rng.Intn(3)]
		variant = fmt.Sprintf("starts-in-%s", fwd)
		spec.notBefore = p.now.Add(fwd)
		spec.notAfter = spec.notBefore.Add(30 * day)
	case ckInterPresent:
		spec.signer = p.inter
		extra = [][]byte{p.inter.der}
		if rng.Intn(2) == 1 {
			variant = "inter+root"
			extra = [][]byte{p.inter.der, p.root.der}
		}
	case ckInterMissing:
		spec.signer = p.inter
		if rng.Intn(2) == 1 {
			variant = "root-appended"
			extra = [][]byte{p.root.der}
		}
	default:
		panic("c19: no chain for kind " + kind)
	}
	der, key := c19Leaf(spec)
	return tls.Certificate{Certificate: append([][]byte{der}, extra...), PrivateKey: key}, variant
}

func c19PEM(typ string, ders ...[]byte) []byte {
	var b bytes.Buffer
	for _, d := range ders {
		_ = pem.Encode(&b, &pem.Block{Type: typ, Bytes: d})
	}
	return b.Bytes()
}

// bundleZip builds a secure-connect bundle archive in memory.
func (p *c19PKI) bundleZip(rng *rand.Rand, host string, port int) (*zip.Reader, string, error) {
	variant := "sec1-key"
	var keyPEM []byte
	if rng.Intn(2) == 0 {
		d, err := x509.MarshalECPrivateKey(p.clientKey)
		if err != nil {
			return nil, "", err
		}
		keyPEM = c19PEM("EC PRIVATE KEY", d)
	} else {
		variant = "pkcs8-key"
		d, err := x509.MarshalPKCS8PrivateKey(p.clientKey)
		if err != nil {
			return nil, "", err
		}
		keyPEM = c19PEM("PRIVATE KEY", d)
	}
	certPEM := c19PEM("CERTIFICATE", p.clientDER)
	if rng.Intn(3) == 0 {
		variant += "+cert-with-ca"
		certPEM = c19PEM("CERTIFICATE", p.clientDER, p.root.der)
	}
	cfg, _ := json.Marshal(map[string]interface{}{"host": host, "port": port, "keyspace": "", "localDC": "dc1"})
	var buf bytes.Buffer
	zw := zip.NewWriter(&buf)
	files := []struct {
		name string
		data []byte
	}{{"config.json", cfg}, {"ca.crt", c19PEM("CERTIFICATE", p.root.der)}, {"cert", certPEM}, {"key", keyPEM}, {"cqlshrc", []byte("[connection]\n")}}
	rng.Shuffle(len(files), func(i, j int) { files[i], files[j] = files[j], files[i] })
	for _, f := range files {
		w, err := zw.Create(f.name)
		if err != nil {
			return nil, "", err
		}
		if _, err = w.Write(f.data); err != nil {
			return nil, "", err
		}
	}
	if err := zw.Close(); err != nil {
		return nil, "", err
	}
	zr, err := zip.NewReader(bytes.NewReader(buf.Bytes()), int64(buf.Len()))
	return zr, variant, err
}

// ---------------------------------------------------------------------------------------------------------------------
// Logging servers

// recConn records the raw bytes received from the peer (capped) so that TLS records can be classified afterwards.
type recConn struct {
	net.Conn
	mu  sync.Mutex
	in  []byte
	tot int
}

func (r *recConn) Read(b []byte) (int, error) {
	n, err := r.Conn.Read(b)
	if n > 0 {
		r.mu.Lock()
		r.tot += n
		if len(r.in) < 1<<17 {
			r.in = append(r.in, b[:n]...)
		}
		r.mu.Unlock()
	}
	return n, err
}

// recordTypes parses the inbound raw stream into TLS record content types (20 ccs, 21 alert, 22 handshake, 23 application data).
func (r *recConn) recordTypes() []int {
	r.mu.Lock()
	defer r.mu.Unlock()
	var out []int
	b := r.in
	for len(b) >= 5 {
		out = append(out, int(b[0]))
		n := int(binary.BigEndian.Uint16(b[3:5]))
		if len(b) < 5+n {
			break
		}
		b = b[5+n:]
	}
	return out
}

// c19ConnObs is everything one harness server saw on one TCP connection.
type c19ConnObs struct {
	SawHello     bool   `json:"saw_client_hello"`
	SNI          string `json:"sni"`
	HandshakeOK  bool   `json:"handshake_completed"`
	HandshakeErr string `json:"handshake_error,omitempty"`
	TLSVersion   string `json:"tls_version,omitempty"`
	ClientCerts  int    `json:"client_certs_presented"`
	ClientCertOK bool   `json:"client_cert_is_bundle_cert"`
	AppBytes     int    `json:"application_bytes"`
	AppHead      string `json:"application_bytes_head,omitempty"`
	Frames       []int  `json:"cql_opcodes,omitempty"`
	RawRecords   []int  `json:"raw_record_types_from_client"`
	RawBytes     int    `json:"raw_bytes_from_client"`
	Replied      int    `json:"replies_sent"`
	Resumed      bool   `json:"session_resumed"`
	done         chan struct{}
	clientDER    []byte
}

// c19ServerCase is what a station does with the connections arriving while the case is current.
type c19ServerCase struct {
	chain   tls.Certificate
	version uint16 // tls.VersionTLS12 | tls.VersionTLS13
	empty   bool   // hand-written TLS 1.2 flight with an empty Certificate message
	mu      sync.Mutex
	conns   []*c19ConnObs
}

func (sc *c19ServerCase) snapshot() []*c19ConnObs {
	sc.mu.Lock()
	defer sc.mu.Unlock()
	return append([]*c19ConnObs(nil), sc.conns...)
}

// waitConns waits until at least `min` connections were accepted for the case and all of them finished. false = watchdog fired.
func (sc *c19ServerCase) waitConns(min int, d time.Duration) bool {
	deadline := time.Now().Add(d)
	for {
		cs := sc.snapshot()
		if len(cs) >= min {
			all := true
			for _, o := range cs {
				select {
				case <-o.done:
				default:
					all = false
				}
			}
			if all {
				return true
			}
		}
		if time.Now().After(deadline) {
			return false
		}
		time.Sleep(200 * time.Microsecond)
	}
}

// c19Station is one harness listener: role "metadata" (HTTPS, serves /metadata) or "node" (CQL over TLS).
type c19Station struct {
	role      string
	ln        net.Listener
	port      int
	clientDER []byte
	mu        sync.Mutex
	cur       *c19ServerCase
	metaBody  []byte
	stray     int
	wg        sync.WaitGroup
	ticketKey [32]byte
}

func newC19Station(role string, clientDER []byte) (*c19Station, error) {
	ln, err := net.Listen("tcp4", "127.0.0.1:0")
	if err != nil {
		return nil, err
	}
	s := &c19Station{role: role, ln: ln, port: ln.Addr().(*net.TCPAddr).Port, clientDER: clientDER}
	_, _ = crand.Read(s.ticketKey[:])
	go s.acceptLoop()
	return s, nil
}

func (s *c19Station) setCase(sc *c19ServerCase) {
	s.mu.Lock()
	s.cur = sc
	s.mu.Unlock()
}

func (s *c19Station) setMetadata(body []byte) {
	s.mu.Lock()
	s.metaBody = body
	s.mu.Unlock()
}

func (s *c19Station) strays() int {
	s.mu.Lock()
	defer s.mu.Unlock()
	return s.stray
}

func (s *c19Station) close() {
	_ = s.ln.Close()
	s.wg.Wait()
}

func (s *c19Station) acceptLoop() {
	for {
		conn, err := s.ln.Accept()
		if err != nil {
			return
		}
		s.mu.Lock()
		sc := s.cur
		body := s.metaBody
		if sc == nil {
			s.stray++
		}
		s.mu.Unlock()
		if sc == nil {
			_ = conn.Close()
			continue
		}
		o := &c19ConnObs{done: make(chan struct{}), clientDER: s.clientDER}
		sc.mu.Lock()
		sc.conns = append(sc.conns, o)
		sc.mu.Unlock()
		s.wg.Add(1)
		go func() {
			defer s.wg.Done()
			s.handle(conn, sc, o, body)
		}()
	}
}

func (s *c19Station) handle(conn net.Conn, sc *c19ServerCase, o *c19ConnObs, metaBody []byte) {
	rec := &recConn{Conn: conn}
	defer func() {
		o.RawRecords = rec.recordTypes()
		rec.mu.Lock()
		o.RawBytes = rec.tot
		rec.mu.Unlock()
		_ = conn.Close()
		close(o.done)
	}()
	_ = conn.SetDeadline(time.Now().Add(20 * time.Second)) // watchdog only: a stuck peer must not hang the worker
	if sc.empty {
		c19EmptyCertServer(rec, o)
		return
	}
	chain := sc.chain
	cfg := &tls.Config{
		MinVersion: sc.version,
		MaxVersion: sc.version,
		ClientAuth: tls.RequestClientCert, // log whatever the client presents, never reject it
		// a node keeps its session-ticket keys when its certificate is replaced: tickets are issued, under one key per station
		SessionTicketsDisabled: false,
		GetCertificate: func(chi *tls.ClientHelloInfo) (*tls.Certificate, error) {
			o.SawHello = true
			o.SNI = chi.ServerName
			return &chain, nil
		},
	}
	cfg.SetSessionTicketKeys([][32]byte{s.ticketKey})
	tc := tls.Server(rec, cfg)
	if err := tc.Handshake(); err != nil {
		o.HandshakeErr = err.Error()
		// keep listening on the raw connection: anything the client still sends is recorded (and classified by record type)
		_, _ = io.Copy(io.Discard, rec)
		return
	}
	o.HandshakeOK = true
	st := tc.ConnectionState()
	o.TLSVersion = tls.VersionName(st.Version)
	o.Resumed = st.DidResume
	o.ClientCerts = len(st.PeerCertificates)
	if len(st.PeerCertificates) > 0 {
		o.ClientCertOK = bytes.Equal(st.PeerCertificates[0].Raw, o.clientDER)
	}
	app := func(b []byte) {
		o.AppBytes += len(b)
		if len(o.AppHead) < 128 {
			h := fmt.Sprintf("%x", b)
			if len(h) > 128-len(o.AppHead) {
				h = h[:128-len(o.AppHead)]
			}
			o.AppHead += h
		}
	}
	if s.role == "metadata" {
		// read one HTTP request head, log it, answer, close
		var req []byte
		buf := make([]byte, 4096)
		for !bytes.Contains(req, []byte("\r\n\r\n")) && len(req) < 1<<16 {
			n, err := tc.Read(buf)
			if n > 0 {
				app(buf[:n])
				req = append(req, buf[:n]...)
			}
			if err != nil {
				return
			}
		}
		status, body := "200 OK", metaBody
		if !bytes.HasPrefix(req, []byte("GET /metadata ")) {
			status, body = "404 Not Found", []byte("{}")
		}
		resp := fmt.Sprintf("HTTP/1.1 %s\r\nContent-Type: application/json\r\nContent-Length: %d\r\nConnection: close\r\n\r\n", status, len(body))
		if _, err := tc.Write(append([]byte(resp), body...)); err == nil {
			o.Replied++
		}
		_ = tc.CloseWrite()
		// drain until the client closes
		for {
			n, err := tc.Read(buf)
			if n > 0 {
				app(buf[:n])
			}
			if err != nil {
				return
			}
		}
	}
	// node: CQL frames (9-byte header). STARTUP -> READY, OPTIONS -> SUPPORTED {}, anything else is only logged.
	hdr := make([]byte, 9)
	for {
		if _, err := io.ReadFull(tc, hdr); err != nil {
			return
		}
		app(hdr)
		n := int(binary.BigEndian.Uint32(hdr[5:9]))
		if n < 0 || n > 1<<20 {
			return
		}
		body := make([]byte, n)
		if _, err := io.ReadFull(tc, body); err != nil {
			return
		}
		app(body)
		op := int(hdr[4])
		o.Frames = append(o.Frames, op)
		var reply []byte
		switch op {
		case 0x01: // STARTUP
			reply = []byte{hdr[0] | 0x80, 0, hdr[2], hdr[3], 0x02, 0, 0, 0, 0}
		case 0x05: // OPTIONS
			reply = []byte{hdr[0] | 0x80, 0, hdr[2], hdr[3], 0x06, 0, 0, 0, 2, 0, 0}
		}
		if reply != nil {
			if _, err := tc.Write(reply); err != nil {
				return
			}
			o.Replied++
		}
	}
}

// c19EmptyCertServer speaks just enough TLS 1.2 by hand to present an EMPTY certificate list: it reads the ClientHello, answers
// ServerHello + Certificate(no certificates) + ServerHelloDone, and then records every record the client sends. A client that
// authenticates the server must abort here (alert); a ClientKeyExchange / ChangeCipherSpec / application record means it went on.
func c19EmptyCertServer(rec *recConn, o *c19ConnObs) {
	hdr := make([]byte, 5)
	if _, err := io.ReadFull(rec, hdr); err != nil {
		o.HandshakeErr = "reading ClientHello: " + err.Error()
		return
	}
	n := int(binary.BigEndian.Uint16(hdr[3:5]))
	if hdr[0] != 22 || n < 42 {
		o.HandshakeErr = "first record is not a handshake record"
		return
	}
	ch := make([]byte, n)
	if _, err := io.ReadFull(rec, ch); err != nil {
		o.HandshakeErr = "reading ClientHello: " + err.Error()
		return
	}
	sni, suites, err := c19ParseClientHello(ch)
	if err != nil {
		o.HandshakeErr = "parsing ClientHello: " + err.Error()
		return
	}
	o.SawHello = true
	o.SNI = sni
	suite := uint16(0)
	for _, want := range []uint16{0xC02F, 0xC02B, 0xC030, 0xC02C, 0xCCA8, 0xCCA9, 0xC013, 0xC009} {
		for _, s := range suites {
			if s == want {
				suite = want
				break
			}
		}
		if suite != 0 {
			break
		}
	}
	if suite == 0 {
		o.HandshakeErr = "client offers no TLS 1.2 ECDHE suite known to the empty-certificate server"
		return
	}
	random := make([]byte, 32)
	_, _ = crand.Read(random)
	random[31] = 0xAA // never the TLS 1.3 downgrade sentinel
	sh := []byte{0x03, 0x03}
	sh = append(sh, random...)
	sh = append(sh, 0)                           // empty session id
	sh = append(sh, byte(suite>>8), byte(suite)) // cipher suite
	sh = append(sh, 0)                           // null compression; no extensions
	hs := func(typ byte, body []byte) []byte {
		return append([]byte{typ, byte(len(body) >> 16), byte(len(body) >> 8), byte(len(body))}, body...)
	}
	flight := hs(2, sh)                                 // ServerHello
	flight = append(flight, hs(11, []byte{0, 0, 0})...) // Certificate: certificate_list of length 0
	flight = append(flight, hs(14, nil)...)             // ServerHelloDone
	record := append([]byte{22, 0x03, 0x03, byte(len(flight) >> 8), byte(len(flight))}, flight...)
	if _, err := rec.Write(record); err != nil {
		o.HandshakeErr = "writing server flight: " + err.Error()
		return
	}
	o.TLSVersion = "TLS 1.2 (hand-written, empty Certificate)"
	_, _ = io.Copy(io.Discard, rec)
	types := rec.recordTypes()
	o.HandshakeErr = "client stopped after the empty Certificate message"
	for _, t := range types[1:] {
		if t != 21 {
			o.HandshakeOK = true // the client continued the handshake with an unauthenticated server
			o.HandshakeErr = ""
		}
		if t == 23 {
			o.AppBytes++
		}
	}
}

func c19ParseClientHello(b []byte) (sni string, suites []uint16, err error) {
	bad := errors.New("truncated")
	if len(b) < 4 || b[0] != 1 {
		return "", nil, errors.New("not a ClientHello")
	}
	b = b[4:]
	if len(b) < 35 {
		return "", nil, bad
	}
	b = b[34:] // version + random
	sl := int(b[0])
	if len(b) < 1+sl+2 {
		return "", nil, bad
	}
	b = b[1+sl:]
	cl := int(binary.BigEndian.Uint16(b))
	if len(b) < 2+cl+1 {
		return "", nil, bad
	}
	for i := 0; i+1 < cl; i += 2 {
		suites = append(suites, binary.BigEndian.Uint16(b[2+i:]))
	}
	b = b[2+cl:]
	ml := int(b[0])
	if len(b) < 1+ml {
		return "", nil, bad
	}
	b = b[1+ml:]
	if len(b) < 2 {
		return "", suites, nil
	}
	el := int(binary.BigEndian.Uint16(b))
	b = b[2:]
	if len(b) < el {
		return "", nil, bad
	}
	b = b[:el]
	for len(b) >= 4 {
		typ := binary.BigEndian.Uint16(b)
		l := int(binary.BigEndian.Uint16(b[2:]))
		if len(b) < 4+l {
			return "", nil, bad
		}
		data := b[4 : 4+l]
		b = b[4+l:]
		if typ == 0 && len(data) >= 5 { // server_name: list length(2) type(1) name length(2) name
			nl := int(binary.BigEndian.Uint16(data[3:]))
			if len(data) >= 5+nl {
				sni = string(data[5 : 5+nl])
			}
		}
	}
	return sni, suites, nil
}

// ---------------------------------------------------------------------------------------------------------------------
// DNS stub: every A query is answered with 127.0.0.1 (AAAA: no records), over an in-memory pipe. Installed as
// net.DefaultResolver for the worker process so that https://<any generated bundle host>:<port>/metadata reaches the harness.

var c19DNSQueries struct {
	sync.Mutex
	n int
}

func c19StubResolver() *net.Resolver {
	return &net.Resolver{PreferGo: true, Dial: func(ctx context.Context, network, address string) (net.Conn, error) {
		cl, srv := net.Pipe()
		go c19ServeDNS(srv)
		return cl, nil
	}}
}

func c19ServeDNS(c net.Conn) {
	defer c.Close()
	_ = c.SetDeadline(time.Now().Add(30 * time.Second))
	for {
		var l [2]byte
		if _, err := io.ReadFull(c, l[:]); err != nil {
			return
		}
		q := make([]byte, binary.BigEndian.Uint16(l[:]))
		if _, err := io.ReadFull(c, q); err != nil {
			return
		}
		if len(q) < 17 {
			return
		}
		// question: name (labels) + type + class
		i := 12
		for i < len(q) && q[i] != 0 {
			i += int(q[i]) + 1
		}
		if i+5 > len(q) {
			return
		}
		qend := i + 5
		qtype := binary.BigEndian.Uint16(q[i+1:])
		resp := []byte{q[0], q[1], 0x81, 0x80, 0, 1, 0, 0, 0, 0, 0, 0}
		resp = append(resp, q[12:qend]...)
		if qtype == 1 {
			resp[7] = 1
			resp = append(resp, 0xC0, 0x0C, 0, 1, 0, 1, 0, 0, 0, 60, 0, 4, 127, 0, 0, 1)
		}
		c19DNSQueries.Lock()
		c19DNSQueries.n++
		c19DNSQueries.Unlock()
		out := append([]byte{byte(len(resp) >> 8), byte(len(resp))}, resp...)
		if _, err := c.Write(out); err != nil {
			return
		}
	}
}
