//go:build verif

package scen

import (
	"encoding/json"
	"fmt"
	"math/rand"
	"os"
	"os/exec"
	"path/filepath"
	"regexp"
	"sort"
	"strconv"
	"strings"
	"sync"
	"sync/atomic"
	"syscall"
	"time"

	"github.com/datastax/cql-proxy/parser"

	"verif/gen"
	"verif/mon"
)

// C06 — the idempotency classifier parser.IsQueryIdempotent is sound, complete on plain mutations, stable under
// re-spelling and total.  Ground truth comes from verif/gen (by construction), never from the parser.
//
// Layout: the last shard(s) run only the deep-nesting totality cases (an unrecoverable stack overflow there must not cost the
// evidence of the other shards): one shard for depths up to 1e5 and, in the thorough tier, one shard per bracket/context for depths
// of 1 Mi .. 16 Mi in ascending order (each case in a child process of its own); the other shards split the statement batches and the hostile-input batches.  One Step per
// batch of c06Batch inputs, every input is a function of (VERIF_SEED, index), so a crash names a batch that can be replayed.

const c06Batch = 500

func init() {
	Register(&Runner{Prop: "C06", Level: "exploration",
		Rule: "PRNG-driven CQL grammar (INSERT values/JSON, UPDATE with every update-operation form, DELETE with element/field deletions, BATCH, nested terms, USING/WHERE/IF) with ground truth " +
			"IDEMP/NONIDEMP(reason)/EITHER attached by construction; each statement is classified in its canonical spelling and in 4 (quick) / 6 (thorough) re-spellings (keyword and function-name case, " +
			"whitespace runs of SP/TAB/LF/CRLF, optional ';'), plus one lone-CR re-spelling and, for a tenth of them, a dollar-quoted twin; hostile inputs are truncations, token deletions/duplications/swaps, " +
			"byte flips, hostile byte insertions, random bytes, token soup, very long tokens and nesting up to 1e5 (quick) / 16 Mi (thorough). distinct = hash of the normalised token-class sequence " +
			"(capped at 4096 keys per shard; observed.nontrivial_statements has the uncapped count); non-trivial = the statement has >= 1 nested term or clause beyond the minimal form.",
		Shards:  shards(9, 21),
		Timeout: timeouts(5*time.Minute, 45*time.Minute),
		Run:     runC06})
}

type c06 struct {
	c        *Ctx
	r        *mon.Result
	obs      map[string]int
	keys     map[string]struct{}
	evals    int
	samples  int
	maxDepth int
	hung     int         // classifications that did not return
	timer    *time.Timer // reused by classify
}

func (k *c06) flush() {
	for key, n := range k.obs {
		k.r.Obs(key, n)
	}
	k.obs = map[string]int{}
	k.r.Eval(k.evals)
	k.evals = 0
}

// classify calls the function under test; a panic is turned into a violation naming the input class, and so is a call
// that does not come back ("classification terminates"): the call runs on its own goroutine and is given 30 s plus 1 s per
// 100 kB of input (statements of this size are classified in micro- to milliseconds); the wait is extended while the whole
// process got less than 10 s of CPU time meanwhile (a starved machine), at most three times - then it is inconclusive.
// After two such inputs the shard stops classifying (every one leaves a goroutine spinning).
func (k *c06) classify(text, class string, scenario map[string]interface{}) (ok bool, err error, panicked bool) {
	if k.hung >= 2 {
		return false, nil, true
	}
	type res struct {
		ok  bool
		err error
		p   interface{}
	}
	ch := make(chan res, 1)
	k.evals++
	go func() {
		var rs res
		defer func() {
			if p := recover(); p != nil {
				rs.p = p
			}
			ch <- rs
		}()
		rs.ok, rs.err = parser.IsQueryIdempotent(text)
	}()
	var rs res
	select {
	case rs = <-ch:
	default:
		budget := 30*time.Second + time.Duration(len(text)/100000)*time.Second
		if k.timer == nil {
			k.timer = time.NewTimer(budget)
		} else {
			k.timer.Reset(budget)
		}
		cpu0 := processCPU()
		back := false
		for ext := 0; ext < 4 && !back; ext++ {
			select {
			case rs = <-ch:
				back = true
			case <-k.timer.C:
				if processCPU()-cpu0 >= 10*time.Second {
					ext = 4
				} else {
					k.timer.Reset(budget)
				}
			}
		}
		if !back {
			k.hung++
			if processCPU()-cpu0 < 10*time.Second {
				k.r.Inconc(fmt.Sprintf("c06: a classification did not return, but the process got only %s of CPU time while waiting: %q", processCPU()-cpu0, clip(text, 200)))
				return false, nil, true
			}
			k.r.Violate(mon.Violation{Signature: "C06/does-not-terminate/" + class, Detail: fmt.Sprintf("IsQueryIdempotent did not return within %s (the process used %s of CPU time meanwhile) on a %s input of %d bytes: %q", budget, processCPU()-cpu0, class, len(text), clip(text, 400)),
				Scenario: scenario, Witness: map[string]interface{}{"input": clip(text, 4000)}})
			return false, nil, true
		}
		if !k.timer.Stop() {
			select {
			case <-k.timer.C:
			default:
			}
		}
	}
	if rs.p != nil {
		msg := regexp.MustCompile(`\d+`).ReplaceAllString(fmt.Sprint(rs.p), "N")
		if len(msg) > 80 {
			msg = msg[:80]
		}
		k.r.Violate(mon.Violation{Signature: "C06/panic/" + class + "/" + msg, Detail: fmt.Sprintf("IsQueryIdempotent panicked (%v) on a %s input: %q", rs.p, class, clip(text, 400)),
			Scenario: scenario, Witness: map[string]interface{}{"input": clip(text, 4000), "panic": fmt.Sprint(rs.p)}})
		return false, nil, true
	}
	ok, err = rs.ok, rs.err
	if ok && err != nil && class != "diagnosis" {
		// "anything it cannot parse is reported not idempotent": an error return is the classifier's own statement that it could not
		k.r.Violate(mon.Violation{Signature: "C06/error-with-idempotent-verdict/" + slug(err), Detail: fmt.Sprintf("IsQueryIdempotent returned (true, %v) on a %s input: %q", err, class, clip(text, 400)),
			Scenario: scenario, Witness: map[string]interface{}{"input": clip(text, 4000), "error": err.Error()}})
	}
	return ok, err, false
}

// processCPU is the CPU time (user + system) this process has used so far.
func processCPU() time.Duration {
	var ru syscall.Rusage
	if syscall.Getrusage(syscall.RUSAGE_SELF, &ru) != nil {
		return 0
	}
	return time.Duration(ru.Utime.Nano() + ru.Stime.Nano())
}

func clip(s string, n int) string {
	if len(s) > n {
		return s[:n] + fmt.Sprintf("…(%d bytes)", len(s))
	}
	return s
}

func slug(err error) string {
	if err == nil {
		return "no-error"
	}
	s := strings.ToLower(err.Error())
	s = regexp.MustCompile(`[^a-z0-9]+`).ReplaceAllString(s, "-")
	s = strings.Trim(s, "-")
	if len(s) > 60 {
		s = s[:60]
	}
	return s
}

// c06Mode derives the generation mode of statement i (40 % IDEMP, 45 % NONIDEMP cycling through the constructs, 15 % EITHER).
func (k *c06) mode(i int) gen.Mode {
	m := gen.Mode{MaxDepth: 6}
	if !k.c.Quick() && i%10 == 7 {
		m.MaxDepth = 40
	}
	switch v := i % 20; {
	case v < 8:
		m.Want = gen.Idemp
	case v < 17:
		m.Want = gen.NonIdemp
		m.Force = gen.NonIdempForces[(i/20*9+(v-8))%len(gen.NonIdempForces)]
	default:
		m.Want = gen.Either
	}
	return m
}

const c06HostileBase = 1 << 40

func (k *c06) stmt(i int, dollar bool) *gen.Stmt {
	m := k.mode(i)
	m.Dollar = dollar
	return gen.Generate(k.c.Rng(i), m)
}

func stmtKind(s *gen.Stmt) string {
	if len(s.Toks) == 0 {
		return "empty"
	}
	return strings.ToLower(s.Toks[0].C)
}

// ---------------------------------------------------------------------------------------------------------------------
// diagnosis: turn a refuting statement into a stable, specific signature (the verdict is already established by the ground
// truth; the function under test is only used here to find the smallest part of the statement that reproduces it)

func (k *c06) fails(text string) bool {
	ok, err, _ := k.classify(text, "diagnosis", nil)
	return !ok || err != nil
}

// incompleteSig names the smallest construct of an IDEMP statement that is reported not idempotent.
func (k *c06) incompleteSig(s *gen.Stmt, err error, depth int) (sig, minimal string) {
	if len(s.Children) > 0 && depth == 0 {
		for ci := range s.Children {
			ch := s.Child(ci)
			if ch.Truth == gen.Idemp && k.fails(ch.Text()) {
				_, e, _ := k.classify(ch.Text(), "diagnosis", nil)
				return k.incompleteSig(ch, e, 1)
			}
		}
	}
	var nodes []*gen.Node
	for _, n := range s.Terms {
		n.Walk(func(m *gen.Node) { nodes = append(nodes, m) })
	}
	sort.SliceStable(nodes, func(a, b int) bool { return nodes[a].End-nodes[a].Start < nodes[b].End-nodes[b].Start })
	// the probe wrapper itself must be classified idempotent, otherwise isolating terms in it says nothing
	c06Probe := ""
	for _, pr := range []string{"INSERT INTO t (a) VALUES (", "insert into t (a) values (", "UPDATE t SET a = (", "DELETE FROM t WHERE a = ("} {
		if !k.fails(pr + "0)") {
			c06Probe = pr
			break
		}
	}
	if c06Probe == "" {
		nodes = nil
	}
	for _, n := range nodes {
		text := c06Probe + gen.JoinToks(s.Toks[n.Start:n.End]) + ")"
		if !k.fails(text) {
			continue
		}
		if len(n.Kids) == 0 {
			return "C06/incomplete/term/" + n.Kind, text
		}
		// a container: does a single element reproduce it?
		open, close := s.Toks[n.Start].S, s.Toks[n.End-1].S
		step := 1
		if n.Kind == "map" {
			step = 2
		}
		for j := 0; j+step-1 < len(n.Kids); j += step {
			a, b := n.Kids[j].Start, n.Kids[j+step-1].End
			inner := n.Kids[j].Kind
			if n.Kind == "udt" {
				a -= 2 // field name and ':'
			}
			if n.Kind == "map" {
				inner += ":" + n.Kids[j+1].Kind
			}
			t2 := c06Probe + open + gen.JoinToks(s.Toks[a:b]) + close + ")"
			if k.fails(t2) {
				return "C06/incomplete/term/" + n.Kind + "{" + inner + "}", t2
			}
		}
		kinds := map[string]bool{}
		for _, kid := range n.Kids {
			kinds[kid.Kind] = true
		}
		var ks []string
		for kk := range kinds {
			ks = append(ks, kk)
		}
		sort.Strings(ks)
		return "C06/incomplete/term/" + n.Kind + "{" + strings.Join(ks, ",") + "}", text
	}
	// no term fails on its own: replace every root term by a placeholder and see whether the clause skeleton fails
	var sb []gen.Tok
	pos := 0
	for _, n := range s.Terms {
		if n.Start < pos {
			continue
		}
		sb = append(sb, s.Toks[pos:n.Start]...)
		ph := gen.Tok{S: "0", K: gen.KLit, C: "n"}
		if n.Role == "delete-index" {
			ph = gen.Tok{S: "'k'", K: gen.KStr, C: "s"}
		} else if n.Slot == "update-colop" && n.Role == "top" {
			ph = gen.Tok{S: "{}", K: gen.KPun, C: "{}"}
		}
		sb = append(sb, ph)
		pos = n.End
	}
	sb = append(sb, s.Toks[pos:]...)
	skeleton := gen.JoinToks(sb)
	if k.fails(skeleton) {
		_, e, _ := k.classify(skeleton, "diagnosis", nil)
		return "C06/incomplete/clause/" + stmtKind(s) + "/" + slug(e), skeleton
	}
	return "C06/incomplete/term-in-context/" + stmtKind(s) + "/" + slug(err), s.Text()
}

// unsoundSigs names the documented non-idempotent construct(s) that a NONIDEMP statement reported idempotent contains: one
// signature per distinct construct (all of them were missed).  For a construct inside a batch child that is classified
// correctly when the child stands alone, the signature names the batch instead of the nesting context.
func (k *c06) unsoundSigs(s *gen.Stmt) []string {
	alone := map[int]bool{} // child index -> reported idempotent on its own
	sigs := map[string]bool{}
	for _, rs := range s.Reasons {
		n := rs.Name
		if rs.Parent != "" {
			n += "/in=" + rs.Parent
		}
		sig := "C06/unsound/" + n
		for ci, cr := range s.Children {
			if rs.Pos < cr[0] || rs.Pos >= cr[1] {
				continue
			}
			v, seen := alone[ci]
			if !seen {
				v, _, _ = k.classify(s.Child(ci).Text(), "diagnosis", nil)
				alone[ci] = v
			}
			if !v {
				sig = "C06/unsound/batch-child/" + rs.Name
			}
		}
		sigs[sig] = true
	}
	var out []string
	for sig := range sigs {
		out = append(out, sig)
	}
	sort.Strings(out)
	return out
}

var wsNames = map[string]string{" ": "SP", "\t": "TAB", "\n": "LF", "\r\n": "CRLF"}

// unstableSig attributes a verdict that changed under re-spelling to the smallest spelling change that reproduces it.
func (k *c06) unstableSig(s *gen.Stmt, base bool) (sig, minimal string) {
	verdict := func(t string) bool { ok, _, _ := k.classify(t, "diagnosis", nil); return ok }
	canon := s.Text()
	for _, t := range []string{canon + ";", canon + " ;", canon + "; "} {
		if verdict(t) != base {
			return "C06/unstable/terminator", t
		}
	}
	for mode := 0; mode < 2; mode++ {
		if t := s.SpellCase(mode, -1); verdict(t) != base {
			for i, tok := range s.Toks {
				if tok.K != gen.KKw && tok.K != gen.KFn {
					continue
				}
				if t1 := s.SpellCase(mode, i); verdict(t1) != base {
					return "C06/unstable/letter-case/" + tok.C, t1
				}
			}
			return "C06/unstable/letter-case/several-tokens", t
		}
	}
	for _, w := range []string{" ", "\t", "\n", "\r\n"} {
		if t := s.SpellWs(w, "", -1); verdict(t) != base {
			return "C06/unstable/whitespace/" + wsNames[w], t
		}
	}
	for _, w := range []string{" ", "\t", "\n", "\r\n"} {
		if t := s.SpellWs(" ", w, -1); verdict(t) != base {
			for i := 1; i < len(s.Toks); i++ {
				if s.Mandatory(i) {
					continue
				}
				if t1 := s.SpellWs(" ", w, i); verdict(t1) != base {
					return "C06/unstable/optional-whitespace/" + wsNames[w] + "/between:" + s.Toks[i-1].C + "|" + s.Toks[i].C, t1
				}
			}
			return "C06/unstable/optional-whitespace/" + wsNames[w] + "/several-gaps", t
		}
	}
	return "C06/unstable/combination", ""
}

// ---------------------------------------------------------------------------------------------------------------------
// the per-statement check: soundness, completeness, stability (+ lone CR), dollar-quoted twin

func (k *c06) checkStmt(i int) {
	c, r := k.c, k.r
	s := k.stmt(i, false)
	text := s.Text()
	scenario := map[string]interface{}{"kind": "stmt", "index": i}
	if i%4 == 1 {
		// the verdict on a text must not depend on which texts were classified before it: look-alikes of this statement that
		// mean something else (quoted spellings of now/uuid/system that name user functions, other letter case inside quotes,
		// whitespace the grammar does not know, a truncated copy) go first; their own verdicts are not judged
		for _, p := range c06Lookalikes(text) {
			if _, _, pp := k.classify(p, "lookalike-of-generated-statement", scenario); pp {
				return
			}
		}
		scenario["classified_after_lookalikes"] = true
		k.obs["statements_classified_after_lookalikes"]++
	}
	base, err, panicked := k.classify(text, "generated-statement", scenario)
	if panicked {
		return
	}
	k.obs["statements"]++
	k.obs["truth:"+s.Truth.String()]++
	for _, cn := range s.Constructs {
		k.obs["construct:"+cn]++
	}
	for _, e := range s.EitherWhy {
		k.obs["either:"+e]++
	}
	if s.MaxDepth > k.maxDepth {
		k.maxDepth = s.MaxDepth
	}
	if s.Nested {
		k.obs["nontrivial_statements"]++
		if len(k.keys) < 4096 {
			k.keys[s.ShapeHash()] = struct{}{}
		}
	}
	witness := func(extra map[string]interface{}) map[string]interface{} {
		w := map[string]interface{}{"statement": clip(text, 6000), "truth": s.Truth.String(), "verdict": base, "error": fmt.Sprint(err)}
		if len(s.Reasons) > 0 {
			var rs []string
			for _, x := range s.Reasons {
				rs = append(rs, fmt.Sprintf("%s slot=%s text=%s", x.Key(), x.Slot, clip(x.Text, 200)))
			}
			w["reasons"] = rs
		}
		for kk, v := range extra {
			w[kk] = v
		}
		return w
	}
	switch s.Truth {
	case gen.NonIdemp:
		for _, rs := range s.Reasons {
			k.obs["reason:"+rs.Name]++
			ctx := rs.Parent
			if ctx == "" {
				ctx = "clause"
			}
			b := ""
			if rs.Batch {
				b = "/batch-child"
			}
			k.obs["reason-context:"+rs.Name+"/slot="+rs.Slot+"/in="+ctx+b]++
		}
		// (a) soundness
		if base {
			for _, sig := range k.unsoundSigs(s) {
				r.Violate(mon.Violation{Signature: sig, Detail: fmt.Sprintf("reported idempotent although it contains a documented non-idempotent construct (%q): %q", s.Reasons[0].Text, clip(text, 500)),
					Scenario: scenario, Witness: witness(nil)})
			}
		} else {
			k.obs["soundness_held"]++
		}
	case gen.Idemp:
		// (b) completeness
		if !base || err != nil {
			sig, minimal := k.incompleteSig(s, err, 0)
			r.Violate(mon.Violation{Signature: sig, Detail: fmt.Sprintf("a plain mutation built only from literals, bind markers and set/map additions is reported not idempotent (verdict=%v err=%v); smallest reproducer found: %q",
				base, err, clip(minimal, 400)), Scenario: scenario, Witness: witness(map[string]interface{}{"minimal": clip(minimal, 2000)})})
		} else {
			k.obs["completeness_held"]++
		}
	default:
		k.obs[fmt.Sprintf("either_verdict:%v", base)]++
	}
	// (c) stability under re-spelling
	rng := c.Rng(i + 1<<38)
	nre := c.Pick(4, 6)
	for j := 0; j < nre; j++ {
		t := s.Respell(rng, gen.WsStd, true)
		v, _, p := k.classify(t, "re-spelling", scenario)
		if p {
			continue
		}
		k.obs["respellings"]++
		if v != base {
			sig, minimal := k.unstableSig(s, base)
			if minimal == "" {
				minimal = t
			}
			r.Violate(mon.Violation{Signature: sig, Detail: fmt.Sprintf("verdict %v for the canonical spelling, %v for the re-spelling %q", base, v, clip(minimal, 400)),
				Scenario: scenario, Witness: witness(map[string]interface{}{"respelling": clip(t, 6000), "minimal_respelling": clip(minimal, 2000)})})
			break
		}
	}
	// lone CR: its own sub-check and signature
	if cr, twin, ok := s.RespellCR(rng); ok {
		vt, _, p1 := k.classify(twin, "re-spelling", scenario)
		vc, _, p2 := k.classify(cr, "lone-CR-re-spelling", scenario)
		if !p1 && !p2 {
			k.obs["lone_cr_respellings"]++
			if vt == base && vc != base {
				minimal := cr
				for g := 1; g < len(s.Toks); g++ { // one lone CR in one gap of the canonical spelling
					t1 := gen.JoinToks(s.Toks[:g]) + "\r" + gen.JoinToks(s.Toks[g:])
					if v1, _, _ := k.classify(t1, "diagnosis", nil); v1 != base {
						minimal = t1
						break
					}
				}
				r.Violate(mon.Violation{Signature: "C06/unstable/lone-CR", Detail: fmt.Sprintf("verdict %v with spaces, %v when a lone carriage return (CQL whitespace) separates two tokens: %q", base, vc, clip(minimal, 400)),
					Scenario: scenario, Witness: witness(map[string]interface{}{"respelling": clip(cr, 6000), "minimal_respelling": clip(minimal, 2000)})})
			} else if vc == base {
				k.obs["lone_cr_same_verdict"]++
			}
		}
	}
	// dollar-quoted twin: same statement, some string literals spelled $$...$$
	if i%10 == 3 {
		if d := k.stmt(i, true); d.Dollar && len(d.Toks) == len(s.Toks) && d.Truth == s.Truth {
			dt := d.Text()
			dsc := map[string]interface{}{"kind": "stmt", "index": i, "dollar": true}
			v, derr, p := k.classify(dt, "dollar-quoted-statement", dsc)
			if !p {
				k.obs["dollar_statements"]++
				k.obs["dollar_truth:"+d.Truth.String()]++
				w := map[string]interface{}{"statement": clip(dt, 6000), "plain_twin": clip(text, 6000), "truth": d.Truth.String(), "verdict": v, "twin_verdict": base, "error": fmt.Sprint(derr)}
				switch {
				case d.Truth == gen.Idemp && base && err == nil && (!v || derr != nil):
					r.Violate(mon.Violation{Signature: "C06/incomplete/dollar-quoted-string", Detail: fmt.Sprintf("reported idempotent with '...' string literals but not (verdict=%v err=%v) when they are spelled $$...$$: %q", v, derr, clip(dt, 400)),
						Scenario: dsc, Witness: w})
				case d.Truth == gen.NonIdemp && !base && v:
					r.Violate(mon.Violation{Signature: "C06/unsound/dollar-quoted-string", Detail: fmt.Sprintf("a non-idempotent statement (%q) is reported idempotent when string literals are spelled $$...$$: %q", d.Reasons[0].Text, clip(dt, 400)),
						Scenario: dsc, Witness: w})
				case v == base:
					k.obs["dollar_same_verdict"]++
				}
			}
		}
	}
	if k.samples < 3 && c.Shard == 0 && s.Nested {
		k.samples++
		r.Sample(map[string]interface{}{"statement": clip(text, 600), "truth": s.Truth.String(), "verdict": base, "error": fmt.Sprint(err)})
	}
}

// crafted dollar-quoted cases: a now()/uuid() call between two dollar-quoted strings whose bodies hold a single quote.
func (k *c06) craftedDollar() {
	cases := []struct{ name, text string }{
		{"insert-value", "INSERT INTO t (a, b, c) VALUES ($$'$$, now(), $$'$$)"},
		{"insert-value-uuid", "INSERT INTO ks.t (a, b, c) VALUES ($$' $$, uuid(), $$ '$$) USING TTL 5"},
		{"update-assign", "UPDATE t SET a = $$'$$, b = now(), c = $$'$$ WHERE k = 1"},
		{"where", "DELETE FROM t WHERE a = $$'$$ AND b = system.now() AND c = $$'$$"},
		{"batch-child", "BEGIN BATCH INSERT INTO t (a, b, c) VALUES ($$'$$, now(), $$'$$); APPLY BATCH"},
		{"lwt", "UPDATE t SET a = $$'$$ WHERE k = 1 IF v = $$'$$"},
	}
	for _, cs := range cases {
		sc := map[string]interface{}{"kind": "crafted-dollar", "name": cs.name}
		v, err, p := k.classify(cs.text, "dollar-quoted-statement", sc)
		if p {
			continue
		}
		k.obs["dollar_crafted"]++
		if v {
			k.r.Violate(mon.Violation{Signature: "C06/unsound/dollar-quoted-string", Detail: "a statement with a now()/uuid() call or IF clause between two $$...$$ literals holding a quote character is reported idempotent: " + cs.text,
				Scenario: sc, Witness: map[string]interface{}{"statement": cs.text, "verdict": v, "error": fmt.Sprint(err)}})
		}
	}
}

// crafted identifiers: every identifier position of the statement forms filled with unusual but lexable identifiers
// (empty quoted name, doubled quotes, keywords, one-character names); only totality is judged here.
func (k *c06) craftedIdentifiers() {
	ids := []string{`""`, `"a""b"`, `""""`, `" "`, `"now"`, `"NOW"`, `now`, `uuid`, `"uuid"`, `system`, `"system"`, `a`, `_`, `"1"`, `json`, `set`, `values`, `key`, `"."`, `"("`}
	forms := []string{
		"INSERT INTO %[1]s (k, v) VALUES (1, 2)", "INSERT INTO ks.%[1]s (k, v) VALUES (1, 2)", "INSERT INTO %[1]s.t (k, v) VALUES (1, 2)",
		"INSERT INTO t (%[1]s, v) VALUES (1, 2)", "INSERT INTO t (k, v) VALUES (1, %[1]s())", "INSERT INTO t (k, v) VALUES (1, %[1]s(2))",
		"INSERT INTO t (k, v) VALUES (1, ks.%[1]s())", "INSERT INTO t (k, v) VALUES (1, %[1]s.f())", "INSERT INTO t (k, v) VALUES (1, %[1]s.%[1]s(3))",
		"INSERT INTO t (k, v) VALUES (1, {%[1]s: 2})", "INSERT INTO t (k, v) VALUES (1, {%[1]s(): 2})", "INSERT INTO t (k, v) VALUES (1, {%[1]s.%[1]s(): 2})",
		"INSERT INTO t (k, v) VALUES (1, (%[1]s) 2)", "INSERT INTO t (k, v) VALUES (1, :%[1]s)", "INSERT INTO t (k, v) VALUES (1, [%[1]s(), 2])",
		"UPDATE %[1]s SET v = 1 WHERE k = 2", "UPDATE t SET %[1]s = 1 WHERE k = 2", "UPDATE t SET v = %[1]s() WHERE k = 2", "UPDATE t SET v = v + %[1]s() WHERE k = 2",
		"UPDATE t SET %[1]s.%[1]s = 1 WHERE k = 2", "UPDATE t SET v[%[1]s()] = 1 WHERE k = 2", "UPDATE t SET v = 1 WHERE %[1]s = 2", "UPDATE t SET v = 1 WHERE k = %[1]s(2)",
		"UPDATE t SET v = 1 WHERE k IN (1, %[1]s(2))", "UPDATE t SET v = 1 WHERE token(%[1]s) > %[1]s()", "UPDATE t USING TTL 1 SET v = 1 WHERE k = 2 IF %[1]s = 3",
		"DELETE %[1]s FROM t WHERE k = 1", "DELETE v[%[1]s()] FROM t WHERE k = 1", "DELETE v.%[1]s FROM t WHERE k = 1", "DELETE FROM %[1]s WHERE k = 1", "DELETE FROM t WHERE %[1]s CONTAINS %[1]s()",
		"BEGIN BATCH INSERT INTO %[1]s (k) VALUES (%[1]s()); UPDATE %[1]s SET %[1]s = %[1]s() WHERE %[1]s = 1 APPLY BATCH", "SELECT %[1]s FROM %[1]s", "USE %[1]s",
	}
	for _, id := range ids {
		for fi, f := range forms {
			text := fmt.Sprintf(f, id)
			sc := map[string]interface{}{"kind": "crafted-identifier", "form": fi, "id": id}
			if _, _, p := k.classify(text, "crafted-identifier", sc); !p {
				k.obs["crafted_identifier_statements"]++
			}
		}
	}
	k.r.NonTrivial("crafted-identifiers")
}

// flat repetition: plain statements in which one construct is repeated side by side (not nested) more often than any nesting
// bound of the parser: many relations, assignments, values, tuple elements, batch children. They are built only from
// literals, bind markers and set/map additions, so they are idempotent however long they are.
func (k *c06) flatRepetition(quick bool) {
	rels := []string{"a = 1", "(a, b) = (1, 2)", "(a, b) IN ((1, 2), (3, 4))", "(a) > (1)", "a IN (1, 2, ?)", "a = [1, 2]", "a = {1: 2}", "a = {x: 1}",
		"a CONTAINS 'x'", "a = ?", "a = :n", "a[1] = 2", "a = (1, (2, 3))"}
	assigns := []string{"v = 1", "s = s + {1}", "m = m + {1: 2}", "m[1] = 2", "u = {f: 1, g: 'x'}", "v = ?", "t = (1, 'a')", "u.f = 3", "v = [1, 2, 3]"}
	counts := []int{1023, 1024, 1025, 1100, 4000}
	if quick {
		counts = []int{1025, 1100}
	}
	check := func(what string, n int, text string) {
		sc := map[string]interface{}{"kind": "flat-repetition", "what": what, "n": n}
		v, err, p := k.classify(text, "flat-repetition", sc)
		if p {
			return
		}
		k.obs["flat_repetition_statements"]++
		if !v || err != nil {
			k.r.Violate(mon.Violation{Signature: "C06/incomplete/flat-repetition/" + what, Detail: fmt.Sprintf("a plain statement that repeats %q %d times side by side (no nesting) is reported not idempotent (verdict=%v err=%v): %s", what, n, v, err, clip(text, 300)),
				Scenario: sc, Witness: map[string]interface{}{"statement_head": clip(text, 2000), "verdict": v, "error": fmt.Sprint(err)}})
		}
	}
	for _, n := range counts {
		for _, rel := range rels {
			check("relation "+rel, n, "UPDATE ks.t SET v = 1 WHERE "+strings.TrimSuffix(strings.Repeat(rel+" AND ", n), " AND "))
			check("batch of DELETE WHERE "+rel, n, "BEGIN BATCH "+strings.Repeat("DELETE FROM ks.t WHERE "+rel+"; ", n)+"APPLY BATCH")
		}
		for _, as := range assigns {
			check("assignment "+as, n, "UPDATE ks.t SET "+strings.TrimSuffix(strings.Repeat(as+", ", n), ", ")+" WHERE k = 1")
			check("batch of UPDATE SET "+as, n, "BEGIN UNLOGGED BATCH "+strings.Repeat("UPDATE ks.t SET "+as+" WHERE k = 1 ", n)+"APPLY BATCH;")
		}
		cols := strings.TrimSuffix(strings.Repeat("c, ", n), ", ")
		for _, val := range []string{"1", "'x'", "?", "(1, 2)", "[1]", "{1: 2}", "{f: 1}"} {
			check("insert value "+val, n, "INSERT INTO ks.t ("+cols+") VALUES ("+strings.TrimSuffix(strings.Repeat(val+", ", n), ", ")+")")
			check("tuple element "+val, n, "INSERT INTO ks.t (k, v) VALUES (1, ("+strings.TrimSuffix(strings.Repeat(val+", ", n), ", ")+"))")
			check("IN list element "+val, n, "DELETE FROM ks.t WHERE k IN ("+strings.TrimSuffix(strings.Repeat(val+", ", n), ", ")+")")
		}
		check("batch of INSERT", n, "BEGIN BATCH "+strings.Repeat("INSERT INTO ks.t (k, v) VALUES (1, (2, 3)); ", n)+"APPLY BATCH")
	}
	k.r.NonTrivial("flat-repetition")
}

// ---------------------------------------------------------------------------------------------------------------------
// (d) totality: hostile inputs

var c06Soup = strings.Fields(`SELECT INSERT UPDATE DELETE BEGIN APPLY BATCH UNLOGGED COUNTER INTO FROM USING TTL TIMESTAMP SET WHERE AND IF NOT EXISTS IN IS NULL TOKEN CONTAINS KEY LIKE
JSON DEFAULT UNSET VALUES USE CREATE ALTER DROP ( ) [ ] { } , . : ; ? = + - += -= < > <= >= != * a b "q" 'str' $$d$$ $ ' " 1 -1 1.5 1e3 0xAB 1h P1Y NaN -Infinity true null
now uuid system 123e4567-e89b-12d3-a456-426614174000 (int) (list<int>) ks.t f( now() system.now() "" ""( "".""( """" :""`)

var c06HostileBytes = []string{"\x00", "\xff", "\xc3", "\xe2\x82", "$", "\"", "'", "\r", "\\", "µ", " ", "\x1b", "--", "/*", "\x80\x80\x80\x80"}

var c06HostileKinds = []string{"truncation", "token-deletion", "token-duplication", "token-swap", "byte-flip", "hostile-byte-insertion", "random-bytes", "token-soup", "long-token", "nesting"}

func c06Nest(open, close string, depth int, inner string) string {
	return strings.Repeat(open, depth) + inner + strings.Repeat(close, depth)
}

var c06NestForms = []struct{ name, open, close string }{
	{"[", "[", "]"}, {"(", "(", ")"}, {"{", "{", "}"}, {"{a:", "{a:", "}"}, {"{1:", "{1:", "}"}, {"f(", "f(", ")"}, {"(int)", "(int)", ""}, {"[{(", "[{(", ")}]"}, {"system.now(", "system.now(", ")"},
}

var c06NestCtx = []struct{ name, pre, post string }{
	{"insert-value", "INSERT INTO t (a) VALUES (", ")"}, {"update-assign", "UPDATE t SET a = ", " WHERE k = 1"}, {"where-term", "DELETE FROM t WHERE a = ", ""},
	{"where-relation", "UPDATE t SET a = 1 WHERE ", ""}, {"delete-index", "DELETE a[", "] FROM t WHERE k = 1"}, {"batch-child", "BEGIN BATCH INSERT INTO t (a) VALUES (", ") APPLY BATCH"},
}

func (k *c06) hostile(j int) (kind, text string) {
	rng := k.c.Rng(c06HostileBase + j)
	kind = c06HostileKinds[j%len(c06HostileKinds)]
	base := func() *gen.Stmt {
		return gen.Generate(rng, gen.Mode{Want: gen.Truth(rng.Intn(3)), MaxDepth: 5, Dollar: rng.Intn(4) == 0})
	}
	switch kind {
	case "truncation":
		t := base().Text()
		return kind, t[:rng.Intn(len(t)+1)]
	case "token-deletion", "token-duplication", "token-swap":
		s := base()
		toks := append([]gen.Tok{}, s.Toks...)
		for n := 1 + rng.Intn(3); n > 0 && len(toks) > 1; n-- {
			p := rng.Intn(len(toks))
			switch kind {
			case "token-deletion":
				toks = append(toks[:p], toks[p+1:]...)
			case "token-duplication":
				toks = append(toks[:p+1], toks[p:]...)
			default:
				q := rng.Intn(len(toks))
				toks[p], toks[q] = toks[q], toks[p]
			}
		}
		return kind, gen.JoinToks(toks)
	case "byte-flip":
		b := []byte(base().Text())
		for n := 1 + rng.Intn(4); n > 0 && len(b) > 0; n-- {
			b[rng.Intn(len(b))] = byte(rng.Intn(256))
		}
		return kind, string(b)
	case "hostile-byte-insertion":
		t := base().Text()
		for n := 1 + rng.Intn(3); n > 0; n-- {
			p := rng.Intn(len(t) + 1)
			t = t[:p] + c06HostileBytes[rng.Intn(len(c06HostileBytes))] + t[p:]
		}
		return kind, t
	case "random-bytes":
		b := make([]byte, rng.Intn(200))
		for i := range b {
			if rng.Intn(3) == 0 {
				const cs = " \t\n\r()[]{},.:;?=+-<>!*'\"$0aA_"
				b[i] = cs[rng.Intn(len(cs))]
			} else {
				b[i] = byte(rng.Intn(256))
			}
		}
		pre := []string{"", "", "INSERT ", "UPDATE t SET ", "DELETE ", "BEGIN BATCH ", "INSERT INTO t (a) VALUES ("}[rng.Intn(7)]
		return kind, pre + string(b)
	case "token-soup":
		n := 1 + rng.Intn(60)
		var sb strings.Builder
		for i := 0; i < n; i++ {
			sb.WriteString(c06Soup[rng.Intn(len(c06Soup))])
			if rng.Intn(5) > 0 {
				sb.WriteByte(' ')
			}
		}
		return kind, sb.String()
	case "long-token":
		n := 2000 + rng.Intn(20000)
		if j%(40*len(c06HostileKinds)) == 8 {
			n = 1 << 20
		}
		tok := []string{strings.Repeat("a", n), strings.Repeat("9", n), "'" + strings.Repeat("x", n), "\"" + strings.Repeat("q", n), "$" + strings.Repeat("d", n), "0x" + strings.Repeat("f", n),
			strings.Repeat("1h", n/2), "'" + strings.Repeat("''", n/2) + "'", strings.Repeat("\r", n), strings.Repeat(" ", n) + "1", "-" + strings.Repeat("0", n) + ".e" + strings.Repeat("1", n), strings.Repeat("\xff", n)}[rng.Intn(12)]
		ctx := c06NestCtx[rng.Intn(len(c06NestCtx))]
		return kind, ctx.pre + tok + ctx.post
	default: // nesting of moderate depth, mixed brackets
		depth := 10 + rng.Intn(3000)
		ctx := c06NestCtx[rng.Intn(len(c06NestCtx))]
		if rng.Intn(2) == 0 {
			f := c06NestForms[rng.Intn(len(c06NestForms))]
			inner := []string{"1", "", "now()", "?", "'x'"}[rng.Intn(5)]
			cl := f.close
			if rng.Intn(4) == 0 {
				cl = "" // unbalanced
			}
			return kind, ctx.pre + c06Nest(f.open, cl, depth, inner) + ctx.post
		}
		var sb strings.Builder
		for i := 0; i < depth; i++ {
			sb.WriteString(c06NestForms[rng.Intn(len(c06NestForms))].open)
		}
		return kind, ctx.pre + sb.String() + ctx.post
	}
}

func (k *c06) checkHostile(j int) {
	kind, text := k.hostile(j)
	v, err, p := k.classify(text, "hostile/"+kind, map[string]interface{}{"kind": "hostile", "index": j})
	if p {
		return
	}
	k.obs["hostile"]++
	k.obs["hostile:"+kind]++
	if v {
		k.obs["hostile_verdict_true"]++
	}
	if err != nil {
		k.obs["hostile_error_returned"]++
	}
	if k.samples < 5 && k.c.Shard == 1 && j%7 == 0 {
		k.samples++
		k.r.Sample(map[string]interface{}{"hostile": kind, "input": fmt.Sprintf("%q", clip(text, 200)), "verdict": v, "error": fmt.Sprint(err)})
	}
}

// deep nesting: each case is named in the progress file first; a goroutine stack overflow is a fatal error that kills this
// worker and is reported by the supervisor with the last START line.
type c06Deep struct {
	Form  string
	Depth int
	Ctx   string
}

// deepCases lists the cases of deep shard d: 0 = every construct x context up to 1e5; 1..4 = one bracket and context each
// ([ ( { in an INSERT value, ( around a WHERE relation), 1 Mi .. 16 Mi.
func (k *c06) deepCases(d int) []c06Deep {
	var out []c06Deep
	if d > 0 {
		v := []c06Deep{{Form: "[", Ctx: "insert-value"}, {Form: "(", Ctx: "insert-value"}, {Form: "{", Ctx: "insert-value"}, {Form: "(", Ctx: "where-relation"}}[(d-1)%4]
		for _, depth := range []int{1 << 20, 1 << 21, 1 << 22, 1 << 23, 1 << 24} {
			out = append(out, c06Deep{v.Form, depth, v.Ctx})
		}
		return out
	}
	for _, depth := range []int{1000, 10000, 100000} {
		for _, f := range []string{"[", "(", "{", "{a:", "{1:", "f(", "(int)", "[{(", "system.now("} {
			for _, cx := range []string{"insert-value", "where-relation", "update-assign", "delete-index", "batch-child"} {
				if cx == "where-relation" && f != "(" {
					continue
				}
				out = append(out, c06Deep{f, depth, cx})
			}
		}
	}
	return out
}

func (k *c06) runDeep(d c06Deep) {
	var open, cl, pre, post string
	for _, f := range c06NestForms {
		if f.name == d.Form {
			open, cl = f.open, f.close
		}
	}
	for _, cx := range c06NestCtx {
		if cx.name == d.Ctx {
			pre, post = cx.pre, cx.post
		}
	}
	k.c.Step("deep-nesting construct=%q depth=%d context=%s", d.Form, d.Depth, d.Ctx)
	for _, balanced := range []bool{true, false} {
		c := cl
		inner := "1"
		if !balanced {
			c, inner = "", ""
		}
		text := pre + c06Nest(open, c, d.Depth, inner) + post
		v, err, p := k.classify(text, "deep-nesting/"+d.Form, map[string]interface{}{"kind": "deep", "form": d.Form, "depth": d.Depth, "ctx": d.Ctx})
		if p {
			continue
		}
		k.obs["deep_nesting_cases"]++
		k.obs["deep:"+d.Form]++
		k.r.ObsMax("max:nesting_depth_returned", d.Depth)
		_ = v
		_ = err
	}
}

// runDeepIsolated runs one very deep case in a process of its own (this binary as a replay worker), so that an unrecoverable
// goroutine stack overflow is reported under a stable signature naming the bracket, and costs nothing else.  Returns false
// if the child died.
func (k *c06) runDeepIsolated(d c06Deep) bool {
	c := k.c
	c.Step("deep-nesting (isolated child) construct=%q depth=%d context=%s", d.Form, d.Depth, d.Ctx)
	self, err := os.Executable()
	if err != nil {
		k.r.Inconc("deep nesting: cannot find own executable: " + err.Error())
		return true
	}
	base := filepath.Join(c.Dir, "out", "logs", fmt.Sprintf("C06-%s-deep-s%d-d%d", c.Tier, c.Shard, d.Depth))
	rb, _ := json.Marshal(map[string]interface{}{"kind": "deep", "form": d.Form, "depth": d.Depth, "ctx": d.Ctx})
	if err := os.WriteFile(base+".replay.json", rb, 0o644); err != nil {
		k.r.Inconc("deep nesting: cannot write child scenario: " + err.Error())
		return true
	}
	defer func() {
		for _, ext := range []string{".replay.json", ".result.json", ".progress"} {
			_ = os.Remove(base + ext)
		}
	}()
	lf, err := os.Create(base + ".log")
	if err != nil {
		k.r.Inconc("deep nesting: cannot create child log: " + err.Error())
		return true
	}
	cmd := exec.Command(self, "worker", "C06", c.Tier, "0", "1", base+".result.json", base+".progress", base+".replay.json")
	cmd.Stdout, cmd.Stderr = lf, lf
	cmd.Env = append(os.Environ(), "GOTRACEBACK=single", "VERIF_DIR="+c.Dir)
	if err := cmd.Start(); err != nil {
		_ = lf.Close()
		k.r.Inconc("deep nesting: cannot start child: " + err.Error())
		return true
	}
	done := make(chan error, 1)
	go func() { done <- cmd.Wait() }()
	var werr error
	select {
	case werr = <-done:
	case <-time.After(15 * time.Minute): // generous watchdog, never a verdict
		_ = cmd.Process.Kill()
		<-done
		_ = lf.Close()
		k.r.Inconc(fmt.Sprintf("deep nesting construct=%q depth=%d: child did not finish in 15 min, log %s.log", d.Form, d.Depth, base))
		return true
	}
	_ = lf.Close()
	if werr == nil {
		k.obs["deep_nesting_cases"] += 2
		k.obs["deep:"+d.Form] += 2
		k.evals += 2
		k.r.ObsMax("max:nesting_depth_returned", d.Depth)
		_ = os.Remove(base + ".log")
		return true
	}
	out, _ := os.ReadFile(base + ".log")
	if len(out) > 3000 {
		out = out[:3000]
	}
	excerpt := string(out)
	scenario := map[string]interface{}{"kind": "deep", "form": d.Form, "depth": d.Depth, "ctx": d.Ctx}
	switch {
	case strings.Contains(excerpt, "stack overflow"):
		k.r.Violate(mon.Violation{Signature: fmt.Sprintf("C06/crash/stack-overflow/nested-%s/%s", d.Form, d.Ctx),
			Detail:   fmt.Sprintf("IsQueryIdempotent killed the process (fatal error: stack overflow, not recoverable) on %d nested %q (context %s); %d returned normally", d.Depth, d.Form, d.Ctx, d.Depth/2),
			Scenario: scenario, Witness: excerpt})
	case strings.Contains(excerpt, "panic:") || strings.Contains(excerpt, "fatal error:"):
		k.r.Violate(mon.Violation{Signature: fmt.Sprintf("C06/crash/other/nested-%s/%s", d.Form, d.Ctx), Detail: fmt.Sprintf("IsQueryIdempotent killed the process on %d nested %q (%v)", d.Depth, d.Form, werr),
			Scenario: scenario, Witness: excerpt})
	default:
		k.r.Inconc(fmt.Sprintf("deep nesting construct=%q depth=%d: child failed (%v) without a crash message (killed for memory?), log %s.log", d.Form, d.Depth, werr, base))
	}
	return false
}

// ---------------------------------------------------------------------------------------------------------------------

func runC06(c *Ctx) {
	r := c.R
	k := &c06{c: c, r: r, obs: map[string]int{}, keys: map[string]struct{}{}}
	r.Assume("SELECT statements, calls of functions other than now()/uuid(), casts, set/map removals and the 'col = term + col' form with a non-list term are outside the property's two lists: only stability and totality are checked for them (class EITHER)")
	r.Assume("'col += x' / 'col -= x' is CQL's shorthand for 'col = col +/- x' and is classified like it")
	r.Assume("deleting or setting a map element by a literal key that is not an integer literal, and 'col[i] = v', are plain mutations built from literals")
	r.Assume("CQL comments are not among the spelling variants the property lists")
	r.Require("statements", "truth:IDEMP", "truth:NONIDEMP", "truth:EITHER", "respellings", "lone_cr_respellings", "dollar_statements", "hostile", "deep_nesting_cases",
		"construct:stmt:insert", "construct:stmt:update", "construct:stmt:delete", "construct:stmt:batch", "construct:term:udt", "construct:term:tuple", "construct:term:map",
		"reason:now()", "reason:system.uuid()", "reason:counter-update", "reason:counter-batch", "reason:list-append", "reason:list-prepend", "reason:list-remove", "reason:delete-by-index",
		"reason:delete-by-bind-marker", "reason:lwt-if-not-exists", "reason:lwt-if-exists", "reason:lwt-if-condition", "reason:ambiguous-colop-bind-marker", "reason:ambiguous-colop-function")
	defer func() {
		k.flush()
		for key := range k.keys {
			r.NonTrivial(key)
		}
		r.ObsMax("max:term_depth", k.maxDepth)
	}()

	if c.Replay != nil {
		k.replay()
		return
	}
	nDeep := c.Pick(1, 5) // deep-nesting shards at the end
	work := c.NShards - nDeep
	if work < 1 {
		work, nDeep = 1, 0
	}
	if c.Shard >= work {
		overflowed := map[string]bool{}
		for _, d := range k.deepCases(c.Shard - work) {
			if d.Depth >= 1<<20 {
				if overflowed[d.Form] {
					k.obs["deep_skipped_after_overflow"]++
					continue
				}
				if !k.runDeepIsolated(d) {
					overflowed[d.Form] = true
				}
			} else {
				k.runDeep(d)
			}
			k.flush()
		}
		r.NonTrivial(fmt.Sprintf("deep-nesting-%d", c.Shard-work))
		return
	}
	nStmt := c.Pick(40000, 2000000)
	nHostile := c.Pick(40000, 2000000)
	if c.Shard == 0 {
		c.Step("crafted-dollar")
		k.craftedDollar()
		c.Step("crafted-identifiers")
		k.craftedIdentifiers()
	}
	if c.Shard == 1%work {
		c.Step("flat-repetition")
		k.flatRepetition(c.Quick())
	}
	if c.Shard == 2%work {
		c.Step("concurrent-classification")
		k.concurrentClassification()
	}
	for b := 0; b*c06Batch < nStmt; b++ {
		if b%work != c.Shard {
			continue
		}
		c.Step("stmt-batch first=%d n=%d", b*c06Batch, c06Batch)
		for i := b * c06Batch; i < (b+1)*c06Batch && i < nStmt; i++ {
			k.checkStmt(i)
		}
		k.flush()
	}
	for b := 0; b*c06Batch < nHostile; b++ {
		if b%work != c.Shard {
			continue
		}
		c.Step("hostile-batch first=%d n=%d", b*c06Batch, c06Batch)
		for j := b * c06Batch; j < (b+1)*c06Batch && j < nHostile; j++ {
			k.checkHostile(j)
		}
		k.flush()
	}
	if nDeep == 0 {
		for _, d := range k.deepCases(0) {
			k.runDeep(d)
		}
	}
}

var c06StartRe = regexp.MustCompile(`^(stmt|hostile)-batch first=(\d+) n=(\d+)`)
var c06DeepRe = regexp.MustCompile(`^deep-nesting construct="(.*)" depth=(\d+) context=(\S+)`)

// replay re-runs one recorded scenario: a statement or hostile input by index, a deep-nesting case, or (for a crash) the batch
// named by the last START line.
func (k *c06) replay() {
	m := k.c.Replay
	num := func(key string) int {
		if f, ok := m[key].(float64); ok {
			return int(f)
		}
		return 0
	}
	switch m["kind"] {
	case "stmt":
		k.c.Step("replay stmt %d", num("index"))
		k.checkStmt(num("index"))
	case "hostile":
		k.c.Step("replay hostile %d", num("index"))
		k.checkHostile(num("index"))
	case "crafted-dollar":
		k.craftedDollar()
	case "deep":
		k.runDeep(c06Deep{Form: fmt.Sprint(m["form"]), Depth: num("depth"), Ctx: fmt.Sprint(m["ctx"])})
	case "crash":
		last := fmt.Sprint(m["last_start"])
		if g := c06StartRe.FindStringSubmatch(last); g != nil {
			first, _ := strconv.Atoi(g[2])
			n, _ := strconv.Atoi(g[3])
			for i := first; i < first+n; i++ {
				k.c.Step("replay %s %d", g[1], i)
				if g[1] == "stmt" {
					k.checkStmt(i)
				} else {
					k.checkHostile(i)
				}
			}
		} else if g := c06DeepRe.FindStringSubmatch(last); g != nil {
			d, _ := strconv.Atoi(g[2])
			k.runDeep(c06Deep{Form: g[1], Depth: d, Ctx: g[3]})
		}
	}
	// a replay evaluates a single case: keep the bookkeeping requirements satisfiable
	k.r.NonTrivial("replay-a")
	k.r.NonTrivial("replay-b")
	k.r.Required = nil
}

var c06FnRe = regexp.MustCompile(`(?i)"?\b(now|uuid)"?(\s*\()`)
var c06SysRe = regexp.MustCompile(`(?i)"?\bsystem"?(\s*\.)`)
var c06WsRe = regexp.MustCompile(`[ \t\r\n]+`)

// c06Lookalikes: texts a careless canonicalisation would take for the statement itself.
func c06Lookalikes(text string) []string {
	var out []string
	add := func(t string) {
		if t != text && t != "" {
			out = append(out, t)
		}
	}
	add(c06FnRe.ReplaceAllStringFunc(text, func(m string) string {
		sub := c06FnRe.FindStringSubmatch(m)
		return `"` + strings.ToUpper(sub[1]) + `"` + sub[2]
	}))
	add(c06SysRe.ReplaceAllStringFunc(text, func(m string) string {
		sub := c06SysRe.FindStringSubmatch(m)
		return `"SYSTEM"` + sub[1]
	}))
	add(strings.ToLower(text))
	add(strings.ToUpper(text))
	add(c06WsRe.ReplaceAllString(text, "\v"))
	add(c06WsRe.ReplaceAllString(text, "\u00a0"))
	add(strings.ReplaceAll(text, `"`, ""))
	add(text[:len(text)/2])
	return out
}

// concurrentClassification: the classifier is called from every client connection's goroutine at once. Forty statements whose
// truth is known by construction are classified again and again by eight goroutines while eight others push thousands of
// distinct other statements through it; every verdict must be the one the statement gets when classified alone.
func (k *c06) concurrentClassification() {
	r := k.r
	type fixed struct {
		text string
		want bool
		kind string
	}
	var set []fixed
	for i := 0; len(set) < 40 && i < 4000; i++ {
		s := k.stmt(900000+i, false)
		if s.Truth == gen.Either {
			continue
		}
		v, err := parser.IsQueryIdempotent(s.Text())
		want := s.Truth == gen.Idemp
		if v != want || (want && err != nil) {
			continue // judged by the sequential part
		}
		set = append(set, fixed{s.Text(), want, s.Truth.String()})
	}
	if len(set) < 10 {
		r.Inconc("c06 concurrent classification: too few fixed statements")
		return
	}
	rounds := k.c.Pick(4000, 60000)
	var wg sync.WaitGroup
	var wrong int64
	var first atomic.Value
	stop := make(chan struct{})
	for g := 0; g < 8; g++ { // churn: distinct statements, verdicts not judged here
		wg.Add(1)
		go func(g int) {
			defer wg.Done()
			defer func() { _ = recover() }()
			for j := 0; ; j++ {
				select {
				case <-stop:
					return
				default:
				}
				_, _ = parser.IsQueryIdempotent(fmt.Sprintf("INSERT INTO ks.churn_%d_%d (k, v) VALUES (%d, 'x')", g, j, j))
			}
		}(g)
	}
	var wg2 sync.WaitGroup
	for g := 0; g < 8; g++ {
		wg2.Add(1)
		go func(g int) {
			defer wg2.Done()
			defer func() {
				if p := recover(); p != nil {
					atomic.AddInt64(&wrong, 1)
					first.CompareAndSwap(nil, fmt.Sprintf("panic: %v", p))
				}
			}()
			rng := rand.New(rand.NewSource(int64(g) + k.c.Seed))
			for j := 0; j < rounds; j++ {
				f := set[rng.Intn(len(set))]
				v, err := parser.IsQueryIdempotent(f.text)
				if v != f.want || (f.want && err != nil) {
					atomic.AddInt64(&wrong, 1)
					first.CompareAndSwap(nil, fmt.Sprintf("%s statement %q reported idempotent=%v err=%v (alone: %v)", f.kind, clip(f.text, 300), v, err, f.want))
				}
			}
		}(g)
	}
	wg2.Wait()
	close(stop)
	wg.Wait()
	r.Eval(8 * rounds)
	k.obs["concurrent_classifications"] += 8 * rounds
	if n := atomic.LoadInt64(&wrong); n > 0 {
		w, _ := first.Load().(string)
		r.Violate(mon.Violation{Signature: "C06/verdict-changes-under-concurrent-classification", Detail: fmt.Sprintf("%d of %d classifications by eight goroutines (beside eight goroutines classifying other statements) differ from the verdict the same text gets alone; e.g. %s", n, 8*rounds, w),
			Scenario: map[string]interface{}{"kind": "concurrent-classification"}})
	}
}
