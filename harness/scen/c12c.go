//go:build verif

package scen

import (
	"bytes"
	"encoding/binary"
	"fmt"
	"time"

	"github.com/datastax/go-cassandra-native-protocol/primitive"

	"verif/mon"
	"verif/rawcql"
)

// c12UndefinedConsistency ("requests with any other consistency are forwarded unmodified"): writes whose consistency short is
// no defined level but equals a listed one in its low bits (0x0014 beside QUORUM = 0x0004).  The reference codec refuses to
// encode such a value, so the two bytes are patched into the encoded body.  What the backend makes of the request is its
// business; if the proxy forwards it, the backend must receive the client's bytes.
func c12UndefinedConsistency(c *Ctx, rp *runProxy, idx int, cfgKey string, set []primitive.ConsistencyLevel) {
	r := c.R
	cl, err := rawcql.Dial(rp.addr, primitive.ProtocolVersion4, rp.log)
	if err != nil || cl.Handshake("", 10*time.Second) != nil {
		r.Inconc("c12 undefined consistency: cannot connect")
		return
	}
	defer cl.Close()
	sc := map[string]interface{}{"kind": "c12", "idx": idx, "config": cfgKey, "part": "undefined-consistency"}
	st := int16(100)
	for i, l := range set {
		if i >= 4 {
			break
		}
		for _, bit := range []uint16{0x10, 0x100, 0x4000} {
			cons := uint16(l) | bit
			tok := NewTok()
			st += 2
			f := BuildRequest(primitive.ProtocolVersion4, st, KQuery, true, tok, l)
			flags, body, err := cl.Encode(f)
			if err != nil || len(body) < 6 {
				r.Inconc("c12 undefined consistency: cannot encode")
				return
			}
			qlen := int(binary.BigEndian.Uint32(body[:4]))
			off := 4 + qlen
			if off+2 > len(body) || binary.BigEndian.Uint16(body[off:]) != uint16(l) {
				r.Inconc("c12 undefined consistency: harness cannot locate the consistency field")
				return
			}
			patched := withCons(body, off, cons)
			mark := rp.log.Len()
			ch := cl.Expect(st)
			if cl.SendFrame(primitive.ProtocolVersion4, flags, st, primitive.OpCodeQuery, patched) != nil {
				r.Inconc("c12 undefined consistency: send failed")
				return
			}
			_, _ = cl.Wait(ch, 10*time.Second) // an error answer (from the backend or the proxy) is as good as any
			if cl.IsClosed() {
				r.Obs("undefined_consistency_connection_closed", 1)
				return
			}
			// a sentinel behind it: the stream of frames towards the backend is still in step
			sf, serr := cl.CallF(BuildRequest(primitive.ProtocolVersion4, st+1, KQuery, true, NewTok(), primitive.ConsistencyLevelOne), 20*time.Second)
			r.Eval(1)
			r.Obs("undefined_consistency_values", 1)
			if serr != nil || sf == nil || sf.OpCode != primitive.OpCodeResult {
				r.Violate(mon.Violation{Signature: "C12/framing-out-of-sync/undefined-consistency", Detail: fmt.Sprintf("config %s: after a QUERY with consistency short %#04x the next request of the connection was not served (%v)", cfgKey, cons, serr), Scenario: sc})
				return
			}
			for _, e := range rp.log.Snapshot()[mark:] {
				if e.Src == "backend" && e.K == "recv" && e.Tok == tok && primitive.OpCode(e.Op) == primitive.OpCodeQuery {
					r.Obs("frames_compared", 1)
					r.NonTrivial(fmt.Sprintf("undefined-consistency/%#04x", cons))
					if !bytes.Equal(e.Body, patched) {
						got := uint16(0)
						if off+2 <= len(e.Body) {
							got = binary.BigEndian.Uint16(e.Body[off:])
						}
						r.Violate(mon.Violation{Signature: fmt.Sprintf("C12/modified-although-consistency-not-listed/undefined-value-like-%s", clNames[l]),
							Detail:   fmt.Sprintf("config %s: a non-SELECT QUERY with consistency short %#04x - no defined level, and not in the list - reached the backend with a different body (consistency field there: %#04x; %s = %#04x is listed)", cfgKey, cons, got, clNames[l], uint16(l)),
							Scenario: sc})
						return
					}
				}
			}
		}
	}
}
