//go:build verif

package scen

import (
	"fmt"
	"strings"
	"sync"
	"time"

	"github.com/datastax/go-cassandra-native-protocol/frame"
	"github.com/datastax/go-cassandra-native-protocol/message"
	"github.com/datastax/go-cassandra-native-protocol/primitive"

	"verif/fakecass"
	"verif/mon"
	"verif/px"
	"verif/rawcql"
)

// c04PartialWrite: a small non-idempotent write sits in the proxy's write queue of a backend connection between two requests
// larger than the socket buffers, while the node is slow to read.  When the node reads again the connection's writer takes the
// write and the second large request in one pass: the write reaches the node (and is applied) although the pass is not over -
// the writer is still blocked in the middle of the large request behind it, because the node stalls again.  Then the node's
// connections are lost.  The write may have been applied (it was): it must not be sent to another node.
func c04PartialWrite(c *Ctx, idx int) (ran bool) {
	r := c.R
	sc := map[string]interface{}{"kind": "c04-partial-write", "idx": idx}
	fillerSize := []int{24 << 20, 32 << 20}[idx%2]
	c.Step("c04 partial write idx=%d filler=%d MiB", idx, fillerSize>>20)
	bed, err := px.NewBed(px.BedConfig{Hosts: 2, NumConns: 1, Keyspaces: []string{"ks1"}, HeartBeat: 10 * time.Minute, Idle: 20 * time.Minute})
	if err != nil {
		r.Inconc("c04 partial write: cannot start bed: " + err.Error())
		return true
	}
	defer bed.Close()
	bed.OnHook(nil)
	stallTok, insTok, f1Tok, f2Tok := NewTok(), NewTok(), NewTok(), NewTok()
	releaseStall, releaseInsert := make(chan struct{}), make(chan struct{})
	var once1, once2 sync.Once
	defer once1.Do(func() { close(releaseStall) })
	defer once2.Do(func() { close(releaseInsert) })
	var mu sync.Mutex
	where := map[string][]int{}
	bed.Cluster.SetScript(func(a *fakecass.Arrival) fakecass.Outcome {
		mu.Lock()
		where[a.Token] = append(where[a.Token], a.Host)
		n := len(where[a.Token])
		mu.Unlock()
		switch a.Token {
		case stallTok:
			<-releaseStall // the node is busy: it does not read from this connection for a while
		case insTok:
			if n == 1 {
				<-releaseInsert // applied; the node stalls for good: no answer, nothing read any more
			}
		}
		return fakecass.Rows()
	})
	at := func(tok string) []int {
		mu.Lock()
		defer mu.Unlock()
		return append([]int{}, where[tok]...)
	}
	cl, err := bed.ReadyClient(primitive.ProtocolVersion4, "")
	if err != nil {
		r.Inconc("c04 partial write: handshake: " + err.Error())
		return true
	}
	defer cl.Close()
	stream := int16(0)
	send := func(q string) (int16, chan *rawcql.Frame) {
		stream++
		ch := cl.Expect(stream)
		_ = cl.SendF(frame.NewFrame(primitive.ProtocolVersion4, stream, &message.Query{Query: q, Options: &message.QueryOptions{Consistency: primitive.ConsistencyLevelQuorum}}))
		return stream, ch
	}
	dummy := func() bool { // a request for the other node; answered ⇒ the proxy has read (and queued) everything sent before it
		_, ch := send(fmt.Sprintf(idemInsert, NewTok()))
		_, err := cl.Wait(ch, 60*time.Second)
		return err == nil
	}
	filler := func(tok string) string {
		return "SELECT v FROM ks1.t WHERE k = '" + tok + strings.Repeat("z", fillerSize) + "'"
	}
	// the proxy uses the two nodes in turn: every second request goes to node A
	send(fmt.Sprintf(idemInsert, stallTok))
	ok := dummy()
	send(filler(f1Tok))
	ok = ok && dummy()
	_, insCh := send(fmt.Sprintf(nonIdemInsert, insTok))
	ok = ok && dummy()
	send(filler(f2Tok))
	ok = ok && dummy()
	if !ok || len(at(stallTok)) != 1 {
		r.Obs("partial_write_premise_missing", 1)
		return false
	}
	nodeA := at(stallTok)[0]
	if len(at(insTok)) != 0 || len(at(f1Tok)) != 0 || len(at(f2Tok)) != 0 {
		r.Obs("partial_write_premise_missing", 1) // the nodes were not used in turn
		return false
	}
	once1.Do(func() { close(releaseStall) })
	if !waitFor(func() bool { return len(at(insTok)) >= 1 }, 60*time.Second) {
		r.Obs("partial_write_premise_missing", 1)
		return false
	}
	if a := at(insTok); a[0] != nodeA || len(at(f2Tok)) != 0 {
		r.Obs("partial_write_premise_missing", 1)
		return false
	}
	time.Sleep(300 * time.Millisecond) // the writer runs into the full socket
	// node A goes away while the write it applied is unanswered
	bed.Cluster.Hosts[nodeA-1].Stop()
	f, werr := cl.Wait(insCh, 60*time.Second)
	// bounded progress instead of a wait: the large request behind the write is idempotent and is served by the other node;
	// once it has arrived there, a write that was (wrongly) sent on has arrived too (it was queued in front of it)
	waitFor(func() bool { return len(at(f2Tok)) >= 1 }, 30*time.Second)
	for i := 0; i < 3; i++ {
		dummy()
	}
	r.Eval(1)
	r.Obs("partial_write_cases", 1)
	r.NonTrivial(fmt.Sprintf("partial-write/filler=%dMiB", fillerSize>>20))
	nodes := at(insTok)
	if len(nodes) > 1 {
		reply := "no reply"
		if werr == nil {
			reply = c13OpName(f.OpCode)
		}
		r.Violate(mon.Violation{Signature: "C04/non-idempotent-sent-again/after-a-partly-written-pass",
			Detail:   fmt.Sprintf("a non-idempotent INSERT was queued on node %d's connection between two requests of %d MiB; the node read it (and stalled before answering) while the proxy was still writing the request behind it; the node's connections were then lost - and the INSERT was sent again: it arrived on nodes %v (client got: %s)", nodeA, fillerSize>>20, nodes, reply),
			Scenario: sc, Witness: map[string]interface{}{"arrivals_of_the_write": nodes, "arrivals_of_the_large_request_behind_it": at(f2Tok)}})
	}
	return true
}
