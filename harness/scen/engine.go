//go:build verif

package scen

import (
	"encoding/hex"
	"fmt"
	"strings"
	"sync"
	"sync/atomic"
	"time"

	"github.com/datastax/go-cassandra-native-protocol/frame"
	"github.com/datastax/go-cassandra-native-protocol/message"
	"github.com/datastax/go-cassandra-native-protocol/primitive"

	"verif/fakecass"
	"verif/model"
	"verif/mon"
	"verif/px"
	"verif/rawcql"
)

// ReqKind is the kind of a tokenised data request.
type ReqKind int

const (
	KQuery ReqKind = iota
	KExecute
	KBatch
	KPrepare
	KGraph // QUERY carrying a graph-source custom payload
)

func (k ReqKind) String() string {
	return [...]string{"QUERY", "EXECUTE", "BATCH", "PREPARE", "GRAPH"}[k]
}

var tokSeq int64

// NewTok returns a token unique in this process (client id + counter is folded into one counter).
func NewTok() string { return fmt.Sprintf("T%016x", atomic.AddInt64(&tokSeq, 1)) }

const (
	idemInsert      = "INSERT INTO ks1.t (k, v) VALUES ('%s', 1)"
	nonIdemInsert   = "INSERT INTO ks1.t (k, v) VALUES ('%s', now())"
	idemPrepared    = "INSERT INTO ks1.t (k, v) VALUES (?, 1)"
	nonIdemPrepared = "INSERT INTO ks1.t (k, v) VALUES (?, now())"
	selectPrepared  = "SELECT * FROM ks1.t WHERE k = ?"
)

// BuildRequest builds the reference frame of a tokenised request.
func BuildRequest(v primitive.ProtocolVersion, stream int16, kind ReqKind, idem bool, tok string, cons primitive.ConsistencyLevel) *frame.Frame {
	switch kind {
	case KQuery, KGraph:
		q := fmt.Sprintf(nonIdemInsert, tok)
		if idem {
			q = fmt.Sprintf(idemInsert, tok)
		}
		f := frame.NewFrame(v, stream, &message.Query{Query: q, Options: &message.QueryOptions{Consistency: cons}})
		if kind == KGraph {
			f.SetCustomPayload(map[string][]byte{"graph-source": []byte("g")})
		}
		return f
	case KPrepare:
		q := fmt.Sprintf(nonIdemInsert, tok)
		if idem {
			q = fmt.Sprintf(idemInsert, tok)
		}
		return frame.NewFrame(v, stream, &message.Prepare{Query: q})
	case KExecute:
		q := nonIdemPrepared
		if idem {
			q = idemPrepared
		}
		ex := &message.Execute{QueryId: fakecass.PreparedID("", q), Options: &message.QueryOptions{Consistency: cons,
			PositionalValues: []*primitive.Value{primitive.NewValue([]byte(tok))}}}
		if v.SupportsResultMetadataId() {
			ex.ResultMetadataId = fakecass.PreparedResultFor("", q, v).ResultMetadataId
		}
		return frame.NewFrame(v, stream, ex)
	case KBatch:
		second := fmt.Sprintf("UPDATE ks1.t SET v = 2 WHERE k = '%s'", tok)
		if !idem {
			second = fmt.Sprintf("UPDATE ks1.t SET l = l + [1] WHERE k = '%s'", tok)
		}
		children := []*message.BatchChild{{Query: fmt.Sprintf(idemInsert, tok)}, {Query: second}}
		if !idem && len(tok) > 0 && tok[len(tok)-1]%2 == 1 { // the non-idempotent child comes first for every other token
			children[0], children[1] = children[1], children[0]
		}
		return frame.NewFrame(v, stream, &message.Batch{Type: primitive.BatchTypeLogged, Consistency: cons, Children: children})
	}
	panic("unknown kind")
}

// PrepareStandard prepares the three standard statements through the proxy (so the proxy knows their idempotency) and
// teaches every host the ids, so EXECUTEs are not answered UNPREPARED unless a scenario wants that.
func PrepareStandard(bed *px.Bed, cl *rawcql.Client, teachAll bool) error {
	for i, q := range []string{idemPrepared, nonIdemPrepared, selectPrepared} {
		f, err := cl.Call(int16(30000+i), &message.Prepare{Query: q}, 10*time.Second)
		if err != nil {
			return err
		}
		if f.OpCode != primitive.OpCodeResult {
			return fmt.Errorf("prepare %q: opcode %v", q, f.OpCode)
		}
		if teachAll {
			for _, h := range bed.Cluster.Hosts {
				h.Learn(hex.EncodeToString(fakecass.PreparedID("", q)), q)
			}
		}
	}
	return nil
}

// Scripts maps tokens to the outcome sequence of their scripted arrivals (k-th consult → k-th element; Rows after).
type Scripts struct {
	mu sync.Mutex
	m  map[string][]model.Outcome
	// SilentConns collects connections on which a "silence" arrival happened, so the harness can drop them later.
	Silent []*fakecass.Conn
	// ConnLostSilence: when true ConnLost is scripted as silence (the harness must kill the connection later) instead
	// of an immediate drop.
	ConnLostSilence bool
	Default         model.Outcome
	// Decorate: error answers carry warnings, a custom payload or a tracing id, depending on the token.
	Decorate bool
}

func NewScripts() *Scripts { return &Scripts{m: map[string][]model.Outcome{}, Default: model.Rows} }

func (s *Scripts) Set(tok string, seq []model.Outcome) { s.mu.Lock(); s.m[tok] = seq; s.mu.Unlock() }

func (s *Scripts) Func() func(*fakecass.Arrival) fakecass.Outcome {
	return func(a *fakecass.Arrival) fakecass.Outcome {
		s.mu.Lock()
		seq := s.m[a.Token]
		s.mu.Unlock()
		o := s.Default
		if a.K >= 1 && a.K <= len(seq) {
			o = seq[a.K-1]
		}
		if a.OpCode == primitive.OpCodePrepare && (o == model.Rows || o == model.Void) {
			return fakecass.Outcome{} // default: Prepared
		}
		fo := OutcomeFor(o, a.Token, a.Header.Version)
		if s.Decorate && fo.Msg != nil && fo.RawFrame == nil && a.Header.Version >= primitive.ProtocolVersion4 && len(a.Token) > 0 {
			if _, isErr := fo.Msg.(message.Error); isErr {
				switch a.Token[len(a.Token)-1] % 4 {
				case 1:
					fo.Warnings = []string{"a warning in front of the error"}
				case 2:
					fo.Payload = map[string][]byte{"k": []byte("v")}
				case 3:
					fo.Tracing = true
				}
			}
		}
		if o == model.ConnLost && s.ConnLostSilence {
			fo = fakecass.Outcome{Name: string(model.ConnLost)}
			s.mu.Lock()
			s.Silent = append(s.Silent, a.Conn)
			s.mu.Unlock()
		}
		return fo
	}
}

// KillSilent drops every connection that swallowed a request (the premise of C01: each attempt is answered or dropped).
func (s *Scripts) KillSilent() int {
	s.mu.Lock()
	cs := s.Silent
	s.Silent = nil
	s.mu.Unlock()
	for _, c := range cs {
		c.Kill(false)
	}
	return len(cs)
}

// OutcomeFor converts a model outcome into what the fake backend does; error messages carry the token.
func OutcomeFor(o model.Outcome, tok string, v primitive.ProtocolVersion) fakecass.Outcome {
	msg := tok + " " + string(o)
	n := string(o)
	switch o {
	case model.Rows:
		return fakecass.Rows()
	case model.Void:
		return fakecass.Void()
	case model.Unavailable:
		return fakecass.Err(n, &message.Unavailable{ErrorMessage: msg, Consistency: primitive.ConsistencyLevelQuorum, Required: 2, Alive: 1})
	case model.ReadTimeoutRetry:
		return fakecass.Err(n, &message.ReadTimeout{ErrorMessage: msg, Consistency: primitive.ConsistencyLevelQuorum, Received: 2, BlockFor: 2, DataPresent: false})
	case model.ReadTimeoutData:
		return fakecass.Err(n, &message.ReadTimeout{ErrorMessage: msg, Consistency: primitive.ConsistencyLevelQuorum, Received: 2, BlockFor: 2, DataPresent: true})
	case model.ReadTimeoutFew:
		return fakecass.Err(n, &message.ReadTimeout{ErrorMessage: msg, Consistency: primitive.ConsistencyLevelQuorum, Received: 1, BlockFor: 2, DataPresent: false})
	case model.WriteTimeoutLog:
		return fakecass.Err(n, &message.WriteTimeout{ErrorMessage: msg, Consistency: primitive.ConsistencyLevelQuorum, Received: 0, BlockFor: 1, WriteType: primitive.WriteTypeBatchLog})
	case model.WriteTimeoutSimp:
		return fakecass.Err(n, &message.WriteTimeout{ErrorMessage: msg, Consistency: primitive.ConsistencyLevelQuorum, Received: 0, BlockFor: 1, WriteType: primitive.WriteTypeSimple})
	case model.WriteTimeoutBat:
		return fakecass.Err(n, &message.WriteTimeout{ErrorMessage: msg, Consistency: primitive.ConsistencyLevelQuorum, Received: 0, BlockFor: 1, WriteType: primitive.WriteTypeBatch})
	case model.WriteTimeoutUnl:
		return fakecass.Err(n, &message.WriteTimeout{ErrorMessage: msg, Consistency: primitive.ConsistencyLevelQuorum, Received: 0, BlockFor: 1, WriteType: primitive.WriteTypeUnloggedBatch})
	case model.WriteTimeoutCnt:
		return fakecass.Err(n, &message.WriteTimeout{ErrorMessage: msg, Consistency: primitive.ConsistencyLevelQuorum, Received: 0, BlockFor: 1, WriteType: primitive.WriteTypeCounter})
	case model.WriteTimeoutCas:
		return fakecass.Err(n, &message.WriteTimeout{ErrorMessage: msg, Consistency: primitive.ConsistencyLevelSerial, Received: 0, BlockFor: 1, WriteType: primitive.WriteTypeCas})
	case model.Bootstrapping:
		return fakecass.Err(n, &message.IsBootstrapping{ErrorMessage: msg})
	case model.Overloaded:
		return fakecass.Err(n, &message.Overloaded{ErrorMessage: msg})
	case model.ServerError:
		return fakecass.Err(n, &message.ServerError{ErrorMessage: msg})
	case model.Truncate:
		return fakecass.Err(n, &message.TruncateError{ErrorMessage: msg})
	case model.ReadFailure:
		m := &message.ReadFailure{ErrorMessage: msg, Consistency: primitive.ConsistencyLevelQuorum, Received: 1, BlockFor: 2, NumFailures: 1, DataPresent: false}
		if v.SupportsReadWriteFailureReasonMap() {
			m.FailureReasons = []*primitive.FailureReason{{Endpoint: []byte{127, 0, 0, 1}, Code: primitive.FailureCodeUnknown}}
		}
		return fakecass.Err(n, m)
	case model.WriteFailure:
		m := &message.WriteFailure{ErrorMessage: msg, Consistency: primitive.ConsistencyLevelQuorum, Received: 1, BlockFor: 2, NumFailures: 1, WriteType: primitive.WriteTypeSimple}
		if v.SupportsReadWriteFailureReasonMap() {
			m.FailureReasons = []*primitive.FailureReason{{Endpoint: []byte{127, 0, 0, 1}, Code: primitive.FailureCodeUnknown}}
		}
		return fakecass.Err(n, m)
	case model.WriteFailureCas:
		m := &message.WriteFailure{ErrorMessage: msg, Consistency: primitive.ConsistencyLevelSerial, Received: 1, BlockFor: 2, NumFailures: 1, WriteType: primitive.WriteTypeCas}
		if v.SupportsReadWriteFailureReasonMap() {
			m.FailureReasons = []*primitive.FailureReason{{Endpoint: []byte{127, 0, 0, 1}, Code: primitive.FailureCodeUnknown}}
		}
		return fakecass.Err(n, m)
	case model.UnknownErrorCode:
		b := []byte{0, 0, 0x17, 0, byte(len(msg) >> 8), byte(len(msg))}
		b = append(b, msg...)
		b = append(b, 0, 8, 0, 0, 0, 1, 0, 0, 0, 2) // <cl><received><blockfor>
		return fakecass.Outcome{Name: n, RawErrBody: b}
	case model.Invalid:
		return fakecass.Err(n, &message.Invalid{ErrorMessage: msg})
	case model.Syntax:
		return fakecass.Err(n, &message.SyntaxError{ErrorMessage: msg})
	case model.Unauthorized:
		return fakecass.Err(n, &message.Unauthorized{ErrorMessage: msg})
	case model.AlreadyExists:
		return fakecass.Err(n, &message.AlreadyExists{ErrorMessage: msg, Keyspace: "ks1", Table: "t"})
	case model.FunctionFailure:
		return fakecass.Err(n, &message.FunctionFailure{ErrorMessage: msg, Keyspace: "ks1", Function: "f", Arguments: []string{"int"}})
	case model.ConfigError:
		return fakecass.Err(n, &message.ConfigError{ErrorMessage: msg})
	case model.ProtocolError:
		return fakecass.Err(n, &message.ProtocolError{ErrorMessage: msg})
	case model.ConnLost:
		o := fakecass.DropBefore()
		o.Name = n
		return o
	}
	return fakecass.Rows()
}

// Attempt is one backend arrival of a token and what the backend did with it.
type Attempt struct {
	L       int64
	Host    int
	Conn    int
	Stream  int
	Op      int
	Outcome string // "" while unanswered
	Closed  bool   // the connection was closed after the arrival
}

// Traces extracts per-token attempt traces from a history.
func Traces(events []mon.Event) map[string][]*Attempt {
	out := map[string][]*Attempt{}
	type key struct{ conn, stream int }
	open := map[key]*Attempt{}
	byConn := map[int][]*Attempt{}
	for _, e := range events {
		if e.Src != "backend" {
			continue
		}
		switch e.K {
		case "recv":
			if e.Tok != "" && e.Arrival > 0 {
				a := &Attempt{L: e.L, Host: e.Host, Conn: e.Conn, Stream: e.St, Op: e.Op}
				out[e.Tok] = append(out[e.Tok], a)
				open[key{e.Conn, e.St}] = a
				byConn[e.Conn] = append(byConn[e.Conn], a)
			}
		case "reply", "noreply":
			if a := open[key{e.Conn, e.St}]; a != nil && a.Outcome == "" {
				a.Outcome = e.Outcome
				if e.K == "reply" {
					delete(open, key{e.Conn, e.St})
				}
			}
		case "closed":
			for _, a := range byConn[e.Conn] {
				a.Closed = true
			}
		}
	}
	return out
}

// ClientView groups what a client received by stream.
type ClientView struct {
	Sent map[int16]mon.Event
	Recv map[int16][]mon.Event
}

func ClientViews(events []mon.Event) map[int]*ClientView {
	out := map[int]*ClientView{}
	get := func(id int) *ClientView {
		v := out[id]
		if v == nil {
			v = &ClientView{Sent: map[int16]mon.Event{}, Recv: map[int16][]mon.Event{}}
			out[id] = v
		}
		return v
	}
	for _, e := range events {
		if e.Src != "client" {
			continue
		}
		switch e.K {
		case "send":
			get(e.Cl).Sent[int16(e.St)] = e
		case "recv":
			get(e.Cl).Recv[int16(e.St)] = append(get(e.Cl).Recv[int16(e.St)], e)
		}
	}
	return out
}

// ReplyInfo is the decoded essence of a frame a client received.
type ReplyInfo struct {
	OpCode  primitive.OpCode
	Kind    string // Rows | Void | Prepared | SetKeyspace | SchemaChange | Error:<code name> | Supported | Ready | ?
	Tok     string // token echoed (row echo or error text)
	Echo    fakecass.Echo
	HasEcho bool
	ErrMsg  string
	ErrCode primitive.ErrorCode
	PrepID  string
	Err     error
}

// DecodeReply decodes a received frame with the reference codec.
func DecodeReply(comp string, f *rawcql.Frame) ReplyInfo {
	ri := ReplyInfo{OpCode: f.OpCode, Kind: "?"}
	fr, err := rawcql.DecodeWith(comp, f)
	if err != nil {
		ri.Err = err
		// an ERROR frame the reference codec refuses (unknown error code, write type CAS): code and message read by hand
		if f.OpCode == primitive.OpCodeError {
			b := f.Body
			if f.Flags.Contains(primitive.HeaderFlagCompressed) {
				if pb, derr := fakecass.Decompress(comp, b); derr == nil {
					b = pb
				}
			}
			// what may precede the message: tracing id, warnings, custom payload (in this order)
			if f.Flags.Contains(primitive.HeaderFlagTracing) && len(b) >= 16 {
				b = b[16:]
			}
			if f.Flags.Contains(primitive.HeaderFlagWarning) && len(b) >= 2 {
				n := int(b[0])<<8 | int(b[1])
				b = b[2:]
				for i := 0; i < n && len(b) >= 2; i++ {
					l := int(b[0])<<8 | int(b[1])
					if 2+l > len(b) {
						b = nil
						break
					}
					b = b[2+l:]
				}
			}
			if f.Flags.Contains(primitive.HeaderFlagCustomPayload) && len(b) >= 2 {
				n := int(b[0])<<8 | int(b[1])
				b = b[2:]
				for i := 0; i < n && len(b) >= 2; i++ {
					l := int(b[0])<<8 | int(b[1])
					if 2+l+4 > len(b) {
						b = nil
						break
					}
					b = b[2+l:]
					vl := int(int32(uint32(b[0])<<24 | uint32(b[1])<<16 | uint32(b[2])<<8 | uint32(b[3])))
					b = b[4:]
					if vl > 0 {
						if vl > len(b) {
							b = nil
							break
						}
						b = b[vl:]
					}
				}
			}
			if len(b) >= 6 {
				n := int(b[4])<<8 | int(b[5])
				if 6+n <= len(b) {
					ri.ErrCode = primitive.ErrorCode(int32(b[0])<<24 | int32(b[1])<<16 | int32(b[2])<<8 | int32(b[3]))
					ri.ErrMsg = string(b[6 : 6+n])
					ri.Kind = fmt.Sprintf("Error:undecodable(0x%04x)", int32(ri.ErrCode))
					ri.Tok = fakecass.FindToken([]byte(ri.ErrMsg))
					ri.Err = nil
				}
			}
		}
		return ri
	}
	switch m := fr.Body.Message.(type) {
	case *message.RowsResult:
		ri.Kind = "Rows"
		if e, ok := fakecass.DecodeEcho(m); ok {
			ri.Echo, ri.HasEcho, ri.Tok = e, true, e.Tok
		}
	case *message.VoidResult:
		ri.Kind = "Void"
	case *message.PreparedResult:
		ri.Kind = "Prepared"
		ri.PrepID = hex.EncodeToString(m.PreparedQueryId)
	case *message.SetKeyspaceResult:
		ri.Kind = "SetKeyspace"
	case *message.Supported:
		ri.Kind = "Supported"
	case *message.Ready:
		ri.Kind = "Ready"
	case message.Error:
		ri.Kind = "Error:" + m.GetErrorCode().String()
		ri.ErrCode = m.GetErrorCode()
		ri.ErrMsg = m.GetErrorMessage()
		ri.Tok = fakecass.FindToken([]byte(ri.ErrMsg))
	default:
		ri.Kind = fmt.Sprintf("%T", m)
	}
	return ri
}

const (
	msgNoMoreHosts = "Proxy exhausted query plan and there are no more hosts available to try"
	msgConnLost    = "Proxy is unable to retry non-idempotent query after connection to backend cluster closed"
)

func isNoMoreHosts(ri ReplyInfo) bool {
	return ri.ErrCode == primitive.ErrorCodeServerError && strings.Contains(ri.ErrMsg, "no more hosts")
}
func isConnLostErr(ri ReplyInfo) bool {
	return ri.ErrCode == primitive.ErrorCodeServerError && strings.Contains(ri.ErrMsg, "non-idempotent") && strings.Contains(ri.ErrMsg, "closed")
}

// WaitHealed waits until the proxy holds `want` live backend connections (all pools of all sessions reconnected).
func WaitHealed(bed *px.Bed, want int, d time.Duration) bool {
	deadline := time.Now().Add(d)
	for time.Now().Before(deadline) {
		open := 0
		for _, bc := range bed.BackendConns() {
			select {
			case <-bc.IsClosed():
			default:
				open++
			}
		}
		if open >= want {
			return true
		}
		time.Sleep(2 * time.Millisecond)
	}
	return false
}

// ProgressSteps performs n OPTIONS round trips on the client (logical steps proving the proxy's reader/writer for this
// client were scheduled n times). Returns false if the watchdog fired (inconclusive).
func ProgressSteps(cl *rawcql.Client, n int, stream int16) bool {
	for i := 0; i < n; i++ {
		if err := cl.Options(stream, 20*time.Second); err != nil {
			return false
		}
	}
	return true
}
