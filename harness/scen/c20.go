//go:build verif

package scen

// C20 — configuration values are honoured as documented and bad configurations are refused.
//
// The system under test is the cql-proxy binary as shipped (subprocess: real exit codes), configured through flags,
// environment variables and YAML, in front of its own fakecass cluster; a second engine runs proxy.Run in-process (flags
// and YAML only) over the exhaustive tables as a cross-check. Observations are all at the public boundary:
//   * the version byte of the proxy's own STARTUP frames in the fakecass log   (protocol-version),
//   * which client version bytes get SUPPORTED vs. a PROTOCOL error              (max-protocol-version),
//   * the consistency level of the QUERY frame the backend receives             (consistency options),
//   * "reached the running state" (listener bound and an OPTIONS answered) vs. process exit code.
// Expected values come from tables written down here from the README/flag help and the CQL spec, never from the proxy.

import (
	"bytes"
	"context"
	"fmt"
	"net"
	"os"
	"os/exec"
	"path/filepath"
	"strings"
	"sync"
	"sync/atomic"
	"time"

	"github.com/datastax/cql-proxy/proxy"
	"github.com/datastax/go-cassandra-native-protocol/frame"
	"github.com/datastax/go-cassandra-native-protocol/message"
	"github.com/datastax/go-cassandra-native-protocol/primitive"

	"verif/fakecass"
	"verif/mon"
	"verif/rawcql"
)

func init() {
	Register(&Runner{Prop: "C20", Level: "exploration",
		Rule:    "mapping: every documented spelling (names x letter case, numeric forms) of protocol-version and max-protocol-version x {flag, env, YAML}; all 5x5 (version, max) pairs x 3 sources; all 11 consistency names x 3 letter cases as unsupported level (3 sources) and as override (flag, YAML), each probed with INSERTs at all 11 levels. refusal: deterministic family lists plus PRNG-generated durations/counts around the validity boundaries x 3 sources, each invalid configuration with its valid neighbours. distinct = (family, option, spelling/boundary class, source, engine); non-trivial = every case (each is one process start).",
		Shards:  shards(2, 4),
		Timeout: timeouts(8*time.Minute, 45*time.Minute),
		Subproc: true,
		Run:     runC20})
}

// ---------------------------------------------------------------------------------------------------------------------
// ground-truth tables (README option list / flag help; CQL native protocol spec section 3 for the consistency codes)

type c20Ver struct {
	Name string
	Code int
	Num  string
}

var c20Versions = []c20Ver{{"v3", 3, "3"}, {"v4", 4, "4"}, {"v5", 5, "5"}, {"DSEv1", 0x41, "65"}, {"DSEv2", 0x42, "66"}}

func c20VerNameOf(code int) string {
	for _, v := range c20Versions {
		if v.Code == code {
			return v.Name
		}
	}
	return fmt.Sprintf("0x%02x", code)
}

type c20CL struct {
	Name string
	Code int
}

var c20Levels = []c20CL{{"ANY", 0}, {"ONE", 1}, {"TWO", 2}, {"THREE", 3}, {"QUORUM", 4}, {"ALL", 5}, {"LOCAL_QUORUM", 6}, {"EACH_QUORUM", 7},
	{"SERIAL", 8}, {"LOCAL_SERIAL", 9}, {"LOCAL_ONE", 10}}

func c20LevelName(code int) string {
	for _, l := range c20Levels {
		if l.Code == code {
			return l.Name
		}
	}
	return fmt.Sprintf("0x%04x", code)
}

func c20MixedCase(s string) string {
	b := []byte(strings.ToLower(s))
	for i := range b {
		if i%2 == 0 && b[i] >= 'a' && b[i] <= 'z' {
			b[i] -= 32
		}
	}
	return string(b)
}

func c20Spellings(documented string) []string {
	set := map[string]bool{}
	var out []string
	for _, s := range []string{documented, strings.ToLower(documented), strings.ToUpper(documented), c20MixedCase(documented)} {
		if !set[s] {
			set[s] = true
			out = append(out, s)
		}
	}
	return out
}

// ---------------------------------------------------------------------------------------------------------------------
// one configuration = one process (or one in-process Run)

type c20Spec struct {
	Args     []string // flags besides the basics
	Env      []string // KEY=value
	YAML     string   // content of the --config file ("" = none)
	NoBasics bool     // do not pass contact points / port by flag (bind is still passed)
	Inproc   bool
	// OldFirst: two contact points; the first is a node of an older release (v3 at most) that fails at the last step of the
	// initial connect (it reports an rpc_address under which the proxy cannot find it), the second is healthy
	OldFirst bool
}

type c20Case struct {
	Key    string // evidence key: family/option/class/source
	Family string // refusal family ("" for pure mapping cases)
	Source string
	Engine string
	Spec   c20Spec
	Expect string // run | refuse
	Detail string
	Check  func(c *Ctx, cs *c20Case, p *c20Proc) bool // probes for a running proxy; true = a violation was reported
}

type c20Proc struct {
	id      string
	cluster *fakecass.Cluster
	log     *mon.Log
	bind    string
	cmd     *exec.Cmd
	cancel  context.CancelFunc
	done    chan struct{}
	exit    int
	logPath string
	ymlPath string
	cmdline string
}

var c20Seq int32

func c20FreeAddr() (string, error) {
	// The address is probed and released before the proxy binds it, so two probes must never be handed the same one: IP
	// and port are functions of (pid, sequence number) - another worker process (of this run or of a concurrent one) gets
	// other addresses - and the port lies below the ephemeral range, where nobody else picks ports.
	pid := os.Getpid()
	for i := 0; i < 50; i++ {
		n := int(atomic.AddInt32(&c20Seq, 1))
		ip := fmt.Sprintf("127.%d.%d.%d", 224+pid%31, 1+(pid/31)%250, 1+n%250)
		port := 20000 + (pid*131+n*7+i*1013)%12000
		ln, err := net.Listen("tcp", fmt.Sprintf("%s:%d", ip, port))
		if err != nil {
			continue
		}
		addr := ln.Addr().String()
		_ = ln.Close()
		return addr, nil
	}
	return "", fmt.Errorf("no free address")
}

func c20Start(c *Ctx, id string, spec c20Spec) (*c20Proc, error) {
	log := mon.NewLog(true)
	fcfg := fakecass.Config{Hosts: 1, Log: log, Keyspaces: []string{"ks1"}}
	if spec.OldFirst {
		fcfg.Hosts, fcfg.ContactHosts = 2, []int{1, 2}
		fcfg.HostAdvertised = map[int]string{1: "10.254.254.1"}
		fcfg.HostMaxVersion = map[int]int32{1: 3}
	}
	cluster, err := fakecass.New(fcfg)
	if err != nil {
		return nil, err
	}
	if spec.OldFirst {
		// the old node is a stale entry of the contact-point list: no other node lists it as a peer (a session that met it
		// among the hosts would refuse to start - "required protocol version is not supported" - whatever the options say)
		cluster.SetListed(1, false)
	}
	p := &c20Proc{id: id, cluster: cluster, log: log, done: make(chan struct{})}
	p.bind, err = c20FreeAddr()
	if err != nil {
		cluster.Close()
		return nil, err
	}
	dir := filepath.Join(c.Dir, "out", "logs", "c20")
	_ = os.MkdirAll(dir, 0o755)
	p.logPath = filepath.Join(dir, id+".log")
	args := []string{"--bind", p.bind}
	if !spec.NoBasics {
		args = append(args, "--contact-points", strings.Join(cluster.ContactPoints(), ","), "--port", fmt.Sprint(cluster.Port))
	}
	if spec.YAML != "" {
		p.ymlPath = filepath.Join(dir, id+".yaml")
		y := strings.ReplaceAll(spec.YAML, "{CP}", cluster.ContactPoint())
		y = strings.ReplaceAll(y, "{PORT}", fmt.Sprint(cluster.Port))
		if err := os.WriteFile(p.ymlPath, []byte(y), 0o644); err != nil {
			cluster.Close()
			return nil, err
		}
		args = append(args, "--config", p.ymlPath)
	}
	args = append(args, spec.Args...)
	env := make([]string, 0, len(spec.Env))
	for _, e := range spec.Env {
		e = strings.ReplaceAll(e, "{CP}", cluster.ContactPoint())
		env = append(env, strings.ReplaceAll(e, "{PORT}", fmt.Sprint(cluster.Port)))
	}
	p.cmdline = strings.Join(env, " ") + " cql-proxy " + strings.Join(args, " ")
	if spec.Inproc {
		ctx, cancel := context.WithCancel(context.Background())
		p.cancel = cancel
		go func() {
			p.exit = proxy.Run(ctx, args)
			close(p.done)
		}()
		return p, nil
	}
	lf, err := os.Create(p.logPath)
	if err != nil {
		cluster.Close()
		return nil, err
	}
	p.cmd = exec.Command(filepath.Join(c.Dir, "out", "bin", "cql-proxy"), args...)
	p.cmd.Env = append([]string{"PATH=/usr/bin:/bin", "HOME=/tmp"}, env...)
	p.cmd.Stdout = lf
	p.cmd.Stderr = lf
	p.cmd.Stdin = nil
	if err := p.cmd.Start(); err != nil {
		_ = lf.Close()
		cluster.Close()
		return nil, err
	}
	go func() {
		err := p.cmd.Wait()
		_ = lf.Close()
		p.exit = 0
		if err != nil {
			p.exit = -1
			if ee, ok := err.(*exec.ExitError); ok {
				p.exit = ee.ExitCode()
			}
		}
		close(p.done)
	}()
	return p, nil
}

// Stop kills the process (or cancels the in-process run) and waits for it.
func (p *c20Proc) Stop(keepLogs bool) {
	if p.cmd != nil && p.cmd.Process != nil {
		_ = p.cmd.Process.Kill()
	}
	if p.cancel != nil {
		p.cancel()
	}
	select {
	case <-p.done:
	case <-time.After(20 * time.Second):
	}
	p.cluster.Close()
	if !keepLogs {
		_ = os.Remove(p.logPath)
		if p.ymlPath != "" {
			_ = os.Remove(p.ymlPath)
		}
	}
}

func (p *c20Proc) logTail() string {
	b, err := os.ReadFile(p.logPath)
	if err != nil {
		return ""
	}
	if len(b) > 1500 {
		b = b[len(b)-1500:]
	}
	return string(b)
}

const c20Watchdog = 15 * time.Second

// Await waits for one of the two logical events: the process exited, or it reached the running state (listener bound and
// an OPTIONS at v3 - accepted under every valid max version - answered SUPPORTED). "watchdog" is inconclusive.
func (p *c20Proc) Await() string {
	deadline := time.Now().Add(c20Watchdog)
	for time.Now().Before(deadline) {
		select {
		case <-p.done:
			return "exited"
		default:
		}
		nc, err := net.DialTimeout("tcp", p.bind, time.Second)
		if err != nil {
			select {
			case <-p.done:
				return "exited"
			case <-time.After(5 * time.Millisecond):
			}
			continue
		}
		_ = nc.Close()
		cl, err := rawcql.Dial(p.bind, 3, p.log)
		if err != nil {
			continue
		}
		ch := cl.Expect(1)
		_ = cl.SendFrame(3, 0, 1, primitive.OpCodeOptions, nil)
		f, err := cl.Wait(ch, 5*time.Second)
		cl.Close()
		if err == nil && f.OpCode == primitive.OpCodeSupported {
			return "running"
		}
	}
	return "watchdog"
}

// backendStartupVersions returns the distinct version bytes of the STARTUP frames the backend received, in order.
func (p *c20Proc) backendStartupVersions() []int { return p.backendStartupVersionsAt(0) }

// backendStartupVersionsAt: the versions of the STARTUP frames host `host` received (0 = any host).
func (p *c20Proc) backendStartupVersionsAt(host int) []int {
	var out []int
	seen := map[int]bool{}
	for _, e := range p.log.Snapshot() {
		if e.Src == "backend" && e.K == "recv" && (host == 0 || e.Host == host) && primitive.OpCode(e.Op) == primitive.OpCodeStartup && !seen[e.Ver] {
			seen[e.Ver] = true
			out = append(out, e.Ver)
		}
	}
	return out
}

// acceptedVersions probes which known version bytes the running proxy answers SUPPORTED (C13's probe).
func (p *c20Proc) acceptedVersions() (acc []int, detail string, ok bool) {
	var sb strings.Builder
	for _, v := range c20Versions {
		cl, err := rawcql.Dial(p.bind, primitive.ProtocolVersion(v.Code), p.log)
		if err != nil {
			return nil, "dial: " + err.Error(), false
		}
		ch := cl.Expect(1)
		_ = cl.SendFrame(primitive.ProtocolVersion(v.Code), 0, 1, primitive.OpCodeOptions, nil)
		f, err := cl.Wait(ch, c20Watchdog)
		if err == nil && f.OpCode == primitive.OpCodeError && !cl.IsClosed() {
			// a refused version stays refused: the same frame once more on the same connection (no reply = still refused)
			ch2 := cl.Expect(2)
			_ = cl.SendFrame(primitive.ProtocolVersion(v.Code), 0, 2, primitive.OpCodeOptions, nil)
			if f2, err2 := cl.Wait(ch2, 2*time.Second); err2 == nil && f2.OpCode == primitive.OpCodeSupported {
				f = f2
				fmt.Fprintf(&sb, "%s:ERROR-then-", v.Name)
			}
		}
		cl.Close()
		switch {
		case err != nil:
			return nil, fmt.Sprintf("%s: %v", v.Name, err), false
		case f.OpCode == primitive.OpCodeSupported:
			acc = append(acc, v.Code)
			fmt.Fprintf(&sb, "%s:SUPPORTED ", v.Name)
		case f.OpCode == primitive.OpCodeError:
			fmt.Fprintf(&sb, "%s:ERROR ", v.Name)
		default:
			fmt.Fprintf(&sb, "%s:%s ", v.Name, c13OpName(f.OpCode))
		}
	}
	return acc, sb.String(), true
}

// observedMax names the highest accepted version if the accepted set is exactly {v3..that}; otherwise the set itself.
func c20ObservedMax(acc []int) string {
	if len(acc) == 0 {
		return "none"
	}
	for i, code := range acc {
		if c20Versions[i].Code != code {
			p := make([]string, len(acc))
			for k, a := range acc {
				p[k] = c20VerNameOf(a)
			}
			return "set{" + strings.Join(p, "+") + "}"
		}
	}
	return c20VerNameOf(acc[len(acc)-1])
}

// consistencyProbe sends one INSERT per level through the proxy and returns, per level sent, the level the backend saw.
func (p *c20Proc) consistencyProbe(levels []c20CL) (map[int]int, error) {
	cl, err := rawcql.Dial(p.bind, 4, p.log)
	if err != nil {
		return nil, err
	}
	defer cl.Close()
	if err := cl.Handshake("", c20Watchdog); err != nil {
		return nil, err
	}
	out := map[int]int{}
	for i, l := range levels {
		tok := NewTok()
		q := &message.Query{Query: "INSERT INTO ks1.t (k, v) VALUES ('" + tok + "', 1)", Options: &message.QueryOptions{Consistency: primitive.ConsistencyLevel(l.Code)}}
		f, err := cl.Call(int16(10+i), q, c20Watchdog)
		if err != nil {
			return nil, fmt.Errorf("INSERT at %s: %w", l.Name, err)
		}
		if f.OpCode != primitive.OpCodeResult {
			return nil, fmt.Errorf("INSERT at %s answered %s", l.Name, c13OpName(f.OpCode))
		}
		seen := -1
		for _, e := range p.log.Snapshot() {
			if e.Src == "backend" && e.K == "recv" && e.Tok == tok && primitive.OpCode(e.Op) == primitive.OpCodeQuery {
				hdr := &frame.Header{Version: primitive.ProtocolVersion(e.Ver), OpCode: primitive.OpCodeQuery, BodyLength: int32(len(e.Body))}
				body, err := rawcql.Plain.DecodeBody(hdr, bytes.NewReader(e.Body))
				if err != nil {
					return nil, fmt.Errorf("backend frame of %s undecodable: %w", tok, err)
				}
				if m, ok := body.Message.(*message.Query); ok && m.Options != nil {
					seen = int(m.Options.Consistency)
				}
			}
		}
		if seen < 0 {
			return nil, fmt.Errorf("INSERT at %s never reached the backend", l.Name)
		}
		out[l.Code] = seen
	}
	return out, nil
}

// ---------------------------------------------------------------------------------------------------------------------
// running one case

func c20RunCase(c *Ctx, idx int, cs *c20Case) {
	r := c.R
	c.Step("C20 %s :: %s", cs.Key, cs.Detail)
	r.Eval(1)
	r.NonTrivial(cs.Key)
	for attempt := 0; ; attempt++ {
		id := fmt.Sprintf("%s-s%d-%05d-%d", c.Tier, c.Shard, idx, attempt)
		p, err := c20Start(c, id, cs.Spec)
		if err != nil {
			r.Inconc("cannot start " + cs.Key + ": " + err.Error())
			return
		}
		r.Obs("processes_started:"+cs.Engine, 1)
		state := p.Await()
		tail := p.logTail()
		if state == "exited" && strings.Contains(tail, "address already in use") && attempt < 3 {
			p.Stop(false)
			r.Obs("bind_collision_retry", 1)
			continue
		}
		// a configuration that is refused is refused every time; an exit for a reason of the environment (an address taken
		// by another process, a connect attempt starved on a loaded machine; the in-process engine leaves no log to tell) is
		// not: a valid configuration that exits is started once more before it is judged
		if state == "exited" && cs.Expect != "refuse" && attempt < 1 {
			p.Stop(false)
			r.Obs("valid_config_exit_retried", 1)
			continue
		}
		keep := c20Judge(c, cs, p, state, tail)
		p.Stop(keep)
		return
	}
}

func c20Judge(c *Ctx, cs *c20Case, p *c20Proc, state, tail string) (keepLogs bool) {
	r := c.R
	scen := map[string]interface{}{"kind": "c20case", "key": cs.Key}
	wit := map[string]interface{}{"command": p.cmdline, "yaml": cs.Spec.YAML, "state": state, "log_tail": tail, "engine": cs.Engine}
	if state == "exited" {
		wit["exit"] = p.exit
	}
	switch state {
	case "watchdog":
		r.Inconc(fmt.Sprintf("%s: neither exited nor running within %s (%s)", cs.Key, c20Watchdog, p.cmdline))
		return true
	case "exited":
		r.Obs(fmt.Sprintf("exit_code:%d", p.exit), 1)
		if cs.Expect == "refuse" {
			if p.exit == 0 {
				r.Violate(mon.Violation{Signature: fmt.Sprintf("C20/not-refused/%s/%s", cs.Family, cs.Source), Scenario: scen, Witness: wit,
					Detail: fmt.Sprintf("%s: the process exited with status 0 for an invalid configuration (%s): %s", cs.Key, cs.Detail, p.cmdline)})
				return true
			}
			r.Obs("refused:"+cs.Family, 1)
			r.Obs("refused", 1)
			return false
		}
		fam := cs.Family
		if fam == "" {
			fam = "mapping"
		}
		r.Violate(mon.Violation{Signature: "C20/refused-valid/" + fam, Scenario: scen, Witness: wit,
			Detail: fmt.Sprintf("%s: a valid configuration (%s) made the process exit with status %d: %s\n%s", cs.Key, cs.Detail, p.exit, p.cmdline, tail)})
		return true
	}
	// running
	r.Obs("reached_running", 1)
	if cs.Expect == "refuse" {
		r.Violate(mon.Violation{Signature: fmt.Sprintf("C20/not-refused/%s/%s", cs.Family, cs.Source), Scenario: scen, Witness: wit,
			Detail: fmt.Sprintf("%s: invalid configuration (%s) but the proxy reached the running state (listener bound, OPTIONS answered): %s", cs.Key, cs.Detail, p.cmdline)})
		return true
	}
	if cs.Family != "" {
		r.Obs("valid_neighbour_runs:"+cs.Family, 1)
	}
	if cs.Check != nil {
		return cs.Check(c, cs, p)
	}
	return false
}

// ---------------------------------------------------------------------------------------------------------------------
// case generation

// c20Put renders option=value for a source.
func c20Put(spec *c20Spec, source, option, value string) {
	switch source {
	case "flag":
		spec.Args = append(spec.Args, "--"+option+"="+value)
	case "env":
		spec.Env = append(spec.Env, strings.ToUpper(strings.ReplaceAll(option, "-", "_"))+"="+value)
	case "yaml":
		q := value
		if !strings.HasPrefix(value, "[") { // scalars are quoted so that YAML keeps them strings ("66", "v4")
			q = `"` + value + `"`
		}
		spec.YAML += option + ": " + q + "\n"
	}
}

func c20PutRaw(spec *c20Spec, source, option, value string) { // unquoted YAML (numbers, durations)
	if source == "yaml" {
		spec.YAML += option + ": " + value + "\n"
		return
	}
	c20Put(spec, source, option, value)
}

var c20Sources = []string{"flag", "env", "yaml"}

func c20Spelling(r *mon.Result, cs *c20Case, p *c20Proc, option, spelling, observed, expected, how string) bool {
	if observed == expected {
		r.Obs("spelling_ok:"+option, 1)
		return false
	}
	r.Violate(mon.Violation{Signature: fmt.Sprintf("C20/spelling/%s=%s/observed=%s/expected=%s", option, spelling, observed, expected),
		Scenario: map[string]interface{}{"kind": "c20case", "key": cs.Key},
		Witness:  map[string]interface{}{"command": p.cmdline, "yaml": cs.Spec.YAML, "how_observed": how, "engine": cs.Engine, "source": cs.Source},
		Detail:   fmt.Sprintf("%s=%s (source %s, engine %s) must select %s; observed %s (%s). %s", option, spelling, cs.Source, cs.Engine, expected, observed, how, p.cmdline)})
	return true
}

func c20CheckBackendVersion(option, spelling string, want c20Ver) func(c *Ctx, cs *c20Case, p *c20Proc) bool {
	return c20CheckBackendVersionAt(0, option, spelling, want)
}

func c20CheckBackendVersionAt(host int, option, spelling string, want c20Ver) func(c *Ctx, cs *c20Case, p *c20Proc) bool {
	return func(c *Ctx, cs *c20Case, p *c20Proc) bool {
		vs := p.backendStartupVersionsAt(host)
		if host != 0 {
			if len(p.backendStartupVersionsAt(1)) == 0 {
				c.R.Inconc(cs.Key + ": the first contact point never saw a STARTUP frame")
				return true
			}
			c.R.Obs("first_contact_point_tried_and_given_up", 1)
		}
		if len(vs) == 0 {
			c.R.Inconc(cs.Key + ": no STARTUP frame seen at the backend although the proxy runs")
			return true
		}
		c.R.Obs("backend_startup_observed", 1)
		names := make([]string, len(vs))
		for i, v := range vs {
			names[i] = c20VerNameOf(v)
		}
		return c20Spelling(c.R, cs, p, option, spelling, strings.Join(names, "+"), want.Name, fmt.Sprintf("version bytes of the STARTUP frames the fake backend received: %v", vs))
	}
}

func c20CheckMax(option, spelling string, want c20Ver) func(c *Ctx, cs *c20Case, p *c20Proc) bool {
	return func(c *Ctx, cs *c20Case, p *c20Proc) bool {
		acc, detail, ok := p.acceptedVersions()
		if !ok {
			c.R.Inconc(cs.Key + ": version probe: " + detail)
			return true
		}
		c.R.Obs("accepted_set_observed", 1)
		return c20Spelling(c.R, cs, p, option, spelling, c20ObservedMax(acc), want.Name, "OPTIONS per known version byte: "+detail)
	}
}

func c20Cases(c *Ctx) []*c20Case {
	var out []*c20Case
	seen := map[string]bool{}
	add := func(cs *c20Case) {
		if cs.Engine == "" {
			cs.Engine = "binary"
		}
		if cs.Spec.Inproc {
			cs.Engine = "inproc"
		}
		cs.Key += "/" + cs.Source + "/" + cs.Engine
		if seen[cs.Key] {
			return
		}
		seen[cs.Key] = true
		out = append(out, cs)
	}
	engines := func(source string) []bool { // in-process Run cannot take per-case environment variables
		if source == "env" {
			return []bool{false}
		}
		return []bool{false, true}
	}

	// --- A2. the option names the version whatever the proxy met before it found a usable contact point: the first contact
	// point is a node of an older release (v3) that the proxy negotiates down to and then gives up at the last step of the
	// initial connect; the second contact point must be asked for the configured version
	for _, v := range c20Versions {
		if v.Code <= 3 {
			continue
		}
		for _, src := range c20Sources {
			v := v
			s := c20Spec{Args: []string{"--max-protocol-version=DSEv2"}, OldFirst: true}
			c20Put(&s, src, "protocol-version", v.Name)
			add(&c20Case{Key: "behind-an-old-contact-point/protocol-version=" + v.Name, Source: src, Spec: s, Expect: "run",
				Detail: "protocol-version=" + v.Name + " with max DSEv2, two contact points of which the first only speaks v3 and is given up",
				Check: c20CheckBackendVersionAt(2, "protocol-version", v.Name, v)})
		}
	}

	// --- A. every documented spelling of the two version options ---------------------------------------------------
	for _, v := range c20Versions {
		for _, sp := range append(c20Spellings(v.Name), v.Num) {
			for _, src := range c20Sources {
				for _, inproc := range engines(src) {
					v, sp := v, sp
					s1 := c20Spec{Args: []string{"--max-protocol-version=DSEv2"}, Inproc: inproc}
					c20Put(&s1, src, "protocol-version", sp)
					add(&c20Case{Key: "spelling/protocol-version=" + sp, Source: src, Spec: s1, Expect: "run", Detail: "protocol-version=" + sp + " with max DSEv2",
						Check: c20CheckBackendVersion("protocol-version", sp, v)})
					s2 := c20Spec{Args: []string{"--protocol-version=v3"}, Inproc: inproc}
					c20Put(&s2, src, "max-protocol-version", sp)
					add(&c20Case{Key: "spelling/max-protocol-version=" + sp, Source: src, Spec: s2, Expect: "run", Detail: "max-protocol-version=" + sp + " with version v3",
						Check: c20CheckMax("max-protocol-version", sp, v)})
				}
			}
		}
	}
	// --- B. all 5x5 (version, max) pairs -----------------------------------------------------------------------------
	for _, v := range c20Versions {
		for _, m := range c20Versions {
			for _, src := range c20Sources {
				v, m := v, m
				s := c20Spec{}
				c20Put(&s, src, "protocol-version", v.Name)
				c20Put(&s, src, "max-protocol-version", m.Name)
				cs := &c20Case{Key: fmt.Sprintf("pair/version=%s/max=%s", v.Name, m.Name), Source: src, Spec: s, Detail: fmt.Sprintf("protocol-version=%s max-protocol-version=%s", v.Name, m.Name)}
				if v.Code > m.Code {
					cs.Family, cs.Expect = "version-gt-max", "refuse"
				} else {
					cs.Family, cs.Expect = "version-gt-max", "run"
					cs.Check = func(c *Ctx, cs *c20Case, p *c20Proc) bool {
						a := c20CheckBackendVersion("protocol-version", v.Name, v)(c, cs, p)
						b := c20CheckMax("max-protocol-version", m.Name, m)(c, cs, p)
						return a || b
					}
				}
				add(cs)
			}
		}
	}
	// --- C. consistency names ----------------------------------------------------------------------------------------
	for _, l := range c20Levels {
		for _, sp := range []string{strings.ToLower(l.Name), l.Name, c20MixedCase(l.Name)} {
			l, sp := l, sp
			for _, src := range c20Sources {
				for _, inproc := range engines(src) {
					// as the unsupported level; override fixed to a different level
					ovr := c20Levels[5] // ALL
					if l.Code == ovr.Code {
						ovr = c20Levels[2] // TWO
					}
					s := c20Spec{Args: []string{"--unsupported-write-consistency-override=" + strings.ToLower(ovr.Name)}, Inproc: inproc}
					if src == "yaml" {
						c20PutRaw(&s, src, "unsupported-write-consistencies", "[\""+sp+"\"]")
					} else {
						c20Put(&s, src, "unsupported-write-consistencies", sp)
					}
					ovr2 := ovr
					add(&c20Case{Key: "spelling/unsupported-write-consistencies=" + sp, Source: src, Spec: s, Expect: "run", Detail: "unsupported level " + sp + ", override " + ovr.Name,
						Check: func(c *Ctx, cs *c20Case, p *c20Proc) bool {
							got, err := p.consistencyProbe(c20Levels)
							if err != nil {
								c.R.Inconc(cs.Key + ": " + err.Error())
								return true
							}
							c.R.Obs("consistency_probes", len(got))
							var rewritten []string
							clean := true
							for _, x := range c20Levels {
								if got[x.Code] != x.Code {
									rewritten = append(rewritten, fmt.Sprintf("%s->%s", x.Name, c20LevelName(got[x.Code])))
								}
								want := x.Code
								if x.Code == l.Code {
									want = ovr2.Code
								}
								clean = clean && got[x.Code] == want
							}
							obs := "none-rewritten"
							if len(rewritten) > 0 {
								obs = strings.Join(rewritten, "+")
							}
							exp := fmt.Sprintf("%s->%s", l.Name, ovr2.Name)
							if clean {
								obs = exp
							}
							return c20Spelling(c.R, cs, p, "unsupported-write-consistencies", sp, obs, exp, "INSERTs at all 11 levels; consistency of each QUERY frame decoded at the backend")
						}})
				}
			}
			for _, src := range []string{"flag", "yaml"} { // the override option has no environment variable
				for _, inproc := range engines(src) {
					uns := c20Levels[1] // ONE
					if l.Code == uns.Code {
						uns = c20Levels[2]
					}
					s := c20Spec{Args: []string{"--unsupported-write-consistencies=" + strings.ToLower(uns.Name)}, Inproc: inproc}
					c20Put(&s, src, "unsupported-write-consistency-override", sp)
					uns2 := uns
					add(&c20Case{Key: "spelling/unsupported-write-consistency-override=" + sp, Source: src, Spec: s, Expect: "run", Detail: "override " + sp + " for unsupported " + uns.Name,
						Check: func(c *Ctx, cs *c20Case, p *c20Proc) bool {
							got, err := p.consistencyProbe([]c20CL{uns2})
							if err != nil {
								c.R.Inconc(cs.Key + ": " + err.Error())
								return true
							}
							c.R.Obs("consistency_probes", len(got))
							return c20Spelling(c.R, cs, p, "unsupported-write-consistency-override", sp, c20LevelName(got[uns2.Code]), l.Name,
								"INSERT at "+uns2.Name+" (configured unsupported); consistency of the QUERY frame decoded at the backend")
						}})
				}
			}
		}
	}
	// a list of several levels, and the documented default override (LOCAL_QUORUM)
	for _, src := range c20Sources {
		s := c20Spec{}
		if src == "yaml" {
			c20PutRaw(&s, src, "unsupported-write-consistencies", `["any", "SERIAL", "Local_One"]`)
		} else {
			c20Put(&s, src, "unsupported-write-consistencies", "any,SERIAL,Local_One")
		}
		add(&c20Case{Key: "spelling/unsupported-write-consistencies=any,SERIAL,Local_One", Source: src, Spec: s, Expect: "run", Detail: "three unsupported levels, default override",
			Check: func(c *Ctx, cs *c20Case, p *c20Proc) bool {
				got, err := p.consistencyProbe(c20Levels)
				if err != nil {
					c.R.Inconc(cs.Key + ": " + err.Error())
					return true
				}
				c.R.Obs("consistency_probes", len(got))
				var obs, exp []string
				for _, x := range c20Levels {
					want := x.Code
					if x.Code == 0 || x.Code == 8 || x.Code == 10 {
						want = 6 // LOCAL_QUORUM is the documented default override
					}
					exp = append(exp, c20LevelName(want))
					obs = append(obs, c20LevelName(got[x.Code]))
				}
				o, e := strings.Join(obs, ","), strings.Join(exp, ",")
				if o == e {
					o, e = "as-documented", "as-documented"
				}
				return c20Spelling(c.R, cs, p, "unsupported-write-consistencies", "any,SERIAL,Local_One", o, e, "levels seen at the backend for INSERTs at ANY..LOCAL_ONE")
			}})
	}

	// --- D. refusal families -----------------------------------------------------------------------------------------
	rng := c.Rng(0)
	// D1 heartbeat-interval >= idle-timeout
	nDur := c.Pick(20, 30000)
	for i := 0; i < nDur; i++ {
		idle := time.Duration(5+rng.Intn(7200)) * time.Second
		if rng.Intn(3) == 0 {
			idle += time.Duration(rng.Intn(1e9)) // sub-second part
		}
		if i == 0 {
			idle = 60 * time.Second // the documented default
		}
		type hb struct {
			d      time.Duration
			class  string
			expect string
		}
		for _, h := range []hb{{idle, "equal", "refuse"}, {idle + 1, "plus-1ns", "refuse"}, {idle + time.Second, "plus-1s", "refuse"},
			{idle - 1, "minus-1ns", "run"}, {idle - time.Second, "minus-1s", "run"}} {
			srcs := c20Sources
			if !c.Quick() || i > 0 {
				srcs = []string{c20Sources[rng.Intn(3)]}
			}
			for _, src := range srcs {
				s := c20Spec{}
				mixed := rng.Intn(4) == 0 // the two options through different sources
				src2 := src
				if mixed {
					src2 = c20Sources[rng.Intn(3)]
				}
				c20PutRaw(&s, src, "heartbeat-interval", h.d.String())
				c20PutRaw(&s, src2, "idle-timeout", idle.String())
				add(&c20Case{Key: fmt.Sprintf("refusal/heartbeat-ge-idle/%s/idle=%s/idle-src=%s", h.class, idle, src2), Family: "heartbeat-ge-idle", Source: src, Spec: s, Expect: h.expect,
					Detail: fmt.Sprintf("heartbeat-interval=%s idle-timeout=%s (%s)", h.d, idle, h.class)})
			}
		}
	}
	// defaults on one side: heartbeat 30s default vs idle given; idle 60s default vs heartbeat given
	for _, src := range c20Sources {
		for _, x := range []struct{ opt, val, class, expect string }{
			{"idle-timeout", "30s", "idle-equals-default-heartbeat", "refuse"}, {"idle-timeout", "29.999999999s", "idle-below-default-heartbeat", "refuse"},
			{"idle-timeout", "30.000000001s", "idle-above-default-heartbeat", "run"}, {"heartbeat-interval", "1m0s", "heartbeat-equals-default-idle", "refuse"},
			{"heartbeat-interval", "59.999999999s", "heartbeat-below-default-idle", "run"}} {
			s := c20Spec{}
			c20PutRaw(&s, src, x.opt, x.val)
			add(&c20Case{Key: "refusal/heartbeat-ge-idle/" + x.class, Family: "heartbeat-ge-idle", Source: src, Spec: s, Expect: x.expect, Detail: x.opt + "=" + x.val + " against the documented default of the other option"})
		}
	}
	// D2 num-conns
	counts := []struct {
		n      string
		expect string
	}{{"0", "refuse"}, {"-1", "refuse"}, {"1", "run"}, {"2", "run"}}
	for k := 0; k < c.Pick(3, 3000); k++ {
		counts = append(counts, struct {
			n      string
			expect string
		}{fmt.Sprint(-(2 + rng.Intn(1<<20))), "refuse"}, struct {
			n      string
			expect string
		}{fmt.Sprint(3 + rng.Intn(4)), "run"})
	}
	for _, n := range counts {
		for _, src := range c20Sources {
			s := c20Spec{}
			c20PutRaw(&s, src, "num-conns", n.n)
			add(&c20Case{Key: "refusal/num-conns/" + n.n, Family: "num-conns", Source: src, Spec: s, Expect: n.expect, Detail: "num-conns=" + n.n})
		}
	}
	// D3 no backend at all
	add(&c20Case{Key: "refusal/no-backend/nothing", Family: "no-backend", Source: "flag", Spec: c20Spec{NoBasics: true}, Expect: "refuse", Detail: "no contact points, bundle or token"})
	add(&c20Case{Key: "refusal/no-backend/port-only", Family: "no-backend", Source: "env", Spec: c20Spec{NoBasics: true, Env: []string{"PORT={PORT}", "NUM_CONNS=1"}}, Expect: "refuse", Detail: "environment without CONTACT_POINTS"})
	add(&c20Case{Key: "refusal/no-backend/yaml-without-contact-points", Family: "no-backend", Source: "yaml", Spec: c20Spec{NoBasics: true, YAML: "port: {PORT}\nnum-conns: 1\n"}, Expect: "refuse", Detail: "YAML without contact-points"})
	add(&c20Case{Key: "refusal/no-backend/empty-list", Family: "no-backend", Source: "yaml", Spec: c20Spec{NoBasics: true, YAML: "port: {PORT}\ncontact-points: []\n"}, Expect: "refuse", Detail: "YAML with an empty contact-points list"})
	add(&c20Case{Key: "refusal/no-backend/valid-env", Family: "no-backend", Source: "env", Spec: c20Spec{NoBasics: true, Env: []string{"PORT={PORT}", "CONTACT_POINTS={CP}"}}, Expect: "run", Detail: "contact points through the environment"})
	add(&c20Case{Key: "refusal/no-backend/valid-yaml", Family: "no-backend", Source: "yaml", Spec: c20Spec{NoBasics: true, YAML: "port: {PORT}\ncontact-points: [\"{CP}\"]\n"}, Expect: "run", Detail: "contact points through YAML"})
	// D4 peers without rpc-address (peers exist in YAML only)
	peersOK := "peers:\n  - rpc-address: 127.0.0.2\n  - rpc-address: 127.0.0.3\n    data-center: dc2\n"
	for _, src := range c20Sources {
		s := c20Spec{YAML: peersOK}
		add(&c20Case{Key: "refusal/peers-without-rpc-address/self-missing", Family: "peers-without-rpc-address", Source: "yaml", Spec: s, Expect: "refuse", Detail: "peers listed but this proxy has no rpc-address"})
		s2 := c20Spec{YAML: "peers:\n  - rpc-address: 127.0.0.2\n  - data-center: dc2\n"}
		c20Put(&s2, src, "rpc-address", "127.0.0.1")
		add(&c20Case{Key: "refusal/peers-without-rpc-address/peer-missing/self-src=" + src, Family: "peers-without-rpc-address", Source: "yaml", Spec: s2, Expect: "refuse", Detail: "second peer has no rpc-address"})
		s3 := c20Spec{YAML: peersOK}
		c20Put(&s3, src, "rpc-address", "127.0.0.1")
		add(&c20Case{Key: "refusal/peers-without-rpc-address/valid/self-src=" + src, Family: "peers-without-rpc-address", Source: "yaml", Spec: s3, Expect: "run", Detail: "every peer and this proxy have an rpc-address"})
		if src != "flag" {
			break // the first sub-case does not depend on src
		}
	}
	for _, src := range []string{"env", "yaml"} {
		s2 := c20Spec{YAML: "peers:\n  - data-center: dc2\n"}
		c20Put(&s2, src, "rpc-address", "127.0.0.1")
		add(&c20Case{Key: "refusal/peers-without-rpc-address/only-peer-missing/self-src=" + src, Family: "peers-without-rpc-address", Source: "yaml", Spec: s2, Expect: "refuse", Detail: "the only peer has no rpc-address"})
		s3 := c20Spec{YAML: peersOK}
		c20Put(&s3, src, "rpc-address", "127.0.0.1")
		add(&c20Case{Key: "refusal/peers-without-rpc-address/valid/self-src=" + src, Family: "peers-without-rpc-address", Source: "yaml", Spec: s3, Expect: "run", Detail: "every peer and this proxy have an rpc-address"})
	}
	// D5 tokens for this proxy but not for every peer
	for _, src := range c20Sources {
		mk := func(peers string) c20Spec {
			s := c20Spec{YAML: "rpc-address: 127.0.0.1\n" + peers}
			if src == "yaml" {
				c20PutRaw(&s, src, "tokens", `["1000", "2000"]`)
			} else {
				c20Put(&s, src, "tokens", "1000,2000")
			}
			return s
		}
		add(&c20Case{Key: "refusal/tokens-not-for-every-peer/second-peer-missing/self-src=" + src, Family: "tokens-not-for-every-peer", Source: "yaml", Expect: "refuse",
			Spec: mk("peers:\n  - rpc-address: 127.0.0.2\n    tokens: [\"100\"]\n  - rpc-address: 127.0.0.3\n"), Detail: "tokens for this proxy and peer 1, none for peer 2"})
		add(&c20Case{Key: "refusal/tokens-not-for-every-peer/first-of-two-missing/self-src=" + src, Family: "tokens-not-for-every-peer", Source: "yaml", Expect: "refuse",
			Spec: mk("peers:\n  - rpc-address: 127.0.0.2\n  - rpc-address: 127.0.0.3\n    tokens: [\"100\"]\n"), Detail: "tokens for this proxy and the last peer, none for the first peer"})
		add(&c20Case{Key: "refusal/tokens-not-for-every-peer/middle-of-three-missing/self-src=" + src, Family: "tokens-not-for-every-peer", Source: "yaml", Expect: "refuse",
			Spec: mk("peers:\n  - rpc-address: 127.0.0.2\n    tokens: [\"100\"]\n  - rpc-address: 127.0.0.3\n  - rpc-address: 127.0.0.4\n    tokens: [\"300\"]\n"), Detail: "tokens for this proxy and peers 1 and 3, none for peer 2"})
		add(&c20Case{Key: "refusal/tokens-not-for-every-peer/all-but-last-of-four-missing/self-src=" + src, Family: "tokens-not-for-every-peer", Source: "yaml", Expect: "refuse",
			Spec: mk("peers:\n  - rpc-address: 127.0.0.2\n  - rpc-address: 127.0.0.3\n  - rpc-address: 127.0.0.4\n  - rpc-address: 127.0.0.5\n    tokens: [\"9\"]\n"), Detail: "tokens for this proxy and the last of four peers only"})
		add(&c20Case{Key: "refusal/tokens-not-for-every-peer/only-peer-missing/self-src=" + src, Family: "tokens-not-for-every-peer", Source: "yaml", Expect: "refuse",
			Spec: mk("peers:\n  - rpc-address: 127.0.0.2\n"), Detail: "tokens for this proxy, none for its only peer"})
		add(&c20Case{Key: "refusal/tokens-not-for-every-peer/empty-list/self-src=" + src, Family: "tokens-not-for-every-peer", Source: "yaml", Expect: "refuse",
			Spec: mk("peers:\n  - rpc-address: 127.0.0.2\n    tokens: []\n"), Detail: "tokens for this proxy, empty token list for its peer"})
		add(&c20Case{Key: "refusal/tokens-not-for-every-peer/valid/self-src=" + src, Family: "tokens-not-for-every-peer", Source: "yaml", Expect: "run",
			Spec: mk("peers:\n  - rpc-address: 127.0.0.2\n    tokens: [\"100\"]\n  - rpc-address: 127.0.0.3\n    tokens: [\"200\", \"300\"]\n"), Detail: "tokens for this proxy and for every peer"})
	}
	// every layout: 1-3 remote peers, each with or without tokens, this proxy's own entry absent from the shared list or
	// present (first or last, with or without tokens of its own): refused exactly when some REMOTE peer has no tokens
	for nRemote := 1; nRemote <= 3; nRemote++ {
		for mask := 0; mask < 1<<nRemote; mask++ {
			for own := 0; own < 5; own++ { // 0 absent, 1 first+tokens, 2 first, 3 last+tokens, 4 last
				var entries []string
				missing := 0
				for k := 0; k < nRemote; k++ {
					e := fmt.Sprintf("  - rpc-address: 127.0.0.%d\n", k+2)
					if mask&(1<<k) != 0 {
						e += fmt.Sprintf("    tokens: [\"%d\"]\n", 100*(k+1))
					} else {
						missing++
					}
					entries = append(entries, e)
				}
				ownEntry := "  - rpc-address: 127.0.0.1\n"
				if own == 1 || own == 3 {
					ownEntry += "    tokens: [\"1000\", \"2000\"]\n"
				}
				switch own {
				case 1, 2:
					entries = append([]string{ownEntry}, entries...)
				case 3, 4:
					entries = append(entries, ownEntry)
				}
				expect := "run"
				if missing > 0 {
					expect = "refuse"
				}
				src := c20Sources[(nRemote+mask+own)%len(c20Sources)]
				sp := c20Spec{YAML: "rpc-address: 127.0.0.1\npeers:\n" + strings.Join(entries, "")}
				if src == "yaml" {
					c20PutRaw(&sp, src, "tokens", `["1000", "2000"]`)
				} else {
					c20Put(&sp, src, "tokens", "1000,2000")
				}
				add(&c20Case{Key: fmt.Sprintf("refusal/tokens-not-for-every-peer/layout/remote=%d/with-tokens=%0*b/own-entry=%s/self-src=%s", nRemote, nRemote, mask,
					[]string{"absent", "first+tokens", "first", "last+tokens", "last"}[own], src), Family: "tokens-not-for-every-peer", Source: "yaml", Expect: expect,
					Spec: sp, Detail: fmt.Sprintf("%d remote peers, %d of them without tokens; own entry in the list: %s", nRemote, missing, []string{"no", "first, with tokens", "first, no tokens", "last, with tokens", "last, no tokens"}[own])})
			}
		}
	}
	add(&c20Case{Key: "refusal/tokens-not-for-every-peer/valid-no-tokens", Family: "tokens-not-for-every-peer", Source: "yaml", Expect: "run",
		Spec: c20Spec{YAML: "rpc-address: 127.0.0.1\npeers:\n  - rpc-address: 127.0.0.2\n  - rpc-address: 127.0.0.3\n"}, Detail: "no tokens anywhere (computed)"})
	// D6 unknown names
	badVers := []string{"v6", "v2", "2", "6", "DSEv3", "dse", "v", "4.0", "0x42", "v 4", "67", "vv4", "DSE_v1"}
	if c.Quick() {
		badVers = []string{"v6", "v2", "DSEv3", "67", "4.0"}
	}
	for _, opt := range []string{"protocol-version", "max-protocol-version"} {
		for _, name := range badVers {
			for _, src := range c20Sources {
				s := c20Spec{}
				c20Put(&s, src, opt, name)
				add(&c20Case{Key: "refusal/unknown-version-name/" + opt + "=" + name, Family: "unknown-version-name", Source: src, Spec: s, Expect: "refuse", Detail: opt + "=" + name})
			}
		}
	}
	badCLs := []string{"bogus", "quorom", "local-quorum", "LOCAL", "1", "localquorum", "EACH QUORUM", "one,bogus"}
	if c.Quick() {
		badCLs = []string{"bogus", "local-quorum", "one,bogus"}
	}
	for _, name := range badCLs {
		for _, src := range c20Sources {
			s := c20Spec{}
			if src == "yaml" {
				c20PutRaw(&s, src, "unsupported-write-consistencies", `["`+strings.ReplaceAll(name, ",", `", "`)+`"]`)
			} else {
				c20Put(&s, src, "unsupported-write-consistencies", name)
			}
			add(&c20Case{Key: "refusal/unknown-consistency-name/unsupported-write-consistencies=" + name, Family: "unknown-consistency-name", Source: src, Spec: s, Expect: "refuse", Detail: "unsupported-write-consistencies=" + name})
			if src != "env" && !strings.Contains(name, ",") {
				s2 := c20Spec{}
				c20Put(&s2, src, "unsupported-write-consistency-override", name)
				add(&c20Case{Key: "refusal/unknown-consistency-name/unsupported-write-consistency-override=" + name, Family: "unknown-consistency-name", Source: src, Spec: s2, Expect: "refuse", Detail: "unsupported-write-consistency-override=" + name})
			}
		}
	}
	// D7 unparsable YAML (the backend is given by flags, so nothing else is wrong)
	for _, y := range []struct{ class, text string }{
		{"syntax/unclosed-flow-sequence", "contact-points: [\n"}, {"syntax/top-level-sequence", "[bogus]\n"}, {"syntax/tab-indentation", "peers:\n\t- rpc-address: 127.0.0.2\n"},
		{"syntax/unclosed-quote", "data-center: \"dc1\n"}, {"syntax/bad-mapping", "num-conns: 1: 2\n"}, {"syntax/garbage", "%%%% not yaml {{{{\n"},
		{"type/num-conns-not-a-number", "num-conns: many\n"}, {"type/port-is-a-list", "port: [1, 2]\n"}, {"type/heartbeat-not-a-duration", "heartbeat-interval: soon\n"},
		{"type/peers-is-a-scalar", "peers: 5\n"}, {"type/debug-not-a-bool", "debug: perhaps\n"}} {
		add(&c20Case{Key: "refusal/unparsable-yaml/" + y.class, Family: "unparsable-yaml", Source: "yaml", Spec: c20Spec{YAML: y.text}, Expect: "refuse", Detail: "YAML file content " + fmt.Sprintf("%q", y.text)})
	}
	add(&c20Case{Key: "refusal/unparsable-yaml/valid", Family: "unparsable-yaml", Source: "yaml", Spec: c20Spec{YAML: "num-conns: 2\ndata-center: \"dc1\"\ndebug: false\n"}, Expect: "run", Detail: "well-formed YAML"})

	return out
}

func runC20(c *Ctx) {
	r := c.R
	r.Assume("documented spellings: v3, v4, v5, DSEv1, DSEv2 (flag help / README) in any letter case, plus the numeric forms 3, 4, 5, 65, 66 the parser accepts; known versions are ordered by version byte")
	r.Assume("the running state is 'listener bound and an OPTIONS (v3) answered SUPPORTED'; start-up failure is a non-zero exit status")
	r.Assume("consistency codes per the CQL native protocol: ANY 0 .. LOCAL_ONE 10")
	r.Require("reached_running", "refused", "backend_startup_observed", "accepted_set_observed", "consistency_probes")
	if _, err := os.Stat(filepath.Join(c.Dir, "out", "bin", "cql-proxy")); err != nil {
		r.Inconc("cql-proxy binary missing: " + err.Error())
		return
	}
	if old, err := filepath.Glob(filepath.Join(c.Dir, "out", "logs", "c20", fmt.Sprintf("%s-s%d-*", c.Tier, c.Shard))); err == nil {
		for _, f := range old { // logs kept by an earlier run of this shard
			_ = os.Remove(f)
		}
	}
	cases := c20Cases(c)
	r.Extra["cases_total"] = len(cases)
	if c.Replay != nil && c.Replay["kind"] == "c20case" {
		for i, cs := range cases {
			if cs.Key == c.Replay["key"] {
				c20RunCase(c, i, cs)
			}
		}
		return
	}
	var mu sync.Mutex
	sampled := 0
	c.Parallel(len(cases), 12, func(i int) {
		c20RunCase(c, i, cases[i])
		mu.Lock()
		if sampled < 8 && i%37 == 0 {
			sampled++
			r.Sample(map[string]interface{}{"case": cases[i].Key, "expect": cases[i].Expect, "detail": cases[i].Detail, "args": cases[i].Spec.Args, "env": cases[i].Spec.Env, "yaml": cases[i].Spec.YAML})
		}
		mu.Unlock()
	})
}
