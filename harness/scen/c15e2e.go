//go:build verif

package scen

import (
	"fmt"
	"net"
	"sort"
	"strings"
	"time"

	"github.com/datastax/go-cassandra-native-protocol/datatype"
	"github.com/datastax/go-cassandra-native-protocol/message"
	"github.com/datastax/go-cassandra-native-protocol/primitive"

	"verif/fakecass"
	"verif/mon"
	"verif/px"
)

// c15EndToEnd: the notifications the load balancer gets come from the cluster's control connection. Topology sequences are
// announced through a real control connection (refreshes that succeed, refreshes that fail because the control node
// misreports its own address once, control fail-overs); after each step a new query plan of the proxy's load balancer
// must yield exactly the hosts the backend lists, each once.
func c15EndToEnd(c *Ctx, idx int) {
	r := c.R
	rng := c.Rng(300000 + idx)
	total := 3 + rng.Intn(2)
	c.Step("c15 end-to-end idx=%d hosts=%d", idx, total)
	// every third history has a refresh window long enough for the control connection to be lost inside it
	lossInWindow := idx%3 == 2
	window := 20 * time.Millisecond
	if lossInWindow {
		window = 300 * time.Millisecond
	}
	// ... and in half of those the proxy waits longer before it reconnects than the window lasts: the refresh falls due while
	// there is no control connection
	rbase, rmax := time.Millisecond, 3*time.Millisecond
	if lossInWindow && idx%2 == 1 {
		rbase, rmax = 450*time.Millisecond, 500*time.Millisecond
	}
	bed, err := px.NewBed(px.BedConfig{Hosts: total, NumConns: 1, Keyspaces: []string{"ks1"}, RefreshWindow: window, ReconnectBase: rbase, ReconnectMax: rmax})
	if err != nil {
		r.Inconc("c15 e2e: cannot start bed: " + err.Error())
		return
	}
	defer bed.Close()
	listed := map[int]bool{}
	for h := 1; h <= total; h++ {
		listed[h] = true
	}
	peersReads := func() int {
		n := 0
		for _, e := range bed.Log.Snapshot() {
			if e.Src == "backend" && e.K == "reply" && (e.Outcome == "System:peers") {
				n++
			}
		}
		return n
	}
	controlUp := func() bool {
		return waitFor(func() bool { return len(bed.Cluster.EstablishedControlConns()) >= 1 }, 20*time.Second)
	}
	var shape []string
	steps := 2 + rng.Intn(4)
	for s := 0; s < steps; s++ {
		if !controlUp() {
			r.Inconc("c15 e2e: no established control connection")
			return
		}
		// never remove the host that serves the control connection (it always lists itself)
		ctlHost := bed.Cluster.EstablishedControlConns()[0].Host.Idx
		var cand []int
		for h := 1; h <= total; h++ {
			if h != ctlHost {
				cand = append(cand, h)
			}
		}
		h := cand[rng.Intn(len(cand))]
		op := "add"
		if listed[h] {
			op = "remove"
		}
		badRefresh := rng.Intn(3) == 0
		killCtl := lossInWindow && (s == 0 || rng.Intn(2) == 0)
		if killCtl {
			badRefresh = false
		}
		shape = append(shape, fmt.Sprintf("%s%d%s%s", op, h, map[bool]string{true: "+misreported-local-address", false: ""}[badRefresh], map[bool]string{true: "+control-connection-lost-inside-the-refresh-window", false: ""}[killCtl]))
		if badRefresh {
			// in the refresh that announces this change the control node reports a foreign rpc_address for itself, once
			fired := false
			bed.Cluster.SystemOverride = func(x *fakecass.Conn, table string) message.Message {
				if table != "local" || fired || !x.IsRegistered() || x.PeersAnswered() == 0 {
					return nil
				}
				fired = true
				cols := []*message.ColumnMetadata{
					{Keyspace: "system", Table: "local", Name: "rpc_address", Type: datatype.Inet},
					{Keyspace: "system", Table: "local", Name: "data_center", Type: datatype.Varchar},
					{Keyspace: "system", Table: "local", Name: "partitioner", Type: datatype.Varchar},
					{Keyspace: "system", Table: "local", Name: "release_version", Type: datatype.Varchar},
					{Keyspace: "system", Table: "local", Name: "cql_version", Type: datatype.Varchar},
				}
				return &message.RowsResult{Metadata: &message.RowsMetadata{ColumnCount: int32(len(cols)), Columns: cols},
					Data: message.RowSet{message.Row{net.ParseIP("127.0.0.99").To4(), []byte("dc1"), []byte("p"), []byte("4.0.7"), []byte("3.4.5")}}}
			}
		}
		before := peersReads()
		listed[h] = op == "add"
		if lossInWindow {
			// in these histories a node that leaves is really gone (and one that joins is started first): the control
			// connection looks for a new node while the change is fresh, and a node that is up always lists itself
			if op == "remove" {
				bed.Cluster.Hosts[h-1].Stop()
			} else if err := bed.Cluster.Hosts[h-1].Start(false); err != nil {
				r.Inconc("c15 e2e: cannot restart a host: " + err.Error())
				return
			}
		}
		bed.Cluster.SetListed(h, listed[h])
		ct := primitive.TopologyChangeTypeRemovedNode
		if op == "add" {
			ct = primitive.TopologyChangeTypeNewNode
		}
		bed.Cluster.Emit(&message.TopologyChangeEvent{ChangeType: ct, Address: &primitive.Inet{Addr: net.ParseIP(bed.Cluster.HostIP(h)), Port: int32(bed.Cluster.Port)}})
		if killCtl {
			time.Sleep(30 * time.Millisecond) // the event has been read and the refresh is pending
			for _, x := range bed.Cluster.EstablishedControlConns() {
				x.Kill(false)
			}
			r.Obs("e2e_control_lost_inside_refresh_window", 1)
		}
		// the proxy re-reads the tables successfully at least once after the announcement (a failed refresh is followed by a
		// control reconnect, which reads them again)
		ok := waitFor(func() bool { return peersReads() > before && len(bed.Cluster.EstablishedControlConns()) >= 1 }, 20*time.Second)
		bed.Cluster.SystemOverride = nil
		if !ok {
			if len(bed.Cluster.EstablishedControlConns()) == 0 {
				r.Inconc("c15 e2e: no control connection after a topology event")
				return
			}
			// a control connection is up, the change was announced on it, and 20 s (the refresh window is well under half a
			// second) passed without the tables being read again: the plan is compared with the membership all the same
			r.Obs("e2e_tables_not_reread_after_event", 1)
		}
		time.Sleep(40 * time.Millisecond)
		// oracle: a fresh plan yields exactly the listed hosts, each once
		var want []string
		for hh := 1; hh <= total; hh++ {
			if listed[hh] {
				want = append(want, fmt.Sprintf("%s:%d", bed.Cluster.HostIP(hh), bed.Cluster.Port))
			}
		}
		sort.Strings(want)
		good := false
		var got []string
		for attempt := 0; attempt < 600 && !good; attempt++ { // the events of the merge are delivered right after the read we observed
			got = got[:0]
			plan := bed.Proxy.VerifLoadBalancer().NewQueryPlan()
			for hst := plan.Next(); hst != nil; hst = plan.Next() {
				got = append(got, hst.Key())
			}
			sort.Strings(got)
			good = strings.Join(got, ",") == strings.Join(want, ",")
			if !good {
				time.Sleep(10 * time.Millisecond)
			}
		}
		r.Eval(1)
		r.Obs("e2e_plans_checked", 1)
		if !good {
			kind := "missing-or-removed-host"
			seen := map[string]bool{}
			for _, g := range got {
				if seen[g] {
					kind = "duplicate-host"
				}
				seen[g] = true
			}
			r.Violate(mon.Violation{Signature: "C15/end-to-end/plan-differs-from-backend-membership/" + kind, Detail: fmt.Sprintf("after %s (announced through the control connection) the backend lists %v but a new query plan yields %v", strings.Join(shape, ", "), want, got),
				Scenario: map[string]interface{}{"kind": "e2e", "idx": idx}})
			return
		}
	}
	r.NonTrivial("e2e/" + strings.Join(shape, ","))
	if idx%7 == 0 {
		r.Sample(map[string]interface{}{"end_to_end_steps": shape})
	}
	var _ = mon.Event{}
}
