//go:build verif

package scen

import (
	"bytes"
	"encoding/hex"
	"fmt"
	"regexp"
	"strings"
	"sync"
	"sync/atomic"
	"time"

	"github.com/datastax/cql-proxy/parser"
	"github.com/datastax/go-cassandra-native-protocol/frame"
	"github.com/datastax/go-cassandra-native-protocol/message"
	"github.com/datastax/go-cassandra-native-protocol/primitive"

	"verif/mon"
	"verif/px"
	"verif/rawcql"
)

// C09 — only USE and genuine system-table SELECTs are answered by the proxy itself.
//
// The statement is generated from a tuple of coordinates and the expected decision is computed from the coordinates
// alone (DESIGN.md appendix E): no parsing of the statement text, no call into the code under test.
//
//  (a) direct, exhaustive over the full product: parser.IsQueryHandled(IdentifierFromString(curks), text).handled
//  (b) end to end, PRNG-sampled: the statement as QUERY and as PREPARE+EXECUTE through a live proxy; a token in the
//      statement tells whether it reached a fake backend.

func init() {
	Register(&Runner{Prop: "C09", Level: "exploration",
		Rule:    "statement generated from a tuple (current keyspace x statement kind x keyspace qualifier x table spelling x selector list x trailing clause); expected decision computed from the tuple by CQL identifier folding (appendix E), never from the code under test. (a) the full product checked directly against parser.IsQueryHandled in both tiers (exhaustive); (b) a PRNG-sampled subset sent as QUERY and PREPARE+EXECUTE through a live proxy, token reaches a backend iff not expected handled, plus a token-independent scan of every non-control backend frame for SELECTs from system.local/system.peers. distinct = (mode, tuple); non-trivial = current keyspace, qualifier or table is a case/quote variant or a look-alike.",
		Shards:  shards(4, 8),
		Timeout: timeouts(6*time.Minute, 40*time.Minute),
		Run:     runC09})
}

// c09Val is one value of a tuple coordinate.
type c09Val struct {
	Text    string // literal CQL text ("" = absent / none)
	Label   string // coordinate label used in signatures and observation keys
	Sem     string // declared meaning (cross-checked against fold() at start-up)
	Variant bool   // case/quote variant or look-alike (makes the tuple non-trivial)
	Base    int    // index of the plain spelling of the same object (shrinking)
}

var c09Curks = []c09Val{
	{"", "none", "none", false, 0},
	{"system", "system", "system", false, 1},
	{"SYSTEM", "SYSTEM", "system", true, 1},
	{"System", "System", "system", true, 1},
	{`"system"`, "quoted-system", "system", true, 1},
	{"ks1", "user", "notsystem", false, 5},
	{`"System"`, "quoted-System", "notsystem", true, 5}, // quoted, different case: NOT the system keyspace
	{`"Ks1"`, "quoted-user", "notsystem", true, 5},
}

var c09Quals = []c09Val{
	{"", "absent", "absent", false, 0},
	{"system", "system", "system", false, 1},
	{"SYSTEM", "SYSTEM", "system", true, 1},
	{"SyStEm", "SyStEm", "system", true, 1},
	{`"system"`, "quoted-system", "system", true, 1},
	{`"SYSTEM"`, "quoted-SYSTEM", "notsystem", true, 6}, // quoted upper case: NOT the system keyspace
	{"ks1", "user", "notsystem", false, 6},
	{`"ks1"`, "quoted-user", "notsystem", true, 6},
	{"system_schema", "system_schema", "notsystem", true, 6},
	{"systems", "systems", "notsystem", true, 6},
}

var c09Tables = []c09Val{
	{"local", "local", "sys", false, 0},
	{"peers", "peers", "sys", false, 1},
	{"peers_v2", "peers_v2", "sys", false, 2},
	{"schema_keyspaces", "schema_keyspaces", "sys", false, 3},
	{"schema_columnfamilies", "schema_columnfamilies", "sys", false, 4},
	{"schema_columns", "schema_columns", "sys", false, 5},
	{"schema_usertypes", "schema_usertypes", "sys", false, 6},
	{"LOCAL", "LOCAL", "sys", true, 0},
	{"Peers", "Peers", "sys", true, 1},
	{"PEERS_V2", "PEERS_V2", "sys", true, 2},
	{"Schema_Keyspaces", "Schema_Keyspaces", "sys", true, 3},
	{`"local"`, "quoted-local", "sys", true, 0},
	{`"peers"`, "quoted-peers", "sys", true, 1},
	{`"LOCAL"`, "quoted-LOCAL", "nonsys", true, 20}, // quoted wrong case: not a system table
	{`"Peers"`, "quoted-Peers", "nonsys", true, 20},
	{"locals", "locals", "nonsys", true, 20},
	{"local_", "local_", "nonsys", true, 20},
	{"peer", "peer", "nonsys", true, 20},
	{"peers_v3", "peers_v3", "nonsys", true, 20},
	{"xlocal", "xlocal", "nonsys", true, 20},
	{"t", "user-t", "nonsys", false, 20},
	{"users", "user-users", "nonsys", false, 20},
}

const (
	c09Select = iota
	c09Use
	c09Insert
	c09Update
	c09Delete
	c09Other
)

var c09Kinds = []string{"SELECT", "USE", "INSERT", "UPDATE", "DELETE", "OTHER"}

var c09Sels = []c09Val{
	{"*", "star", "", false, 0},
	{"key", "key", "", false, 0},
	{"count(*)", "count", "", false, 0},
	{"key, rpc_address", "two-columns", "", false, 0},
	{"rpc_address AS a", "alias", "", false, 0},
	{"now()", "now", "", false, 0},
	// select clauses that are valid CQL but that the proxy cannot evaluate itself: still its own business (an error from
	// the proxy), never the backend's
	{"JSON *", "json", "", false, 0},
	{"DISTINCT key", "distinct", "", false, 0},
	{"writetime(rpc_address)", "writetime", "", false, 0},
	{"CAST(key AS text)", "cast", "", false, 0},
	{"token(key)", "token", "", false, 0},
}

const (
	c09TrNone = iota
	c09TrWhere
	c09TrLimit
	c09TrAllow
	c09TrSemi
)

var c09Trails = []string{"none", "where", "limit", "allow-filtering", "semicolon"}

// the "other" statement kinds, chosen by the selector coordinate
var c09Others = []string{"batch", "create-table", "alter-table", "grant", "create-mv", "list-permissions", "create-trigger", "create-index", "create-table-2", "revoke", "list-permissions-2"}

var c09SysTables = map[string]bool{"local": true, "peers": true, "peers_v2": true, "schema_keyspaces": true,
	"schema_columnfamilies": true, "schema_columns": true, "schema_usertypes": true}

// c09Fold is the CQL identifier rule: quoted identifiers keep their content ("" is an escaped quote), others fold to lower case.
func c09Fold(x string) string {
	if len(x) >= 2 && x[0] == '"' && x[len(x)-1] == '"' {
		return strings.ReplaceAll(x[1:len(x)-1], `""`, `"`)
	}
	return strings.ToLower(x)
}

type c09Tuple struct{ C, K, Q, T, S, R int }

func c09Total() int {
	return len(c09Curks) * len(c09Kinds) * len(c09Quals) * len(c09Tables) * len(c09Sels) * len(c09Trails)
}

func c09FromIndex(i int) c09Tuple {
	var t c09Tuple
	t.R = i % len(c09Trails)
	i /= len(c09Trails)
	t.S = i % len(c09Sels)
	i /= len(c09Sels)
	t.T = i % len(c09Tables)
	i /= len(c09Tables)
	t.Q = i % len(c09Quals)
	i /= len(c09Quals)
	t.K = i % len(c09Kinds)
	i /= len(c09Kinds)
	t.C = i
	return t
}

func (t c09Tuple) key() string {
	return fmt.Sprintf("c%dk%dq%dt%ds%dr%d", t.C, t.K, t.Q, t.T, t.S, t.R)
}

func (t c09Tuple) nonTrivial() bool {
	return c09Curks[t.C].Variant || c09Quals[t.Q].Variant || c09Tables[t.T].Variant
}

// expected is appendix E, computed from the coordinates only.
func (t c09Tuple) expected() bool {
	switch t.K {
	case c09Use:
		return true
	case c09Select:
		eff := c09Quals[t.Q].Text
		if eff == "" {
			eff = c09Curks[t.C].Text
		}
		return eff != "" && c09Fold(eff) == "system" && c09SysTables[c09Fold(c09Tables[t.T].Text)]
	}
	return false
}

func (t c09Tuple) qt() string {
	if q := c09Quals[t.Q].Text; q != "" {
		return q + "." + c09Tables[t.T].Text
	}
	return c09Tables[t.T].Text
}

// useTarget is the keyspace a USE statement of this tuple names.
func (t c09Tuple) useTarget() string {
	if q := c09Quals[t.Q].Text; q != "" {
		return q
	}
	if k := c09Curks[t.C].Text; k != "" {
		return k
	}
	return "ks1"
}

// text renders the statement. lit is the content of the one string literal ("local" in direct mode, a token end to end);
// tokenised forces the literal to be present (SELECT gets a WHERE clause for every trailing class); marker adds one bind
// marker (the PREPARE form).
func (t c09Tuple) text(lit string, tokenised, marker bool) string {
	qt := t.qt()
	semi := ""
	if t.R == c09TrSemi {
		semi = ";"
	}
	mk := func(constant string) string {
		if marker {
			return "?"
		}
		return constant
	}
	switch t.K {
	case c09Select:
		s := "SELECT " + c09Sels[t.S].Text + " FROM " + qt
		if tokenised || t.R == c09TrWhere {
			s += " WHERE key='" + lit + "'"
			if marker {
				s += " AND rpc_address=?"
			}
		}
		switch t.R {
		case c09TrLimit:
			s += " LIMIT 1"
		case c09TrAllow:
			s += " ALLOW FILTERING"
		}
		return s + semi
	case c09Use:
		// two blanks: whitespace is insignificant in CQL, and it makes the client's text distinguishable from the
		// "USE <ks>" the proxy itself sends to backends when it sets up a session
		return "USE  " + t.useTarget() + semi
	case c09Insert:
		return "INSERT INTO " + qt + " (key, v) VALUES ('" + lit + "', " + mk("1") + ")" + semi
	case c09Update:
		return "UPDATE " + qt + " SET v=" + mk("1") + " WHERE key='" + lit + "'" + semi
	case c09Delete:
		cols := ""
		switch t.S {
		case 1:
			cols = "key "
		case 3:
			cols = "key, rpc_address "
		}
		s := "DELETE " + cols + "FROM " + qt + " WHERE key='" + lit + "'"
		if marker {
			s += " AND c=?"
		}
		return s + semi
	default:
		switch c09Others[t.S] {
		case "batch":
			return "BEGIN BATCH INSERT INTO " + qt + " (key, v) VALUES ('" + lit + "', " + mk("1") + ") APPLY BATCH" + semi
		case "create-table":
			return "CREATE TABLE IF NOT EXISTS " + qt + " (key text PRIMARY KEY, v int) WITH comment='" + lit + "'" + semi
		case "alter-table":
			return "ALTER TABLE " + qt + " WITH comment='" + lit + "'" + semi
		case "grant":
			return "GRANT SELECT ON TABLE " + qt + " TO '" + lit + "'" + semi
		case "create-trigger":
			return "CREATE TRIGGER IF NOT EXISTS trg1 ON " + qt + " USING '" + lit + "'" + semi
		case "create-index":
			return "CREATE CUSTOM INDEX IF NOT EXISTS ON " + qt + " (v) USING '" + lit + "'" + semi
		case "create-table-2":
			return "CREATE TABLE IF NOT EXISTS " + qt + " (key text PRIMARY KEY) WITH compaction={'class':'" + lit + "'}" + semi
		case "revoke":
			return "REVOKE SELECT ON TABLE " + qt + " FROM '" + lit + "'" + semi
		case "create-mv":
			return "CREATE MATERIALIZED VIEW IF NOT EXISTS mv1 AS SELECT * FROM " + qt + " WHERE key IS NOT NULL AND key='" + lit + "' PRIMARY KEY (key)" + semi
		default:
			return "LIST ALL PERMISSIONS ON TABLE " + qt + " OF '" + lit + "'" + semi
		}
	}
}

func (t c09Tuple) directText() string { return t.text("local", false, false) }

func (t c09Tuple) describe() map[string]interface{} {
	return map[string]interface{}{"curks": c09Curks[t.C].Label, "kind": c09Kinds[t.K], "qual": c09Quals[t.Q].Label, "table": c09Tables[t.T].Label,
		"selectors": c09Sels[t.S].Label, "trailing": c09Trails[t.R], "current_keyspace_text": c09Curks[t.C].Text, "statement": t.directText(), "expected_handled": t.expected()}
}

func (t c09Tuple) scenario(mode string) map[string]interface{} {
	return map[string]interface{}{"kind": "tuple", "mode": mode, "c": t.C, "k": t.K, "q": t.Q, "t": t.T, "s": t.S, "r": t.R}
}

// c09SelfCheck makes sure the coordinate tables say what their labels claim (a harness bug otherwise).
func c09SelfCheck() {
	for i, v := range c09Curks {
		want := "notsystem"
		if v.Text == "" {
			want = "none"
		} else if c09Fold(v.Text) == "system" {
			want = "system"
		}
		if v.Sem != want || c09Curks[v.Base].Sem != v.Sem || c09Curks[v.Base].Variant {
			panic(fmt.Sprintf("c09: bad current-keyspace table entry %d", i))
		}
	}
	for i, v := range c09Quals {
		want := "notsystem"
		if v.Text == "" {
			want = "absent"
		} else if c09Fold(v.Text) == "system" {
			want = "system"
		}
		if v.Sem != want || c09Quals[v.Base].Sem != v.Sem || c09Quals[v.Base].Variant {
			panic(fmt.Sprintf("c09: bad qualifier table entry %d", i))
		}
	}
	for i, v := range c09Tables {
		want := "nonsys"
		if c09SysTables[c09Fold(v.Text)] {
			want = "sys"
		}
		if v.Sem != want || c09Tables[v.Base].Sem != v.Sem || c09Tables[v.Base].Variant ||
			(want == "sys" && c09Fold(c09Tables[v.Base].Text) != c09Fold(v.Text)) {
			panic(fmt.Sprintf("c09: bad table entry %d", i))
		}
	}
	if len(c09Others) != len(c09Sels) {
		panic("c09: other-statement list must be as long as the selector list")
	}
}

// c09Direct asks the code under test.
func c09Direct(t c09Tuple) (handled bool, err error) {
	handled, _, err = parser.IsQueryHandled(parser.IdentifierFromString(c09Curks[t.C].Text), t.directText())
	return
}

func c09Mismatch(t c09Tuple) bool {
	h, _ := c09Direct(t)
	return h != t.expected()
}

// c09Shrink replaces coordinates by plainer ones of the same meaning as long as the direct mismatch persists, so that one
// defect maps to one signature whatever spelling the enumeration (or the PRNG) met first.
func c09Shrink(t c09Tuple) c09Tuple {
	if !c09Mismatch(t) {
		return t
	}
	exp := t.expected()
	try := func(u c09Tuple) bool {
		if u != t && u.expected() == exp && c09Mismatch(u) {
			t = u
			return true
		}
		return false
	}
	// Candidates per coordinate, plainest first; a candidate is taken only if the expected decision stays the same and the
	// mismatch persists, so coordinates the defect does not depend on end up at their default and the others keep the
	// spelling that matters.
	idx := func(vals []c09Val, label string) int {
		for i, v := range vals {
			if v.Label == label {
				return i
			}
		}
		panic("c09: no coordinate value " + label)
	}
	pass := func(cur *int, set func(*c09Tuple, int), cands []int) bool {
		for _, cand := range cands {
			if cand == *cur {
				return false
			}
			u := t
			set(&u, cand)
			if try(u) {
				return true
			}
		}
		return false
	}
	for changed := true; changed; {
		changed = false
		if pass(&t.T, func(u *c09Tuple, v int) { u.T = v }, []int{idx(c09Tables, "local"), idx(c09Tables, "user-t"), c09Tables[t.T].Base}) {
			changed = true
		}
		if pass(&t.Q, func(u *c09Tuple, v int) { u.Q = v }, []int{idx(c09Quals, "system"), idx(c09Quals, "absent"), idx(c09Quals, "user"), c09Quals[t.Q].Base}) {
			changed = true
		}
		if pass(&t.C, func(u *c09Tuple, v int) { u.C = v }, []int{idx(c09Curks, "none"), idx(c09Curks, "system"), idx(c09Curks, "user"), c09Curks[t.C].Base}) {
			changed = true
		}
	}
	if t.K != c09Other && t.K != c09Delete { // there the selector coordinate picks the statement form
		u := t
		u.S = 0
		try(u)
	}
	u := t
	u.R = c09TrNone
	try(u)
	return t
}

func (t c09Tuple) coordSig() string {
	s := ""
	if t.K != c09Select {
		s = "kind=" + c09Kinds[t.K] + "/"
	}
	return fmt.Sprintf("%scurks=%s/qual=%s/table=%s/expected=%v", s, c09Curks[t.C].Label, c09Quals[t.Q].Label, c09Tables[t.T].Label, t.expected())
}

func runC09(c *Ctx) {
	c09SelfCheck()
	r := c.R
	r.Require("direct:tuples", "direct:expected=true", "direct:expected=false", "e2e:query-forwarded", "e2e:query-intercepted",
		"e2e:prepare-forwarded", "e2e:prepare-intercepted", "e2e:execute-forwarded", "e2e:execute-intercepted", "leakscan:statements-decoded")
	r.Assume("the fake backend accepts every keyspace the tuple space can USE (ks1, Ks1, System, SYSTEM, system_schema, systems besides system) and answers every forwarded statement with an echo row; what the proxy answers to intercepted statements is not judged here (C10)")
	r.Assume("end to end, every SELECT carries WHERE key='<token>' (trailing classes none and where coincide there); USE statements carry no token and are recognised at the backend by their exact text, which has two blanks after USE, unlike the USE the proxy itself issues")
	if c.Replay != nil && c.Replay["kind"] == "tuple" {
		gi := func(k string) int { v, _ := c.Replay[k].(float64); return int(v) }
		t := c09Tuple{gi("c"), gi("k"), gi("q"), gi("t"), gi("s"), gi("r")}
		if c.Replay["mode"] == "e2e" {
			c09E2E(c, []c09Tuple{t})
		} else {
			c09CheckDirect(c, t, map[string]bool{})
			r.Eval(1)
		}
		return
	}
	if c.Shard == 0 {
		c09DirectAll(c)
	}
	// (b) the sampled subset
	n := c.Pick(2000, 700000)
	rng := c.Rng(0)
	var mine []c09Tuple
	kindWeights := []int{c09Select, c09Select, c09Select, c09Select, c09Select, c09Use, c09Insert, c09Update, c09Delete, c09Other}
	for i := 0; i < n; i++ {
		t := c09Tuple{C: rng.Intn(len(c09Curks)), K: kindWeights[rng.Intn(len(kindWeights))], Q: rng.Intn(len(c09Quals)), T: rng.Intn(len(c09Tables)),
			S: rng.Intn(len(c09Sels)), R: rng.Intn(len(c09Trails))}
		if c.Mine(i) {
			mine = append(mine, t)
		}
	}
	r.Extra["e2e_sample_size"] = n
	c09E2E(c, mine)
}

// ---------------------------------------------------------------------------------------------------------------------
// (a) direct

func c09DirectAll(c *Ctx) {
	r := c.R
	total := c09Total()
	c.Step("direct enumeration of %d tuples", total)
	counts := map[string]int{}
	reported := map[string]bool{}
	for i := 0; i < total; i++ {
		t := c09FromIndex(i)
		exp := t.expected()
		counts["direct:curks="+c09Curks[t.C].Label]++
		counts["direct:kind="+c09Kinds[t.K]]++
		counts["direct:qual="+c09Quals[t.Q].Label]++
		counts["direct:table="+c09Tables[t.T].Label]++
		counts["direct:selectors="+c09Sels[t.S].Label]++
		counts["direct:trailing="+c09Trails[t.R]]++
		counts[fmt.Sprintf("direct:expected=%v", exp)]++
		if t.K == c09Select {
			counts[fmt.Sprintf("direct:select/expected=%v", exp)]++
		}
		if t.nonTrivial() {
			r.NonTrivial("d" + t.key())
		}
		h, err := c09CheckDirect(c, t, reported)
		if h && err != nil {
			counts["direct:handled-with-parse-error"]++
		}
		if i%79199 == 0 {
			r.Sample(t.describe())
		}
	}
	counts["direct:tuples"] = total
	for k, v := range counts {
		r.Obs(k, v)
	}
	r.Eval(total)
	r.Extra["tuples_total"] = total
	r.Extra["tuple_space"] = map[string]int{"current_keyspace": len(c09Curks), "kind": len(c09Kinds), "qualifier": len(c09Quals), "table": len(c09Tables),
		"selectors": len(c09Sels), "trailing": len(c09Trails)}
	r.Exhaustive = true
}

// c09CheckDirect evaluates one tuple directly; reported de-duplicates the (shrunk) signatures already witnessed 3 times.
func c09CheckDirect(c *Ctx, t c09Tuple, reported map[string]bool) (bool, error) {
	h, err := c09Direct(t)
	exp := t.expected()
	if h == exp {
		return h, err
	}
	m := c09Shrink(t)
	sig := "C09/handled-mismatch/" + m.coordSig()
	c.R.Obs("direct:mismatching-tuples", 1)
	if reported[sig] { // the same defect through another spelling: counted, one witness is enough
		c.R.Obs("violation:"+sig, 1)
		return h, err
	}
	reported[sig] = true
	c.R.Violate(mon.Violation{Signature: sig,
		Detail: fmt.Sprintf("parser.IsQueryHandled(IdentifierFromString(%q), %q) returned handled=%v, CQL identifier rules say %v (minimal form of the failing class: current keyspace %q, statement %q)",
			c09Curks[t.C].Text, t.directText(), h, exp, c09Curks[m.C].Text, m.directText()),
		Scenario: m.scenario("direct"),
		Witness:  map[string]interface{}{"first_failing_tuple": t.describe(), "minimal_tuple": m.describe(), "handled": h, "parse_error": fmt.Sprint(err)}})
	return h, err
}

// ---------------------------------------------------------------------------------------------------------------------
// (b) end to end

type c09Run struct {
	T                c09Tuple
	TokQ, TokP, TokE string
	QText, PText     string
	QReply, PReply   string
	EReply           string
	ID               []byte      // prepared id the client got
	Win              []mon.Event // USE tuples: the backend-side window of the run
	Incomplete       string
	Done             bool   // every request of the run was answered
	Deco             string // header decorations of the run's frames
}

const c09Wait = 10 * time.Second

// after this many unanswered requests a shard stops sending (each costs a full watchdog period)
const c09MaxStalls = 3

func c09ReplyKind(cl *rawcql.Client, f *rawcql.Frame) (string, message.Message) {
	fr, err := cl.Decode(f)
	if err != nil {
		return "undecodable:" + f.OpCode.String(), nil
	}
	switch m := fr.Body.Message.(type) {
	case *message.RowsResult:
		return "ROWS", m
	case *message.PreparedResult:
		return "PREPARED", m
	case *message.SetKeyspaceResult:
		return "SET_KEYSPACE", m
	case *message.VoidResult:
		return "VOID", m
	case message.Error:
		return "ERROR:" + strings.TrimPrefix(fmt.Sprintf("%T", m), "*message."), m
	default:
		return f.OpCode.String(), m
	}
}

// c09Drive sends the QUERY, the PREPARE and (if an id came back) the EXECUTE of one tuple on cl.
func c09Drive(cl *rawcql.Client, stream *int16, run *c09Run) {
	t := run.T
	next := func() int16 { *stream = (*stream)%30000 + 1; return *stream }
	opts := func(vals ...*primitive.Value) *message.QueryOptions {
		return &message.QueryOptions{Consistency: primitive.ConsistencyLevelOne, PositionalValues: vals}
	}
	if t.K == c09Use {
		run.QText = t.text("", true, false)
		run.PText = run.QText
	} else {
		run.TokQ, run.TokP, run.TokE = NewTok(), NewTok(), NewTok()
		run.QText = t.text(run.TokQ, true, false)
		run.PText = t.text(run.TokP, true, true)
	}
	// header decorations say nothing about what a statement is: every fourth run carries a DSE graph payload, every fourth the
	// tracing flag, every fourth another custom payload plus tracing
	deco := int(hashString(run.QText) % 4)
	mk := func(msg message.Message) *frame.Frame {
		f := frame.NewFrame(primitive.ProtocolVersion4, next(), msg)
		switch deco {
		case 1:
			f.SetCustomPayload(map[string][]byte{"graph-source": []byte("g"), "graph-language": []byte("gremlin-groovy")})
		case 2:
			f.RequestTracingId(true)
		case 3:
			f.SetCustomPayload(map[string][]byte{"x-request-id": []byte("0123456789")})
			f.RequestTracingId(true)
		}
		return f
	}
	run.Deco = []string{"-", "graph-payload", "tracing", "payload+tracing"}[deco]
	prepare := func() bool {
		f, err := cl.CallF(mk(&message.Prepare{Query: run.PText}), c09Wait)
		if err != nil {
			run.Incomplete = "PREPARE: " + err.Error()
			return false
		}
		var m message.Message
		run.PReply, m = c09ReplyKind(cl, f)
		if pr, ok := m.(*message.PreparedResult); ok {
			run.ID = pr.PreparedQueryId
		}
		return true
	}
	query := func() bool {
		f, err := cl.CallF(mk(&message.Query{Query: run.QText, Options: opts()}), c09Wait)
		if err != nil {
			run.Incomplete = "QUERY: " + err.Error()
			return false
		}
		run.QReply, _ = c09ReplyKind(cl, f)
		return true
	}
	// a USE as QUERY changes the connection's keyspace, so there the PREPARE goes first (both are then decided under the
	// tuple's current keyspace)
	if t.K == c09Use {
		if !prepare() || !query() {
			return
		}
	} else if !query() || !prepare() {
		return
	}
	if run.ID == nil {
		run.Done = true
		return
	}
	val := []byte(run.TokE)
	f, err := cl.CallF(mk(&message.Execute{QueryId: run.ID, Options: opts(primitive.NewValue(val))}), c09Wait)
	if err != nil {
		run.Incomplete = "EXECUTE: " + err.Error()
		return
	}
	run.EReply, _ = c09ReplyKind(cl, f)
	run.Done = true
}

func c09Connect(bed *px.Bed, curks c09Val) (*rawcql.Client, error) {
	cl, err := bed.ReadyClient(primitive.ProtocolVersion4, "")
	if err != nil {
		return nil, err
	}
	if curks.Text != "" {
		f, err := cl.Call(1, &message.Query{Query: "USE " + curks.Text, Options: &message.QueryOptions{Consistency: primitive.ConsistencyLevelOne}}, c09Wait)
		if err != nil {
			cl.Close()
			return nil, err
		}
		kind, m := c09ReplyKind(cl, f)
		sk, ok := m.(*message.SetKeyspaceResult)
		if !ok || sk.Keyspace != c09Fold(curks.Text) {
			cl.Close()
			return nil, fmt.Errorf("USE %s answered %s %+v", curks.Text, kind, m)
		}
	}
	return cl, nil
}

var c09PlainCodec = frame.NewRawCodec()

// c09BackendMsg decodes a frame the backend logged, with the reference codec.
func c09BackendMsg(e mon.Event) message.Message {
	hdr := &frame.Header{Version: primitive.ProtocolVersion(e.Ver), Flags: primitive.HeaderFlag(e.Fl), StreamId: int16(e.St), OpCode: primitive.OpCode(e.Op), BodyLength: int32(len(e.Body))}
	if hdr.Flags.Contains(primitive.HeaderFlagCompressed) {
		return nil
	}
	b, err := c09PlainCodec.DecodeBody(hdr, bytes.NewReader(e.Body))
	if err != nil || b == nil {
		return nil
	}
	return b.Message
}

var c09FromRe = regexp.MustCompile(`(?is)^\s*select\s.*?\sfrom\s+(?:("(?:[^"]|"")*"|[a-z][a-z0-9_]*)\s*\.\s*)?("(?:[^"]|"")*"|[a-z][a-z0-9_]*)`)

// c09SystemRead says which of system.local / system.peers / system.peers_v2 a statement arriving on a backend connection
// (whose keyspace is connKs) reads, "" if none. It only has to understand the statements this generator produces.
func c09SystemRead(text, connKs string) string {
	m := c09FromRe.FindStringSubmatch(text)
	if m == nil {
		return ""
	}
	ks := connKs
	if m[1] != "" {
		ks = c09Fold(m[1])
	}
	tbl := c09Fold(m[2])
	if ks == "system" && (tbl == "local" || tbl == "peers" || tbl == "peers_v2") {
		return tbl
	}
	return ""
}

func c09E2E(c *Ctx, tuples []c09Tuple) {
	r := c.R
	if len(tuples) == 0 {
		return
	}
	c.Step("e2e bed for %d tuples", len(tuples))
	bed, err := px.NewBed(px.BedConfig{Hosts: 2, NumConns: 1, KeepBodies: true,
		Keyspaces: []string{"ks1", "Ks1", "System", "SYSTEM", "system_schema", "systems"}})
	if err != nil {
		r.Inconc("C09 e2e: cannot start bed: " + err.Error())
		return
	}
	defer bed.Close()

	byClass := make([][]*c09Run, len(c09Curks))
	var uses []*c09Run
	var all []*c09Run
	for _, t := range tuples {
		run := &c09Run{T: t}
		all = append(all, run)
		if t.K == c09Use {
			uses = append(uses, run)
		} else {
			byClass[t.C] = append(byClass[t.C], run)
		}
	}
	// phase 1: USE tuples, one at a time (nothing else is running, so the backend-side window of each run is its own), each on
	// a fresh client because a USE changes the connection's keyspace
	var stalls int32
	for _, run := range uses {
		if atomic.LoadInt32(&stalls) >= c09MaxStalls {
			run.Incomplete = "abandoned"
			continue
		}
		c.Step("e2e USE %s", run.T.key())
		cl, err := c09Connect(bed, c09Curks[run.T.C])
		if err != nil {
			run.Incomplete = "no client: " + err.Error()
			r.Inconc("C09 e2e: " + run.Incomplete)
			continue
		}
		mark := bed.Log.Len()
		var stream int16 = 1
		c09Drive(cl, &stream, run)
		_, _ = cl.Call(31000, &message.Query{Query: "SELECT * FROM ks1.t WHERE key='" + NewTok() + "'", Options: &message.QueryOptions{Consistency: primitive.ConsistencyLevelOne}}, c09Wait)
		cl.Close()
		// the backend-side window of this run: events logged after the mark (the log is append-only and the snapshot
		// is ordered by logical time, as the log is)
		if evs := bed.Log.Snapshot(); mark < len(evs) {
			for _, e := range evs[mark:] {
				if e.Src == "backend" && e.K == "recv" && !e.Ctl {
					run.Win = append(run.Win, e)
				}
			}
		}
		if run.Incomplete != "" {
			atomic.AddInt32(&stalls, 1)
			r.Inconc(fmt.Sprintf("C09 e2e: no reply (watchdog) for USE tuple %s: %s", run.T.key(), run.Incomplete))
		}
	}

	// phase 2: everything else, one persistent client per current-keyspace class, classes in parallel
	var wg sync.WaitGroup
	for ci := range byClass {
		if len(byClass[ci]) == 0 {
			continue
		}
		wg.Add(1)
		go func(ci int) {
			defer wg.Done()
			cl, err := c09Connect(bed, c09Curks[ci])
			if err != nil {
				r.Inconc(fmt.Sprintf("C09 e2e: cannot set up client for current keyspace %s: %v", c09Curks[ci].Label, err))
				for _, run := range byClass[ci] {
					run.Incomplete = "no client"
				}
				return
			}
			defer func() {
				if cl != nil {
					cl.Close()
				}
			}()
			var stream int16 = 1
			for _, run := range byClass[ci] {
				if atomic.LoadInt32(&stalls) >= c09MaxStalls {
					run.Incomplete = "abandoned"
					continue
				}
				c.Step("e2e curks=%s %s", c09Curks[ci].Label, run.T.key())
				c09Drive(cl, &stream, run)
				if run.Incomplete != "" {
					atomic.AddInt32(&stalls, 1)
					r.Inconc(fmt.Sprintf("C09 e2e: no reply (watchdog) for tuple %s: %s", run.T.key(), run.Incomplete))
					cl.Close()
					if cl, err = c09Connect(bed, c09Curks[ci]); err != nil {
						return
					}
				}
			}
			// barrier: one forwarded statement after everything else on this client
			_, _ = cl.Call(31000, &message.Query{Query: "SELECT * FROM ks1.t WHERE key='" + NewTok() + "'", Options: &message.QueryOptions{Consistency: primitive.ConsistencyLevelOne}}, c09Wait)
		}(ci)
	}
	wg.Wait()
	c09SameTextTwice(c, bed)
	c09KeyspaceSwitchSameConn(c, bed)
	c09UseTimesOut(c)
	if c.Shard == 0 {
		c09PrepareKeyspaceOption(c)
	}
	if c.Shard == 1%c.NShards {
		c09PreparedSurvivesOtherConnections(c, bed)
	}

	if atomic.LoadInt32(&stalls) >= c09MaxStalls {
		r.Inconc(fmt.Sprintf("C09 e2e: %d requests were never answered; the rest of this shard's sample was abandoned", stalls))
	}

	// judge
	evs := bed.Log.Snapshot()
	seen := map[string]map[primitive.OpCode]int{}
	for _, e := range evs {
		if e.Src != "backend" || e.K != "recv" {
			continue
		}
		if e.Tok != "" {
			if seen[e.Tok] == nil {
				seen[e.Tok] = map[primitive.OpCode]int{}
			}
			seen[e.Tok][primitive.OpCode(e.Op)]++
		}
		// token-independent scan
		op := primitive.OpCode(e.Op)
		if op != primitive.OpCodeQuery && op != primitive.OpCodePrepare {
			continue
		}
		if e.Ctl {
			r.Obs("leakscan:control-connection-statements", 1)
			continue
		}
		text := ""
		switch m := c09BackendMsg(e).(type) {
		case *message.Query:
			text = m.Query
		case *message.Prepare:
			text = m.Query
		default:
			r.Obs("leakscan:undecodable", 1)
			continue
		}
		r.Obs("leakscan:statements-decoded", 1)
		if tbl := c09SystemRead(text, e.Ks); tbl != "" {
			if tbl == "peers_v2" { // the property names system.local/system.peers only; the token oracle covers peers_v2
				r.Obs("leakscan:peers_v2-read-forwarded", 1)
				continue
			}
			r.Violate(mon.Violation{Signature: fmt.Sprintf("C09/leak/system-%s-read-forwarded/op=%s", tbl, map[bool]string{true: "QUERY", false: "PREPARE"}[op == primitive.OpCodeQuery]),
				Detail:  fmt.Sprintf("a non-control backend connection (keyspace %q) received %s %q: a read of system.%s was forwarded, the client sees the real backend topology", e.Ks, op, text, tbl),
				Witness: map[string]interface{}{"host": e.Host, "conn": e.Conn, "conn_keyspace": e.Ks, "text": text, "token": e.Tok}})
		}
	}

	reported := map[string]bool{}
	for _, run := range all {
		t := run.T
		if run.Incomplete != "" || !run.Done {
			r.Obs("e2e:tuples-not-completed", 1)
			continue
		}
		exp := t.expected()
		r.Eval(1)
		r.Obs("e2e:tuples", 1)
		r.Obs("e2e:curks="+c09Curks[t.C].Label, 1)
		r.Obs("e2e:kind="+c09Kinds[t.K], 1)
		r.Obs("e2e:qual="+c09Quals[t.Q].Label, 1)
		r.Obs("e2e:table="+c09Tables[t.T].Label, 1)
		r.Obs(fmt.Sprintf("e2e:expected=%v", exp), 1)
		r.Obs("e2e:query-reply="+run.QReply, 1)
		r.Obs("e2e:prepare-reply="+run.PReply, 1)
		if t.nonTrivial() {
			r.NonTrivial("e" + t.key())
		}
		var qf, pf, ef bool
		if t.K == c09Use {
			for _, e := range run.Win {
				switch m := c09BackendMsg(e).(type) {
				case *message.Query:
					qf = qf || m.Query == run.QText
				case *message.Prepare:
					pf = pf || m.Query == run.PText
				case *message.Execute:
					ef = ef || (run.ID != nil && bytes.Equal(m.QueryId, run.ID))
				}
			}
		} else {
			qf = seen[run.TokQ][primitive.OpCodeQuery] > 0
			pf = seen[run.TokP][primitive.OpCodePrepare] > 0
			ef = seen[run.TokE][primitive.OpCodeExecute] > 0
		}
		fw := func(b bool) string {
			if b {
				return "forwarded"
			}
			return "intercepted"
		}
		r.Obs("e2e:query-"+fw(qf), 1)
		r.Obs("e2e:prepare-"+fw(pf), 1)
		var via []string
		modes := 2
		if qf == exp {
			via = append(via, "query")
		}
		if pf == exp {
			via = append(via, "prepare")
		}
		if run.ID != nil {
			r.Obs("e2e:execute-"+fw(ef), 1)
			r.Obs("e2e:execute-reply="+run.EReply, 1)
			modes++
			if ef == exp {
				via = append(via, "execute")
			}
		} else {
			r.Obs("e2e:no-prepared-id(no-execute)", 1)
		}
		if len(r.Samples) < 8 && (t.C*7+t.T)%11 == 0 {
			r.Sample(map[string]interface{}{"mode": "e2e", "tuple": t.describe(), "query": run.QText, "prepare": run.PText, "query_forwarded": qf, "prepare_forwarded": pf, "execute_forwarded": ef,
				"replies": []string{run.QReply, run.PReply, run.EReply}})
		}
		if len(via) == 0 {
			continue
		}
		viaS := strings.Join(via, "+")
		if len(via) == modes { // every way the statement was sent deviates: one defect, one signature
			viaS = "all"
		}
		m := t
		var sig string
		if c09Mismatch(t) { // the parser decision is the cause: name the class by its minimal member
			m = c09Shrink(t)
			sig = "C09/e2e-mismatch/" + m.coordSig() + "/via=" + viaS
		} else { // the parser decides correctly but the proxy routes otherwise: name the class by meaning, not spelling
			if t.K != c09Select { // the decision does not depend on the other coordinates there
				sig = fmt.Sprintf("C09/e2e-routing-mismatch/kind=%s/expected=%v/via=%s", c09Kinds[t.K], exp, viaS)
			} else {
				sig = fmt.Sprintf("C09/e2e-routing-mismatch/curks=%s/qual=%s/table=%s/expected=%v/via=%s", c09Curks[t.C].Sem, c09Quals[t.Q].Sem, c09Tables[t.T].Sem, exp, viaS)
			}
		}
		if run.Deco != "" && run.Deco != "-" { // only the decorated runs deviate, or they deviate too: the signature says which frames
			sig += "/frames=" + run.Deco
		}
		r.Obs("e2e:mismatching-tuples", 1)
		if reported[sig] {
			r.Obs("violation:"+sig, 1)
			continue
		}
		reported[sig] = true
		want := "forwarded to a backend"
		if exp {
			want = "answered by the proxy itself"
		}
		r.Violate(mon.Violation{Signature: sig,
			Detail: fmt.Sprintf("frames carry %s; ", map[bool]string{true: "no header decorations", false: run.Deco}[run.Deco == "-" || run.Deco == ""]) + fmt.Sprintf("current keyspace %q: QUERY %q %s (reply %s); PREPARE %q %s (reply %s); EXECUTE %s (reply %s); by CQL identifier rules the statement must be %s",
				c09Curks[t.C].Text, run.QText, fw(qf), run.QReply, run.PText, fw(pf), run.PReply, map[bool]string{true: fw(ef), false: "not sent (no prepared id)"}[run.ID != nil], run.EReply, want),
			Scenario: t.scenario("e2e"),
			Witness: map[string]interface{}{"tuple": t.describe(), "minimal_tuple": m.describe(), "tokens": []string{run.TokQ, run.TokP, run.TokE}, "prepared_id": hex.EncodeToString(run.ID),
				"backend_arrivals": map[string]interface{}{"query": seen[run.TokQ], "prepare": seen[run.TokP], "execute": seen[run.TokE]}}})
	}
}

// c09SameTextTwice: whether a statement is the proxy's own depends on the connection's current keyspace, not only on its
// text. The identical unqualified text is sent on a connection without keyspace (or in a user keyspace), where it must be
// forwarded, and on a connection in keyspace system, where the proxy must answer it - in both orders, as QUERY and as
// PREPARE. The texts are unique per pair, so the backend log shows exactly which of the two sends reached it.
func c09SameTextTwice(c *Ctx, bed *px.Bed) {
	r := c.R
	sysCl, err := c09Connect(bed, c09Val{Text: "system"})
	if err != nil {
		r.Inconc("C09 same-text: " + err.Error())
		return
	}
	defer sysCl.Close()
	userCl, err := c09Connect(bed, c09Val{Text: "ks1"})
	if err != nil {
		r.Inconc("C09 same-text: " + err.Error())
		return
	}
	defer userCl.Close()
	noneCl, err := c09Connect(bed, c09Val{})
	if err != nil {
		r.Inconc("C09 same-text: " + err.Error())
		return
	}
	defer noneCl.Close()
	stream := int16(100)
	send := func(cl *rawcql.Client, text string, prepare bool) {
		stream++
		var msg message.Message = &message.Query{Query: text, Options: &message.QueryOptions{Consistency: primitive.ConsistencyLevelOne}}
		if prepare {
			msg = &message.Prepare{Query: text}
		}
		_, _ = cl.Call(stream, msg, c09Wait)
	}
	n := 0
	for _, tbl := range []string{"local", "peers", "peers_v2", "LOCAL", `"local"`} {
		for _, sel := range []string{"*", "key", "count(*)"} {
			for order := 0; order < 2; order++ {
				for _, prepare := range []bool{false, true} {
					for oi, other := range []*rawcql.Client{noneCl, userCl} {
						n++
						lit := fmt.Sprintf("sametext%04d", n)
						text := fmt.Sprintf("SELECT %s FROM %s WHERE key='%s'", sel, tbl, lit)
						mark := bed.Log.Len()
						if order == 0 {
							send(other, text, prepare)
							send(sysCl, text, prepare)
						} else {
							send(sysCl, text, prepare)
							send(other, text, prepare)
						}
						// barrier on both connections: one forwarded statement each
						send(other, "SELECT * FROM ks1.t WHERE key='"+NewTok()+"'", false)
						seen := 0
						for _, e := range bed.Log.Snapshot()[mark:] {
							if e.Src == "backend" && e.K == "recv" && !e.Ctl && bytes.Contains(e.Body, []byte(lit)) {
								seen++
							}
						}
						r.Eval(1)
						r.Obs("same_text_pairs", 1)
						r.NonTrivial(fmt.Sprintf("same-text/%s/%s/order=%d/prepare=%v/other=%d", tbl, sel, order, prepare, oi))
						if seen != 1 {
							what := "system-read-forwarded"
							if seen == 0 {
								what = "user-statement-intercepted"
							}
							r.Violate(mon.Violation{Signature: fmt.Sprintf("C09/same-text-other-keyspace/%s/prepare=%v", what, prepare),
								Detail:   fmt.Sprintf("the text %q was sent on a connection %s and on a connection in keyspace system (%s first); it must reach a backend exactly once (from the former), it reached one %d times", text, []string{"without current keyspace", "in keyspace ks1"}[oi], []string{"the former", "the latter"}[order], seen),
								Scenario: map[string]interface{}{"kind": "c09-same-text", "n": n}})
						}
					}
				}
			}
		}
	}
}

// c09KeyspaceSwitchSameConn: one connection keeps sending the identical unqualified text while its current keyspace changes
// under it - none, system, a user keyspace, system again ... - each change made by a USE sent as QUERY or as PREPARE + EXECUTE.
// Whether the text is the proxy's own must follow the keyspace in force at that moment: in keyspace system it is answered by
// the proxy (no backend sees it), anywhere else it is forwarded (exactly one backend arrival).
func c09KeyspaceSwitchSameConn(c *Ctx, bed *px.Bed) {
	r := c.R
	n := 0
	for _, tbl := range []string{"local", "peers", "PEERS_V2"} {
		for _, prepare := range []bool{false, true} {
			for usePrepared := 0; usePrepared < 2; usePrepared++ {
				for start := 0; start < 2; start++ {
					cl, err := c09Connect(bed, c09Val{})
					if err != nil {
						r.Inconc("C09 keyspace-switch: " + err.Error())
						return
					}
					n++
					lit := fmt.Sprintf("switchtext%04d", n)
					text := fmt.Sprintf("SELECT * FROM %s WHERE key='%s'", tbl, lit)
					stream := int16(200)
					call := func(msg message.Message) *rawcql.Frame {
						stream++
						f, _ := cl.Call(stream, msg, c09Wait)
						return f
					}
					use := func(ks string) bool {
						q := "USE " + ks
						if usePrepared == 0 {
							f := call(&message.Query{Query: q, Options: &message.QueryOptions{Consistency: primitive.ConsistencyLevelOne}})
							return f != nil && f.OpCode == primitive.OpCodeResult
						}
						f := call(&message.Prepare{Query: q})
						if f == nil || f.OpCode != primitive.OpCodeResult {
							return false
						}
						fr, err := cl.Decode(f)
						if err != nil {
							return false
						}
						pr, ok := fr.Body.Message.(*message.PreparedResult)
						if !ok {
							return false
						}
						f = call(&message.Execute{QueryId: pr.PreparedQueryId, Options: &message.QueryOptions{Consistency: primitive.ConsistencyLevelOne}})
						return f != nil && f.OpCode == primitive.OpCodeResult
					}
					// a name behind "!" is a keyspace that does not exist: the USE fails and the keyspace stays what it was
					seq := []string{"", "system", "!nosuch_a", "ks1", "!nosuch_b", "system", "ks1"}
					if start == 1 {
						seq = []string{"system", "ks1", "!nosuch_c", "system", "!nosuch_d"}
					}
					cur := ""
					okRun := true
					for step, ks := range seq {
						if strings.HasPrefix(ks, "!") {
							if use(fmt.Sprintf("%s_%d", ks[1:], n)) {
								r.Obs("keyspace_switch_failing_use_succeeded(judged by C07)", 1)
								okRun = false
								break
							}
							r.Obs("keyspace_switch_failed_uses", 1)
						} else if ks != "" {
							if !use(ks) {
								r.Obs("keyspace_switch_use_failed", 1)
								okRun = false
								break
							}
							cur = ks
						}
						mark := bed.Log.Len()
						var msg message.Message = &message.Query{Query: text, Options: &message.QueryOptions{Consistency: primitive.ConsistencyLevelOne}}
						if prepare {
							msg = &message.Prepare{Query: text}
						}
						call(msg)
						call(&message.Query{Query: "SELECT * FROM ks1.t WHERE key='" + NewTok() + "'", Options: &message.QueryOptions{Consistency: primitive.ConsistencyLevelOne}}) // barrier: one forwarded statement
						seen := 0
						for _, e := range bed.Log.Snapshot()[mark:] {
							if e.Src == "backend" && e.K == "recv" && !e.Ctl && bytes.Contains(e.Body, []byte(lit)) {
								seen++
							}
						}
						want := 1
						if cur == "system" {
							want = 0
						}
						r.Eval(1)
						r.Obs("keyspace_switch_sends", 1)
						r.NonTrivial(fmt.Sprintf("keyspace-switch/%s/prepare=%v/use-prepared=%d/start=%d/step=%d", tbl, prepare, usePrepared, start, step))
						if seen != want {
							what := "system-read-forwarded"
							if want == 1 {
								what = "user-statement-intercepted"
							}
							r.Violate(mon.Violation{Signature: fmt.Sprintf("C09/keyspace-switch-same-connection/%s/use-as=%s/prepare=%v", what, []string{"query", "prepare+execute"}[usePrepared], prepare),
								Detail: fmt.Sprintf("one connection, keyspaces in turn %q (each USE sent as %s): in step %d the current keyspace is %q and the text %q, sent before on this connection under another keyspace, reached a backend %d times (must be %d)",
									seq, []string{"QUERY", "PREPARE + EXECUTE"}[usePrepared], step, cur, text, seen, want),
								Scenario: map[string]interface{}{"kind": "c09-keyspace-switch", "n": n}})
						}
					}
					_ = okRun
					cl.Close()
				}
			}
		}
	}
}

// c09PrepareKeyspaceOption: protocol v5 and DSEv2 let a PREPARE name the keyspace its statement is to be resolved in. That
// keyspace, when given, takes the place of the connection's current keyspace for the proxy's decision: an unqualified
// `local` prepared with keyspace option ks1 on a connection that sits in keyspace system is a user table (forwarded); with
// option system on a connection in ks1 it is a read of system.local (answered by the proxy, never forwarded). Every PREPARE
// must be answered at all - PREPARED or ERROR - on these versions too, and an EXECUTE of a proxy-made id must return rows
// without any backend seeing it.
func c09PrepareKeyspaceOption(c *Ctx) {
	r := c.R
	c.Step("c09 PREPARE with keyspace option (v5 / DSEv2)")
	bed, err := px.NewBed(px.BedConfig{Hosts: 2, NumConns: 1, Keyspaces: []string{"ks1"}, KeepBodies: true, MaxVersion: primitive.ProtocolVersionDse2})
	if err != nil {
		r.Inconc("C09 prepare-keyspace: cannot start bed: " + err.Error())
		return
	}
	defer bed.Close()
	sys := map[string]bool{"local": true, "peers": true}
	n := 0
	for _, ver := range []primitive.ProtocolVersion{primitive.ProtocolVersion5, primitive.ProtocolVersionDse2} {
		for _, connKs := range []string{"", "system", "ks1"} {
			for _, opt := range []string{"", "system", "ks1"} {
				for _, tbl := range []string{"local", "peers", "system.local", "ks1.peers", "t"} {
					cl, err := bed.ReadyClient(ver, "")
					if err != nil {
						r.Inconc("C09 prepare-keyspace: " + err.Error())
						return
					}
					if connKs != "" {
						if f, err := cl.Call(1, &message.Query{Query: "USE " + connKs, Options: &message.QueryOptions{Consistency: primitive.ConsistencyLevelOne}}, c09Wait); err != nil || f.OpCode != primitive.OpCodeResult {
							r.Inconc("C09 prepare-keyspace: USE failed")
							cl.Close()
							continue
						}
					}
					n++
					lit := fmt.Sprintf("prepks%05d", n)
					text := fmt.Sprintf("SELECT * FROM %s WHERE key='%s'", tbl, lit)
					eff := connKs
					if opt != "" {
						eff = opt
					}
					handled := false
					if i := strings.IndexByte(tbl, '.'); i >= 0 {
						handled = tbl[:i] == "system" && sys[tbl[i+1:]]
					} else {
						handled = eff == "system" && sys[tbl]
					}
					mark := bed.Log.Len()
					f, perr := cl.Call(2, &message.Prepare{Query: text, Keyspace: opt}, c09Wait)
					_, _ = cl.Call(3, &message.Query{Query: "SELECT * FROM ks1.t WHERE key='" + NewTok() + "'", Options: &message.QueryOptions{Consistency: primitive.ConsistencyLevelOne}}, c09Wait) // barrier
					seen := 0
					for _, e := range bed.Log.Snapshot()[mark:] {
						if e.Src == "backend" && e.K == "recv" && !e.Ctl && bytes.Contains(e.Body, []byte(lit)) {
							seen++
						}
					}
					r.Eval(1)
					r.Obs("prepare_keyspace_option_cases", 1)
					r.NonTrivial(fmt.Sprintf("prepare-keyspace/v%d/conn=%s/opt=%s/%s", ver, connKs, opt, tbl))
					sc := map[string]interface{}{"kind": "c09-prepare-keyspace", "n": n}
					where := fmt.Sprintf("protocol version %s, connection keyspace %q, PREPARE %q with keyspace option %q", c13VerName(ver), connKs, text, opt)
					switch {
					case perr != nil || f == nil:
						state := "no reply"
						if cl.IsClosed() {
							state = "the proxy closed the connection without a reply"
						}
						r.Violate(mon.Violation{Signature: fmt.Sprintf("C09/prepare-not-answered/%s/handled=%v", c13VerName(ver), handled), Detail: where + ": " + state, Scenario: sc})
					case handled && seen > 0:
						r.Violate(mon.Violation{Signature: "C09/prepare-keyspace-option/system-read-forwarded/" + c13VerName(ver), Detail: fmt.Sprintf("%s: the statement reads system.%s and must be answered by the proxy; it reached a backend %d times", where, strings.TrimPrefix(tbl, "system."), seen), Scenario: sc})
					case !handled && seen != 1:
						r.Violate(mon.Violation{Signature: "C09/prepare-keyspace-option/user-statement-intercepted/" + c13VerName(ver), Detail: fmt.Sprintf("%s: the statement is resolved in keyspace %q, not in system, and must be forwarded; it reached a backend %d times", where, eff, seen), Scenario: sc})
					case handled:
						kind, m := c09ReplyKind(cl, f)
						pr, ok := m.(*message.PreparedResult)
						if !ok {
							r.Obs("prepare_keyspace_handled_not_prepared:"+kind, 1)
							break
						}
						mark2 := bed.Log.Len()
						ef, eerr := cl.Call(4, &message.Execute{QueryId: pr.PreparedQueryId, ResultMetadataId: pr.ResultMetadataId, Options: &message.QueryOptions{Consistency: primitive.ConsistencyLevelOne}}, c09Wait)
						fw := 0
						for _, e := range bed.Log.Snapshot()[mark2:] {
							if e.Src == "backend" && e.K == "recv" && !e.Ctl && primitive.OpCode(e.Op) == primitive.OpCodeExecute && bytes.Contains(e.Body, pr.PreparedQueryId) {
								fw++
							}
						}
						ek := "no reply"
						if eerr == nil && ef != nil {
							ek, _ = c09ReplyKind(cl, ef)
						}
						r.Obs("prepare_keyspace_executes", 1)
						if fw > 0 || ek != "ROWS" {
							r.Violate(mon.Violation{Signature: "C09/prepare-keyspace-option/execute-of-proxy-made-id/" + c13VerName(ver), Detail: fmt.Sprintf("%s was answered PREPARED by the proxy; the EXECUTE of that id was answered %q and reached a backend %d times", where, ek, fw), Scenario: sc})
						}
					}
					cl.Close()
				}
			}
		}
	}
}

// c09PreparedSurvivesOtherConnections: two (three) connections prepare the same system-table SELECT and the same USE; one of
// them goes away; the others execute their ids. What a connection has prepared is its own: the EXECUTE is still answered by
// the proxy itself (rows / SET_KEYSPACE) and no backend sees it.
func c09PreparedSurvivesOtherConnections(c *Ctx, bed *px.Bed) {
	r := c.R
	c.Step("c09 prepared system statements and other connections closing")
	opts := &message.QueryOptions{Consistency: primitive.ConsistencyLevelOne}
	for round := 0; round < 6; round++ {
		texts := []string{fmt.Sprintf("SELECT key, rpc_address FROM system.local WHERE key='surv%03d'", round), "SELECT peer FROM system.peers", "USE ks1"}
		nConn := 2 + round%2
		var cls []*rawcql.Client
		ids := make([][][]byte, nConn)
		ok := true
		for i := 0; i < nConn && ok; i++ {
			cl, err := bed.ReadyClient(primitive.ProtocolVersion4, "")
			if err != nil {
				ok = false
				break
			}
			cls = append(cls, cl)
			for j, q := range texts {
				f, err := cl.Call(int16(10+j), &message.Prepare{Query: q}, c09Wait)
				if err != nil || f == nil {
					ok = false
					break
				}
				_, m := c09ReplyKind(cl, f)
				pr, isP := m.(*message.PreparedResult)
				if !isP {
					ok = false
					break
				}
				ids[i] = append(ids[i], pr.PreparedQueryId)
			}
		}
		if !ok {
			r.Inconc("C09 prepared-survives: PREPARE of a system statement failed")
			for _, cl := range cls {
				cl.Close()
			}
			return
		}
		// the first connection(s) go away, in turn closing before / after the survivor's first EXECUTE
		gone := 1 + round%(nConn-1)
		for i := 0; i < gone; i++ {
			cls[i].Close()
		}
		surv := cls[nConn-1]
		ProgressSteps(surv, 20, 900)
		time.Sleep(30 * time.Millisecond) // the proxy notices a closed client connection on its read loop
		mark := bed.Log.Len()
		for j, q := range texts {
			f, err := surv.Call(int16(40+j), &message.Execute{QueryId: ids[nConn-1][j], Options: opts}, c09Wait)
			kind := "no reply"
			if err == nil && f != nil {
				kind, _ = c09ReplyKind(surv, f)
			}
			_, _ = surv.Call(int16(50+j), &message.Query{Query: "SELECT * FROM ks1.t WHERE key='" + NewTok() + "'", Options: opts}, c09Wait) // barrier
			fw := 0
			for _, e := range bed.Log.Snapshot()[mark:] {
				if e.Src == "backend" && e.K == "recv" && !e.Ctl && primitive.OpCode(e.Op) == primitive.OpCodeExecute && bytes.Contains(e.Body, ids[nConn-1][j]) {
					fw++
				}
			}
			r.Eval(1)
			r.Obs("prepared_survives_executes", 1)
			want := "ROWS"
			if strings.HasPrefix(q, "USE") {
				want = "SET_KEYSPACE"
			}
			if fw > 0 || kind != want {
				r.Violate(mon.Violation{Signature: "C09/prepared-system-statement/execute-after-another-connection-closed/" + strings.Fields(q)[0], Detail: fmt.Sprintf("%d connections prepared %q; %d of them closed; the EXECUTE of the id on a connection that is still open (and prepared it itself) was answered %s and reached a backend %d times (must be answered %s by the proxy)", nConn, q, gone, kind, fw, want),
					Scenario: map[string]interface{}{"kind": "c09-prepared-survives", "round": round}})
			}
		}
		r.NonTrivial(fmt.Sprintf("prepared-survives/conns=%d/gone=%d", nConn, gone))
		for _, cl := range cls[gone:] {
			cl.Close()
		}
	}
}

// c09UseTimesOut: a USE that fails without an answer from the backend - the proxy's own USE on the connections of the new
// session is still unanswered when the connect timeout ends - leaves the connection's keyspace what it was, like a USE the
// backend refuses: the bare names local / peers are the proxy's own while the keyspace in force is system and are forwarded
// while it is a user keyspace.
func c09UseTimesOut(c *Ctx) {
	r := c.R
	bed, err := px.NewBed(px.BedConfig{Hosts: 1, NumConns: 1, Keyspaces: []string{"ks1"}, KeepBodies: true, ConnectTimeout: 400 * time.Millisecond})
	if err != nil {
		r.Inconc("C09 use-times-out: cannot start bed: " + err.Error())
		return
	}
	defer bed.Close()
	bed.Cluster.SetSlowUse("slowks", 1500*time.Millisecond)
	opts := &message.QueryOptions{Consistency: primitive.ConsistencyLevelOne}
	n := 0
	for _, inForce := range []string{"system", "ks1"} {
		for _, tbl := range []string{"local", "peers"} {
			for _, prepare := range []bool{false, true} {
				n++
				cl, err := bed.ReadyClient(primitive.ProtocolVersion4, "")
				if err != nil {
					r.Inconc("C09 use-times-out: " + err.Error())
					return
				}
				if f, err := cl.Call(1, &message.Query{Query: "USE " + inForce, Options: opts}, c09Wait); err != nil || f.OpCode != primitive.OpCodeResult {
					cl.Close()
					r.Inconc("C09 use-times-out: USE " + inForce + " failed")
					return
				}
				f, err := cl.Call(2, &message.Query{Query: "USE slowks", Options: opts}, 20*time.Second)
				if err != nil || f == nil {
					cl.Close()
					r.Inconc("C09 use-times-out: the slow USE got no reply")
					return
				}
				if f.OpCode != primitive.OpCodeError {
					cl.Close()
					r.Obs("use_times_out_premise_missing", 1) // the USE got through in time
					continue
				}
				lit := fmt.Sprintf("timeouttext%04d", n)
				text := fmt.Sprintf("SELECT * FROM %s WHERE key='%s'", tbl, lit)
				mark := bed.Log.Len()
				var msg message.Message = &message.Query{Query: text, Options: opts}
				if prepare {
					msg = &message.Prepare{Query: text}
				}
				_, _ = cl.Call(3, msg, c09Wait)
				_, _ = cl.Call(4, &message.Query{Query: "SELECT * FROM ks1.t WHERE key='" + NewTok() + "'", Options: opts}, c09Wait) // barrier: one forwarded statement
				seen := 0
				for _, e := range bed.Log.Snapshot()[mark:] {
					if e.Src == "backend" && e.K == "recv" && !e.Ctl && bytes.Contains(e.Body, []byte(lit)) {
						seen++
					}
				}
				cl.Close()
				want := 1
				if inForce == "system" {
					want = 0
				}
				r.Eval(1)
				r.Obs("use_times_out_cases", 1)
				r.NonTrivial(fmt.Sprintf("use-times-out/%s/%s/prepare=%v", inForce, tbl, prepare))
				if seen != want {
					what := "system-read-forwarded"
					if want == 1 {
						what = "user-statement-intercepted"
					}
					r.Violate(mon.Violation{Signature: fmt.Sprintf("C09/use-times-out/%s/prepare=%v", what, prepare),
						Detail:   fmt.Sprintf("one connection: USE %s (answered), USE slowks (the backend takes longer over it than the proxy's connect timeout; answered with an error, so keyspace %s stays in force), then %q: it reached a backend %d times (must be %d)", inForce, inForce, text, seen, want),
						Scenario: map[string]interface{}{"kind": "c09-use-times-out"}})
				}
			}
		}
	}
}
