//go:build verif

package scen

import (
	"bytes"
	"encoding/hex"
	"fmt"
	"net"
	"strconv"
	"strings"
	"sync/atomic"
	"time"

	"github.com/datastax/cql-proxy/proxy"
	"github.com/datastax/cql-proxy/proxycore"
	"github.com/datastax/go-cassandra-native-protocol/frame"
	"github.com/datastax/go-cassandra-native-protocol/message"
	"github.com/datastax/go-cassandra-native-protocol/primitive"

	"verif/fakecass"
	"verif/model"
	"verif/mon"
	"verif/px"
	"verif/rawcql"
)

func init() {
	Register(&Runner{Prop: "C08", Level: "exploration",
		Rule:    "histories of PREPARE/EXECUTE/BATCH over several clients (plain/lz4/snappy, v3/v4) and 2-4 hosts: every subset of hosts made to forget, hosts added after start-up, prepared ids as batch children, re-prepare scripted to fail or lose its connection; oracle over the merged history: the client never sees UNPREPARED for an id prepared through this proxy, every EXECUTE/BATCH gets one reply of the right kind, an UNPREPARED host receives PREPARE(original text) then the EXECUTE again, a failed re-prepare moves on to the next host; distinct = (hosts lacking the id, compression, version, kind, re-prepare outcome); non-trivial = >= 1 UNPREPARED handled",
		Shards:  shards(4, 16),
		Timeout: timeouts(10*time.Minute, 60*time.Minute),
		Run:     runC08})
}

type c08Case struct {
	Hosts, Conns int
	Forget       []int  // hosts that forget the id before the EXECUTEs
	Comp         string // compression of the executing client
	PrepComp     string // compression of the preparing client
	Ver          int    // version of the executing client
	PrepVer      int
	Kind         ReqKind // KExecute or KBatch
	Reprep       string  // ok | error | drop
	LateHost     bool    // host 3 joins after start-up
	Idem         bool
	Multi        int  // BATCH with this many DISTINCT prepared children (0 = one)
	SlowCache    bool // the prepared cache's Store is slow; EXECUTE follows the PREPARE reply immediately
}

func (k c08Case) key() string {
	return fmt.Sprintf("h%d/c%d/forget=%v/comp=%s/prepcomp=%s/v%d/prepv%d/%s/reprep=%s/late=%v/idem=%v/multi=%d/slow=%v", k.Hosts, k.Conns, k.Forget, k.Comp, k.PrepComp, k.Ver, k.PrepVer, k.Kind, k.Reprep, k.LateHost, k.Idem, k.Multi, k.SlowCache)
}

func (k c08Case) class() string {
	cv := "samever"
	if k.Ver != k.PrepVer {
		cv = "crossver"
	}
	cc := "samecomp"
	if k.Comp != k.PrepComp {
		cc = "crosscomp"
	}
	comp := k.Comp
	if comp == "" {
		comp = "plain"
	}
	late := ""
	if k.LateHost {
		late = "/late-host"
	}
	if k.Multi > 1 {
		late += fmt.Sprintf("/children=%d", k.Multi)
	}
	if k.SlowCache {
		late += "/slow-cache"
	}
	return fmt.Sprintf("%s/%s/%s/%s/reprep=%s%s", k.Kind, comp, cv, cc, k.Reprep, late)
}

func c08Run(c *Ctx, idx int, k c08Case) {
	r := c.R
	c.Step("c08 %s", k.key())
	scenario := map[string]interface{}{"kind": "c08", "case": k}
	cfg := px.BedConfig{Hosts: k.Hosts, NumConns: k.Conns, Keyspaces: []string{"ks1"}, KeepBodies: true, ReconnectBase: time.Millisecond, ReconnectMax: 3 * time.Millisecond, RefreshWindow: 30 * time.Millisecond,
		MaxVersion: primitive.ProtocolVersionDse2}
	if k.LateHost {
		cfg.Unlisted = []int{k.Hosts}
	}
	bed, err := px.NewBed(cfg)
	if err != nil {
		r.Inconc("c08: cannot start bed: " + err.Error())
		return
	}
	defer bed.Close()
	bed.OnHook(nil)
	stmt := idemPrepared
	if !k.Idem {
		stmt = nonIdemPrepared
	}
	idHex := hex.EncodeToString(fakecass.PreparedID("", stmt))
	reprepFailures := 0
	bed.Cluster.SetScript(func(a *fakecass.Arrival) fakecass.Outcome {
		if a.OpCode == primitive.OpCodePrepare && a.N == 0 && k.Reprep != "ok" && a.Conn.Host.Idx == firstOf(k.Forget) {
			// a re-prepare (no token in a PREPARE of the standard statements) on the first forgetful host fails
			reprepFailures++
			if k.Reprep == "error" {
				return fakecass.Err("Overloaded", &message.Overloaded{ErrorMessage: "re-prepare refused"})
			}
			o := fakecass.DropBefore()
			o.Name = "ConnLost"
			return o
		}
		return fakecass.Outcome{}
	})
	prepCl, err := bed.ReadyClient(primitive.ProtocolVersion(k.PrepVer), k.PrepComp)
	if err != nil {
		r.Inconc("c08: handshake: " + err.Error())
		return
	}
	defer prepCl.Close()
	exCl := prepCl
	if k.Comp != k.PrepComp || k.Ver != k.PrepVer {
		exCl, err = bed.ReadyClient(primitive.ProtocolVersion(k.Ver), k.Comp)
		if err != nil {
			r.Inconc("c08: handshake: " + err.Error())
			return
		}
		defer exCl.Close()
	}
	// PREPARE through the proxy (reaches one host); every host then learns or forgets as the case says
	// every third case (protocol v4 and later) the client's PREPARE carries a custom payload, as a DSE driver's does for
	// proxy execution: a re-PREPARE is "the original statement" only with that payload
	var prepPayload map[string][]byte
	if k.PrepVer >= 4 && idx%3 == 1 {
		prepPayload = map[string][]byte{"ProxyExecute": []byte("some_user")}
	}
	pframe := frame.NewFrame(primitive.ProtocolVersion(k.PrepVer), 1, &message.Prepare{Query: stmt})
	if prepPayload != nil {
		pframe.SetCustomPayload(prepPayload)
		r.Obs("prepares_with_custom_payload", 1)
	}
	pf, err := prepCl.CallF(pframe, 10*time.Second)
	if err != nil || pf.OpCode != primitive.OpCodeResult {
		r.Inconc(fmt.Sprintf("c08: PREPARE failed: %v", err))
		return
	}
	var extraStmts []string
	for m := 1; m < k.Multi; m++ {
		q := fmt.Sprintf("INSERT INTO ks1.t%d (k, v) VALUES (?, %d)", m, m)
		ef, err := prepCl.Call(int16(1+m), &message.Prepare{Query: q}, 10*time.Second)
		if err != nil || ef.OpCode != primitive.OpCodeResult {
			r.Inconc(fmt.Sprintf("c08: PREPARE failed: %v", err))
			return
		}
		extraStmts = append(extraStmts, q)
	}
	for _, h := range bed.Cluster.Hosts {
		h.Learn(idHex, stmt)
		for _, q := range extraStmts {
			h.Learn(hex.EncodeToString(fakecass.PreparedID("", q)), q)
		}
	}
	for _, i := range k.Forget {
		bed.Cluster.Hosts[i-1].Forget()
	}
	if k.LateHost {
		// the late host has never seen the statement
		bed.Cluster.Hosts[k.Hosts-1].Forget()
		bed.Cluster.SetListed(k.Hosts, true)
		ip := net.ParseIP(bed.Cluster.HostIP(k.Hosts))
		bed.Cluster.Emit(&message.TopologyChangeEvent{ChangeType: primitive.TopologyChangeTypeNewNode, Address: &primitive.Inet{Addr: ip, Port: int32(bed.Cluster.Port)}})
		// wait for the observable effect: the new host's pool completed STARTUP for every session
		ok := waitFor(func() bool {
			n := 0
			for _, x := range bed.Cluster.Hosts[k.Hosts-1].Conns() {
				if !x.IsRegistered() && x.Ver() != 0 {
					n++
				}
			}
			return n >= k.Conns
		}, 15*time.Second)
		if !ok {
			r.Inconc("c08: the late host never received a pooled connection (refresh not observed)")
			return
		}
		time.Sleep(20 * time.Millisecond)
	}
	mark := bed.Log.Len()
	// enough EXECUTEs that the round-robin plan starts at every host at least twice
	n := 2*k.Hosts*k.Conns + 2
	type sentReq struct {
		st  int16
		tok string
	}
	var reqs []sentReq
	for i := 0; i < n; i++ {
		tok := NewTok()
		st := int16(100 + i)
		var f *frame.Frame
		if k.Kind == KBatch {
			children := []*message.BatchChild{
				{Id: fakecass.PreparedID("", stmt), Values: []*primitive.Value{primitive.NewValue([]byte(tok))}},
				{Query: "UPDATE ks1.t SET v = 2 WHERE k = 'x'"}}
			for _, q := range extraStmts {
				children = append(children, &message.BatchChild{Id: fakecass.PreparedID("", q), Values: []*primitive.Value{primitive.NewValue([]byte("v"))}})
			}
			f = frame.NewFrame(primitive.ProtocolVersion(k.Ver), st, &message.Batch{Type: primitive.BatchTypeLogged, Consistency: primitive.ConsistencyLevelOne, Children: children})
		} else {
			f = BuildRequest(primitive.ProtocolVersion(k.Ver), st, KExecute, k.Idem, tok, primitive.ConsistencyLevelOne)
		}
		rf, err := exCl.CallF(f, 15*time.Second)
		reqs = append(reqs, sentReq{st, tok})
		r.Eval(1)
		if err != nil || rf == nil {
			r.Violate(mon.Violation{Signature: "C08/no-reply/" + k.class(), Detail: fmt.Sprintf("%s: EXECUTE #%d got no reply: %v", k.key(), i, err), Scenario: scenario, Witness: historyOf(bed.Log.Snapshot()[mark:], exCl.ID, st, tok)})
			break
		}
		ri := DecodeReply(k.Comp, rf)
		switch {
		case ri.ErrCode == primitive.ErrorCodeUnprepared:
			r.Violate(mon.Violation{Signature: "C08/unprepared-reached-client/" + k.class(), Detail: fmt.Sprintf("%s: client received UNPREPARED for id %s although the statement was prepared through this proxy (attempts: %s)", k.key(), idHex, describe(Traces(bed.Log.Snapshot()[mark:])[tok])), Scenario: scenario, Witness: historyOf(bed.Log.Snapshot()[mark:], exCl.ID, st, tok)})
		case ri.Kind == "Rows" && ri.Tok == tok:
			r.Obs("executes_ok", 1)
		case ri.Kind == "Rows":
			r.Violate(mon.Violation{Signature: "C08/wrong-reply/" + k.class(), Detail: fmt.Sprintf("%s: reply echoes %q, expected %q", k.key(), ri.Tok, tok), Scenario: scenario})
		default:
			// with a failing re-prepare the request must move on; an error is legitimate only when every host failed
			if k.Reprep == "ok" || len(k.Forget) < k.Hosts {
				if !(k.Reprep == "drop" && !k.Idem && isConnLostErr(ri)) {
					r.Violate(mon.Violation{Signature: "C08/execute-failed/" + k.class() + "/" + strings.SplitN(ri.Kind, " ", 3)[0], Detail: fmt.Sprintf("%s: EXECUTE answered %s %q although a host that can execute it exists (attempts: %s)", k.key(), ri.Kind, ri.ErrMsg, describe(Traces(bed.Log.Snapshot()[mark:])[tok])), Scenario: scenario, Witness: historyOf(bed.Log.Snapshot()[mark:], exCl.ID, st, tok)})
				}
			}
		}
		if k.Reprep == "drop" {
			WaitHealed(bed, 0, time.Second)
			time.Sleep(5 * time.Millisecond)
		}
	}
	// backend-side sequence per forgetful host: UNPREPARED → PREPARE(original text) on the same connection → EXECUTE again
	evs := bed.Log.Snapshot()[mark:]
	unprep, reprep := 0, 0
	type ck struct{ conn int }
	waitingPrepare := map[int]mon.Event{}
	for _, e := range evs {
		if e.Src != "backend" {
			continue
		}
		if e.K == "reply" && e.Outcome == "Unprepared" {
			unprep++
			waitingPrepare[e.Conn] = e
		}
		if e.K == "reply" && e.Outcome == "ProtocolError:decode" {
			r.Violate(mon.Violation{Signature: "C08/proxy-sent-undecodable-frame/" + k.class(), Detail: fmt.Sprintf("%s: host %d could not decode a frame the proxy sent on connection %d (stream %d): %s", k.key(), e.Host, e.Conn, e.St, strconv.Quote(clipStr(string(e.Body), 200))), Scenario: scenario})
		}
		if e.K == "recv" && primitive.OpCode(e.Op) == primitive.OpCodePrepare {
			reprep++
			if _, ok := waitingPrepare[e.Conn]; ok {
				delete(waitingPrepare, e.Conn)
				body := e.Body
				if primitive.HeaderFlag(e.Fl).Contains(primitive.HeaderFlagCompressed) {
					if p, err := fakecass.Decompress(e.Comp, body); err == nil {
						body = p
					}
				}
				var gotPayload map[string][]byte
				if primitive.HeaderFlag(e.Fl).Contains(primitive.HeaderFlagCustomPayload) {
					rd := bytes.NewReader(body)
					if pl, perr := primitive.ReadBytesMap(rd); perr == nil {
						gotPayload = pl
						body = body[len(body)-rd.Len():]
					}
				}
				q := prepareText(body)
				if q != stmt && !containsStr(extraStmts, q) {
					r.Violate(mon.Violation{Signature: "C08/reprepare-wrong-text/" + k.class(), Detail: fmt.Sprintf("%s: re-PREPARE carried %q, original statement is %q", k.key(), q, stmt), Scenario: scenario})
				}
				if q == stmt && prepPayload != nil {
					r.Obs("reprepares_of_statements_with_custom_payload", 1)
					if string(gotPayload["ProxyExecute"]) != string(prepPayload["ProxyExecute"]) {
						r.Violate(mon.Violation{Signature: "C08/reprepare-lost-custom-payload/" + k.class(), Detail: fmt.Sprintf("%s: the client's PREPARE carried the custom payload %q; the re-PREPARE sent to host %d carries %q (header flags %#x)", k.key(), prepPayload, e.Host, gotPayload, e.Fl), Scenario: scenario})
					}
				}
			}
			if e.Note == "version-mismatch" || e.Note == "compressed-without-negotiation" {
				r.Violate(mon.Violation{Signature: "C08/reprepare-frame-unacceptable/" + e.Note + "/" + k.class(), Detail: fmt.Sprintf("%s: the re-PREPARE frame sent to host %d has version %d / flags %#x on a connection speaking version %d compression %q: a real node rejects it", k.key(), e.Host, e.Ver, e.Fl, k.Ver, k.Comp), Scenario: scenario})
			}
		}
	}
	r.Obs("unprepared_handled", unprep)
	r.Obs("reprepares", reprep)
	r.Obs("reprepare_failures_injected", reprepFailures)
	if unprep > 0 {
		r.NonTrivial(k.key())
	}
	if idx%25 == 0 {
		r.Sample(map[string]interface{}{"case": k.key(), "unprepared": unprep, "reprepares": reprep})
	}
}

func firstOf(a []int) int {
	if len(a) == 0 {
		return -1
	}
	return a[0]
}

func subsets(n int) [][]int {
	var out [][]int
	for m := 0; m < 1<<n; m++ {
		var s []int
		for i := 0; i < n; i++ {
			if m&(1<<i) != 0 {
				s = append(s, i+1)
			}
		}
		out = append(out, s)
	}
	return out
}

func runC08(c *Ctx) {
	r := c.R
	r.Assume("the prepared cache is far from its capacity (a handful of statements), so every id prepared through the proxy is in it")
	r.Assume("the fake backend, like Cassandra, compresses every non-empty response body once compression was negotiated, ERROR frames included, and rejects frames whose version differs from the connection's")
	r.Require("unprepared_handled", "executes_ok", "fresh_prepare_executes", "pipelined_reprepare_cases", "odd_statement_cases")
	_ = model.Rows
	if c.Replay != nil && c.Replay["kind"] == "c08-pipelined-reprepare-lost" {
		c08PipelinedReprepareLost(c, int(c.Replay["idx"].(float64)))
		return
	}
	var cases []c08Case
	for _, hosts := range []int{2, 3} {
		for _, sub := range subsets(hosts) {
			for _, comp := range []string{"", "lz4", "snappy"} {
				cases = append(cases, c08Case{Hosts: hosts, Conns: 1 + len(sub)%2, Forget: sub, Comp: comp, PrepComp: comp, Ver: 4, PrepVer: 4, Kind: KExecute, Reprep: "ok", Idem: true})
			}
		}
	}
	// batch children, non-idempotent statements, v3 clients
	for _, sub := range subsets(2) {
		cases = append(cases, c08Case{Hosts: 2, Conns: 1, Forget: sub, Ver: 4, PrepVer: 4, Kind: KBatch, Reprep: "ok", Idem: true})
		cases = append(cases, c08Case{Hosts: 2, Conns: 2, Forget: sub, Ver: 3, PrepVer: 3, Kind: KExecute, Reprep: "ok", Idem: false})
		cases = append(cases, c08Case{Hosts: 2, Conns: 1, Forget: sub, Comp: "lz4", PrepComp: "lz4", Ver: 4, PrepVer: 4, Kind: KBatch, Reprep: "ok", Idem: true})
	}
	// batches with several distinct prepared children every host has forgotten
	for _, multi := range []int{2, 3} {
		cases = append(cases, c08Case{Hosts: 3, Conns: 1, Forget: []int{1, 2, 3}, Ver: 4, PrepVer: 4, Kind: KBatch, Reprep: "ok", Idem: true, Multi: multi})
		cases = append(cases, c08Case{Hosts: 2, Conns: 2, Forget: []int{1, 2}, Comp: "lz4", PrepComp: "lz4", Ver: 4, PrepVer: 4, Kind: KBatch, Reprep: "ok", Idem: true, Multi: multi})
	}
	// hosts added after start-up
	for _, comp := range []string{"", "lz4"} {
		cases = append(cases, c08Case{Hosts: 3, Conns: 1, Comp: comp, PrepComp: comp, Ver: 4, PrepVer: 4, Kind: KExecute, Reprep: "ok", LateHost: true, Idem: true})
	}
	// prepared by one kind of client, executed by another (either order)
	cases = append(cases,
		c08Case{Hosts: 2, Conns: 1, Forget: []int{1, 2}, Comp: "lz4", PrepComp: "", Ver: 4, PrepVer: 4, Kind: KExecute, Reprep: "ok", Idem: true},
		c08Case{Hosts: 2, Conns: 1, Forget: []int{1, 2}, Comp: "", PrepComp: "lz4", Ver: 4, PrepVer: 4, Kind: KExecute, Reprep: "ok", Idem: true},
		c08Case{Hosts: 2, Conns: 1, Forget: []int{1, 2}, Comp: "", PrepComp: "", Ver: 3, PrepVer: 4, Kind: KExecute, Reprep: "ok", Idem: true},
		c08Case{Hosts: 2, Conns: 1, Forget: []int{1, 2}, Comp: "", PrepComp: "", Ver: 4, PrepVer: 3, Kind: KExecute, Reprep: "ok", Idem: true},
	)
	// prepared in one version family, executed in another whose PREPARE body differs (v5 and DSEv2 add a flags field), with
	// the first re-prepare failing so that the statement is re-prepared a second time from the cache
	for _, vv := range [][2]int{{4, 5}, {5, 4}, {0x41, 0x42}, {0x42, 4}, {3, 5}} {
		for _, rp := range []string{"ok", "error", "drop"} {
			cases = append(cases, c08Case{Hosts: 3, Conns: 1, Forget: []int{1, 2}, Ver: vv[1], PrepVer: vv[0], Kind: KExecute, Reprep: rp, Idem: true})
		}
	}
	// re-prepare fails or loses its connection on the first forgetful host
	for _, rp := range []string{"error", "drop"} {
		for _, idem := range []bool{true, false} {
			cases = append(cases, c08Case{Hosts: 2, Conns: 1, Forget: []int{1}, Ver: 4, PrepVer: 4, Kind: KExecute, Reprep: rp, Idem: idem})
			cases = append(cases, c08Case{Hosts: 3, Conns: 1, Forget: []int{2}, Ver: 4, PrepVer: 4, Kind: KExecute, Reprep: rp, Idem: idem})
		}
	}
	{
		base := cases
		for rep := 0; rep < c.Pick(3, 1500); rep++ {
			rng := c.Rng(rep)
			for _, b := range base {
				b.Hosts = 2 + rng.Intn(3)
				if b.LateHost && b.Hosts < 3 {
					b.Hosts = 3
				}
				b.Conns = 1 + rng.Intn(2)
				if !b.LateHost {
					all := subsets(b.Hosts)
					b.Forget = all[rng.Intn(len(all))]
					if b.Reprep != "ok" && len(b.Forget) == 0 {
						b.Forget = []int{1 + rng.Intn(b.Hosts)}
					}
				}
				cases = append(cases, b)
			}
		}
	}
	r.Extra["cases_total"] = len(cases)
	for i, k := range cases {
		if c.Mine(i) {
			c08Run(c, i, k)
		}
	}
	for i := 0; i < c.Pick(6, 1200); i++ {
		if c.Mine(i) {
			c08FreshPrepare(c, i, 2+i%2, []string{"", "lz4", "snappy"}[i%3], []time.Duration{2 * time.Millisecond, 500 * time.Microsecond, 5 * time.Millisecond}[i%3])
		}
	}
	for i := 0; i < c.Pick(16, 2000); i++ {
		if c.Mine(i) {
			c08PipelinedReprepareLost(c, i)
		}
	}
	// C01's re-prepare storms under C08's rule (no UNPREPARED at a client)
	for i := 0; i < c.Pick(6, 240); i++ {
		if c.Mine(i + 1) {
			reprepareStorm(c, i)
		}
	}
	for i := 0; i < c.Pick(38, 684); i++ {
		if c.Mine(i) {
			c08OddStatements(c, i)
		}
	}
	var _ = rawcql.Plain
}

func containsStr(a []string, x string) bool {
	for _, y := range a {
		if y == x {
			return true
		}
	}
	return false
}

// slowCache wraps a PreparedCache (public interface, users may plug their own): Store takes a while. A correct proxy
// fills the cache before the client can hold the prepared id, so the delay is harmless.
type slowCache struct {
	inner proxycore.PreparedCache
	delay time.Duration
}

func (c *slowCache) Store(id string, e *proxycore.PreparedEntry) {
	time.Sleep(c.delay)
	c.inner.Store(id, e)
}
func (c *slowCache) Load(id string) (*proxycore.PreparedEntry, bool) { return c.inner.Load(id) }

// c08FreshPrepare: a client PREPAREs a statement nobody has seen and EXECUTEs it the moment the PREPARE reply arrives;
// round-robin sends the EXECUTE to another host, which does not know the id.
func c08FreshPrepare(c *Ctx, idx int, hosts int, comp string, delay time.Duration) {
	r := c.R
	scenario := map[string]interface{}{"kind": "c08-fresh", "idx": idx, "hosts": hosts, "comp": comp, "delay_us": delay.Microseconds()}
	c.Step("c08 fresh-prepare idx=%d hosts=%d comp=%q delay=%s", idx, hosts, comp, delay)
	inner, _ := proxy.NewDefaultPreparedCache(10000)
	bed, err := px.NewBed(px.BedConfig{Hosts: hosts, NumConns: 1, Keyspaces: []string{"ks1"}, KeepBodies: true, PreparedCache: &slowCache{inner, delay}})
	if err != nil {
		r.Inconc("c08: cannot start bed: " + err.Error())
		return
	}
	defer bed.Close()
	cl, err := bed.ReadyClient(primitive.ProtocolVersion4, comp)
	if err != nil {
		r.Inconc("c08: handshake: " + err.Error())
		return
	}
	defer cl.Close()
	compName := comp
	if compName == "" {
		compName = "plain"
	}
	for j := 0; j < 30; j++ {
		q := fmt.Sprintf("INSERT INTO ks1.fresh_%d_%d (k, v) VALUES (?, 1)", idx, j)
		st := int16(10 + 2*j)
		pf, err := cl.Call(st, &message.Prepare{Query: q}, 10*time.Second)
		if err != nil || pf.OpCode != primitive.OpCodeResult {
			r.Inconc(fmt.Sprintf("c08 fresh: PREPARE failed: %v", err))
			return
		}
		tok := NewTok()
		ex := &message.Execute{QueryId: fakecass.PreparedID("", q), Options: &message.QueryOptions{Consistency: primitive.ConsistencyLevelOne, PositionalValues: []*primitive.Value{primitive.NewValue([]byte(tok))}}}
		rf, err := cl.CallF(frame.NewFrame(primitive.ProtocolVersion4, st+1, ex), 10*time.Second)
		r.Eval(1)
		r.Obs("fresh_prepare_executes", 1)
		if err != nil {
			r.Violate(mon.Violation{Signature: "C08/no-reply/fresh-prepare/" + compName, Detail: fmt.Sprintf("EXECUTE right after PREPARE got no reply: %v", err), Scenario: scenario})
			return
		}
		ri := DecodeReply(comp, rf)
		if ri.ErrCode == primitive.ErrorCodeUnprepared {
			r.Violate(mon.Violation{Signature: "C08/unprepared-reached-client/fresh-prepare/" + compName, Detail: fmt.Sprintf("the client received the PREPARE result for %q, executed the id at once and got UNPREPARED: the statement was not in the proxy's prepared cache yet although the client already held its id (cache Store takes %s)", q, delay), Scenario: scenario, Witness: historyOf(bed.Log.Snapshot(), cl.ID, st+1, tok)})
			return
		}
		if !(ri.Kind == "Rows" && ri.Tok == tok) {
			r.Violate(mon.Violation{Signature: "C08/execute-failed/fresh-prepare/" + compName, Detail: fmt.Sprintf("EXECUTE right after PREPARE answered %s %q", ri.Kind, ri.ErrMsg), Scenario: scenario})
			return
		}
	}
	r.NonTrivial(fmt.Sprintf("fresh-prepare/h%d/%s/%s", hosts, compName, delay))
}

// c08PipelinedReprepareLost: several EXECUTEs of one id are in flight on one backend connection of a host that does not
// know the statement; their UNPREPARED answers arrive together, the proxy re-prepares, and the connection is lost while
// the re-PREPARE is unanswered. Every one of the EXECUTEs must still be answered - by another host (idempotent) or with
// the connection-lost error (not idempotent) - none may hang or be dropped.
func c08PipelinedReprepareLost(c *Ctx, idx int) {
	r := c.R
	rng := c.Rng(52000 + idx)
	hosts := 2 + rng.Intn(2)
	comp := []string{"", "lz4", "snappy"}[rng.Intn(3)]
	idem := idx%4 != 3
	nPipe := 2 + rng.Intn(7)
	how := []string{"drop", "error"}[(idx/4)%2]
	key := fmt.Sprintf("pipelined-reprepare-%s/h%d/%s/idem=%v/n=%d", how, hosts, comp, idem, nPipe)
	scenario := map[string]interface{}{"kind": "c08-pipelined-reprepare-lost", "idx": idx}
	c.Step("c08 %s", key)
	bed, err := px.NewBed(px.BedConfig{Hosts: hosts, NumConns: 1, Keyspaces: []string{"ks1"}, KeepBodies: true, ReconnectBase: time.Millisecond, ReconnectMax: 3 * time.Millisecond})
	if err != nil {
		r.Inconc("c08: cannot start bed: " + err.Error())
		return
	}
	defer bed.Close()
	bed.OnHook(nil)
	cl, err := bed.ReadyClient(primitive.ProtocolVersion4, comp)
	if err != nil {
		r.Inconc("c08: handshake: " + err.Error())
		return
	}
	defer cl.Close()
	if err := PrepareStandard(bed, cl, true); err != nil {
		r.Inconc("c08: prepare: " + err.Error())
		return
	}
	forgetful := 1 + rng.Intn(hosts)
	bed.Cluster.Hosts[forgetful-1].Forget()
	var preparesSeen int32
	bed.Cluster.SetScript(func(a *fakecass.Arrival) fakecass.Outcome {
		if a.OpCode == primitive.OpCodePrepare && a.Host == forgetful {
			atomic.AddInt32(&preparesSeen, 1)
			if how == "error" {
				return fakecass.Err("Overloaded", &message.Overloaded{ErrorMessage: "re-prepare refused"})
			}
			o := fakecass.DropBefore()
			o.Name = "ConnLost"
			return o
		}
		return fakecass.Outcome{}
	})
	atomic.StoreInt32(&bed.Cluster.HoldUnprepared, 1)
	mark := bed.Log.Len()
	// enough pipelined EXECUTEs that nPipe of them land on the forgetful host (round robin over the hosts)
	total := nPipe * hosts
	type sent struct {
		ch  chan *rawcql.Frame
		tok string
		st  int16
	}
	var reqs []sent
	for i := 0; i < total; i++ {
		tok := NewTok()
		st := int16(100 + i)
		ch := cl.Expect(st)
		if err := cl.SendF(BuildRequest(primitive.ProtocolVersion4, st, KExecute, idem, tok, primitive.ConsistencyLevelOne)); err != nil {
			r.Inconc("c08: send: " + err.Error())
			return
		}
		reqs = append(reqs, sent{ch, tok, st})
	}
	if !waitFor(func() bool { return bed.Cluster.HeldCount() >= nPipe }, 10*time.Second) {
		r.Inconc(fmt.Sprintf("c08 %s: only %d of %d EXECUTEs were answered UNPREPARED by the forgetful host", key, bed.Cluster.HeldCount(), nPipe))
		return
	}
	atomic.StoreInt32(&bed.Cluster.HoldUnprepared, 0)
	bed.Cluster.ReleaseHeld(nil) // all UNPREPARED answers arrive back to back
	bad, unanswered := 0, 0
	var sample string
	for _, q := range reqs {
		f, err := cl.Wait(q.ch, 15*time.Second)
		r.Eval(1)
		if err != nil || f == nil {
			unanswered++
			continue
		}
		ri := DecodeReply(comp, f)
		switch {
		case ri.Kind == "Rows" && ri.Tok == q.tok:
		case !idem && how == "drop" && isConnLostErr(ri):
		case ri.ErrCode == primitive.ErrorCodeUnprepared:
			r.Violate(mon.Violation{Signature: "C08/unprepared-reached-client/pipelined-reprepare-" + how, Detail: fmt.Sprintf("%s: client received UNPREPARED for request %s (attempts: %s)", key, q.tok, describe(Traces(bed.Log.Snapshot()[mark:])[q.tok])), Scenario: scenario, Witness: historyOf(bed.Log.Snapshot()[mark:], cl.ID, q.st, q.tok)})
		default:
			bad++
			sample = fmt.Sprintf("%s %q", ri.Kind, ri.ErrMsg)
		}
	}
	if unanswered > 0 {
		// premise of "answered": nothing is left unanswered at the backend (every arrival was answered or its connection dropped)
		r.Violate(mon.Violation{Signature: "C08/no-reply/pipelined-reprepare-" + how, Detail: fmt.Sprintf("%s: %d of %d pipelined EXECUTEs were never answered after the re-PREPARE on host %d %s (re-PREPAREs seen by that host: %d)", key, unanswered, total, forgetful, map[string]string{"drop": "lost its connection", "error": "was refused"}[how], atomic.LoadInt32(&preparesSeen)),
			Scenario: scenario, Witness: historyOf(bed.Log.Snapshot()[mark:], cl.ID, reqs[0].st, reqs[0].tok)})
	}
	if bad > 0 {
		r.Violate(mon.Violation{Signature: "C08/execute-failed/pipelined-reprepare-" + how, Detail: fmt.Sprintf("%s: %d of %d EXECUTEs failed although another host can execute them (e.g. %s)", key, bad, total, sample), Scenario: scenario})
	}
	r.Obs("pipelined_reprepare_cases", 1)
	if atomic.LoadInt32(&preparesSeen) > 0 {
		r.NonTrivial(key)
	}
}

// c08OddStatements: statements of kinds the proxy does not classify (TRUNCATE, DDL, GRANT, LIST ...), lightweight
// transactions, counter updates and a USE-free batch: PREPAREd through the proxy they are in its prepared cache like any
// other, so their EXECUTE succeeds on every host - hosts that forgot them included - and is never answered UNPREPARED.
func c08OddStatements(c *Ctx, idx int) {
	r := c.R
	stmts := []string{"TRUNCATE ks1.t", "TRUNCATE TABLE ks1.t", "CREATE TABLE IF NOT EXISTS ks1.t2 (k text PRIMARY KEY)", "ALTER TABLE ks1.t WITH comment = ?", "DROP TABLE IF EXISTS ks1.t3",
		"GRANT SELECT ON ks1.t TO role1", "LIST ROLES", "CREATE INDEX IF NOT EXISTS ON ks1.t (v)", "UPDATE ks1.t SET c = c + 1 WHERE k = ?", "UPDATE ks1.t SET v = ? WHERE k = ? IF v = ?",
		"INSERT INTO ks1.t (k, v) VALUES (?, now())", "DELETE FROM ks1.t WHERE k = ? IF EXISTS", "SELECT JSON * FROM ks1.t WHERE k = ?", "BEGIN BATCH INSERT INTO ks1.t (k) VALUES (?) APPLY BATCH",
		"  select * from ks1.t where k = ?", "/* hint */ SELECT * FROM ks1.t WHERE k = ?",
		// "@": the client has changed its keyspace (USE ks1) and the statement relies on it: the re-prepare has to happen on a
		// connection in that keyspace (the backend's id for the text depends on it)
		"@SELECT * FROM t WHERE k = ?", "@INSERT INTO t (k, v) VALUES (?, 1)", "@UPDATE t SET c = c + 1 WHERE k = ?"}
	stmt := stmts[idx%len(stmts)]
	inKeyspace := strings.HasPrefix(stmt, "@")
	stmt = strings.TrimPrefix(stmt, "@")
	hosts := 2 + (idx/len(stmts))%2
	comp := []string{"", "lz4", "snappy"}[(idx/3)%3]
	key := fmt.Sprintf("odd-statement/%q/h%d/%s", stmt, hosts, comp)
	if inKeyspace {
		key += "/after-use"
	}
	scenario := map[string]interface{}{"kind": "c08-odd-statement", "idx": idx}
	c.Step("c08 %s", key)
	bed, err := px.NewBed(px.BedConfig{Hosts: hosts, NumConns: 1, Keyspaces: []string{"ks1"}, KeepBodies: true})
	if err != nil {
		r.Inconc("c08: cannot start bed: " + err.Error())
		return
	}
	defer bed.Close()
	bed.OnHook(nil)
	cl, err := bed.ReadyClient(primitive.ProtocolVersion4, comp)
	if err != nil {
		r.Inconc("c08: handshake: " + err.Error())
		return
	}
	defer cl.Close()
	if inKeyspace {
		if uf, err := cl.Call(2, &message.Query{Query: "USE ks1"}, 10*time.Second); err != nil || uf.OpCode != primitive.OpCodeResult {
			r.Inconc("c08: USE ks1 failed")
			return
		}
	}
	pf, err := cl.Call(1, &message.Prepare{Query: stmt}, 10*time.Second)
	if err != nil {
		r.Inconc("c08: PREPARE got no reply")
		return
	}
	pri := DecodeReply(comp, pf)
	if pri.Kind != "Prepared" {
		r.Obs("odd_statement_prepare_refused:"+pri.Kind, 1) // the backend's (or the proxy's) business; nothing to execute then
		return
	}
	id, _ := hex.DecodeString(pri.PrepID)
	for _, h := range bed.Cluster.Hosts {
		h.Forget()
	}
	for i := 0; i < 2*hosts+1; i++ {
		tok := NewTok()
		ex := &message.Execute{QueryId: id, Options: &message.QueryOptions{Consistency: primitive.ConsistencyLevelOne, PositionalValues: []*primitive.Value{primitive.NewValue([]byte(tok))}}}
		f, err := cl.Call(int16(10+i), ex, 10*time.Second)
		r.Eval(1)
		if err != nil || f == nil {
			r.Violate(mon.Violation{Signature: "C08/no-reply/odd-statement", Detail: key + ": EXECUTE got no reply", Scenario: scenario})
			return
		}
		ri := DecodeReply(comp, f)
		switch {
		case ri.ErrCode == primitive.ErrorCodeUnprepared:
			r.Violate(mon.Violation{Signature: "C08/unprepared-reached-client/odd-statement", Detail: fmt.Sprintf("%s: the statement was PREPAREd through the proxy a moment ago; EXECUTE #%d of the returned id was answered UNPREPARED (%q)", key, i, ri.ErrMsg), Scenario: scenario})
			return
		case strings.HasPrefix(ri.Kind, "Error:"):
			r.Violate(mon.Violation{Signature: "C08/execute-failed/odd-statement/" + ri.Kind, Detail: fmt.Sprintf("%s: EXECUTE #%d answered %s %q although every host can re-prepare and execute it", key, i, ri.Kind, ri.ErrMsg), Scenario: scenario})
			return
		}
	}
	r.Obs("odd_statement_cases", 1)
	r.NonTrivial(key)
}

func clipStr(s string, n int) string {
	if len(s) > n {
		return s[:n] + "..."
	}
	return s
}
