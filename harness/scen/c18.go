//go:build verif

package scen

import (
	"fmt"
	"net"
	"runtime"
	"strings"
	"sync"
	"sync/atomic"
	"time"

	"github.com/datastax/go-cassandra-native-protocol/message"
	"github.com/datastax/go-cassandra-native-protocol/primitive"

	"verif/fakecass"
	"verif/mon"
	"verif/px"
	"verif/rawcql"
)

func init() {
	Register(&Runner{Prop: "C18", Level: "exploration",
		Rule:    "the concurrent scenario families of C01 (storm, mass death, gate-ordered deaths), C02 (reorder rounds, re-prepare race), C07 (concurrent USE), C08 (re-prepare on forgetful / late hosts), C14 (register/disconnect during bursts, failover) and C16 (topology changes, kills, mutes) run in a -race build on all cores, each repeated with different seeds; every 'WARNING: DATA RACE' block is collected (halt_on_error=0), deduplicated by the pair of top-most repository frames; distinct = (family, seed) runs; non-trivial = the family reached a contended hook point from >= 2 goroutines",
		Shards:  shards(11, 12),
		Timeout: timeouts(15*time.Minute, 90*time.Minute),
		Race:    true,
		Run:     runC18})
}

type c18Family struct {
	Name string
	Run  func(c *Ctx, rep int)
}

func c18Families() []c18Family {
	return []c18Family{
		{"C01/storm", func(c *Ctx, rep int) {
			storm(c, 100+rep, stormParams{Hosts: 3, Conns: 2, Clients: 16, PerClient: 250, Window: 128, DeathRate: 12, Silence: rep%2 == 0, Compress: true}, []string{"C02"})
		}},
		{"C01/mass-death", func(c *Ctx, rep int) { massDeath(c, rep, 2+rep%3, 600) }},
		{"C01/death-order", func(c *Ctx, rep int) {
			exts := linearExtensions()
			for k := 0; k < 6; k++ {
				deathOrder(c, k, exts[(rep*37+k*29)%len(exts)], []string{"idem", "nonidem", "mixed"}[k%3])
			}
		}},
		{"C02/reorder", func(c *Ctx, rep int) { reorderRounds(c, rep, 1+rep%2, 1+rep%2, 8, 150, 4, 5) }},
		{"C02/reprepare-race", func(c *Ctx, rep int) { reprepareRace(c, rep, 3, 2, 40, 0) }},
		{"C07/concurrent-use", func(c *Ctx, rep int) {
			c07History(c, 3*rep, 2, 2, 10, 40, false, true)
			c07History(c, 3*rep+1, 2, 1, 8, 40, true, false)
		}},
		{"C08/reprepare", func(c *Ctx, rep int) {
			c08Run(c, rep, c08Case{Hosts: 3, Conns: 2, Forget: []int{1, 2, 3}, Comp: "lz4", PrepComp: "", Ver: 4, PrepVer: 4, Kind: KExecute, Reprep: "ok", Idem: true})
			c08Run(c, rep, c08Case{Hosts: 3, Conns: 1, Comp: "", PrepComp: "", Ver: 4, PrepVer: 4, Kind: KExecute, Reprep: "ok", LateHost: true, Idem: true})
			c08Run(c, rep, c08Case{Hosts: 2, Conns: 1, Forget: []int{1}, Ver: 4, PrepVer: 4, Kind: KExecute, Reprep: "drop", Idem: true})
		}},
		{"C08/mixed-version-reprepare", func(c *Ctx, rep int) { mixedVersionReprepare(c, rep) }},
		{"C14/bursts", func(c *Ctx, rep int) {
			for k := 0; k < 4; k++ {
				c14History(c, rep*4+k)
			}
		}},
		{"C16/topology-under-traffic", func(c *Ctx, rep int) { topologyUnderTraffic(c, rep) }},
		{"C17/hostile-under-traffic", func(c *Ctx, rep int) { hostileUnderTraffic(c, rep) }},
		{"C16/topology+heal", func(c *Ctx, rep int) {
			c16Topology(c, rep, 4, []topoStep{{"add", 3}, {"remove", 2}, {"add", 4}, {"restart", 3}}, rep%2 == 0, false)
			for k, f := range []string{"kill-pooled", "kill-control", "kill-all", "mute-pooled"} {
				c16Heal(c, rep+k, 2+k%2, 1+k%2, f)
			}
		}},
	}
}

var c18Points = []string{"proxy.sessions.store", "clientconn.closing.flagged", "clientconn.send.registered", "clientconn.receive.dispatch", "requestsender.stream.set", "connpool.slot.clear", "connpool.slot.set"}

func runC18(c *Ctx) {
	r := c.R
	r.Assume("the race detector flags unordered conflicting accesses it observes; interleavings whose accesses it did not see unordered are not covered")
	r.Assume("clients behave like drivers (await SUPPORTED/READY before the next handshake step)")
	r.Require("family_runs")
	fams := c18Families()
	reps := c.Pick(2, 10)
	r.Extra["gomaxprocs"] = runtime.GOMAXPROCS(0)
	n := 0
	for rep := 0; rep < reps; rep++ {
		for fi, f := range fams {
			j := rep*len(fams) + fi
			if !c.Mine(j) {
				continue
			}
			before := map[string]int64{}
			for _, p := range c18Points {
				before[p] = px.HookCount(p)
			}
			// the families report their own properties' violations into a scratch result: C18 only cares about races
			sub := &Ctx{Prop: c.Prop, Tier: "quick", Seed: c.Seed + int64(rep), Shard: 0, NShards: 1, R: mon.NewResult("C18"), Dir: c.Dir}
			sub.prog = c.prog
			c.Step("C18 family %s rep %d", f.Name, rep)
			f.Run(sub, rep)
			n++
			r.Eval(1)
			r.Obs("family_runs", 1)
			r.Obs("family:"+f.Name, 1)
			r.Obs("requests_in_families", sub.R.Evaluations)
			for _, k := range []string{"hostile_inputs_under_traffic", "good_requests_beside_hostile_inputs", "topology_under_traffic_requests"} {
				if v := sub.R.Observed[k]; v > 0 {
					r.Obs(k, v)
				}
			}
			contended := 0
			for _, p := range c18Points {
				d := px.HookCount(p) - before[p]
				r.Obs("hook:"+p, int(d))
				if d >= 2 {
					contended++
				}
			}
			if len(sub.R.Violations) > 0 {
				r.Obs("functional_violations_seen_in_families(not judged here)", len(sub.R.Violations))
				for _, v := range sub.R.Violations {
					fmt.Printf("note: family %s reported %s (judged by its own property's check)\n", f.Name, v.Signature)
				}
			}
			if contended >= 1 {
				r.NonTrivial(fmt.Sprintf("%s/seed%d", f.Name, sub.Seed))
			}
			if rep == 0 {
				r.Sample(map[string]interface{}{"family": f.Name, "seed": sub.Seed, "requests": sub.R.Evaluations})
			}
		}
	}
}

// topologyUnderTraffic: hosts leave and join (through the control connection's refresh) while paced clients keep
// sending requests, so query plans are created and consumed while the load balancer and the sessions are updated.
func topologyUnderTraffic(c *Ctx, rep int) {
	r := c.R
	c.Step("topology-under-traffic rep=%d", rep)
	// the nodes differ from each other (a rolling upgrade): whatever the proxy reads off the node its control connection has
	// moved to is something a client goroutine may be reading at that moment
	bed, err := px.NewBed(px.BedConfig{Hosts: 4, NumConns: 1 + rep%2, Keyspaces: []string{"ks1"}, Unlisted: []int{4}, RefreshWindow: 15 * time.Millisecond, ReconnectBase: time.Millisecond, ReconnectMax: 3 * time.Millisecond,
		Tune: func(f *fakecass.Config) {
			f.HostRelease = map[int]string{2: "4.1.5", 3: "3.11.17", 4: "5.0.1"}
			f.HostCQL = map[int]string{2: "3.4.6", 3: "3.4.4", 4: "3.4.7"}
		}})
	if err != nil {
		r.Inconc("topology-under-traffic: cannot start bed: " + err.Error())
		return
	}
	defer bed.Close()
	bed.OnHook(nil)
	// a quarter of the requests is answered UNAVAILABLE on its first attempt (the plan is walked on, later), and the answers
	// of some are withheld across the topology steps
	var holdNow, burst int32
	bed.Cluster.SetScript(func(a *fakecass.Arrival) fakecass.Outcome {
		if a.Token == "" || a.N > 1 {
			return fakecass.Outcome{}
		}
		switch a.Token[len(a.Token)-1] {
		case '0', '4', '8', 'c':
			o := fakecass.Err("Unavailable", &message.Unavailable{ErrorMessage: a.Token + " unavailable", Consistency: primitive.ConsistencyLevelOne, Required: 1, Alive: 0})
			o.Hold = atomic.LoadInt32(&holdNow) == 1
			return o
		}
		return fakecass.Outcome{}
	})
	stop := make(chan struct{})
	var wg sync.WaitGroup
	var sent int64
	for i := 0; i < 16; i++ {
		cl, err := bed.ReadyClient(primitive.ProtocolVersion4, "")
		if err != nil {
			continue
		}
		wg.Add(1)
		go func(i int, cl *rawcql.Client) {
			defer wg.Done()
			defer cl.Close()
			for k := 0; ; k++ {
				select {
				case <-stop:
					return
				default:
				}
				if atomic.LoadInt32(&burst) == 0 || i%2 == 1 { // half of the clients drop their pacing while a topology event is being applied
					time.Sleep(time.Duration(1+i%3) * time.Millisecond)
				}
				switch (k + i) % 8 {
				case 1:
					_, _ = cl.Call(int16(k%20000), &message.Options{}, 5*time.Second)
				case 3:
					_, _ = cl.Call(int16(k%20000), &message.Query{Query: []string{"SELECT * FROM system.local", "SELECT * FROM system.peers"}[k%2], Options: &message.QueryOptions{Consistency: primitive.ConsistencyLevelOne}}, 5*time.Second)
				case 5:
					_, _ = cl.Call(int16(k%20000), &message.Prepare{Query: "SELECT key, rpc_address FROM system.local"}, 5*time.Second)
				default:
					_, _ = cl.CallF(BuildRequest(primitive.ProtocolVersion4, int16(k%20000), KQuery, true, NewTok(), primitive.ConsistencyLevelOne), 5*time.Second)
				}
				atomic.AddInt64(&sent, 1)
			}
		}(i, cl)
	}
	peers := func() int {
		n := 0
		for _, e := range bed.Log.Snapshot() {
			if e.Src == "backend" && e.K == "reply" && e.Outcome == "System:peers" {
				n++
			}
		}
		return n
	}
	step := func(host int, listed bool) {
		before := peers()
		bed.Cluster.SetListed(host, listed)
		ct := primitive.TopologyChangeTypeRemovedNode
		if listed {
			ct = primitive.TopologyChangeTypeNewNode
		}
		atomic.StoreInt32(&holdNow, 1) // retry-next answers are withheld from now on ...
		time.Sleep(10 * time.Millisecond)
		atomic.StoreInt32(&burst, 1) // plans are drawn and walked at the highest rate while the load balancer's host list is replaced
		bed.Cluster.Emit(&message.TopologyChangeEvent{ChangeType: ct, Address: &primitive.Inet{Addr: net.ParseIP(bed.Cluster.HostIP(host)), Port: int32(bed.Cluster.Port)}})
		waitFor(func() bool { return peers() > before }, 5*time.Second)
		time.Sleep(10 * time.Millisecond)
		atomic.StoreInt32(&burst, 0)
		time.Sleep(20 * time.Millisecond)
		atomic.StoreInt32(&holdNow, 0) // ... and arrive after the change has been applied: plans drawn before it are walked on
		bed.Cluster.ReleaseHeld(nil)
		time.Sleep(30 * time.Millisecond)
	}
	// removals of hosts that are not last in the sorted list, additions in between
	// ... and the control connection is lost and re-established between the steps (its node data are read again)
	ctlLoss := func() {
		for _, x := range bed.Cluster.EstablishedControlConns() {
			x.Kill(false)
		}
		waitFor(func() bool { return len(bed.Cluster.EstablishedControlConns()) >= 1 }, 5*time.Second)
		time.Sleep(20 * time.Millisecond)
	}
	for cycle := 0; cycle < 3; cycle++ { // three times: the racing accesses are a matter of which plans are in flight
		step(2, false)
		ctlLoss()
		step(4, true)
		step(3, false)
		ctlLoss()
		step(2, true)
		step(3, true)
		ctlLoss()
		step(4, false)
	}
	step(2, false)
	close(stop)
	wg.Wait()
	r.Eval(int(sent))
	r.Obs("topology_under_traffic_requests", int(sent))
}

// hostileUnderTraffic: the hostile client inputs of C17 (those that cannot make the process allocate gigabytes) are sent
// by several connections at once to an in-process proxy while well-behaved clients keep using it and a schema event is
// broadcast now and then, so that the error and close paths of client connections run concurrently with normal traffic
// under the race detector.
func hostileUnderTraffic(c *Ctx, rep int) {
	r := c.R
	c.Step("hostile-under-traffic rep=%d", rep)
	bed, err := px.NewBed(px.BedConfig{Hosts: 2, NumConns: 1 + rep%2, Keyspaces: []string{"ks1"}})
	if err != nil {
		r.Inconc("hostile-under-traffic: cannot start bed: " + err.Error())
		return
	}
	defer bed.Close()
	bed.OnHook(nil)
	rng := c.Rng(7000 + rep)
	var inputs []hostile
	for _, h := range c17ClientInputs(rng, "4", 2200, 1<<20) {
		k := h.Kind
		if strings.HasPrefix(k, "length-claim/") || strings.HasPrefix(k, "header/body-length") || strings.HasPrefix(k, "nesting/") || strings.HasPrefix(k, "random-bytes") ||
			strings.HasSuffix(k, "/byte-flip") || strings.HasSuffix(k, "/4-random-bytes") || strings.HasPrefix(k, "snappy/huge") || h.Keep || len(h.Bytes) > 1<<17 {
			continue // could claim huge lengths (C17 judges those against the real binary with a memory cap)
		}
		inputs = append(inputs, h)
	}
	rng.Shuffle(len(inputs), func(i, j int) { inputs[i], inputs[j] = inputs[j], inputs[i] })
	if len(inputs) > 600 {
		inputs = inputs[:600]
	}
	stop := make(chan struct{})
	var wg sync.WaitGroup
	var good int64
	for i := 0; i < 6; i++ {
		cl, err := bed.ReadyClient(primitive.ProtocolVersion4, []string{"", "lz4"}[i%2])
		if err != nil {
			continue
		}
		wg.Add(1)
		go func(i int, cl *rawcql.Client) {
			defer wg.Done()
			defer cl.Close()
			if i%3 == 0 {
				_, _ = cl.Call(1, &message.Register{EventTypes: []primitive.EventType{primitive.EventTypeSchemaChange}}, 5*time.Second)
			}
			for k := 0; ; k++ {
				select {
				case <-stop:
					return
				default:
				}
				_, _ = cl.CallF(BuildRequest(primitive.ProtocolVersion4, int16(2+k%20000), KQuery, true, NewTok(), primitive.ConsistencyLevelOne), 5*time.Second)
				atomic.AddInt64(&good, 1)
			}
		}(i, cl)
	}
	p := &c17Proc{addr: bed.Addr}
	ch := make(chan hostile)
	var hw sync.WaitGroup
	for w := 0; w < 8; w++ {
		hw.Add(1)
		go func() {
			defer hw.Done()
			for h := range ch {
				p.sendHostile(h)
			}
		}()
	}
	for i, h := range inputs {
		ch <- h
		if i%100 == 50 {
			bed.Cluster.Emit(&message.SchemaChangeEvent{ChangeType: primitive.SchemaChangeTypeCreated, Target: primitive.SchemaChangeTargetKeyspace, Keyspace: fmt.Sprintf("ks_h%d", i)})
		}
	}
	close(ch)
	hw.Wait()
	close(stop)
	wg.Wait()
	r.Eval(len(inputs) + int(good))
	r.Obs("hostile_inputs_under_traffic", len(inputs))
	r.Obs("good_requests_beside_hostile_inputs", int(good))
}

// mixedVersionReprepare: clients of protocol versions 3, 4 and 5 (their sessions are separate, the prepared cache is one)
// have prepared the same statements; the hosts forget them again and again while all clients execute, so re-prepares of one
// cached PREPARE run for several versions and on several backend connections at once.
func mixedVersionReprepare(c *Ctx, rep int) {
	r := c.R
	c.Step("mixed-version-reprepare rep=%d", rep)
	bed, err := px.NewBed(px.BedConfig{Hosts: 2, NumConns: 1 + rep%2, Keyspaces: []string{"ks1"}, MaxVersion: primitive.ProtocolVersion5, ReconnectBase: time.Millisecond, ReconnectMax: 3 * time.Millisecond})
	if err != nil {
		r.Inconc("mixed-version-reprepare: cannot start bed: " + err.Error())
		return
	}
	defer bed.Close()
	bed.OnHook(nil)
	var clients []*rawcql.Client
	for i, v := range []primitive.ProtocolVersion{3, 4, 5, 4, 3, 4} {
		cl, err := bed.ReadyClient(v, []string{"", "lz4"}[i%2])
		if err != nil {
			r.Inconc("mixed-version-reprepare: handshake: " + err.Error())
			return
		}
		defer cl.Close()
		if err := PrepareStandard(bed, cl, true); err != nil {
			r.Inconc("mixed-version-reprepare: prepare: " + err.Error())
			return
		}
		clients = append(clients, cl)
	}
	stop := make(chan struct{})
	var bg sync.WaitGroup
	bg.Add(1)
	go func() {
		defer bg.Done()
		for i := 0; ; i++ {
			select {
			case <-stop:
				return
			case <-time.After(2 * time.Millisecond):
				bed.Cluster.Hosts[i%2].Forget()
			}
		}
	}()
	var wg sync.WaitGroup
	var sent int64
	for ci, cl := range clients {
		wg.Add(1)
		go func(ci int, cl *rawcql.Client) {
			defer wg.Done()
			for k := 0; k < 150; k++ {
				_, _ = cl.CallF(BuildRequest(cl.Version, int16(k+1), KExecute, k%2 == 0, NewTok(), primitive.ConsistencyLevelOne), 5*time.Second)
				atomic.AddInt64(&sent, 1)
			}
		}(ci, cl)
	}
	wg.Wait()
	close(stop)
	bg.Wait()
	r.Eval(int(sent))
	r.Obs("mixed_version_reprepare_requests", int(sent))
}
